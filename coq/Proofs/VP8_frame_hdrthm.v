(* VP8 frame-level parsing, part 2: the theorem read_frame_header = Spec.VP8.parse_header.
   For every payload the reference parser accepts (with the reserved colour-space bit clear and no partition starting with 0xFF, the
   hypothesis of C15 inherited through VP8_parse_base.linked_init): Vp8Decoder::new followed by read_frame_header returns Ok with a state
   whose every field is the corresponding field of the reference header (header_rel), the first-partition reader linked with the
   reference reader state, and every token partition initialised and linked with bd_init of the reference's partition; or it returns
   BitStreamError and the reference reader has read beyond the first partition (more than len + 1 bytes needed). *)
From Coq Require Import ZArith Lia List Bool.
From WebP Require Import Lib.Res Gen.Kernels Gen.Tables Lib.ZBits Proofs.C15_num Proofs.C15_ideal Proofs.C15_model
  Proofs.C15_ops Proofs.C15_reqs Proofs.C15_main Spec.RfcBoolDec Spec.BoolDec Spec.VP8Tables Spec.VP8 Model.ArithDec
  Model.Vp8Parse Proofs.VP8_tables Proofs.VP8_quant Proofs.VP8_parse_base Proofs.VP8_parse_coeffs Proofs.VP8_parse_mbheader Proofs.VP8_parse_header Proofs.VP8_parse_residual Proofs.VP8_frame_base Proofs.VP8_frame_header.
Import ListNotations.
Open Scope Z_scope.
Open Scope res_scope.

(* ---------- what the programs can return, for any bit reader ---------- *)
Lemma g_lit_bound {St} (bit : St -> Z -> bool * St) n s : 0 <= n <= 8 -> 0 <= fst (interpG bit (g_lit n) s) < 2 ^ n.
Proof.
  intros Hn. unfold g_lit. rewrite interpG_lift.
  pose proof (lit_bound bit (Z.to_nat n) 0 s ltac:(lia) ltac:(lia)) as Hl. rewrite Z2Nat.id in Hl by lia.
  specialize (Hl ltac:(pose proof (pow2_le n 8 ltac:(lia)); change (2 ^ 8) with 256 in *; lia)). lia.
Qed.

Lemma bind_inv {St A B} (bit : St -> Z -> bool * St) (g : gprog A) (f : A -> gprog B) s :
  fst (interpG bit (gbind g f) s) = fst (interpG bit (f (fst (interpG bit g s))) (snd (interpG bit g s))).
Proof. rewrite interpG_bind. destruct (interpG bit g s); reflexivity. Qed.

Lemma G_arr_bound {St} (bit : St -> Z -> bool * St) k n : 0 <= n <= 8 -> forall s,
  length (fst (interpG bit (G_arr k n) s)) = k /\ Forall (fun x => - 2 ^ n < x < 2 ^ n) (fst (interpG bit (G_arr k n) s)).
Proof.
  intros Hn. induction k as [|k IH]; intros s; cbn [G_arr]; [cbn [interpG fst length]; split; [reflexivity | constructor]|].
  rewrite bind_inv.
  assert (Hb : - 2 ^ n < fst (interpG bit (g_signed n) s) < 2 ^ n) by (unfold g_signed; rewrite interpG_lift; apply signed_bound; exact Hn).
  destruct (interpG bit (g_signed n) s) as [x s1]. cbn [fst snd] in *.
  rewrite bind_inv. destruct (IH s1) as [L F]. destruct (interpG bit (G_arr k n) s1) as [l s2]. cbn [interpG fst snd length] in *.
  split; [lia | constructor; assumption].
Qed.

Lemma G_probs_bound {St} (bit : St -> Z -> bool * St) k : forall s,
  length (fst (interpG bit (G_probs k) s)) = k /\ Forall byte (fst (interpG bit (G_probs k) s)).
Proof.
  induction k as [|k IH]; intros s; cbn [G_probs]; [cbn [interpG fst length]; split; [reflexivity | constructor]|].
  rewrite bind_inv. destruct (interpG bit g_flag s) as [u s1]. cbn [fst snd]. rewrite bind_inv.
  assert (Hp : byte (fst (interpG bit (if u then g_lit 8 else GRet 255) s1))).
  { destruct u; [pose proof (g_lit_bound bit 8 s1 ltac:(lia)) as H; change (2 ^ 8) with 256 in H; unfold byte; lia | cbn [interpG fst]; unfold byte; lia]. }
  destruct (interpG bit (if u then g_lit 8 else GRet 255) s1) as [p s2]. cbn [fst snd] in *. rewrite bind_inv.
  destruct (IH s2) as [L F]. destruct (interpG bit (G_probs k) s2) as [l s3]. cbn [interpG fst snd length] in *.
  split; [lia | constructor; assumption].
Qed.

Definition dat_ok (dat : option (bool * list Z * list Z)) : Prop :=
  match dat with
  | Some (mode, q, l) => length q = 4%nat /\ Forall (fun x => -128 < x < 128) q /\ length l = 4%nat /\ Forall (fun x => -64 < x < 64) l
  | None => True
  end.
Definition segu_ok (r : seguR) : Prop :=
  dat_ok (snd (fst r)) /\ match snd r with Some p => length p = 3%nat /\ Forall byte p /\ fst (fst r) = true | None => fst (fst r) = false end.

Lemma G_segu_bound {St} (bit : St -> Z -> bool * St) s : segu_ok (fst (interpG bit G_segu s)).
Proof.
  unfold G_segu. rewrite bind_inv. destruct (interpG bit g_flag s) as [um s1]. cbn [fst snd]. rewrite bind_inv.
  destruct (interpG bit g_flag s1) as [ud s2]. cbn [fst snd]. rewrite bind_inv.
  assert (Hd : dat_ok (fst (interpG bit (if ud then gbind g_flag (fun mode => gbind (G_arr 4 7) (fun q => gbind (G_arr 4 6) (fun l => GRet (Some (mode, q, l))))) else GRet None) s2))).
  { destruct ud; [|exact I]. rewrite bind_inv. destruct (interpG bit g_flag s2) as [mode s3]. cbn [fst snd]. rewrite bind_inv.
    destruct (G_arr_bound bit 4 7 ltac:(lia) s3) as [Lq Fq]. destruct (interpG bit (G_arr 4 7) s3) as [q s4]. cbn [fst snd] in *. rewrite bind_inv.
    destruct (G_arr_bound bit 4 6 ltac:(lia) s4) as [Ll Fl]. destruct (interpG bit (G_arr 4 6) s4) as [l s5]. cbn [interpG fst snd] in *.
    change (2 ^ 7) with 128 in Fq. change (2 ^ 6) with 64 in Fl. repeat split; assumption. }
  destruct (interpG bit (if ud then _ else _) s2) as [dat s3]. cbn [fst snd] in *. rewrite bind_inv.
  destruct um.
  - rewrite bind_inv. destruct (G_probs_bound bit 3 s3) as [L F]. destruct (interpG bit (G_probs 3) s3) as [p s4]. cbn [interpG fst snd] in *.
    unfold segu_ok. cbn [fst snd]. split; [exact Hd | repeat split; assumption].
  - cbn [interpG fst snd]. unfold segu_ok. cbn [fst snd]. split; [exact Hd | reflexivity].
Qed.

Definition lf_ok (lf : lfR) : Prop :=
  match lf with Some (Some (r, m)) => length r = 4%nat /\ length m = 4%nat /\ Forall (fun x => -64 < x < 64) r /\ Forall (fun x => -64 < x < 64) m | _ => True end.

Lemma G_lf_bound {St} (bit : St -> Z -> bool * St) lfe s : lf_ok (fst (interpG bit (G_lf lfe) s)) /\ is_some (fst (interpG bit (G_lf lfe) s)) = lfe.
Proof.
  destruct lfe; unfold G_lf; [|split; [exact I | reflexivity]]. rewrite bind_inv. unfold G_lfadj. rewrite bind_inv.
  destruct (interpG bit g_flag s) as [f s1]. cbn [fst snd]. destruct f; [|cbn [interpG fst snd]; split; [exact I | reflexivity]].
  rewrite bind_inv. destruct (G_arr_bound bit 4 6 ltac:(lia) s1) as [Lr Fr]. destruct (interpG bit (G_arr 4 6) s1) as [r s2]. cbn [fst snd] in *. rewrite bind_inv.
  destruct (G_arr_bound bit 4 6 ltac:(lia) s2) as [Lm Fm]. destruct (interpG bit (G_arr 4 6) s2) as [m s3]. cbn [interpG fst snd] in *.
  change (2 ^ 6) with 64 in *. split; [repeat split; assumption | reflexivity].
Qed.

Definition mid_ok (o : Z * Z * (bool * option seguR * mid3R)) : Prop :=
  let '(cs, pt, (se, sg, (ft, fl, sh, lf, lg))) := o in
  0 <= pt < 2 /\ (match sg with Some r => segu_ok r /\ se = true | None => se = false end) /\
  0 <= fl < 64 /\ 0 <= sh < 8 /\ lf_ok lf /\ 0 <= lg < 4.

Lemma G_mid_bound {St} (bit : St -> Z -> bool * St) s : mid_ok (fst (interpG bit G_mid s)).
Proof.
  unfold G_mid, G_mid2, G_mid3, G_mid4. rewrite bind_inv. destruct (interpG bit (g_lit 1) s) as [cs s1]. cbn [fst snd]. rewrite bind_inv.
  pose proof (g_lit_bound bit 1 s1 ltac:(lia)) as Hpt. destruct (interpG bit (g_lit 1) s1) as [pt s2]. cbn [fst snd] in *. change (2 ^ 1) with 2 in Hpt.
  rewrite bind_inv. rewrite bind_inv. destruct (interpG bit g_flag s2) as [se s3]. cbn [fst snd]. rewrite bind_inv.
  assert (Hsg : match fst (interpG bit (G_sg se) s3) with Some r => segu_ok r /\ se = true | None => se = false end).
  { destruct se; unfold G_sg; [|reflexivity]. rewrite bind_inv. pose proof (G_segu_bound bit s3) as H.
    destruct (interpG bit G_segu s3) as [r s4]. cbn [interpG fst snd] in *. split; [exact H | reflexivity]. }
  destruct (interpG bit (G_sg se) s3) as [sg s4]. cbn [fst snd] in *. rewrite bind_inv. rewrite bind_inv.
  destruct (interpG bit g_flag s4) as [ft s5]. cbn [fst snd]. rewrite bind_inv.
  pose proof (g_lit_bound bit 6 s5 ltac:(lia)) as Hfl. destruct (interpG bit (g_lit 6) s5) as [fl s6]. cbn [fst snd] in *. change (2 ^ 6) with 64 in Hfl.
  rewrite bind_inv.
  pose proof (g_lit_bound bit 3 s6 ltac:(lia)) as Hsh. destruct (interpG bit (g_lit 3) s6) as [sh s7]. cbn [fst snd] in *. change (2 ^ 3) with 8 in Hsh.
  rewrite bind_inv. destruct (interpG bit g_flag s7) as [lfe s8]. cbn [fst snd]. rewrite bind_inv.
  destruct (G_lf_bound bit lfe s8) as [Hlf _]. destruct (interpG bit (G_lf lfe) s8) as [lf s9]. cbn [fst snd] in *. rewrite bind_inv.
  pose proof (g_lit_bound bit 2 s9 ltac:(lia)) as Hlg. destruct (interpG bit (g_lit 2) s9) as [lg s10]. cbn [fst snd interpG] in *. change (2 ^ 2) with 4 in Hlg.
  unfold mid_ok. repeat split; try assumption; try lia.
Qed.

Lemma G_skip_bound {St} (bit : St -> Z -> bool * St) s : match fst (interpG bit G_skip s) with Some x => 0 <= x <= 255 | None => True end.
Proof.
  unfold G_skip. rewrite bind_inv. destruct (interpG bit (g_lit 1) s) as [us s1]. cbn [fst snd]. destruct (us =? 1); [|exact I].
  rewrite bind_inv. pose proof (g_lit_bound bit 8 s1 ltac:(lia)) as H. destruct (interpG bit (g_lit 8) s1) as [x s2]. cbn [interpG fst snd] in *.
  change (2 ^ 8) with 256 in H. lia.
Qed.

(* ---------- the first request of a linked pair ---------- *)
Lemma first_bit data (Hbytes : Forall byte data) b d p : linked data b d -> 0 <= p <= 255 ->
  fst (cold_pure d p) = fst (bdbit b p) \/ fst (cold_pure d p) = false.
Proof.
  intros [r (Hr & [[i (Hi & Hs & Hm)] Hn] & Hns & Hnc)] Hp.
  destruct (spec_read_bool data Hbytes i r p Hi Hs Hp) as [r1 (E & Hs1 & Hn1)].
  destruct (bd_bit_rel data Hbytes i b r p Hi Hs Hr Hp) as [Eb _]. unfold rfcbit in Eb. rewrite E in Eb. cbn [fst] in Eb.
  destruct (sim_bit data Hbytes i d p Hi Hm Hp) as [(_ & Ebit & _) | (_ & Ebit & _)]; [left; congruence | right; exact Ebit].
Qed.

(* ---------- the fields of the composite states ---------- *)
Lemma mid_state_fields v cs pt se sg ft fl sh lf lg d :
  let v' := mid_state v (cs, pt, (se, sg, (ft, fl, sh, lf, lg))) d in
  v_b v' = d /\ v_r v' = v_r v /\
  v_frame v' = fi_set_filter (fi_set_pixel_type (v_frame v) pt) ft fl sh /\
  v_mbwidth v' = v_mbwidth v /\ v_mbheight v' = v_mbheight v /\ v_top v' = v_top v /\ v_left v' = v_left v /\
  v_segments_enabled v' = se /\
  v_segments_update_map v' = match sg with Some r => fst (fst r) | None => v_segments_update_map v end /\
  v_segment v' = match sg with Some r => segu_segments (v_segment v) (snd (fst r)) | None => v_segment v end /\
  v_segment_tree_nodes v' = match sg with Some r => segu_nodes (v_segment_tree_nodes v) (snd r) | None => v_segment_tree_nodes v end /\
  v_ref_delta v' = match lf with Some (Some rm) => fst rm | _ => v_ref_delta v end /\
  v_mode_delta v' = match lf with Some (Some rm) => snd rm | _ => v_mode_delta v end /\
  v_num_partitions v' = wrapU 8 (2 ^ lg) /\ v_partitions v' = v_partitions v /\ v_token_probs v' = v_token_probs v /\
  v_prob_skip_false v' = v_prob_skip_false v /\ v_prob_intra v' = v_prob_intra v.
Proof. destruct sg as [[[um dat] pr]|]; destruct lf as [[rm|]|]; destruct v; repeat split; reflexivity. Qed.

Lemma tail_state_fields v q P1 sp d :
  let v' := tail_state v (q, P1, sp) d in
  v_b v' = d /\ v_r v' = v_r v /\ v_frame v' = v_frame v /\ v_mbwidth v' = v_mbwidth v /\ v_mbheight v' = v_mbheight v /\
  v_top v' = v_top v /\ v_left v' = v_left v /\ v_segments_enabled v' = v_segments_enabled v /\
  v_segments_update_map v' = v_segments_update_map v /\
  v_segment v' = v_segment (quant_state v q d) /\ v_segment_tree_nodes v' = v_segment_tree_nodes v /\
  v_ref_delta v' = v_ref_delta v /\ v_mode_delta v' = v_mode_delta v /\ v_num_partitions v' = v_num_partitions v /\
  v_partitions v' = v_partitions v /\
  v_token_probs v' = zip_with (zip_with (zip_with (zip_with node_set_prob))) (v_token_probs v) P1 /\
  v_prob_skip_false v' = sp /\ v_prob_intra v' = v_prob_intra v.
Proof. destruct v; repeat split; reflexivity. Qed.

(* ---------- the statement ---------- *)
Definition first_partition (data : list Z) : list Z :=
  firstn (Z.to_nat (Z.shiftr (nth 0 data 0 + 256 * nth 1 data 0 + 65536 * nth 2 data 0) 5)) (skipn 10 data).
Definition no_ff_start (p : list Z) : bool := negb (nth 0 p 0 =? 255).

Definition segment_rel (h : header) (i : nat) (sg : Segment) : Prop :=
  sg_quantizer_level sg = nthZ (h_seg_quant h) (Z.of_nat i) 0 /\
  sg_loopfilter_level sg = nthZ (h_seg_filter h) (Z.of_nat i) 0 /\
  sg_delta_values sg = negb (h_absolute h) /\
  ((i < (if h_use_segment h then 4 else 1))%nat ->
   let q := segment_quant h (Z.of_nat i) in
   sg_ydc sg = q_y1dc q /\ sg_yac sg = q_y1ac q /\ sg_y2dc sg = q_y2dc q /\ sg_y2ac sg = q_y2ac q /\ sg_uvdc sg = q_uvdc q /\ sg_uvac sg = q_uvac q).

Definition header_rel (h : header) (v : Vp8) : Prop :=
  v_frame v = mkFI (h_width h) (h_height h) true (h_profile h) true (h_clamp_type h) (h_simple h) (h_level h) (h_sharpness h) /\
  v_mbwidth v = mb_w h /\ v_mbheight v = mb_h h /\
  v_top v = init_top_macroblocks (h_width h) /\ v_left v = hd MacroBlock_default (init_top_macroblocks (h_width h)) /\
  v_segments_enabled v = h_use_segment h /\ v_segments_update_map v = h_update_map h /\
  length (v_segment v) = 4%nat /\ (forall i, (i < 4)%nat -> segment_rel h i (nth i (v_segment v) Segment_default)) /\
  tree_nodes_from vp8_SEGMENT_ID_TREE (h_seg_probs h) = Ok (v_segment_tree_nodes v) /\
  v_ref_delta v = h_ref_lf_delta h /\ v_mode_delta v = h_mode_lf_delta h /\
  v_num_partitions v = h_num_parts h /\ length (v_partitions v) = 8%nat /\
  token_nodes_of (h_probas h) = Ok (v_token_probs v) /\
  v_prob_skip_false v = (if h_use_skip h then Some (h_skip_p h) else None) /\
  v_prob_intra v = 0 /\ v_r v = [].

(* what every header the reference parser returns satisfies (stated where it is established: on the linked branch) *)
Definition header_wf (h : header) : Prop :=
  tables_ok (h_probas h) /\ length (h_seg_probs h) = 3%nat /\ Forall byte (h_seg_probs h) /\ 0 <= h_skip_p h <= 255 /\
  (h_update_map h = true -> h_use_segment h = true) /\
  (h_num_parts h = 1 \/ h_num_parts h = 2 \/ h_num_parts h = 4 \/ h_num_parts h = 8) /\
  0 <= h_level h <= 63 /\ 0 <= h_sharpness h <= 7 /\
  length (h_seg_quant h) = 4%nat /\ Forall (fun x => -127 <= x <= 127) (h_seg_quant h) /\
  length (h_seg_filter h) = 4%nat /\ Forall (fun x => -63 <= x <= 63) (h_seg_filter h) /\
  length (h_ref_lf_delta h) = 4%nat /\ Forall (fun x => -63 <= x <= 63) (h_ref_lf_delta h) /\
  length (h_mode_lf_delta h) = 4%nat /\ Forall (fun x => -63 <= x <= 63) (h_mode_lf_delta h) /\
  quant_ranges (h_base_q h, h_dqy1_dc h, h_dqy2_dc h, h_dqy2_ac h, h_dquv_dc h, h_dquv_ac h).

Definition parts_wf (h : header) (parts : list (list Z)) : Prop :=
  length parts = Z.to_nat (h_num_parts h) /\ forall q, In q parts -> Forall byte q /\ C15_model.len q < 2 ^ 63.

Definition parts_linked (parts : list (list Z)) (v : Vp8) : Prop :=
  forall i, (i < length parts)%nat ->
  exists d, nth_error (v_partitions v) i = Some d /\ linked (nth i parts []) (bd_init (nth i parts [])) d.

Lemma new_ok data : exists stn tp, SEGMENT_TREE_NODE_DEFAULTS = Ok stn /\ token_nodes_of coeffs_proba0 = Ok tp /\ length stn = 3%nat /\
  tree_nodes_from vp8_SEGMENT_ID_TREE [255; 255; 255] = Ok stn /\
  Vp8_new data = Ok (mkVp8 data ArithDec.new 0 0 FrameInfo_default false false (repeat Segment_default 4) [0; 0; 0; 0] [0; 0; 0; 0]
                           (repeat ArithDec.new 8) 1 stn tp 0 None [] MacroBlock_default).
Proof.
  destruct read_coefficients_instance as [_ [tp Etp]].
  assert (Es : exists stn, SEGMENT_TREE_NODE_DEFAULTS = Ok stn /\ length stn = 3%nat) by (eexists; split; [vm_compute; reflexivity | reflexivity]).
  destruct Es as [stn [Es Ls]]. exists stn, tp. rewrite <- coeff_probs_normative.
  split; [exact Es|]. split; [exact Etp|]. split; [exact Ls|]. split; [exact Es|].
  unfold Vp8_new, COEFF_PROB_NODES. rewrite Es, Etp. reflexivity.
Qed.

Lemma land1_even x : (Z.land x 1 =? 0) = Z.even x.
Proof.
  change 1 with (Z.ones 1). rewrite Z.land_ones by lia. change (2 ^ 1) with 2. rewrite Zmod_even. destruct (Z.even x); reflexivity.
Qed.

Lemma header_of_eq b7 b9 w hh prof cs pt se sg ft fl sh lf lg q0 q1 q2 q3 q4 q5 P1 sp :
  header_of b7 b9 w hh prof (spec_of_mid (cs, pt, (se, sg, (ft, fl, sh, lf, lg)))) (spec_of_tail ((q0, q1, q2, q3, q4, q5), P1, sp)) =
  mkH w hh (Z.shiftr b7 6) (Z.shiftr b9 6) prof cs pt se (fst (fst (seg_of sg))) (fst (fst (snd (fst (seg_of sg))))) (snd (fst (snd (fst (seg_of sg)))))
      (snd (snd (fst (seg_of sg)))) (snd (seg_of sg)) ft fl sh (is_some lf) (fst (lf_of lf)) (snd (lf_of lf)) (Z.shiftl 1 lg)
      q0 q1 q2 q3 q4 q5 P1 (is_some sp) (match sp with Some x => x | None => 0 end).
Proof.
  unfold header_of, spec_of_mid, spec_of_tail. destruct (seg_of sg) as [[um [[ab q] f]] pr]. destruct (lf_of lf) as [rd md].
  rewrite !isone_b2z. reflexivity.
Qed.

Lemma tail_tables d P0 tp0 : wsafe d -> big d -> tables_ok P0 -> token_nodes_of P0 = Ok tp0 ->
  let o := fst (interpG cold_pure (G_tail P0) d) in
  tables_ok (snd (fst o)) /\ token_nodes_of (snd (fst o)) = Ok (zip_with (zip_with (zip_with (zip_with node_set_prob))) tp0 (snd (fst o))) /\
  quant_ranges (fst (fst o)) /\ match snd o with Some x => 0 <= x <= 255 | None => True end.
Proof.
  intros Hw Hbig HP0 Htp. cbv zeta. unfold G_tail. rewrite bind_inv.
  destruct (run_facts G_quant d Hw Hbig G_quant_probs) as [W1 B1]. destruct (quant_reads_model d Hw Hbig) as [_ RQ].
  destruct (interpG cold_pure G_quant d) as [q d1]. cbn [fst snd] in *. rewrite bind_inv.
  destruct (run_facts (g_lit 1) d1 W1 B1 (g_lit_probs 1)) as [W2 B2].
  destruct (interpG cold_pure (g_lit 1) d1) as [rf d2]. cbn [fst snd] in *. rewrite bind_inv.
  destruct (token_nodes_shape P0 _ Htp HP0) as [L4t Fn]. pose proof update_probs_shape as [LU FU].
  pose proof (token_nodes_proj P0 _ Htp HP0) as Eproj.
  destruct (model_p1 vp8_COEFF_UPDATE_PROBS FU tp0 d2 W2 B2 ltac:(lia) Fn) as (EM & W3 & B3 & L3 & F3).
  rewrite Eproj in *.
  destruct (interpG cold_pure (G_p1 vp8_COEFF_UPDATE_PROBS P0) d2) as [P1 d3]. cbn [fst snd] in *. rewrite bind_inv.
  pose proof (G_skip_bound cold_pure d3) as BSk.
  destruct (interpG cold_pure G_skip d3) as [sp d4]. cbn [interpG fst snd] in *.
  assert (HP1 : rows1_ok P1) by (split; [lia | exact F3]).
  split; [exact HP1|]. split; [apply token_nodes_set with (P := P0); assumption|]. split; [exact RQ | exact BSk].
Qed.

Lemma quant_upd_length k : forall i segs en q, length (quant_upd k i segs en q) = length segs.
Proof. induction k as [|k IH]; intros i segs en q; cbn [quant_upd]; [reflexivity|]. rewrite IH. apply upd_length. Qed.

Lemma quant_of_levels en q sg : sg_quantizer_level (quant_of en q sg) = sg_quantizer_level sg /\
  sg_loopfilter_level (quant_of en q sg) = sg_loopfilter_level sg /\ sg_delta_values (quant_of en q sg) = sg_delta_values sg.
Proof. destruct q as [[[[[a b] c] d] e] f]. repeat split. Qed.

Lemma seg_tree_set stn p : tree_nodes_from vp8_SEGMENT_ID_TREE [255; 255; 255] = Ok stn -> length p = 3%nat ->
  tree_nodes_from vp8_SEGMENT_ID_TREE p = Ok (zip_with node_set_prob stn p).
Proof.
  intros E L. do 4 (destruct p as [|? p]; try discriminate L). vm_compute in E. injection E as <-. vm_compute. reflexivity.
Qed.

Lemma seg_default_levels : Forall seg_level_ok (repeat Segment_default 4).
Proof. repeat constructor; unfold seg_level_ok; cbn; lia. Qed.

Definition segs_of (sg : option seguR) : list Segment :=
  match sg with Some r => segu_segments (repeat Segment_default 4) (snd (fst r)) | None => repeat Segment_default 4 end.

Lemma segs_of_facts sg se : match sg with Some r => segu_ok r /\ se = true | None => se = false end ->
  length (segs_of sg) = 4%nat /\ Forall seg_level_ok (segs_of sg) /\
  length (snd (fst (snd (fst (seg_of sg))))) = 4%nat /\ Forall (fun x => -127 <= x <= 127) (snd (fst (snd (fst (seg_of sg))))) /\
  length (snd (snd (fst (seg_of sg)))) = 4%nat /\ Forall (fun x => -63 <= x <= 63) (snd (snd (fst (seg_of sg)))) /\
  forall i, (i < 4)%nat ->
    sg_quantizer_level (nth i (segs_of sg) Segment_default) = nthZ (snd (fst (snd (fst (seg_of sg))))) (Z.of_nat i) 0 /\
    sg_loopfilter_level (nth i (segs_of sg) Segment_default) = nthZ (snd (snd (fst (seg_of sg)))) (Z.of_nat i) 0 /\
    sg_delta_values (nth i (segs_of sg) Segment_default) = negb (fst (fst (snd (fst (seg_of sg))))).
Proof.
  intros H.
  assert (D : length (repeat Segment_default 4) = 4%nat /\ Forall seg_level_ok (repeat Segment_default 4) /\
              length [0; 0; 0; 0] = 4%nat /\ Forall (fun x => -127 <= x <= 127) [0; 0; 0; 0] /\
              length [0; 0; 0; 0] = 4%nat /\ Forall (fun x => -63 <= x <= 63) [0; 0; 0; 0] /\
              forall i, (i < 4)%nat ->
                sg_quantizer_level (nth i (repeat Segment_default 4) Segment_default) = nthZ [0; 0; 0; 0] (Z.of_nat i) 0 /\
                sg_loopfilter_level (nth i (repeat Segment_default 4) Segment_default) = nthZ [0; 0; 0; 0] (Z.of_nat i) 0 /\
                sg_delta_values (nth i (repeat Segment_default 4) Segment_default) = negb true).
  { split; [reflexivity|]. split; [exact seg_default_levels|]. split; [reflexivity|]. split; [repeat constructor; lia|].
    split; [reflexivity|]. split; [repeat constructor; lia|].
    intros i Hi. do 4 (destruct i as [|i]; [repeat split; reflexivity|]). lia. }
  destruct sg as [[[um dat] pr]|]; [|exact D]. unfold segs_of, seg_of. cbn [fst snd].
  destruct dat as [[[mode q] l]|]; [|exact D]. clear D.
  destruct H as [[(Lq & Fq & Ll & Fl) _] _]. cbn [fst snd] in *.
  do 5 (destruct q as [|? q]; try discriminate Lq). do 5 (destruct l as [|? l]; try discriminate Ll).
  inversion Fq as [|? ? Q0 Fq1]; subst. inversion Fq1 as [|? ? Q1 Fq2]; subst. inversion Fq2 as [|? ? Q2 Fq3]; subst. inversion Fq3 as [|? ? Q3 _]; subst.
  inversion Fl as [|? ? R0 Fl1]; subst. inversion Fl1 as [|? ? R1 Fl2]; subst. inversion Fl2 as [|? ? R2 Fl3]; subst. inversion Fl3 as [|? ? R3 _]; subst.
  split; [reflexivity|]. split; [repeat constructor; unfold seg_level_ok; cbn; lia|].
  split; [reflexivity|]. split; [repeat constructor; lia|]. split; [reflexivity|]. split; [repeat constructor; lia|].
  intros i Hi. do 4 (destruct i as [|i]; [repeat split; reflexivity|]). lia.
Qed.

Theorem read_frame_header_refines : forall data, Forall byte data -> C15_model.len data < 2 ^ 63 ->
  forall (h : header) (s : bstate) (parts : list (list Z)),
  parse_header data = Some (h, s, parts) ->
  h_color_space h = 0 ->
  no_ff_start (first_partition data) = true -> forallb no_ff_start parts = true ->
  exists v0, Vp8_new data = Ok v0 /\
  ((exists v, read_frame_header v0 = Ok v /\ header_rel h v /\ header_wf h /\
              linked (first_partition data) s (v_b v) /\ parts_linked parts v /\ parts_wf h parts)
   \/ (read_frame_header v0 = Err EBitStreamError /\ over_read (first_partition data) s)).
Proof.
  intros data Hbytes Hlen h s parts Hph Hcs Hff0 Hffp.
  destruct (new_ok data) as [stn [tp (Estn & Etp & Lstn & Estn2 & Enew)]]. eexists. split; [exact Enew|].
  rewrite parse_header_eq in Hph.
  (destruct data as [|b0 [|b1 [|b2 [|b3 [|b4 [|b5 [|b6 [|b7 [|b8 [|b9 body]]]]]]]]]]; [discriminate Hph ..|]).
  cbv zeta in Hph.
  set (bits := b0 + 256 * b1 + 65536 * b2) in *.
  destruct (negb (Z.even bits)) eqn:Ekey; [discriminate|]. apply negb_false_iff in Ekey.
  destruct (3 <? Z.land (Z.shiftr bits 1) 7) eqn:Eprof; [discriminate|].
  destruct (Z.land (Z.shiftr bits 4) 1 =? 0) eqn:Eshow; [discriminate|].
  destruct (negb ((b3 =? 157) && (b4 =? 1) && (b5 =? 42))) eqn:Emagic; [discriminate|]. apply negb_false_iff in Emagic.
  destruct ((Z.land (b6 + 256 * b7) 16383 =? 0) || (Z.land (b8 + 256 * b9) 16383 =? 0)) eqn:Ezero; [discriminate|].
  rewrite zlength_len in Hph.
  destruct (Z.ltb_spec (Z.of_nat (length body)) (Z.shiftr bits 5)) as [|Hplen]; [discriminate|].
  rewrite split_at_spec in Hph.
  set (part_len := Z.shiftr bits 5) in *.
  set (p0 := firstn (Z.to_nat part_len) body) in *. set (after := skipn (Z.to_nat part_len) body) in *.
  assert (Efp : first_partition (b0 :: b1 :: b2 :: b3 :: b4 :: b5 :: b6 :: b7 :: b8 :: b9 :: body) = p0) by reflexivity.
  rewrite Efp in *. clear Efp.
  match goal with |- context [read_frame_header ?v] => set (v0 := v) end.
  (* the ten framing bytes *)
  set (width := Z.land (b6 + 256 * b7) 16383) in *. set (height := Z.land (b8 + 256 * b9) 16383) in *.
  set (top0 := init_top_macroblocks width).
  set (vF := set_r (set_mbsize (set_left (set_top (set_frame (set_r (set_frame (set_r v0 (b3 :: b4 :: b5 :: b6 :: b7 :: b8 :: b9 :: body))
               (mkFI 0 0 true (Z.land (Z.shiftr bits 1) 7) true 0 false 0 0)) body)
               (mkFI width height true (Z.land (Z.shiftr bits 1) 7) true 0 false 0 0)) top0)
               (match top0 with m :: _ => m | [] => MacroBlock_default end)) ((width + 15) / 16) ((height + 15) / 16)) after).
  assert (Hpl0 : 0 <= part_len) by (unfold part_len; apply Z.shiftr_nonneg; unfold bits;
    inversion Hbytes as [|? ? BB0 HB1]; inversion HB1 as [|? ? BB1 HB2]; inversion HB2 as [|? ? BB2 HB3]; unfold byte in *; lia).
  assert (Lp0 : Z.of_nat (length p0) = part_len) by (unfold p0; rewrite firstn_length; lia).
  assert (Hb_body : Forall byte body) by (do 10 (apply Forall_inv_tail in Hbytes); exact Hbytes).
  assert (Hb_p0 : Forall byte p0) by (unfold p0; apply Forall_firstn; exact Hb_body).
  assert (Hb_after : Forall byte after) by (unfold after; apply Forall_skipn; exact Hb_body).
  assert (Hl_body : Z.of_nat (length body) < 2 ^ 63) by (unfold C15_model.len in Hlen; cbn [length] in Hlen; lia).
  assert (Hl_p0 : C15_model.len p0 < 2 ^ 63) by (unfold C15_model.len; lia).
  assert (Eframe : read_frame_header v0 = bind (init (chunks_of p0) part_len) (fun d => rfh_mid vF d true (rfh_K true))).
  { rewrite rfh_split. unfold v0 at 1. cbn [v_r]. rewrite read_exact_ok by (cbn [length]; lia).
    change (Z.to_nat 3) with 3%nat. cbn [firstn skipn bind le24]. fold bits. cbv zeta.
    rewrite land1_even, Ekey. rewrite Eshow. cbn [negb].
    cbn [set_r set_frame v_r v_frame fi_width fi_height fi_pixel_type fi_filter_type fi_filter_level fi_sharpness_level FrameInfo_default].
    unfold v0. cbn [v_r v_b v_mbwidth v_mbheight v_frame v_segments_enabled v_segments_update_map v_segment v_ref_delta v_mode_delta v_partitions
                    v_num_partitions v_segment_tree_nodes v_token_probs v_prob_intra v_prob_skip_false v_top v_left
                    fi_width fi_height fi_pixel_type fi_filter_type fi_filter_level fi_sharpness_level FrameInfo_default].
    rewrite read_exact_ok by (cbn [length]; lia). change (Z.to_nat 3) with 3%nat. cbn [firstn skipn bind]. rewrite Emagic. cbn [negb].
    rewrite read_exact_ok by (cbn [length]; lia). change (Z.to_nat 2) with 2%nat. cbn [firstn skipn bind].
    rewrite read_exact_ok by (cbn [length]; lia). change (Z.to_nat 2) with 2%nat. cbn [firstn skipn bind]. fold width height top0.
    cbn [set_r set_frame set_top set_left set_mbsize fi_set_size v_r v_b v_mbwidth v_mbheight v_frame v_segments_enabled v_segments_update_map v_segment v_ref_delta v_mode_delta v_partitions
                    v_num_partitions v_segment_tree_nodes v_token_probs v_prob_intra v_prob_skip_false v_top v_left
                    fi_width fi_height fi_keyframe fi_version fi_for_display fi_pixel_type fi_filter_type fi_filter_level fi_sharpness_level].
    fold part_len. rewrite read_exact_ok by lia. cbn [bind]. fold p0 after. reflexivity. }
  rewrite Eframe. clear Eframe.
  assert (Hff : nth 0 p0 0 <> 255) by (unfold no_ff_start in Hff0; apply negb_true_iff in Hff0; apply Z.eqb_neq in Hff0; exact Hff0).
  destruct (linked_init p0 Hb_p0 Hl_p0 Hff) as [d0 [Ed0 L0]]. unfold C15_model.len in Ed0. rewrite Lp0 in Ed0. rewrite Ed0. cbn [bind].
  destruct (linked_wsafe p0 Hl_p0 _ _ L0) as [W0 B0].
  (* first stage: up to the partition count *)
  rewrite (mid_model vF d0 (rfh_K true) W0 B0) by (try reflexivity; exact Lstn).
  rewrite spec_mid_eq in Hph.
  pose proof (transfer_run p0 Hb_p0 Hl_p0 G_mid (bd_init p0) d0 L0 G_mid_probs) as T1. cbv zeta in T1.
  pose proof (G_mid_bound cold_pure d0) as BM. pose proof (G_mid_bound bdbit (bd_init p0)) as BS.
  (* the colour-space bit is the first request *)
  assert (Hcol : fst (fst (fst (interpG cold_pure G_mid d0))) = fst (fst (fst (interpG bdbit G_mid (bd_init p0)))) \/
                 fst (fst (fst (interpG cold_pure G_mid d0))) = 0).
  { unfold G_mid. rewrite !bind_inv. rewrite !lit1_values.
    destruct (first_bit p0 Hb_p0 _ _ 128 L0 ltac:(lia)) as [E | E]; rewrite E; [left | right]; reflexivity. }
  destruct (interpG bdbit G_mid (bd_init p0)) as [oS s1]. destruct (interpG cold_pure G_mid d0) as [oM d1]. cbn [fst snd] in *.
  destruct (parse_partitions (Z.shiftl 1 (lg_of_spec (spec_of_mid oS))) after) as [parts'|] eqn:Epp; [|discriminate].
  rewrite spec_tail_eq in Hph.
  pose proof (G_skip_bound bdbit) as BSk.
  destruct (interpG bdbit (G_tail coeffs_proba0) s1) as [oT s2] eqn:ET. injection Hph as Eh Es Eparts. subst s parts'.
  destruct oS as [[csS ptS] [[seS sgS] [[[[ftS flS] shS] lfS] lgS]]]. destruct oT as [[[[[[[q0 q1] q2] q3] q4] q5] P1] sp].
  rewrite header_of_eq in Eh. subst h. cbn [h_color_space] in Hcs.
  assert (EcsS : csS = 0) by exact Hcs.
  assert (EcsM : fst (fst oM) = 0) by (destruct Hcol as [E | E]; [rewrite E; exact EcsS | exact E]).
  rewrite EcsM. cbn [Z.eqb negb].
  destruct T1 as (W1 & C1 & [(Eeof1 & L1 & Eo) | (Eeof1 & Ov1)]); rewrite Eeof1.
  2:{ right. split; [reflexivity|]. replace s2 with (snd (interpG bdbit (G_tail coeffs_proba0) s1)) by (rewrite ET; reflexivity).
      apply over_read_mono. exact Ov1. }
  subst oM. clear Hcol EcsM BM. cbn [snd lg_of2 lg_of3].
  destruct BS as (Bpt & Bsg & Bfl & Bsh & Blf & Blg).
  unfold lg_of_spec, spec_of_mid in Epp. cbn [snd] in Epp.
  (* the token partitions *)
  set (vM := mid_state vF (csS, ptS, (seS, sgS, (ftS, flS, shS, lfS, lgS))) d1).
  pose proof (mid_state_fields vF csS ptS seS sgS ftS flS shS lfS lgS d1) as FM. cbv zeta in FM. fold vM in FM.
  destruct FM as (FMb & FMr & FMframe & FMw & FMh & FMtop & FMleft & FMse & FMum & FMseg & FMstn & FMrd & FMmd & FMnp & FMparts & FMtp & FMpsf & FMpi).
  assert (Epow : 2 ^ lgS = Z.shiftl 1 lgS) by (rewrite Z.shiftl_1_l; reflexivity).
  assert (Hnp : 1 <= 2 ^ lgS <= 8) by (assert (lgS = 0 \/ lgS = 1 \/ lgS = 2 \/ lgS = 3) as [-> | [-> | [-> | ->]]] by lia; cbn; lia).
  unfold rfh_K. match goal with |- context [init_partitions ?x _] => change x with vM end.
  destruct (init_partitions_refines vM (2 ^ lgS) parts Hnp) as (EIP & Lparts & Hparts);
    [rewrite FMparts; reflexivity | rewrite FMr; exact Hb_after | rewrite FMr; change (v_r vF) with after; unfold after; rewrite skipn_length; lia | rewrite FMr, Epow; exact Epp |].
  rewrite EIP. cbn [bind]. rewrite FMparts.
  set (vP := set_partitions (set_r vM []) (map dec_of_data parts ++ skipn (Z.to_nat (2 ^ lgS)) (v_partitions vF))).
  (* second stage *)
  destruct (linked_wsafe p0 Hl_p0 _ _ L1) as [Wd1 Bd1].
  change (v_segment vF) with (repeat Segment_default 4) in FMseg. fold (segs_of sgS) in FMseg.
  destruct (segs_of_facts sgS seS Bsg) as (Lseg4 & Fseg4 & Lsq & Fsq & Lsf & Fsf & Hlev).
  rewrite <- FMseg in Lseg4, Fseg4.
  assert (HP0 : tables_ok coeffs_proba0) by (rewrite <- coeff_probs_normative; exact (proj1 read_coefficients_instance)).
  assert (EPb : v_b vP = d1) by (change (v_b vP) with (v_b vM); exact FMb).
  assert (EPseg : v_segment vP = v_segment vM) by reflexivity.
  assert (EPtp : v_token_probs vP = tp) by (change (v_token_probs vP) with (v_token_probs vM); rewrite FMtp; reflexivity).
  rewrite (rfh_tail_model vP coeffs_proba0) by (rewrite ?EPb, ?EPseg, ?EPtp; assumption).
  rewrite EPb.
  pose proof (transfer_run p0 Hb_p0 Hl_p0 (G_tail coeffs_proba0) s1 d1 L1 (G_tail_probs _)) as T2. cbv zeta in T2. rewrite ET in T2.
  pose proof (tail_tables d1 coeffs_proba0 tp Wd1 Bd1 HP0 Etp) as TT. cbv zeta in TT.
  destruct (interpG cold_pure (G_tail coeffs_proba0) d1) as [oTM d2]. cbn [fst snd] in *.
  destruct T2 as (W2 & C2 & [(Eeof2 & L2 & Eo2) | (Eeof2 & Ov2)]); rewrite Eeof2.
  2:{ right. split; [reflexivity | exact Ov2]. }
  subst oTM. cbn [fst snd] in TT. destruct TT as (HP1 & ETP1 & RQ & Bsp).
  left. eexists. split; [reflexivity|].
  set (vT := tail_state vP (q0, q1, q2, q3, q4, q5, P1, sp) d2).
  pose proof (tail_state_fields vP (q0, q1, q2, q3, q4, q5) P1 sp d2) as FT. cbv zeta in FT. fold vT in FT.
  destruct FT as (FTb & FTr & FTframe & FTw & FTh & FTtop & FTleft & FTse & FTum & FTseg & FTstn & FTrd & FTmd & FTnp & FTparts & FTtp & FTpsf & FTpi).
  match goal with |- header_rel ?hh _ /\ _ => set (h := hh) end.
  assert (Lparts8 : length (v_partitions vP) = 8%nat).
  { unfold vP. cbn [v_partitions set_partitions]. rewrite app_length, map_length, skipn_length, Lparts.
    change (length (v_partitions vF)) with 8%nat. lia. }
  split; [|split; [|split; [|split]]].
  - (* header_rel *)
    unfold header_rel. rewrite FTframe, FTw, FTh, FTtop, FTleft, FTse, FTum, FTstn, FTrd, FTmd, FTnp, FTparts, FTtp, FTpsf, FTpi, FTr.
    change (v_frame vP) with (v_frame vM). change (v_mbwidth vP) with (v_mbwidth vM). change (v_mbheight vP) with (v_mbheight vM).
    change (v_top vP) with (v_top vM). change (v_left vP) with (v_left vM). change (v_segments_enabled vP) with (v_segments_enabled vM).
    change (v_segments_update_map vP) with (v_segments_update_map vM). change (v_segment_tree_nodes vP) with (v_segment_tree_nodes vM).
    change (v_ref_delta vP) with (v_ref_delta vM). change (v_mode_delta vP) with (v_mode_delta vM). change (v_num_partitions vP) with (v_num_partitions vM).
    change (v_prob_intra vP) with (v_prob_intra vM). change (v_r vP) with (@nil Z).
    rewrite FMframe, FMw, FMh, FMtop, FMleft, FMse, FMum, FMstn, FMrd, FMmd, FMnp, FMpi, EPtp.
    unfold h. cbn [h_width h_height h_profile h_clamp_type h_simple h_level h_sharpness h_use_segment h_update_map h_seg_probs h_ref_lf_delta
                   h_mode_lf_delta h_num_parts h_probas h_use_skip h_skip_p]. unfold mb_w, mb_h. cbn [h_width h_height].
    split; [reflexivity|].
    split; [change (v_mbwidth vF) with ((width + 15) / 16); rewrite Z.shiftr_div_pow2 by lia; reflexivity|].
    split; [change (v_mbheight vF) with ((height + 15) / 16); rewrite Z.shiftr_div_pow2 by lia; reflexivity|].
    split; [reflexivity|]. split; [reflexivity|]. split; [reflexivity|].
    split; [destruct sgS as [[[um dat] pr]|]; reflexivity|].
    split; [rewrite FTseg; unfold quant_state; cbn [v_segment set_b set_segment]; rewrite quant_upd_length; rewrite EPseg; exact Lseg4|].
    split.
    { intros i Hi. rewrite FTseg.
      pose proof (quantization_factors_are_spec h vP d2 i) as QF.
      change (v_segments_enabled vP) with (v_segments_enabled vM) in QF. rewrite EPseg, FMse, FMseg in QF.
      destruct (Hlev i Hi) as (Hq & Hf & Hd).
      unfold quant_state at 1. cbn [v_segment set_b set_segment].
      change (v_segments_enabled vP) with (v_segments_enabled vM). rewrite FMse. rewrite EPseg, FMseg.
      rewrite quant_upd_nth by (rewrite (proj1 (segs_of_facts sgS seS Bsg)); destruct seS; lia).
      unfold segment_rel. cbn [h_seg_quant h_seg_filter h_absolute h_use_segment].
      assert (Hlv : forall sg', (sg' = nth i (segs_of sgS) Segment_default \/ sg' = quant_of seS (q0, q1, q2, q3, q4, q5) (nth i (segs_of sgS) Segment_default)) ->
                    sg_quantizer_level sg' = nthZ (snd (fst (snd (fst (seg_of sgS))))) (Z.of_nat i) 0 /\
                    sg_loopfilter_level sg' = nthZ (snd (snd (fst (seg_of sgS)))) (Z.of_nat i) 0 /\
                    sg_delta_values sg' = negb (fst (fst (snd (fst (seg_of sgS)))))).
      { intros sg' [-> | ->]; [|destruct (quant_of_levels seS (q0, q1, q2, q3, q4, q5) (nth i (segs_of sgS) Segment_default)) as (E1 & E2 & E3); rewrite E1, E2, E3];
          repeat split; assumption. }
      destruct (((0 <=? i) && (i <? 0 + (if seS then 4 else 1)))%nat) eqn:Ein.
      - destruct (Hlv _ (or_intror eq_refl)) as (A1 & A2 & A3). split; [exact A1|]. split; [exact A2|]. split; [exact A3|].
        intros Hi2. cbv zeta.
        specialize (QF (proj1 (segs_of_facts sgS seS Bsg)) eq_refl Hi2). cbn [h_seg_quant h_absolute h_base_q h_dqy1_dc h_dqy2_dc h_dqy2_ac h_dquv_dc h_dquv_ac] in QF.
        specialize (QF (eq_sym Hq)). rewrite Hd, negb_involutive in QF. specialize (QF eq_refl RQ).
        assert (Hr : -127 <= nthZ (snd (fst (snd (fst (seg_of sgS))))) (Z.of_nat i) 0 <= 127).
        { unfold nthZ. rewrite Nat2Z.id. rewrite Forall_forall in Fsq. apply Fsq. apply nth_In. lia. }
        specialize (QF Hr). cbv zeta in QF.
        unfold quant_state in QF. cbn [v_segment set_b set_segment] in QF.
        change (v_segments_enabled vP) with (v_segments_enabled vM) in QF. rewrite FMse, EPseg, FMseg in QF.
        rewrite quant_upd_nth in QF by (rewrite (proj1 (segs_of_facts sgS seS Bsg)); destruct seS; lia). rewrite Ein in QF. exact QF.
      - destruct (Hlv _ (or_introl eq_refl)) as (A1 & A2 & A3). split; [exact A1|]. split; [exact A2|]. split; [exact A3|].
        intros Hi2. exfalso. apply andb_false_iff in Ein. destruct Ein as [E | E]; [apply Nat.leb_gt in E | apply Nat.ltb_ge in E]; lia. }
    split.
    { change (v_segment_tree_nodes vF) with stn. destruct sgS as [[[um dat] pr]|]; [|exact Estn2]. cbn [fst snd seg_of segu_nodes].
      destruct pr as [p|]; [|exact Estn2]. destruct Bsg as [[_ (Lp & _ & _)] _]. cbn [fst snd] in Lp. apply seg_tree_set; assumption. }
    split; [destruct lfS as [[[r m]|]|]; reflexivity|]. split; [destruct lfS as [[[r m]|]|]; reflexivity|].
    split; [rewrite <- Epow; apply wrapU_small; change (2 ^ 8) with 256; lia|].
    split; [exact Lparts8|]. split; [exact ETP1|]. split; [destruct sp; reflexivity|]. split; reflexivity.
  - (* header_wf *)
    unfold header_wf, h. cbn [h_probas h_seg_probs h_skip_p h_update_map h_use_segment h_num_parts h_level h_sharpness h_seg_quant h_seg_filter h_ref_lf_delta h_mode_lf_delta
                              h_base_q h_dqy1_dc h_dqy2_dc h_dqy2_ac h_dquv_dc h_dquv_ac].
    split; [exact HP1|].
    assert (Hsp3 : length (snd (seg_of sgS)) = 3%nat /\ Forall byte (snd (seg_of sgS))).
    { destruct sgS as [[[um dat] pr]|]; cbn [seg_of snd]; [|split; [reflexivity | repeat constructor; unfold byte; lia]].
      destruct pr as [p|]; [|split; [reflexivity | repeat constructor; unfold byte; lia]].
      destruct Bsg as [[_ (Lp & Fp & _)] _]. cbn [fst snd] in *. split; assumption. }
    destruct Hsp3 as [Hsp3a Hsp3b]. split; [exact Hsp3a|]. split; [exact Hsp3b|].
    split; [destruct sp; lia|].
    split; [destruct sgS as [[[um dat] pr]|]; cbn [seg_of fst]; [intros _; destruct Bsg as [_ Bse]; exact Bse | discriminate]|].
    split; [rewrite <- Epow; assert (lgS = 0 \/ lgS = 1 \/ lgS = 2 \/ lgS = 3) as [-> | [-> | [-> | ->]]] by lia; cbn; lia|].
    split; [lia|]. split; [lia|]. split; [exact Lsq|]. split; [exact Fsq|]. split; [exact Lsf|]. split; [exact Fsf|].
    assert (Hlfd : length (fst (lf_of lfS)) = 4%nat /\ Forall (fun x => -63 <= x <= 63) (fst (lf_of lfS)) /\
                   length (snd (lf_of lfS)) = 4%nat /\ Forall (fun x => -63 <= x <= 63) (snd (lf_of lfS))).
    { destruct lfS as [[[r m]|]|]; cbn [lf_of fst snd]; try (repeat split; try reflexivity; repeat constructor; lia).
      destruct Blf as (Lr & Lm & Fr & Fm). repeat split; try assumption; (eapply Forall_impl; [|eassumption]); cbn beta; intros; lia. }
    destruct Hlfd as (A1 & A2 & A3 & A4). split; [exact A1|]. split; [exact A2|]. split; [exact A3|]. split; [exact A4|]. exact RQ.
  - rewrite FTb. exact L2.
  - (* the token partitions *)
    intros i Hi. rewrite FTparts. unfold vP. cbn [v_partitions set_partitions].
    exists (dec_of_data (nth i parts [])). split.
    + rewrite nth_error_app1 by (rewrite map_length; exact Hi). rewrite (nth_error_nth' _ (dec_of_data [])) by (rewrite map_length; exact Hi).
      f_equal. apply (map_nth dec_of_data parts [] i).
    + assert (Hin : In (nth i parts []) parts) by (apply nth_In; exact Hi).
      destruct (Hparts _ Hin) as [Hbp Hlp].
      assert (Hffi : nth 0 (nth i parts []) 0 <> 255).
      { rewrite forallb_forall in Hffp. specialize (Hffp _ Hin). unfold no_ff_start in Hffp. apply negb_true_iff in Hffp. apply Z.eqb_neq in Hffp. exact Hffp. }
      destruct (linked_init (nth i parts []) Hbp Hlp Hffi) as [di [Edi Li]].
      unfold dec_of_data. unfold C15_model.len in Edi. rewrite Edi. exact Li.
  - split; [unfold h; cbn [h_num_parts]; rewrite <- Epow; exact Lparts | exact Hparts].
Qed.
