(* C03 for the VP8 key-frame decoder, reconstruction half, part 2: the macroblock loop never panics.
   VP8_recon_frame.reconstruct_refines only asks that the decoder-side inputs be related to SOME reference-side header,
   modes and residuals -- nothing says they come from a valid stream.  So from any macroblock list that satisfies the
   parser's output invariant (rec_ok) reference-side modes / residuals are BUILT here (mode renumberings inverted), the raster
   list is chunked into rows, and the refinement theorem is used as a safety lemma.  The degenerate headers (width or
   height 0: no macroblock at all) are handled by direct computation. *)
From Coq Require Import ZArith NArith List Bool Lia.
From WebP Require Import Lib.Res Lib.ZBits Lib.Arr Gen.Tables Spec.VP8Tables Spec.VP8 Model.Vp8Predict Model.Vp8Recon
  Proofs.VP8_predict_base Proofs.VP8_parse_mbheader
  Proofs.VP8_recon_base Proofs.VP8_recon_plane Proofs.VP8_recon_bytes Proofs.VP8_recon_mb Proofs.VP8_recon_frame
  Proofs.VP8_recon_edge Proofs.VP8_recon_stages Proofs.VP8_recon_filter Proofs.VP8_recon_main
  Proofs.VP8_decode_shape Proofs.VP8_safe_defs Proofs.VP8_safe_recon_filter.
From WebP Require Model.Vp8Parse.
Import ListNotations.
Open Scope Z_scope.
Ltac Zify.zify_post_hook ::= Z.div_mod_to_equations.

(* ------------------------------------------------------------------------------------------------------------ *)
(* 1. reference-side modes / residuals for any well-typed record                                                *)
(* ------------------------------------------------------------------------------------------------------------ *)
Lemma ymode_of_to_small' x : 0 <= x <= 3 -> 0 <= ymode_of_rfc x <= 3 /\ ymode_to_rfc (ymode_of_rfc x) = x.
Proof.
  intros H. assert (E : x = 0 \/ x = 1 \/ x = 2 \/ x = 3) by lia.
  destruct E as [-> | [-> | [-> | ->]]]; vm_compute; repeat split; discriminate.
Qed.

Definition mode_of_mb (mb : Vp8Parse.MacroBlock) : mbmode :=
  mkM (Vp8Parse.mb_segmentid mb) (Vp8Parse.mb_coeffs_skipped mb) (Vp8Parse.mb_luma_mode mb =? 4)
      (ymode_of_rfc (Vp8Parse.mb_luma_mode mb)) (map bmode_of_rfc (Vp8Parse.mb_bpred mb))
      (ymode_of_rfc (Vp8Parse.mb_chroma_mode mb)).

Lemma rec_ok_rels mb bl : rec_ok (mb, bl) ->
  exists m r, mb_rel mb m /\ res_rel bl r /\ seg_rel mb m r.
Proof.
  intros (((Lb & Mb) & Hl & Hc) & Hseg & (rr & Hres)). cbn [fst snd] in *.
  exists (mode_of_mb mb), (mkR (r_y rr) (r_u rr) (r_v rr) (Vp8Parse.mb_non_zero_coeffs mb) true).
  split; [|split].
  - unfold mb_rel, mode_of_mb. cbn [m_i4 m_imodes m_ymode m_uvmode].
    destruct (ymode_of_to_small' _ Hc) as [Cr Ci].
    split; [|split; [exact Cr | symmetry; exact Ci]].
    destruct (Z.eqb_spec (Vp8Parse.mb_luma_mode mb) 4) as [E4 | N4].
    + split; [exact E4|]. split; [rewrite map_length; exact Lb|]. split.
      * apply Forall_forall. intros x Hx. apply in_map_iff in Hx. destruct Hx as (y & <- & Hy).
        unfold modes_ok in Mb. rewrite Forall_forall in Mb. destruct (bmode_of_to y (Mb y Hy)) as (_ & _ & R). exact R.
      * rewrite map_map. rewrite <- (map_id (Vp8Parse.mb_bpred mb)) at 1. apply map_ext_in. intros y Hy.
        unfold modes_ok in Mb. rewrite Forall_forall in Mb. destruct (bmode_of_to y (Mb y Hy)) as (_ & R & _). symmetry. exact R.
    + destruct (ymode_of_to_small' (Vp8Parse.mb_luma_mode mb) ltac:(lia)) as [Yr Yi]. split; [exact Yr | symmetry; exact Yi].
  - unfold res_rel in *. cbn [r_y r_u r_v]. exact Hres.
  - unfold seg_rel, mode_of_mb. cbn [r_nonzero m_seg]. split; [reflexivity|]. split; [reflexivity | lia].
Qed.

Lemma row_rels row : Forall rec_ok row -> exists ms rs, row_rel row ms rs.
Proof.
  induction 1 as [|[mb bl] row H0 _ (ms & rs & IH)]; [exists [], []; constructor|].
  destruct (rec_ok_rels mb bl H0) as (m & r & A & B & C).
  exists (m :: ms), (r :: rs). constructor; assumption.
Qed.

(* the raster list, chunked into rows *)
Lemma frame_rels (mbw : Z) : 0 <= mbw -> forall (n : nat) recs,
  Forall rec_ok recs -> length recs = (n * Z.to_nat mbw)%nat ->
  exists mss rss, frame_rel mbw recs mss rss /\ length mss = n.
Proof.
  intros Hw. induction n as [|n IH]; intros recs Hok Hlen.
  - cbn [Nat.mul] in Hlen. destruct recs; [|discriminate Hlen]. exists [], []. split; [constructor|reflexivity].
  - rewrite <- (firstn_skipn (Z.to_nat mbw) recs) in Hok |- *. apply Forall_app in Hok. destruct Hok as [Hrow Hrest].
    assert (L1 : length (firstn (Z.to_nat mbw) recs) = Z.to_nat mbw) by (rewrite firstn_length; lia).
    assert (L2 : length (skipn (Z.to_nat mbw) recs) = (n * Z.to_nat mbw)%nat) by (rewrite skipn_length; lia).
    destruct (row_rels _ Hrow) as (ms & rs & Rrow).
    destruct (IH _ Hrest L2) as (mss & rss & Rfr & Lm).
    exists (ms :: mss), (rs :: rss). split; [|cbn [length]; lia].
    constructor; [exact Rrow | lia | exact Rfr].
Qed.

(* ------------------------------------------------------------------------------------------------------------ *)
(* 2. the macroblock loop                                                                                       *)
(* ------------------------------------------------------------------------------------------------------------ *)
(* a reference-side header with the given sizes (nothing else is read by VP8_recon_frame.reconstruct_refines) *)
Definition hs_of (w hh : Z) : header :=
  mkH w hh 0 0 0 0 0 false false false [] [] [] false 0 0 false [] [] 1 0 0 0 0 0 0 [] false 0.

Lemma rec_ok_seg r : rec_ok r -> seg_id_ok (fst r).
Proof. intros (_ & H & _). exact H. Qed.

(* no macroblock: either no row at all, or rows of zero macroblocks *)
Lemma recon_rows_empty h : forall n my s, (n = 0%nat \/ rh_mbwidth h = 0) ->
  exists s', recon_rows h n my [] s = Ok s' /\ rs_ybuf s' = rs_ybuf s /\ rs_ubuf s' = rs_ubuf s /\ rs_vbuf s' = rs_vbuf s /\
             rs_macroblocks s' = rs_macroblocks s.
Proof.
  induction n as [|n IH]; intros my s Hc.
  - exists s. repeat split.
  - destruct Hc as [Hc|Hc]; [discriminate Hc|].
    cbn [recon_rows]. rewrite Hc. change (Z.to_nat 0) with 0%nat. cbn [recon_row bind].
    destruct (IH (my + 1) (mkRS (rs_ybuf s) (rs_ubuf s) (rs_vbuf s) (rs_top_border s) (repeat 129 17) (rs_macroblocks s))
                (or_intror Hc)) as (s' & E & A & B & C & D).
    exists s'. split; [exact E|]. cbn [rs_ybuf rs_ubuf rs_vbuf rs_macroblocks] in *. repeat split; assumption.
Qed.

Lemma pst_empty w h : w * h = 0 -> pst (amake 0) (amake 0) w h.
Proof.
  intros E. split; [apply aeq_refl|]. split.
  - intros j Hj. unfold alenZ in Hj. cbn [amake alen] in Hj. lia.
  - unfold alenZ. cbn [amake alen]. lia.
Qed.

Theorem reconstruct_safe h recs :
  rhdr_ok h -> Forall rec_ok recs -> length recs = Z.to_nat (rh_mbwidth h * rh_mbheight h) ->
  exists s, Vp8Recon.reconstruct h recs = Ok s /\
            pst3 (rh_mbwidth h) (rh_mbheight h) (rs_ybuf s, rs_ubuf s, rs_vbuf s) /\
            rs_macroblocks s = map fst recs.
Proof.
  intros (Hw & Hh & Emw & Emh & _) Hok Hlen.
  destruct (Z_lt_le_dec 0 (rh_width h)) as [Hwp|Hw0]; [destruct (Z_lt_le_dec 0 (rh_height h)) as [Hhp|Hh0]|].
  - (* at least one macroblock: through the refinement theorem *)
    set (hs := hs_of (rh_width h) (rh_height h)).
    assert (Ew : mb_w hs = rh_mbwidth h).
    { unfold mb_w, hs, hs_of. cbn [h_width]. rewrite Z.shiftr_div_pow2 by lia. change (2 ^ 4) with 16. symmetry. exact Emw. }
    assert (Eh : mb_h hs = rh_mbheight h).
    { unfold mb_h, hs, hs_of. cbn [h_height]. rewrite Z.shiftr_div_pow2 by lia. change (2 ^ 4) with 16. symmetry. exact Emh. }
    assert (Hmw : 0 < rh_mbwidth h) by lia. assert (Hmh : 0 < rh_mbheight h) by lia.
    assert (Hd : dims_rel h hs).
    { unfold dims_rel, hs, hs_of. cbn [h_width h_height]. fold (hs_of (rh_width h) (rh_height h)). fold hs.
      repeat split; try reflexivity; try (symmetry; assumption); lia. }
    destruct (frame_rels (rh_mbwidth h) ltac:(lia) (Z.to_nat (rh_mbheight h)) recs Hok ltac:(nia)) as (mss & rss & Hfr & Lm).
    rewrite <- Ew in Hfr.
    destruct (reconstruct_refines h hs recs mss rss Hd Hfr ltac:(lia)) as (s & Es & Hpl & Em).
    rewrite Ew, Eh in Hpl.
    pose proof (planes_rel_frel3 (rh_mbwidth h) (rh_mbheight h) _ s Hmw ltac:(lia) Hpl) as (_ & _ & _ & Py & Pu & Pv).
    cbn [fst snd] in Py, Pu, Pv.
    exists s. split; [exact Es|]. split; [|exact Em].
    split; [exact (pst_self _ _ _ _ Py)|]. split; [exact (pst_self _ _ _ _ Pu) | exact (pst_self _ _ _ _ Pv)].
  - (* height 0: no macroblock row *)
    assert (Emh0 : rh_mbheight h = 0) by lia.
    assert (Hn : rh_mbwidth h * rh_mbheight h = 0) by (rewrite Emh0; lia).
    rewrite Hn in Hlen. destruct recs; [|discriminate Hlen].
    unfold Vp8Recon.reconstruct.
    destruct (recon_rows_empty h (Z.to_nat (rh_mbheight h)) 0 (init_state h) ltac:(left; lia)) as (s & E & A & B & C & D).
    exists s. split; [exact E|]. split; [|rewrite D; reflexivity].
    unfold pst3. cbn [fst snd]. rewrite A, B, C. unfold init_state. cbn [rs_ybuf rs_ubuf rs_vbuf]. rewrite Hn.
    split; [apply pst_empty; nia|]. split; apply pst_empty; nia.
  - (* width 0: rows without macroblocks *)
    assert (Emw0 : rh_mbwidth h = 0) by lia.
    assert (Hn : rh_mbwidth h * rh_mbheight h = 0) by (rewrite Emw0; lia).
    rewrite Hn in Hlen. destruct recs; [|discriminate Hlen].
    unfold Vp8Recon.reconstruct.
    destruct (recon_rows_empty h (Z.to_nat (rh_mbheight h)) 0 (init_state h) (or_intror Emw0)) as (s & E & A & B & C & D).
    exists s. split; [exact E|]. split; [|rewrite D; reflexivity].
    unfold pst3. cbn [fst snd]. rewrite A, B, C. unfold init_state. cbn [rs_ybuf rs_ubuf rs_vbuf]. rewrite Hn.
    split; [apply pst_empty; nia|]. split; apply pst_empty; nia.
Qed.
