(* C15, part 1: the partition read as one big number, and the small arithmetic facts about split and renormalisation.
   num k   = the first k bytes of the zero-padded data, big-endian;
   pre n   = its first n bits = floor(C * 2^n) for the binary fraction C = 0.d0 d1 d2 ... (DESIGN.md appendix A1). *)
From Coq Require Import ZArith Lia List Bool.
From WebP Require Import Gen.Kernels Lib.ZBits Lib.Sweep.
Import ListNotations.
Open Scope Z_scope.

Lemma pow2_pos n : 0 <= n -> 0 < 2 ^ n.
Proof. intros. apply Z.pow_pos_nonneg; lia. Qed.

Lemma pow2_add a b : 0 <= a -> 0 <= b -> 2 ^ (a + b) = 2 ^ a * 2 ^ b.
Proof. intros. apply Z.pow_add_r; assumption. Qed.

Lemma pow2_le a b : 0 <= a <= b -> 2 ^ a <= 2 ^ b.
Proof. intros. apply Z.pow_le_mono_r; lia. Qed.

Lemma div_ge_iff a x d : 0 < d -> (x * d <= a <-> x <= a / d).
Proof.
  intros Hd. split; intros H.
  - apply Z.div_le_lower_bound; lia.
  - pose proof (Z.mul_div_le a d Hd). nia.
Qed.

Lemma div_lt_iff a x d : 0 < d -> (a < x * d <-> a / d < x).
Proof. intros Hd. pose proof (div_ge_iff a x d Hd). lia. Qed.

Lemma div_div_pos a b c : 0 < b -> 0 < c -> a / b / c = a / (b * c).
Proof. intros. apply Z.div_div; lia. Qed.

(* x = q * d + r with 0 <= r < d *)
Lemma div_mod_split a d : 0 < d -> exists r, 0 <= r < d /\ a = (a / d) * d + r.
Proof. intros Hd. exists (a mod d). pose proof (Z.mod_pos_bound a d Hd). pose proof (Z.div_mod a d). lia. Qed.

Section Num.
Variable data : list Z.
Hypothesis Hbytes : Forall byte data.

Definition byte_at (k : Z) : Z := nth (Z.to_nat k) data 0.

Fixpoint num (k : nat) : Z := match k with O => 0 | S j => num j * 256 + nth j data 0 end.
Definition numZ (k : Z) : Z := num (Z.to_nat k).

Lemma nth_byte j : 0 <= nth j data 0 <= 255.
Proof.
  destruct (Nat.lt_ge_cases j (length data)) as [H | H].
  - rewrite Forall_forall in Hbytes. apply Hbytes. apply nth_In. exact H.
  - rewrite nth_overflow by exact H. lia.
Qed.

Lemma byte_at_range k : 0 <= byte_at k <= 255.
Proof. apply nth_byte. Qed.

Lemma byte_at_past k : Z.of_nat (length data) <= k -> byte_at k = 0.
Proof. intros H. unfold byte_at. apply nth_overflow. lia. Qed.

Lemma numZ_0 : numZ 0 = 0.
Proof. reflexivity. Qed.

Lemma numZ_succ k : 0 <= k -> numZ (k + 1) = numZ k * 256 + byte_at k.
Proof.
  intros Hk. unfold numZ, byte_at. replace (Z.to_nat (k + 1)) with (S (Z.to_nat k)) by lia. reflexivity.
Qed.

Lemma num_nonneg k : 0 <= num k.
Proof. induction k as [|k IH]; cbn [num]; [lia|]. pose proof (nth_byte k). lia. Qed.

Lemma numZ_nonneg k : 0 <= numZ k.
Proof. apply num_nonneg. Qed.

Lemma numZ_add j k : 0 <= j -> 0 <= k ->
  exists t, 0 <= t < 2 ^ (8 * k) /\ numZ (j + k) = numZ j * 2 ^ (8 * k) + t.
Proof.
  intros Hj Hk. revert k Hk. apply (natlike_ind (fun k => exists t, 0 <= t < 2 ^ (8 * k) /\ numZ (j + k) = numZ j * 2 ^ (8 * k) + t)).
  - exists 0. rewrite Z.add_0_r. change (2 ^ (8 * 0)) with 1. lia.
  - intros k Hk [t [Ht IH]].
    exists (t * 256 + byte_at (j + k)).
    replace (j + Z.succ k) with ((j + k) + 1) by lia. rewrite numZ_succ by lia. rewrite IH.
    replace (8 * Z.succ k) with (8 * k + 8) by lia. rewrite pow2_add by lia. change (2 ^ 8) with 256.
    pose proof (byte_at_range (j + k)). pose proof (pow2_pos (8 * k)). split; [nia | ring].
Qed.

Lemma numZ_div j k : 0 <= j <= k -> numZ k / 2 ^ (8 * (k - j)) = numZ j.
Proof.
  intros H. destruct (numZ_add j (k - j)) as [t [Ht E]]; [lia | lia |].
  replace (j + (k - j)) with k in E by lia. rewrite E.
  pose proof (pow2_pos (8 * (k - j))).
  rewrite Z.div_add_l by lia. rewrite Z.div_small by lia. lia.
Qed.

Lemma numZ_lt k : 0 <= k -> numZ k < 2 ^ (8 * k).
Proof.
  intros Hk. destruct (numZ_add 0 k) as [t [Ht E]]; [lia | lia |].
  rewrite Z.add_0_l in E. rewrite E. rewrite numZ_0. lia.
Qed.

(* four bytes at once: the chunk refill *)
Lemma numZ_add4 k : 0 <= k ->
  numZ (k + 4) = numZ k * 2 ^ 32 + (((byte_at k * 256 + byte_at (k + 1)) * 256 + byte_at (k + 2)) * 256 + byte_at (k + 3)).
Proof.
  intros Hk. replace (k + 4) with (k + 1 + 1 + 1 + 1) by lia.
  rewrite !numZ_succ by lia. replace (k + 1 + 1) with (k + 2) by lia. replace (k + 2 + 1) with (k + 3) by lia.
  change (2 ^ 32) with 4294967296. ring.
Qed.

(* ---- bit prefixes ---- *)
Definition pre (n : Z) : Z := numZ (n / 8 + 1) / 2 ^ (8 * (n / 8 + 1) - n).

Lemma pre_any n K : 0 <= n -> n <= 8 * K -> pre n = numZ K / 2 ^ (8 * K - n).
Proof.
  intros Hn HK. unfold pre.
  assert (Hq : n / 8 <= K) by (apply Z.div_le_upper_bound; lia).
  destruct (Z.eq_dec K (n / 8)) as [E | NE].
  - (* then n = 8K *)
    assert (n = 8 * K) by (pose proof (Z.mul_div_le n 8); lia). subst n.
    replace (8 * K / 8) with K by (symmetry; apply Z.div_unique_exact; lia).
    replace (8 * (K + 1) - 8 * K) with (8 * (K + 1 - K)) by lia.
    rewrite numZ_div by lia. replace (8 * K - 8 * K) with 0 by lia. change (2 ^ 0) with 1. rewrite Z.div_1_r. reflexivity.
  - set (K0 := n / 8 + 1). assert (HK0 : K0 <= K) by lia.
    assert (H8 : 0 <= 8 * K0 - n) by (unfold K0; pose proof (Z.mod_pos_bound n 8); pose proof (Z.div_mod n 8); lia).
    replace (8 * K - n) with (8 * (K - K0) + (8 * K0 - n)) by lia.
    rewrite pow2_add by lia. rewrite <- div_div_pos by (apply pow2_pos; lia).
    rewrite numZ_div by (unfold K0; pose proof (Z.div_pos n 8); lia). reflexivity.
Qed.

Lemma pre_shift n s : 0 <= n -> 0 <= s -> pre (n + s) / 2 ^ s = pre n.
Proof.
  intros Hn Hs. set (K := (n + s) / 8 + 1).
  assert (HK : n + s <= 8 * K) by (unfold K; pose proof (Z.mod_pos_bound (n + s) 8); pose proof (Z.div_mod (n + s) 8); lia).
  rewrite (pre_any (n + s) K) by lia. rewrite (pre_any n K) by lia.
  rewrite div_div_pos by (apply pow2_pos; lia). rewrite <- pow2_add by lia. f_equal. f_equal. lia.
Qed.

Lemma pre_8 k : 0 <= k -> pre (8 * k) = numZ k.
Proof. intros Hk. rewrite (pre_any (8 * k) k) by lia. replace (8 * k - 8 * k) with 0 by lia. apply Z.div_1_r. Qed.

Lemma pre_nonneg n : 0 <= n -> 0 <= pre n.
Proof.
  intros Hn. unfold pre. apply Z.div_pos; [apply numZ_nonneg|]. apply pow2_pos.
  pose proof (Z.mod_pos_bound n 8). pose proof (Z.div_mod n 8). lia.
Qed.

Lemma pre_split n s : 0 <= n -> 0 <= s -> exists r, 0 <= r < 2 ^ s /\ pre (n + s) = pre n * 2 ^ s + r.
Proof.
  intros Hn Hs. destruct (div_mod_split (pre (n + s)) (2 ^ s)) as [r [Hr E]]; [apply pow2_pos; lia|].
  rewrite pre_shift in E by lia. exists r. split; assumption.
Qed.

End Num.

(* ---- split and renormalisation ---- *)
Definition split_of (r p : Z) : Z := 1 + Z.shiftr ((r - 1) * p) 8.
(* number of doublings that bring r in 1..255 back into 128..255 *)
Definition norm_shift (r : Z) : Z := 7 - Z.log2 r.

Lemma split_of_range r p : 2 <= r <= 255 -> 0 <= p <= 255 -> 1 <= split_of r p <= r - 1.
Proof.
  intros Hr Hp. unfold split_of. rewrite Z.shiftr_div_pow2 by lia. change (2 ^ 8) with 256.
  assert (0 <= (r - 1) * p) by nia.
  assert ((r - 1) * p / 256 <= r - 2).
  { apply Z.lt_succ_r. apply Z.div_lt_upper_bound; [lia|]. nia. }
  pose proof (Z.div_pos ((r - 1) * p) 256). lia.
Qed.

Lemma norm_shift_facts_sweep :
  forallb (fun r => (0 <=? norm_shift r) && (norm_shift r <=? 7) && (128 <=? r * 2 ^ norm_shift r) && (r * 2 ^ norm_shift r <=? 255)
                    && (if r <? 128 then norm_shift r =? 1 + norm_shift (2 * r) else norm_shift r =? 0))
          (zrange 255 1) = true.
Proof. vm_compute. reflexivity. Qed.

Lemma norm_shift_facts r : 1 <= r <= 255 ->
  0 <= norm_shift r <= 7 /\ 128 <= r * 2 ^ norm_shift r <= 255 /\
  (r < 128 -> norm_shift r = 1 + norm_shift (2 * r)) /\ (128 <= r -> norm_shift r = 0).
Proof.
  intros Hr. pose proof (forallb_zrange _ _ _ norm_shift_facts_sweep r ltac:(lia)) as H. cbv beta in H.
  rewrite !andb_true_iff in H. destruct H as [[[[H1 H2] H3] H4] H5].
  rewrite Z.leb_le in H1, H2, H3, H4.
  repeat split; try lia.
  - intros Hlt. apply Z.ltb_lt in Hlt. rewrite Hlt in H5. apply Z.eqb_eq in H5. exact H5.
  - intros Hge. assert (E : (r <? 128) = false) by (apply Z.ltb_ge; lia). rewrite E in H5. apply Z.eqb_eq in H5. exact H5.
Qed.

(* the flag variant's split: range - range/2 = 1 + (((range-1) * 128) >> 8) *)
Lemma split_half r : 1 <= r -> r - r / 2 = split_of r 128 /\ r / 2 = r - split_of r 128.
Proof.
  intros Hr. unfold split_of. rewrite Z.shiftr_div_pow2 by lia. change (2 ^ 8) with 256. lia.
Qed.
