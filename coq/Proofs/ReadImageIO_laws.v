(* C10, the glue over the file reader (Model/ReadImageIO.v): the compositional law FaultLaw of Proofs/ContainerIO_laws.v
   (one injected fault at call index k against the fault-free run from the same state: outside the calls made -> same result
   and state; among the calls made -> IErr XFault after exactly k + 1 calls) holds for every function of the model:
   the Take-limited reads, std's read_to_end loop, range_reader, the VP8 decoder's header / partition reads, the adapter
   around the lossless decoder (from Proofs/LosslessIO_laws.v: FaultLaw_decode_frame of the lossless decoder's own reader
   state, plus the index arithmetic k_file = k0 + k_bitreader), read_alpha_chunk and read_image. *)
From Coq Require Import ZArith List Bool Lia.
From WebP Require Import Lib.Res Model.Container Model.ContainerIO Proofs.ContainerIO_prims Proofs.ContainerIO_laws.
From WebP Require Model.BitReader Model.BitReaderIO Model.LosslessIO Proofs.BitReaderIO_laws Proofs.LosslessIO_laws.
From WebP Require Import Model.ReadImageIO.
Import ListNotations.
Open Scope Z_scope.

(* ---------------------------------------------------------------------------------------------- *)
(* primitives                                                                                       *)
(* ---------------------------------------------------------------------------------------------- *)
Lemma FaultLaw_read_call want : FaultLaw (read_call want).
Proof.
  intros s k Hs Hk. unfold read_call. cbn [r_fail_at r_fail_eof r_calls r_pos r_sched set_fail]. rewrite remaining_set_fail.
  rewrite Hs, Hk. cbn [is_fail fault_err].
  destruct (k =? r_calls s) eqn:Ek.
  - apply Z.eqb_eq in Ek.
    cbn [fst snd set_pos_calls r_calls r_fail_at r_fail_eof].
    (split; [lia|]); (split; [exact Hs|]); (split; [exact Hk|]); (split; [lia|]); intros _; repeat split; lia.
  - apply Z.eqb_neq in Ek.
    cbn [fst snd set_pos_calls r_calls r_fail_at r_fail_eof].
    (split; [lia|]); (split; [exact Hs|]); (split; [exact Hk|]); (split; [reflexivity | lia]).
Qed.

Lemma FaultLaw_ghost lim : FaultLaw (ghost lim).
Proof. apply (FaultLaw_pure (fun s => IOk (takez lim (remaining s)))). reflexivity. Qed.

(* a computation whose fuel is read off the state *)
Lemma FaultLaw_state_dep {A} (g : rstate -> nat) (m : nat -> M A) :
  (forall s f, g (set_fail s f) = g s) -> (forall n, FaultLaw (m n)) -> FaultLaw (fun s => m (g s) s).
Proof. intros Hg Hm s k H1 H2. rewrite Hg. exact (Hm (g s) s k H1 H2). Qed.

#[export] Hint Resolve FaultLaw_read_call FaultLaw_ghost : flaw.

Lemma FaultLaw_take_read_exact lim n : FaultLaw (take_read_exact lim n).
Proof. unfold take_read_exact. fl. Qed.
#[export] Hint Resolve FaultLaw_take_read_exact : flaw.

Lemma FaultLaw_rte_loop fuel : forall lim vlen cap maxrd racc, FaultLaw (rte_loop fuel lim vlen cap maxrd racc).
Proof. induction fuel as [|fuel IH]; intros; cbn [rte_loop]; fl; apply IH. Qed.
#[export] Hint Resolve FaultLaw_rte_loop : flaw.

Lemma FaultLaw_take_read_to_end lim : FaultLaw (take_read_to_end lim).
Proof.
  unfold take_read_to_end. fl.
  apply (FaultLaw_state_dep (fun s => S (length (remaining s)))
           (fun n => rte_loop n (lim - len (z :: a)) (len (z :: a)) (Z.max 8 (len (z :: a))) 8192 (rev_append (z :: a) []))).
  - reflexivity.
  - intros n. apply FaultLaw_rte_loop.
Qed.
#[export] Hint Resolve FaultLaw_take_read_to_end : flaw.

Lemma FaultLaw_range_reader_io range : FaultLaw (range_reader_io range).
Proof. unfold range_reader_io. fl. Qed.
#[export] Hint Resolve FaultLaw_range_reader_io : flaw.

(* ---------------------------------------------------------------------------------------------- *)
(* the VP8 decoder's reads                                                                          *)
(* ---------------------------------------------------------------------------------------------- *)
Lemma FaultLaw_init_sized_partitions_io k : forall i sizes lim parts, FaultLaw (init_sized_partitions_io k i sizes lim parts).
Proof. induction k as [|k IH]; intros; cbn [init_sized_partitions_io]; fl; apply IH. Qed.
#[export] Hint Resolve FaultLaw_init_sized_partitions_io : flaw.

Lemma FaultLaw_init_partitions_io lim v n : FaultLaw (init_partitions_io lim v n).
Proof. unfold init_partitions_io. fl. Qed.
#[export] Hint Resolve FaultLaw_init_partitions_io : flaw.

Lemma FaultLaw_vp8_read_frame_header_io lim v : FaultLaw (vp8_read_frame_header_io lim v).
Proof. unfold vp8_read_frame_header_io. fl. Qed.
#[export] Hint Resolve FaultLaw_vp8_read_frame_header_io : flaw.

Lemma FaultLaw_vp8_decode_frame_io lim : FaultLaw (vp8_decode_frame_io lim).
Proof. unfold vp8_decode_frame_io. fl. Qed.
#[export] Hint Resolve FaultLaw_vp8_decode_frame_io : flaw.

(* ---------------------------------------------------------------------------------------------- *)
(* the adapter around the lossless decoder                                                          *)
(* ---------------------------------------------------------------------------------------------- *)
Lemma set_pos_calls_set_fail s f p c : set_pos_calls (set_fail s f) p c = set_fail (set_pos_calls s p c) f.
Proof. reflexivity. Qed.

Lemma FaultLaw_ll_take_decode lim w h implicit buf : FaultLaw (ll_take_decode lim w h implicit buf).
Proof.
  intros s k Hs He. unfold ll_take_decode.
  cbn [r_calls r_sched r_fail_at r_fail_eof r_pos set_fail]. rewrite !remaining_set_fail. rewrite Hs, He.
  set (d := takez lim (remaining s)).
  destruct (find_sched 64 (2 * len d + 64) d (r_sched s) (r_calls s) w h implicit buf) as [sl|].
  2:{ cbn [fst snd]. split; [lia|]. split; [exact Hs|]. split; [exact He|]. split; [intros _; reflexivity | lia]. }
  pose proof (LosslessIO_laws.FaultLaw_decode_frame w h implicit (Arr.of_list buf) (BitReaderIO.init_io d sl None) (k - r_calls s) eq_refl)
    as (_ & Ht & F1 & _).
  change (BitReaderIO_laws.arm (k - r_calls s) (BitReaderIO.init_io d sl None)) with (BitReaderIO.init_io d sl (Some (k - r_calls s))) in F1.
  change (LosslessIO.decode_frame_m w h implicit (Arr.of_list buf) (BitReaderIO.init_io d sl None)) with (ll_run d sl None w h implicit buf) in Ht, F1.
  change (LosslessIO.decode_frame_m w h implicit (Arr.of_list buf) (BitReaderIO.init_io d sl (Some (k - r_calls s))))
    with (ll_run d sl (Some (k - r_calls s)) w h implicit buf) in F1.
  destruct (ll_run d sl None w h implicit buf) as [out0 r0].
  cbn [fst snd BitReaderIO.calls BitReaderIO.init_io] in Ht, F1.
  set (m := if (lim <=? len (remaining s)) && is_nil (BitReader.data (BitReaderIO.br r0))
            then Z.max 0 (Z.min (BitReaderIO.calls r0) (first_blind 64 0 (BitReaderIO.calls r0) (call_sees_data d sl w h implicit buf)))
            else Z.max 0 (BitReaderIO.calls r0)).
  assert (Hm0 : 0 <= m) by (subst m; destruct (_ && _); lia).
  assert (Hmt : m <= Z.max 0 (BitReaderIO.calls r0)) by (subst m; destruct (_ && _); lia).
  cbn [fst snd set_pos_calls r_calls r_fail_at r_fail_eof].
  split; [lia|]. split; [exact Hs|]. split; [exact He|]. split.
  - intros Hout.
    replace ((r_calls s <=? k) && (k <? r_calls s + m)) with false
      by (symmetry; apply andb_false_iff; destruct Hout; [left; apply Z.leb_gt | right; apply Z.ltb_ge]; lia).
    reflexivity.
  - intros Hin.
    replace ((r_calls s <=? k) && (k <? r_calls s + m)) with true
      by (symmetry; apply andb_true_iff; split; [apply Z.leb_le | apply Z.ltb_lt]; lia).
    destruct (F1 ltac:(lia)) as (r'' & E & C & _). rewrite E. cbn [fst snd set_pos_calls r_calls r_fail_at fault_err].
    split; [reflexivity|]. split; [lia | reflexivity].
Qed.
#[export] Hint Resolve FaultLaw_ll_take_decode : flaw.

(* ---------------------------------------------------------------------------------------------- *)
(* read_alpha_chunk, read_image                                                                     *)
(* ---------------------------------------------------------------------------------------------- *)
Lemma FaultLaw_read_alpha_chunk_io lim w h : FaultLaw (read_alpha_chunk_io lim w h).
Proof. unfold read_alpha_chunk_io. fl. Qed.
#[export] Hint Resolve FaultLaw_read_alpha_chunk_io : flaw.

Lemma FaultLaw_read_image_vp8l_m dec range buf : FaultLaw (read_image_vp8l_m dec range buf).
Proof. unfold read_image_vp8l_m. fl. Qed.

Lemma FaultLaw_read_image_vp8_m dec buf : FaultLaw (read_image_vp8_m dec buf).
Proof. unfold read_image_vp8_m. fl. Qed.
#[export] Hint Resolve FaultLaw_read_image_vp8l_m FaultLaw_read_image_vp8_m : flaw.

Theorem FaultLaw_read_image_m dec buf : FaultLaw (read_image_m dec buf).
Proof. unfold read_image_m. fl. Qed.
