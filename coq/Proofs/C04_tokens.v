(* C04 layer L4: the token stream.  The literal and run tokens written by encode_frame's pixel loop decode, under the
   specification's decode_pixels (one prefix-code group, no colour cache, no meta codes; every run is a backward
   reference with distance code 2 = the previous pixel), to the pixel sequence that was encoded. *)
From Coq Require Import ZArith NArith List Bool Lia.
From WebP Require Import Lib.Res Lib.Arr Lib.ZBits Lib.Sweep Gen.Kernels Model.EncoderHeap Model.Encoder Spec.LZ77Prefix
  Proofs.Huffman_lists Proofs.Encoder_bitwriter Proofs.Encoder_runs
  Proofs.C04_bits Proofs.C04_prefix Proofs.C04_codedesc Proofs.C04_arr.
From WebP Require Spec.VP8L.
Import ListNotations.
Open Scope Z_scope.

(* ------------------------------------------------------------------------------------------------ *)
(** * the specification's bounded loop `run` *)
Section RunLemma.
  Context {St : Type} (finished : St -> bool) (step : St -> option St).

  (* n steps from s to t, none of them taken from a finished state *)
  Fixpoint reach (n : nat) (s t : St) : Prop :=
    match n with
    | O => s = t
    | S m => finished s = false /\ exists u, step s = Some u /\ reach m u t
    end.

  Lemma reach_app a : forall b s t, reach (a + b) s t <-> exists u, reach a s u /\ reach b u t.
  Proof.
    induction a as [|a IH]; intros b s t; cbn [Nat.add reach].
    - split; [intros H; exists s; split; [reflexivity | exact H] | intros [u [-> H]]; exact H].
    - split.
      + intros [Hf [u [Hs H]]]. apply IH in H. destruct H as [v [H1 H2]]. exists v. split; [|exact H2].
        split; [exact Hf|]. exists u. split; assumption.
      + intros [v [[Hf [u [Hs H1]]] H2]]. split; [exact Hf|]. exists u. split; [exact Hs|]. apply IH. exists v. split; assumption.
  Qed.

  Lemma run_finished p s : finished s = true -> V.run finished step p s = Some s.
  Proof. intros H. destruct p; cbn [V.run]; rewrite H; reflexivity. Qed.

  Lemma run_reach : forall p,
    (forall n s t, (n <= Pos.to_nat p)%nat -> reach n s t -> finished t = true -> V.run finished step p s = Some t)
    /\ (forall s t, reach (Pos.to_nat p) s t -> V.run finished step p s = Some t).
  Proof.
    assert (D : forall q,
      (forall n s t, (n <= Pos.to_nat q)%nat -> reach n s t -> finished t = true -> V.run finished step q s = Some t) ->
      (forall s t, reach (Pos.to_nat q) s t -> V.run finished step q s = Some t) ->
      (forall n s t, (n <= 2 * Pos.to_nat q)%nat -> reach n s t -> finished t = true ->
         match V.run finished step q s with Some s' => V.run finished step q s' | None => None end = Some t)
      /\ (forall s t, reach (Pos.to_nat q + Pos.to_nat q) s t ->
         match V.run finished step q s with Some s' => V.run finished step q s' | None => None end = Some t)).
    { intros q IHA IHB. split.
      - intros n s t Hn Hr Hf. destruct (le_lt_dec n (Pos.to_nat q)) as [Hle | Hgt].
        + rewrite (IHA n s t Hle Hr Hf). apply run_finished. exact Hf.
        + replace n with (Pos.to_nat q + (n - Pos.to_nat q))%nat in Hr by lia. apply reach_app in Hr.
          destruct Hr as [u [H1 H2]]. rewrite (IHB s u H1). apply (IHA (n - Pos.to_nat q)%nat); [lia | exact H2 | exact Hf].
      - intros s t Hr. apply reach_app in Hr. destruct Hr as [u [H1 H2]]. rewrite (IHB s u H1). apply IHB. exact H2. }
    induction p as [q [IHA IHB] | q [IHA IHB] |].
    - destruct (D q IHA IHB) as [DA DB]. split.
      + intros n s t Hn Hr Hf. cbn [V.run]. destruct (finished s) eqn:Es.
        * destruct n; cbn [reach] in Hr; [subst; reflexivity | destruct Hr as [Hc _]; congruence].
        * destruct n; cbn [reach] in Hr; [subst; congruence|]. destruct Hr as [_ [u [Hs Hr]]]. rewrite Hs.
          apply (DA n); [rewrite Pos2Nat.inj_xI in Hn; lia | exact Hr | exact Hf].
      + intros s t Hr. rewrite Pos2Nat.inj_xI in Hr. cbn [reach] in Hr. destruct Hr as [Es [u [Hs Hr]]].
        cbn [V.run]. rewrite Es, Hs. apply DB. replace (Pos.to_nat q + Pos.to_nat q)%nat with (2 * Pos.to_nat q)%nat by lia. exact Hr.
    - destruct (D q IHA IHB) as [DA DB]. split.
      + intros n s t Hn Hr Hf. cbn [V.run]. destruct (finished s) eqn:Es.
        * destruct n; cbn [reach] in Hr; [subst; reflexivity | destruct Hr as [Hc _]; congruence].
        * apply (DA n); [rewrite Pos2Nat.inj_xO in Hn; lia | exact Hr | exact Hf].
      + intros s t Hr. rewrite Pos2Nat.inj_xO in Hr. cbn [V.run]. destruct (finished s) eqn:Es.
        * pose proof (Pos2Nat.is_pos q). destruct (2 * Pos.to_nat q)%nat eqn:E2; [lia|]. cbn [reach] in Hr. destruct Hr as [Hc _]. congruence.
        * apply DB. replace (Pos.to_nat q + Pos.to_nat q)%nat with (2 * Pos.to_nat q)%nat by lia. exact Hr.
    - split.
      + intros n s t Hn Hr Hf. cbn [V.run]. destruct (finished s) eqn:Es.
        * destruct n; cbn [reach] in Hr; [subst; reflexivity | destruct Hr as [Hc _]; congruence].
        * destruct n; cbn [reach] in Hr; [subst; congruence|]. destruct Hr as [_ [u [Hs Hr]]].
          change (Pos.to_nat 1) with 1%nat in Hn. destruct n; [|lia]. cbn [reach] in Hr. subst. exact Hs.
      + intros s t Hr. change (Pos.to_nat 1) with 1%nat in Hr. cbn [reach] in Hr. destruct Hr as [Es [u [Hs ->]]].
        cbn [V.run]. rewrite Es. exact Hs.
  Qed.
End RunLemma.

(* ------------------------------------------------------------------------------------------------ *)
(** * runs of equal pixels *)
Lemma pixel_eqb_eq p q : pixel_eqb p q = true <-> p = q.
Proof.
  destruct p as [[[a b] c] d]. destruct q as [[[a' b'] c'] d']. unfold pixel_eqb.
  rewrite !andb_true_iff, !Z.eqb_eq. split; [intros [[[-> ->] ->] ->]; reflexivity | intros H; inversion H; auto].
Qed.

Lemma take_run_spec p : forall rest r0, 0 <= r0 <= 4096 ->
  exists m rest', take_run p rest r0 = (r0 + Z.of_nat m, rest') /\ rest = repeat p m ++ rest' /\ r0 + Z.of_nat m <= 4096.
Proof.
  induction rest as [|q tl IH]; intros r0 Hr; cbn [take_run].
  - exists 0%nat, []. split; [f_equal; lia|]. split; [reflexivity | lia].
  - destruct ((r0 <? 4096) && pixel_eqb q p) eqn:E.
    + apply andb_true_iff in E. destruct E as [E1 E2]. apply Z.ltb_lt in E1. apply pixel_eqb_eq in E2. subst q.
      destruct (IH (r0 + 1) ltac:(lia)) as [m [rest' [E [Hrest Hb]]]].
      exists (S m), rest'. split; [rewrite E; f_equal; lia|]. split; [cbn [repeat app]; rewrite <- Hrest; reflexivity | lia].
    + exists 0%nat, (q :: tl). split; [f_equal; lia|]. split; [reflexivity | lia].
Qed.

(* the segmentation both loops of encode_frame walk through: (pixel, length of the run that follows it) *)
Fixpoint segments (fuel : nat) (pxs : list pixel) : list (pixel * Z) :=
  match fuel with
  | O => []
  | S fuel => match pxs with
              | [] => []
              | p :: rest => let '(run, rest') := take_run p rest 0 in (p, run) :: segments fuel rest'
              end
  end.

(* ------------------------------------------------------------------------------------------------ *)
(** * literals: up to four code words packed into one field *)
Lemma concat_range a b x y : 0 <= a -> 0 <= b -> 0 <= x < 2 ^ a -> 0 <= y < 2 ^ b -> 0 <= x + y * 2 ^ a < 2 ^ (a + b).
Proof. intros Ha Hb Hx Hy. rewrite Z.pow_add_r by lia. nia. Qed.

Lemma bits_of_concat_Z a b x y : 0 <= a -> 0 <= b -> 0 <= x < 2 ^ a ->
  bits_of (Z.to_nat (a + b)) (x + y * 2 ^ a) = bits_of (Z.to_nat a) x ++ bits_of (Z.to_nat b) y.
Proof.
  intros Ha Hb Hx. rewrite Z2Nat.inj_add by lia. rewrite <- (Z2Nat.id a Ha) at 2.
  apply bits_of_concat. rewrite Z2Nat.id by lia. exact Hx.
Qed.

Lemma shl64_small c l n : 0 <= l <= 15 -> 0 <= c < 2 ^ l -> 0 <= n <= 45 -> (c * 2 ^ n) mod two64 = c * 2 ^ n.
Proof.
  intros Hl Hc Hn. apply Z.mod_small. unfold two64. change 18446744073709551616 with (2 ^ 64).
  assert (2 ^ l <= 2 ^ 15) by (apply Z.pow_le_mono_r; lia).
  assert (0 < 2 ^ n <= 2 ^ 45) by (split; [apply pow2_pos; lia | apply Z.pow_le_mono_r; lia]).
  change (2 ^ 15) with 32768 in *. change (2 ^ 45) with 35184372088832 in *. change (2 ^ 64) with 18446744073709551616. nia.
Qed.

(* the literal part of one iteration of write_loop, copied from Model.Encoder (see write_loop_unfold) *)
Definition write_literal (ct : color) (p : pixel) (c0 l0 c1 l1 c2 l2 c3 l3 : arr) (k : M bitwriter unit) : M bitwriter unit :=
  let '(r, g, b, a) := p in
  mbind (lift (aread l1 g)) (fun len1 => mbind (lift (aread c1 g)) (fun code1 => mbind
    (match ct with
    | L8 => write_bits code1 len1
    | La8 =>
      mbind (lift (aread l3 a)) (fun len3 => mbind (lift (aread c3 a)) (fun code3 =>
      mbind (lift (cadd u8_max len1 len3)) (fun n =>
      if 64 <=? len1 then lift (Panic PShift) else
      write_bits (Z.lor code1 ((code3 * 2 ^ len1) mod two64)) n)))
    | Rgb8 =>
      mbind (lift (aread l0 r)) (fun len0 => mbind (lift (aread l2 b)) (fun len2 =>
      mbind (lift (aread c0 r)) (fun code0 => mbind (lift (aread c2 b)) (fun code2 =>
      mbind (lift (cadd u8_max len1 len0)) (fun n10 =>
      if (64 <=? len1) || (64 <=? n10) then lift (Panic PShift) else
      mbind (lift (cadd u8_max n10 len2)) (fun n =>
      write_bits (Z.lor (Z.lor code1 ((code0 * 2 ^ len1) mod two64)) ((code2 * 2 ^ n10) mod two64)) n))))))
    | Rgba8 =>
      mbind (lift (aread l0 r)) (fun len0 => mbind (lift (aread l2 b)) (fun len2 => mbind (lift (aread l3 a)) (fun len3 =>
      mbind (lift (aread c0 r)) (fun code0 => mbind (lift (aread c2 b)) (fun code2 => mbind (lift (aread c3 a)) (fun code3 =>
      mbind (lift (cadd u8_max len1 len0)) (fun n10 => mbind (lift (cadd u8_max n10 len2)) (fun n102 =>
      if (64 <=? len1) || (64 <=? n10) || (64 <=? n102) then lift (Panic PShift) else
      mbind (lift (cadd u8_max n102 len3)) (fun n =>
      write_bits (Z.lor (Z.lor (Z.lor code1 ((code0 * 2 ^ len1) mod two64)) ((code2 * 2 ^ n10) mod two64))
                        ((code3 * 2 ^ n102) mod two64)) n)))))))))
    end) (fun _ => k))).

Lemma write_loop_unfold fuel ct p rest c0 l0 c1 l1 c2 l2 c3 l3 :
  write_loop (S fuel) ct (p :: rest) c0 l0 c1 l1 c2 l2 c3 l3
  = write_literal ct p c0 l0 c1 l1 c2 l2 c3 l3
      (let '(run, rest') := take_run p rest 0 in
       mbind (write_run_emit run c1 l1) (fun _ => write_loop fuel ct rest' c0 l0 c1 l1 c2 l2 c3 l3)).
Proof. destruct p as [[[r g] b] a]. reflexivity. Qed.

Section Tokens.
  Variables (ct : color) (lens0 codes0 lens1 codes1 lens2 codes2 lens3 codes3 : list Z).
  Variables (k0 k1 k2 k3 : V.code).
  Hypothesis Hlen : length lens0 = 256%nat /\ length codes0 = 256%nat /\ length lens1 = 280%nat /\ length codes1 = 280%nat
                    /\ length lens2 = 256%nat /\ length codes2 = 256%nat /\ length lens3 = 256%nat /\ length codes3 = 256%nat.

  (* the code word of symbol v in channel code (lens, codes) *)
  Definition cwbits (lens codes : list Z) (v : Z) : list bool :=
    bits_of (Z.to_nat (nth (Z.to_nat v) lens 0)) (nth (Z.to_nat v) codes 0).

  Definition lit_ok (p : pixel) : Prop :=
    let '(r, g, b, a) := p in
    (0 <= r < 256 /\ 0 <= g < 256 /\ 0 <= b < 256 /\ 0 <= a < 256)
    /\ sym_ok k1 lens1 codes1 (Z.to_nat g) /\ sym_ok k0 lens0 codes0 (Z.to_nat r)
    /\ sym_ok k2 lens2 codes2 (Z.to_nat b) /\ sym_ok k3 lens3 codes3 (Z.to_nat a)
    /\ (is_color ct = false -> nth (Z.to_nat r) lens0 0 = 0 /\ nth (Z.to_nat b) lens2 0 = 0)
    /\ (is_alpha ct = false -> nth (Z.to_nat a) lens3 0 = 0).

  Lemma cadd_u8 x y : 0 <= x -> 0 <= y -> x + y <= 255 -> cadd u8_max x y = Ok (x + y).
  Proof. intros. unfold cadd, u8_max. replace (255 <? x + y) with false by (symmetry; apply Z.ltb_ge; lia). reflexivity. Qed.

  Definition litbits (p : pixel) : list bool :=
    let '(r, g, b, a) := p in
    cwbits lens1 codes1 g ++ cwbits lens0 codes0 r ++ cwbits lens2 codes2 b ++ cwbits lens3 codes3 a.

  Lemma literal_emits p k bs : lit_ok p -> emits k bs tt ->
    emits (write_literal ct p (of_list codes0) (of_list lens0) (of_list codes1) (of_list lens1)
                         (of_list codes2) (of_list lens2) (of_list codes3) (of_list lens3) k)
          (litbits p ++ bs) tt.
  Proof.
    destruct p as [[[r g] b] a]. intros Hlit Hk. revert Hlit. unfold litbits. intros [Hb [[Hl1 [Hc1 _]] [[Hl0 [Hc0 _]] [[Hl2 [Hc2 _]] [[Hl3 [Hc3 _]] [Hcol Halp]]]]]].
    destruct Hlen as [L0 [C0 [L1 [C1 [L2 [C2 [L3 C3]]]]]]].
    unfold write_literal, cwbits.
    set (len1 := nth (Z.to_nat g) lens1 0) in *. set (code1 := nth (Z.to_nat g) codes1 0) in *.
    set (len0 := nth (Z.to_nat r) lens0 0) in *. set (code0 := nth (Z.to_nat r) codes0 0) in *.
    set (len2 := nth (Z.to_nat b) lens2 0) in *. set (code2 := nth (Z.to_nat b) codes2 0) in *.
    set (len3 := nth (Z.to_nat a) lens3 0) in *. set (code3 := nth (Z.to_nat a) codes3 0) in *.
    eapply emits_lift_bind; [apply aread_of_list; unfold zlen; lia|]. fold len1.
    eapply emits_lift_bind; [apply aread_of_list; unfold zlen; lia|]. fold code1.
    assert (P1 : 0 <= len1 <= 64) by lia.
    apply emits_seq; [|exact Hk].
    destruct ct.
    - (* L8 *)
      destruct (Hcol eq_refl) as [Z0 Z2]. specialize (Halp eq_refl). rewrite Z0, Z2, Halp.
      change (Z.to_nat 0) with 0%nat. cbn [bits_of app]. rewrite app_nil_r.
      apply write_bits_emits; [lia | exact Hc1].
    - (* La8 *)
      destruct (Hcol eq_refl) as [Z0 Z2]. rewrite Z0, Z2. change (Z.to_nat 0) with 0%nat. cbn [bits_of app].
      eapply emits_lift_bind; [apply aread_of_list; unfold zlen; lia|]. fold len3.
      eapply emits_lift_bind; [apply aread_of_list; unfold zlen; lia|]. fold code3.
      eapply emits_lift_bind; [apply cadd_u8; lia|].
      replace (64 <=? len1) with false by (symmetry; apply Z.leb_gt; lia).
      rewrite (shl64_small code3 len3 len1) by lia. rewrite lor_low_high by lia.
      rewrite <- bits_of_concat_Z by lia.
      apply write_bits_emits; [lia | apply concat_range; lia].
    - (* Rgb8 *)
      specialize (Halp eq_refl). rewrite Halp. change (Z.to_nat 0) with 0%nat. cbn [bits_of]. rewrite app_nil_r.
      eapply emits_lift_bind; [apply aread_of_list; unfold zlen; lia|]. fold len0.
      eapply emits_lift_bind; [apply aread_of_list; unfold zlen; lia|]. fold len2.
      eapply emits_lift_bind; [apply aread_of_list; unfold zlen; lia|]. fold code0.
      eapply emits_lift_bind; [apply aread_of_list; unfold zlen; lia|]. fold code2.
      eapply emits_lift_bind; [apply cadd_u8; lia|].
      replace ((64 <=? len1) || (64 <=? len1 + len0)) with false
        by (symmetry; apply orb_false_iff; split; apply Z.leb_gt; lia).
      eapply emits_lift_bind; [apply cadd_u8; lia|].
      rewrite (shl64_small code0 len0 len1), (shl64_small code2 len2 (len1 + len0)) by lia.
      pose proof (concat_range len1 len0 code1 code0 ltac:(lia) ltac:(lia) Hc1 Hc0) as R10.
      rewrite (lor_low_high code1) by lia. rewrite lor_low_high by lia.
      rewrite <- (bits_of_concat_Z len0 len2) by lia.
      replace (code1 + code0 * 2 ^ len1 + code2 * 2 ^ (len1 + len0)) with (code1 + (code0 + code2 * 2 ^ len0) * 2 ^ len1)
        by (rewrite Z.pow_add_r by lia; ring).
      replace (len1 + len0 + len2) with (len1 + (len0 + len2)) by lia.
      rewrite <- bits_of_concat_Z by lia.
      apply write_bits_emits; [lia|]. apply concat_range; try lia. apply concat_range; lia.
    - (* Rgba8 *)
      eapply emits_lift_bind; [apply aread_of_list; unfold zlen; lia|]. fold len0.
      eapply emits_lift_bind; [apply aread_of_list; unfold zlen; lia|]. fold len2.
      eapply emits_lift_bind; [apply aread_of_list; unfold zlen; lia|]. fold len3.
      eapply emits_lift_bind; [apply aread_of_list; unfold zlen; lia|]. fold code0.
      eapply emits_lift_bind; [apply aread_of_list; unfold zlen; lia|]. fold code2.
      eapply emits_lift_bind; [apply aread_of_list; unfold zlen; lia|]. fold code3.
      eapply emits_lift_bind; [apply cadd_u8; lia|].
      eapply emits_lift_bind; [apply cadd_u8; lia|].
      replace ((64 <=? len1) || (64 <=? len1 + len0) || (64 <=? len1 + len0 + len2)) with false
        by (symmetry; apply orb_false_iff; split; [apply orb_false_iff; split|]; apply Z.leb_gt; lia).
      eapply emits_lift_bind; [apply cadd_u8; lia|].
      rewrite (shl64_small code0 len0 len1), (shl64_small code2 len2 (len1 + len0)),
              (shl64_small code3 len3 (len1 + len0 + len2)) by lia.
      pose proof (concat_range len1 len0 code1 code0 ltac:(lia) ltac:(lia) Hc1 Hc0) as R10.
      pose proof (concat_range (len1 + len0) len2 _ code2 ltac:(lia) ltac:(lia) R10 Hc2) as R102.
      rewrite (lor_low_high code1) by lia. rewrite (lor_low_high _ code2) by lia. rewrite lor_low_high by lia.
      rewrite <- (bits_of_concat_Z len2 len3) by lia. rewrite <- (bits_of_concat_Z len0 (len2 + len3)) by (try apply concat_range; lia).
      replace (code1 + code0 * 2 ^ len1 + code2 * 2 ^ (len1 + len0) + code3 * 2 ^ (len1 + len0 + len2))
        with (code1 + (code0 + (code2 + code3 * 2 ^ len2) * 2 ^ len0) * 2 ^ len1)
        by (rewrite !Z.pow_add_r by lia; ring).
      replace (len1 + len0 + len2 + len3) with (len1 + (len0 + (len2 + len3))) by lia.
      rewrite <- bits_of_concat_Z by lia.
      apply write_bits_emits; [lia|]. apply concat_range; try lia. apply concat_range; try lia. apply concat_range; lia.
  Qed.

  (* ---------------------------------------------------------------------------------------------- *)
  (** ** run tokens *)
  Definition runbits (run : Z) : list bool :=
    let '(p, e, x) := run_token run in cwbits lens1 codes1 (256 + p) ++ bits_of (Z.to_nat e) x.
  Definition run_ok (run : Z) : Prop :=
    let '(p, e, x) := run_token run in sym_ok k1 lens1 codes1 (Z.to_nat (256 + p)).

  Lemma run_emits run : 1 <= run <= 4096 -> run_ok run ->
    emits (write_run_emit run (of_list codes1) (of_list lens1)) (runbits run) tt.
  Proof.
    intros Hr Hok. pose proof (run_token_roundtrip run Hr) as RT. unfold runbits, run_ok in *.
    destruct Hlen as [_ [_ [L1 [C1 _]]]].
    unfold write_run_emit. replace (0 <? run) with true by (symmetry; apply Z.ltb_lt; lia).
    unfold run_token in *. destruct (run <=? 4) eqn:E4.
    - destruct RT as [Hp _]. destruct Hok as [Hl [Hc _]]. unfold cwbits.
      replace (256 + run - 1) with (256 + (run - 1)) by lia.
      eapply emits_lift_bind; [apply aread_of_list; unfold zlen; lia|].
      eapply emits_lift_bind; [apply aread_of_list; unfold zlen; lia|].
      change (Z.to_nat 0) with 0%nat. cbn [bits_of]. rewrite app_nil_r.
      apply write_bits_emits; [lia | exact Hc].
    - apply Z.leb_gt in E4. destruct (length_to_symbol (wrapU 16 run)) as [symbol extra] eqn:Els.
      destruct RT as [Hp [He [Hx [He10 [_ Hlok]]]]]. rewrite (Hlok ltac:(lia)).
      destruct Hok as [Hl [Hc _]]. unfold cwbits.
      assert (He0 : 0 <= extra).
      { rewrite He. unfold prefix_extra_bits. destruct (symbol <? 4) eqn:E; [lia|]. apply Z.ltb_ge in E. apply Z.shiftr_nonneg. lia. }
      eapply emits_lift_bind; [apply aread_of_list; unfold zlen; lia|].
      eapply emits_lift_bind; [apply aread_of_list; unfold zlen; lia|].
      apply emits_seq; [apply write_bits_emits; [lia | exact Hc]|].
      replace (64 <=? extra) with false by (symmetry; apply Z.leb_gt; lia).
      apply write_bits_emits; [lia | exact Hx].
  Qed.

  Lemma lz77_bridge_sweep :
    forallb (fun p => (p <? 4) || ((Z.shiftr (p - 2) 1 =? (p - 2) / 2)
                       && (Z.shiftl (2 + Z.land p 1) (Z.shiftr (p - 2) 1) =? (2 + p mod 2) * 2 ^ ((p - 2) / 2))))
            (zrange 24 0) = true.
  Proof. vm_compute. reflexivity. Qed.

  Lemma lz77_parses run : 1 <= run <= 4096 ->
    let '(p, e, x) := run_token run in parses (V.read_lz77_value p) (bits_of (Z.to_nat e) x) run.
  Proof.
    intros Hr. pose proof (run_token_roundtrip run Hr) as RT. destruct (run_token run) as [[p e] x].
    destruct RT as [Hp [He [Hx [He10 [Hv _]]]]].
    unfold V.read_lz77_value. unfold prefix_value, prefix_extra_bits in *.
    destruct (p <? 4) eqn:E4.
    - subst e. change (Z.to_nat 0) with 0%nat. cbn [bits_of]. rewrite Hv. apply parses_nil.
    - pose proof (forallb_zrange _ _ _ lz77_bridge_sweep p ltac:(lia)) as B. cbv beta in B. rewrite E4 in B. cbn [orb] in B.
      apply andb_true_iff in B. destruct B as [B1 B2]. apply Z.eqb_eq in B1, B2.
      rewrite B1 in *. rewrite B2 in Hv. subst e.
      intros s rest Hs. pstep (read_bits_parses (Z.to_nat ((p - 2) / 2)) x ltac:(rewrite Z2Nat.id by (apply Z.div_pos; apply Z.ltb_ge in E4; lia); exact Hx)) Hs.
      rewrite Hv. eexists. split; [reflexivity | exact Hs].
  Qed.

  Lemma litbits_length p : lit_ok p -> (length (litbits p) <= 60)%nat.
  Proof.
    destruct p as [[[r g] b] a]. intros [_ [[Hl1 _] [[Hl0 _] [[Hl2 _] [[Hl3 _] _]]]]].
    unfold litbits, cwbits. rewrite !app_length, !bits_of_length. lia.
  Qed.

  Lemma runbits_length run : 1 <= run <= 4096 -> run_ok run -> (length (runbits run) <= 25)%nat.
  Proof.
    intros Hr Hok. pose proof (run_token_roundtrip run Hr) as RT. unfold runbits, run_ok in *.
    destruct (run_token run) as [[p e] x]. destruct RT as [_ [_ [_ [He _]]]]. destruct Hok as [Hl _].
    unfold cwbits. rewrite app_length, !bits_of_length. lia.
  Qed.

  Lemma run_emits0 run : 0 <= run <= 4096 -> (0 < run -> run_ok run) ->
    emits (write_run_emit run (of_list codes1) (of_list lens1)) (if 0 <? run then runbits run else []) tt.
  Proof.
    intros Hr Hok. destruct (0 <? run) eqn:E.
    - apply Z.ltb_lt in E. apply run_emits; [lia | apply Hok; exact E].
    - unfold write_run_emit. rewrite E. apply emits_ret.
  Qed.

  (* ---------------------------------------------------------------------------------------------- *)
  (** ** the decoder's steps *)
  Variables (w h : Z).
  Definition grp : V.group :=
    {| V.g_green := k1; V.g_red := k0; V.g_blue := k2; V.g_alpha := k3; V.g_dist := V.Symbol 1 |}.
  Definition im : V.image_info :=
    {| V.xsize := w; V.ysize := h; V.cache_bits := 0; V.groups := [grp]; V.meta := None |}.
  Definition apix (p : pixel) : Z := let '(r, g, b, a) := p in V.argb a r g b.

  Lemma group_at_im x y : V.group_at im x y = Some grp.
  Proof. reflexivity. Qed.

  Lemma step_literal st p tail : lit_ok p -> sbits (V.input st) = litbits p ++ tail ->
    exists s', sbits s' = tail /\ V.decode_step im st = Some (V.emit im (apix p) (V.with_input st s')).
  Proof.
    destruct p as [[[r g] b] a]. intros [Hb [[_ [_ P1]] [[_ [_ P0]] [[_ [_ P2]] [[_ [_ P3]] _]]]]] Hs.
    unfold litbits, cwbits in Hs. rewrite <- !app_assoc in Hs.
    rewrite Z2Nat.id in P1, P0, P2, P3 by lia.
    unfold V.decode_step. rewrite group_at_im. cbv beta iota zeta. cbn [V.g_green V.g_red V.g_blue V.g_alpha grp].
    pstep P1 Hs. replace (g <? 256) with true by (symmetry; apply Z.ltb_lt; lia).
    pstep P0 Hs. pstep P2 Hs. pstep P3 Hs.
    eexists. split; [exact Hs | reflexivity].
  Qed.

  Lemma distance_code_2 : V.distance_of_code w 2 = 1.
  Proof. reflexivity. Qed.

  Lemma step_run st run tail : 1 <= run <= 4096 -> run_ok run -> 1 <= V.pos st -> run <= w * h - V.pos st ->
    sbits (V.input st) = runbits run ++ tail ->
    exists s', sbits s' = tail /\ V.decode_step im st = Some (V.copy_pixels im (Z.to_nat run) 1 (V.with_input st s')).
  Proof.
    intros Hr Hok Hpos Hfit Hs. pose proof (lz77_parses run Hr) as LZ. pose proof (run_token_roundtrip run Hr) as RT.
    unfold runbits, run_ok in *. destruct (run_token run) as [[p e] x]. destruct RT as [Hp _].
    destruct Hok as [_ [_ P1]]. rewrite Z2Nat.id in P1 by lia. unfold cwbits in Hs. rewrite <- app_assoc in Hs.
    unfold V.decode_step. rewrite group_at_im. cbv beta iota zeta. cbn [V.g_green V.g_dist grp].
    pstep P1 Hs. replace (256 + p <? 256) with false by (symmetry; apply Z.ltb_ge; lia).
    replace (256 + p <? 256 + 24) with true by (symmetry; apply Z.ltb_lt; lia).
    replace (256 + p - 256) with p by lia.
    pstep LZ Hs. cbn [V.read_symbol]. change (V.read_lz77_value 1 s0) with (Some (2, s0)). cbv beta iota.
    cbn [V.xsize V.ysize im]. rewrite distance_code_2. cbn [V.pos V.with_input].
    replace ((1 >? V.pos st) || (run >? w * h - V.pos st)) with false.
    - eexists. split; [exact Hs | reflexivity].
    - symmetry. apply orb_false_iff. split; rewrite Z.gtb_ltb; apply Z.ltb_ge; lia.
  Qed.

  Lemma copy_pixels_spec : forall n st, 1 <= V.pos st ->
    V.pos (V.copy_pixels im n 1 st) = V.pos st + Z.of_nat n
    /\ V.input (V.copy_pixels im n 1 st) = V.input st
    /\ alen (V.pixels (V.copy_pixels im n 1 st)) = alen (V.pixels st)
    /\ (forall j, 0 <= j < V.pos st -> V.pix (V.pixels (V.copy_pixels im n 1 st)) j = V.pix (V.pixels st) j)
    /\ (forall j, V.pos st <= j < V.pos st + Z.of_nat n ->
                  V.pix (V.pixels (V.copy_pixels im n 1 st)) j = V.pix (V.pixels st) (V.pos st - 1)).
  Proof.
    induction n as [|n IH]; intros st Hp; cbn [V.copy_pixels].
    - repeat split; intros; lia.
    - set (st1 := V.emit im (V.pix (V.pixels st) (V.pos st - 1)) st).
      assert (Hp1 : V.pos st1 = V.pos st + 1) by reflexivity.
      assert (Hx1 : V.pixels st1 = V.set_pix (V.pixels st) (V.pos st) (V.pix (V.pixels st) (V.pos st - 1))) by reflexivity.
      destruct (IH st1 ltac:(lia)) as [H1 [H2 [H3 [H4 H5]]]].
      rewrite Hp1 in *. rewrite Hx1 in *.
      split; [lia|]. split; [exact H2|]. split; [exact H3|]. split.
      + intros j Hj. rewrite H4 by lia. rewrite pix_set_pix by lia. replace (V.pos st =? j) with false by (symmetry; apply Z.eqb_neq; lia). reflexivity.
      + intros j Hj. destruct (Z.eq_dec j (V.pos st)) as [-> | Hne].
        * rewrite H4 by lia. rewrite pix_set_pix by lia. rewrite Z.eqb_refl. reflexivity.
        * rewrite H5 by lia. rewrite pix_set_pix by lia.
          replace (V.pos st + 1 - 1) with (V.pos st) by lia. rewrite Z.eqb_refl. reflexivity.
  Qed.

  (* ---------------------------------------------------------------------------------------------- *)
  (** ** the loop *)
  Definition dpx : pixel := (0, 0, 0, 0).
  Definition fin (st : V.state) : bool := w * h <=? V.pos st.
  Definition dinv (all : list pixel) (k : Z) (st : V.state) : Prop :=
    V.pos st = k /\ alen (V.pixels st) = Z.to_N (w * h)
    /\ forall j, 0 <= j < k -> V.pix (V.pixels st) j = apix (nth (Z.to_nat j) all dpx).
  Definition seg_ok (sg : pixel * Z) : Prop := lit_ok (fst sg) /\ (0 < snd sg -> run_ok (snd sg)).

  Lemma nth_run (p : pixel) rest' d : forall m i, (i <= m)%nat -> nth i (p :: repeat p m ++ rest') d = p.
  Proof.
    induction m as [|m IH]; intros [|i] Hi; try reflexivity; try lia.
    cbn [repeat app nth]. apply (IH i). lia.
  Qed.

  Lemma loop_roundtrip (all : list pixel) : zlen all = w * h ->
    forall fuel rest done, all = done ++ rest -> (length rest < fuel)%nat -> Forall seg_ok (segments fuel rest) ->
    exists bs,
      emits (write_loop fuel ct rest (of_list codes0) (of_list lens0) (of_list codes1) (of_list lens1)
                        (of_list codes2) (of_list lens2) (of_list codes3) (of_list lens3)) bs tt
      /\ zlen bs <= 85 * zlen rest
      /\ forall st tail, dinv all (zlen done) st -> sbits (V.input st) = bs ++ tail ->
           exists n st', (n <= length rest)%nat /\ reach fin (V.decode_step im) n st st'
                         /\ dinv all (w * h) st' /\ sbits (V.input st') = tail.
  Proof.
    intros Hall. induction fuel as [|fuel IH]; intros rest done Hsplit Hfuel HF; [lia|].
    destruct rest as [|p rest0].
    - exists []. split; [apply emits_ret|]. split; [cbn; lia|]. intros st tail Hinv Hs. exists 0%nat, st.
      split; [lia|]. split; [reflexivity|]. split; [|exact Hs].
      rewrite app_nil_r in Hsplit. subst done. rewrite Hall in Hinv. exact Hinv.
    - destruct (take_run_spec p rest0 0 ltac:(lia)) as [m [rest' [Etr [Hrest Hb]]]]. rewrite Z.add_0_l in Etr, Hb.
      cbn [segments] in HF. rewrite Etr in HF. apply Forall_cons_iff in HF. destruct HF as [[Hlit Hrun] HF]. cbn [fst snd] in Hlit, Hrun.
      assert (Hlenrest : length rest0 = (m + length rest')%nat) by (rewrite Hrest, app_length, repeat_length; reflexivity).
      cbn [length] in Hfuel.
      destruct (IH rest' (done ++ p :: repeat p m)) as [bs' [Hem' [Hbl' Hdec']]].
      { rewrite Hsplit, Hrest, <- app_assoc. reflexivity. }
      { lia. }
      { exact HF. }
      pose proof (run_emits0 (Z.of_nat m) ltac:(lia) Hrun) as Hrem.
      set (rb := if 0 <? Z.of_nat m then runbits (Z.of_nat m) else []) in *.
      exists (litbits p ++ rb ++ bs'). split; [|split].
      + rewrite write_loop_unfold, Etr. apply literal_emits; [exact Hlit|]. apply emits_seq; [exact Hrem | exact Hem'].
      + pose proof (litbits_length p Hlit) as B1.
        assert (B2 : (length rb <= 25)%nat).
        { unfold rb. destruct (0 <? Z.of_nat m) eqn:Em; [|cbn; lia]. apply Z.ltb_lt in Em. apply runbits_length; [lia | apply Hrun; exact Em]. }
        unfold zlen in *. rewrite !app_length. cbn [length]. rewrite Hlenrest. lia.
      + intros st tail [Hpos [Halen Hpix]] Hs. rewrite <- !app_assoc in Hs.
        set (k := zlen done) in *.
        assert (Hk : 0 <= k) by apply zlen_nonneg.
        assert (Htot : w * h = k + 1 + Z.of_nat m + zlen rest').
        { rewrite <- Hall, Hsplit. unfold k, zlen. rewrite app_length. cbn [length]. rewrite Hlenrest. lia. }
        pose proof (zlen_nonneg rest') as Hr0.
        assert (Hnth : forall i, (i <= m)%nat -> nth (Z.to_nat k + i) all dpx = p).
        { intros i Hi. rewrite Hsplit, Hrest. unfold k, zlen. rewrite Nat2Z.id. rewrite app_nth2_plus. apply nth_run. exact Hi. }
        destruct (step_literal st p _ Hlit Hs) as [s1 [Hs1 E1]].
        set (st1 := V.emit im (apix p) (V.with_input st s1)) in *.
        assert (Hpos1 : V.pos st1 = k + 1) by (unfold st1; cbn [V.emit V.pos V.with_input]; lia).
        assert (Hpx1 : V.pixels st1 = V.set_pix (V.pixels st) k (apix p)) by (unfold st1; cbn [V.emit V.pixels V.pos V.with_input]; rewrite Hpos; reflexivity).
        assert (Hin1 : V.input st1 = s1) by reflexivity.
        assert (Hfin0 : fin st = false) by (unfold fin; apply Z.leb_gt; lia).
        (* the run, if any *)
        assert (R : exists n1 st2, (n1 <= m)%nat /\ reach fin (V.decode_step im) n1 st1 st2
                    /\ dinv all (k + 1 + Z.of_nat m) st2 /\ sbits (V.input st2) = bs' ++ tail).
        { unfold rb in Hs1. destruct (0 <? Z.of_nat m) eqn:Em.
          - apply Z.ltb_lt in Em. rewrite <- Hin1 in Hs1.
            destruct (step_run st1 (Z.of_nat m) _ ltac:(lia) (Hrun Em) ltac:(lia) ltac:(lia) Hs1) as [s2 [Hs2 E2]].
            rewrite Nat2Z.id in E2.
            destruct (copy_pixels_spec m (V.with_input st1 s2) ltac:(cbn [V.pos V.with_input]; lia)) as [C1 [C2 [C3 [C4 C5]]]].
            cbn [V.pos V.input V.pixels V.with_input] in C1, C2, C3, C4, C5.
            exists 1%nat, (V.copy_pixels im m 1 (V.with_input st1 s2)).
            split; [lia|]. split; [cbn [reach]; split; [unfold fin; apply Z.leb_gt; lia | eexists; split; [exact E2 | reflexivity]]|].
            split; [|rewrite C2; exact Hs2].
            split; [lia|]. split; [rewrite C3, Hpx1; exact Halen|].
            intros j Hj. destruct (Z.lt_ge_cases j (k + 1)) as [Hlt | Hge].
            + rewrite C4 by lia. rewrite Hpx1, pix_set_pix by lia. destruct (k =? j) eqn:Ekj.
              * apply Z.eqb_eq in Ekj. subst j. rewrite <- (Hnth 0%nat ltac:(lia)). f_equal. f_equal. lia.
              * apply Z.eqb_neq in Ekj. apply Hpix. lia.
            + rewrite C5 by lia. rewrite Hpos1, Hpx1, pix_set_pix by lia. replace (k + 1 - 1) with k by lia. rewrite Z.eqb_refl.
              rewrite <- (Hnth (Z.to_nat (j - k)) ltac:(lia)). f_equal. f_equal. lia.
          - apply Z.ltb_ge in Em. assert (m = 0%nat) by lia. subst m.
            exists 0%nat, st1. split; [lia|]. split; [reflexivity|]. split; [|rewrite Hin1; exact Hs1].
            split; [lia|]. split; [rewrite Hpx1; exact Halen|].
            intros j Hj. rewrite Hpx1, pix_set_pix by lia. destruct (k =? j) eqn:Ekj.
            + apply Z.eqb_eq in Ekj. subst j. rewrite <- (Hnth 0%nat ltac:(lia)). f_equal. f_equal. lia.
            + apply Z.eqb_neq in Ekj. apply Hpix. lia. }
        destruct R as [n1 [st2 [Hn1 [Hr1 [Hinv2 Hs2]]]]].
        destruct (Hdec' st2 tail) as [n2 [st3 [Hn2 [Hr2 [Hinv3 Hs3]]]]].
        { rewrite zlen_app, zlen_cons. unfold zlen at 2. rewrite repeat_length. fold k. replace (k + (Z.of_nat m + 1)) with (k + 1 + Z.of_nat m) by lia. exact Hinv2. }
        { exact Hs2. }
        exists (S (n1 + n2)), st3. split; [cbn [length]; lia|]. split; [|split; assumption].
        cbn [reach]. split; [exact Hfin0|]. exists st1. split; [exact E1|]. apply reach_app. exists st2. split; assumption.
  Qed.

  (* L4: the pixel loop's output is decoded by the specification's decode_pixels to the encoded pixels *)
  Theorem pixel_stream_roundtrip (all : list pixel) : zlen all = w * h -> 1 <= w * h ->
    Forall seg_ok (segments (S (length all)) all) ->
    exists bs,
      emits (write_loop (S (length all)) ct all (of_list codes0) (of_list lens0) (of_list codes1) (of_list lens1)
                        (of_list codes2) (of_list lens2) (of_list codes3) (of_list lens3)) bs tt
      /\ zlen bs <= 85 * (w * h)
      /\ forall s tail, sbits s = bs ++ tail ->
           exists a s', V.decode_pixels im s = Some (a, s') /\ sbits s' = tail /\ alen a = Z.to_N (w * h)
                        /\ forall j, 0 <= j < w * h -> V.pix a j = apix (nth (Z.to_nat j) all dpx).
  Proof.
    intros Hall Hpos HF.
    destruct (loop_roundtrip all Hall (S (length all)) all [] eq_refl ltac:(lia) HF) as [bs [Hem [Hbl Hdec]]].
    exists bs. split; [exact Hem|]. split; [rewrite <- Hall; exact Hbl|]. intros s tail Hs. unfold V.decode_pixels. cbv zeta. cbn [V.xsize V.ysize V.cache_bits im].
    set (st0 := {| V.pos := 0; V.pixels := amake (Z.to_N (w * h)); V.cache := amake (Z.to_N (2 ^ 0)); V.input := s |}).
    destruct (Hdec st0 tail) as [n [st' [Hn [Hr [[Hp' [Hal' Hpx']] Hs']]]]].
    { split; [reflexivity|]. split; [reflexivity|]. intros j Hj. change (zlen (@nil pixel)) with 0 in Hj. lia. }
    { exact Hs. }
    destruct (run_reach fin (V.decode_step im) (Z.to_pos (w * h))) as [RA _].
    assert (Hrun : V.run fin (V.decode_step im) (Z.to_pos (w * h)) st0 = Some st').
    { apply (RA n st0 st').
      - rewrite <- Z2Nat.inj_pos, Z2Pos.id by lia. unfold zlen in Hall. lia.
      - exact Hr.
      - unfold fin. rewrite Hp'. apply Z.leb_refl. }
    unfold fin in Hrun. rewrite Hrun.
    rewrite Hp'. rewrite Z.leb_refl. exists (V.pixels st'), (V.input st'). repeat split; assumption.
  Qed.
End Tokens.
