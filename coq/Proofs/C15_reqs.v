(* C15, part 5: every request kind as a prog, and the three readers as its interpreters.
   literal n, optional signed value n, tree-coded value (RFC tree arrays <-> the crate's TreeNode tables built by
   tree_nodes_from with Gen.Kernels.prepare_branch / value_from_branch). *)
From Coq Require Import ZArith Lia List Bool.
From WebP Require Import Lib.Res Gen.Kernels Gen.Tables Lib.ZBits Lib.Sweep Proofs.C15_num Proofs.C15_ideal Proofs.C15_model
  Proofs.C15_ops Spec.RfcBoolDec Model.ArithDec.
Import ListNotations.
Open Scope Z_scope.

(* ---- literal ---- *)
Fixpoint lit_prog (n : nat) (v : Z) : prog :=
  match n with
  | O => Done v
  | S k => Read 128 (fun b => lit_prog k ((v * 2 ^ 1) mod 256 + ArithDec.b2z b))
  end.

Lemma lit_step_range v b : 0 <= v <= 255 -> 0 <= (v * 2 ^ 1) mod 256 + ArithDec.b2z b <= 255.
Proof. intros H. change (2 ^ 1) with 2. unfold ArithDec.b2z. destruct b; lia. Qed.

Lemma lit_probs n : forall v, probs_ok (lit_prog n v).
Proof. induction n as [|n IH]; intros v; cbn [lit_prog probs_ok]; [exact I|]. repeat split; try lia; apply IH. Qed.

Lemma lit_depth n : forall v, depth (lit_prog n v) = Z.of_nat n.
Proof.
  induction n as [|n IH]; intros v; cbn [lit_prog depth]; [reflexivity|]. rewrite !IH. lia.
Qed.

Lemma lit_range {St} (bit : St -> Z -> bool * St) n : forall v s, 0 <= v <= 255 -> 0 <= fst (interpP bit (lit_prog n v) s) <= 255.
Proof.
  induction n as [|n IH]; intros v s Hv; cbn [lit_prog interpP fst]; [exact Hv|].
  destruct (bit s 128) as [b s1]. apply IH. apply lit_step_range. exact Hv.
Qed.

Lemma u8_step v b : 0 <= v <= 255 ->
  bind (u8_shl v 1) (fun v2 => bind (u8_add v2 (ArithDec.b2z b)) (fun v3 => Ok v3)) = Ok ((v * 2 ^ 1) mod 256 + ArithDec.b2z b).
Proof.
  intros Hv. unfold u8_shl. change ((0 <=? 1) && (1 <? 8)) with true. cbv iota. cbn [bind].
  unfold u8_add. pose proof (lit_step_range v b Hv) as H.
  assert (E : ((v * 2 ^ 1) mod 256 + ArithDec.b2z b <=? 255) = true) by (apply Z.leb_le; lia). rewrite E. reflexivity.
Qed.

Lemma cold_lit n : forall v d, wsafe d -> 0 <= v <= 255 ->
  cold_read_literal_loop n v d = Ok (interpP cold_pure (lit_prog n v) d).
Proof.
  induction n as [|n IH]; intros v d Hw Hv; cbn [cold_read_literal_loop lit_prog interpP]; [reflexivity|].
  unfold cold_read_flag. rewrite cold_read_bit_ok by (try assumption; lia). cbn [bind].
  destruct (cold_pure_wsafe d 128 Hw ltac:(lia)) as [W1 _].
  destruct (cold_pure d 128) as [b d1]. cbn [snd] in W1.
  pose proof (u8_step v b Hv) as E. pose proof (lit_step_range v b Hv) as R.
  unfold u8_shl in *. change ((0 <=? 1) && (1 <? 8)) with true in *. cbv iota in *. cbn [bind] in *.
  unfold u8_add in *. destruct ((v * 2 ^ 1) mod 256 + ArithDec.b2z b <=? 255); [|discriminate]. cbn [bind].
  apply IH; assumption.
Qed.

Lemma fast_lit ch n : forall v u, safe u -> chunk_index u + Z.of_nat n < u64_mod -> 0 <= v <= 255 ->
  fast_read_literal_loop ch n v u = Ok (interpP (fast_pure ch) (lit_prog n v) u).
Proof.
  induction n as [|n IH]; intros v u Hs Hc Hv; cbn [fast_read_literal_loop lit_prog interpP]; [reflexivity|].
  rewrite fast_read_flag_ok by (try assumption; lia). cbn [bind].
  destruct (fast_pure_facts ch u 128 Hs ltac:(lia)) as [S1 C1].
  destruct (fast_pure ch u 128) as [b u1]. cbn [snd] in S1, C1.
  pose proof (u8_step v b Hv) as E. pose proof (lit_step_range v b Hv) as R.
  unfold u8_shl in *. change ((0 <=? 1) && (1 <? 8)) with true in *. cbv iota in *. cbn [bind] in *.
  unfold u8_add in *. destruct ((v * 2 ^ 1) mod 256 + ArithDec.b2z b <=? 255); [|discriminate]. cbn [bind].
  apply IH; try assumption. lia.
Qed.

Lemma spec_lit n : forall v s, Z.of_nat n <= 8 -> 0 <= v < 2 ^ (8 - Z.of_nat n) ->
  read_literal_from n v s = interpS (lit_prog n v) s.
Proof.
  induction n as [|n IH]; intros v s Hn Hv; cbn [read_literal_from lit_prog interpS]; [reflexivity|].
  destruct (RfcBoolDec.read_bool s 128) as [b s1].
  rewrite Z.shiftl_mul_pow2 by lia.
  assert (E2 : 2 ^ (8 - Z.of_nat n) = 2 ^ (8 - Z.of_nat (S n)) * 2 ^ 1) by (rewrite <- pow2_add by lia; f_equal; lia).
  pose proof (pow2_le (8 - Z.of_nat n) 8 ltac:(lia)) as H8. change (2 ^ 8) with 256 in H8. change (2 ^ 1) with 2 in *.
  rewrite Z.mod_small by lia.
  change (RfcBoolDec.b2z b) with (ArithDec.b2z b).
  apply IH; [lia|]. unfold ArithDec.b2z. destruct b; lia.
Qed.

(* ---- optional signed value ---- *)
Definition signed_prog (n : nat) : prog :=
  Read 128 (fun flag =>
    if flag then bindP (lit_prog n 0) (fun mag => Read 128 (fun sign => Done (if sign then - mag else mag)))
    else Done 0).

Lemma bindP_probs pg f : probs_ok pg -> (forall v, probs_ok (f v)) -> probs_ok (bindP pg f).
Proof.
  induction pg as [v | p k IH]; intros Hp Hf; cbn [bindP probs_ok] in *; [apply Hf|].
  destruct Hp as (Hp & Ht & Hff). repeat split; try lia; apply IH; assumption.
Qed.

Lemma bindP_depth pg f m : (forall v, depth (f v) <= m) -> depth (bindP pg f) <= depth pg + m.
Proof.
  intros Hf. induction pg as [v | p k IH]; cbn [bindP depth]; [apply Hf|].
  pose proof (IH true). pose proof (IH false). lia.
Qed.

Lemma signed_probs n : probs_ok (signed_prog n).
Proof.
  unfold signed_prog. cbn [probs_ok]. repeat split; try lia.
  apply bindP_probs; [apply lit_probs|]. intros v. cbn [probs_ok]. repeat split; lia.
Qed.

Lemma signed_depth n : depth (signed_prog n) <= Z.of_nat n + 2.
Proof.
  unfold signed_prog. cbn [depth].
  pose proof (bindP_depth (lit_prog n 0) (fun mag => Read 128 (fun sign => Done (if sign then - mag else mag))) 1) as H.
  rewrite lit_depth in H. specialize (H ltac:(intros v; cbn [depth]; lia)). lia.
Qed.

Lemma i32_neg_byte m : 0 <= m <= 255 -> i32_neg m = Ok (- m).
Proof. intros H. unfold i32_neg. destruct (Z.eqb_spec m i32_min); [unfold i32_min in *; lia | reflexivity]. Qed.

Lemma cold_signed d n : wsafe d -> cold_read_optional_signed_value d n = Ok (interpP cold_pure (signed_prog (Z.to_nat n)) d).
Proof.
  intros Hw. unfold cold_read_optional_signed_value, signed_prog. cbn [interpP].
  unfold cold_read_flag at 1. rewrite cold_read_bit_ok by (try assumption; lia). cbn [bind].
  destruct (cold_pure_wsafe d 128 Hw ltac:(lia)) as [W1 _].
  destruct (cold_pure d 128) as [flag d1]. cbn [snd] in W1.
  destruct flag; cbn [negb]; [|reflexivity].
  unfold cold_read_literal. rewrite cold_lit by (try assumption; lia). cbn [bind].
  rewrite interpP_bind.
  pose proof (lit_range cold_pure (Z.to_nat n) 0 d1 ltac:(lia)) as Hm.
  destruct (cold_prog_facts (lit_prog (Z.to_nat n) 0) d1 W1 (lit_probs _ _)) as [W2 _].
  destruct (interpP cold_pure (lit_prog (Z.to_nat n) 0) d1) as [mag d2]. cbn [fst snd] in *.
  cbn [interpP].
  unfold cold_read_flag. rewrite cold_read_bit_ok by (try assumption; lia). cbn [bind].
  destruct (cold_pure d2 128) as [sign d3].
  destruct sign; [rewrite i32_neg_byte by exact Hm|]; reflexivity.
Qed.

Lemma fast_signed ch u n : safe u -> chunk_index u + Z.of_nat (Z.to_nat n) + 2 < u64_mod ->
  fast_read_optional_signed_value ch u n = Ok (interpP (fast_pure ch) (signed_prog (Z.to_nat n)) u).
Proof.
  intros Hs Hc. unfold fast_read_optional_signed_value, signed_prog. cbn [interpP].
  rewrite fast_read_flag_ok by (try assumption; lia). cbn [bind].
  destruct (fast_pure_facts ch u 128 Hs ltac:(lia)) as [S1 C1].
  destruct (fast_pure ch u 128) as [flag u1]. cbn [snd] in S1, C1.
  destruct flag; cbn [negb]; [|reflexivity].
  unfold fast_read_literal. rewrite fast_lit by (try assumption; lia). cbn [bind].
  rewrite interpP_bind.
  pose proof (lit_range (fast_pure ch) (Z.to_nat n) 0 u1 ltac:(lia)) as Hm.
  destruct (fast_prog_facts ch (lit_prog (Z.to_nat n) 0) u1 S1 (lit_probs _ _)) as [S2 C2]. rewrite lit_depth in C2.
  destruct (interpP (fast_pure ch) (lit_prog (Z.to_nat n) 0) u1) as [mag u2]. cbn [fst snd] in *.
  cbn [interpP].
  rewrite fast_read_flag_ok by (try assumption; lia). cbn [bind].
  destruct (fast_pure ch u2 128) as [sign u3].
  destruct sign; [rewrite i32_neg_byte by exact Hm|]; reflexivity.
Qed.

Lemma spec_signed s n : 0 <= n <= 8 -> RfcBoolDec.read_optional_signed_value s n = interpS (signed_prog (Z.to_nat n)) s.
Proof.
  intros Hn. unfold RfcBoolDec.read_optional_signed_value, signed_prog, RfcBoolDec.read_flag. cbn [interpS].
  destruct (RfcBoolDec.read_bool s 128) as [flag s1]. destruct flag; [|reflexivity].
  unfold RfcBoolDec.read_literal. rewrite spec_lit; [| rewrite Z2Nat.id by lia; lia | rewrite Z2Nat.id by lia; split; [lia | apply pow2_pos; lia]].
  rewrite interpS_bind.
  destruct (interpS (lit_prog (Z.to_nat n) 0) s1) as [mag s2]. cbn [interpS].
  destruct (RfcBoolDec.read_bool s2 128) as [sign s3]. reflexivity.
Qed.

(* ---- tree-coded values ---- *)
Fixpoint tree_prog (fuel : nat) (nodes : list TreeNode) (idx : Z) : prog :=
  match fuel with
  | O => Done 0
  | S f =>
    match nth_error nodes (Z.to_nat idx) with
    | None => Done 0
    | Some node =>
      Read (prob node) (fun b =>
        let t := if b then right node else left node in
        if t <? Z.of_nat (length nodes) then tree_prog f nodes t else Done (value_from_branch t))
    end
  end.

(* a well-formed node table: node j carries index j and a byte probability, both branches point forward (a later
   node, or a leaf code >= the table length) *)
Definition nodes_wf (nodes : list TreeNode) : Prop :=
  forall j node, nth_error nodes j = Some node ->
    index node = Z.of_nat j /\ 0 <= prob node <= 255 /\ Z.of_nat j < left node /\ Z.of_nat j < right node.

Lemma tree_probs nodes : nodes_wf nodes -> forall fuel idx, probs_ok (tree_prog fuel nodes idx).
Proof.
  intros Hwf. induction fuel as [|f IH]; intros idx; cbn [tree_prog]; [exact I|].
  destruct (nth_error nodes (Z.to_nat idx)) as [node|] eqn:En; [|exact I].
  destruct (Hwf _ _ En) as (_ & Hp & _). cbn [probs_ok]. repeat split; try lia.
  - cbv zeta. destruct (right node <? _); [apply IH | exact I].
  - cbv zeta. destruct (left node <? _); [apply IH | exact I].
Qed.

Lemma tree_depth nodes : forall fuel idx, depth (tree_prog fuel nodes idx) <= Z.of_nat fuel.
Proof.
  induction fuel as [|f IH]; intros idx; cbn [tree_prog]; [cbn; lia|].
  destruct (nth_error nodes (Z.to_nat idx)) as [node|]; [|cbn [depth]; lia].
  cbn [depth]. cbv zeta.
  assert (forall t, depth (if t <? Z.of_nat (length nodes) then tree_prog f nodes t else Done (value_from_branch t)) <= Z.of_nat f).
  { intros t. destruct (t <? _); [apply IH | cbn [depth]; lia]. }
  pose proof (H (right node)). pose proof (H (left node)). lia.
Qed.

Lemma nth_error_lt {A} (l : list A) (i : Z) : 0 <= i < Z.of_nat (length l) -> exists x, nth_error l (Z.to_nat i) = Some x.
Proof.
  intros H. destruct (nth_error l (Z.to_nat i)) as [x|] eqn:E; [eauto|]. apply nth_error_None in E. lia.
Qed.

Lemma cold_tree nodes : nodes_wf nodes -> forall fuel d idx, wsafe d -> 0 <= idx < Z.of_nat (length nodes) ->
  Z.of_nat (length nodes) - idx < Z.of_nat fuel ->
  cold_read_with_tree_loop fuel d nodes idx = Ok (interpP cold_pure (tree_prog fuel nodes idx) d).
Proof.
  intros Hwf. induction fuel as [|f IH]; intros d idx Hw Hi Hf; [lia|].
  cbn [cold_read_with_tree_loop tree_prog].
  destruct (nth_error_lt nodes idx Hi) as [node En]. rewrite En. cbn [of_option bind interpP].
  destruct (Hwf _ _ En) as (_ & Hp & Hl & Hr). rewrite Z2Nat.id in Hl, Hr by lia.
  rewrite cold_read_bit_ok by assumption. cbn [bind].
  destruct (cold_pure_wsafe d (prob node) Hw Hp) as [W1 _].
  destruct (cold_pure d (prob node)) as [b d1]. cbn [snd] in W1. cbv zeta.
  set (t := if b then right node else left node).
  assert (Ht : idx < t) by (unfold t; destruct b; lia).
  destruct (Z.ltb_spec t (Z.of_nat (length nodes))); [|reflexivity].
  apply IH; try assumption; lia.
Qed.

Lemma fast_tree ch nodes : nodes_wf nodes -> forall fuel u node, safe u ->
  nth_error nodes (Z.to_nat (index node)) = Some node -> 0 <= index node ->
  Z.of_nat (length nodes) - index node < Z.of_nat fuel -> chunk_index u + Z.of_nat fuel < u64_mod ->
  fast_read_with_tree_loop fuel ch u nodes node = Ok (interpP (fast_pure ch) (tree_prog fuel nodes (index node)) u).
Proof.
  intros Hwf. induction fuel as [|f IH]; intros u node Hs En H0 Hf Hc.
  { assert ((Z.to_nat (index node) < length nodes)%nat) by (apply nth_error_Some; rewrite En; discriminate). lia. }
  cbn [fast_read_with_tree_loop tree_prog]. rewrite En. cbn [interpP].
  destruct (Hwf _ _ En) as (_ & Hp & Hl & Hr). rewrite Z2Nat.id in Hl, Hr by lia.
  rewrite fast_read_bit_ok by (try assumption; lia). cbn [bind].
  destruct (fast_pure_facts ch u (prob node) Hs Hp) as [S1 C1].
  destruct (fast_pure ch u (prob node)) as [b u1]. cbn [snd] in S1, C1. cbv zeta.
  set (t := if b then right node else left node).
  assert (Ht : index node < t) by (unfold t; destruct b; lia).
  destruct (Z.ltb_spec t (Z.of_nat (length nodes))) as [L | G].
  - destruct (nth_error_lt nodes t ltac:(lia)) as [next En']. rewrite En'.
    destruct (Hwf _ _ En') as (Ei & _). rewrite Z2Nat.id in Ei by lia.
    rewrite <- Ei. apply IH; try assumption; rewrite ?Ei; try lia. exact En'.
  - assert (En' : nth_error nodes (Z.to_nat t) = None) by (apply nth_error_None; lia). rewrite En'. reflexivity.
Qed.

(* ---- RFC tree arrays and tree_nodes_from ---- *)
Definition entry_okb (t : list Z) (q : nat) : bool :=
  let x := nth q t 0 in
  (-127 <=? x) && (x <=? 127) &&
  (if 0 <? x then Z.even x && (Z.of_nat q <? x) && (x <? Z.of_nat (length t)) else true).

(* tree array t with probabilities p: twice as many entries as probabilities, at most 64 inner nodes, every positive
   entry is an even index further on in the array, every other entry a leaf -value with value in 0..127 *)
Definition tree_okb (t p : list Z) : bool :=
  (length t =? 2 * length p)%nat && (1 <=? length p)%nat && (length p <=? 64)%nat &&
  forallb byteb p && forallb (entry_okb t) (seq 0 (length t)).

Lemma tree_okb_spec t p : tree_okb t p = true ->
  length t = (2 * length p)%nat /\ (1 <= length p <= 64)%nat /\ Forall byte p /\
  forall q, (q < length t)%nat -> let x := nth q t 0 in
    -127 <= x <= 127 /\ (0 < x -> Z.even x = true /\ Z.of_nat q < x < Z.of_nat (length t)).
Proof.
  unfold tree_okb. rewrite !andb_true_iff. intros ((((H1 & H2) & H3) & H4) & H5).
  apply Nat.eqb_eq in H1. apply Nat.leb_le in H2, H3.
  repeat split; try assumption; try lia.
  - rewrite Forall_forall. intros x Hx. rewrite forallb_forall in H4. apply byteb_spec. apply H4. exact Hx.
  - rewrite forallb_forall in H5. specialize (H5 q ltac:(apply in_seq; lia)). unfold entry_okb in H5.
    rewrite !andb_true_iff in H5. destruct H5 as ((A & B) & C). lia.
  - rewrite forallb_forall in H5. specialize (H5 q ltac:(apply in_seq; lia)). unfold entry_okb in H5.
    rewrite !andb_true_iff in H5. destruct H5 as ((A & B) & C). lia.
  - rewrite forallb_forall in H5. specialize (H5 q ltac:(apply in_seq; lia)). unfold entry_okb in H5.
    rewrite !andb_true_iff in H5. destruct H5 as (_ & C).
    assert (E : (0 <? nth q t 0) = true) by (apply Z.ltb_lt; assumption). rewrite E in C.
    rewrite !andb_true_iff in C. apply C.
  - rewrite forallb_forall in H5. specialize (H5 q ltac:(apply in_seq; lia)). unfold entry_okb in H5.
    rewrite !andb_true_iff in H5. destruct H5 as (_ & C).
    assert (E : (0 <? nth q t 0) = true) by (apply Z.ltb_lt; assumption). rewrite E in C.
    rewrite !andb_true_iff in C. destruct C as ((_ & C) & _). apply Z.ltb_lt in C. exact C.
  - rewrite forallb_forall in H5. specialize (H5 q ltac:(apply in_seq; lia)). unfold entry_okb in H5.
    rewrite !andb_true_iff in H5. destruct H5 as (_ & C).
    assert (E : (0 <? nth q t 0) = true) by (apply Z.ltb_lt; assumption). rewrite E in C.
    rewrite !andb_true_iff in C. destruct C as (_ & C). apply Z.ltb_lt in C. exact C.
Qed.

(* prepare_branch / value_from_branch (translated from vp8.rs) on every i8 tree entry but -128 *)
Lemma branch_sweep :
  forallb (fun x => prepare_branch_ok x &&
                    (if 0 <? x then prepare_branch x =? x / 2
                     else (128 <=? prepare_branch x) && (prepare_branch x <=? 255) && (value_from_branch (prepare_branch x) =? - x)))
          (zrange 255 (-127)) = true.
Proof. vm_compute. reflexivity. Qed.

Lemma branch_facts x : -127 <= x <= 127 ->
  prepare_branch_ok x = true /\
  (0 < x -> prepare_branch x = x / 2) /\
  (x <= 0 -> 128 <= prepare_branch x <= 255 /\ value_from_branch (prepare_branch x) = - x).
Proof.
  intros Hx. pose proof (forallb_zrange _ _ _ branch_sweep x ltac:(lia)) as H. cbv beta in H.
  apply andb_true_iff in H. destruct H as [H1 H2]. split; [exact H1|]. split.
  - intros Hp. assert (E : (0 <? x) = true) by (apply Z.ltb_lt; lia). rewrite E in H2. apply Z.eqb_eq. exact H2.
  - intros Hn. assert (E : (0 <? x) = false) by (apply Z.ltb_ge; lia). rewrite E in H2.
    rewrite !andb_true_iff in H2. destruct H2 as ((A & B) & C). apply Z.leb_le in A, B. apply Z.eqb_eq in C. lia.
Qed.

Definition node_of (t p : list Z) (j : nat) : TreeNode :=
  mkNode (prepare_branch (nth (2 * j) t 0)) (prepare_branch (nth (2 * j + 1) t 0)) (nth j p 0) (Z.of_nat j).

Lemma tree_nodes_loop_spec t : (forall q, (q < length t)%nat -> -127 <= nth q t 0 <= 127) ->
  forall probs i, (2 * (i + length probs) <= length t)%nat -> (i + length probs <= 256)%nat ->
  exists nodes, tree_nodes_loop t probs (Z.of_nat i) = Ok nodes /\ length nodes = length probs /\
    forall j, (j < length probs)%nat ->
      nth_error nodes j = Some (mkNode (prepare_branch (nth (2 * (i + j)) t 0)) (prepare_branch (nth (2 * (i + j) + 1) t 0))
                                       (nth j probs 0) (Z.of_nat (i + j))).
Proof.
  intros Ht. induction probs as [|pr tl IH]; intros i Hlen H256; cbn [tree_nodes_loop length] in *.
  - exists []. repeat split. intros j Hj. lia.
  - replace (Z.to_nat (2 * Z.of_nat i)) with (2 * i)%nat by lia.
    replace (Z.to_nat (2 * Z.of_nat i + 1)) with (2 * i + 1)%nat by lia.
    rewrite (nth_error_nth' t 0) by lia. rewrite (nth_error_nth' t 0) by lia. cbn [of_option bind].
    destruct (branch_facts (nth (2 * i) t 0) (Ht (2 * i)%nat ltac:(lia))) as (Oa & _).
    destruct (branch_facts (nth (2 * i + 1) t 0) (Ht (2 * i + 1)%nat ltac:(lia))) as (Ob & _).
    unfold prepare_branch_checked. rewrite Oa, Ob. cbn [bind].
    destruct (IH (S i) ltac:(lia) ltac:(lia)) as [rest (E & Hl & Hn)].
    replace (Z.of_nat i + 1) with (Z.of_nat (S i)) by lia. rewrite E. cbn [bind].
    eexists. split; [reflexivity|]. split; [cbn [length]; lia|].
    intros j Hj. destruct j as [|j].
    + cbn [nth_error nth]. rewrite !Nat.add_0_r. f_equal. f_equal. unfold wrapU. rewrite Z.mod_small by (change (2 ^ 8) with 256; lia). reflexivity.
    + cbn [nth_error nth]. rewrite (Hn j ltac:(lia)). replace (i + S j)%nat with (S i + j)%nat by lia. reflexivity.
Qed.

Lemma tree_nodes_from_spec t p : tree_okb t p = true ->
  exists nodes, tree_nodes_from t p = Ok nodes /\ length nodes = length p /\
    forall j, (j < length p)%nat -> nth_error nodes j = Some (node_of t p j).
Proof.
  intros Hok. destruct (tree_okb_spec t p Hok) as (Hl & Hm & Hb & He).
  unfold tree_nodes_from.
  assert (E : (Z.of_nat (length t) =? 2 * Z.of_nat (length p)) = true) by (apply Z.eqb_eq; lia). rewrite E. cbn [negb].
  destruct (tree_nodes_loop_spec t ltac:(intros q Hq; apply (He q Hq)) p 0 ltac:(lia) ltac:(lia)) as [nodes (E1 & E2 & E3)].
  exists nodes. split; [exact E1|]. split; [exact E2|]. intros j Hj. rewrite (E3 j Hj). reflexivity.
Qed.

Lemma nodes_wf_of t p nodes : tree_okb t p = true -> length nodes = length p ->
  (forall j, (j < length p)%nat -> nth_error nodes j = Some (node_of t p j)) -> nodes_wf nodes.
Proof.
  intros Hok Hlen Hn. destruct (tree_okb_spec t p Hok) as (Hl & Hm & Hb & He).
  intros j node En.
  assert (Hj : (j < length p)%nat) by (rewrite <- Hlen; apply nth_error_Some; rewrite En; discriminate).
  rewrite (Hn j Hj) in En. injection En as <-. unfold node_of. cbn [index prob left right].
  split; [reflexivity|]. split.
  - rewrite Forall_forall in Hb. apply Hb. apply nth_In. exact Hj.
  - assert (forall q, (q = 2 * j \/ q = 2 * j + 1)%nat -> Z.of_nat j < prepare_branch (nth q t 0)) as Hq.
    { intros q Hq. destruct (He q ltac:(lia)) as (R & Pz). cbv zeta in *.
      destruct (branch_facts (nth q t 0) R) as (_ & Fp & Fn).
      destruct (Z.lt_ge_cases 0 (nth q t 0)) as [Pos | Neg].
      - rewrite (Fp Pos). destruct (Pz Pos) as (Ev & Rg). apply Z.even_spec in Ev. destruct Ev as [m Em]. rewrite Em in *.
        lia.
      - destruct (Fn ltac:(lia)) as (G & _). lia. }
    split; apply Hq; lia.
Qed.

(* treed_read on the RFC arrays = the walk over the node table *)
Lemma spec_tree t p nodes : tree_okb t p = true -> length nodes = length p ->
  (forall j, (j < length p)%nat -> nth_error nodes j = Some (node_of t p j)) ->
  forall fuelM fuelS j s, (j < length p)%nat -> (length p - j <= fuelM)%nat -> (length p - j <= fuelS)%nat ->
  treed_read_from fuelS t p (2 * Z.of_nat j) s = interpS (tree_prog fuelM nodes (Z.of_nat j)) s.
Proof.
  intros Hok Hlen Hn. destruct (tree_okb_spec t p Hok) as (Hl & Hm & Hb & He).
  induction fuelM as [|f IH]; intros fuelS j s Hj HfM HfS; [lia|].
  destruct fuelS as [|g]; [lia|].
  cbn [treed_read_from tree_prog]. rewrite Nat2Z.id. rewrite (Hn j Hj). cbn [interpS].
  unfold node_of at 1. cbn [prob].
  rewrite Z.shiftr_div_pow2 by lia. change (2 ^ 1) with 2.
  replace (2 * Z.of_nat j / 2) with (Z.of_nat j) by lia. rewrite Nat2Z.id.
  destruct (RfcBoolDec.read_bool s (nth j p 0)) as [b s1]. cbv zeta.
  set (q := if b then (2 * j + 1)%nat else (2 * j)%nat).
  assert (Eq : Z.to_nat (2 * Z.of_nat j + RfcBoolDec.b2z b) = q) by (unfold q, RfcBoolDec.b2z; destruct b; lia).
  rewrite Eq.
  assert (Et : (if b then right (node_of t p j) else left (node_of t p j)) = prepare_branch (nth q t 0))
    by (unfold q, node_of; destruct b; reflexivity).
  rewrite Et.
  destruct (He q ltac:(unfold q; destruct b; lia)) as (R & Pz). cbv zeta in *.
  destruct (branch_facts (nth q t 0) R) as (_ & Fp & Fn).
  destruct (Z.ltb_spec 0 (nth q t 0)) as [Pos | Neg].
  - rewrite (Fp Pos). destruct (Pz Pos) as (Ev & Rg). apply Z.even_spec in Ev. destruct Ev as [m Em]. rewrite Em in *.
    replace (2 * m / 2) with m by lia.
    assert (Elt : (m <? Z.of_nat (length nodes)) = true) by (apply Z.ltb_lt; lia). rewrite Elt.
    assert (Hq : Z.of_nat q < 2 * m) by lia.
    replace m with (Z.of_nat (Z.to_nat m)) by lia.
    apply IH; unfold q in *; destruct b; lia.
  - destruct (Fn Neg) as (G & V).
    assert (Elt : (prepare_branch (nth q t 0) <? Z.of_nat (length nodes)) = false) by (apply Z.ltb_ge; lia). rewrite Elt.
    cbn [interpS]. rewrite V. reflexivity.
Qed.
