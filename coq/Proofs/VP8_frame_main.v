(* VP8 frame-level parsing, part 6: parse_frame_refines -- Vp8Decoder::new + read_frame_header + the parsing side of the macroblock loop
   of decode_frame_ (Model.Vp8Frame.parse_frame) returns, for every macroblock in raster order, exactly the reference's modes
   (Spec.VP8.parse_modes) and residual records (Spec.VP8.parse_tokens, followed by the inverse transforms), or fails with BitStreamError
   while the reference run has read beyond the first partition or beyond a token partition.  Also: the loop theorem from a header state
   (parse_frame_loop_refines), the valid-stream corollary (parse_frame_valid), the oracle entry point's status = parse_frame's
   (vp8f_run_status), and a concrete libwebp-written frame satisfying every hypothesis (parse_frame_instance). *)
From Coq Require Import ZArith Lia List Bool.
From WebP Require Import Lib.Res Gen.Kernels Gen.Tables Lib.ZBits Proofs.C15_num Proofs.C15_ideal Proofs.C15_model
  Proofs.C15_ops Proofs.C15_reqs Proofs.C15_main Spec.RfcBoolDec Spec.BoolDec Spec.VP8Tables Spec.VP8 Model.ArithDec
  Model.Vp8Parse Model.Vp8Frame Proofs.VP8_tables Proofs.VP8_parse_base Proofs.VP8_parse_coeffs Proofs.VP8_parse_mbheader
  Proofs.VP8_parse_header Proofs.VP8_parse_residual Proofs.VP8_frame_base Proofs.VP8_frame_mono Proofs.VP8_frame_header Proofs.VP8_frame_hdrthm
  Proofs.VP8_frame_residual Proofs.VP8_frame_loop.
Import ListNotations.
Open Scope Z_scope.
Open Scope res_scope.

Lemma tabulate_aux_repeat {A} (x : A) n : forall acc, tabulate_aux (fun _ => x) n acc = repeat x n ++ acc.
Proof.
  induction n as [|n IH]; intros acc; cbn [tabulate_aux repeat app]; [reflexivity|]. rewrite IH.
  change (x :: acc) with ([x] ++ acc). rewrite app_assoc. f_equal. clear. induction n as [|n IH]; [reflexivity|]. cbn [repeat app]. f_equal. exact IH.
Qed.
Lemma tabulate_repeat {A} (x : A) n : tabulate (fun _ => x) n = repeat x n.
Proof. unfold tabulate. rewrite tabulate_aux_repeat. apply app_nil_r. Qed.

Definition top0 : MacroBlock := mkMB (repeat vp8_B_DC_PRED 16) (repeat 0 9) vp8_DC_PRED 0 0 false false.
Lemma top0_ok : top_ok top0.
Proof. unfold top_ok, top0. cbn [mb_bpred mb_complexity]. split; [reflexivity|]. split; [apply zeros_modes_ok|]. split; [reflexivity|]. repeat constructor; lia. Qed.

Lemma concat_repeat4 n : concat (map mtop_of (repeat top0 n)) = repeat 0 (4 * n).
Proof. induction n as [|n IH]; [reflexivity|]. cbn [repeat map concat]. rewrite IH. replace (4 * S n)%nat with (4 + 4 * n)%nat by lia. reflexivity. Qed.
Lemma map_cxf_repeat n : map cxf (repeat top0 n) = repeat ctx0 n.
Proof. induction n as [|n IH]; [reflexivity|]. cbn [repeat map]. rewrite IH. reflexivity. Qed.

(* the loop from the state read_frame_header leaves *)
Theorem parse_frame_loop_refines (data0 : list Z) (parts : list (list Z)) (h : header) (v : Vp8) (s : bstate) :
  Forall byte data0 -> C15_model.len data0 < 2 ^ 63 ->
  header_rel h v -> header_wf h -> linked data0 s (v_b v) -> parts_linked parts v ->
  length parts = Z.to_nat (h_num_parts h) -> (forall q, In q parts -> Forall byte q /\ C15_model.len q < 2 ^ 63) ->
  let '(modes, s') := parse_modes h s in
  let '(res, ps') := parse_tokens h modes (map bd_init parts) in
  (exists recs v', parse_frame_loop v = Ok (recs, v') /\ rows_rel modes res recs /\ same_hdr v v' /\
                   linked data0 s' (v_b v') /\ parts_rel parts ps' v')
  \/ (parse_frame_loop v = Err EBitStreamError /\ (over_read data0 s' \/ parts_over parts ps')).
Proof.
  intros Hb0 Hl0 Hrel Hwf Hlink Hpl Lparts Hparts.
  pose proof (frame_inv_of_header h v Hrel Hwf) as Hinv.
  destruct Hrel as (Hfr & Hw & Hh & Htop & _ & _ & _ & _ & _ & _ & _ & _ & Hnp & _).
  destruct Hwf as (_ & _ & _ & _ & _ & Hnp2 & _).
  assert (Hnpz : h_num_parts h = Z.of_nat (length parts)) by (rewrite Lparts; destruct Hnp2 as [E | [E | [E | E]]]; rewrite E; reflexivity).
  assert (Etops : v_top v = repeat top0 (Z.to_nat (mb_w h))).
  { rewrite Htop. unfold init_top_macroblocks, mb_w. rewrite Z.shiftr_div_pow2 by lia. reflexivity. }
  pose proof (parse_mb_rows_refines data0 parts Hb0 Hl0 Hparts h Hnpz Hnp2 (Z.to_nat (mb_h h)) 0 v s (map bd_init parts) [] Hinv Hnp) as R.
  rewrite Hw, Etops in R. rewrite repeat_length in R.
  specialize (R eq_refl eq_refl ltac:(apply Forall_forall; intros x Hx; apply repeat_spec in Hx; subst x; exact top0_ok)).
  assert (Hpr : parts_rel parts (map bd_init parts) v).
  { split; [apply map_length|]. intros i Hi. destruct (Hpl i Hi) as [d [Ed Ld]]. exists d. split; [exact Ed|].
    replace (nth i (map bd_init parts) (bd_init [])) with (bd_init (nth i parts [])) by (symmetry; apply (map_nth bd_init parts [] i)). exact Ld. }
  specialize (R Hpr Hlink ltac:(lia)).
  rewrite concat_repeat4, map_cxf_repeat in R.
  unfold parse_modes, parse_tokens. rewrite !tabulate_repeat.
  replace (Z.to_nat (4 * mb_w h)) with (4 * Z.to_nat (mb_w h))%nat by lia.
  destruct (parse_mode_rows h (Z.to_nat (mb_h h)) (repeat 0 (4 * Z.to_nat (mb_w h))) s []) as [modes s'].
  destruct (parse_token_rows h modes 0 (repeat ctx0 (Z.to_nat (mb_w h))) (map bd_init parts) []) as [res ps'].
  unfold parse_frame_loop. rewrite Hh.
  destruct R as [(recs & v' & EM & Hrows & Sh & L & Hp) | [EM Ov]].
  - left. exists recs, v'. rewrite EM. cbn [bind]. rewrite rev_append_rev, !app_nil_r, rev_involutive. split; [reflexivity|]. split; [exact Hrows|]. split; [exact Sh|]. split; [exact L | exact Hp].
  - right. rewrite EM. split; [reflexivity | exact Ov].
Qed.

(* ---------- the whole parsing side of decode_frame ---------- *)
Theorem parse_frame_refines : forall data, Forall byte data -> C15_model.len data < 2 ^ 63 ->
  forall (h : header) (s : bstate) (parts : list (list Z)),
  parse_header data = Some (h, s, parts) ->
  h_color_space h = 0 -> no_ff_start (first_partition data) = true -> forallb no_ff_start parts = true ->
  let '(modes, s') := parse_modes h s in
  let '(res, ps') := parse_tokens h modes (map bd_init parts) in
  (exists recs v vh, parse_frame data = Ok (recs, v) /\ rows_rel modes res recs /\
                     header_rel h vh /\ header_wf h /\ same_hdr vh v /\
                     linked (first_partition data) s' (v_b v) /\ parts_rel parts ps' v)
  \/ (parse_frame data = Err EBitStreamError /\ (over_read (first_partition data) s' \/ parts_over parts ps')).
Proof.
  intros data Hbytes Hlen h s parts Hph Hcs Hff0 Hffp.
  destruct (read_frame_header_refines data Hbytes Hlen h s parts Hph Hcs Hff0 Hffp) as [v0 [Enew H]].
  unfold parse_frame. rewrite Enew. cbn [bind].
  assert (Hb0 : Forall byte (first_partition data)) by (unfold first_partition; apply Forall_firstn, Forall_skipn; exact Hbytes).
  assert (Hl0 : C15_model.len (first_partition data) < 2 ^ 63).
  { unfold C15_model.len in *. unfold first_partition. rewrite firstn_length, skipn_length. lia. }
  destruct H as [(vh & EH & Hrel & Hwf & Hlink & Hpl & Lparts & Hparts) | [EH Ov]].
  - rewrite EH. cbn [bind].
    pose proof (parse_frame_loop_refines (first_partition data) parts h vh s Hb0 Hl0 Hrel Hwf Hlink Hpl Lparts Hparts) as R.
    destruct (parse_modes h s) as [modes s']. destruct (parse_tokens h modes (map bd_init parts)) as [res ps'].
    destruct R as [(recs & v' & EM & Hrows & Sh & L & Hp) | [EM Ov]].
    + left. exists recs, v', vh. split; [exact EM|]. split; [exact Hrows|]. split; [exact Hrel|]. split; [exact Hwf|]. split; [exact Sh|]. split; [exact L | exact Hp].
    + right. split; assumption.
  - rewrite EH. cbn [bind].
    pose proof (parse_mode_rows_mono h (Z.to_nat (mb_h h)) (tabulate (fun _ => 0) (Z.to_nat (4 * mb_w h))) s []) as MM. fold (parse_modes h s) in MM.
    destruct (parse_modes h s) as [modes s']. destruct (parse_tokens h modes (map bd_init parts)) as [res ps']. cbn [snd] in MM.
    right. split; [reflexivity | left; exact (over_read_le _ _ _ MM Ov)].
Qed.

(* a stream the reference reads without running beyond any partition is parsed by the crate, with the reference's values *)
Corollary parse_frame_valid : forall data, Forall byte data -> C15_model.len data < 2 ^ 63 ->
  forall (h : header) (s : bstate) (parts : list (list Z)),
  parse_header data = Some (h, s, parts) ->
  h_color_space h = 0 -> no_ff_start (first_partition data) = true -> forallb no_ff_start parts = true ->
  let '(modes, s') := parse_modes h s in
  let '(res, ps') := parse_tokens h modes (map bd_init parts) in
  ~ over_read (first_partition data) s' -> ~ parts_over parts ps' ->
  exists recs v, parse_frame data = Ok (recs, v) /\ rows_rel modes res recs.
Proof.
  intros data Hbytes Hlen h s parts Hph Hcs Hff0 Hffp.
  pose proof (parse_frame_refines data Hbytes Hlen h s parts Hph Hcs Hff0 Hffp) as R.
  destruct (parse_modes h s) as [modes s']. destruct (parse_tokens h modes (map bd_init parts)) as [res ps'].
  intros N1 N2. destruct R as [(recs & v & vh & E & Hr & _) | [_ [O | O]]]; [exists recs, v; split; assumption | contradiction | contradiction].
Qed.

(* ---------- the oracle entry point runs the same loops ---------- *)
Definition res_agree {A B} (f : A -> B -> Prop) (r : res A) (r' : res B) : Prop :=
  match r, r' with
  | Ok a, Ok b => f a b
  | Err e, Err e' => e = e'
  | Panic q, Panic q' => q = q'
  | OutOfFuel, OutOfFuel => True
  | _, _ => False
  end.

Lemma trace_row_agrees n : forall mbx v p acc tacc,
  res_agree (fun a b => snd a = b) (parse_mb_row n mbx v p acc) (snd (trace_mb_row n mbx v p tacc)).
Proof.
  induction n as [|n IH]; intros mbx v p acc tacc; cbn [parse_mb_row trace_mb_row]; [reflexivity|].
  destruct (parse_macroblock v mbx p) as [[[mb blocks] v1]| | |]; cbn [bind snd res_agree]; try reflexivity. apply IH.
Qed.

Lemma trace_rows_agrees n : forall mby v acc tacc,
  res_agree (fun a b => snd a = b) (parse_mb_rows n mby v acc) (snd (trace_mb_rows n mby v tacc)).
Proof.
  induction n as [|n IH]; intros mby v acc tacc; cbn [parse_mb_rows trace_mb_rows]; [reflexivity|].
  destruct (usize_rem mby (v_num_partitions v)) as [p| | |]; cbn [bind snd res_agree]; try reflexivity.
  pose proof (trace_row_agrees (Z.to_nat (v_mbwidth (set_left v MacroBlock_default))) 0 (set_left v MacroBlock_default) p acc tacc) as R.
  destruct (parse_mb_row _ 0 (set_left v MacroBlock_default) p acc) as [[acc1 v1]| | |];
    destruct (trace_mb_row _ 0 (set_left v MacroBlock_default) p tacc) as [tacc1 [v2| | |]]; cbn [snd res_agree bind] in *; try contradiction; try assumption.
  subst v2. apply IH.
Qed.

(* the status word of the oracle's trace = the result class of parse_frame *)
Theorem vp8f_run_status data : fst (fst (vp8f_run data)) = vp8f_status (parse_frame data).
Proof.
  unfold vp8f_run, parse_frame. destruct (Vp8_new data) as [v0| | |]; cbn [bind]; try reflexivity.
  destruct (read_frame_header v0) as [v| | |]; cbn [bind]; try reflexivity.
  unfold parse_frame_loop. pose proof (trace_rows_agrees (Z.to_nat (v_mbheight v)) 0 v [] []) as R.
  destruct (trace_mb_rows (Z.to_nat (v_mbheight v)) 0 v []) as [tacc r]. cbn [snd fst] in *.
  destruct (parse_mb_rows (Z.to_nat (v_mbheight v)) 0 v []) as [[acc v1]| | |]; destruct r as [v2| | |]; cbn [res_agree bind vp8f_status] in *;
    try contradiction; try reflexivity; subst; reflexivity.
Qed.

(* ---------- the hypotheses are satisfiable: a 39x2 key frame written by libwebp (3 macroblocks: one B_PRED, two 16x16, all with
   coefficients; 4 token partitions), taken from the vp8frame correspondence run ---------- *)
Definition ex_payload : list Z := [240; 3; 0; 157; 1; 42; 39; 0; 2; 0; 63; 53; 64; 205; 102; 165; 163; 133; 84; 82; 169; 162; 115; 0; 92; 250; 189; 8; 99; 20; 244; 193; 94; 164; 47; 183; 21; 104; 95; 0; 0; 56; 0; 0; 2; 0; 0; 2; 0; 0; 246; 193; 39; 200; 231; 123; 62; 12; 254; 232; 250; 203; 239; 168; 98; 99; 179; 171; 153; 179; 141; 60; 230; 191; 223; 248; 1; 226; 88; 178; 9; 185; 8; 186; 145; 88; 7; 197; 10; 66; 55; 120; 164; 30; 202; 219; 6; 78; 254; 140; 27; 10; 169; 97; 128; 0; 0; 0; 0; 0; 0; 0].

(* the decidable side conditions of parse_frame_refines, and "the reference run stays inside every partition" *)
Definition frame_hyps_okb (data : list Z) : bool :=
  match parse_header data with
  | Some (h, s, parts) =>
    (h_color_space h =? 0) && no_ff_start (first_partition data) && forallb no_ff_start parts &&
    (let '(modes, s') := parse_modes h s in
     let '(res, ps') := parse_tokens h modes (map bd_init parts) in
     negb (Z.of_nat (length (first_partition data)) + 1 <? bytes_needed s') &&
     forallb (fun qs => negb (Z.of_nat (length (fst qs)) + 1 <? bytes_needed (snd qs))) (combine parts ps'))
  | None => false
  end.

Example parse_frame_instance :
  frame_hyps_okb ex_payload = true /\
  match parse_frame ex_payload with Ok (recs, v) => length recs = 3%nat /\ map (fun r => mb_luma_mode (fst r)) recs = [4; 0; 0] | _ => False end.
Proof. split; [vm_compute; reflexivity|]. vm_compute. split; reflexivity. Qed.

(* ...and, when parse_frame succeeds, the records the oracle prints are parse_frame's records (macroblock and residual sections; the
   remaining four sections of a record are a dump of the state the loop is in) *)
Definition rec_secs (r : MacroBlock * list Z) : list (list Z) := [dump_mb (fst r); snd r].

Lemma trace_row_records n : forall mbx v p acc tacc acc' v',
  parse_mb_row n mbx v p acc = Ok (acc', v') ->
  exists new tnew, acc' = new ++ acc /\ trace_mb_row n mbx v p tacc = (tnew ++ tacc, Ok v') /\ map (firstn 2) tnew = map rec_secs new.
Proof.
  induction n as [|n IH]; intros mbx v p acc tacc acc' v' E; cbn [parse_mb_row trace_mb_row] in *.
  - injection E as <- <-. exists [], []. repeat split.
  - destruct (parse_macroblock v mbx p) as [[[mb blocks] v1]| | |]; cbn [bind] in E; try discriminate.
    destruct (IH (mbx + 1) v1 p ((mb, blocks) :: acc) (vp8f_record mb blocks v1 mbx p :: tacc) acc' v' E) as [new [tnew (E1 & E2 & E3)]].
    exists (new ++ [(mb, blocks)]), (tnew ++ [vp8f_record mb blocks v1 mbx p]). rewrite <- !app_assoc. cbn [app].
    split; [exact E1|]. split; [exact E2|]. rewrite !map_app, E3. reflexivity.
Qed.

Lemma trace_rows_records n : forall mby v acc tacc acc' v',
  parse_mb_rows n mby v acc = Ok (acc', v') ->
  exists new tnew, acc' = new ++ acc /\ trace_mb_rows n mby v tacc = (tnew ++ tacc, Ok v') /\ map (firstn 2) tnew = map rec_secs new.
Proof.
  induction n as [|n IH]; intros mby v acc tacc acc' v' E; cbn [parse_mb_rows trace_mb_rows] in *.
  - injection E as <- <-. exists [], []. repeat split.
  - destruct (usize_rem mby (v_num_partitions v)) as [p| | |]; cbn [bind] in E; try discriminate.
    destruct (parse_mb_row (Z.to_nat (v_mbwidth (set_left v MacroBlock_default))) 0 (set_left v MacroBlock_default) p acc) as [[acc1 v1]| | |] eqn:ER;
      cbn [bind] in E; try discriminate.
    destruct (trace_row_records _ _ _ _ _ tacc _ _ ER) as [new1 [tnew1 (A1 & A2 & A3)]]. rewrite A2.
    destruct (IH (mby + 1) v1 acc1 (tnew1 ++ tacc) acc' v' E) as [new2 [tnew2 (B1 & B2 & B3)]].
    exists (new2 ++ new1), (tnew2 ++ tnew1). rewrite <- !app_assoc. subst acc1.
    split; [exact B1|]. split; [exact B2|]. rewrite !map_app, A3, B3. reflexivity.
Qed.

Theorem vp8f_run_records data recs v : parse_frame data = Ok (recs, v) ->
  fst (fst (vp8f_run data)) = 0 /\ map (firstn 2) (snd (vp8f_run data)) = map rec_secs recs.
Proof.
  unfold parse_frame, vp8f_run. destruct (Vp8_new data) as [v0| | |]; cbn [bind]; try discriminate.
  destruct (read_frame_header v0) as [vh| | |]; cbn [bind]; try discriminate.
  unfold parse_frame_loop. destruct (parse_mb_rows (Z.to_nat (v_mbheight vh)) 0 vh []) as [[acc v1]| | |] eqn:ER; cbn [bind]; try discriminate.
  intros E. injection E as <- <-.
  destruct (trace_rows_records _ _ _ _ [] _ _ ER) as [new [tnew (A1 & A2 & A3)]]. rewrite A2. rewrite !app_nil_r in *. subst acc.
  cbn [fst snd vp8f_status]. split; [reflexivity|].
  rewrite !rev_append_rev, !app_nil_r. rewrite !map_rev. rewrite A3. reflexivity.
Qed.
