(* C15, part 6: request scripts.  init, the per-request step lemmas, the run lemma and the theorems. *)
From Coq Require Import ZArith Lia List Bool.
From WebP Require Import Lib.Res Gen.Kernels Gen.Tables Lib.ZBits Lib.Sweep Proofs.C15_num Proofs.C15_ideal Proofs.C15_model
  Proofs.C15_ops Proofs.C15_reqs Spec.RfcBoolDec Model.ArithDec.
Import ListNotations.
Open Scope Z_scope.

(* ---- what a script may ask ---- *)
Definition tree_desc_ok (td : tree_desc) : Prop :=
  let '(t, p, start) := td in tree_okb t p = true /\ exists j, (j < length p)%nat /\ start = 2 * Z.of_nat j.

(* B p: any u8 probability;  L n, S n: at most 8 bits (the result type is u8: longer literals wrap in the crate);
   T k: an existing, well-formed tree, entered at an even index *)
Definition op_ok (trees : list tree_desc) (o : op) : Prop :=
  match o with
  | OB p => 0 <= p <= 255
  | OF => True
  | OL n => 0 <= n <= 8
  | OS n => 0 <= n <= 8
  | OT k => (k < length trees)%nat /\ tree_desc_ok (nth k trees ([], [], 0))
  end.

Definition tree_desc_okb (td : tree_desc) : bool :=
  let '(t, p, start) := td in
  tree_okb t p && Z.even start && (0 <=? start) && (start <? 2 * Z.of_nat (length p)).

Lemma tree_desc_okb_ok td : tree_desc_okb td = true -> tree_desc_ok td.
Proof.
  destruct td as [[t p] start]. unfold tree_desc_okb, tree_desc_ok. rewrite !andb_true_iff.
  intros (((H1 & H2) & H3) & H4). split; [exact H1|].
  apply Z.even_spec in H2. destruct H2 as [m Em]. apply Z.leb_le in H3. apply Z.ltb_lt in H4.
  exists (Z.to_nat m). split; lia.
Qed.

Definition op_okb (trees : list tree_desc) (o : op) : bool :=
  match o with
  | OB p => (0 <=? p) && (p <=? 255)
  | OF => true
  | OL n => (0 <=? n) && (n <=? 8)
  | OS n => (0 <=? n) && (n <=? 8)
  | OT k => (k <? length trees)%nat && tree_desc_okb (nth k trees ([], [], 0))
  end.

Lemma op_okb_ok trees o : op_okb trees o = true -> op_ok trees o.
Proof.
  destruct o; cbn [op_okb op_ok]; rewrite ?andb_true_iff, ?Z.leb_le; try tauto.
  intros [H1 H2]. apply Nat.ltb_lt in H1. split; [exact H1 | apply tree_desc_okb_ok; exact H2].
Qed.

Lemma vp8_trees_ok : forall k, (k < length vp8_trees)%nat -> tree_desc_ok (nth k vp8_trees ([], [], 0)).
Proof.
  assert (H : forallb tree_desc_okb vp8_trees = true) by (vm_compute; reflexivity).
  intros k Hk. apply tree_desc_okb_ok. rewrite forallb_forall in H. apply H. apply nth_In. exact Hk.
Qed.

(* ---- a request as a prog ---- *)
Definition op_prog (trees : list tree_desc) (o : op) : prog :=
  match o with
  | OB p => Read p (fun b => Done (ArithDec.b2z b))
  | OF => Read 128 (fun b => Done (ArithDec.b2z b))
  | OL n => lit_prog (Z.to_nat n) 0
  | OS n => signed_prog (Z.to_nat n)
  | OT k => let '(t, p, start) := nth k trees ([], [], 0) in
            match tree_nodes_from t p with
            | Ok nodes => tree_prog (S (length nodes)) nodes (start / 2)
            | _ => Done 0
            end
  end.

Lemma op_prog_facts trees o : op_ok trees o -> probs_ok (op_prog trees o) /\ depth (op_prog trees o) <= 66.
Proof.
  destruct o as [p | | n | n | k]; cbn [op_ok op_prog].
  - intros Hp. cbn [probs_ok depth]. repeat split; lia.
  - intros _. cbn [probs_ok depth]. repeat split; lia.
  - intros Hn. split; [apply lit_probs|]. rewrite lit_depth. lia.
  - intros Hn. split; [apply signed_probs|]. pose proof (signed_depth (Z.to_nat n)). lia.
  - intros [Hk Hd]. destruct (nth k trees ([], [], 0)) as [[t p] start]. destruct Hd as [Hok (j & Hj & Es)].
    destruct (tree_nodes_from_spec t p Hok) as [nodes (E1 & E2 & E3)]. rewrite E1.
    pose proof (nodes_wf_of t p nodes Hok E2 E3) as Hwf.
    destruct (tree_okb_spec t p Hok) as (_ & Hm & _).
    split; [apply tree_probs; exact Hwf|]. pose proof (tree_depth nodes (S (length nodes)) (start / 2)). lia.
Qed.

(* ---- the public reads are the cold reads ---- *)
Lemma public_eq pg d (fastX : res (Z * State)) (coldX : res (Z * Dec)) : wsafe d -> probs_ok pg ->
  fastX = Ok (interpP (fast_pure (chunks d)) pg (state d)) -> coldX = Ok (interpP cold_pure pg d) ->
  bind fastX (fun '(v, u) => match commit_if_valid (chunks d) u v with
                             | Some (v, u) => Ok (v, set_state d u)
                             | None => coldX
                             end) = Ok (interpP cold_pure pg d).
Proof.
  intros Hw Hp -> ->. cbn [bind].
  pose proof (fast_cold_prog pg d Hw Hp) as FC.
  destruct (interpP (fast_pure (chunks d)) pg (state d)) as [v u]. cbn [fst snd] in FC.
  unfold commit_if_valid. destruct (Z.leb_spec (chunk_index u) (Z.of_nat (length (chunks d)))) as [L | G]; [|reflexivity].
  rewrite FC by (unfold nchunks; exact L). reflexivity.
Qed.

Lemma read_bool_eq d p : wsafe d -> 0 <= p <= 255 -> ArithDec.read_bool d p = Ok (cold_pure d p).
Proof.
  intros Hw Hp. pose proof Hw as (Hs & Hc & Hn & _). unfold ArithDec.read_bool.
  rewrite fast_read_bit_ok by (try assumption; unfold nchunks in *; lia). cbn [bind].
  pose proof (fast_cold_bit d p Hw Hp) as FC.
  destruct (fast_pure (chunks d) (state d) p) as [b u]. cbn [fst snd] in FC.
  unfold commit_if_valid. destruct (Z.leb_spec (chunk_index u) (Z.of_nat (length (chunks d)))) as [L | G].
  - rewrite FC by (unfold nchunks; exact L). reflexivity.
  - unfold cold_read_bool. apply cold_read_bit_ok; assumption.
Qed.

Lemma read_flag_eq d : wsafe d -> ArithDec.read_flag d = Ok (cold_pure d 128).
Proof.
  intros Hw. pose proof Hw as (Hs & Hc & Hn & _). unfold ArithDec.read_flag.
  rewrite fast_read_flag_ok by (try assumption; unfold nchunks in *; lia). cbn [bind].
  pose proof (fast_cold_bit d 128 Hw ltac:(lia)) as FC.
  destruct (fast_pure (chunks d) (state d) 128) as [b u]. cbn [fst snd] in FC.
  unfold commit_if_valid. destruct (Z.leb_spec (chunk_index u) (Z.of_nat (length (chunks d)))) as [L | G].
  - rewrite FC by (unfold nchunks; exact L). reflexivity.
  - unfold cold_read_flag. apply cold_read_bit_ok; [assumption | lia].
Qed.

Lemma model_step_eq trees d o : wsafe d -> nchunks d + 100 < u64_mod -> op_ok trees o ->
  ArithDec.step trees d o = Ok (interpP cold_pure (op_prog trees o) d).
Proof.
  intros Hw Hbig Hok. pose proof Hw as (Hs & Hc & Hn & _).
  destruct o as [p | | n | n | k]; cbn [op_ok ArithDec.step op_prog] in *.
  - rewrite read_bool_eq by assumption. cbn [bind interpP]. destruct (cold_pure d p) as [b d1]. reflexivity.
  - rewrite read_flag_eq by assumption. cbn [bind interpP]. destruct (cold_pure d 128) as [b d1]. reflexivity.
  - unfold ArithDec.read_literal. apply public_eq; try assumption; [apply lit_probs | |].
    + unfold fast_read_literal. apply fast_lit; try assumption; unfold nchunks in *; lia.
    + unfold cold_read_literal. apply cold_lit; [assumption | lia].
  - unfold ArithDec.read_optional_signed_value. apply public_eq; try assumption; [apply signed_probs | |].
    + apply fast_signed; try assumption; unfold nchunks in *; lia.
    + apply cold_signed; assumption.
  - destruct Hok as [Hk Hd]. destruct (nth k trees ([], [], 0)) as [[t p] start]. destruct Hd as [Hto (j & Hj & Es)].
    destruct (tree_nodes_from_spec t p Hto) as [nodes (E1 & E2 & E3)]. rewrite E1. cbn [bind].
    pose proof (nodes_wf_of t p nodes Hto E2 E3) as Hwf.
    destruct (tree_okb_spec t p Hto) as (_ & Hm & _).
    assert (Esj : start / 2 = Z.of_nat j) by lia.
    rewrite Esj, Nat2Z.id. rewrite (E3 j Hj). cbn [of_option bind].
    unfold read_with_tree_with_first_node. apply public_eq; try assumption; [apply tree_probs; exact Hwf | |].
    + unfold fast_read_with_tree. change (Z.of_nat j) with (index (node_of t p j)).
      apply fast_tree; try assumption; cbn [index node_of]; rewrite ?Nat2Z.id; try (unfold nchunks in *; lia).
      apply E3; exact Hj.
    + unfold cold_read_with_tree. cbn [index node_of]. apply cold_tree; try assumption; lia.
Qed.

Lemma spec_step_eq trees s o : op_ok trees o -> RfcBoolDec.step trees s o = interpS (op_prog trees o) s.
Proof.
  intros Hok. destruct o as [p | | n | n | k]; cbn [op_ok RfcBoolDec.step op_prog] in *.
  - cbn [interpS]. destruct (RfcBoolDec.read_bool s p) as [b s1]. reflexivity.
  - unfold RfcBoolDec.read_flag. cbn [interpS]. destruct (RfcBoolDec.read_bool s 128) as [b s1]. reflexivity.
  - unfold RfcBoolDec.read_literal. apply spec_lit; rewrite Z2Nat.id by lia; [lia|]. split; [lia | apply pow2_pos; lia].
  - apply spec_signed; exact Hok.
  - destruct Hok as [Hk Hd]. destruct (nth k trees ([], [], 0)) as [[t p] start]. destruct Hd as [Hto (j & Hj & Es)].
    destruct (tree_nodes_from_spec t p Hto) as [nodes (E1 & E2 & E3)]. rewrite E1.
    destruct (tree_okb_spec t p Hto) as (Hl & Hm & _).
    assert (Esj : start / 2 = Z.of_nat j) by lia. rewrite Esj. subst start.
    unfold treed_read. apply (spec_tree t p nodes Hto E2 E3); lia.
Qed.

(* ---- init: the chunk buffer vp8.rs builds, popped and split by ArithmeticDecoder::init ---- *)
Lemma list_ind4 (P : list Z -> Prop) :
  P [] -> (forall a, P [a]) -> (forall a b, P [a; b]) -> (forall a b c, P [a; b; c]) ->
  (forall a b c e tl, P tl -> P (a :: b :: c :: e :: tl)) -> forall l, P l.
Proof.
  intros H0 H1 H2 H3 H4. fix F 1. intros l.
  destruct l as [|a [|b [|c [|e tl]]]]; [exact H0 | apply H1 | apply H2 | apply H3 | apply H4; apply F].
Qed.

Definition chunk_at (data : list Z) (j : nat) : list Z :=
  [nth (4 * j) data 0; nth (4 * j + 1) data 0; nth (4 * j + 2) data 0; nth (4 * j + 3) data 0].

Lemma chunks_of_spec : forall data,
  Z.of_nat (length (chunks_of data)) = (Z.of_nat (length data) + 3) / 4 /\
  forall j, (j < length (chunks_of data))%nat -> nth_error (chunks_of data) j = Some (chunk_at data j).
Proof.
  apply list_ind4.
  - split; [reflexivity|]. intros j Hj. cbn in Hj. lia.
  - intros a. split; [reflexivity|]. intros j Hj. cbn in Hj. assert (j = 0%nat) by lia. subst j. reflexivity.
  - intros a b. split; [reflexivity|]. intros j Hj. cbn in Hj. assert (j = 0%nat) by lia. subst j. reflexivity.
  - intros a b c. split; [reflexivity|]. intros j Hj. cbn in Hj. assert (j = 0%nat) by lia. subst j. reflexivity.
  - intros a b c e tl [IH1 IH2]. cbn [chunks_of length]. split; [lia|].
    intros j Hj. destruct j as [|j]; [reflexivity|]. cbn [nth_error]. rewrite IH2 by lia.
    unfold chunk_at. replace (4 * S j)%nat with (S (S (S (S (4 * j))))) by lia. reflexivity.
Qed.

Lemma split_last {A} (l : list A) n d : length l = S n -> l = firstn n l ++ [nth n l d].
Proof.
  revert n. induction l as [|x l IH]; intros n Hn; [discriminate|].
  destruct n as [|n].
  - destruct l; [reflexivity | discriminate].
  - cbn [firstn nth app]. f_equal. apply IH. cbn in Hn. lia.
Qed.

Lemma pop_snoc {A} (l : list A) x : pop (l ++ [x]) = Some (l, x).
Proof. unfold pop. rewrite rev_app_distr. cbn [rev app]. rewrite rev_involutive. reflexivity. Qed.

Lemma nth_error_firstn_lt {A} (l : list A) n j : (j < n)%nat -> nth_error (firstn n l) j = nth_error l j.
Proof.
  revert n j. induction l as [|x l IH]; intros n j Hj.
  - rewrite firstn_nil. reflexivity.
  - destruct n as [|n]; [lia|]. destruct j as [|j]; [reflexivity|]. cbn [firstn nth_error]. apply IH. lia.
Qed.

Section Init.
Variable data : list Z.
Hypothesis Hbytes : Forall byte data.
Notation len := (C15_model.len data).
Hypothesis Hlen : len < 2 ^ 63.

Lemma chunk_at_byte_at j : 0 <= j -> chunk_at data (Z.to_nat j) =
  [byte_at data (4 * j); byte_at data (4 * j + 1); byte_at data (4 * j + 2); byte_at data (4 * j + 3)].
Proof.
  intros Hj. unfold chunk_at, byte_at.
  replace (Z.to_nat (4 * j)) with (4 * Z.to_nat j)%nat by lia.
  replace (Z.to_nat (4 * j + 1)) with (4 * Z.to_nat j + 1)%nat by lia.
  replace (Z.to_nat (4 * j + 2)) with (4 * Z.to_nat j + 2)%nat by lia.
  replace (Z.to_nat (4 * j + 3)) with (4 * Z.to_nat j + 3)%nat by lia. reflexivity.
Qed.

Lemma init_modinv_common ch fb f : chunks_ok data ch -> length fb = 3%nat -> f = len mod 4 ->
  (forall j, 0 <= j < f -> nth (Z.to_nat j) fb 0 = byte_at data (4 * (len / 4) + (len mod 4 - f) + j)) ->
  modinv data ideal0 (mkDec ch initial_state fb f).
Proof.
  intros Hch Hfb Hf Hnth. pose proof (Z.mod_pos_bound len 4 ltac:(lia)). pose proof (Z.div_mod len 4 ltac:(lia)).
  assert (0 <= len) by (unfold C15_model.len; lia).
  constructor; unfold loaded, initial_state, ideal0; cbn [chunks state final_bytes final_bytes_remaining chunk_index value range bit_count iA iR iT];
    try assumption; try lia.
  - unfold u64_mod. change (2 ^ 63) with 9223372036854775808 in Hlen. lia.
  - intros _. replace (4 * 0 + len mod 4 - f) with 0 by lia. reflexivity.
Qed.

Lemma init_ok : exists d0, ArithDec.init (chunks_of data) len = Ok d0 /\ modinv data ideal0 d0.
Proof.
  destruct (chunks_of_spec data) as [Hl Hn]. fold len in Hl.
  pose proof (Z.mod_pos_bound len 4 ltac:(lia)) as Hr. pose proof (Z.div_mod len 4 ltac:(lia)) as Hdm.
  assert (H0 : 0 <= len) by (unfold C15_model.len; lia).
  unfold ArithDec.init.
  destruct (Z.eqb_spec len (4 * Z.of_nat (length (chunks_of data)))) as [E | NE].
  - (* whole chunks only *)
    eexists. split; [reflexivity|].
    assert (Hr0 : len mod 4 = 0) by lia.
    apply init_modinv_common; try reflexivity; try lia.
    split; [lia|]. intros j Hj. rewrite Hn by lia. rewrite chunk_at_byte_at by lia. reflexivity.
  - (* a partial last chunk *)
    assert (Hr0 : 1 <= len mod 4 <= 3) by lia.
    set (n := Z.to_nat (len / 4)).
    assert (Hlen1 : length (chunks_of data) = S n) by (unfold n; lia).
    rewrite (split_last (chunks_of data) n [] Hlen1). rewrite pop_snoc.
    assert (Elast : nth n (chunks_of data) [] = chunk_at data n).
    { apply nth_error_nth. apply Hn. lia. }
    rewrite Elast. rewrite firstn_length. rewrite Hlen1. replace (Nat.min n (S n)) with n by lia.
    unfold usize_sub. assert (E1 : (4 * Z.of_nat n <=? len) = true) by (apply Z.leb_le; unfold n; lia). rewrite E1. cbn [bind].
    assert (Er : len - 4 * Z.of_nat n = len mod 4) by (unfold n; lia). rewrite Er.
    assert (E2 : (len mod 4 <=? 3) = true) by (apply Z.leb_le; lia). rewrite E2. cbn [negb].
    assert (E3 : (len mod 4 <=? Z.of_nat (length (chunk_at data n))) = true) by (apply Z.leb_le; cbn; lia). rewrite E3. cbn [negb].
    assert (Hz : forall i, (Z.to_nat (len mod 4) <= i)%nat -> nth (4 * n + i) data 0 = 0).
    { intros i Hi. apply nth_overflow. unfold C15_model.len in *. unfold n. lia. }
    assert (Hcases : len mod 4 = 1 \/ len mod 4 = 2 \/ len mod 4 = 3) by lia.
    assert (Hch : chunks_ok data (firstn n (chunks_of data))).
    { split; [rewrite firstn_length; unfold n; lia|]. intros j Hj.
      rewrite nth_error_firstn_lt by (unfold n; lia). rewrite Hn by lia. rewrite chunk_at_byte_at by lia. reflexivity. }
    assert (Hb : forall i, nth (4 * n + i) data 0 = byte_at data (4 * (len / 4) + Z.of_nat i)).
    { intros i. unfold byte_at. f_equal. unfold n. lia. }
    destruct Hcases as [Ec | [Ec | Ec]]; rewrite Ec in *.
    + change (Z.to_nat 1) with 1%nat in *. unfold chunk_at. cbn [skipn forallb firstn repeat app Nat.sub].
      rewrite (Hz 1%nat), (Hz 2%nat), (Hz 3%nat) by lia. cbn [Z.eqb andb negb].
      eexists. split; [reflexivity|]. apply init_modinv_common; try assumption; try reflexivity; try lia.
      intros j Hj. assert (j = 0) by lia. subst j. change (Z.to_nat 0) with 0%nat. cbn [nth].
      rewrite <- (Nat.add_0_r (4 * n)). rewrite Hb. f_equal. lia.
    + change (Z.to_nat 2) with 2%nat in *. unfold chunk_at. cbn [skipn forallb firstn repeat app Nat.sub].
      rewrite (Hz 2%nat), (Hz 3%nat) by lia. cbn [Z.eqb andb negb].
      eexists. split; [reflexivity|]. apply init_modinv_common; try assumption; try reflexivity; try lia.
      intros j Hj. assert (Hj' : j = 0 \/ j = 1) by lia. destruct Hj' as [-> | ->].
      * change (Z.to_nat 0) with 0%nat. cbn [nth]. rewrite <- (Nat.add_0_r (4 * n)). rewrite Hb. f_equal. lia.
      * change (Z.to_nat 1) with 1%nat. cbn [nth]. rewrite Hb. f_equal. lia.
    + change (Z.to_nat 3) with 3%nat in *. unfold chunk_at. cbn [skipn forallb firstn repeat app Nat.sub].
      rewrite (Hz 3%nat) by lia. cbn [Z.eqb andb negb].
      eexists. split; [reflexivity|]. apply init_modinv_common; try assumption; try reflexivity; try lia.
      intros j Hj. assert (Hj' : j = 0 \/ j = 1 \/ j = 2) by lia. destruct Hj' as [-> | [-> | ->]].
      * change (Z.to_nat 0) with 0%nat. cbn [nth]. rewrite <- (Nat.add_0_r (4 * n)). rewrite Hb. f_equal. lia.
      * change (Z.to_nat 1) with 1%nat. cbn [nth]. rewrite Hb. f_equal. lia.
      * change (Z.to_nat 2) with 2%nat. cbn [nth]. rewrite Hb. f_equal. lia.
Qed.

End Init.

(* ---- scripts ---- *)
Definition need_upto_from (trees : list tree_desc) (s : st) (ops : list op) (k : nat) : Z :=
  need (snd (RfcBoolDec.run_from trees s (firstn (S k) ops))).

Lemma spec_run_cons trees s o tl :
  RfcBoolDec.run_from trees s (o :: tl) =
  (fst (RfcBoolDec.step trees s o) :: fst (RfcBoolDec.run_from trees (snd (RfcBoolDec.step trees s o)) tl),
   snd (RfcBoolDec.run_from trees (snd (RfcBoolDec.step trees s o)) tl)).
Proof.
  cbn [RfcBoolDec.run_from]. destruct (RfcBoolDec.step trees s o) as [v s1]. cbn [fst snd].
  destruct (RfcBoolDec.run_from trees s1 tl) as [vs s2]. reflexivity.
Qed.

Lemma need_upto_0 trees s o tl : need_upto_from trees s (o :: tl) 0 = need (snd (RfcBoolDec.step trees s o)).
Proof. unfold need_upto_from. cbn [firstn]. rewrite spec_run_cons. reflexivity. Qed.

Lemma need_upto_S trees s o tl k :
  need_upto_from trees s (o :: tl) (S k) = need_upto_from trees (snd (RfcBoolDec.step trees s o)) tl k.
Proof. unfold need_upto_from. cbn [firstn]. rewrite spec_run_cons. reflexivity. Qed.

Section Run.
Variable data : list Z.
Hypothesis Hbytes : Forall byte data.
Notation len := (C15_model.len data).
Hypothesis Hlen : len < 2 ^ 63.
Variable trees : list tree_desc.

Definition status (s : st) (d : Dec) : Prop := (live data s d \/ gone data s d) /\ nchunks d = len / 4.

Lemma status_wsafe s d : status s d -> wsafe d /\ nchunks d + 100 < u64_mod.
Proof.
  intros [H Hn]. split.
  - destruct H as [[[i (Hi & _ & Hm)] _] | [(Hw & _) _]]; [exact (modinv_wsafe data i d Hi Hm) | exact Hw].
  - rewrite Hn. assert (0 <= len) by (unfold C15_model.len; lia).
    unfold u64_mod. change (2 ^ 63) with 9223372036854775808 in Hlen. lia.
Qed.

Lemma step_status s d o : status s d -> op_ok trees o ->
  exists v d', ArithDec.step trees d o = Ok (v, d') /\
    status (snd (RfcBoolDec.step trees s o)) d' /\
    (need (snd (RfcBoolDec.step trees s o)) <= len + 1 -> v = fst (RfcBoolDec.step trees s o)) /\
    need s <= need (snd (RfcBoolDec.step trees s o)).
Proof.
  intros Hst Hok. destruct (status_wsafe s d Hst) as [Hw Hbig]. destruct Hst as [Hst Hn].
  destruct (op_prog_facts trees o Hok) as [Hp _].
  rewrite (model_step_eq trees d o Hw Hbig Hok). rewrite (spec_step_eq trees s o Hok).
  destruct (cold_prog_facts (op_prog trees o) d Hw Hp) as [_ Hch].
  exists (fst (interpP cold_pure (op_prog trees o) d)), (snd (interpP cold_pure (op_prog trees o) d)).
  split; [destruct (interpP cold_pure (op_prog trees o) d); reflexivity|].
  pose proof (need_mono (op_prog trees o) s) as Hmono.
  assert (Hn' : nchunks (snd (interpP cold_pure (op_prog trees o) d)) = len / 4) by (unfold nchunks in *; rewrite Hch; exact Hn).
  destruct Hst as [Hl | Hg].
  - destruct (sim_prog data Hbytes (op_prog trees o) s d Hl Hp) as [[Hl' Ev] | Hg'].
    + split; [split; [left; exact Hl' | exact Hn']|]. split; [intros _; exact Ev | exact Hmono].
    + split; [split; [right; exact Hg' | exact Hn']|]. split; [|exact Hmono]. destruct Hg' as [_ Hg']. lia.
  - pose proof (gone_prog data (op_prog trees o) s d Hg) as Hg'.
    split; [split; [right; exact Hg' | exact Hn']|]. split; [|exact Hmono]. destruct Hg' as [_ Hg']. lia.
Qed.

Lemma run_status : forall ops s d, status s d -> Forall (op_ok trees) ops ->
  exists vs d', ArithDec.run_from trees d ops = Ok (vs, d') /\
    status (snd (RfcBoolDec.run_from trees s ops)) d' /\
    length vs = length ops /\ length (fst (RfcBoolDec.run_from trees s ops)) = length ops /\
    need s <= need (snd (RfcBoolDec.run_from trees s ops)) /\
    (forall k, (k < length ops)%nat -> need_upto_from trees s ops k <= need (snd (RfcBoolDec.run_from trees s ops))) /\
    (forall k, (k < length ops)%nat -> need_upto_from trees s ops k <= len + 1 ->
               nth k vs 0 = nth k (fst (RfcBoolDec.run_from trees s ops)) 0).
Proof.
  induction ops as [|o tl IH]; intros s d Hst Hops.
  - exists [], d. cbn [ArithDec.run_from RfcBoolDec.run_from fst snd length]. repeat split; try assumption; try apply Hst; try lia; try (intros k Hk; cbn [length] in Hk; lia).
  - inversion Hops as [|? ? Ho Htl]; subst.
    destruct (step_status s d o Hst Ho) as [v [d1 (E1 & St1 & Ev & Hm1)]].
    destruct (IH _ d1 St1 Htl) as [vs [d2 (E2 & St2 & L1 & L2 & Hm2 & Hup & Hval)]].
    exists (v :: vs), d2. cbn [ArithDec.run_from]. rewrite E1. cbn [bind]. rewrite E2. cbn [bind].
    rewrite spec_run_cons. cbn [fst snd length].
    split; [reflexivity|]. split; [exact St2|]. split; [lia|]. split; [lia|]. split; [lia|]. split.
    + intros k Hk. destruct k as [|k]; [rewrite need_upto_0; lia | rewrite need_upto_S; apply Hup; lia].
    + intros k Hk Hnd. destruct k as [|k].
      * rewrite need_upto_0 in Hnd. cbn [nth]. apply Ev. exact Hnd.
      * rewrite need_upto_S in Hnd. cbn [nth]. apply Hval; [lia | exact Hnd].
Qed.

Lemma status_eof s d : status s d -> (is_past_eof d = true <-> len + 1 < need s).
Proof.
  intros [[[[i (Hi & _ & Hm)] Hn] | [(_ & He & _) Hn]] _]; unfold is_past_eof.
  - destruct Hm. assert (E : (final_bytes_remaining d =? FINAL_BYTES_REMAINING_EOF) = false).
    { apply Z.eqb_neq. assert (HE : FINAL_BYTES_REMAINING_EOF = -14) by reflexivity. lia. }
    rewrite E. split; [discriminate | lia].
  - rewrite He, Z.eqb_refl. split; [intros _; exact Hn | reflexivity].
Qed.

End Run.

(* ---- the theorems ---- *)
Lemma bytes_needed_upto_eq trees data ops k :
  bytes_needed_upto trees data ops k = need_upto_from trees (RfcBoolDec.init data) ops k.
Proof. reflexivity. Qed.

Lemma need_init data : need (RfcBoolDec.init data) = 0.
Proof. unfold RfcBoolDec.init. destruct (next_byte data) as [b0 r0]. destruct (next_byte r0) as [b1 r1]. reflexivity. Qed.

Theorem arith_refines_rfc_lemma : forall trees data ops,
  Forall byte data -> nth 0 data 0 <> 255 -> Z.of_nat (length data) < 2 ^ 63 -> Forall (op_ok trees) ops ->
  exists outs eof,
    ArithDec.run trees data ops = Ok (outs, eof) /\ length outs = length ops /\
    (eof = true <-> exists k, (k < length ops)%nat /\ Z.of_nat (length data) + 1 < bytes_needed_upto trees data ops k) /\
    (forall k, (k < length ops)%nat -> bytes_needed_upto trees data ops k <= Z.of_nat (length data) + 1 ->
               nth k outs 0 = nth k (RfcBoolDec.run trees data ops) 0) /\
    (eof = false -> outs = RfcBoolDec.run trees data ops).
Proof.
  intros trees data ops Hb Hff Hlen Hops.
  destruct (init_ok data Hlen) as [d0 [E0 M0]].
  assert (St0 : status data (RfcBoolDec.init data) d0).
  { split; [left; split; [exists ideal0; split; [apply ideal0_ok; assumption | split; [apply spec_init; assumption | exact M0]]|]|].
    - rewrite need_init. unfold C15_model.len. lia.
    - destruct (mi_chunks data ideal0 d0 M0) as [Hl _]. unfold nchunks. exact Hl. }
  destruct (run_status data Hb Hlen trees ops _ d0 St0 Hops) as [vs [d1 (E1 & St1 & L1 & L2 & Hm & Hup & Hval)]].
  pose proof (status_eof data _ d1 St1) as Heof.
  exists vs, (is_past_eof d1). unfold ArithDec.run. fold (C15_model.len data). rewrite E0. cbn [bind]. rewrite E1. cbn [bind].
  unfold RfcBoolDec.run, RfcBoolDec.run_st. fold (C15_model.len data) in *.
  assert (Hiff : is_past_eof d1 = true <->
                 exists k, (k < length ops)%nat /\ C15_model.len data + 1 < bytes_needed_upto trees data ops k).
  { rewrite Heof. split.
    - intros Hn. destruct ops as [|o tl] eqn:Eo.
      + cbn [RfcBoolDec.run_from snd] in Hn. rewrite need_init in Hn. unfold C15_model.len in Hn. lia.
      + exists (length tl). split; [cbn [length]; lia|]. rewrite bytes_needed_upto_eq. unfold need_upto_from.
        rewrite <- Eo in *. replace (S (length tl)) with (length ops) by (rewrite Eo; reflexivity). rewrite firstn_all. exact Hn.
    - intros [k [Hk Hn]]. rewrite bytes_needed_upto_eq in Hn. specialize (Hup k Hk). lia. }
  split; [reflexivity|]. split; [exact L1|]. split; [exact Hiff|]. split.
  - intros k Hk Hn. apply Hval; [exact Hk | exact Hn].
  - intros Hf. apply (nth_ext _ _ 0 0); [lia|]. intros k Hk. apply Hval; [lia|].
    destruct (Z.le_gt_cases (bytes_needed_upto trees data ops k) (C15_model.len data + 1)) as [Hle | Hgt]; [exact Hle|].
    exfalso. assert (Ht : is_past_eof d1 = true) by (apply Hiff; exists k; split; [lia | lia]). congruence.
Qed.

(* ---- safety for every byte string (no hypothesis on the first byte): no panic, no failed debug_assert, no
        overflow of a checked operation, no tree walk without end ---- *)
Lemma step_safe trees d o : wsafe d -> nchunks d + 100 < u64_mod -> op_ok trees o ->
  exists v d', ArithDec.step trees d o = Ok (v, d') /\ wsafe d' /\ chunks d' = chunks d.
Proof.
  intros Hw Hbig Hok. destruct (op_prog_facts trees o Hok) as [Hp _].
  rewrite (model_step_eq trees d o Hw Hbig Hok).
  destruct (cold_prog_facts (op_prog trees o) d Hw Hp) as [W1 C1].
  exists (fst (interpP cold_pure (op_prog trees o) d)), (snd (interpP cold_pure (op_prog trees o) d)).
  split; [destruct (interpP cold_pure (op_prog trees o) d); reflexivity | split; assumption].
Qed.

Lemma run_safe trees : forall ops d, wsafe d -> nchunks d + 100 < u64_mod -> Forall (op_ok trees) ops ->
  exists vs d', ArithDec.run_from trees d ops = Ok (vs, d') /\ wsafe d' /\ chunks d' = chunks d.
Proof.
  induction ops as [|o tl IH]; intros d Hw Hbig Hops.
  - exists [], d. split; [reflexivity | split; [assumption | reflexivity]].
  - inversion Hops as [|? ? Ho Htl]; subst.
    destruct (step_safe trees d o Hw Hbig Ho) as [v [d1 (E1 & W1 & C1)]].
    destruct (IH d1 W1 ltac:(unfold nchunks in *; rewrite C1; exact Hbig) Htl) as [vs [d2 (E2 & W2 & C2)]].
    exists (v :: vs), d2. cbn [ArithDec.run_from]. rewrite E1. cbn [bind]. rewrite E2. cbn [bind].
    split; [reflexivity | split; [assumption | congruence]].
Qed.

Theorem arith_no_panic_lemma : forall trees data ops,
  Forall byte data -> Z.of_nat (length data) < 2 ^ 63 -> Forall (op_ok trees) ops ->
  exists outs eof, ArithDec.run trees data ops = Ok (outs, eof) /\ length outs = length ops.
Proof.
  intros trees data ops Hb Hlen Hops.
  destruct (init_ok data Hlen) as [d0 [E0 M0]].
  assert (W0 : wsafe d0) by (apply (modinv_wsafe_R data ideal0 d0); [cbn; lia | exact M0]).
  assert (B0 : nchunks d0 + 100 < u64_mod).
  { destruct (mi_chunks data ideal0 d0 M0) as [Hl _]. unfold nchunks. rewrite Hl. unfold C15_model.len.
    unfold u64_mod. change (2 ^ 63) with 9223372036854775808 in Hlen. lia. }
  destruct (run_safe trees ops d0 W0 B0 Hops) as [vs [d1 (E1 & _ & _)]].
  exists vs, (is_past_eof d1). unfold ArithDec.run. fold (C15_model.len data). rewrite E0. cbn [bind]. rewrite E1. cbn [bind].
  split; [reflexivity|].
  clear E0 M0 W0 B0. revert d0 vs d1 E1. induction ops as [|o tl IH]; intros d0 vs d1 E1.
  - cbn in E1. injection E1 as <- _. reflexivity.
  - cbn [ArithDec.run_from] in E1. destruct (ArithDec.step trees d0 o) as [[v d'] | | |]; cbn [bind] in E1; try discriminate.
    destruct (ArithDec.run_from trees d' tl) as [[vs' d''] | | |] eqn:E2; cbn [bind] in E1; try discriminate.
    injection E1 as <- _. cbn [length]. f_equal. inversion Hops; subst. eapply IH; eauto.
Qed.

(* ---- the reference decoder's registers stay small: `value` fits two bytes, range in 128..255, bit_count in 0..7 ---- *)
Lemma spec_prog_inv data (Hb : Forall byte data) pg : forall i s, ideal_ok data i -> specinv data i s -> probs_ok pg ->
  exists i', ideal_ok data i' /\ specinv data i' (snd (interpS pg s)).
Proof.
  induction pg as [v | p k IH]; intros i s Hi Hs Hp; cbn [interpS snd].
  - exists i. split; assumption.
  - destruct Hp as (Hp & Ht & Hf).
    destruct (spec_read_bool data Hb i s p Hi Hs Hp) as [s1 (E & Hs1 & _)]. rewrite E.
    apply (IH _ (snd (ideal_step data i p)) s1); [apply ideal_step_ok; assumption | exact Hs1 |].
    destruct (fst (ideal_step data i p)); assumption.
Qed.

Theorem spec_registers_small_lemma : forall trees data ops,
  Forall byte data -> nth 0 data 0 <> 255 -> Forall (op_ok trees) ops ->
  let s := snd (run_st trees data ops) in
  0 <= RfcBoolDec.value s < 2 ^ 16 /\ 128 <= RfcBoolDec.range s <= 255 /\ 0 <= RfcBoolDec.bit_count s <= 7.
Proof.
  intros trees data ops Hb Hff Hops. unfold run_st.
  assert (H : exists i, ideal_ok data i /\ specinv data i (snd (RfcBoolDec.run_from trees (RfcBoolDec.init data) ops))).
  { assert (H0 : exists i, ideal_ok data i /\ specinv data i (RfcBoolDec.init data))
      by (exists ideal0; split; [apply ideal0_ok; assumption | apply spec_init; assumption]).
    revert H0. generalize (RfcBoolDec.init data). induction ops as [|o tl IH]; intros s [i [Hi Hs]].
    - exists i. split; assumption.
    - inversion Hops as [|? ? Ho Htl]; subst. rewrite spec_run_cons. cbn [snd]. apply IH; [exact Htl|].
      rewrite (spec_step_eq trees s o Ho). destruct (op_prog_facts trees o Ho) as [Hp _].
      exact (spec_prog_inv data Hb (op_prog trees o) i s Hi Hs Hp). }
  destruct H as [i [Hi Hs]]. cbv zeta.
  pose proof (spec_value_two_bytes data Hb i _ Hi Hs) as Hv.
  destruct Hi as (HR & HT & _). destruct Hs as (Er & _ & Eb & _). rewrite Er, Eb.
  split; [exact Hv | split; [exact HR | lia]].
Qed.

(* ---- a first byte 0xFF is outside the theorem: the decoders then disagree ---- *)
Definition ff_data : list Z := [255; 255; 255; 255; 255; 255; 255; 255].
Definition ff_ops : list op := [OB 255; OT 107; OB 200; OB 103; OT 105; OT 108; OT 105; OT 103].

Lemma first_byte_ff_counterexample_lemma :
  Forall byte ff_data /\ nth 0 ff_data 0 = 255 /\ Forall (op_ok vp8_trees) ff_ops /\
  ArithDec.run vp8_trees ff_data ff_ops = Ok ([1; 10; 1; 1; 10; 10; 11; 11], false) /\
  RfcBoolDec.run vp8_trees ff_data ff_ops = [1; 10; 1; 1; 10; 10; 10; 10] /\
  RfcBoolDec.exhausted vp8_trees ff_data ff_ops = true.
Proof.
  split; [repeat constructor; unfold byte; lia|]. split; [reflexivity|].
  split.
  { assert (H : forallb (op_okb vp8_trees) ff_ops = true) by (vm_compute; reflexivity).
    rewrite Forall_forall. intros o Ho. apply op_okb_ok. rewrite forallb_forall in H. apply H. exact Ho. }
  split; [vm_compute; reflexivity|]. split; vm_compute; reflexivity.
Qed.

(* ---- the hypotheses are satisfiable: the crate's own unit test vector ("hel", test_arithmetic_decoder_hello_short) ---- *)
Definition hel_data : list Z := [104; 101; 108].
Definition hel_ops : list op := [OF; OB 10; OB 250; OL 1; OL 3; OL 8; OL 8].

Lemma hel_instance_lemma :
  Forall byte hel_data /\ nth 0 hel_data 0 <> 255 /\ Forall (op_ok vp8_trees) hel_ops /\
  ArithDec.run vp8_trees hel_data hel_ops = Ok ([0; 1; 0; 1; 5; 64; 185], false) /\
  RfcBoolDec.run vp8_trees hel_data hel_ops = [0; 1; 0; 1; 5; 64; 185] /\
  ArithDec.run vp8_trees hel_data (hel_ops ++ [OT 1; OL 8; OS 4]) = Ok ([0; 1; 0; 1; 5; 64; 185; 4; 16; 0], true) /\
  bytes_needed_upto vp8_trees hel_data (hel_ops ++ [OT 1; OL 8; OS 4]) 7 = 4 /\
  bytes_needed_upto vp8_trees hel_data (hel_ops ++ [OT 1; OL 8; OS 4]) 8 = 5.
Proof.
  split; [repeat constructor; unfold byte; lia|]. split; [cbn; lia|].
  split.
  { assert (H : forallb (op_okb vp8_trees) hel_ops = true) by (vm_compute; reflexivity).
    rewrite Forall_forall. intros o Ho. apply op_okb_ok. rewrite forallb_forall in H. apply H. exact Ho. }
  repeat split; vm_compute; reflexivity.
Qed.

(* ---- the speculative path never changes a result: every public read equals the cold read ---- *)
Definition cold_step (trees : list tree_desc) (d : Dec) (o : op) : res (Z * Dec) :=
  match o with
  | OB p => bind (cold_read_bool d p) (fun '(b, d1) => Ok (ArithDec.b2z b, d1))
  | OF => bind (cold_read_flag d) (fun '(b, d1) => Ok (ArithDec.b2z b, d1))
  | OL n => cold_read_literal d n
  | OS n => cold_read_optional_signed_value d n
  | OT k =>
    let '(t, p, start) := nth k trees ([], [], 0) in
    bind (tree_nodes_from t p) (fun nodes =>
    bind (of_option (nth_error nodes (Z.to_nat (start / 2))) PIndex) (fun first_node =>
    cold_read_with_tree d nodes (index first_node)))
  end.

Lemma fast_equals_cold_lemma trees d o : wsafe d -> nchunks d + 100 < u64_mod -> op_ok trees o ->
  ArithDec.step trees d o = cold_step trees d o.
Proof.
  intros Hw Hbig Hok. rewrite (model_step_eq trees d o Hw Hbig Hok).
  destruct o as [p | | n | n | k]; cbn [op_ok cold_step op_prog] in *.
  - unfold cold_read_bool. rewrite cold_read_bit_ok by assumption. cbn [bind interpP]. destruct (cold_pure d p); reflexivity.
  - unfold cold_read_flag. rewrite cold_read_bit_ok by (try assumption; lia). cbn [bind interpP]. destruct (cold_pure d 128); reflexivity.
  - unfold cold_read_literal. symmetry. apply cold_lit; [assumption | lia].
  - symmetry. apply cold_signed; assumption.
  - destruct Hok as [Hk Hd]. destruct (nth k trees ([], [], 0)) as [[t p] start]. destruct Hd as [Hto (j & Hj & Es)].
    destruct (tree_nodes_from_spec t p Hto) as [nodes (E1 & E2 & E3)]. rewrite E1. cbn [bind].
    pose proof (nodes_wf_of t p nodes Hto E2 E3) as Hwf.
    assert (Esj : start / 2 = Z.of_nat j) by lia.
    rewrite Esj, Nat2Z.id. rewrite (E3 j Hj). cbn [of_option bind index node_of].
    unfold cold_read_with_tree. symmetry. apply cold_tree; try assumption; lia.
Qed.
