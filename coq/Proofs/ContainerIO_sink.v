(* C10, encoder side: the sequence of `write_all` calls WebPEncoder::encode makes on its `W: Write`, run over the
   splitting / failing writer of Lib/IO.v (`write` accepts at most S (wsched k) bytes at call k and fails at call
   fail_at; `write_all` = std's loop).
     write_seq_no_fault     for every splitting schedule all buffers reach the sink, in order: the bytes are the same;
     write_seq_prefix       with a fault anywhere, what reached the sink is a prefix of those bytes;
     write_seq_fault        a fault at `write` call k: if the fault-free run makes call k the sequence reports failure
                            (std: write_all returns the error, `?` in encode returns it), otherwise nothing changes;
     encoder_sink_*         instantiation: the buffers are those Model.Encoder.run_encode hands to write_all
                            (recorded by its sink, [s_out]); their concatenation is the encoded file [sink_bytes]. *)
From Coq Require Import ZArith List Lia Arith.
From WebP Require Import Lib.Res Lib.IO.
From WebP Require Model.Encoder.
Import ListNotations.
Open Scope nat_scope.

Module E := WebP.Model.Encoder.

(* the `write_all(b1)?; write_all(b2)?; ...` of the container writer *)
Fixpoint write_seq (wsched : nat -> nat) (fail_at : option nat) (w : writer) (bufs : list (list Z)) : bool * writer :=
  match bufs with
  | [] => (true, w)
  | b :: rest =>
      match write_all (length b) wsched fail_at w b with
      | (true, w') => write_seq wsched fail_at w' rest
      | (false, w') => (false, w')
      end
  end.

Lemma write_seq_no_fault wsched : forall bufs w,
  fst (write_seq wsched None w bufs) = true /\ wout (snd (write_seq wsched None w bufs)) = wout w ++ concat bufs.
Proof.
  induction bufs as [|b rest IH]; intros w; cbn [write_seq concat].
  - rewrite app_nil_r. auto.
  - destruct (write_all_no_fault wsched (length b) w b (le_n _)) as [H1 H2].
    destruct (write_all (length b) wsched None w b) as [ok w']. cbn [fst snd] in *. subst ok.
    destruct (IH w') as [I1 I2]. split; [exact I1|]. rewrite I2, H2, app_assoc. reflexivity.
Qed.

Lemma write_seq_prefix wsched fail_at : forall bufs w,
  exists j, j <= length (concat bufs)
    /\ wout (snd (write_seq wsched fail_at w bufs)) = wout w ++ firstn j (concat bufs)
    /\ (fst (write_seq wsched fail_at w bufs) = true -> j = length (concat bufs)).
Proof.
  induction bufs as [|b rest IH]; intros w; cbn [write_seq concat].
  - exists 0. cbn [length firstn fst snd]. rewrite app_nil_r. auto.
  - pose proof (write_all_prefix wsched fail_at (length b) w b (le_n _)) as H.
    destruct (write_all (length b) wsched fail_at w b) as [ok w']. destruct H as (k & Hk & Hout & Hok).
    destruct ok.
    + specialize (Hok eq_refl). subst k. rewrite firstn_all in Hout.
      destruct (IH w') as (j & Hj & Hout' & Hok').
      exists (length b + j). rewrite app_length. split; [lia|]. split.
      * rewrite Hout', Hout, <- app_assoc. f_equal. rewrite firstn_app.
        replace (firstn (length b + j) b) with b by (symmetry; apply firstn_all2; lia).
        replace (length b + j - length b) with j by lia. reflexivity.
      * intros E. specialize (Hok' E). lia.
    + exists k. rewrite app_length. cbn [fst snd]. split; [lia|]. split; [|discriminate].
      rewrite Hout. f_equal. rewrite firstn_app. replace (k - length b) with 0 by lia. cbn [firstn]. rewrite app_nil_r. reflexivity.
Qed.

(* one fault against the fault-free run, for one write_all *)
Lemma write_all_fault wsched k : forall fuel w buf,
  let r0 := write_all fuel wsched None w buf in
  let r1 := write_all fuel wsched (Some k) w buf in
  wcalls w <= wcalls (snd r0)
  /\ ((k < wcalls w \/ wcalls (snd r0) <= k) -> r1 = r0)
  /\ (wcalls w <= k < wcalls (snd r0) -> fst r1 = false).
Proof.
  induction fuel as [|fuel IH]; intros w buf; cbn zeta; cbn [write_all].
  - destruct buf; cbn [fst snd]; (split; [lia|]); (split; [reflexivity | lia]).
  - destruct buf as [|b bs]; [cbn [fst snd]; (split; [lia|]); (split; [reflexivity | lia])|].
    unfold write_once.
    destruct (Nat.eqb k (wcalls w)) eqn:Ek.
    + apply Nat.eqb_eq in Ek.
      set (n := Nat.min (S (wsched (wcalls w))) (length (b :: bs))).
      set (w1 := {| wout := wout w ++ firstn n (b :: bs); wcalls := S (wcalls w) |}).
      destruct (IH w1 (skipn n (b :: bs))) as (Hc & _ & _). cbn zeta in Hc. cbn [wcalls w1] in Hc.
      cbn [fst snd]. split; [lia|]. split; [lia|]. intros _. reflexivity.
    + apply Nat.eqb_neq in Ek.
      set (n := Nat.min (S (wsched (wcalls w))) (length (b :: bs))).
      set (w1 := {| wout := wout w ++ firstn n (b :: bs); wcalls := S (wcalls w) |}).
      destruct (IH w1 (skipn n (b :: bs))) as (Hc & Hsame & Hf). cbn zeta in Hc, Hsame, Hf. cbn [wcalls w1] in Hc, Hsame, Hf.
      split; [lia|]. split.
      * intros H. apply Hsame. lia.
      * intros H. apply Hf. lia.
Qed.

Lemma write_seq_fault wsched k : forall bufs w,
  let r0 := write_seq wsched None w bufs in
  let r1 := write_seq wsched (Some k) w bufs in
  wcalls w <= wcalls (snd r0)
  /\ ((k < wcalls w \/ wcalls (snd r0) <= k) -> r1 = r0)
  /\ (wcalls w <= k < wcalls (snd r0) -> fst r1 = false).
Proof.
  induction bufs as [|b rest IH]; intros w; cbn zeta; cbn [write_seq].
  - cbn [fst snd]. split; [lia|]. split; [reflexivity | lia].
  - destruct (write_all_fault wsched k (length b) w b) as (Hc & Hsame & Hf). cbn zeta in Hc, Hsame, Hf.
    destruct (write_all_no_fault wsched (length b) w b (le_n _)) as [Hok _].
    destruct (write_all (length b) wsched None w b) as [ok0 w0] eqn:E0. cbn [fst snd] in *. subst ok0.
    destruct (IH w0) as (Hc' & Hsame' & Hf'). cbn zeta in Hc', Hsame', Hf'.
    split; [lia|]. split.
    + intros H. rewrite Hsame by lia. apply Hsame'. lia.
    + intros H. destruct (le_lt_dec (wcalls w0) k) as [Hge|Hlt].
      * rewrite Hsame by lia. apply Hf'. lia.
      * specialize (Hf ltac:(lia)).
        destruct (write_all (length b) wsched (Some k) w b) as [ok1 w1]. cbn [fst] in Hf. subst ok1. reflexivity.
Qed.

(* ---------------------------------------------------------------------------------------------- *)
(* the encoder                                                                                      *)
(* ---------------------------------------------------------------------------------------------- *)
(* the buffers Model.Encoder.run_encode passes to write_all on a healthy sink, in call order *)
Definition encoder_buffers (s : E.sink) : list (list Z) := rev (E.s_out s).

Lemma encoder_buffers_bytes s : concat (encoder_buffers s) = E.sink_bytes s.
Proof. reflexivity. Qed.

Definition fresh : writer := {| wout := []; wcalls := 0 |}.

(* [s] = the sink Model.Encoder.run_encode returns on a healthy writer (fault index -1): it has recorded the buffers.
   However the real sink splits writes, encode succeeds and the sink holds exactly the encoded file. *)
Theorem encoder_sink_any_split : forall sorter data width height ct pred icc exif xmp (s : E.sink),
  E.run_encode sorter (-1)%Z data width height ct pred icc exif xmp = (s, Ok tt) ->
  forall wsched,
    fst (write_seq wsched None fresh (encoder_buffers s)) = true
    /\ wout (snd (write_seq wsched None fresh (encoder_buffers s))) = E.sink_bytes s.
Proof.
  intros sorter data width height ct pred icc exif xmp s _ wsched.
  destruct (write_seq_no_fault wsched (encoder_buffers s) fresh) as [H1 H2].
  split; [exact H1|]. rewrite H2. reflexivity.
Qed.

(* a sink failing at `write` call k: encode reports the error when it reaches that call, and what the sink holds
   is a prefix of the file; a fault index beyond the calls made changes nothing *)
Theorem encoder_sink_fault : forall sorter data width height ct pred icc exif xmp (s : E.sink),
  E.run_encode sorter (-1)%Z data width height ct pred icc exif xmp = (s, Ok tt) ->
  forall wsched k,
    let free := write_seq wsched None fresh (encoder_buffers s) in
    let faulty := write_seq wsched (Some k) fresh (encoder_buffers s) in
    (k < wcalls (snd free) -> fst faulty = false)
    /\ (wcalls (snd free) <= k -> faulty = free)
    /\ exists j, wout (snd faulty) = firstn j (E.sink_bytes s).
Proof.
  intros sorter data width height ct pred icc exif xmp s _ wsched k free faulty.
  destruct (write_seq_fault wsched k (encoder_buffers s) fresh) as (_ & Hsame & Hf). cbn zeta in Hsame, Hf.
  fold free in Hsame, Hf. fold faulty in Hsame, Hf. cbn [wcalls fresh] in Hsame, Hf.
  split; [intros H; apply Hf; lia|]. split; [intros H; apply Hsame; lia|].
  destruct (write_seq_prefix wsched (Some k) (encoder_buffers s) fresh) as (j & _ & Hout & _).
  exists j. fold faulty in Hout. rewrite Hout. reflexivity.
Qed.

Example write_seq_example :
  write_seq (fun _ => 1) None {| wout := []; wcalls := 0 |} [[82; 73; 70; 70]; [4; 0; 0; 0]; [87]]%Z
    = (true, {| wout := [82; 73; 70; 70; 4; 0; 0; 0; 87]%Z; wcalls := 5 |})
  /\ write_seq (fun _ => 1) (Some 3) {| wout := []; wcalls := 0 |} [[82; 73; 70; 70]; [4; 0; 0; 0]; [87]]%Z
    = (false, {| wout := [82; 73; 70; 70; 4; 0]%Z; wcalls := 3 |}).
Proof. split; reflexivity. Qed.
