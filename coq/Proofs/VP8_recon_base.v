(* Proofs/VP8_recon_base.v -- common ground of the VP8_recon_* files (Model/Vp8Recon.v = Spec.VP8 reconstruction,
   loop filter and crop): Lib.Arr lemmas, the loops of the Model, Spec.VP8 planes (pget / pset / store4x4), the relation
   between a decoder plane (Lib.Arr array) and a reference plane. *)
From Coq Require Import ZArith NArith List Bool Lia FMapPositive.
From WebP Require Import Lib.Res Lib.ZBits Lib.Arr Spec.VP8 Model.Vp8Predict Model.Vp8Recon
  Proofs.VP8_predict_base Proofs.VP8_arraykernels.
Import ListNotations.
Open Scope Z_scope.
Ltac Zify.zify_post_hook ::= Z.div_mod_to_equations.

(* ------------------------------------------------------------------------------------------------------------ *)
(* 1. Lib.Arr                                                                                                   *)
(* ------------------------------------------------------------------------------------------------------------ *)
Definition abytes (a : arr) : Prop := forall n : N, byte (araw a n).

Lemma alenZ_nonneg a : 0 <= alenZ a.
Proof. unfold alenZ. lia. Qed.

Lemma araw_amake n i : araw (amake n) i = 0.
Proof. unfold araw, amake. cbn [adata]. rewrite PM.gempty. reflexivity. Qed.

Lemma abytes_amake n : abytes (amake n).
Proof. intros i. rewrite araw_amake. unfold byte. lia. Qed.

Lemma araw_pw a i v n : araw (pw a i v) n = if (Z.to_N i =? n)%N then v else araw a n.
Proof. exact (araw_wr a i v n). Qed.

Lemma in_buf_true a i : 0 <= i < alenZ a -> in_buf a i = true.
Proof. intros H. unfold in_buf. apply andb_true_intro. split; [apply Z.leb_le | apply Z.ltb_lt]; lia. Qed.

Lemma ard_ok a i : 0 <= i < alenZ a -> ard a i = Ok (araw a (Z.to_N i)).
Proof. intros H. unfold ard. rewrite in_buf_true by exact H. reflexivity. Qed.

Lemma arr_ext_abytes a b : arr_ext a b -> abytes a -> abytes b.
Proof. intros [_ E] H n. rewrite <- E. apply H. Qed.

(* to_list *)
Lemma to_list_aux_spec a : forall k i acc, (N.of_nat k <= i)%N ->
  to_list_aux a k i acc = map (fun j => araw a (i - N.of_nat k + N.of_nat j)%N) (seq 0 k) ++ acc.
Proof.
  induction k as [|k IH]; intros i acc Hk; cbn [to_list_aux]; [reflexivity|].
  rewrite IH by lia. rewrite seq_S, map_app. cbn [map Nat.add]. rewrite <- app_assoc. cbn [app]. f_equal.
  - apply map_ext. intros j. f_equal. lia.
  - f_equal. f_equal. lia.
Qed.

Lemma to_list_spec a : to_list a = map (fun j => araw a (N.of_nat j)) (seq 0 (N.to_nat (alen a))).
Proof.
  unfold to_list. rewrite to_list_aux_spec by lia. rewrite app_nil_r. apply map_ext. intros j. f_equal. lia.
Qed.

Lemma to_list_length a : length (to_list a) = N.to_nat (alen a).
Proof. rewrite to_list_spec, map_length, seq_length. reflexivity. Qed.

Lemma to_list_nth a j : (j < N.to_nat (alen a))%nat -> nth j (to_list a) 0 = araw a (N.of_nat j).
Proof.
  intros Hj. rewrite to_list_spec.
  rewrite (nth_indep _ 0 (araw a (N.of_nat 0))) by (rewrite map_length, seq_length; exact Hj).
  rewrite (map_nth (fun j => araw a (N.of_nat j))), seq_nth by exact Hj. reflexivity.
Qed.

Lemma to_list_ext a b : arr_ext a b -> to_list a = to_list b.
Proof.
  intros [L E]. rewrite !to_list_spec, L. apply map_ext. intros j. apply E.
Qed.

(* slices and block writes (as in Proofs/Lossless_CopyWithin.v, restated here to keep this development independent) *)
Lemma rb_slice_aux_len a : forall n i acc, length (slice_aux a n i acc) = (n + length acc)%nat.
Proof. induction n as [|n IH]; intros i acc; [reflexivity|]. cbn [slice_aux]. rewrite IH. cbn [length]. lia. Qed.

Lemma rb_slice_aux_spec a : forall n i acc, (N.of_nat n <= i)%N ->
  slice_aux a n i acc = map (fun j => araw a (i - N.of_nat n + N.of_nat j)%N) (seq 0 n) ++ acc.
Proof.
  induction n as [|n IH]; intros i acc Hi; [reflexivity|]. cbn [slice_aux]. rewrite IH by lia.
  rewrite seq_S, map_app. cbn [map plus]. rewrite <- app_assoc. cbn [app].
  f_equal; [|do 2 f_equal; lia].
  apply map_ext. intros j. f_equal. lia.
Qed.

Lemma rb_slice_aux_length a n i : length (slice_aux a n i []) = n.
Proof. rewrite rb_slice_aux_len. cbn [length]. lia. Qed.

Lemma rb_slice_aux_nth a n i j : (N.of_nat n <= i)%N -> (j < n)%nat ->
  nth j (slice_aux a n i []) 0 = araw a (i - N.of_nat n + N.of_nat j)%N.
Proof.
  intros Hi Hj. rewrite rb_slice_aux_spec, app_nil_r by exact Hi.
  set (f := fun j => araw a (i - N.of_nat n + N.of_nat j)%N).
  rewrite (nth_indep _ 0 (f 0%nat)) by (rewrite map_length, seq_length; exact Hj).
  rewrite map_nth. rewrite seq_nth by exact Hj. reflexivity.
Qed.

Lemma rb_write_aux_find : forall l m i j,
  PM.find (akey j) (write_aux m i l) =
  if ((i <=? j) && (j <? i + N.of_nat (length l)))%N then Some (nth (N.to_nat (j - i)) l 0) else PM.find (akey j) m.
Proof.
  induction l as [|x tl IH]; intros m i j; cbn [write_aux length].
  - replace ((i <=? j) && (j <? i + N.of_nat 0))%N with false; [reflexivity|].
    symmetry. apply andb_false_iff. destruct (N.leb_spec i j); [right; apply N.ltb_ge; lia | left; reflexivity].
  - rewrite IH. destruct (N.eq_dec j i) as [->|Hne].
    + replace ((N.succ i <=? i) && (i <? N.succ i + N.of_nat (length tl)))%N with false
        by (symmetry; apply andb_false_iff; left; apply N.leb_gt; lia).
      replace ((i <=? i) && (i <? i + N.of_nat (S (length tl))))%N with true
        by (symmetry; apply andb_true_iff; split; [apply N.leb_le | apply N.ltb_lt]; lia).
      rewrite PM.gss. replace (N.to_nat (i - i)) with 0%nat by lia. reflexivity.
    + rewrite PM.gso by (intros E; apply akey_inj in E; lia).
      destruct (N.leb_spec (N.succ i) j) as [Hle|Hgt].
      * replace (i <=? j)%N with true by (symmetry; apply N.leb_le; lia).
        replace (j <? i + N.of_nat (S (length tl)))%N with (j <? N.succ i + N.of_nat (length tl))%N
          by (destruct (N.ltb_spec j (N.succ i + N.of_nat (length tl))); symmetry; [apply N.ltb_lt | apply N.ltb_ge]; lia).
        cbn [andb]. destruct (j <? N.succ i + N.of_nat (length tl))%N; [|reflexivity].
        replace (N.to_nat (j - i)) with (S (N.to_nat (j - N.succ i))) by lia. reflexivity.
      * cbn [andb]. replace (i <=? j)%N with false by (symmetry; apply N.leb_gt; lia). reflexivity.
Qed.

(* plane.copy_within(src .. src + len, dst) in Z terms *)
Lemma acopy_within_spec a src len dst : 0 <= src -> 0 <= len -> 0 <= dst -> src + len <= alenZ a -> dst + len <= alenZ a ->
  exists a', acopy_within a (Z.to_N src) (Z.to_N len) (Z.to_N dst) = Some a' /\ alen a' = alen a /\
    forall k, 0 <= k -> araw a' (Z.to_N k) =
      if (dst <=? k) && (k <? dst + len) then araw a (Z.to_N (src + (k - dst))) else araw a (Z.to_N k).
Proof.
  intros Hs Hl Hd Hsl Hdl. unfold alenZ in *.
  unfold acopy_within, aslice. replace (Z.to_N src + Z.to_N len <=? alen a)%N with true by (symmetry; apply N.leb_le; lia).
  unfold awrite. rewrite rb_slice_aux_length.
  replace (Z.to_N dst + N.of_nat (N.to_nat (Z.to_N len)) <=? alen a)%N with true by (symmetry; apply N.leb_le; lia).
  eexists. split; [reflexivity|]. cbn [alen]. split; [reflexivity|].
  intros k Hk. unfold araw at 1. cbn [adata]. rewrite rb_write_aux_find. rewrite rb_slice_aux_length.
  destruct (Z_le_gt_dec dst k) as [Hdk|Hdk]; [destruct (Z_lt_ge_dec k (dst + len)) as [Hkl|Hkl]|].
  - replace ((Z.to_N dst <=? Z.to_N k) && (Z.to_N k <? Z.to_N dst + N.of_nat (N.to_nat (Z.to_N len))))%N with true
      by (symmetry; apply andb_true_iff; split; [apply N.leb_le | apply N.ltb_lt]; lia).
    replace ((dst <=? k) && (k <? dst + len)) with true
      by (symmetry; apply andb_true_iff; split; [apply Z.leb_le | apply Z.ltb_lt]; lia).
    rewrite rb_slice_aux_nth by lia. f_equal. lia.
  - replace ((Z.to_N dst <=? Z.to_N k) && (Z.to_N k <? Z.to_N dst + N.of_nat (N.to_nat (Z.to_N len))))%N with false
      by (symmetry; apply andb_false_iff; right; apply N.ltb_ge; lia).
    replace ((dst <=? k) && (k <? dst + len)) with false
      by (symmetry; apply andb_false_iff; right; apply Z.ltb_ge; lia).
    reflexivity.
  - replace ((Z.to_N dst <=? Z.to_N k) && (Z.to_N k <? Z.to_N dst + N.of_nat (N.to_nat (Z.to_N len))))%N with false
      by (symmetry; apply andb_false_iff; left; apply N.leb_gt; lia).
    replace ((dst <=? k) && (k <? dst + len)) with false
      by (symmetry; apply andb_false_iff; left; apply Z.leb_gt; lia).
    reflexivity.
Qed.

(* awrite_from: dst[i .. i + n) := src[k .. k + n) *)
Lemma alen_awrite_from n : forall a i src k, alen (awrite_from a i src k n) = alen a.
Proof. induction n as [|n IH]; intros; cbn [awrite_from]; [reflexivity|]. rewrite IH. reflexivity. Qed.

Lemma araw_awrite_from n : forall a i src k m,
  araw (awrite_from a i src k n) m =
  if ((i <=? m) && (m <? i + N.of_nat n))%N then get src (k + Z.of_N (m - i)) else araw a m.
Proof.
  induction n as [|n IH]; intros a i src k m; cbn [awrite_from].
  - replace ((i <=? m) && (m <? i + N.of_nat 0))%N with false; [reflexivity|].
    symmetry. apply andb_false_iff. destruct (N.leb_spec i m); [right; apply N.ltb_ge; lia | left; reflexivity].
  - rewrite IH. destruct (N.eq_dec m i) as [->|Hne].
    + replace ((N.succ i <=? i) && (i <? N.succ i + N.of_nat n))%N with false
        by (symmetry; apply andb_false_iff; left; apply N.leb_gt; lia).
      replace ((i <=? i) && (i <? i + N.of_nat (S n)))%N with true
        by (symmetry; apply andb_true_iff; split; [apply N.leb_le | apply N.ltb_lt]; lia).
      rewrite araw_aset'_eq. f_equal. lia.
    + rewrite araw_aset'_neq by congruence.
      destruct (N.leb_spec (N.succ i) m) as [Hle|Hgt].
      * replace (i <=? m)%N with true by (symmetry; apply N.leb_le; lia).
        replace (m <? i + N.of_nat (S n))%N with (m <? N.succ i + N.of_nat n)%N
          by (destruct (N.ltb_spec m (N.succ i + N.of_nat n)); symmetry; [apply N.ltb_lt | apply N.ltb_ge]; lia).
        cbn [andb]. destruct (m <? N.succ i + N.of_nat n)%N; [|reflexivity].
        f_equal. lia.
      * cbn [andb]. replace (i <=? m)%N with false by (symmetry; apply N.leb_gt; lia). reflexivity.
Qed.

(* the same in Z terms *)
Lemma copy_block_arr_spec dst dpos src spos n : 0 <= dpos -> 0 <= n -> dpos + n <= alenZ dst -> 0 <= spos -> spos + n <= len src ->
  exists a', copy_block_arr dst dpos src spos n = Ok a' /\ alen a' = alen dst /\
    forall m : N, araw a' m =
      if (dpos <=? Z.of_N m) && (Z.of_N m <? dpos + n) then get src (spos + (Z.of_N m - dpos)) else araw dst m.
Proof.
  intros Hd Hn Hdn Hs Hsn. unfold copy_block_arr.
  replace ((alenZ dst <? dpos) || (alenZ dst - dpos <? n)) with false
    by (symmetry; apply orb_false_iff; split; apply Z.ltb_ge; lia).
  replace ((len src <? spos) || (len src - spos <? n)) with false
    by (symmetry; apply orb_false_iff; split; apply Z.ltb_ge; lia).
  eexists. split; [reflexivity|]. split; [apply alen_awrite_from|].
  intros m. rewrite araw_awrite_from.
  destruct (Z_le_gt_dec dpos (Z.of_N m)) as [H1|H1]; [destruct (Z_lt_ge_dec (Z.of_N m) (dpos + n)) as [H2|H2]|].
  - replace ((Z.to_N dpos <=? m) && (m <? Z.to_N dpos + N.of_nat (Z.to_nat n)))%N with true
      by (symmetry; apply andb_true_iff; split; [apply N.leb_le | apply N.ltb_lt]; lia).
    replace ((dpos <=? Z.of_N m) && (Z.of_N m <? dpos + n)) with true
      by (symmetry; apply andb_true_iff; split; [apply Z.leb_le | apply Z.ltb_lt]; lia).
    f_equal. lia.
  - replace ((Z.to_N dpos <=? m) && (m <? Z.to_N dpos + N.of_nat (Z.to_nat n)))%N with false
      by (symmetry; apply andb_false_iff; right; apply N.ltb_ge; lia).
    replace ((dpos <=? Z.of_N m) && (Z.of_N m <? dpos + n)) with false
      by (symmetry; apply andb_false_iff; right; apply Z.ltb_ge; lia).
    reflexivity.
  - replace ((Z.to_N dpos <=? m) && (m <? Z.to_N dpos + N.of_nat (Z.to_nat n)))%N with false
      by (symmetry; apply andb_false_iff; left; apply N.leb_gt; lia).
    replace ((dpos <=? Z.of_N m) && (Z.of_N m <? dpos + n)) with false
      by (symmetry; apply andb_false_iff; left; apply Z.leb_gt; lia).
    reflexivity.
Qed.

(* ------------------------------------------------------------------------------------------------------------ *)
(* 2. loops                                                                                                     *)
(* ------------------------------------------------------------------------------------------------------------ *)
(* an invariant P i s carried from i0 to i0 + n *)
Lemma for_range_inv {St : Type} (P : Z -> St -> Prop) (body : Z -> St -> res St) : forall n i s,
  P i s ->
  (forall j t, i <= j < i + Z.of_nat n -> P j t -> exists t', body j t = Ok t' /\ P (j + 1) t') ->
  exists s', for_range n i body s = Ok s' /\ P (i + Z.of_nat n) s'.
Proof.
  induction n as [|n IH]; intros i s H0 Hstep.
  - exists s. split; [reflexivity|]. replace (i + Z.of_nat 0) with i by lia. exact H0.
  - cbn [for_range]. destruct (Hstep i s ltac:(lia) H0) as (t' & Eb & Ht'). rewrite Eb. cbn [bind].
    destruct (IH (i + 1) t' Ht') as (s' & E & Hs').
    + intros j t Hj Hp. apply Hstep; [lia | exact Hp].
    + exists s'. split; [exact E|]. replace (i + Z.of_nat (S n)) with (i + 1 + Z.of_nat n) by lia. exact Hs'.
Qed.

Lemma for_step_inv {St : Type} (P : Z -> St -> Prop) (body : Z -> St -> res St) (step : Z) : forall n i s,
  P i s ->
  (forall k t, (k < n)%nat -> P (i + Z.of_nat k * step) t -> exists t', body (i + Z.of_nat k * step) t = Ok t' /\ P (i + Z.of_nat (S k) * step) t') ->
  exists s', for_step n i step body s = Ok s' /\ P (i + Z.of_nat n * step) s'.
Proof.
  induction n as [|n IH]; intros i s H0 Hstep.
  - exists s. split; [reflexivity|]. replace (i + Z.of_nat 0 * step) with i by lia. exact H0.
  - cbn [for_step]. destruct (Hstep 0%nat s ltac:(lia)) as (t' & Eb & Ht').
    { replace (i + Z.of_nat 0 * step) with i by lia. exact H0. }
    replace (i + Z.of_nat 0 * step) with i in Eb by lia. rewrite Eb. cbn [bind].
    destruct (IH (i + step) t') as (s' & E & Hs').
    + replace (i + step) with (i + Z.of_nat 1 * step) by lia. exact Ht'.
    + intros k t Hk Hp.
      replace (i + step + Z.of_nat k * step) with (i + Z.of_nat (S k) * step) in * by lia.
      destruct (Hstep (S k) t ltac:(lia) Hp) as (t2 & E2 & H2). exists t2. split; [exact E2|].
      replace (i + step + Z.of_nat (S k) * step) with (i + Z.of_nat (S (S k)) * step) by lia. exact H2.
    + exists s'. split; [exact E|].
      replace (i + Z.of_nat (S n) * step) with (i + step + Z.of_nat n * step) by lia. exact Hs'.
Qed.

(* Vp8Predict.for_ with an invariant *)
Lemma for__inv (P : Z -> list Z -> Prop) (body : Z -> list Z -> res (list Z)) : forall n i s,
  P i s ->
  (forall j t, i <= j < i + Z.of_nat n -> P j t -> exists t', body j t = Ok t' /\ P (j + 1) t') ->
  exists s', for_ n i body s = Ok s' /\ P (i + Z.of_nat n) s'.
Proof.
  induction n as [|n IH]; intros i s H0 Hstep.
  - exists s. split; [reflexivity|]. replace (i + Z.of_nat 0) with i by lia. exact H0.
  - cbn [for_]. destruct (Hstep i s ltac:(lia) H0) as (t' & Eb & Ht'). rewrite Eb. cbn [bind].
    destruct (IH (i + 1) t' Ht') as (s' & E & Hs').
    + intros j t Hj Hp. apply Hstep; [lia | exact Hp].
    + exists s'. split; [exact E|]. replace (i + Z.of_nat (S n)) with (i + 1 + Z.of_nat n) by lia. exact Hs'.
Qed.

(* ------------------------------------------------------------------------------------------------------------ *)
(* 3. reference planes                                                                                          *)
(* ------------------------------------------------------------------------------------------------------------ *)
Lemma idx_inj w x y x' y' : 0 <= x < w -> 0 <= x' < w -> y * w + x = y' * w + x' -> x = x' /\ y = y'.
Proof.
  intros Hx Hx' E.
  assert (Ey : y = y').
  { destruct (Z_lt_le_dec y y') as [L|L]; [|destruct (Z_lt_le_dec y' y) as [L'|L']; [|lia]].
    - assert (y * w + w <= y' * w) by nia. lia.
    - assert (y' * w + w <= y * w) by nia. lia. }
  subst y'. lia.
Qed.

Lemma idx_nonneg w x y : 0 <= x -> 0 <= y -> 0 <= w -> 0 <= y * w + x.
Proof. intros. nia. Qed.

Lemma idx_lt w h x y : 0 <= x < w -> 0 <= y < h -> y * w + x < w * h.
Proof. intros. nia. Qed.

Lemma pw_pset p x y v : p_w (pset p x y v) = p_w p.
Proof. reflexivity. Qed.

(* reading after one write; (x', y') may be outside the frame on the top / left (pget's constants) *)
Lemma pget_pset p x y v x' y' : 0 <= x < p_w p -> 0 <= y -> x' < p_w p ->
  pget (pset p x y v) x' y' = if (x' =? x) && (y' =? y) then v else pget p x' y'.
Proof.
  intros Hx Hy Hx'. unfold pget, pset. cbn [p_w p_a].
  destruct (Z.ltb_spec y' 0) as [Hy'|Hy'].
  { rewrite (eqb_false y' y) by lia. rewrite andb_false_r. reflexivity. }
  destruct (Z.ltb_spec x' 0) as [Hx0|Hx0].
  { rewrite (eqb_false x' x) by lia. reflexivity. }
  destruct (Z.eqb_spec x' x) as [->|Hn]; [destruct (Z.eqb_spec y' y) as [->|Hn]|]; cbn [andb].
  - apply araw_aset'_eq.
  - apply araw_aset'_neq. intros E. apply Hn.
    assert (E' : y * p_w p + x = y' * p_w p + x).
    { apply Z2N.inj in E; [exact E | apply idx_nonneg; lia | apply idx_nonneg; lia]. }
    destruct (idx_inj (p_w p) x y x y' Hx Hx E') as [_ ?]. lia.
  - apply araw_aset'_neq. intros E. apply Hn.
    assert (E' : y * p_w p + x = y' * p_w p + x').
    { apply Z2N.inj in E; [exact E | apply idx_nonneg; lia | apply idx_nonneg; lia]. }
    destruct (idx_inj (p_w p) x y x' y' Hx ltac:(lia) E') as [? _]. lia.
Qed.

(* flat view of a write *)
Lemma araw_pset p x y v n : araw (p_a (pset p x y v)) n = if (Z.to_N (y * p_w p + x) =? n)%N then v else araw (p_a p) n.
Proof.
  unfold pset. cbn [p_a]. destruct (N.eqb_spec (Z.to_N (y * p_w p + x)) n) as [->|Hn].
  - apply araw_aset'_eq.
  - apply araw_aset'_neq. exact Hn.
Qed.

Lemma alen_pset p x y v : alen (p_a (pset p x y v)) = alen (p_a p).
Proof. reflexivity. Qed.

