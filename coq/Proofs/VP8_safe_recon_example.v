(* C03 for the VP8 key-frame decoder, reconstruction half: the hypotheses of decode_frame_planes_safe are satisfiable by
   inputs OUTSIDE the valid-stream theorems (VP8_recon_main needs lf_valid), and by the degenerate headers.
     ex_h / ex_recs   20 x 9 frame (2 x 1 macroblocks), normal filter, frame level 60, segment 0 with a DELTA of +10 (the
                      segment-adjusted base is 70, outside 0..63: excluded by lf_valid), ref_lf_delta[0] = -10, sharpness 3;
                      a B_PRED macroblock and a DC macroblock with the non-zero flag, zero residuals;
     ex_h0            a 0 x 5 header (accepted by read_frame_header): no macroblock, empty planes. *)
From Coq Require Import ZArith NArith List Bool Lia.
From WebP Require Import Lib.Res Lib.ZBits Spec.VP8 Model.Vp8Recon
  Proofs.VP8_parse_mbheader Proofs.VP8_recon_mb Proofs.VP8_recon_example Proofs.VP8_decode_shape Proofs.ReadImage_lossy
  Proofs.VP8_safe_defs Proofs.VP8_safe_recon.
From WebP Require Model.Vp8Parse.
Import ListNotations.
Open Scope Z_scope.

Definition ex_seg (d : bool) (l : Z) : Vp8Parse.Segment := Vp8Parse.mkSeg 0 0 0 0 0 0 d 0 l.
Definition ex_h : RHdr :=
  mkRHdr 2 1 20 9 false 60 3 true [ex_seg true 10; ex_seg true (-63); ex_seg true 63; ex_seg true 0] [-10; 0; 0; 0] [5; 0; 0; 0].
Definition ex_recs : list (MacroBlock * list Z) :=
  [ (Vp8Parse.mkMB [0; 1; 2; 3; 4; 5; 6; 7; 8; 9; 0; 1; 2; 3; 4; 5] (repeat 0 9) 4 1 0 false false, repeat 0 384);
    (Vp8Parse.mkMB (repeat 0 16) (repeat 0 9) 0 3 2 false true, repeat 0 384) ].

Example ex_hyps : rhdr_ok ex_h /\ Forall rec_ok ex_recs /\ length ex_recs = Z.to_nat (rh_mbwidth ex_h * rh_mbheight ex_h).
Proof.
  split; [|split; [|reflexivity]].
  - unfold rhdr_ok, ex_h, lf63. cbn [rh_width rh_height rh_mbwidth rh_mbheight rh_filter_level rh_sharpness_level rh_segment
      rh_ref_delta rh_mode_delta nth length].
    repeat split; try lia; try reflexivity.
    repeat constructor; cbn [ex_seg Vp8Parse.sg_loopfilter_level]; lia.
  - unfold ex_recs. repeat constructor; cbn [fst snd Vp8Parse.mb_bpred Vp8Parse.mb_luma_mode Vp8Parse.mb_chroma_mode Vp8Parse.mb_segmentid];
      try lia; try reflexivity; try (unfold mode_ok; lia);
      try (exists mbres0; exact res_rel_skipped).
    all: unfold modes_ok; repeat constructor; unfold mode_ok; lia.
Qed.

(* obtained FROM THE THEOREM *)
Example ex_safe : exists y u v, Vp8Recon.decode_frame_planes ex_h ex_recs = Ok (y, u, v) /\ planes_ok 20 9 y u v.
Proof.
  destruct ex_hyps as (A & B & C).
  destruct (decode_frame_planes_safe ex_h ex_recs A B C) as (y & u & v & E & P).
  exists y, u, v. split; [exact E|]. apply P; cbn [ex_h rh_width rh_height]; lia.
Qed.

(* the same by evaluation: 180 + 50 + 50 samples, and the loop filter did run (level 58 > 0 for the first macroblock) *)
Example ex_value :
  match Vp8Recon.decode_frame_planes ex_h ex_recs with
  | Ok (y, u, v) => (length y, length u, length v) = (180%nat, 50%nat, 50%nat)
  | _ => False
  end.
Proof. vm_compute. reflexivity. Qed.

Example ex_filter_level : filter_parameters ex_h (fst (nth 0 ex_recs (Vp8Parse.MacroBlock_default, []))) = Ok (58, 6, 2).
Proof. vm_compute. reflexivity. Qed.

(* a 0 x 5 header *)
Definition ex_h0 : RHdr :=
  mkRHdr 0 1 0 5 false 60 3 false [ex_seg false 0; ex_seg false 0; ex_seg false 0; ex_seg false 0] [0; 0; 0; 0] [0; 0; 0; 0].

Example ex_h0_safe : rhdr_ok ex_h0 /\ Vp8Recon.decode_frame_planes ex_h0 [] = Ok ([], [], []).
Proof.
  split; [|vm_compute; reflexivity].
  unfold rhdr_ok, ex_h0, lf63. cbn [rh_width rh_height rh_mbwidth rh_mbheight rh_filter_level rh_sharpness_level rh_segment
    rh_ref_delta rh_mode_delta nth length].
  repeat split; try lia; try reflexivity.
  repeat constructor; cbn [ex_seg Vp8Parse.sg_loopfilter_level]; lia.
Qed.
