(* vp8.rs calculate_filter_parameters (translated on every run by tools/rs2v_imp.py: struct fields as parameters) computes the
   per-macroblock loop-filter parameters of the reference (Spec.VP8.filter_strength = libwebp PrecomputeFilterStrengths,
   key frames), for every header state in which the segment-level base stays within 0..63 before the deltas are added
   (outside that range libwebp and the RFC reference decoder differ: excluded from "valid", see DESIGN.md section 0.2). *)
From Coq Require Import ZArith Lia List Bool.
From WebP Require Import Gen.Kernels Lib.ZBits Spec.VP8.
Import ListNotations.
Open Scope Z_scope.
Ltac Zify.zify_post_hook ::= Z.div_mod_to_equations.

(* the three outputs as the reference names them *)
Definition ref_level (base ref0 mode0 : Z) (i4 : bool) : Z := clip 0 63 (base + ref0 + (if i4 then mode0 else 0)).
Definition ref_ilevel (level sh : Z) : Z :=
  let il := if 0 <? sh then (let t := if 4 <? sh then Z.shiftr level 2 else Z.shiftr level 1 in if 9 - sh <? t then 9 - sh else t) else level in
  if il <? 1 then 1 else il.
Definition ref_hev (level : Z) : Z := if 40 <=? level then 2 else if 15 <=? level then 1 else 0.

Lemma calc_params_reference (frame_level : Z) (seg_enabled seg_delta : bool) (seg_level ref0 mode0 luma sh : Z) :
  0 <= frame_level <= 63 -> -63 <= seg_level <= 63 -> -63 <= ref0 <= 63 -> -63 <= mode0 <= 63 -> 0 <= sh <= 7 ->
  let base := if seg_enabled then (if seg_delta then frame_level + seg_level else seg_level) else frame_level in
  0 <= base <= 63 ->
  let level := ref_level base ref0 mode0 (luma =? 4) in
  calculate_filter_parameters frame_level seg_enabled seg_delta seg_level ref0 mode0 luma sh true
  = [level; ref_ilevel level sh; ref_hev level]
  /\ calculate_filter_parameters_ok frame_level seg_enabled seg_delta seg_level ref0 mode0 luma sh true = true.
Proof.
  intros Hf Hs Hr Hm Hsh base Hb level.
  assert (Hl : 0 <= level <= 63).
  { unfold level, ref_level, clip. set (v := base + ref0 + (if luma =? 4 then mode0 else 0)).
    destruct (Z.ltb_spec v 0); [lia|]. destruct (Z.ltb_spec 63 v); lia. }
  split.
  - unfold calculate_filter_parameters. cbv zeta.
    (* first merged value: the segment base *)
    assert (E1 : nth 0 (if seg_enabled
                         then [nth 0 (if seg_delta then [frame_level + seg_level] else [seg_level]) 0]
                         else [frame_level]) 0 = base).
    { unfold base. destruct seg_enabled; [destruct seg_delta|]; reflexivity. }
    rewrite E1. rewrite (Z.max_l base 0) by lia. rewrite (Z.min_l base 63) by lia.
    assert (E2 : nth 0 (if luma =? 4 then [base + ref0 + mode0] else [base + ref0]) 0 = base + ref0 + (if luma =? 4 then mode0 else 0)).
    { destruct (luma =? 4); cbn [nth]; lia. }
    rewrite E2.
    assert (E3 : wrapU 8 (Z.min (Z.max (base + ref0 + (if luma =? 4 then mode0 else 0)) 0) 63) = level).
    { unfold level, ref_level, clip. set (v := base + ref0 + (if luma =? 4 then mode0 else 0)).
      destruct (Z.ltb_spec v 0); destruct (Z.ltb_spec 63 v); rewrite wrapU_small by (change (2 ^ 8) with 256; lia); lia. }
    rewrite E3. clearbody level. clear E1 E2 E3.
    f_equal. f_equal.
    + (* interior limit *)
      unfold ref_ilevel.
      destruct (Z.gtb_spec sh 0) as [H0|H0]; destruct (Z.ltb_spec 0 sh) as [H0'|H0']; try lia.
      * destruct (Z.gtb_spec sh 4) as [H4|H4]; destruct (Z.ltb_spec 4 sh) as [H4'|H4']; try lia; cbn [nth];
          rewrite !Z.shiftr_div_pow2 by lia; [change (2 ^ 2) with 4 | change (2 ^ 1) with 2].
        -- destruct (Z.gtb_spec (level / 4) (9 - sh)); destruct (Z.ltb_spec (9 - sh) (level / 4)); try lia; cbn [nth];
             [destruct (Z.eqb_spec (9 - sh) 0); destruct (Z.ltb_spec (9 - sh) 1); cbn [nth]; lia
             |destruct (Z.eqb_spec (level / 4) 0); destruct (Z.ltb_spec (level / 4) 1); cbn [nth]; lia].
        -- destruct (Z.gtb_spec (level / 2) (9 - sh)); destruct (Z.ltb_spec (9 - sh) (level / 2)); try lia; cbn [nth];
             [destruct (Z.eqb_spec (9 - sh) 0); destruct (Z.ltb_spec (9 - sh) 1); cbn [nth]; lia
             |destruct (Z.eqb_spec (level / 2) 0); destruct (Z.ltb_spec (level / 2) 1); cbn [nth]; lia].
      * cbn [nth]. destruct (Z.eqb_spec level 0); destruct (Z.ltb_spec level 1); cbn [nth]; lia.
    + (* hev threshold on key frames *)
      f_equal. unfold ref_hev.
      destruct (Z.geb_spec level 40); destruct (Z.leb_spec 40 level); try lia; cbn [nth]; [reflexivity|].
      destruct (Z.geb_spec level 15); destruct (Z.leb_spec 15 level); try lia; reflexivity.
  - unfold calculate_filter_parameters_ok. cbv zeta.
    destruct seg_enabled; destruct seg_delta; destruct (luma =? 4); destruct (sh >? 0) eqn:Es; destruct (sh >? 4) eqn:E4;
      cbn [nth]; unfold base in *;
      repeat match goal with |- context [wrapU 8 ?x] => rewrite (wrapU_small 8 x) by (change (2 ^ 8) with 256; lia) end;
      repeat match goal with |- context [if ?c then _ else _] => destruct c end;
      solve_ok.
Qed.

(* the same, stated against Spec.VP8.filter_strength on a parsed header *)
Lemma filter_params_refine (h : header) (seg : Z) (i4 : bool) :
  0 <= h_level h <= 63 -> -63 <= nthZ (h_seg_filter h) seg 0 <= 63 ->
  -63 <= nthZ (h_ref_lf_delta h) 0 0 <= 63 -> -63 <= nthZ (h_mode_lf_delta h) 0 0 <= 63 -> 0 <= h_sharpness h <= 7 ->
  let base := if h_use_segment h then nthZ (h_seg_filter h) seg 0 + (if h_absolute h then 0 else h_level h) else h_level h in
  0 <= base <= 63 ->
  let out := calculate_filter_parameters (h_level h) (h_use_segment h) (negb (h_absolute h)) (nthZ (h_seg_filter h) seg 0)
               (if h_use_lf_delta h then nthZ (h_ref_lf_delta h) 0 0 else 0)
               (if h_use_lf_delta h then nthZ (h_mode_lf_delta h) 0 0 else 0)
               (if i4 then 4 else 0) (h_sharpness h) true in
  let level := nth 0 out 0 in let il := nth 1 out 0 in let hev := nth 2 out 0 in
  filter_strength h seg i4 = if 0 <? level then mkF (2 * level + il) il hev else mkF 0 0 0.
Proof.
  intros Hl Hs Hr Hm Hsh base Hb.
  set (ref0 := if h_use_lf_delta h then nthZ (h_ref_lf_delta h) 0 0 else 0).
  set (mode0 := if h_use_lf_delta h then nthZ (h_mode_lf_delta h) 0 0 else 0).
  assert (Hr0 : -63 <= ref0 <= 63) by (unfold ref0; destruct (h_use_lf_delta h); lia).
  assert (Hm0 : -63 <= mode0 <= 63) by (unfold mode0; destruct (h_use_lf_delta h); lia).
  assert (Hbase : (if h_use_segment h
                   then (if negb (h_absolute h) then h_level h + nthZ (h_seg_filter h) seg 0 else nthZ (h_seg_filter h) seg 0)
                   else h_level h) = base).
  { unfold base. destruct (h_use_segment h); [|reflexivity]. destruct (h_absolute h); cbn [negb]; lia. }
  destruct (calc_params_reference (h_level h) (h_use_segment h) (negb (h_absolute h)) (nthZ (h_seg_filter h) seg 0) ref0 mode0
              (if i4 then 4 else 0) (h_sharpness h) Hl Hs Hr0 Hm0 Hsh ltac:(rewrite Hbase; exact Hb)) as [E _].
  cbv zeta. rewrite E. rewrite Hbase. cbn [nth].
  assert (Ei4 : ((if i4 then 4 else 0) =? 4) = i4) by (destruct i4; reflexivity). rewrite Ei4.
  unfold filter_strength. fold base.
  assert (Elev : (if h_use_lf_delta h
                  then base + nthZ (h_ref_lf_delta h) 0 0 + (if i4 then nthZ (h_mode_lf_delta h) 0 0 else 0)
                  else base) = base + ref0 + (if i4 then mode0 else 0)).
  { unfold ref0, mode0. destruct (h_use_lf_delta h); destruct i4; lia. }
  rewrite Elev. fold (ref_level base ref0 mode0 i4).
  set (level := ref_level base ref0 mode0 i4).
  destruct (0 <? level); [|reflexivity].
  unfold ref_ilevel, ref_hev. reflexivity.
Qed.
