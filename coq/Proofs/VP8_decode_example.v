(* VP8 whole-frame decoding, part 8: the main theorem instantiated on two real key frames -- every hypothesis is
   discharged (by computation), the conclusion is obtained FROM THE THEOREM, and, independently, both sides are
   evaluated and compared by vm_compute.
     ex_frame    (VP8_recon_example)  76 bytes, 7 x 27, a TM and a B_PRED macroblock with residuals, normal loop filter
                                       level 27, sharpness 1, loop-filter deltas in use (a gen_vp8 frame program);
     ex_payload  (VP8_frame_main)    111 bytes, 39 x 2, written by libwebp: one B_PRED and two 16x16 macroblocks with
                                       coefficients, 4 token partitions. *)
From Coq Require Import ZArith Lia List Bool.
From WebP Require Import Lib.Res Lib.ZBits Spec.BoolDec Spec.VP8 Model.Vp8Decode Proofs.C15_model
  Proofs.VP8_frame_hdrthm Proofs.VP8_recon_example Proofs.VP8_frame_main Proofs.VP8_decode_bridge Proofs.VP8_decode_main Proofs.VP8_decode_planes Proofs.ReadImage_lossy.
Import ListNotations.
Open Scope Z_scope.

Lemma byteb_Forall l : forallb byteb l = true -> Forall byte l.
Proof. intros H. apply Forall_forall. intros x Hx. rewrite forallb_forall in H. apply byteb_spec. apply H. exact Hx. Qed.

(* the hypotheses hold *)
Example ex_frame_hyps : Forall byte ex_frame /\ C15_model.len ex_frame < 2 ^ 63 /\ decode_hyps_b ex_frame = true.
Proof. split; [apply byteb_Forall; vm_compute; reflexivity|]. split; [vm_compute; reflexivity | vm_compute; reflexivity]. Qed.
Example ex_payload_hyps : Forall byte ex_payload /\ C15_model.len ex_payload < 2 ^ 63 /\ decode_hyps_b ex_payload = true.
Proof. split; [apply byteb_Forall; vm_compute; reflexivity|]. split; [vm_compute; reflexivity | vm_compute; reflexivity]. Qed.

(* the reference decodes both (computed in the goal, so that Qed re-checks with the VM) *)
Lemma ex_frame_dims : match VP8.decode ex_frame with Some (w, h, _, _, _) => (w, h) = (7, 27) | None => False end.
Proof. vm_compute. reflexivity. Qed.
Lemma ex_payload_dims : match VP8.decode ex_payload with Some (w, h, _, _, _) => (w, h) = (39, 2) | None => False end.
Proof. vm_compute. reflexivity. Qed.

(* the conclusion, from the theorem *)
Example ex_frame_decodes :
  match VP8.decode ex_frame with
  | Some (w, h, yp, up, vp) =>
      Vp8Decode.decode_frame ex_frame = Ok (w, h, yp, up, vp) /\ planes_ok w h yp up vp /\ (w, h) = (7, 27) /\
      length yp = 189%nat /\ length up = 56%nat
  | None => False
  end.
Proof.
  pose proof ex_frame_dims as Ewh.
  destruct (VP8.decode ex_frame) as [[[[[w h] yp] up] vp]|] eqn:Ed; [|exact Ewh].
  destruct ex_frame_hyps as (Hb & Hl & Hy).
  pose proof (planes_ok_of_spec ex_frame w h yp up vp Ed) as Hp.
  split; [exact (decode_is_spec ex_frame w h yp up vp Hb Hl Ed Hy)|]. split; [exact Hp|].
  split; [exact Ewh|]. injection Ewh as -> ->. destruct Hp as (_ & _ & Ly & Lu & _). rewrite Ly, Lu. split; reflexivity.
Qed.

Example ex_payload_decodes :
  match VP8.decode ex_payload with
  | Some (w, h, yp, up, vp) => Vp8Decode.decode_frame ex_payload = Ok (w, h, yp, up, vp) /\ planes_ok w h yp up vp /\ (w, h) = (39, 2)
  | None => False
  end.
Proof.
  pose proof ex_payload_dims as Ewh.
  destruct (VP8.decode ex_payload) as [[[[[w h] yp] up] vp]|] eqn:Ed; [|exact Ewh].
  destruct ex_payload_hyps as (Hb & Hl & Hy).
  split; [exact (decode_is_spec ex_payload w h yp up vp Hb Hl Ed Hy)|]. split; [exact (planes_ok_of_spec ex_payload w h yp up vp Ed) | exact Ewh].
Qed.

(* independently of the theorem: the Model and the Spec, both evaluated, give the same frames (and these are not trivial) *)
Fixpoint zl_eqb (a b : list Z) : bool :=
  match a, b with [], [] => true | x :: a', y :: b' => (x =? y) && zl_eqb a' b' | _, _ => false end.
Definition same_frame (data : list Z) : bool :=
  match Vp8Decode.decode_frame data, VP8.decode data with
  | Ok (w, h, yp, up, vp), Some (w', h', yp', up', vp') =>
      (w =? w') && (h =? h') && zl_eqb yp yp' && zl_eqb up up' && zl_eqb vp vp' &&
      negb (zl_eqb yp (repeat (nth 0 yp 0) (length yp)))          (* the luma plane is not flat *)
  | _, _ => false
  end.
Example ex_frames_computed : same_frame ex_frame = true /\ same_frame ex_payload = true.
Proof. split; vm_compute; reflexivity. Qed.

(* ---------- the fourth side condition is necessary: a whole key frame on which Model and Spec differ ---------- *)
(* A 7 x 16 key frame written by a gen_vp8 frame program (66 bytes; found by the vp8decode correspondence run, quick tier
   seed 1: the smallest frame of the documented class `lf_ambiguous` on which the crate and libwebp return different
   planes).  Segmentation is on in delta mode and a segment's filter level added to the frame level leaves 0..63; the
   crate (as the RFC 6386 reference decoder) clamps that sum before adding the ref / mode deltas, libwebp clamps once at
   the end, so the two filter the frame with different strengths.  The other three side conditions hold, both decoders
   accept the frame, dimensions and both chroma planes agree, the luma planes differ. *)
Definition lf_witness : list Z :=
  [16; 3; 0; 157; 1; 42; 7; 0; 16; 0; 44; 52; 107; 101; 116; 80; 14; 226; 245; 206; 191; 17; 193; 184; 0; 6; 190; 153; 187; 113; 222; 224;
   128; 0; 27; 0; 0; 172; 167; 54; 6; 16; 181; 122; 151; 244; 127; 61; 48; 224; 148; 182; 253; 200; 92; 205; 169; 159; 81; 226; 183; 252;
   0; 0; 0; 0].

Theorem decode_frame_lf_clamp_refuted :
  match parse_header lf_witness with
  | Some (h, s, parts) =>
      (h_color_space h =? 0) && no_ff_start (first_partition lf_witness) && forallb no_ff_start parts = true /\ lf_base_okb h = false
  | None => False
  end /\
  match Vp8Decode.decode_frame lf_witness, VP8.decode lf_witness with
  | Ok (w, h, yp, up, vp), Some (w', h', yp', up', vp') =>
      (w, h, w', h') = (7, 16, 7, 16) /\ zl_eqb up up' = true /\ zl_eqb vp vp' = true /\ zl_eqb yp yp' = false
  | _, _ => False
  end.
Proof. split; vm_compute; repeat split. Qed.
