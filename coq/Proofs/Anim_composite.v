(* C06: pixel-wise characterisation of every loop nest of Model.Anim.composite_frame over the flat canvas
   (DESIGN.md Appendix A6), proved once for generic "row" and "rectangle" loops and instantiated for clearing,
   blending, RGBA copy and RGB copy; then composite_frame as a whole against the canvas functions of Spec.Anim. *)
From Coq Require Import ZArith NArith List Bool Lia.
From WebP Require Import Lib.Res Lib.Arr Model.AlphaBlend Model.Anim Spec.Anim Proofs.Anim_arr.
Import ListNotations.
Open Scope Z_scope.

Lemma in_rect_iff x0 y0 w h x y : in_rect x0 y0 w h x y = true <-> (x0 <= x < x0 + w /\ y0 <= y < y0 + h).
Proof. unfold in_rect. rewrite !andb_true_iff, !Z.leb_le, !Z.ltb_lt. lia. Qed.

Lemma band_iff a b c d : ((a <=? b) && (c <? d) = true) <-> (a <= b /\ c < d).
Proof. rewrite andb_true_iff, Z.leb_le, Z.ltb_lt. tauto. Qed.

Lemma bool_eq_iff (a b : bool) : (a = true <-> b = true) -> a = b.
Proof. intros H. apply eq_true_iff_eq. exact H. Qed.

(* a slot of row y' of the canvas, read as a flat slot number *)
Lemma row_slot W ox w X Y y' : 0 <= X < W -> 0 <= ox -> 0 <= w -> ox + w <= W -> 0 <= Y -> 0 <= y' ->
  (ox + y' * W <= X + Y * W /\ X + Y * W < ox + y' * W + w) <-> (Y = y' /\ ox <= X < ox + w).
Proof.
  intros HX Hox Hw Hfit HY Hy'. split.
  - intros [H1 H2]. assert (E : Y = y').
    { destruct (Z.lt_trichotomy Y y') as [L|[E|G]]; [exfalso|exact E|exfalso].
      - assert (Y * W + W <= y' * W) by nia. lia.
      - assert (y' * W + W <= Y * W) by nia. lia. }
    subst. lia.
  - intros [-> H']. lia.
Qed.

Lemma slot_bound W H X Y : 0 <= X < W -> 0 <= Y < H -> 0 <= X + Y * W < W * H.
Proof. intros HX HY. split; [nia|]. assert (Y * W + W <= H * W) by nia. lia. Qed.

(* ------------------------------------------------------------------------------------------------ *)
(* generic loops                                                                                     *)
(* ------------------------------------------------------------------------------------------------ *)
(* inner loop: slots base .. base+w, each replaced by a function of its old contents *)
Lemma pixel_row_loop (L base w : Z) (g : Z -> px -> px) (body : Z -> arr -> res arr) cv :
  0 <= base -> 0 <= w -> zlen cv = L ->
  (forall x t, 0 <= x < w -> zlen t = L ->
     body x t = Ok (set4 t ((base + x) * 4) (g x (get4 t ((base + x) * 4))))) ->
  exists cv', for_range (Z.to_nat w) 0 body cv = Ok cv' /\ zlen cv' = L /\
    forall q, 0 <= q ->
      get4 cv' (q * 4) = if (base <=? q) && (q <? base + w) then g (q - base) (get4 cv (q * 4)) else get4 cv (q * 4).
Proof.
  intros Hb Hw HL Hbody.
  destruct (for_range_inv
    (fun x t => zlen t = L /\ forall q, 0 <= q ->
       get4 t (q * 4) = if (base <=? q) && (q <? base + x) then g (q - base) (get4 cv (q * 4)) else get4 cv (q * 4))
    body (Z.to_nat w) 0 cv) as (cv' & Hf & HL' & Hq).
  - split; [exact HL|]. intros q Hq.
    destruct ((base <=? q) && (q <? base + 0)) eqn:E; [|reflexivity]. apply band_iff in E. lia.
  - intros j t Hj [HLt Ht]. rewrite Z2Nat.id in Hj by lia.
    exists (set4 t ((base + j) * 4) (g j (get4 t ((base + j) * 4)))). split; [apply Hbody; [lia|exact HLt]|].
    split; [rewrite zlen_set4; exact HLt|].
    intros q Hq. destruct (Z.eq_dec q (base + j)) as [->|Hne].
    + rewrite get4_set4_same by lia. rewrite (Ht (base + j)) by lia.
      replace ((base <=? base + j) && (base + j <? base + j)) with false
        by (symmetry; apply andb_false_intro2; apply Z.ltb_ge; lia).
      replace ((base <=? base + j) && (base + j <? base + (j + 1))) with true
        by (symmetry; apply band_iff; lia).
      replace (base + j - base) with j by lia. reflexivity.
    + rewrite get4_set4_other by lia. rewrite Ht by lia.
      replace ((base <=? q) && (q <? base + (j + 1))) with ((base <=? q) && (q <? base + j)); [reflexivity|].
      apply bool_eq_iff. rewrite !band_iff. lia.
  - rewrite Z2Nat.id in Hq by lia. exists cv'. split; [exact Hf|]. split; [exact HL'|].
    intros q Hq0. rewrite Z.add_0_l in Hq. apply Hq. exact Hq0.
Qed.

(* outer loop: row y of the rectangle is handled by [rowbody y], whose effect on the slots is known *)
Lemma rows_loop (W H ox oy w h : Z) (g : Z -> Z -> px -> px) (rowbody : Z -> arr -> res arr) cv0 :
  0 <= ox -> 0 <= oy -> 0 <= w -> 0 <= h -> ox + w <= W -> oy + h <= H -> zlen cv0 = W * H * 4 ->
  (forall y cv, 0 <= y < h -> zlen cv = W * H * 4 ->
     exists cv', rowbody y cv = Ok cv' /\ zlen cv' = W * H * 4 /\
       forall q, 0 <= q < W * H ->
         get4 cv' (q * 4) =
         if (ox + (y + oy) * W <=? q) && (q <? ox + (y + oy) * W + w)
         then g (q - (ox + (y + oy) * W)) y (get4 cv (q * 4)) else get4 cv (q * 4)) ->
  exists cv', for_range (Z.to_nat h) 0 rowbody cv0 = Ok cv' /\ zlen cv' = W * H * 4 /\
    forall X Y, 0 <= X < W -> 0 <= Y < H ->
      get4 cv' ((X + Y * W) * 4) =
      if in_rect ox oy w h X Y then g (X - ox) (Y - oy) (get4 cv0 ((X + Y * W) * 4)) else get4 cv0 ((X + Y * W) * 4).
Proof.
  intros Hox Hoy Hw Hh Hfx Hfy HL Hrow.
  destruct (for_range_inv
    (fun y t => zlen t = W * H * 4 /\ forall X Y, 0 <= X < W -> 0 <= Y < H ->
       get4 t ((X + Y * W) * 4) =
       if in_rect ox oy w y X Y then g (X - ox) (Y - oy) (get4 cv0 ((X + Y * W) * 4)) else get4 cv0 ((X + Y * W) * 4))
    rowbody (Z.to_nat h) 0 cv0) as (cv' & Hf & HL' & Hq).
  - split; [exact HL|]. intros X Y HX HY.
    destruct (in_rect ox oy w 0 X Y) eqn:E; [|reflexivity]. apply in_rect_iff in E. lia.
  - intros j t Hj [HLt Ht]. rewrite Z2Nat.id in Hj by lia.
    destruct (Hrow j t ltac:(lia) HLt) as (t' & Hb & HLt' & Hq).
    exists t'. split; [exact Hb|]. split; [exact HLt'|].
    intros X Y HX HY. pose proof (slot_bound W H X Y HX HY) as Hs.
    rewrite (Hq (X + Y * W) Hs). rewrite (Ht X Y HX HY).
    destruct ((ox + (j + oy) * W <=? X + Y * W) && (X + Y * W <? ox + (j + oy) * W + w)) eqn:E.
    + apply band_iff in E. apply row_slot in E; try lia. destruct E as [EY EX].
      replace (in_rect ox oy w j X Y) with false
        by (symmetry; apply not_true_is_false; intros T; apply in_rect_iff in T; lia).
      replace (in_rect ox oy w (j + 1) X Y) with true by (symmetry; apply in_rect_iff; lia).
      replace (X + Y * W - (ox + (j + oy) * W)) with (X - ox) by (subst Y; lia).
      replace (Y - oy) with j by lia. reflexivity.
    + replace (in_rect ox oy w (j + 1) X Y) with (in_rect ox oy w j X Y); [reflexivity|].
      apply bool_eq_iff. rewrite !in_rect_iff. split; [lia|]. intros [T1 T2].
      split; [exact T1|]. destruct (Z.eq_dec Y (j + oy)) as [EY|NY]; [|lia].
      exfalso. apply not_true_iff_false in E. apply E. apply band_iff. apply row_slot; lia.
  - rewrite Z2Nat.id in Hq by lia. exists cv'. split; [exact Hf|]. split; [exact HL'|].
    rewrite Z.add_0_l in Hq. exact Hq.
Qed.

(* ------------------------------------------------------------------------------------------------ *)
(* index arithmetic of the model under the size bound                                                *)
(* ------------------------------------------------------------------------------------------------ *)
Definition fits (W H : Z) : Prop := 1 <= W /\ 1 <= H /\ W * H * 4 < 18446744073709551616.

Lemma canvas_index_ok W H ox oy x y : fits W H -> 0 <= ox -> 0 <= oy -> 0 <= x -> 0 <= y ->
  x + ox < W -> y + oy < H ->
  canvas_index W ox oy x y = Ok ((ox + (y + oy) * W + x) * 4).
Proof.
  intros (HW & HH & HB) Hox Hoy Hx Hy HxW HyH. unfold canvas_index.
  assert (W <= W * H) by nia. assert (H <= W * H) by nia.
  pose proof (slot_bound W H (x + ox) (y + oy) ltac:(lia) ltac:(lia)) as Hs.
  assert ((y + oy) * W <= (x + ox) + (y + oy) * W) by lia.
  rewrite (usz_ok (x + ox)) by lia. cbn [bind].
  rewrite (usz_ok (y + oy)) by lia. cbn [bind].
  rewrite (usz_ok ((y + oy) * W)) by lia. cbn [bind].
  rewrite (usz_ok (x + ox + (y + oy) * W)) by lia. cbn [bind].
  rewrite usz_ok by lia. f_equal. lia.
Qed.

Lemma canvas_row_index_ok W H ox oy y : fits W H -> 0 <= ox < W -> 0 <= oy -> 0 <= y -> y + oy < H ->
  canvas_row_index W ox oy y = Ok ((ox + (y + oy) * W) * 4).
Proof.
  intros (HW & HH & HB) Hox Hoy Hy HyH. unfold canvas_row_index.
  assert (W <= W * H) by nia. assert (H <= W * H) by nia.
  pose proof (slot_bound W H ox (y + oy) ltac:(lia) ltac:(lia)) as Hs.
  assert ((y + oy) * W <= ox + (y + oy) * W) by lia.
  rewrite (usz_ok (y + oy)) by lia. cbn [bind].
  rewrite (usz_ok ((y + oy) * W)) by lia. cbn [bind].
  rewrite (usz_ok (ox + (y + oy) * W)) by lia. cbn [bind].
  rewrite usz_ok by lia. reflexivity.
Qed.

Lemma slice_ok_true a i n : 0 <= i -> 0 <= n -> i + n <= zlen a -> slice_ok a i n = true.
Proof. intros Hi Hn H. unfold slice_ok. apply andb_true_intro. split; apply Z.leb_le; lia. Qed.

(* ------------------------------------------------------------------------------------------------ *)
(* the four loop nests                                                                               *)
(* ------------------------------------------------------------------------------------------------ *)
Definition rect_result (W H : Z) (cv0 cv' : arr) (ox oy w h : Z) (newpx : Z -> Z -> px -> px) : Prop :=
  zlen cv' = W * H * 4 /\
  forall X Y, 0 <= X < W -> 0 <= Y < H ->
    get4 cv' ((X + Y * W) * 4) =
    if in_rect ox oy w h X Y then newpx (X - ox) (Y - oy) (get4 cv0 ((X + Y * W) * 4)) else get4 cv0 ((X + Y * W) * 4).

Lemma clear_previous_spec W H cv c pw ph pox poy :
  fits W H -> zlen cv = W * H * 4 -> 0 <= pox -> 0 <= poy -> 0 <= pw -> 0 <= ph -> pox + pw <= W -> poy + ph <= H ->
  exists cv', clear_previous cv W c pw ph pox poy = Ok cv' /\ rect_result W H cv cv' pox poy pw ph (fun _ _ _ => c).
Proof.
  intros HF HL Hox Hoy Hw Hh Hfx Hfy. unfold clear_previous, rect_result.
  apply (rows_loop W H pox poy pw ph (fun _ _ _ => c)); try assumption.
  intros y t Hy HLt.
  pose proof (slot_bound W H pox (y + poy)) as Hs0.
  destruct (Z.eq_dec pw 0) as [->|Hpw].
  { exists t. split; [reflexivity|]. split; [exact HLt|]. intros q Hq.
    destruct ((pox + (y + poy) * W <=? q) && (q <? pox + (y + poy) * W + 0)) eqn:E; [|reflexivity].
    apply band_iff in E. lia. }
  destruct (pixel_row_loop (W * H * 4) (pox + (y + poy) * W) pw (fun _ _ => c)
     (fun x cv0 => bind (canvas_index W pox poy x y) (fun ci => if slice_ok cv0 ci 4 then Ok (set4 cv0 ci c) else Panic PSlice)) t)
    as (t' & Hf & HLt' & Hq); [ | lia | exact HLt | | ].
  { destruct HF as (HW & _). nia. }
  { intros x u Hx HLu. rewrite (canvas_index_ok W H) by (assumption || lia). cbn [bind].
    pose proof (slot_bound W H (x + pox) (y + poy) ltac:(lia) ltac:(lia)) as Hs.
    rewrite slice_ok_true by lia. reflexivity. }
  exists t'. split; [exact Hf|]. split; [exact HLt'|]. intros q Hq0. apply Hq. lia.
Qed.

Lemma blend_rect_spec W H cv frame fx fy fw fh :
  fits W H -> zlen cv = W * H * 4 -> 0 <= fx -> 0 <= fy -> 1 <= fw -> 1 <= fh -> fx + fw <= W -> fy + fh <= H ->
  zlen frame = fw * fh * 4 ->
  exists cv', blend_rect cv W frame fx fy fw fw fh = Ok cv' /\
    rect_result W H cv cv' fx fy fw fh (fun x y old => do_alpha_blending (get4 frame ((x + y * fw) * 4)) old).
Proof.
  intros HF HL Hox Hoy Hw Hh Hfx Hfy HLf. unfold blend_rect, rect_result.
  apply (rows_loop W H fx fy fw fh (fun x y old => do_alpha_blending (get4 frame ((x + y * fw) * 4)) old)); try assumption; try lia.
  intros y t Hy HLt.
  assert (HB : W * H * 4 < 18446744073709551616) by (destruct HF as (_ & _ & HB); exact HB).
  assert (HfB : fw * fh <= W * H) by (destruct HF as (HW & HH & _); nia).
  destruct (pixel_row_loop (W * H * 4) (fx + (y + fy) * W) fw
     (fun x old => do_alpha_blending (get4 frame ((x + y * fw) * 4)) old)
     (fun x cv0 =>
        bind (usz (y * fw)) (fun yw => bind (usz (x + yw)) (fun s => bind (usz (s * 4)) (fun fi =>
        bind (canvas_index W fx fy x y) (fun ci =>
          if slice_ok frame fi 4 then
            if slice_ok cv0 ci 4 then Ok (set4 cv0 ci (do_alpha_blending (get4 frame fi) (get4 cv0 ci))) else Panic PSlice
          else Panic PSlice))))) t)
    as (t' & Hf & HLt' & Hq); [ | lia | exact HLt | | ].
  { destruct HF as (HW & _). nia. }
  { intros x u Hx HLu.
    pose proof (slot_bound fw fh x y ltac:(lia) ltac:(lia)) as Hsf.
    assert (0 <= y * fw <= x + y * fw) by nia.
    rewrite (usz_ok (y * fw)) by lia. cbn [bind].
    rewrite (usz_ok (x + y * fw)) by lia. cbn [bind].
    rewrite (usz_ok ((x + y * fw) * 4)) by lia. cbn [bind].
    rewrite (canvas_index_ok W H) by (assumption || lia). cbn [bind].
    pose proof (slot_bound W H (x + fx) (y + fy) ltac:(lia) ltac:(lia)) as Hs.
    rewrite (slice_ok_true frame) by lia. rewrite slice_ok_true by lia. reflexivity. }
  exists t'. split; [exact Hf|]. split; [exact HLt'|]. intros q Hq0. rewrite Hq by lia.
  destruct ((fx + (y + fy) * W <=? q) && (q <? fx + (y + fy) * W + fw)); reflexivity.
Qed.

Lemma copy_rgba_rect_spec W H cv frame fx fy fw fh :
  fits W H -> zlen cv = W * H * 4 -> 0 <= fx -> 0 <= fy -> 1 <= fw -> 1 <= fh -> fx + fw <= W -> fy + fh <= H ->
  zlen frame = fw * fh * 4 ->
  exists cv', copy_rgba_rect cv W frame fx fy fw fw fh = Ok cv' /\
    rect_result W H cv cv' fx fy fw fh (fun x y _ => get4 frame ((x + y * fw) * 4)).
Proof.
  intros HF HL Hox Hoy Hw Hh Hfx Hfy HLf. unfold copy_rgba_rect, rect_result.
  apply (rows_loop W H fx fy fw fh (fun x y _ => get4 frame ((x + y * fw) * 4))); try assumption; try lia.
  intros y t Hy HLt.
  assert (HB : W * H * 4 < 18446744073709551616) by (destruct HF as (_ & _ & HB); exact HB).
  assert (HfB : fw * fh <= W * H) by (destruct HF as (HW & HH & _); nia).
  pose proof (slot_bound fw fh 0 y ltac:(lia) ltac:(lia)) as Hsf.
  assert (Hrow : y * fw + fw <= fw * fh) by nia.
  pose proof (slot_bound W H fx (y + fy) ltac:(lia) ltac:(lia)) as Hs.
  assert (Hrowc : fx + (y + fy) * W + fw <= W * H).
  { assert ((y + fy) * W + W <= H * W) by nia. lia. }
  rewrite (usz_ok (y * fw)) by lia. cbn [bind].
  rewrite (usz_ok (y * fw * 4)) by lia. cbn [bind].
  rewrite (canvas_row_index_ok W H) by (assumption || lia). cbn [bind].
  rewrite (usz_ok (fw * 4)) by lia. cbn [bind].
  rewrite slice_ok_true by lia. rewrite slice_ok_true by lia.
  eexists. split; [reflexivity|]. split; [rewrite zlen_copy_bytes; exact HLt|].
  intros q Hq.
  replace (Z.to_nat (fw * 4)) with (4 * Z.to_nat fw)%nat by lia.
  rewrite get4_copy_bytes by lia. rewrite Z2Nat.id by lia.
  destruct ((fx + (y + fy) * W <=? q) && (q <? fx + (y + fy) * W + fw)); [|reflexivity].
  f_equal. lia.
Qed.

Lemma copy_rgb_rect_spec W H cv frame fx fy fw fh :
  fits W H -> zlen cv = W * H * 4 -> 0 <= fx -> 0 <= fy -> 1 <= fw -> 1 <= fh -> fx + fw <= W -> fy + fh <= H ->
  zlen frame = fw * fh * 3 ->
  exists cv', copy_rgb_rect cv W frame fx fy fw fw fh = Ok cv' /\
    rect_result W H cv cv' fx fy fw fh
      (fun x y _ => (zraw frame ((x + y * fw) * 3), zraw frame ((x + y * fw) * 3 + 1), zraw frame ((x + y * fw) * 3 + 2), 255)).
Proof.
  intros HF HL Hox Hoy Hw Hh Hfx Hfy HLf. unfold copy_rgb_rect, rect_result.
  apply (rows_loop W H fx fy fw fh
    (fun x y _ => (zraw frame ((x + y * fw) * 3), zraw frame ((x + y * fw) * 3 + 1), zraw frame ((x + y * fw) * 3 + 2), 255)));
    try assumption; try lia.
  intros y t Hy HLt.
  assert (HB : W * H * 4 < 18446744073709551616) by (destruct HF as (_ & _ & HB); exact HB).
  assert (HfB : fw * fh <= W * H) by (destruct HF as (HW & HH & _); nia).
  pose proof (slot_bound fw fh 0 y ltac:(lia) ltac:(lia)) as Hsf.
  assert (Hrow : y * fw + fw <= fw * fh) by nia.
  pose proof (slot_bound W H fx (y + fy) ltac:(lia) ltac:(lia)) as Hs.
  assert (Hrowc : fx + (y + fy) * W + fw <= W * H).
  { assert ((y + fy) * W + W <= H * W) by nia. lia. }
  rewrite (usz_ok (y * fw)) by lia. cbn [bind].
  rewrite (usz_ok (y * fw * 3)) by lia. cbn [bind].
  rewrite (canvas_row_index_ok W H) by (assumption || lia). cbn [bind].
  rewrite (usz_ok (fw * 3)) by lia. cbn [bind].
  rewrite (slice_ok_true frame) by lia.
  rewrite (usz_ok (fw * 4)) by lia. cbn [bind].
  rewrite slice_ok_true by lia.
  eexists. split; [reflexivity|]. split; [rewrite zlen_copy_rgb; exact HLt|].
  intros q Hq.
  rewrite get4_copy_rgb by lia. rewrite Z2Nat.id by lia.
  destruct ((fx + (y + fy) * W <=? q) && (q <? fx + (y + fy) * W + fw)); [|reflexivity].
  replace (y * fw * 3 + 3 * (q - (fx + (y + fy) * W))) with ((q - (fx + (y + fy) * W) + y * fw) * 3) by lia.
  reflexivity.
Qed.

(* ------------------------------------------------------------------------------------------------ *)
(* composite_frame as a whole                                                                        *)
(* ------------------------------------------------------------------------------------------------ *)
(* the flat array [a] holds the canvas [K] *)
Definition crep (W H : Z) (a : arr) (K : canvas) : Prop :=
  zlen a = W * H * 4 /\ forall x y, 0 <= x < W -> 0 <= y < H -> get4 a ((x + y * W) * 4) = K x y.

Lemma crep_ext W H a K K' : crep W H a K -> (forall x y, 0 <= x < W -> 0 <= y < H -> K x y = K' x y) -> crep W H a K'.
Proof. intros [HL HK] HE. split; [exact HL|]. intros x y Hx Hy. rewrite <- HE by assumption. apply HK; assumption. Qed.

(* the frame's pixel at frame-relative (x, y), as composite_frame reads it from the decoded bytes *)
Definition fpix (has_alpha : bool) (frame : arr) (fw x y : Z) : px :=
  if has_alpha then get4 frame ((x + y * fw) * 4)
  else (zraw frame ((x + y * fw) * 3), zraw frame ((x + y * fw) * 3 + 1), zraw frame ((x + y * fw) * 3 + 2), 255).

Definition composite_result (K : canvas) (clear : option px) (frame : arr) (fx fy fw fh : Z) (ha bl : bool)
    (pw ph pox poy : Z) : canvas :=
  fun x y =>
    let k1 := match clear with Some c => if in_rect pox poy pw ph x y then c else K x y | None => K x y end in
    if in_rect fx fy fw fh x y then
      if ha && bl then do_alpha_blending (fpix ha frame fw (x - fx) (y - fy)) k1 else fpix ha frame fw (x - fx) (y - fy)
    else k1.

Lemma composite_frame_spec (W H : Z) (a : arr) (K : canvas) (clear : option px) (frame : arr) (fx fy fw fh : Z) (ha bl : bool) (pw ph pox poy : Z) :
  fits W H -> crep W H a K ->
  0 <= fx -> 0 <= fy -> 1 <= fw -> 1 <= fh -> fx + fw <= W -> fy + fh <= H ->
  zlen frame = fw * fh * (if ha then 4 else 3) ->
  0 <= pox -> 0 <= poy -> 0 <= pw -> 0 <= ph -> pox + pw <= W -> poy + ph <= H ->
  exists a', composite_frame a W H clear frame fx fy fw fh ha bl pw ph pox poy = Ok a' /\
    crep W H a' (composite_result K clear frame fx fy fw fh ha bl pw ph pox poy).
Proof.
  intros HF [HL HK] Hfx Hfy Hfw Hfh Hfxw Hfyh HLf Hpox Hpoy Hpw Hph Hpxw Hpyh.
  assert (HWH : 1 <= W /\ 1 <= H) by (destruct HF as (? & ? & _); split; assumption).
  unfold composite_frame.
  destruct ((fx =? 0) && (fy =? 0) && (fw =? W) && (fh =? H) && negb bl) eqn:Efull.
  - (* the frame replaces the whole canvas *)
    apply andb_true_iff in Efull. destruct Efull as [Efull Ebl].
    apply andb_true_iff in Efull. destruct Efull as [Efull E4].
    apply andb_true_iff in Efull. destruct Efull as [Efull E3].
    apply andb_true_iff in Efull. destruct Efull as [E1 E2].
    apply Z.eqb_eq in E1. apply Z.eqb_eq in E2. apply Z.eqb_eq in E3. apply Z.eqb_eq in E4. subst fx fy fw fh.
    apply negb_true_iff in Ebl. subst bl.
    destruct ha.
    + rewrite HL, HLf, Z.eqb_refl.
      eexists. split; [reflexivity|]. split; [rewrite zlen_copy_bytes; exact HL|].
      intros x y Hx Hy. pose proof (slot_bound W H x y Hx Hy) as Hs.
      replace (Z.to_nat (W * H * 4)) with (4 * Z.to_nat (W * H))%nat by lia.
      change 0 with (0 * 4) at 1. rewrite get4_copy_bytes by lia. rewrite Z2Nat.id by lia.
      replace ((0 <=? x + y * W) && (x + y * W <? 0 + W * H)) with true by (symmetry; apply band_iff; lia).
      unfold composite_result.
      replace (in_rect 0 0 W H x y) with true by (symmetry; apply in_rect_iff; lia).
      cbn [andb]. unfold fpix. f_equal. lia.
    + rewrite HL, HLf.
      replace (Z.min (W * H * 3 / 3) (W * H * 4 / 4)) with (W * H)
        by (rewrite !Z.div_mul by lia; lia).
      eexists. split; [reflexivity|]. split; [rewrite zlen_copy_rgb; exact HL|].
      intros x y Hx Hy. pose proof (slot_bound W H x y Hx Hy) as Hs.
      change 0 with (0 * 4) at 1. rewrite get4_copy_rgb by lia. rewrite Z2Nat.id by lia.
      replace ((0 <=? x + y * W) && (x + y * W <? 0 + W * H)) with true by (symmetry; apply band_iff; lia).
      unfold composite_result.
      replace (in_rect 0 0 W H x y) with true by (symmetry; apply in_rect_iff; lia).
      cbn [andb]. unfold fpix.
      replace (0 + 3 * (x + y * W - 0)) with ((x - 0 + (y - 0) * W) * 3) by lia. reflexivity.
  - (* dispose, then draw *)
    assert (Hclear : exists a1, match clear with Some c => clear_previous a W c pw ph pox poy | None => Ok a end = Ok a1 /\
               zlen a1 = W * H * 4 /\
               forall x y, 0 <= x < W -> 0 <= y < H ->
                 get4 a1 ((x + y * W) * 4) =
                 match clear with Some c => if in_rect pox poy pw ph x y then c else K x y | None => K x y end).
    { destruct clear as [c|].
      - destruct (clear_previous_spec W H a c pw ph pox poy) as (a1 & Hc & HL1 & H1); try assumption.
        exists a1. split; [exact Hc|]. split; [exact HL1|]. intros x y Hx Hy. rewrite H1 by assumption.
        rewrite HK by assumption. reflexivity.
      - exists a. split; [reflexivity|]. split; [exact HL|]. exact HK. }
    destruct Hclear as (a1 & Hc & HL1 & H1). rewrite Hc. cbn [bind].
    replace (Z.min fw (Z.max 0 (W - fx))) with fw by lia.
    replace (Z.min fh (Z.max 0 (H - fy))) with fh by lia.
    destruct ha; [destruct bl|]; cbn [andb].
    + destruct (blend_rect_spec W H a1 frame fx fy fw fh) as (a2 & Hb & HL2 & H2); try assumption.
      exists a2. split; [exact Hb|]. split; [exact HL2|]. intros x y Hx Hy. rewrite H2 by assumption.
      unfold composite_result. cbn [andb]. rewrite H1 by assumption. unfold fpix. reflexivity.
    + destruct (copy_rgba_rect_spec W H a1 frame fx fy fw fh) as (a2 & Hb & HL2 & H2); try assumption.
      exists a2. split; [exact Hb|]. split; [exact HL2|]. intros x y Hx Hy. rewrite H2 by assumption.
      unfold composite_result. cbn [andb]. rewrite H1 by assumption. unfold fpix. reflexivity.
    + destruct (copy_rgb_rect_spec W H a1 frame fx fy fw fh) as (a2 & Hb & HL2 & H2); try assumption.
      exists a2. split; [exact Hb|]. split; [exact HL2|]. intros x y Hx Hy. rewrite H2 by assumption.
      unfold composite_result. cbn [andb]. rewrite H1 by assumption. unfold fpix. reflexivity.
Qed.

(* ------------------------------------------------------------------------------------------------ *)
(* the output conversions                                                                            *)
(* ------------------------------------------------------------------------------------------------ *)
Lemma zraw_get4 a q c : 0 <= c <= 3 -> zraw a (q * 4 + c) = p_chan (get4 a (q * 4)) c.
Proof.
  intros Hc. unfold get4, p_chan, p_red, p_green, p_blue, p_alpha.
  assert (C : c = 0 \/ c = 1 \/ c = 2 \/ c = 3) by lia.
  destruct C as [-> | [-> | [-> | ->]]]; cbn [Z.eqb Pos.eqb]; [rewrite Z.add_0_r|..]; reflexivity.
Qed.

Lemma render_rgba_crep W H a K : fits W H -> crep W H a K ->
  read_bytes (Z.to_nat (W * H * 4)) a 0 = render true W H K.
Proof.
  intros (HW & HH & HB) [HL HK]. rewrite read_bytes_map. unfold render.
  apply map_ext_in. intros i Hi. apply in_zseq in Hi. rewrite Z2Nat.id in Hi by nia.
  assert (Hq : 0 <= i / 4 < W * H) by (split; [apply Z.div_pos; lia | apply Z.div_lt_upper_bound; lia]).
  pose proof (Z.mod_pos_bound (i / 4) W ltac:(lia)) as HX.
  assert (HY : 0 <= i / 4 / W < H) by (split; [apply Z.div_pos; lia | apply Z.div_lt_upper_bound; lia]).
  rewrite <- (HK _ _ HX HY).
  replace (i / 4 mod W + i / 4 / W * W) with (i / 4) by (rewrite (Z.div_mod (i / 4) W) at 1 by lia; lia).
  pose proof (Z.mod_pos_bound i 4 ltac:(lia)) as Hc.
  rewrite <- zraw_get4 by lia. f_equal.
  rewrite (Z.div_mod i 4) at 1 by lia. lia.
Qed.

Lemma render_rgb_crep W H a K : fits W H -> crep W H a K ->
  read_rgb (Z.to_nat (W * H)) a 0 = render false W H K.
Proof.
  intros (HW & HH & HB) [HL HK]. rewrite read_rgb_map. unfold render.
  replace (3 * Z.to_nat (W * H))%nat with (Z.to_nat (W * H * 3)) by nia.
  apply map_ext_in. intros i Hi. apply in_zseq in Hi. rewrite Z2Nat.id in Hi by nia.
  assert (Hq : 0 <= i / 3 < W * H) by (split; [apply Z.div_pos; lia | apply Z.div_lt_upper_bound; lia]).
  pose proof (Z.mod_pos_bound (i / 3) W ltac:(lia)) as HX.
  assert (HY : 0 <= i / 3 / W < H) by (split; [apply Z.div_pos; lia | apply Z.div_lt_upper_bound; lia]).
  rewrite <- (HK _ _ HX HY).
  replace (i / 3 mod W + i / 3 / W * W) with (i / 3) by (rewrite (Z.div_mod (i / 3) W) at 1 by lia; lia).
  pose proof (Z.mod_pos_bound i 3 ltac:(lia)) as Hc.
  rewrite <- zraw_get4 by lia. f_equal. lia.
Qed.
