(* Without an armed fault every function of Model/LosslessIO.v computes what the function of Model/Lossless.v it restates computes:
   same value, same failure, same bit-reader state (the number of fill_buf calls is the only extra information).

   Sim w m r x : running the I/O-level computation m from the state r (no fault armed) gives the pure result x, where
   w says how the pure function packs its value with the reader it returns ((a, br), (br, a), br alone, a alone, ...),
   and leaves no fault armed.  Sim is closed under bindM / bind (Sim_bind, Sim_bind_pure); the tactic `sim` walks the two texts
   in parallel.  Loops by induction on their fuel. *)
From Coq Require Import ZArith List Bool Lia.
From WebP Require Import Lib.Res Lib.Arr Model.LosslessLib Model.Huffman Model.LosslessTransform Model.Lossless.
From WebP Require Model.BitReader.
From WebP Require Import Model.BitReaderIO Model.LosslessIO Proofs.BitReaderIO_laws.
Import ListNotations.
Open Scope Z_scope.

Definition outW {A T} (w : A -> BitReader.t -> T) (x : res A * iot) : res T :=
  match fst x with
  | Ok a => Ok (w a (br (snd x)))
  | Err e => Err e
  | Panic p => Panic p
  | OutOfFuel => OutOfFuel
  end.

Definition Sim {A T} (w : A -> BitReader.t -> T) (m : M A) (r : iot) (x : res T) : Prop :=
  outW w (m r) = x /\ fail_at (snd (m r)) = None.

Lemma Sim_bind {A B T U} (w1 : A -> BitReader.t -> T) (w2 : B -> BitReader.t -> U) (m : M A) (g : A -> M B) r x k :
  Sim w1 m r x ->
  (forall a r1, fail_at r1 = None -> Sim w2 (g a) r1 (k (w1 a (br r1)))) ->
  Sim w2 (bindM m g) r (bind x k).
Proof.
  unfold Sim, outW, bindM. intros [H1 H2] Hg. destruct (m r) as [y r1]. cbn [fst snd] in *.
  destruct y as [a| e | p | ]; subst x; cbn [bind fst snd].
  - apply Hg. assumption.
  - split; [reflexivity | assumption].
  - split; [reflexivity | assumption].
  - split; [reflexivity | assumption].
Qed.

Lemma Sim_bind_pure {A B T} (w : B -> BitReader.t -> T) (x : res A) (g : A -> M B) r k :
  (forall a, Sim w (g a) r (k a)) -> fail_at r = None -> Sim w (bindM (retM x) g) r (bind x k).
Proof.
  unfold Sim, outW, bindM, retM. intros Hg H. destruct x as [a| e | p | ]; cbn [bind fst snd].
  - apply Hg.
  - split; [reflexivity | assumption].
  - split; [reflexivity | assumption].
  - split; [reflexivity | assumption].
Qed.

(* ---------- primitives ---------- *)
Lemma Sim_fill r : fail_at r = None -> Sim (fun (_ : unit) b => b) fill_io r (BitReader.fill (br r)).
Proof.
  intros H. pose proof (fill_io_free r H) as F. destruct (FaultLaw_fill r 0 H) as (N & _).
  unfold Sim, outW. split; [|assumption].
  destruct (BitReader.fill (br r)) as [b'| e | p | ].
  - destruct F as (c' & ->). reflexivity.
  - rewrite F. reflexivity.
  - rewrite F. reflexivity.
  - rewrite F. reflexivity.
Qed.

Lemma Sim_fill_if n r : fail_at r = None ->
  Sim (fun (_ : unit) b => b) (fill_if_io n) r (if BitReader.nbits (br r) <? n then BitReader.fill (br r) else Ok (br r)).
Proof.
  intros H. unfold fill_if_io. unfold Sim. destruct (BitReader.nbits (br r) <? n).
  - apply Sim_fill. assumption.
  - unfold outW. cbn [fst snd]. split; [reflexivity | assumption].
Qed.

Lemma Sim_read_bits tb n r : fail_at r = None ->
  Sim (fun a b => (a, b)) (read_bits_io tb n) r (BitReader.read_bits (br r) tb n).
Proof.
  intros H. pose proof (read_bits_io_free r tb n H) as F. destruct (FaultLaw_read_bits tb n r 0 H) as (N & _).
  unfold Sim, outW. split; [|assumption].
  destruct (BitReader.read_bits (br r) tb n) as [[v b']| e | p | ].
  - destruct F as (c' & ->). reflexivity.
  - rewrite F. reflexivity.
  - rewrite F. reflexivity.
  - rewrite F. reflexivity.
Qed.

Lemma Sim_consume n r : fail_at r = None -> Sim (fun (_ : unit) b => b) (consume_io n) r (BitReader.consume (br r) n).
Proof.
  intros H. pose proof (consume_io_free r n H) as F. destruct (FaultLaw_consume n r 0 H) as (N & _).
  unfold Sim, outW. split; [|assumption].
  destruct (BitReader.consume (br r) n) as [b'| e | p | ].
  - rewrite F. reflexivity.
  - rewrite F. reflexivity.
  - rewrite F. reflexivity.
  - rewrite F. reflexivity.
Qed.

Lemma Sim_lift {A} (f : BitReader.t -> res (A * BitReader.t)) r : fail_at r = None ->
  Sim (fun a b => (a, b)) (liftM f) r (f (br r)).
Proof.
  intros H. unfold Sim, outW, liftM. destruct (f (br r)) as [[a b']| e | p | ]; cbn [fst snd br fail_at];
    (split; [reflexivity | assumption]).
Qed.

Lemma Sim_read_symbol t r : fail_at r = None -> Sim (fun a b => (a, b)) (read_symbol_io t) r (read_symbol t (br r)).
Proof. apply (Sim_lift (read_symbol t)). Qed.

Lemma Sim_get_copy_distance c r : fail_at r = None ->
  Sim (fun a b => (a, b)) (get_copy_distance_io c) r (get_copy_distance (br r) c).
Proof. apply (Sim_lift (fun b => get_copy_distance b c)). Qed.

Lemma Sim_peek_symbol t r : fail_at r = None -> Sim (fun a (_ : BitReader.t) => a) (peek_symbol_io t) r (peek_symbol t (br r)).
Proof.
  intros H. unfold Sim, outW, peek_symbol_io. cbn [fst snd]. split; [|assumption].
  destruct (peek_symbol t (br r)); reflexivity.
Qed.

(* peek_symbol reads only: the continuation runs from the same state *)
Lemma Sim_bind_peek {B T} (w2 : B -> BitReader.t -> T) t (g : option (Z * Z) -> M B) r k :
  (forall a, Sim w2 (g a) r (k a)) -> fail_at r = None ->
  Sim w2 (bindM (peek_symbol_io t) g) r (bind (peek_symbol t (br r)) k).
Proof.
  intros Hg H. unfold Sim, bindM, peek_symbol_io.
  destruct (peek_symbol t (br r)) as [a| e | p | ]; cbn [bind].
  - apply Hg.
  - unfold outW. cbn [fst snd]. split; [reflexivity | assumption].
  - unfold outW. cbn [fst snd]. split; [reflexivity | assumption].
  - unfold outW. cbn [fst snd]. split; [reflexivity | assumption].
Qed.

(* the all-single-node fast path: Some carries the reader it ended with, None leaves the caller's reader in place *)
Lemma Sim_bind_fast {B T} (w2 : B -> BitReader.t -> T) nv h grp entered cache index nbs data
      (g : option (arr * option color_cache * Z) -> M B) r (k : option (BitReader.t * arr * option color_cache * Z) -> res T) :
  fail_at r = None ->
  (forall d1 c1 i1 r1, fail_at r1 = None -> Sim w2 (g (Some (d1, c1, i1))) r1 (k (Some (br r1, d1, c1, i1)))) ->
  Sim w2 (g None) r (k None) ->
  Sim w2 (bindM (fast_path_io nv h grp entered cache index nbs data) g) r
         (bind (fast_path nv h grp entered cache index nbs data (br r)) k).
Proof.
  intros H HS HN. destruct r as [b c fa]. cbn [fail_at] in H. subst fa. cbn [br] in *.
  unfold Sim, bindM, fast_path_io, liftM. cbn [br calls fail_at].
  destruct (fast_path nv h grp entered cache index nbs data b) as [[[[[b1 d1] c1] i1]|]| e | p | ]; cbn [bind].
  - apply (HS d1 c1 i1 (mkio b1 c None)). reflexivity.
  - apply HN.
  - unfold outW. cbn [fst snd fail_at]. split; reflexivity.
  - unfold outW. cbn [fst snd fail_at]. split; reflexivity.
  - unfold outW. cbn [fst snd fail_at]. split; reflexivity.
Qed.

(* ---------- the parallel walk ---------- *)
Ltac sim_prim :=
  first [ apply Sim_read_bits | apply Sim_fill | apply Sim_fill_if | apply Sim_consume | apply Sim_read_symbol
        | apply Sim_get_copy_distance | apply Sim_peek_symbol
        | match goal with H : context [Sim] |- _ => apply H end
        | eauto with simlaw nocore ];
  try assumption.

Ltac sim_leaf :=
  match goal with
  | |- Sim _ (retM ?x) _ _ =>
    unfold Sim, outW, retM; cbn [fst snd]; split; [ first [ reflexivity | destruct x; reflexivity ] | assumption ]
  end.

Ltac sim_bind_block x :=
  let T := type of x in
  lazymatch T with
  | res (_ * BitReader.t * _) => eapply (Sim_bind (fun p b => (fst p, b, snd p)))
  | res (_ * BitReader.t) => eapply (Sim_bind (fun a b => (a, b)))
  | res (BitReader.t * _) => eapply (Sim_bind (fun a b => (b, a)))
  | res BitReader.t => eapply (Sim_bind (fun _ b => b))
  | _ => eapply (Sim_bind (fun a _ => a))
  end.

Ltac sim_step :=
  lazymatch goal with
  | |- Sim _ (retM _) _ _ => sim_leaf
  | |- Sim _ (bindM (retM _) _) _ (bind _ _) => apply Sim_bind_pure; [ intro | assumption ]
  | |- Sim _ (bindM (peek_symbol_io _) _) _ (bind _ _) => apply Sim_bind_peek; [ intro | assumption ]
  | |- Sim _ (bindM (fast_path_io _ _ _ _ _ _ _ _) _) _ _ => apply Sim_bind_fast; [ assumption | intros ? ? ? ? ? | ]
  | |- Sim _ (bindM _ _) _ (bind ?x _) =>
    first [ eapply Sim_bind; [ solve [sim_prim] | intros ? ? ? ]
          | sim_bind_block x; [ | intros ? ? ? ] ]
  | |- Sim _ (match ?x with _ => _ end) _ _ => destruct x
  | |- Sim _ _ _ _ => solve [sim_prim]
  end;
  cbv beta iota zeta; cbn [fst snd].
Ltac sim := repeat sim_step.

Create HintDb simlaw.

Lemma Sim_read_color_cache r : fail_at r = None ->
  Sim (fun a b => (a, b)) read_color_cache_io r (read_color_cache (br r)).
Proof. intros H. unfold read_color_cache_io, read_color_cache. sim. Qed.
#[export] Hint Resolve Sim_read_color_cache : simlaw.

Lemma Sim_code_lengths_loop : forall fuel table ns sym ms prev cl r, fail_at r = None ->
  Sim (fun a b => (a, b)) (code_lengths_loop_io fuel table ns sym ms prev cl) r (code_lengths_loop fuel table ns sym ms prev cl (br r)).
Proof.
  induction fuel as [|fuel IH]; intros; cbn [code_lengths_loop_io code_lengths_loop]; sim.
Qed.
#[export] Hint Resolve Sim_code_lengths_loop : simlaw.

Lemma Sim_read_huffman_code_lengths clcl n r : fail_at r = None ->
  Sim (fun a b => (a, b)) (read_huffman_code_lengths_io clcl n) r (read_huffman_code_lengths (br r) clcl n).
Proof. intros H. unfold read_huffman_code_lengths_io, read_huffman_code_lengths. sim. Qed.
#[export] Hint Resolve Sim_read_huffman_code_lengths : simlaw.

Lemma Sim_read_cl_cl : forall n i cl r, fail_at r = None ->
  Sim (fun a b => (a, b)) (read_cl_cl_io n i cl) r (read_cl_cl n i cl (br r)).
Proof. induction n as [|n IH]; intros; cbn [read_cl_cl_io read_cl_cl]; sim. Qed.
#[export] Hint Resolve Sim_read_cl_cl : simlaw.

Lemma Sim_read_huffman_code a r : fail_at r = None ->
  Sim (fun a b => (a, b)) (read_huffman_code_io a) r (read_huffman_code (br r) a).
Proof. intros H. unfold read_huffman_code_io, read_huffman_code. sim. Qed.
#[export] Hint Resolve Sim_read_huffman_code : simlaw.

Lemma Sim_pixel_nonfast kio k width nv grp cache index nbs data r :
  (forall c i d r1, fail_at r1 = None -> Sim (fun a b => (b, a)) (kio c i d) r1 (k c i (br r1) d)) ->
  fail_at r = None ->
  Sim (fun a b => (b, a)) (pixel_nonfast_io kio width nv grp cache index nbs data) r
      (pixel_nonfast k width nv grp cache index nbs (br r) data).
Proof. intros Hk H. unfold pixel_nonfast_io, pixel_nonfast. sim. Qed.

Lemma Sim_pixel_loop : forall fuel width nv h grp cache index nbs data r, fail_at r = None ->
  Sim (fun a b => (b, a)) (pixel_loop_io fuel width nv h grp cache index nbs data) r
      (pixel_loop fuel width nv h grp cache index nbs (br r) data).
Proof.
  induction fuel as [|fuel IH]; intros; cbn [pixel_loop_io pixel_loop].
  { sim. }
  repeat (first [ apply Sim_pixel_nonfast; [ intros; apply IH; assumption | assumption ] | sim_step ]).
Qed.
#[export] Hint Resolve Sim_pixel_loop : simlaw.

Lemma Sim_decode_image_data w h info data r : fail_at r = None ->
  Sim (fun a b => (b, a)) (decode_image_data_io w h info data) r (decode_image_data (br r) w h info data).
Proof. intros H. unfold decode_image_data_io, decode_image_data. sim. Qed.
#[export] Hint Resolve Sim_decode_image_data : simlaw.

Lemma Sim_read_group cb r : fail_at r = None -> Sim (fun a b => (a, b)) (read_group_io cb) r (read_group (br r) cb).
Proof. intros H. unfold read_group_io, read_group. sim. Qed.
#[export] Hint Resolve Sim_read_group : simlaw.

Lemma Sim_read_groups : forall n cb acc r, fail_at r = None ->
  Sim (fun a b => (a, b)) (read_groups_io n cb acc) r (read_groups n (br r) cb acc).
Proof. induction n as [|n IH]; intros; cbn [read_groups_io read_groups]; sim. Qed.
#[export] Hint Resolve Sim_read_groups : simlaw.

Lemma Sim_decode_image_stream : forall lvl xs ys argb data r, fail_at r = None ->
  Sim (fun a b => (b, a)) (decode_image_stream_io lvl xs ys argb data) r (decode_image_stream lvl (br r) xs ys argb data).
Proof. induction lvl as [|lvl IH]; intros; cbn [decode_image_stream_io decode_image_stream]; sim. Qed.
#[export] Hint Resolve Sim_decode_image_stream : simlaw.

Lemma Sim_read_transforms_loop : forall fuel d xs r, fail_at r = None ->
  Sim (fun p b => (fst p, b, snd p)) (read_transforms_loop_io fuel d xs) r (read_transforms_loop fuel (br r) d xs).
Proof. induction fuel as [|fuel IH]; intros; cbn [read_transforms_loop_io read_transforms_loop]; sim. Qed.
#[export] Hint Resolve Sim_read_transforms_loop : simlaw.

Lemma Sim_read_transforms d r : fail_at r = None ->
  Sim (fun p b => (fst p, b, snd p)) (read_transforms_io d) r (read_transforms (br r) d).
Proof. intros H. unfold read_transforms_io, read_transforms. sim. Qed.
#[export] Hint Resolve Sim_read_transforms : simlaw.

Theorem Sim_decode_frame data sched w h implicit buf :
  Sim (fun a (_ : BitReader.t) => a) (decode_frame_m w h implicit buf) (init_io data sched None)
      (decode_frame_arr data sched w h implicit buf).
Proof.
  unfold decode_frame_arr.
  change (BitReader.init data sched) with (br (init_io data sched None)).
  assert (H : fail_at (init_io data sched None) = None) by reflexivity.
  generalize dependent (init_io data sched None). intros r H.
  unfold decode_frame_m. cbv zeta. sim.
Qed.
