(* Proofs/VP8_recon_mb.v -- (i): Vp8Decoder::intra_predict_luma / intra_predict_chroma of one macroblock (Model/Vp8Recon.v)
   = the luma / chroma part of Spec.VP8.recon_mb on the reference planes, and the invariants of the decoder state
   (planes, top_border, left_border) are re-established for the next macroblock. *)
From Coq Require Import ZArith NArith List Bool Lia.
From WebP Require Import Lib.Res Lib.ZBits Lib.Arr Gen.Tables Spec.VP8Tables Spec.VP8 Model.Vp8Predict Model.Vp8Recon
  Proofs.VP8_predict_base Proofs.VP8_predict_sub Proofs.VP8_predict_border Proofs.VP8_predict
  Proofs.VP8_recon_base Proofs.VP8_recon_plane Proofs.VP8_recon_bytes Proofs.VP8_recon_luma Proofs.VP8_recon_big.
From WebP Require Model.Vp8Parse.
Import ListNotations.
Open Scope Z_scope.
Ltac Zify.zify_post_hook ::= Z.div_mod_to_equations.

(* ------------------------------------------------------------------------------------------------------------ *)
(* 0. parse results: the decoder's MacroBlock + 384 residuals against the reference's mbmode + mbres             *)
(* ------------------------------------------------------------------------------------------------------------ *)
(* mode numbers: the crate's (bitstream) numbering = bmode_to_rfc / ymode_to_rfc of the reference's (libwebp) numbering *)
Definition mb_rel (mb : Vp8Parse.MacroBlock) (m : mbmode) : Prop :=
  (if m_i4 m
   then Vp8Parse.mb_luma_mode mb = vp8_B_PRED /\ length (m_imodes m) = 16%nat /\
        Forall (fun x => 0 <= x <= 9) (m_imodes m) /\ Vp8Parse.mb_bpred mb = map bmode_to_rfc (m_imodes m)
   else 0 <= m_ymode m <= 3 /\ Vp8Parse.mb_luma_mode mb = ymode_to_rfc (m_ymode m)) /\
  0 <= m_uvmode m <= 3 /\ Vp8Parse.mb_chroma_mode mb = ymode_to_rfc (m_uvmode m).

(* the 384 residuals are the inverse DCT of the reference's 24 coefficient blocks (what read_residual_data returns, by
   VP8_parse_residual.read_residual_data_*_refines); no residual is within 255 of i32::MAX *)
Definition res_rel (blocks : list Z) (r : mbres) : Prop :=
  length (r_y r) = 16%nat /\ length (r_u r) = 4%nat /\ length (r_v r) = 4%nat /\
  blocks = concat (map (fun b => fst (idct b)) (r_y r ++ r_u r ++ r_v r)) /\
  Forall (fun b => res_ok (fst (idct b))) (r_y r ++ r_u r ++ r_v r).

Lemma len_concat16 (l : list (list Z)) : Forall (fun b => length b = 16%nat) l -> len (concat l) = 16 * Z.of_nat (length l).
Proof.
  induction 1 as [|b l Hb Hl IH]; [reflexivity|]. cbn [concat length]. unfold len in *. rewrite app_length. lia.
Qed.

Lemma sub_concat16 (l : list (list Z)) : Forall (fun b => length b = 16%nat) l ->
  forall i, (i < length l)%nat -> sub (concat l) (Z.of_nat i * 16) 16 = nth i l [].
Proof.
  induction 1 as [|b l Hb Hl IH]; intros i Hi; [cbn [length] in Hi; lia|].
  destruct i as [|i]; cbn [concat nth].
  - unfold sub. replace (Z.to_nat (Z.of_nat 0 * 16)) with 0%nat by lia. replace (Z.to_nat 16) with (length b) by lia.
    cbn [skipn]. rewrite firstn_app, firstn_all, Nat.sub_diag. cbn [firstn]. apply app_nil_r.
  - unfold sub in *. cbn [length] in Hi. specialize (IH i ltac:(lia)).
    replace (Z.to_nat (Z.of_nat (S i) * 16)) with (length b + Z.to_nat (Z.of_nat i * 16))%nat by lia.
    rewrite skipn_app.
    replace (length b + Z.to_nat (Z.of_nat i * 16) - length b)%nat with (Z.to_nat (Z.of_nat i * 16)) by lia.
    rewrite (skipn_all2 b) by lia. cbn [app]. exact IH.
Qed.

Lemma res_rel_facts blocks r : res_rel blocks r ->
  len blocks = 384 /\
  (forall t, (t < 16)%nat -> sub blocks (0 + (0 + Z.of_nat t) * 16) 16 = fst (idct (nth t (r_y r) [])) /\ res_ok (fst (idct (nth t (r_y r) [])))) /\
  (forall t, (t < 4)%nat -> sub blocks (16 * 16 + (0 + Z.of_nat t) * 16) 16 = fst (idct (nth t (r_u r) [])) /\ res_ok (fst (idct (nth t (r_u r) [])))) /\
  (forall t, (t < 4)%nat -> sub blocks (20 * 16 + (0 + Z.of_nat t) * 16) 16 = fst (idct (nth t (r_v r) [])) /\ res_ok (fst (idct (nth t (r_v r) [])))).
Proof.
  intros (Ly & Lu & Lv & -> & Hok).
  set (all := r_y r ++ r_u r ++ r_v r) in *.
  assert (Lall : length all = 24%nat) by (unfold all; rewrite !app_length; lia).
  assert (H16 : Forall (fun b => length b = 16%nat) (map (fun b => fst (idct b)) all)).
  { apply Forall_forall. intros x Hx. apply in_map_iff in Hx. destruct Hx as (b & <- & _). apply idct_length. }
  assert (Hnth : forall i, (i < 24)%nat -> sub (concat (map (fun b => fst (idct b)) all)) (Z.of_nat i * 16) 16 = fst (idct (nth i all [])) /\
                                            res_ok (fst (idct (nth i all [])))).
  { intros i Hi. split.
    - rewrite sub_concat16 by (try exact H16; rewrite map_length; lia).
      rewrite (nth_indep _ [] (fst (idct []))) by (rewrite map_length; lia).
      apply (map_nth (fun b => fst (idct b))).
    - rewrite Forall_forall in Hok. apply Hok. apply nth_In. lia. }
  split; [rewrite len_concat16 by exact H16; rewrite map_length; lia|].
  split; [|split]; intros t Ht.
  - destruct (Hnth t ltac:(lia)) as [E1 E2]. unfold all in E1, E2. rewrite app_nth1 in E1, E2 by lia.
    replace (0 + (0 + Z.of_nat t) * 16) with (Z.of_nat t * 16) by lia. split; assumption.
  - destruct (Hnth (16 + t)%nat ltac:(lia)) as [E1 E2]. unfold all in E1, E2.
    rewrite app_nth2 in E1, E2 by lia. rewrite app_nth1 in E1, E2 by lia.
    replace (16 + t - length (r_y r))%nat with t in E1, E2 by lia.
    replace (16 * 16 + (0 + Z.of_nat t) * 16) with (Z.of_nat (16 + t) * 16) by lia. split; assumption.
  - destruct (Hnth (20 + t)%nat ltac:(lia)) as [E1 E2]. unfold all in E1, E2.
    rewrite app_nth2 in E1, E2 by lia. rewrite app_nth2 in E1, E2 by lia.
    replace (20 + t - length (r_y r) - length (r_u r))%nat with t in E1, E2 by lia.
    replace (20 * 16 + (0 + Z.of_nat t) * 16) with (Z.of_nat (20 + t) * 16) by lia. split; assumption.
Qed.

(* ------------------------------------------------------------------------------------------------------------ *)
(* 1. the decoder state between macroblocks                                                                     *)
(* ------------------------------------------------------------------------------------------------------------ *)
(* top_border when macroblock (mx, my) is reached: columns of the macroblocks still to come in this row hold the last
   row of the macroblock row above (127 for the first row = pget's value above the frame), the columns already done
   hold the last row of this macroblock row *)
Definition top_inv (p : plane) (mbw mx my : Z) (top : list Z) : Prop :=
  16 * mbw <= len top /\ bytes top /\
  (forall x, 16 * mx <= x < 16 * mbw -> get top x = pget p x (16 * my - 1)) /\
  (forall x, 0 <= x < 16 * mx -> get top x = pget p x (16 * my + 15)).
Definition left_inv (p : plane) (mx my : Z) (left : list Z) : Prop :=
  len left = 17 /\ bytes left /\ left_holds p mx my left.

Lemma top_inv_holds p mbw mx my top : 0 <= mx < mbw -> top_inv p mbw mx my top -> top_holds p mbw mx my top.
Proof.
  intros Hmx (Hl & _ & Hr & _) Hmy. split; [lia|]. split.
  - intros i Hi. rewrite Hr by lia. f_equal. lia.
  - intros Hn. split; [lia|]. intros i Hi. rewrite Hr by lia. f_equal. lia.
Qed.

(* the bordered workspace at the end of the prediction: every cell of rows 0..size, columns 0..size holds the sample
   of the (new) reference plane *)
Definition ws_final (s size X0 Y0 : Z) (p : plane) (ws : list Z) : Prop :=
  forall c r, 0 <= c <= size -> 0 <= r <= size -> get ws (r * s + c) = pget p (X0 + c - 1) (Y0 + r - 1).

Lemma copy_block_ok dst dpos src spos n : 0 <= dpos -> 0 <= n -> dpos + n <= len dst -> 0 <= spos -> spos + n <= len src ->
  copy_block dst dpos src spos n = Ok (fillf (Z.to_nat n) dst dpos 0 (fun k => get src (spos + k))).
Proof.
  intros. unfold copy_block.
  replace ((len dst <? dpos) || (len dst - dpos <? n)) with false by (symmetry; apply orb_false_iff; split; apply Z.ltb_ge; lia).
  replace ((len src <? spos) || (len src - spos <? n)) with false by (symmetry; apply orb_false_iff; split; apply Z.ltb_ge; lia).
  apply copyf_ok; lia.
Qed.

(* write-back into a plane: from ws_final and "p' = p outside the block" *)
Lemma write_back_prel (size : nat) (s mbw mbh mx my : Z) (p p' : plane) (ws : list Z) (a : arr) :
  let n := Z.of_nat size in
  0 <= mx < mbw -> 0 <= my < mbh -> 0 < n ->
  prel p a (mbw * n) (mbh * n) ->
  ws_final s n (mx * n) (my * n) p' ws ->
  p_w p' = p_w p -> alen (p_a p') = alen (p_a p) ->
  (forall x' y', x' < p_w p -> ~ (mx * n <= x' < mx * n + n /\ my * n <= y' < my * n + n) -> pget p' x' y' = pget p x' y') ->
  0 < s -> (1 + n) * s <= len ws -> 1 + n <= s ->
  exists a',
    for_range size 0 (fun y b => copy_block_arr b ((my * n + y) * (mbw * n) + mx * n) ws ((1 + y) * s + 1) n) a = Ok a' /\
    prel p' a' (mbw * n) (mbh * n).
Proof.
  intros n Hmx Hmy Hn (Hw & Hlen & Hal & Hcells) Hfin Hw' Hal' Hout Hs Hws Hns.
  destruct (write_back_spec size s (mbw * n) (mbh * n) (mx * n) (my * n) ws a) as (a' & E & L & Hc); fold n; try assumption; try nia.
  fold n in Hc.
  exists a'. split; [exact E|].
  split; [congruence|]. split; [unfold alenZ in *; rewrite L; exact Hlen|]. split; [congruence|].
  intros x y Hx Hy. rewrite Hc by lia.
  destruct (Z.leb_spec (mx * n) x); destruct (Z.ltb_spec x (mx * n + n)); destruct (Z.leb_spec (my * n) y);
    destruct (Z.ltb_spec y (my * n + n)); cbn [andb];
    try (rewrite Hcells by lia; symmetry; apply Hout; lia).
  replace ((1 + (y - my * n)) * s + 1 + (x - mx * n)) with ((1 + (y - my * n)) * s + (1 + (x - mx * n))) by lia.
  rewrite (Hfin (1 + (x - mx * n)) (1 + (y - my * n))) by lia. f_equal; lia.
Qed.

(* ------------------------------------------------------------------------------------------------------------ *)
(* 2. luma                                                                                                      *)
(* ------------------------------------------------------------------------------------------------------------ *)
(* the luma plane Spec.VP8.recon_mb produces *)
Definition luma_ref (mbw : Z) (p : plane) (mx my : Z) (m : mbmode) (r : mbres) : plane :=
  fst (if m_i4 m then recon_subs mbw p mx my (m_imodes m) (r_y r) 0 true
       else recon_blocks p (16 * mx) (16 * my) 4 (pred_big p 16 4 mx my (m_ymode m)) (r_y r) 0 true).

Lemma luma_not_b m : 0 <= m <= 3 -> (ymode_to_rfc m =? vp8_B_PRED) = false.
Proof. intros H. assert (E : m = 0 \/ m = 1 \/ m = 2 \/ m = 3) by lia. destruct E as [-> | [-> | [-> | ->]]]; reflexivity. Qed.

Lemma get_map_bmode l i : get (map bmode_to_rfc l) i = bmode_to_rfc (nth (Z.to_nat i) l 0).
Proof. unfold get. change 0 with (bmode_to_rfc 0) at 1. apply map_nth. Qed.

(* everything after the prediction: left_border, top_border, write-back into ybuf *)
Definition luma_tail (mbw mx my : Z) (ws : list Z) (ybuf : arr) (top left : list Z) : res (arr * list Z * list Z) :=
  bind (rd ws 16) (fun v =>
  bind (wr left 0 v) (fun left_border =>
  bind (if (len left_border <? 1) || (len left_border - 1 <? 16) then Panic PSlice
        else copyf 16 left_border 1 0 (fun i => get ws ((i + 1) * 21 + 16))) (fun left_border =>
  bind (copy_block top (mx * 16) ws (16 * 21 + 1) 16) (fun top_border =>
  bind (for_range 16 0 (fun y b => copy_block_arr b ((my * 16 + y) * (mbw * 16) + mx * 16) ws ((1 + y) * 21 + 1) 16) ybuf) (fun ybuf =>
  Ok (ybuf, top_border, left_border)))))).

Lemma luma_tail_spec p p' mbw mbh mx my ws ybuf top left :
  0 <= mx < mbw -> 0 <= my < mbh ->
  prel p ybuf (mbw * 16) (mbh * 16) -> top_inv p mbw mx my top -> left_inv p mx my left ->
  len ws = 357 -> bytes ws -> ws_final 21 16 (16 * mx) (16 * my) p' ws ->
  p_w p' = p_w p -> alen (p_a p') = alen (p_a p) ->
  (forall x' y', x' < p_w p -> ~ (16 * mx <= x' < 16 * mx + 16 /\ 16 * my <= y' < 16 * my + 16) -> pget p' x' y' = pget p x' y') ->
  exists ybuf' top' left',
    luma_tail mbw mx my ws ybuf top left = Ok (ybuf', top', left') /\
    prel p' ybuf' (mbw * 16) (mbh * 16) /\ top_inv p' mbw (mx + 1) my top' /\ left_inv p' (mx + 1) my left'.
Proof.
  intros Hmx Hmy Hprel (Lt & Hbt & Htr & Htl) (Ll & Hbl & Hlh) Lws Hbws Hfin Hw' Hal' Hout.
  assert (Hw : p_w p = mbw * 16) by (destruct Hprel as (? & _); assumption).
  unfold luma_tail.
  rewrite rd_ok by lia. cbn [bind]. rewrite wr_ok by lia. cbn [bind].
  rewrite len_set. rewrite Ll. change ((17 <? 1) || (17 - 1 <? 16)) with false. cbv iota.
  rewrite copyf_ok by (rewrite ?len_set; lia). cbn [bind].
  rewrite copy_block_ok by lia. cbn [bind]. change (Z.to_nat 16) with 16%nat.
  destruct (write_back_prel 16 21 mbw mbh mx my p p' ws ybuf) as (ybuf' & E & Hprel'); try assumption; try lia.
  { intros c r Hc Hr. change (Z.of_nat 16) with 16 in *. replace (mx * 16) with (16 * mx) by lia. replace (my * 16) with (16 * my) by lia.
    apply Hfin; assumption. }
  { intros x' y' Hx' Hno. apply Hout; [exact Hx'|]. change (Z.of_nat 16) with 16 in Hno. lia. }
  change (Z.of_nat 16) with 16 in E, Hprel'. rewrite E. cbn [bind].
  eexists. eexists. eexists. split; [reflexivity|]. split; [exact Hprel'|]. split.
  - (* top_border *)
    split; [rewrite len_fillf; exact Lt|]. split.
    + intros i Hi. rewrite len_fillf in Hi. rewrite get_fillf by lia.
      destruct ((mx * 16 + 0 <=? i) && (i <? mx * 16 + 0 + Z.of_nat 16)); [apply get_byte; exact Hbws | apply Hbt; exact Hi].
    + split.
      * intros x Hx. rewrite get_fillf by lia.
        rewrite (ltb_false x (mx * 16 + 0 + Z.of_nat 16)) by lia. rewrite andb_false_r.
        rewrite Htr by lia. symmetry. apply Hout; lia.
      * intros x Hx. rewrite get_fillf by lia.
        destruct (Z.leb_spec (mx * 16 + 0) x) as [H1|H1]; [rewrite (ltb_true x (mx * 16 + 0 + Z.of_nat 16)) by lia|]; cbn [andb].
        -- replace (16 * 21 + 1 + (x - mx * 16)) with (16 * 21 + (x - mx * 16 + 1)) by lia.
           rewrite (Hfin (x - mx * 16 + 1) 16) by lia. f_equal; lia.
        -- rewrite Htl by lia. symmetry. apply Hout; lia.
  - (* left_border *)
    split; [rewrite len_fillf, len_set; exact Ll|]. split.
    + intros i Hi. rewrite len_fillf, len_set in Hi. rewrite get_fillf by (rewrite ?len_set; lia).
      destruct ((1 + 0 <=? i) && (i <? 1 + 0 + Z.of_nat 16)); [apply get_byte; exact Hbws|].
      apply bytes_set; [exact Hbl | apply get_byte; exact Hbws | rewrite len_set; exact Hi].
    + intros _. split; [rewrite len_fillf, len_set; lia|]. split.
      * intros j Hj. rewrite get_fillf by (rewrite ?len_set; lia).
        rewrite (leb_true (1 + 0) (1 + j)), (ltb_true (1 + j) (1 + 0 + Z.of_nat 16)) by lia. cbn [andb].
        replace ((1 + j - 1 + 1) * 21 + 16) with ((1 + j) * 21 + 16) by lia.
        rewrite (Hfin 16 (1 + j)) by lia. f_equal; lia.
      * intros _. rewrite get_fillf by (rewrite ?len_set; lia).
        rewrite (leb_false (1 + 0) 0) by lia. cbn [andb].
        rewrite get_set by lia. rewrite Z.eqb_refl.
        change (get ws 16) with (get ws (0 * 21 + 16)). rewrite (Hfin 16 0) by lia. f_equal; lia.
Qed.

Theorem intra_predict_luma_refines p mbw mbh mx my mb m r blocks ybuf top left :
  0 <= mx < mbw -> 0 <= my < mbh ->
  prel p ybuf (mbw * 16) (mbh * 16) -> pbytes p -> top_inv p mbw mx my top -> left_inv p mx my left ->
  mb_rel mb m -> res_rel blocks r ->
  let p' := luma_ref mbw p mx my m r in
  exists ybuf' top' left',
    Vp8Recon.intra_predict_luma mbw mx my mb blocks ybuf top left = Ok (ybuf', top', left') /\
    prel p' ybuf' (mbw * 16) (mbh * 16) /\ pbytes p' /\ top_inv p' mbw (mx + 1) my top' /\ left_inv p' (mx + 1) my left'.
Proof.
  intros Hmx Hmy Hprel Hpb Htop Hleft Hrel Hres p'.
  assert (Hw : p_w p = 16 * mbw) by (destruct Hprel as (E & _); lia).
  assert (Hmy0 : 0 <= my) by lia.
  destruct (create_border_luma_spec p mbw mx my top left Hmx Hmy0 (top_inv_holds p mbw mx my top Hmx Htop) (proj2 (proj2 Hleft)))
    as (ws0 & E0 & Hbord).
  assert (Hb0 : bytes ws0).
  { eapply create_border_luma_bytes; [| |exact E0]; [destruct Htop as (_ & H & _); exact H | destruct Hleft as (_ & H & _); exact H]. }
  destruct (res_rel_facts blocks r Hres) as (Lb & Hy & _).
  destruct Hres as (Lry & _).
  (* the workspace after prediction and residue, and the new reference plane *)
  assert (Hstage : exists ws',
    bind (if Vp8Parse.mb_luma_mode mb =? vp8_B_PRED then predict_4x4 ws0 21 (Vp8Parse.mb_bpred mb) blocks
          else predict_big (Vp8Parse.mb_luma_mode mb) ws0 16 21 mx my)
         (fun ws => if Vp8Parse.mb_luma_mode mb =? vp8_B_PRED then Ok ws else residue_blocks 16 0 4 0 ws 21 blocks) = Ok ws' /\
    len ws' = 357 /\ bytes ws' /\ ws_final 21 16 (16 * mx) (16 * my) p' ws' /\
    p_w p' = p_w p /\ alen (p_a p') = alen (p_a p) /\ pbytes p' /\
    (forall x' y', x' < p_w p -> ~ (16 * mx <= x' < 16 * mx + 16 /\ 16 * my <= y' < 16 * my + 16) -> pget p' x' y' = pget p x' y')).
  { destruct Hrel as (Hlum & _). unfold p', luma_ref. destruct (m_i4 m) eqn:Ei4.
    - destruct Hlum as (El & Lim & Him & Ebp). rewrite El, Z.eqb_refl. rewrite Ebp.
      destruct (predict_4x4_loop mbw mx my Hmx Hmy0 (map bmode_to_rfc (m_imodes m)) blocks
                  ltac:(unfold len; rewrite map_length, Lim; reflexivity) ltac:(lia)
                  16%nat 0 ws0 p (m_imodes m) (r_y r) true) as (ws' & E & Hinv); try assumption; try lia.
      + intros t Ht. rewrite get_map_bmode. replace (Z.to_nat (0 + Z.of_nat t)) with t by lia. split; [reflexivity|].
        rewrite Forall_forall in Him. apply Him. apply nth_In. lia.
      + intros t Ht. replace ((0 + Z.of_nat t) * 16) with (0 + (0 + Z.of_nat t) * 16) by lia. apply (Hy t Ht).
      + intros t Ht. apply (Hy t Ht).
      + apply ws_inv_start; assumption.
      + exists ws'. unfold predict_4x4. rewrite E. cbn [bind].
        destruct Hinv as (L' & B' & C' & _).
        destruct (recon_subs_frame mbw mx my Hmx Hmy0 (m_imodes m) (r_y r) 0 p true Hw ltac:(lia) ltac:(rewrite Lim; lia)) as (W & A & PB & O).
        cbv zeta in W, A, PB, O.
        split; [reflexivity|]. split; [exact L'|]. split; [exact B'|]. split.
        * intros c r0 Hc Hr0. apply (C' c r0 Hc Hr0).
          destruct (Z.eq_dec c 0); [left; assumption|]. destruct (Z.eq_dec r0 0); [right; left; assumption|].
          right; right. unfold blk. lia.
        * split; [exact W|]. split; [exact A|]. split; [apply PB; exact Hpb|]. exact O.
    - destruct Hlum as (Hym & El). rewrite El, luma_not_b by exact Hym.
      pose proof (luma_predict_big_spec p mbw mx my ws0 (proj1 Hmx) Hmy0 Hbord (m_ymode m) Hym Hb0) as Hbig.
      destruct Hbig as (ws1 & E1 & Hbig1). rewrite E1. cbn [bind].
      assert (Hb1 : bytes ws1) by (eapply predict_big_bytes; eassumption).
      assert (Hgeo : (4 = 4 /\ 21 = 21 /\ 16 = 16) \/ (4 = 2 /\ 21 = 9 /\ 16 = 8)) by (left; repeat split).
      assert (Hinv0 : big_inv 4 21 16 (16 * mx) (16 * my) (pred_big p 16 4 mx my (m_ymode m)) 0 p ws1).
      { apply (big_inv_start 4 21 16 mx my (16 * mx) (16 * my) (pred_big p 16 4 mx my (m_ymode m)) Hgeo eq_refl eq_refl p ws0 ws1
                 (predict_big (ymode_to_rfc (m_ymode m)) ws0 16 21 mx my)).
        - intros c r0 Hc Hr0 Hd. destruct (ws_inv_start mbw mx my p ws0 Hbord Hb0) as (_ & _ & C0 & _).
          apply (C0 c r0 Hc Hr0). destruct Hd; [left|right; left]; assumption.
        - exists ws1. split; [exact E1|]. exact Hbig1.
        - exact E1.
        - exact Hb1. }
      destruct (residue_loop 4 21 16 mbw mx my (16 * mx) (16 * my) (pred_big p 16 4 mx my (m_ymode m)) Hgeo Hmx Hmy0 eq_refl eq_refl blocks 0 ltac:(lia) ltac:(lia)
                  16%nat 0 ws1 p (r_y r) true) as (ws' & E & Hinv); try assumption; try lia.
      + intros t Ht. apply (Hy t Ht).
      + intros t Ht. apply (Hy t Ht).
      + exists ws'. split; [exact E|].
        destruct Hinv as (L' & B' & C' & _).
        destruct (recon_blocks_frame 4 21 16 mbw mx my (16 * mx) (16 * my) (pred_big p 16 4 mx my (m_ymode m)) Hgeo Hmx Hmy0 eq_refl eq_refl
                    (r_y r) 0 p true ltac:(lia) ltac:(lia) ltac:(rewrite Lry; lia)) as (W & A & PB & O).
        cbv zeta in W, A, PB, O.
        split; [exact L'|]. split; [exact B'|]. split.
        * intros c r0 Hc Hr0. apply (C' c r0 Hc Hr0).
          destruct (Z.eq_dec c 0); [left; assumption|]. destruct (Z.eq_dec r0 0); [right; left; assumption|].
          right; right. unfold bblk. lia.
        * split; [exact W|]. split; [exact A|]. split; [apply PB; exact Hpb|]. exact O. }
  destruct Hstage as (ws' & Est & L' & B' & Hfin & W & A & PB & O).
  destruct (luma_tail_spec p p' mbw mbh mx my ws' ybuf top left Hmx Hmy Hprel Htop Hleft L' B' Hfin W A O) as (ybuf' & top' & left' & Et & R1 & R2 & R3).
  exists ybuf', top', left'. split; [|split; [exact R1|split; [exact PB|split; [exact R2|exact R3]]]].
  unfold Vp8Recon.intra_predict_luma. cbv zeta. change luma_stride with 21.
  rewrite E0. cbn [bind].
  destruct (if Vp8Parse.mb_luma_mode mb =? vp8_B_PRED then predict_4x4 ws0 21 (Vp8Parse.mb_bpred mb) blocks
            else predict_big (Vp8Parse.mb_luma_mode mb) ws0 16 21 mx my) as [wsa| | |]; cbn [bind] in Est |- *; try discriminate Est.
  rewrite Est. cbn [bind]. exact Et.
Qed.
