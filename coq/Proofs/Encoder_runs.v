(* C04 layer 2 (part): the run-length token the encoder emits for a run of 1..4096 pixels (count_run / write_run with
   the translated kernel Gen.Kernels.length_to_symbol) is read back by the specification's LZ77 prefix decoding to the
   same length; the kernel raises no overflow on that range; the prefix code fits the 24 length codes of the
   280-symbol alphabet and the extra bits fit the field written.  Finite sweep over 1..4096 by vm_compute. *)
From Coq Require Import ZArith List Bool Lia.
From WebP Require Import Lib.Sweep Gen.Kernels Spec.LZ77Prefix.
Import ListNotations.
Open Scope Z_scope.

(* what write_run puts on the wire for a run of `run` equal pixels: (prefix code, number of extra bits, extra value) *)
Definition run_token (run : Z) : Z * Z * Z :=
  if run <=? 4 then (run - 1, 0, 0)
  else let '(symbol, extra_bits) := length_to_symbol (wrapU 16 run) in
       (symbol, extra_bits, Z.land (run - 1) (2 ^ extra_bits - 1)).

Definition run_token_ok (run : Z) : bool :=
  let '(p, e, x) := run_token run in
  (0 <=? p) && (p <? 24)                         (* one of the 24 length prefix codes: symbol 256 + p < 280 *)
  && (e =? prefix_extra_bits p)                  (* the decoder reads as many extra bits as were written *)
  && (0 <=? x) && (x <? 2 ^ e) && (e <=? 10)
  && (prefix_value p x =? run)                   (* and reconstructs the run length *)
  && ((run <=? 4) || length_to_symbol_ok (wrapU 16 run)).   (* no checked arithmetic fails in the kernel *)

Lemma run_token_sweep : forallb run_token_ok (zrange 4096 1) = true.
Proof. vm_compute. reflexivity. Qed.

Theorem run_token_roundtrip : forall run, 1 <= run <= 4096 ->
  let '(p, e, x) := run_token run in
  0 <= p < 24 /\ e = prefix_extra_bits p /\ 0 <= x < 2 ^ e /\ e <= 10 /\ prefix_value p x = run
  /\ (4 < run -> length_to_symbol_ok (wrapU 16 run) = true).
Proof.
  intros run Hr. pose proof (forallb_zrange _ _ _ run_token_sweep run ltac:(lia)) as H.
  unfold run_token_ok in H. destruct (run_token run) as [[p e] x].
  repeat (apply andb_prop in H; let H' := fresh "H" in destruct H as [H H']).
  rewrite ?Z.leb_le, ?Z.ltb_lt, ?Z.eqb_eq in *.
  repeat split; try lia; try assumption.
  intros Hgt. apply orb_prop in H0. destruct H0 as [H0 | H0]; [apply Z.leb_le in H0; lia | exact H0].
Qed.

(* the encoder never asks for a longer run: count_run / write_run stop at 4096 *)
Example run_token_4096 : run_token 4096 = (23, 10, 1023).
Proof. vm_compute. reflexivity. Qed.
Example run_token_5 : run_token 5 = (4, 1, 0).
Proof. vm_compute. reflexivity. Qed.
