(* C04 at the level of WebPEncoder::encode (Model.Encoder.encode): encoding succeeds and writes the container file
   prescribed by Spec.WebPFile around a VP8L payload that the lossless specification decodes to the input pixels. *)
From Coq Require Import ZArith List Bool Lia.
From WebP Require Import Lib.Res Gen.Kernels Model.EncoderHeap Model.Encoder Spec.WebPFile
  Proofs.Huffman_lists Proofs.Huffman_ok Proofs.Encoder_container Proofs.C04_bits Proofs.C04_frame.
From WebP Require Spec.VP8L.
Import ListNotations.
Open Scope Z_scope.

Theorem encode_file_roundtrip : forall sorter data w h ct (p : bool) icc exif xmp,
  sorter_ok sorter -> 1 <= w <= 16384 -> 1 <= h <= 16384 ->
  zlen data = w * h * bytes_per_pixel ct -> Forall (fun x => 0 <= x < 256) data ->
  flen icc + flen exif + flen xmp <= 1000000000 ->
  exists frame s, run_encode sorter (-1) data w h ct p icc exif xmp = (s, Ok tt)
    /\ sink_bytes s = lossless_file (is_alpha ct) w h frame icc exif xmp
    /\ V.decode_rgba frame = Some (w, h, expand ct data).
Proof.
  intros sorter data w h ct p icc exif xmp Hsort Hw Hh Hlen Hb Hmeta.
  destruct (encode_roundtrip sorter data w h ct p Hsort Hw Hh Hlen Hb) as [fs [E [D Hsz]]].
  destruct (encode_layout sorter data w h ct p icc exif xmp fs Hw Hh E) as [s [Es Hs]].
  { unfold flen in *. unfold zlen in Hsz. change (2 ^ 32) with 4294967296. nia. }
  exists (sink_bytes fs), s. split; [exact Es|]. split; [exact Hs | exact D].
Qed.
