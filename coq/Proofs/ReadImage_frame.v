(* Glue of read_frame, part 9 -- the three payload branches (C06 link: "frames given decoded").
   frame_body_vp8l / _vp8 / _alph_vp8: where the file holds a serialised ANMF chunk (Spec.Container.frame: header fields, then 'VP8L', or
   'VP8 ', or 'ALPH' + 'VP8 ', then unknown chunks) whose frame rectangle lies inside the canvas, frame_body (read_frame behind the ANMF header) returns the
   frame exactly as Model.Anim takes its frames: the ANMF fields as stored, the has-alpha flag of the payload kind, and the decoded
   bytes  -- Spec.VP8L's pixels / Spec.YUV.rgb_plane of the key frame's planes / those colours interleaved with the container
   specification's alpha plane -- of length width * height * (4 or 3), plus anmf_size, so that the next frame is looked for right
   after this one.  Proofs/ReadImage_anim.v locates the frames in the file and composes with Proofs/Anim_*.v. *)
From Coq Require Import ZArith List Bool Lia Arith.
From WebP Require Import Lib.Res Lib.ZBits Spec.Container Spec.YUV Model.Yuv Model.Still.
From WebP Require Import Proofs.Container_bytes Proofs.Container_scan Proofs.C13_yuv Proofs.ReadImage_base Proofs.ReadImage_lossy.
From WebP Require Proofs.C01_top Proofs.ReadImage_vp8l Model.Anim Proofs.Anim_play.
From WebP Require Import Model.ReadImage.
Import ListNotations.
Open Scope Z_scope.

Ltac Zify.zify_post_hook ::= Z.div_mod_to_equations.

(* the frame as Model.Anim takes it *)
Definition mframe_of (f : frame) (has_alpha : bool) (data : list Z) : Anim.mframe :=
  {| Anim.mf_xh := f_x f; Anim.mf_yh := f_y f; Anim.mf_wm1 := f_w1 f; Anim.mf_hm1 := f_h1 f;
     Anim.mf_duration := f_duration f; Anim.mf_flags := frame_flags f;
     Anim.mf_has_alpha := has_alpha; Anim.mf_data := data |}.

(* the file holds the serialised frame [f] at offset [pos]; the frame lies inside the canvas of [dec] *)
Definition frame_at (dec : M.decoder) (pos : Z) (f : frame) : Prop :=
  at_pos (M.d_data dec) pos (ser_chunk cc_ANMF (frame_payload f)) /\ frame_ok f = true
  /\ 32 <= len (frame_payload f) <= 4294967294
  /\ f_w1 f + 1 <= 16384 /\ f_h1 f + 1 <= 16384
  /\ 2 * f_x f + (f_w1 f + 1) <= M.d_width dec /\ 2 * f_y f + (f_h1 f + 1) <= M.d_height dec
  /\ len (M.d_data dec) <= 9223372036854775807.

Lemma alpha_loop_weave ac fw fh rgb al0 :
  1 <= fw -> 1 <= fh -> length (ac_data ac) = Z.to_nat (fw * fh) ->
  length rgb = (3 * Z.to_nat (fw * fh))%nat -> length al0 = Z.to_nat (fw * fh) ->
  alpha_loop ac fw fh (SS.weave rgb al0) = Ok (SS.weave rgb (Spec.Alpha.unfilter (ac_filter ac) (Z.to_nat fw) (ac_data ac))).
Proof.
  intros Hw Hh Ld Lr La. unfold alpha_loop. cbv zeta. rewrite len_M. unfold len. rewrite Ld.
  destruct (fw * fh <=? Z.of_nat (Z.to_nat (fw * fh))) eqn:E; [| apply Z.leb_gt in E; lia].
  replace (firstn (Z.to_nat (fw * fh)) (ac_data ac)) with (ac_data ac) by (rewrite <- Ld; symmetry; apply firstn_all).
  apply alpha_over_weave; lia.
Qed.

Section Frame.
Variable vp8 : list Z -> res (Z * Z * list Z * list Z * list Z).

(* ---------------------------------------------------------------------------------------------- *)
(* the ANMF header and the first sub-chunk header                                                   *)
(* ---------------------------------------------------------------------------------------------- *)
Lemma payload_prefix dec pos f : frame_at dec pos f ->
  let d := M.d_data dec in
  let A := len (frame_payload f) in
  let fw := f_w1 f + 1 in let fh := f_h1 f + 1 in
  let sub := first_subchunk (f_image f) in
  let csz := len (snd sub) in let crsz := rounded csz in
  at_pos d (pos + 32) (snd sub) /\ at_pos d (pos + 32 + crsz) (frame_tail f) /\ A = 24 + crsz + len (frame_tail f) /\
  M.read_chunk_header d pos = Ok ((M.KANMF, A, rounded A), pos + 8) /\
  frame_body vp8 dec A (pos + 8) =
  bind (match M.from_fourcc (fst sub) with
        | M.KVP8 => payload_vp8 vp8 (window d (pos + 32) csz) fw fh
        | M.KVP8L => payload_vp8l (window d (pos + 32) csz) fw fh
        | M.KALPH =>
            if A <? crsz + 32 then Err EChunkHeaderInvalid else
            bind (M.add_u64 (pos + 32) crsz) (fun next_chunk_start =>
            bind (read_alpha_chunk (window d (pos + 32) csz) (fw mod 65536) (fh mod 65536)) (fun ac =>
            bind (M.read_chunk_header d next_chunk_start) (fun '((_, next_chunk_size, _), p2) =>
            if A <? csz + next_chunk_size + 32 then Err EChunkHeaderInvalid else
            payload_alph_vp8 vp8 ac (window d p2 next_chunk_size) fw fh)))
        | _ => Err EChunkHeaderInvalid
        end)
       (fun '(frame, ha) => Ok (mframe_of f ha frame, A)).
Proof.
  intros (Hat & Hok & HA & Hfw & Hfh & Hx & Hy & Hlen). cbv zeta.
  unfold frame_ok in Hok. split_andb.
  rewrite <- (app_nil_r (ser_chunk cc_ANMF (frame_payload f))) in Hat.
  destruct (ser_chunk_header _ _ _ _ _ Hat eq_refl) as (Hhdr & Hpay & _).
  rewrite frame_payload_split in Hpay.
  pose proof (at_pos_app_l _ _ _ _ Hpay) as Hhead. unfold frame_head in Hhead.
  pose proof (at_pos_app_l _ _ _ _ Hhead) as Hfx.
  apply at_pos_app_r in Hhead. rewrite len_le24 in Hhead.
  pose proof (at_pos_app_l _ _ _ _ Hhead) as Hfy.
  apply at_pos_app_r in Hhead. rewrite len_le24 in Hhead.
  pose proof (at_pos_app_l _ _ _ _ Hhead) as Hfw1.
  apply at_pos_app_r in Hhead. rewrite len_le24 in Hhead. rename Hhead into Hfh1.
  apply at_pos_app_r in Hpay. rewrite len_frame_head in Hpay.
  pose proof (at_pos_app_l _ _ _ _ Hpay) as Hdf.
  pose proof (at_pos_app_l _ _ _ _ Hdf) as Hdur. apply at_pos_app_r in Hdf. rewrite len_le24 in Hdf.
  apply at_pos_app_r in Hpay. rewrite len_app, len_le24 in Hpay. change (len [frame_flags f]) with 1 in Hpay.
  destruct (ser_chunk_header _ _ _ _ _ Hpay (first_subchunk_cc_len (f_image f))) as (Hsh & Hsp & Htail).
  replace (pos + 8 + 12 + (3 + 1) + 8) with (pos + 32) in * by lia.
  pose proof (len_frame_payload f) as HAeq.
  split; [exact Hsp|]. split; [exact Htail|]. split; [exact HAeq|].
  pose proof (len_nonneg (snd (first_subchunk (f_image f)))) as Hs0. pose proof (len_nonneg (frame_tail f)) as Ht0.
  split; [rewrite (read_chunk_header_at _ _ _ _ Hhdr eq_refl) by lia; reflexivity|].
  unfold frame_body.
  rewrite (read_3_bytes_at _ _ _ Hfx) by lia. cbn [bind]. rewrite add_u32_ok by (unfold M.u32_max; lia). cbn [bind].
  rewrite (read_3_bytes_at _ _ _ Hfy) by lia. cbn [bind]. rewrite add_u32_ok by (unfold M.u32_max; lia). cbn [bind].
  rewrite (read_3_bytes_at _ _ _ Hfw1) by lia. cbn [bind]. rewrite add_u32_ok by (unfold M.u32_max; lia). cbn [bind].
  rewrite (read_3_bytes_at _ _ _ Hfh1) by lia. cbn [bind]. rewrite add_u32_ok by (unfold M.u32_max; lia). cbn [bind].
  destruct (16384 <? f_w1 f + 1) eqn:E1; [apply Z.ltb_lt in E1; lia|].
  destruct (16384 <? f_h1 f + 1) eqn:E2; [apply Z.ltb_lt in E2; lia|]. cbn [orb].
  rewrite add_u32_ok by (unfold M.u32_max; lia). cbn [bind].
  destruct (M.d_width dec <? f_x f + f_x f + (f_w1 f + 1)) eqn:E3; [apply Z.ltb_lt in E3; lia|].
  rewrite add_u32_ok by (unfold M.u32_max; lia). cbn [bind].
  destruct (M.d_height dec <? f_y f + f_y f + (f_h1 f + 1)) eqn:E4; [apply Z.ltb_lt in E4; lia|].
  replace (pos + 8 + 3 + 3 + 3 + 3) with (pos + 8 + 12) by lia.
  rewrite (read_3_bytes_at _ _ _ Hdur) by lia. cbn [bind].
  rewrite (read_u8_at _ _ _ Hdf). cbn [bind].
  replace (pos + 8 + 12 + 3 + 1) with (pos + 8 + 12 + (3 + 1)) by lia.
  rewrite (read_chunk_header_at _ _ _ _ Hsh (first_subchunk_cc_len (f_image f))) by (unfold rounded in HAeq; lia). cbn [bind].
  replace (pos + 8 + 12 + (3 + 1) + 8) with (pos + 32) by lia.
  destruct (len (frame_payload f) <? rounded (len (snd (first_subchunk (f_image f)))) + 24) eqn:E5; [apply Z.ltb_lt in E5; lia|].
  reflexivity.
Qed.

(* ---------------------------------------------------------------------------------------------- *)
(* the three payload kinds                                                                          *)
(* ---------------------------------------------------------------------------------------------- *)
Theorem frame_body_vp8l dec pos f l pixels :
  frame_at dec pos f -> f_image f = FLossless l ->
  V.decode_rgba (vp8l_bytes l) = Some (f_w1 f + 1, f_h1 f + 1, pixels) -> C01_top.codes_in_format (vp8l_bytes l) ->
  (forall s0, V.read_header (V.Stream [] (vp8l_bytes l)) = Some (f_w1 f + 1, f_h1 f + 1, s0) ->
              C01_top.in_format (f_w1 f + 1) (f_h1 f + 1) s0) ->
  frame_body vp8 dec (len (frame_payload f)) (pos + 8) = Ok (mframe_of f true pixels, len (frame_payload f))
  /\ len pixels = (f_w1 f + 1) * (f_h1 f + 1) * 4.
Proof.
  intros Hfa Himg Hdec Hcodes Hfmt. destruct (payload_prefix dec pos f Hfa) as (Hsp & _ & _ & _ & ->).
  destruct Hfa as (_ & Hok & _ & Hfw & Hfh & _). unfold frame_ok in Hok. split_andb.
  rewrite Himg in *. cbn [first_subchunk fst snd] in *. change (M.from_fourcc cc_VP8L) with M.KVP8L. cbv iota.
  rewrite (window_at _ _ _ Hsp).
  match goal with H : image_ok (FLossless l) = true |- _ => cbn [image_ok] in H; pose proof (all_bytes_vp8l l H) as Hb end.
  apply all_bytes_Forall in Hb.
  unfold payload_vp8l. rewrite usz_ok by (unfold M.usize_max, M.u64_max; nia). cbn [bind].
  destruct (ReadImage_vp8l.decode_frame_spec_length (vp8l_bytes l) [] (f_w1 f + 1) (f_h1 f + 1)
              (zeros ((f_w1 f + 1) * (f_h1 f + 1) * 4)) pixels Hb) as [E L]; try assumption; [rewrite zeros_length by nia; lia|].
  rewrite E. cbn [bind]. split; [reflexivity|]. unfold len. rewrite L. unfold zeros. rewrite repeat_length. nia.
Qed.

Theorem frame_body_vp8 dec pos f v yp up vp :
  frame_at dec pos f -> f_image f = FLossy None v ->
  vp8 (vp8_bytes v) = Ok (f_w1 f + 1, f_h1 f + 1, yp, up, vp) -> planes_ok (f_w1 f + 1) (f_h1 f + 1) yp up vp ->
  let rgb := rgb_plane (Z.to_nat (f_w1 f + 1)) (Z.to_nat (f_h1 f + 1)) yp up vp in
  frame_body vp8 dec (len (frame_payload f)) (pos + 8) = Ok (mframe_of f false rgb, len (frame_payload f))
  /\ len rgb = (f_w1 f + 1) * (f_h1 f + 1) * 3.
Proof.
  intros Hfa Himg Hvp8 Hpl. cbv zeta. destruct (payload_prefix dec pos f Hfa) as (Hsp & _ & _ & _ & ->).
  rewrite Himg in *. cbn [first_subchunk fst snd] in *. change (M.from_fourcc cc_VP8) with M.KVP8. cbv iota.
  rewrite (window_at _ _ _ Hsp).
  destruct Hpl as (Rw & Rh & Ly & Lu & Lv & By & Bu & Bv).
  unfold payload_vp8. rewrite Hvp8. cbn [bind]. rewrite !Z.eqb_refl. cbn [negb orb].
  rewrite usz_ok by (unfold M.usize_max, M.u64_max; nia). cbn [bind].
  rewrite (fill_rgb_spec_lemma (Z.to_nat (f_w1 f + 1)) (Z.to_nat (f_h1 f + 1)) yp up vp)
    by (try assumption; try lia; unfold zeros; rewrite repeat_length, !Z2Nat.inj_mul by lia; reflexivity).
  cbn [bind]. split; [reflexivity|].
  destruct (rgba_plane_weave (Z.to_nat (f_w1 f + 1)) yp up vp [] (Z.to_nat (f_h1 f + 1)) Ly) as (_ & _ & _ & Lr).
  unfold len. rewrite Lr. nia.
Qed.

Theorem frame_body_alph_vp8 dec pos f a v yp up vp al :
  frame_at dec pos f -> f_image f = FLossy (Some a) v ->
  vp8 (vp8_bytes v) = Ok (f_w1 f + 1, f_h1 f + 1, yp, up, vp) -> planes_ok (f_w1 f + 1) (f_h1 f + 1) yp up vp ->
  SS.alpha_plane (f_w1 f + 1) (f_h1 f + 1) (alph_bytes a) = Some al -> alph_in_format (f_w1 f + 1) (f_h1 f + 1) (alph_bytes a) ->
  let rgba := SS.weave (rgb_plane (Z.to_nat (f_w1 f + 1)) (Z.to_nat (f_h1 f + 1)) yp up vp) al in
  frame_body vp8 dec (len (frame_payload f)) (pos + 8) = Ok (mframe_of f true rgba, len (frame_payload f))
  /\ len rgba = (f_w1 f + 1) * (f_h1 f + 1) * 4.
Proof.
  intros Hfa Himg Hvp8 Hpl Hal Hfmt. cbv zeta. destruct (payload_prefix dec pos f Hfa) as (Hsp & Htail & HA & _ & ->).
  destruct Hfa as (Hat & Hok & HAr & Hfw & Hfh & _ & _ & Hlen). unfold frame_ok in Hok. split_andb.
  rewrite Himg in *. cbn [first_subchunk fst snd] in *. change (M.from_fourcc cc_ALPH) with M.KALPH. cbv iota.
  unfold frame_tail in Htail, HA. rewrite Himg in Htail, HA. cbn [after_first_subchunk] in Htail, HA.
  destruct (ser_chunk_header _ _ _ _ _ Htail eq_refl) as (Hvh & Hvp & _).
  rewrite len_app, len_ser_chunk4 in HA by reflexivity.
  pose proof (len_nonneg (alph_bytes a)) as Ha0. pose proof (len_nonneg (vp8_bytes v)) as Hv0.
  pose proof (len_nonneg (concat (map unknown_bytes (f_unknown f)))) as Hu0.
  destruct (at_pos_bound _ _ _ Hvp) as [_ Hbound].
  set (A := len (frame_payload f)) in *. set (ca := len (alph_bytes a)) in *. set (cv := len (vp8_bytes v)) in *.
  destruct (A <? rounded ca + 32) eqn:E1; [apply Z.ltb_lt in E1; unfold rounded in *; lia|].
  rewrite add_u64_ok by (unfold M.u64_max, rounded in *; lia). cbn [bind].
  unfold ca at 1. rewrite (window_at _ _ _ Hsp).
  match goal with H : image_ok (FLossy (Some a) v) = true |- _ => cbn [image_ok] in H; rewrite andb_true_iff in H; destruct H as [Hao Hvo] end.
  pose proof (all_bytes_alph a Hao) as Hba. apply all_bytes_Forall in Hba.
  destruct Hpl as (Rw & Rh & Ly & Lu & Lv & By & Bu & Bv).
  rewrite !Z.mod_small by lia.
  destruct (read_alpha_chunk_spec (alph_bytes a) (f_w1 f + 1) (f_h1 f + 1) al Hba ltac:(lia) ltac:(lia) Hal Hfmt) as (ac & -> & Lac & Uac).
  cbn [bind].
  rewrite (read_chunk_header_at _ _ _ _ Hvh eq_refl) by (unfold rounded in *; lia). cbn [bind].
  destruct (A <? ca + cv + 32) eqn:E2; [apply Z.ltb_lt in E2; unfold rounded in *; lia|].
  unfold cv at 1. rewrite (window_at _ _ _ Hvp).
  unfold payload_alph_vp8. rewrite Hvp8. cbn [bind]. rewrite !Z.eqb_refl. cbn [negb orb].
  rewrite usz_ok by (unfold M.usize_max, M.u64_max; nia). cbn [bind].
  assert (Hnn : Z.to_nat ((f_w1 f + 1) * (f_h1 f + 1)) = (Z.to_nat (f_w1 f + 1) * Z.to_nat (f_h1 f + 1))%nat)
    by (rewrite Z2Nat.inj_mul by lia; reflexivity).
  rewrite (fill_rgba_spec_lemma (Z.to_nat (f_w1 f + 1)) (Z.to_nat (f_h1 f + 1)) yp up vp)
    by (try assumption; try lia; unfold zeros; rewrite repeat_length, !Z2Nat.inj_mul by lia; reflexivity).
  cbn [bind].
  destruct (rgba_plane_weave (Z.to_nat (f_w1 f + 1)) yp up vp (zeros ((f_w1 f + 1) * (f_h1 f + 1) * 4)) (Z.to_nat (f_h1 f + 1)) Ly)
    as (al0 & -> & L0 & Lr).
  rewrite (alpha_loop_weave ac (f_w1 f + 1) (f_h1 f + 1) _ al0) by lia.
  cbn [bind]. rewrite Uac. split; [reflexivity|].
  assert (Lal : length al = Z.to_nat ((f_w1 f + 1) * (f_h1 f + 1))).
  { rewrite <- Uac. unfold Spec.Alpha.unfilter. rewrite Alpha_unfilter.unfilter_from_length. cbn [length]. lia. }
  unfold len. rewrite weave_length by lia. nia.
Qed.
End Frame.

(* ---------------------------------------------------------------------------------------------- *)
(* how this plugs into Proofs/Anim_*.v                                                              *)
(* ---------------------------------------------------------------------------------------------- *)
(* (1) A frame returned by decode_frame_payload_vp8l / _vp8 / _alph_vp8 is a valid frame of Proofs/Anim_play.v
       (valid_mframe: 24-bit fields, at most 16384 x 16384, inside the canvas, payload of the frame's size), and Model.Anim's
       abstract payload decoder returns exactly its bytes. *)
Lemma mframe_valid dec pos f (ha : bool) data :
  frame_at dec pos f -> len data = (f_w1 f + 1) * (f_h1 f + 1) * (if ha then 4 else 3) ->
  Anim_play.valid_mframe (M.d_width dec) (M.d_height dec) (mframe_of f ha data)
  /\ Anim.decode_payload (mframe_of f ha data) (f_w1 f + 1) (f_h1 f + 1) = Ok (Arr.of_list data).
Proof.
  intros Hfa Hl. destruct Hfa as (Hat & Hok & HA & Hfw & Hfh & Hx & Hy & Hlen). unfold frame_ok in Hok. split_andb.
  unfold Anim_play.valid_mframe, Anim.decode_payload, mframe_of.
  cbn [Anim.mf_xh Anim.mf_yh Anim.mf_wm1 Anim.mf_hm1 Anim.mf_has_alpha Anim.mf_data].
  unfold len in Hl. rewrite Hl, Z.eqb_refl. repeat split; lia.
Qed.

(* (2) Model.Anim.read_frame_core looks at its file only through the canvas fields, the frame at the cursor and whether the
       cursor has reached the number of frames *)
Lemma anim_core_ext f1 f2 st bl :
  Anim.m_w f1 = Anim.m_w f2 -> Anim.m_h f1 = Anim.m_h f2 -> Anim.m_alpha f1 = Anim.m_alpha f2 ->
  Anim.m_bg_stored f1 = Anim.m_bg_stored f2 ->
  (Anim.next_frame st =? Anim.num_frames f1) = (Anim.next_frame st =? Anim.num_frames f2) ->
  nth_error (Anim.m_frames f1) (Z.to_nat (Anim.next_frame_start st)) = nth_error (Anim.m_frames f2) (Z.to_nat (Anim.next_frame_start st)) ->
  Anim.read_frame_core f1 st bl = Anim.read_frame_core f2 st bl.
Proof.
  destruct f1 as [w1 h1 a1 b1 fr1], f2 as [w2 h2 a2 b2 fr2].
  cbn [Anim.m_w Anim.m_h Anim.m_alpha Anim.m_bg_stored Anim.m_frames]. intros -> -> -> -> Hn Hf.
  unfold Anim.read_frame_core, Anim.output_buffer_size, Anim.background_color.
  cbn [Anim.m_w Anim.m_h Anim.m_alpha Anim.m_bg_stored Anim.m_frames]. rewrite Hn, Hf. reflexivity.
Qed.

Lemma anim_core_len_check f st bl : (bl =? Anim.output_buffer_size f) = false -> Anim.read_frame_core f st bl = Panic PAssert.
Proof. intros E. unfold Anim.read_frame_core. rewrite E. reflexivity. Qed.
