(* The alpha application loop of decoder.rs (Model.Alpha.apply_alpha: predictor read from the output buffer itself,
   in place) computes exactly the container specification's un-filtering (Spec.Alpha.unfilter), never panics on a
   buffer of the right size, leaves every colour byte alone, and its result does not depend on the alpha bytes the
   buffer held before (C05 alpha clause; C11 "every byte determined by the file"; C03 no index panic). *)
From Coq Require Import ZArith Lia List Bool Arith.
From WebP Require Import Lib.Res Spec.Alpha Model.Alpha.
Import ListNotations.
Open Scope Z_scope.

Lemma rd_nth buf i : (i < length buf)%nat -> rd buf i = Ok (nth i buf 0).
Proof.
  intros H. unfold rd. destruct (nth_error buf i) eqn:E.
  - rewrite (nth_error_nth _ _ 0 E). reflexivity.
  - apply nth_error_None in E. lia.
Qed.

Lemma set_nth_some : forall l i v, (i < length l)%nat ->
  exists l', set_nth l i v = Some l' /\ length l' = length l /\ nth i l' 0 = v /\
             (forall j, j <> i -> nth j l' 0 = nth j l 0).
Proof.
  induction l as [|a l IH]; intros i v Hi; [cbn [length] in Hi; lia|].
  destruct i as [|i].
  - exists (v :: l). cbn [set_nth length nth]. repeat split; try reflexivity.
    intros [|j] Hj; [congruence | reflexivity].
  - cbn [length] in Hi. destruct (IH i v ltac:(lia)) as (l' & E & Hl & Hn & Ho).
    exists (a :: l'). cbn [set_nth]. rewrite E. cbn [length nth]. repeat split; try congruence.
    intros [|j] Hj; [reflexivity|]. cbn [nth]. apply Ho. congruence.
Qed.

(* the spec's accumulator only grows at the end *)
Lemma unfilter_from_prefix f w : forall ds i out j, (j < length out)%nat ->
  nth j (unfilter_from f w ds i out) 0 = nth j out 0.
Proof.
  induction ds as [|d ds IH]; intros i out j Hj; [reflexivity|].
  cbn [unfilter_from]. rewrite IH by (rewrite app_length; cbn [length]; lia).
  rewrite app_nth1 by exact Hj. reflexivity.
Qed.

Lemma unfilter_from_length f w : forall ds i out, length (unfilter_from f w ds i out) = (length out + length ds)%nat.
Proof.
  induction ds as [|d ds IH]; intros i out; cbn [unfilter_from length]; [lia|].
  rewrite IH, app_length. cbn [length]. lia.
Qed.

Section Step.
  Variables (f : filter) (w : nat).
  Hypothesis Hw : (1 <= w)%nat.

  (* buffer/accumulator agreement up to scan index i *)
  Definition agree (i : nat) (buf out : list Z) : Prop :=
    length out = i /\ (forall j, (j < i)%nat -> nth (j * 4 + 3) buf 0 = nth j out 0)
    /\ (forall j, (j < i)%nat -> 0 <= nth j out 0 <= 255).

  Lemma at_below i buf out idx : agree i buf out -> (i * 4 + 3 < length buf)%nat -> (idx < i)%nat ->
    rd buf (idx * 4 + 3) = Ok (nth idx out 0).
  Proof.
    intros (_ & Ha & _) Hb Hi. rewrite rd_nth by lia. rewrite Ha by exact Hi. reflexivity.
  Qed.

  Lemma predictor_step i buf out : agree i buf out -> (i * 4 + 3 < length buf)%nat ->
    get_alpha_predictor (i mod w) (i / w) w f buf = Ok (predictor f w (fun j => nth j out 0) (i mod w) (i / w)).
  Proof.
    intros Hag Hb.
    pose proof (Nat.div_mod i w ltac:(lia)) as Hdm. pose proof (Nat.mod_upper_bound i w ltac:(lia)) as Hm.
    set (x := (i mod w)%nat) in *. set (y := (i / w)%nat) in *.
    assert (Hi : i = (y * w + x)%nat) by (rewrite (Nat.mul_comm y w); exact Hdm).
    unfold get_alpha_predictor, predictor. destruct f.
    - reflexivity.
    - destruct x as [|x']; destruct y as [|y']; cbn [Nat.eqb andb].
      + reflexivity.
      + replace (S y' - 1)%nat with y' by lia. apply (at_below i buf out); try assumption. nia.
      + replace (0 * w + S x' - 1)%nat with (0 * w + x')%nat by lia. apply (at_below i buf out); try assumption. lia.
      + replace (S y' * w + S x' - 1)%nat with (S y' * w + x')%nat by lia. apply (at_below i buf out); try assumption. lia.
    - destruct x as [|x']; destruct y as [|y']; cbn [Nat.eqb andb].
      + reflexivity.
      + replace (S y' - 1)%nat with y' by lia. apply (at_below i buf out); try assumption. nia.
      + replace (0 * w + S x' - 1)%nat with (0 * w + x')%nat by lia. apply (at_below i buf out); try assumption. lia.
      + replace (S y' - 1)%nat with y' by lia. apply (at_below i buf out); try assumption. nia.
    - destruct x as [|x']; destruct y as [|y'].
      + reflexivity.
      + replace (S y' - 1)%nat with y' by lia. rewrite (at_below i buf out) by (assumption || nia).
        cbn [bind]. f_equal. destruct Hag as (_ & _ & Hby).
        pose proof (Hby (y' * w + 0)%nat ltac:(nia)). unfold clip255. lia.
      + replace (0 * w + S x' - 1)%nat with (0 * w + x')%nat by lia. rewrite (at_below i buf out) by (assumption || lia).
        cbn [bind]. f_equal. destruct Hag as (_ & _ & Hby).
        pose proof (Hby (0 * w + x')%nat ltac:(lia)). unfold clip255. lia.
      + replace (S y' * w + S x' - 1)%nat with (S y' * w + x')%nat by lia.
        replace (S y' - 1)%nat with y' by lia.
        replace (y' * w + S x' - 1)%nat with (y' * w + x')%nat by lia.
        rewrite (at_below i buf out (S y' * w + x')) by (assumption || lia).
        rewrite (at_below i buf out (y' * w + S x')) by (assumption || nia).
        rewrite (at_below i buf out (y' * w + x')) by (assumption || nia).
        reflexivity.
  Qed.

  Lemma apply_from_spec : forall ds i buf out,
    agree i buf out -> length buf = (4 * (i + length ds))%nat ->
    exists buf', apply_alpha_from f w ds i buf = Ok buf' /\ length buf' = length buf
      /\ (forall j, (j < i + length ds)%nat -> nth (j * 4 + 3) buf' 0 = nth j (unfilter_from f w ds i out) 0)
      /\ (forall j, (j mod 4 <> 3)%nat -> nth j buf' 0 = nth j buf 0).
  Proof.
    induction ds as [|d ds IH]; intros i buf out Hag Hlen.
    - exists buf. cbn [apply_alpha_from unfilter_from length] in *. repeat split; try reflexivity.
      intros j Hj. destruct Hag as (_ & Ha & _). apply Ha. lia.
    - cbn [length] in Hlen. cbn [apply_alpha_from unfilter_from].
      assert (Hb : (i * 4 + 3 < length buf)%nat) by lia.
      rewrite (predictor_step i buf out Hag Hb). cbn [bind].
      set (p := predictor f w (fun j => nth j out 0) (i mod w) (i / w)).
      destruct (set_nth_some buf (i * 4 + 3) ((p + d) mod 256) Hb) as (buf1 & E & Hl1 & Hn1 & Ho1).
      rewrite E.
      assert (Hag1 : agree (S i) buf1 (out ++ [(p + d) mod 256])).
      { destruct Hag as (Hlo & Ha & Hby). split; [rewrite app_length; cbn [length]; lia|]. split.
        - intros j Hj. destruct (Nat.eq_dec j i) as [->|Hne].
          + rewrite Hn1. rewrite app_nth2 by lia. rewrite Hlo, Nat.sub_diag. reflexivity.
          + rewrite Ho1 by lia. rewrite app_nth1 by lia. apply Ha. lia.
        - intros j Hj. destruct (Nat.eq_dec j i) as [->|Hne].
          + rewrite app_nth2 by lia. rewrite Hlo, Nat.sub_diag. cbn [nth].
            pose proof (Z.mod_pos_bound (p + d) 256 ltac:(lia)). lia.
          + rewrite app_nth1 by lia. apply Hby. lia. }
      destruct (IH (S i) buf1 (out ++ [(p + d) mod 256]) Hag1 ltac:(lia)) as (buf' & E' & Hl' & Hn' & Ho').
      exists buf'. split; [exact E'|]. split; [lia|]. split.
      + intros j Hj. apply Hn'. cbn [length] in Hj. lia.
      + intros j Hj. rewrite Ho' by exact Hj. apply Ho1. intros Ej. apply Hj. rewrite Ej.
        replace (i * 4 + 3)%nat with (3 + i * 4)%nat by lia. rewrite Nat.mod_add by lia. reflexivity.
  Qed.
End Step.

Lemma apply_alpha_spec_lemma f w data buf : (1 <= w)%nat -> length buf = (4 * length data)%nat ->
  exists buf', apply_alpha f w data buf = Ok buf' /\ length buf' = length buf
    /\ (forall j, (j < length data)%nat -> nth (j * 4 + 3) buf' 0 = nth j (unfilter f w data) 0)
    /\ (forall j, (j mod 4 <> 3)%nat -> nth j buf' 0 = nth j buf 0).
Proof.
  intros Hw Hl. unfold apply_alpha, unfilter.
  apply (apply_from_spec f w Hw data 0 buf []).
  - split; [reflexivity|]. split; intros j Hj; lia.
  - cbn [Nat.add]. exact Hl.
Qed.

(* the alpha bytes written do not depend on what the buffer held (only colour bytes are carried over) *)
Lemma apply_alpha_buf_independent_lemma f w data b1 b2 o1 o2 : (1 <= w)%nat ->
  length b1 = (4 * length data)%nat -> length b2 = (4 * length data)%nat ->
  (forall j, (j mod 4 <> 3)%nat -> nth j b1 0 = nth j b2 0) ->
  apply_alpha f w data b1 = Ok o1 -> apply_alpha f w data b2 = Ok o2 -> o1 = o2.
Proof.
  intros Hw H1 H2 Hc E1 E2.
  destruct (apply_alpha_spec_lemma f w data b1 Hw H1) as (o1' & E1' & L1 & A1 & C1).
  destruct (apply_alpha_spec_lemma f w data b2 Hw H2) as (o2' & E2' & L2 & A2 & C2).
  rewrite E1 in E1'. rewrite E2 in E2'. inversion E1'; inversion E2'; subst o1' o2'.
  apply (nth_ext _ _ 0 0); [lia|]. intros n Hn.
  destruct (Nat.eq_dec (n mod 4) 3) as [E3 | N3].
  - pose proof (Nat.div_mod n 4 ltac:(lia)) as Hd.
    replace n with ((n / 4) * 4 + 3)%nat by lia.
    rewrite A1, A2 by lia. reflexivity.
  - rewrite C1, C2 by exact N3. apply Hc. exact N3.
Qed.
