(* C15, part 4: multi-bit requests.  A request (literal, optional signed value, tree-coded value) is an adaptive
   sequence of bit reads -- a `prog`.  The three readers (RFC decoder, cold path, speculative fast path) are interpreters
   of the same prog, so the single-bit results of parts 2 and 3 lift to every request by one induction each:
   - fast = cold when the speculation stayed inside the chunks (otherwise it is discarded and the cold path replays
     the request from the saved state);
   - cold path = RFC decoder until a request needs more than len + 1 bytes, exhausted state from then on. *)
From Coq Require Import ZArith Lia List Bool.
From WebP Require Import Lib.Res Gen.Kernels Gen.Tables Lib.ZBits Lib.Sweep Proofs.C15_num Proofs.C15_ideal Proofs.C15_model
  Spec.RfcBoolDec Model.ArithDec.
Import ListNotations.
Open Scope Z_scope.

Inductive prog := Done (v : Z) | Read (p : Z) (k : bool -> prog).

Fixpoint interpS (pg : prog) (s : st) : Z * st :=
  match pg with
  | Done v => (v, s)
  | Read p k => let '(b, s1) := RfcBoolDec.read_bool s p in interpS (k b) s1
  end.

Fixpoint interpP {St : Type} (bit : St -> Z -> bool * St) (pg : prog) (s : St) : Z * St :=
  match pg with
  | Done v => (v, s)
  | Read p k => let '(b, s1) := bit s p in interpP bit (k b) s1
  end.

Fixpoint probs_ok (pg : prog) : Prop :=
  match pg with Done _ => True | Read p k => 0 <= p <= 255 /\ probs_ok (k true) /\ probs_ok (k false) end.

Fixpoint depth (pg : prog) : Z :=
  match pg with Done _ => 0 | Read _ k => 1 + Z.max (depth (k true)) (depth (k false)) end.

Lemma depth_nonneg pg : 0 <= depth pg.
Proof. induction pg as [v | p k IH]; cbn [depth]; [lia|]. pose proof (IH true). pose proof (IH false). lia. Qed.

Lemma probs_ok_k p k b : probs_ok (Read p k) -> probs_ok (k b).
Proof. intros (_ & H1 & H2). destruct b; assumption. Qed.

Lemma depth_k p k b : depth (k b) <= depth (Read p k) - 1.
Proof. cbn [depth]. destruct b; lia. Qed.

Fixpoint bindP (pg : prog) (f : Z -> prog) : prog :=
  match pg with Done v => f v | Read p k => Read p (fun b => bindP (k b) f) end.

Lemma interpP_bind {St} (bit : St -> Z -> bool * St) pg f s :
  interpP bit (bindP pg f) s = let '(v, s1) := interpP bit pg s in interpP bit (f v) s1.
Proof.
  revert s. induction pg as [v | p k IH]; intros s; cbn [bindP interpP]; [reflexivity|].
  destruct (bit s p) as [b s1]. apply IH.
Qed.

Lemma interpS_bind pg f s : interpS (bindP pg f) s = let '(v, s1) := interpS pg s in interpS (f v) s1.
Proof.
  revert s. induction pg as [v | p k IH]; intros s; cbn [bindP interpS]; [reflexivity|].
  destruct (RfcBoolDec.read_bool s p) as [b s1]. apply IH.
Qed.

(* ---- the fast interpreter: safety, chunk_index only grows ---- *)
Lemma fast_prog_facts ch pg : forall s, safe s -> probs_ok pg ->
  safe (snd (interpP (fast_pure ch) pg s)) /\
  chunk_index s <= chunk_index (snd (interpP (fast_pure ch) pg s)) <= chunk_index s + depth pg.
Proof.
  induction pg as [v | p k IH]; intros s Hs Hp; cbn [interpP depth snd].
  - split; [exact Hs | lia].
  - destruct Hp as (Hp & Ht & Hf).
    destruct (fast_pure_facts ch s p Hs Hp) as [S1 C1].
    destruct (fast_pure ch s p) as [b s1]. cbn [snd] in *.
    destruct (IH b s1 S1 ltac:(destruct b; assumption)) as [S2 C2].
    split; [exact S2|]. pose proof (depth_k p k b). cbn [depth] in *. lia.
Qed.

(* ---- the cold interpreter keeps the decoder well-formed ---- *)
Lemma cold_prog_facts pg : forall d, wsafe d -> probs_ok pg ->
  wsafe (snd (interpP cold_pure pg d)) /\ chunks (snd (interpP cold_pure pg d)) = chunks d.
Proof.
  induction pg as [v | p k IH]; intros d Hw Hp; cbn [interpP snd].
  - split; [exact Hw | reflexivity].
  - destruct Hp as (Hp & Ht & Hf).
    destruct (cold_pure_wsafe d p Hw Hp) as [W1 C1].
    destruct (cold_pure d p) as [b d1]. cbn [snd] in *.
    destruct (IH b d1 W1 ltac:(destruct b; assumption)) as [W2 C2].
    split; [exact W2 | congruence].
Qed.

(* ---- fast = cold: a speculation that stays inside the chunks computes what the cold path computes ---- *)
Lemma fast_cold_prog pg : forall d, wsafe d -> probs_ok pg ->
  chunk_index (snd (interpP (fast_pure (chunks d)) pg (state d))) <= nchunks d ->
  interpP cold_pure pg d =
  (fst (interpP (fast_pure (chunks d)) pg (state d)), set_state d (snd (interpP (fast_pure (chunks d)) pg (state d)))).
Proof.
  induction pg as [v | p k IH]; intros d Hw Hp Hle; cbn [interpP fst snd] in *.
  - destruct d; reflexivity.
  - destruct Hp as (Hp & Ht & Hf).
    pose proof Hw as (Hs & _).
    destruct (fast_pure_facts (chunks d) (state d) p Hs Hp) as [S1 C1].
    pose proof (fast_cold_bit d p Hw Hp) as FC.
    destruct (cold_pure_wsafe d p Hw Hp) as [W1 Ch1].
    destruct (fast_pure (chunks d) (state d) p) as [b u1] eqn:Ef. cbn [fst snd] in *.
    assert (Pkb : probs_ok (k b)) by (destruct b; assumption).
    destruct (fast_prog_facts (chunks d) (k b) u1 S1 Pkb) as [_ Mono].
    rewrite FC by lia. rewrite FC in W1, Ch1 by lia. cbn [snd] in W1, Ch1.
    specialize (IH b (set_state d u1) W1 Pkb).
    change (chunks (set_state d u1)) with (chunks d) in IH. change (state (set_state d u1)) with u1 in IH.
    rewrite IH by (unfold nchunks in *; exact Hle). reflexivity.
Qed.

(* ---- cold path = RFC decoder until exhaustion ---- *)
Lemma need_mono_bool s p : need s <= need (snd (RfcBoolDec.read_bool s p)).
Proof.
  unfold RfcBoolDec.read_bool. destruct (_ <=? RfcBoolDec.value s); cbn [snd]; rewrite renorm_need; cbn [need]; lia.
Qed.

Lemma need_mono pg : forall s, need s <= need (snd (interpS pg s)).
Proof.
  induction pg as [v | p k IH]; intros s; cbn [interpS snd]; [lia|].
  pose proof (need_mono_bool s p). destruct (RfcBoolDec.read_bool s p) as [b s1]. cbn [snd] in *.
  specialize (IH b s1). lia.
Qed.

Section Ops.
Variable data : list Z.
Hypothesis Hbytes : Forall byte data.
Notation len := (C15_model.len data).

(* the two decoders look at the same ideal state *)
Definition Rel (s : st) (d : Dec) : Prop := exists i, ideal_ok data i /\ specinv data i s /\ modinv data i d.
(* no request so far needed more than len + 1 bytes *)
Definition live (s : st) (d : Dec) : Prop := Rel s d /\ need s <= len + 1.
(* some request did: the Rust decoder is in its exhausted state *)
Definition gone (s : st) (d : Dec) : Prop := dead d /\ len + 1 < need s.

Lemma dead_prog pg : forall d, dead d -> snd (interpP cold_pure pg d) = d.
Proof.
  induction pg as [v | p k IH]; intros d Hd; cbn [interpP snd]; [reflexivity|].
  rewrite (dead_bit d p Hd). apply IH. exact Hd.
Qed.

Lemma sim_prog pg : forall s d, live s d -> probs_ok pg ->
  (live (snd (interpS pg s)) (snd (interpP cold_pure pg d)) /\ fst (interpP cold_pure pg d) = fst (interpS pg s))
  \/ gone (snd (interpS pg s)) (snd (interpP cold_pure pg d)).
Proof.
  induction pg as [v | p k IH]; intros s d Hl Hp; cbn [interpS interpP fst snd].
  - left. split; [exact Hl | reflexivity].
  - destruct Hp as (Hp & Ht & Hf). destruct Hl as [[i (Hi & Hs & Hm)] Hn].
    destruct (spec_read_bool data Hbytes i s p Hi Hs Hp) as [s1 (E & Hs1 & Hn1)].
    pose proof (ideal_step_ok data Hbytes i p Hi Hp) as Hi1.
    rewrite E.
    destruct (sim_bit data Hbytes i d p Hi Hm Hp) as [(Nd & Eb & Hm1) | (Nd & Eb & Hd)].
    + destruct (cold_pure d p) as [b d1]. cbn [fst snd] in *. subst b.
      apply IH; [|destruct (fst (ideal_step data i p)); assumption].
      split; [exists (snd (ideal_step data i p)); auto | lia].
    + right. destruct (cold_pure d p) as [b d1]. cbn [fst snd] in *.
      rewrite (dead_prog _ d1 Hd). split; [exact Hd|].
      pose proof (need_mono (k (fst (ideal_step data i p))) s1). lia.
Qed.

Lemma gone_prog pg s d : gone s d -> gone (snd (interpS pg s)) (snd (interpP cold_pure pg d)).
Proof.
  intros [Hd Hn]. rewrite (dead_prog pg d Hd). split; [exact Hd|]. pose proof (need_mono pg s). lia.
Qed.

End Ops.
