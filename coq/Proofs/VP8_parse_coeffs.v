(* VP8 parsing, part 1: read_coefficients = Spec.VP8.get_coeffs.
   The token loop as a gprog (G_coeff), then
     (M) Model.Vp8Parse.coeff_loop = Ok (interpG cold_pure G_coeff): no index, assert, overflow or unknown-token panic
         for every decoder state, every byte probability table, every i16 quantiser pair;
     (S) Spec.VP8.get_coeffs_loop  = interpG bdbit G_coeff up to the representation of the block (scan-order list
         un-zigzagged at the end vs. in-place writes at ZIGZAG[i]) and of the flag (nz position vs. has_coefficients);
   and the transfer theorem of VP8_parse_base gives read_coefficients_refines. *)
From Coq Require Import ZArith Lia List Bool.
From WebP Require Import Lib.Res Gen.Kernels Gen.Tables Lib.ZBits Lib.Sweep Proofs.C15_num Proofs.C15_ideal Proofs.C15_model
  Proofs.C15_ops Proofs.C15_reqs Proofs.C15_main Spec.RfcBoolDec Spec.BoolDec Spec.VP8Tables Spec.VP8 Model.ArithDec
  Model.Vp8Parse Proofs.VP8_tables Proofs.VP8_parse_base.
Import ListNotations.
Open Scope Z_scope.

(* ------------------------------------------------------------------------------------------------------------ *)
(* lists                                                                                                        *)
(* ------------------------------------------------------------------------------------------------------------ *)
Lemma idx_ok {A} (l : list A) i d : 0 <= i < Z.of_nat (length l) -> idx l i = Ok (nth (Z.to_nat i) l d).
Proof.
  intros H. unfold idx. destruct (Z.ltb_spec i 0); [lia|].
  rewrite (nth_error_nth' l d) by lia. reflexivity.
Qed.

Lemma set_nth_upd {A} (l : list A) : forall n x, (n < length l)%nat -> set_nth l n x = Some (upd l n x).
Proof.
  induction l as [|y l IH]; intros n x H; [cbn in H; lia|].
  destruct n as [|n]; [reflexivity|]. cbn [set_nth upd]. rewrite IH by (cbn in H; lia). reflexivity.
Qed.

Lemma set_idx_ok {A} (l : list A) i x : 0 <= i < Z.of_nat (length l) -> set_idx l i x = Ok (updZ l i x).
Proof.
  intros H. unfold set_idx, updZ. destruct (Z.ltb_spec i 0); [lia|]. rewrite set_nth_upd by lia. reflexivity.
Qed.

Lemma upd_length {A} (l : list A) : forall n x, length (upd l n x) = length l.
Proof. induction l as [|y l IH]; intros n x; [reflexivity|]. destruct n; cbn [upd length]; [reflexivity | rewrite IH; reflexivity]. Qed.

Lemma nth_upd_same {A} (l : list A) : forall n x d, (n < length l)%nat -> nth n (upd l n x) d = x.
Proof. induction l as [|y l IH]; intros n x d H; [cbn in H; lia|]. destruct n; [reflexivity|]. cbn [upd nth]. apply IH. cbn in H. lia. Qed.

Lemma nth_upd_other {A} (l : list A) : forall n m x d, n <> m -> nth n (upd l m x) d = nth n l d.
Proof.
  induction l as [|y l IH]; intros n m x d H; [reflexivity|].
  destruct m as [|m]; destruct n as [|n]; cbn [upd nth]; try reflexivity; try lia. apply IH. lia.
Qed.

Lemma upd_comm {A} (l : list A) : forall n m x y, n <> m -> upd (upd l n x) m y = upd (upd l m y) n x.
Proof.
  induction l as [|z l IH]; intros n m x y H; [reflexivity|].
  destruct n as [|n]; destruct m as [|m]; cbn [upd]; try reflexivity; try lia. f_equal. apply IH. lia.
Qed.

Lemma upd_nth_id {A} (l : list A) : forall n d, upd l n (nth n l d) = l.
Proof. induction l as [|y l IH]; intros n d; [reflexivity|]. destruct n; cbn [upd nth]; [reflexivity | rewrite IH; reflexivity]. Qed.

Lemma map_res_spec {A B} (f : A -> res B) : forall l l', map_res f l = Ok l' ->
  length l' = length l /\ forall k dA dB, (k < length l)%nat -> f (nth k l dA) = Ok (nth k l' dB).
Proof.
  induction l as [|x l IH]; intros l' H; cbn [map_res] in H.
  - injection H as <-. split; [reflexivity|]. intros k dA dB Hk. cbn in Hk. lia.
  - destruct (f x) as [y| | |] eqn:Ex; cbn [bind] in H; try discriminate.
    destruct (map_res f l) as [r| | |] eqn:Er; cbn [bind] in H; try discriminate.
    injection H as <-. destruct (IH r eq_refl) as [Hl Hn]. split; [cbn [length]; lia|].
    intros k dA dB Hk. destruct k as [|k]; [exact Ex|]. cbn [nth]. apply Hn. cbn in Hk. lia.
Qed.

(* ------------------------------------------------------------------------------------------------------------ *)
(* the token tree                                                                                               *)
(* ------------------------------------------------------------------------------------------------------------ *)
Definition row_ok (row : list Z) : Prop := length row = 11%nat /\ Forall byte row.
(* [band][ctx][11] probabilities of one block type *)
Definition plane_ok (probs : list (list (list Z))) : Prop :=
  length probs = 8%nat /\ Forall (fun b => length b = 3%nat /\ Forall row_ok b) probs.

Lemma forallb_byteb l : Forall byte l -> forallb byteb l = true.
Proof. intros H. apply forallb_forall. intros x Hx. apply byteb_spec. rewrite Forall_forall in H. apply H. exact Hx. Qed.

Lemma token_tree_okb row : row_ok row -> tree_okb vp8_DCT_TOKEN_TREE row = true.
Proof.
  intros [Hl Hb]. unfold tree_okb. rewrite Hl. rewrite (forallb_byteb row Hb).
  vm_compute. reflexivity.
Qed.

Lemma plane_row probs band cx : plane_ok probs -> (band < 8)%nat -> (cx < 3)%nat -> row_ok (nth cx (nth band probs []) []).
Proof.
  intros [Hl Hf] Hb Hc. rewrite Forall_forall in Hf.
  destruct (Hf (nth band probs []) ltac:(apply nth_In; lia)) as [Hl3 Hr]. rewrite Forall_forall in Hr.
  apply Hr. apply nth_In. lia.
Qed.

(* the node tables of a plane: every row through tree_nodes_from(DCT_TOKEN_TREE, .) *)
Definition plane_nodes (probs : list (list (list Z))) (nodes : list (list (list TreeNode))) : Prop :=
  map_res (map_res (tree_nodes_from vp8_DCT_TOKEN_TREE)) probs = Ok nodes.

Lemma plane_nodes_row probs nodes band cx : plane_ok probs -> plane_nodes probs nodes -> (band < 8)%nat -> (cx < 3)%nat ->
  length nodes = 8%nat /\ length (nth band nodes []) = 3%nat /\
  tree_nodes_from vp8_DCT_TOKEN_TREE (nth cx (nth band probs []) []) = Ok (nth cx (nth band nodes []) []) /\
  length (nth cx (nth band nodes []) []) = 11%nat.
Proof.
  intros [Hl Hf] Hn Hb Hc. destruct (map_res_spec _ probs nodes Hn) as [L1 N1].
  specialize (N1 band [] [] ltac:(lia)).
  destruct (map_res_spec _ _ _ N1) as [L2 N2].
  rewrite Forall_forall in Hf. destruct (Hf (nth band probs []) ltac:(apply nth_In; lia)) as [Hl3 Hr].
  specialize (N2 cx [] [] ltac:(lia)).
  split; [lia|]. split; [lia|]. split; [exact N2|].
  rewrite Forall_forall in Hr. destruct (Hr (nth cx (nth band probs []) []) ltac:(apply nth_In; lia)) as [Hl11 Hby].
  destruct (tree_nodes_from_spec _ _ (token_tree_okb _ (conj Hl11 Hby))) as [nd (E1 & E2 & _)].
  rewrite N2 in E1. injection E1 as <-. lia.
Qed.

(* values a walk over a node table can return: minus a non-positive entry of the tree array (or 0) *)
Lemma tree_prog_range t p nodes hi : tree_okb t p = true -> tree_nodes_from t p = Ok nodes -> 0 <= hi ->
  (forall q, (q < length t)%nat -> nth q t 0 <= 0 -> - nth q t 0 <= hi) ->
  forall {St} (bit : St -> Z -> bool * St) fuel j s, 0 <= fst (interpP bit (tree_prog fuel nodes j) s) <= hi.
Proof.
  intros Hok En Hhi Hleaf St bit.
  destruct (tree_nodes_from_spec t p Hok) as [nodes' (E1 & E2 & E3)]. rewrite En in E1. injection E1 as <-.
  destruct (tree_okb_spec t p Hok) as (Hl & Hm & Hb & He).
  induction fuel as [|f IH]; intros j s; cbn [tree_prog]; [cbn; lia|].
  destruct (nth_error nodes (Z.to_nat j)) as [node|] eqn:Enode; [|cbn; lia].
  assert (Hj : (Z.to_nat j < length p)%nat) by (rewrite <- E2; apply nth_error_Some; rewrite Enode; discriminate).
  rewrite (E3 _ Hj) in Enode. injection Enode as <-. cbn [interpP].
  destruct (bit s (prob (node_of t p (Z.to_nat j)))) as [b s1]. cbv zeta.
  set (q := if b then (2 * Z.to_nat j + 1)%nat else (2 * Z.to_nat j)%nat).
  assert (Et : (if b then right (node_of t p (Z.to_nat j)) else left (node_of t p (Z.to_nat j))) = prepare_branch (nth q t 0))
    by (unfold q, node_of; destruct b; reflexivity).
  rewrite Et.
  assert (Hq : (q < length t)%nat) by (unfold q; destruct b; lia).
  destruct (He q Hq) as (R & Pz). cbv zeta in *.
  destruct (branch_facts (nth q t 0) R) as (_ & Fp & Fn).
  destruct (Z.ltb_spec (prepare_branch (nth q t 0)) (Z.of_nat (length nodes))) as [L | G]; [apply IH|].
  cbn [interpP fst].
  destruct (Z.lt_ge_cases 0 (nth q t 0)) as [Pos | Neg].
  - rewrite (Fp Pos) in G. destruct (Pz Pos) as (Ev & Rg). lia.
  - destruct (Fn ltac:(lia)) as (_ & V). rewrite V. specialize (Hleaf q Hq ltac:(lia)). lia.
Qed.

Lemma token_leaves : forall q, (q < length vp8_DCT_TOKEN_TREE)%nat -> nth q vp8_DCT_TOKEN_TREE 0 <= 0 -> - nth q vp8_DCT_TOKEN_TREE 0 <= 11.
Proof.
  assert (H : forallb (fun q => (0 <? nth q vp8_DCT_TOKEN_TREE 0) || (- nth q vp8_DCT_TOKEN_TREE 0 <=? 11)) (seq 0 22) = true)
    by (vm_compute; reflexivity).
  intros q Hq Hn. rewrite forallb_forall in H. specialize (H q ltac:(apply in_seq; cbn in Hq; lia)).
  apply orb_true_iff in H. destruct H as [H | H]; [apply Z.ltb_lt in H; lia | apply Z.leb_le in H; exact H].
Qed.

(* ------------------------------------------------------------------------------------------------------------ *)
(* the loop as a gprog                                                                                          *)
(* ------------------------------------------------------------------------------------------------------------ *)
Definition tok_prog (tree : list TreeNode) (skip : bool) : prog := tree_prog (S (length tree)) tree (ArithDec.b2z skip).

Fixpoint extra_prog (probs : list Z) (extra : Z) : gprog Z :=
  match probs with
  | [] => GRet extra
  | t :: tl => if t =? 0 then GRet extra else GRead t (fun b => extra_prog tl (extra + extra + ArithDec.b2z b))
  end.

(* abs_value of a token in 1..10 *)
Definition mag_prog (token : Z) : gprog Z :=
  if token <=? 4 then GRet token
  else gbind (extra_prog (nth (Z.to_nat (token - 5)) vp8_PROB_DCT_CAT []) 0)
             (fun e => GRet (nth (Z.to_nat (token - 5)) vp8_DCT_CAT_BASE 0 + e)).

Definition next_cx (abs_value : Z) : Z := if abs_value =? 0 then 0 else if abs_value =? 1 then 1 else 2.

Fixpoint G_coeff (n : nat) (nodes : list (list (list TreeNode))) (dcq acq : Z) (i cx : Z) (skip has : bool) (block : list Z)
  : gprog (bool * list Z) :=
  match n with
  | O => GRet (has, block)
  | S k =>
    let tree := nth (Z.to_nat cx) (nth (Z.to_nat (nth (Z.to_nat i) vp8_COEFF_BANDS 0)) nodes []) [] in
    gbind (lift (tok_prog tree skip)) (fun token =>
      if token =? 11 then GRet (has, block)
      else if token =? 0 then G_coeff k nodes dcq acq (i + 1) 0 true true block
      else gbind (mag_prog token) (fun abs_value =>
           GRead 128 (fun sign =>
             let zz := nth (Z.to_nat i) vp8_ZIGZAG 0 in
             let v := (if sign then - abs_value else abs_value) * (if 0 <? zz then acq else dcq) in
             G_coeff k nodes dcq acq (i + 1) (next_cx abs_value) false true (updZ block zz v))))
  end.

Lemma extra_probs_ok l : Forall byte l -> forall e, gprobs_ok (extra_prog l e).
Proof.
  induction 1 as [|t tl Ht Htl IH]; intros e; cbn [extra_prog]; [exact I|].
  destruct (t =? 0); [exact I|]. cbn [gprobs_ok]. unfold byte in Ht. repeat split; try lia; apply IH.
Qed.

Lemma cat_rows_bytes : forall c, Forall byte (nth c vp8_PROB_DCT_CAT []).
Proof.
  assert (H : forallb (forallb byteb) vp8_PROB_DCT_CAT = true) by (vm_compute; reflexivity).
  intros c. destruct (Nat.lt_ge_cases c (length vp8_PROB_DCT_CAT)) as [L | G].
  - rewrite forallb_forall in H. specialize (H _ (nth_In _ [] L)). rewrite Forall_forall. intros x Hx.
    rewrite forallb_forall in H. apply byteb_spec. apply H. exact Hx.
  - rewrite nth_overflow by exact G. constructor.
Qed.

Lemma mag_probs_ok token : gprobs_ok (mag_prog token).
Proof.
  unfold mag_prog. destruct (token <=? 4); [exact I|].
  apply gprobs_bind; [apply extra_probs_ok; apply cat_rows_bytes | intros a; exact I].
Qed.

Section Coeffs.
Variable probs : list (list (list Z)).
Variable nodes : list (list (list TreeNode)).
Hypothesis Hprobs : plane_ok probs.
Hypothesis Hnodes : plane_nodes probs nodes.
Variables dcq acq : Z.

Lemma bands_range i : 0 <= i <= 15 -> 0 <= nth (Z.to_nat i) vp8_COEFF_BANDS 0 <= 7.
Proof.
  intros Hi. assert (H : forallb (fun i => (0 <=? nth (Z.to_nat i) vp8_COEFF_BANDS 0) && (nth (Z.to_nat i) vp8_COEFF_BANDS 0 <=? 7)) (zrange 16 0) = true)
    by (vm_compute; reflexivity).
  pose proof (forallb_zrange _ _ _ H i ltac:(lia)) as H1. cbv beta in H1. apply andb_true_iff in H1. lia.
Qed.

Lemma bands_nth i : 0 <= i <= 15 -> nth (Z.to_nat i) kBands 0 = nth (Z.to_nat i) vp8_COEFF_BANDS 0.
Proof.
  intros Hi. assert (H : forallb (fun i => nth (Z.to_nat i) kBands 0 =? nth (Z.to_nat i) vp8_COEFF_BANDS 0) (zrange 16 0) = true)
    by (vm_compute; reflexivity).
  pose proof (forallb_zrange _ _ _ H i ltac:(lia)) as H1. cbv beta in H1. apply Z.eqb_eq. exact H1.
Qed.

Lemma tok_probs_ok i cx skip : 0 <= i <= 15 -> 0 <= cx <= 2 ->
  probs_ok (tok_prog (nth (Z.to_nat cx) (nth (Z.to_nat (nth (Z.to_nat i) vp8_COEFF_BANDS 0)) nodes []) []) skip).
Proof.
  intros Hi Hc. pose proof (bands_range i Hi) as Hb.
  destruct (plane_nodes_row probs nodes (Z.to_nat (nth (Z.to_nat i) vp8_COEFF_BANDS 0)) (Z.to_nat cx) Hprobs Hnodes ltac:(lia) ltac:(lia))
    as (_ & _ & En & _).
  unfold tok_prog. eapply tree_probs_of; [|exact En]. apply token_tree_okb. apply plane_row; [exact Hprobs | lia | lia].
Qed.

Lemma next_cx_range a : 0 <= next_cx a <= 2.
Proof. unfold next_cx. destruct (a =? 0); [lia|]. destruct (a =? 1); lia. Qed.

Lemma G_coeff_probs n : forall i cx skip has block, i = 16 - Z.of_nat n -> 0 <= i -> 0 <= cx <= 2 ->
  gprobs_ok (G_coeff n nodes dcq acq i cx skip has block).
Proof.
  induction n as [|n IH]; intros i cx skip has block Ei Hi Hc; cbn [G_coeff]; [exact I|].
  apply gprobs_bind; [apply gprobs_lift; apply tok_probs_ok; lia|].
  intros token. destruct (token =? 11); [exact I|]. destruct (token =? 0); [apply IH; lia|].
  apply gprobs_bind; [apply mag_probs_ok|]. intros a. cbn [gprobs_ok]. pose proof (next_cx_range a).
  repeat split; try lia; apply IH; lia.
Qed.

(* ---- (M) the Model loop ---- *)
Lemma extra_loop_ok l : Forall byte l -> forall e d, wsafe d -> 0 <= e -> (e + 1) * 2 ^ Z.of_nat (length l) <= 32768 ->
  read_extra_loop l e d = Ok (interpG cold_pure (extra_prog l e) d) /\
  0 <= fst (interpG cold_pure (extra_prog l e) d) /\ fst (interpG cold_pure (extra_prog l e) d) + 1 <= (e + 1) * 2 ^ Z.of_nat (length l).
Proof.
  induction 1 as [|t tl Ht Htl IH]; intros e d Hw He Hb; cbn [read_extra_loop extra_prog].
  - cbn [interpG fst length] in *. change (2 ^ Z.of_nat 0) with 1 in *. split; [reflexivity | lia].
  - assert (E2 : 2 ^ Z.of_nat (length (t :: tl)) = 2 * 2 ^ Z.of_nat (length tl)).
    { cbn [length]. rewrite Nat2Z.inj_succ. rewrite Z.pow_succ_r by lia. reflexivity. }
    pose proof (pow2_pos (Z.of_nat (length tl)) ltac:(lia)) as Hpos.
    destruct (t =? 0).
    + cbn [interpG fst]. split; [reflexivity|]. rewrite E2. nia.
    + unfold byte in Ht. rewrite m_read_bool by assumption. cbn [bind interpG].
      destruct (cold_pure_wsafe d t Hw Ht) as [W1 _]. destruct (cold_pure d t) as [b d1]. cbn [snd] in W1.
      assert (Hb2 : 0 <= ArithDec.b2z b <= 1) by (unfold ArithDec.b2z; destruct b; lia).
      rewrite E2 in Hb.
      unfold i16_add.
      assert (X1 : (-32768 <=? e + e) && (e + e <=? 32767) = true) by (apply andb_true_iff; split; apply Z.leb_le; nia).
      rewrite X1. cbn [bind].
      assert (X2 : (-32768 <=? e + e + ArithDec.b2z b) && (e + e + ArithDec.b2z b <=? 32767) = true)
        by (apply andb_true_iff; split; apply Z.leb_le; nia).
      rewrite X2. cbn [bind].
      destruct (IH (e + e + ArithDec.b2z b) d1 W1 ltac:(lia) ltac:(nia)) as (E & L1 & L2).
      split; [exact E|]. rewrite E2. split; [exact L1 | nia].
Qed.

Definition i16 (x : Z) : Prop := -32768 <= x <= 32767.
Hypothesis Hdcq : i16 dcq.
Hypothesis Hacq : i16 acq.

Lemma zigzag_range i : 0 <= i <= 15 -> 0 <= nth (Z.to_nat i) vp8_ZIGZAG 0 <= 15.
Proof.
  intros Hi. assert (H : forallb (fun i => (0 <=? nth (Z.to_nat i) vp8_ZIGZAG 0) && (nth (Z.to_nat i) vp8_ZIGZAG 0 <=? 15)) (zrange 16 0) = true)
    by (vm_compute; reflexivity).
  pose proof (forallb_zrange _ _ _ H i ltac:(lia)) as H1. cbv beta in H1. apply andb_true_iff in H1. lia.
Qed.

Lemma cat_facts c : 0 <= c <= 5 ->
  length (nth (Z.to_nat c) vp8_PROB_DCT_CAT []) = 12%nat /\ 5 <= nth (Z.to_nat c) vp8_DCT_CAT_BASE 0 <= 67.
Proof.
  intros Hc. assert (H : c = 0 \/ c = 1 \/ c = 2 \/ c = 3 \/ c = 4 \/ c = 5) by lia.
  destruct H as [-> | [-> | [-> | [-> | [-> | ->]]]]]; (split; [vm_compute; reflexivity | vm_compute; split; intro X; discriminate X]).
Qed.

(* magnitude of a token in 1..10: no panic, value in 1..4162 *)
Lemma mag_ok token d : wsafe d -> 1 <= token <= 10 ->
  (if (vp8_DCT_1 <=? token) && (token <=? vp8_DCT_4) then Ok (token, d)
   else if (vp8_DCT_CAT1 <=? token) && (token <=? vp8_DCT_CAT6) then
     let cat := token - vp8_DCT_CAT1 in
     bind (idx vp8_PROB_DCT_CAT cat) (fun cprobs => bind (read_extra_loop cprobs 0 d) (fun '(extra, d2) =>
     bind (idx vp8_DCT_CAT_BASE cat) (fun base => bind (i16_add base extra) (fun v => Ok (v, d2)))))
   else Panic PUnreachable)
  = Ok (interpG cold_pure (mag_prog token) d) /\ 1 <= fst (interpG cold_pure (mag_prog token) d) <= 4162.
Proof.
  intros Hw Ht. unfold mag_prog. change vp8_DCT_1 with 1. change vp8_DCT_4 with 4. change vp8_DCT_CAT1 with 5. change vp8_DCT_CAT6 with 10.
  destruct (Z.le_gt_cases token 4) as [L | G].
  - assert (E4 : (token <=? 4) = true) by (apply Z.leb_le; lia). rewrite E4.
    assert (E : (1 <=? token) = true) by (apply Z.leb_le; lia). rewrite E. cbn [andb].
    cbn [interpG fst]. split; [reflexivity | lia].
  - assert (E4 : (token <=? 4) = false) by (apply Z.leb_gt; lia). rewrite E4. rewrite andb_false_r.
    assert (E' : (5 <=? token) && (token <=? 10) = true) by (apply andb_true_iff; split; apply Z.leb_le; lia). rewrite E'.
    cbv zeta. destruct (cat_facts (token - 5) ltac:(lia)) as [Hl Hbase].
    rewrite (idx_ok vp8_PROB_DCT_CAT (token - 5) []) by (cbn; lia). cbn [bind].
    destruct (extra_loop_ok _ (cat_rows_bytes (Z.to_nat (token - 5))) 0 d Hw ltac:(lia)) as (E1 & L1 & L2).
    { rewrite Hl. change (2 ^ Z.of_nat 12) with 4096. lia. }
    rewrite E1. rewrite Hl in L2. change (2 ^ Z.of_nat 12) with 4096 in L2.
    rewrite interpG_bind.
    destruct (interpG cold_pure (extra_prog (nth (Z.to_nat (token - 5)) vp8_PROB_DCT_CAT []) 0) d) as [extra d2]. cbn [fst snd bind] in *.
    rewrite (idx_ok vp8_DCT_CAT_BASE (token - 5) 0) by (cbn; lia). cbn [bind].
    unfold i16_add.
    assert (X : (-32768 <=? nth (Z.to_nat (token - 5)) vp8_DCT_CAT_BASE 0 + extra) && (nth (Z.to_nat (token - 5)) vp8_DCT_CAT_BASE 0 + extra <=? 32767) = true)
      by (apply andb_true_iff; split; apply Z.leb_le; lia).
    rewrite X. cbn [bind interpG fst]. split; [reflexivity | lia].
Qed.

Lemma coeff_loop_ok n : forall d i cx skip has block, wsafe d -> big d -> i = 16 - Z.of_nat n -> 0 <= i -> 0 <= cx <= 2 ->
  length block = 16%nat ->
  coeff_loop n nodes dcq acq d i cx skip has block
  = Ok (let '(hb, d') := interpG cold_pure (G_coeff n nodes dcq acq i cx skip has block) d in (fst hb, snd hb, d')).
Proof.
  induction n as [|n IH]; intros d i cx skip has block Hw Hbig Ei Hi Hc Hlen; cbn [coeff_loop G_coeff]; [reflexivity|].
  assert (Hi15 : 0 <= i <= 15) by lia.
  pose proof (bands_range i Hi15) as Hband.
  rewrite (idx_ok vp8_COEFF_BANDS i 0) by (cbn; lia). cbn [bind].
  set (band := nth (Z.to_nat i) vp8_COEFF_BANDS 0) in *.
  destruct (plane_nodes_row probs nodes (Z.to_nat band) (Z.to_nat cx) Hprobs Hnodes ltac:(lia) ltac:(lia)) as (L8 & L3 & En & L11).
  rewrite (idx_ok nodes band []) by lia. cbn [bind].
  rewrite (idx_ok (nth (Z.to_nat band) nodes []) cx []) by lia. cbn [bind].
  set (tree := nth (Z.to_nat cx) (nth (Z.to_nat band) nodes []) []) in *.
  assert (Hsk : 0 <= ArithDec.b2z skip <= 1) by (unfold ArithDec.b2z; destruct skip; lia).
  rewrite (idx_ok tree (ArithDec.b2z skip) UNINIT) by lia. cbn [bind].
  pose proof (plane_row probs (Z.to_nat band) (Z.to_nat cx) Hprobs ltac:(lia) ltac:(lia)) as Hrow.
  pose proof (token_tree_okb _ Hrow) as Hok.
  rewrite (m_read_tree d vp8_DCT_TOKEN_TREE _ tree (Z.to_nat (ArithDec.b2z skip)) _ Hw Hbig Hok En)
    by (try (destruct Hrow as [-> _]; lia); apply nth_error_nth'; lia).
  rewrite Z2Nat.id by lia. fold (tok_prog tree skip). cbn [bind].
  rewrite interpG_bind, interpG_lift.
  pose proof (tree_prog_range vp8_DCT_TOKEN_TREE _ tree 11 Hok En ltac:(lia) token_leaves cold_pure (S (length tree)) (ArithDec.b2z skip) d) as Htok.
  fold (tok_prog tree skip) in Htok.
  destruct (cold_prog_facts (tok_prog tree skip) d Hw (tree_probs_of _ _ _ Hok En _ _)) as [W1 C1].
  destruct (interpP cold_pure (tok_prog tree skip) d) as [token d1]. cbn [fst snd] in *.
  assert (Hbig1 : big d1) by (apply (big_chunks d); assumption).
  change vp8_DCT_EOB with 11. change vp8_DCT_0 with 0.
  destruct (Z.eqb_spec token 11) as [E11 | N11]; [reflexivity|].
  destruct (Z.eqb_spec token 0) as [E0 | N0]; [apply IH; try assumption; lia|].
  destruct (mag_ok token d1 W1 ltac:(lia)) as [Emag Rmag]. cbv zeta in Emag. rewrite Emag. cbn [bind].
  rewrite interpG_bind.
  destruct (cold_gprog_facts (mag_prog token) d1 W1 (mag_probs_ok token)) as [W2 C2].
  destruct (interpG cold_pure (mag_prog token) d1) as [abs_value d2]. cbn [fst snd] in *.
  cbn [interpG]. rewrite m_read_flag by exact W2. cbn [bind].
  destruct (cold_pure_wsafe d2 128 W2 ltac:(lia)) as [W3 C3].
  destruct (cold_pure d2 128) as [sign d3]. cbn [snd] in *.
  assert (Hneg : (if sign then i32_neg abs_value else Ok abs_value) = Ok (if sign then - abs_value else abs_value)).
  { destruct sign; [|reflexivity]. unfold i32_neg. destruct (Z.eqb_spec abs_value i32_min); [unfold i32_min in *; lia | reflexivity]. }
  rewrite Hneg. cbn [bind].
  pose proof (zigzag_range i Hi15) as Hzz.
  rewrite (idx_ok vp8_ZIGZAG i 0) by (cbn; lia). cbn [bind].
  set (zz := nth (Z.to_nat i) vp8_ZIGZAG 0) in *.
  set (sv := if sign then - abs_value else abs_value).
  set (q := if 0 <? zz then acq else dcq).
  assert (Hq : -32768 <= q <= 32767) by (unfold q, i16 in *; destruct (0 <? zz); lia).
  assert (Hsv : -4162 <= sv <= 4162) by (unfold sv; destruct sign; lia).
  unfold i32_mul.
  assert (X : (i32_min <=? sv * q) && (sv * q <=? i32_max) = true)
    by (unfold i32_min, i32_max; apply andb_true_iff; split; apply Z.leb_le; nia).
  rewrite X. cbn [bind].
  rewrite set_idx_ok by lia. cbn [bind].
  fold (next_cx abs_value).
  apply IH; try assumption; try lia.
  - apply (big_chunks d1); [congruence | assumption].
  - apply next_cx_range.
  - unfold updZ. rewrite upd_length. exact Hlen.
Qed.

(* ---- (S) the Spec loop ---- *)
Lemma read_extra_prog l : Forall (fun t => t <> 0) l -> forall acc s, read_extra l acc s = interpG bdbit (extra_prog l acc) s.
Proof.
  induction 1 as [|t tl Ht Htl IH]; intros acc s; cbn [read_extra extra_prog]; [reflexivity|].
  destruct (Z.eqb_spec t 0); [contradiction|]. cbn [interpG]. rewrite bd_read_bool_bit.
  destruct (bdbit s t) as [b s1]. cbn [fst snd]. replace (2 * acc + ArithDec.b2z b) with (acc + acc + ArithDec.b2z b) by lia. apply IH.
Qed.

Lemma cat_probs_nonzero c : Forall (fun t => t <> 0) (nth c cat_probs []).
Proof.
  assert (H : forallb (forallb (fun t => negb (t =? 0))) cat_probs = true) by (vm_compute; reflexivity).
  destruct (Nat.lt_ge_cases c (length cat_probs)) as [L | G].
  - rewrite forallb_forall in H. specialize (H _ (nth_In _ [] L)). rewrite Forall_forall. intros x Hx.
    rewrite forallb_forall in H. specialize (H x Hx). apply negb_true_iff in H. apply Z.eqb_neq. exact H.
  - rewrite nth_overflow by exact G. constructor.
Qed.

Lemma extra_prog_padded c e : 0 <= c <= 5 ->
  extra_prog (nth (Z.to_nat c) vp8_PROB_DCT_CAT []) e = extra_prog (nth (Z.to_nat c) cat_probs []) e.
Proof.
  intros Hc. assert (H : c = 0 \/ c = 1 \/ c = 2 \/ c = 3 \/ c = 4 \/ c = 5) by lia.
  destruct H as [-> | [-> | [-> | [-> | [-> | ->]]]]]; reflexivity.
Qed.

Lemma token_magnitude_prog tok s : 1 <= tok <= 10 -> token_magnitude tok s = interpG bdbit (mag_prog tok) s.
Proof.
  intros Ht. unfold token_magnitude, mag_prog. destruct (Z.leb_spec tok 4); [reflexivity|].
  unfold nthZ. rewrite read_extra_prog by apply cat_probs_nonzero.
  rewrite interpG_bind. rewrite extra_prog_padded by lia.
  destruct (interpG bdbit (extra_prog (nth (Z.to_nat (tok - 5)) cat_probs []) 0) s) as [e s']. cbn [interpG].
  rewrite dct_cat_base_normative. reflexivity.
Qed.

(* the block a reversed scan list denotes *)
Definition blk (acc : list Z) : list Z := unzigzag acc (zlength acc - 1) zero16.

Lemma zlength_aux_len l : forall a, zlength_aux l a = a + Z.of_nat (length l).
Proof. induction l as [|x l IH]; intros a; cbn [zlength_aux length]; [lia | rewrite IH; lia]. Qed.
Lemma zlength_len l : zlength l = Z.of_nat (length l).
Proof. unfold zlength. rewrite zlength_aux_len. lia. Qed.

Lemma zigzag_inj a b : 0 <= a <= 15 -> 0 <= b <= 15 -> nth (Z.to_nat a) kZigzag 0 = nth (Z.to_nat b) kZigzag 0 -> a = b.
Proof.
  intros Ha Hb.
  assert (H : forallb (fun a => forallb (fun b => negb (nth (Z.to_nat a) kZigzag 0 =? nth (Z.to_nat b) kZigzag 0) || (a =? b)) (zrange 16 0)) (zrange 16 0) = true)
    by (vm_compute; reflexivity).
  pose proof (forallb_zrange _ _ _ H a ltac:(lia)) as H1. cbv beta in H1.
  pose proof (forallb_zrange _ _ _ H1 b ltac:(lia)) as H2. cbv beta in H2.
  intros E. rewrite E in H2. rewrite Z.eqb_refl in H2. cbn [negb orb] in H2. apply Z.eqb_eq. exact H2.
Qed.

Lemma unzigzag_length acc : forall n out, length (unzigzag acc n out) = length out.
Proof.
  induction acc as [|c acc IH]; intros n out; cbn [unzigzag]; [reflexivity|].
  rewrite IH. destruct (c =? 0); [reflexivity|]. unfold updZ. apply upd_length.
Qed.

(* positions above the ones an accumulator covers are untouched *)
Lemma unzigzag_untouched acc : forall n out k, Z.of_nat (length acc) = n + 1 -> n < k <= 15 ->
  nth (Z.to_nat (nth (Z.to_nat k) kZigzag 0)) (unzigzag acc n out) 0 = nth (Z.to_nat (nth (Z.to_nat k) kZigzag 0)) out 0.
Proof.
  induction acc as [|c acc IH]; intros n out k Hl Hk; cbn [unzigzag]; [reflexivity|].
  cbn [length] in Hl. rewrite IH by lia.
  destruct (c =? 0); [reflexivity|]. unfold updZ, nthZ. apply nth_upd_other.
  intros E. pose proof (zigzag_range k ltac:(lia)) as R1. pose proof (zigzag_range n ltac:(lia)) as R2.
  rewrite zigzag_normative in R1, R2.
  assert (nth (Z.to_nat k) kZigzag 0 = nth (Z.to_nat n) kZigzag 0) by lia.
  pose proof (zigzag_inj k n ltac:(lia) ltac:(lia) H). lia.
Qed.

Lemma unzigzag_comm acc : forall n out z v, Z.of_nat (length acc) = n + 1 -> n <= 15 ->
  (forall k, 0 <= k <= n -> nth (Z.to_nat k) kZigzag 0 <> z) -> 0 <= z ->
  unzigzag acc n (updZ out z v) = updZ (unzigzag acc n out) z v.
Proof.
  induction acc as [|c acc IH]; intros n out z v Hl Hn Hz Hz0; cbn [unzigzag]; [reflexivity|].
  cbn [length] in Hl.
  destruct (c =? 0).
  - apply IH; [lia | lia | intros k Hk; apply Hz; lia | lia].
  - rewrite <- IH; [| lia | lia | intros k Hk; apply Hz; lia | lia]. f_equal.
    unfold updZ, nthZ. apply upd_comm. intros E.
    pose proof (zigzag_range n ltac:(lia)) as R. rewrite zigzag_normative in R.
    apply (Hz n ltac:(lia)). lia.
Qed.

Lemma blk_cons c acc : Z.of_nat (length acc) <= 15 ->
  blk (c :: acc) = updZ (blk acc) (nth (length acc) kZigzag 0) c.
Proof.
  intros Hl. unfold blk. rewrite !zlength_len. cbn [length unzigzag].
  replace (Z.of_nat (S (length acc)) - 1) with (Z.of_nat (length acc)) by lia.
  replace (Z.of_nat (length acc) - 1 - 0) with (Z.of_nat (length acc) - 1) by lia.
  unfold nthZ. rewrite Nat2Z.id.
  set (n := Z.of_nat (length acc)) in *.
  pose proof (zigzag_range n ltac:(lia)) as R. rewrite zigzag_normative in R. unfold n in R. rewrite Nat2Z.id in R.
  destruct (Z.eqb_spec c 0) as [-> | Nc].
  - (* writing a zero where nothing was written yet *)
    destruct acc as [|a acc'].
    + cbn [unzigzag length nth]. reflexivity.
    + pose proof (unzigzag_untouched (a :: acc') (n - 1) zero16 n ltac:(unfold n; cbn [length]; lia) ltac:(lia)) as U.
      replace (Z.to_nat n) with (length (a :: acc')) in U by (unfold n; lia).
      replace (n - 1) with (Z.of_nat (length (a :: acc')) - 1) in U by (unfold n; lia).
      assert (Z0 : forall j, nth j zero16 0 = 0) by (intros j; do 17 (destruct j as [|j]; [reflexivity|]); reflexivity).
      rewrite Z0 in U. unfold updZ. rewrite <- U at 2.
      symmetry. apply upd_nth_id.
  - destruct acc as [|a acc'].
    + cbn [unzigzag]. reflexivity.
    + apply unzigzag_comm; [lia | lia | | lia].
      intros k Hk E.
      assert (nth (Z.to_nat k) kZigzag 0 = nth (Z.to_nat n) kZigzag 0) by (unfold n; rewrite Nat2Z.id; exact E).
      pose proof (zigzag_inj k n ltac:(lia) ltac:(lia) H). lia.
Qed.

Lemma blk_length acc : length (blk acc) = 16%nat.
Proof. unfold blk. rewrite unzigzag_length. reflexivity. Qed.

(* the two loops, from position i with 16 - i iterations left *)
Lemma spec_loop_prog n : forall fuel i cx az acc ok has s, (n < fuel)%nat -> i = 16 - Z.of_nat n -> 0 <= i -> 0 <= cx <= 2 ->
  Z.of_nat (length acc) = i ->
  let '(acc', nz, _, s1) := get_coeffs_loop fuel probs dcq acq i cx az acc ok s in
  let '(hb, s2) := interpG bdbit (G_coeff n nodes dcq acq i cx az has (blk acc)) s in
  s1 = s2 /\ snd hb = blk acc' /\ fst hb = (has || (i <? nz)) /\ i <= nz <= 16.
Proof.
  induction n as [|n IH]; intros fuel i cx az acc ok has s Hf Ei Hi Hc Hl.
  - destruct fuel as [|fuel]; [lia|]. cbn [get_coeffs_loop G_coeff interpG].
    assert (E : (16 <=? i) = true) by (apply Z.leb_le; lia). rewrite E. cbn [fst snd].
    assert (E' : (i <? 16) = false) by (apply Z.ltb_ge; lia). rewrite E'. rewrite orb_false_r. repeat split; lia.
  - destruct fuel as [|fuel]; [lia|]. cbn [get_coeffs_loop G_coeff].
    assert (Hi15 : 0 <= i <= 15) by lia.
    assert (E : (16 <=? i) = false) by (apply Z.leb_gt; lia). rewrite E.
    pose proof (bands_range i Hi15) as Hband.
    unfold nthZ at 1 2 3. rewrite (bands_nth i Hi15).
    set (band := nth (Z.to_nat i) vp8_COEFF_BANDS 0) in *.
    destruct (plane_nodes_row probs nodes (Z.to_nat band) (Z.to_nat cx) Hprobs Hnodes ltac:(lia) ltac:(lia)) as (L8 & L3 & En & L11).
    set (tree := nth (Z.to_nat cx) (nth (Z.to_nat band) nodes []) []) in *.
    pose proof (plane_row probs (Z.to_nat band) (Z.to_nat cx) Hprobs ltac:(lia) ltac:(lia)) as Hrow.
    pose proof (token_tree_okb _ Hrow) as Hok.
    rewrite <- dct_token_tree_normative.
    replace (if az then 2 else 0) with (2 * Z.of_nat (Z.to_nat (ArithDec.b2z az))) by (destruct az; reflexivity).
    rewrite (bd_treed_read vp8_DCT_TOKEN_TREE _ tree _ s Hok En) by (destruct Hrow as [-> _]; destruct az; cbn; lia).
    rewrite Z2Nat.id by (destruct az; cbn; lia). fold (tok_prog tree az).
    rewrite interpG_bind, interpG_lift.
    pose proof (tree_prog_range vp8_DCT_TOKEN_TREE _ tree 11 Hok En ltac:(lia) token_leaves bdbit (S (length tree)) (ArithDec.b2z az) s) as Htok.
    fold (tok_prog tree az) in Htok.
    destruct (interpP bdbit (tok_prog tree az) s) as [tok s1]. cbn [fst] in Htok.
    change DCT_EOB with 11.
    destruct (Z.eqb_spec tok 11) as [E11 | N11].
    { cbn [interpG fst snd]. rewrite Z.ltb_irrefl, orb_false_r. repeat split; lia. }
    destruct (Z.eqb_spec tok 0) as [E0 | N0].
    { specialize (IH fuel (i + 1) 0 true (0 :: acc) ok true s1 ltac:(lia) ltac:(lia) ltac:(lia) ltac:(lia) ltac:(cbn [length]; lia)).
      rewrite blk_cons in IH by lia.
      (* a zero written into a block that is zero there: nothing changes *)
      assert (Eb : updZ (blk acc) (nth (length acc) kZigzag 0) 0 = blk acc).
      { pose proof (blk_cons 0 acc ltac:(lia)) as B. rewrite <- B. unfold blk. rewrite !zlength_len. cbn [length unzigzag Z.eqb].
        replace (Z.of_nat (S (length acc)) - 1 - 1) with (Z.of_nat (length acc) - 1) by lia. reflexivity. }
      rewrite Eb in IH.
      destruct (get_coeffs_loop fuel probs dcq acq (i + 1) 0 true (0 :: acc) ok s1) as [[[acc' nz] ok'] s1'].
      destruct (interpG bdbit (G_coeff n nodes dcq acq (i + 1) 0 true true (blk acc)) s1) as [hb s2].
      destruct IH as (A & B & C & D). repeat split; try assumption; try lia.
      rewrite C. assert (X : (i <? nz) = true) by (apply Z.ltb_lt; lia). rewrite X. rewrite orb_true_r. reflexivity. }
    rewrite token_magnitude_prog by lia. rewrite interpG_bind.
    assert (Hmag : forall s0, 1 <= fst (interpG bdbit (mag_prog tok) s0)).
    { intros s0. unfold mag_prog. destruct (Z.leb_spec tok 4); [cbn; lia|]. rewrite interpG_bind.
      destruct (cat_facts (tok - 5) ltac:(lia)) as [_ Hbase].
      assert (Hex : forall l e s', 0 <= e -> 0 <= fst (interpG bdbit (extra_prog l e) s')).
      { induction l as [|t tl IHl]; intros e s' He; cbn [extra_prog]; [cbn; lia|]. destruct (t =? 0); [cbn; lia|].
        cbn [interpG]. destruct (bdbit s' t) as [b s'']. apply IHl. unfold ArithDec.b2z. destruct b; lia. }
      specialize (Hex (nth (Z.to_nat (tok - 5)) vp8_PROB_DCT_CAT []) 0 s0 ltac:(lia)).
      destruct (interpG bdbit (extra_prog (nth (Z.to_nat (tok - 5)) vp8_PROB_DCT_CAT []) 0) s0) as [e s']. cbn [interpG fst] in *. lia. }
    specialize (Hmag s1).
    destruct (interpG bdbit (mag_prog tok) s1) as [v s2]. cbn [fst] in Hmag.
    cbn [interpG]. rewrite bd_read_bool_bit. destruct (bdbit s2 128) as [sg s3]. cbn [fst snd].
    set (c := (if isone (ArithDec.b2z sg) then - v else v) * (if 0 <? i then acq else dcq)).
    assert (Ec : (if sg then - v else v) * (if 0 <? nth (Z.to_nat i) vp8_ZIGZAG 0 then acq else dcq) = c).
    { unfold c. f_equal; [destruct sg; reflexivity|].
      assert (Hz : (0 <? nth (Z.to_nat i) vp8_ZIGZAG 0) = (0 <? i)).
      { assert (H : forallb (fun i => Bool.eqb (0 <? nth (Z.to_nat i) vp8_ZIGZAG 0) (0 <? i)) (zrange 16 0) = true) by (vm_compute; reflexivity).
        pose proof (forallb_zrange _ _ _ H i ltac:(lia)) as H1. cbv beta in H1. apply eqb_prop in H1. exact H1. }
      rewrite Hz. reflexivity. }
    rewrite Ec.
    assert (Ecx : (if v =? 1 then 1 else 2) = next_cx v).
    { unfold next_cx. destruct (Z.eqb_spec v 0); [lia | reflexivity]. }
    rewrite Ecx.
    specialize (IH fuel (i + 1) (next_cx v) false (c :: acc) (ok && fits16 c) true s3 ltac:(lia) ltac:(lia) ltac:(lia) (next_cx_range v)
                   ltac:(cbn [length]; lia)).
    rewrite blk_cons in IH by lia.
    replace (nth (length acc) kZigzag 0) with (nth (Z.to_nat i) vp8_ZIGZAG 0) in IH
      by (rewrite zigzag_normative; f_equal; lia).
    destruct (get_coeffs_loop fuel probs dcq acq (i + 1) (next_cx v) false (c :: acc) (ok && fits16 c) s3) as [[[acc' nz] ok'] s1'].
    destruct (interpG bdbit (G_coeff n nodes dcq acq (i + 1) (next_cx v) false true (updZ (blk acc) (nth (Z.to_nat i) vp8_ZIGZAG 0) c)) s3) as [hb s2'].
    destruct IH as (A & B & C & D). repeat split; try assumption; try lia.
    rewrite C. assert (X : (i <? nz) = true) by (apply Z.ltb_lt; lia). rewrite X. rewrite orb_true_r. reflexivity.
Qed.

End Coeffs.

(* ------------------------------------------------------------------------------------------------------------ *)
(* read_coefficients = get_coeffs                                                                               *)
(* ------------------------------------------------------------------------------------------------------------ *)
(* a [4][8][3][11] table of byte probabilities: every table update_token_probabilities can produce *)
Definition tables_ok (probs4 : list (list (list (list Z)))) : Prop := length probs4 = 4%nat /\ Forall plane_ok probs4.

Lemma check_cases {A} d (x : A) : check d x = if is_past_eof d then Err EBitStreamError else Ok x.
Proof. reflexivity. Qed.

Theorem read_coefficients_refines : forall data, Forall byte data -> C15_model.len data < 2 ^ 63 ->
  forall (v : Vp8) (probs4 : list (list (list (list Z)))) (p plane complexity dcq acq : Z) (s : bstate) (d : Dec),
  tables_ok probs4 -> token_nodes_of probs4 = Ok (v_token_probs v) ->
  0 <= plane <= 3 -> 0 <= complexity <= 2 -> i16 dcq -> i16 acq ->
  0 <= p -> nth_error (v_partitions v) (Z.to_nat p) = Some d ->
  linked data s d ->
  let first := if plane =? 0 then 1 else 0 in
  let '(coeffs, nz, _, s') := get_coeffs (nthZ probs4 plane []) complexity dcq acq first s in
  (exists d', read_coefficients v zero16 p plane complexity dcq acq
              = Ok (first <? nz, coeffs, set_partitions v (updZ (v_partitions v) p d')) /\ linked data s' d')
  \/ (read_coefficients v zero16 p plane complexity dcq acq = Err EBitStreamError /\ over_read data s').
Proof.
  intros data Hbytes Hlen v probs4 p plane complexity dcq acq s d [L4 F4] Htp Hplane Hcx Hdc Hac Hp Hd Hlink first.
  destruct (map_res_spec _ probs4 (v_token_probs v) Htp) as [LT NT].
  specialize (NT (Z.to_nat plane) [] [] ltac:(lia)).
  set (probs := nth (Z.to_nat plane) probs4 []) in *. set (nodes := nth (Z.to_nat plane) (v_token_probs v) []) in *.
  assert (Hprobs : plane_ok probs) by (rewrite Forall_forall in F4; apply F4; apply nth_In; lia).
  assert (Hfirst : first = 0 \/ first = 1) by (unfold first; destruct (plane =? 0); lia).
  assert (Hn : 16 - Z.of_nat (Z.to_nat (16 - first)) = first) by lia.
  destruct (linked_wsafe data Hlen s d Hlink) as [Hw Hbig].
  (* the Model side *)
  pose proof (coeff_loop_ok probs nodes Hprobs NT dcq acq Hdc Hac (Z.to_nat (16 - first)) d first complexity false false zero16
                Hw Hbig ltac:(lia) ltac:(lia) Hcx eq_refl) as EM.
  (* the Spec side *)
  pose proof (spec_loop_prog probs nodes Hprobs NT dcq acq (Z.to_nat (16 - first)) 17 first complexity false
                (if first =? 1 then [0] else []) true false s ltac:(lia) ltac:(lia) ltac:(lia) Hcx
                ltac:(destruct Hfirst as [-> | ->]; reflexivity)) as ES.
  assert (Eb : blk (if first =? 1 then [0] else []) = zero16) by (destruct Hfirst as [-> | ->]; reflexivity).
  rewrite Eb in ES.
  (* the transfer *)
  pose proof (transfer_run data Hbytes Hlen (G_coeff (Z.to_nat (16 - first)) nodes dcq acq first complexity false false zero16) s d Hlink
                (G_coeff_probs probs nodes Hprobs NT dcq acq (Z.to_nat (16 - first)) first complexity false false zero16 ltac:(lia) ltac:(lia) Hcx)) as T.
  cbv zeta in T.
  unfold get_coeffs. fold probs. unfold nthZ at 1. fold probs.
  destruct (get_coeffs_loop 17 probs dcq acq first complexity false (if first =? 1 then [0] else []) true s) as [[[racc nz] ok] s1].
  fold (blk racc).
  destruct (interpG bdbit (G_coeff (Z.to_nat (16 - first)) nodes dcq acq first complexity false false zero16) s) as [hbS s2].
  destruct ES as (Es & Eblk & Ehas & Hnz). subst s2.
  destruct (interpG cold_pure (G_coeff (Z.to_nat (16 - first)) nodes dcq acq first complexity false false zero16) d) as [hbM d1].
  cbn [fst snd] in *.
  assert (Hpl : 0 <= p < Z.of_nat (length (v_partitions v))).
  { split; [lia|]. assert ((Z.to_nat p < length (v_partitions v))%nat) by (apply nth_error_Some; rewrite Hd; discriminate). lia. }
  assert (Hrc : read_coefficients v zero16 p plane complexity dcq acq
                = if is_past_eof d1 then Err EBitStreamError
                  else Ok (fst hbM, snd hbM, set_partitions v (updZ (v_partitions v) p d1))).
  { unfold read_coefficients.
    assert (Ec : (complexity <=? 2) = true) by (apply Z.leb_le; lia). rewrite Ec. cbn [negb].
    fold first.
    rewrite (idx_ok (v_token_probs v) plane []) by lia. cbn [bind]. fold nodes.
    unfold idx at 1. destruct (Z.ltb_spec p 0); [lia|]. rewrite Hd. cbn [of_option bind].
    rewrite EM. cbn [bind].
    rewrite set_idx_ok by exact Hpl. cbn [bind].
    rewrite check_cases. destruct (is_past_eof d1); reflexivity. }
  rewrite Hrc.
  destruct T as (W1 & C1 & [(Eeof & L1 & Ev) | (Eeof & Ov)]); rewrite Eeof; cbn [bind].
  - left. exists d1. split; [|exact L1]. rewrite Ev, Ehas, Eblk. cbn [orb]. reflexivity.
  - right. split; [reflexivity | exact Ov].
Qed.

(* non-vacuity: the hypotheses hold for the default tables and a real partition start *)
Example read_coefficients_instance :
  tables_ok vp8_COEFF_PROBS /\ exists tp, token_nodes_of vp8_COEFF_PROBS = Ok tp.
Proof.
  split.
  - split; [reflexivity|].
    assert (H : forallb (fun pl => (length pl =? 8)%nat && forallb (fun b => (length b =? 3)%nat &&
                forallb (fun row => (length row =? 11)%nat && forallb byteb row) b) pl) vp8_COEFF_PROBS = true) by (vm_compute; reflexivity).
    rewrite Forall_forall. intros pl Hpl. rewrite forallb_forall in H. specialize (H pl Hpl).
    apply andb_true_iff in H. destruct H as [H8 Hb]. apply Nat.eqb_eq in H8. split; [exact H8|].
    rewrite Forall_forall. intros b Hb'. rewrite forallb_forall in Hb. specialize (Hb b Hb').
    apply andb_true_iff in Hb. destruct Hb as [H3 Hr]. apply Nat.eqb_eq in H3. split; [exact H3|].
    rewrite Forall_forall. intros row Hrow. rewrite forallb_forall in Hr. specialize (Hr row Hrow).
    apply andb_true_iff in Hr. destruct Hr as [H11 Hby]. apply Nat.eqb_eq in H11. split; [exact H11|].
    rewrite Forall_forall. intros x Hx. rewrite forallb_forall in Hby. apply byteb_spec. apply Hby. exact Hx.
  - eexists. vm_compute. reflexivity.
Qed.
