(* C04 layer L3: the prefix-code descriptions written by write_single_entry_huffman_tree / write_huffman_tree are read
   back by the specification's read_prefix_code to a code that decodes every used symbol's code word.
     simple form : one symbol, 1 or 8 bits;
     normal form : 19 code-length-code lengths in kCodeLengthCodeOrder (limit 7, or the "single code length" shortcut),
                   max_symbol field for the 256-symbol alphabets, then one code-length symbol per alphabet symbol. *)
From Coq Require Import ZArith List Bool Lia.
From WebP Require Import Lib.Res Lib.ZBits Gen.Kernels Gen.Tables Model.EncoderHeap Model.Encoder Spec.PrefixCode
  Proofs.Huffman_lists Proofs.Huffman_canon Proofs.Huffman_ok Proofs.Huffman_depth Proofs.Encoder_bitwriter
  Proofs.C04_bits Proofs.C04_prefix.
From WebP Require Spec.VP8L.
Import ListNotations.
Open Scope Z_scope.

(* what the pixel loop needs to know about a symbol k of a code c written with (lens, codes) *)
Definition sym_ok (c : V.code) (lens codes : list Z) (k : nat) : Prop :=
  0 <= nth k lens 0 <= 15 /\ 0 <= nth k codes 0 < 2 ^ nth k lens 0 /\
  parses (V.read_symbol c) (bits_of (Z.to_nat (nth k lens 0)) (nth k codes 0)) (Z.of_nat k).

(* ------------------------------------------------------------------------------------------------ *)
(** * simple form *)
Lemma nth_zseq : forall n a i, (i < n)%nat -> nth i (V.zseq a n) 0 = a + Z.of_nat i.
Proof. induction n as [|n IH]; intros a i Hi; [lia|]. destruct i; cbn [V.zseq nth]; [lia | rewrite IH by lia; lia]. Qed.

Lemma zseq_length : forall n a, length (V.zseq a n) = n.
Proof. induction n as [|n IH]; intros a; cbn [V.zseq length]; [reflexivity | rewrite IH; reflexivity]. Qed.

Lemma nth_map_zseq (f : Z -> Z) n i : (i < n)%nat -> nth i (map f (V.zseq 0 n)) 0 = f (Z.of_nat i).
Proof.
  intros Hi. rewrite (nth_indep _ 0 (f 0)) by (rewrite map_length, zseq_length; exact Hi).
  rewrite map_nth, nth_zseq by exact Hi. f_equal.
Qed.

Definition se_bits (sym : Z) : list bool :=
  bits_of 1 1 ++ bits_of 1 0 ++ bits_of 1 (if sym <=? 1 then 0 else 1) ++ bits_of (if sym <=? 1 then 1%nat else 8%nat) sym.

Theorem single_entry_explicit sym n : 0 <= sym < 256 -> sym < n ->
  emits (write_single_entry_huffman_tree sym) (se_bits sym) tt /\ parses (V.read_prefix_code n) (se_bits sym) (V.Symbol sym).
Proof.
  intros Hs Hn. unfold se_bits.
  set (e8 := if sym <=? 1 then 0 else 1).
  set (nb := if sym <=? 1 then 1%nat else 8%nat).
  assert (Hsym : 0 <= sym < 2 ^ Z.of_nat nb).
  { unfold nb. destruct (sym <=? 1) eqn:E; [apply Z.leb_le in E; change (2 ^ Z.of_nat 1) with 2; lia | change (2 ^ Z.of_nat 8) with 256; lia]. }
  split.
  - unfold write_single_entry_huffman_tree.
    change (bits_of 1 1 ++ bits_of 1 0 ++ bits_of 1 e8 ++ bits_of nb sym) with (bits_of 2 1 ++ bits_of 1 e8 ++ bits_of nb sym).
    apply emits_seq; [apply (write_bits_emits_nat 1 2); [lia | change (2 ^ Z.of_nat 2) with 4; lia]|].
    unfold e8, nb. destruct (sym <=? 1) eqn:E.
    + apply emits_seq; [apply (write_bits_emits_nat 0 1); [lia | change (2 ^ Z.of_nat 1) with 2; lia]|].
      rewrite <- (app_nil_r (bits_of 1 sym)).
      apply (write_bits_emits_nat sym 1); [lia|]. unfold nb in Hsym. rewrite ?E in Hsym. exact Hsym.
    + apply emits_seq; [apply (write_bits_emits_nat 1 1); [lia | change (2 ^ Z.of_nat 1) with 2; lia]|].
      apply (write_bits_emits_nat sym 8); [lia|]. unfold nb in Hsym. rewrite ?E in Hsym. exact Hsym.
  - intros s rest Hs0. rewrite <- !app_assoc in Hs0. unfold V.read_prefix_code.
    pstep (read_bits_parses 1 1 ltac:(change (2 ^ Z.of_nat 1) with 2; lia)) Hs0. cbv beta iota. change (1 =? 1) with true. cbv iota.
    unfold V.read_simple_lengths.
    pstep (read_bits_parses 1 0 ltac:(change (2 ^ Z.of_nat 1) with 2; lia)) Hs0. cbv beta iota.
    pstep (read_bits_parses 1 e8 ltac:(unfold e8; change (2 ^ Z.of_nat 1) with 2; destruct (sym <=? 1); lia)) Hs0. cbv beta iota.
    replace (if e8 =? 1 then 8%nat else 1%nat) with nb by (unfold e8, nb; destruct (sym <=? 1); reflexivity).
    pstep (read_bits_parses nb sym Hsym) Hs0. cbv beta iota. change (0 =? 1) with false. cbv iota beta.
    set (lens := map _ (V.zseq 0 (Z.to_nat n))).
    assert (Hmk : V.make_code lens = Some (V.Symbol (Z.of_nat (Z.to_nat sym)))).
    { apply (make_code_single lens (Z.to_nat sym) 1).
      - unfold lens. rewrite map_length, zseq_length. lia.
      - lia.
      - unfold lens. rewrite map_length, zseq_length. intros i Hi. rewrite nth_map_zseq by exact Hi.
        cbn [existsb]. rewrite orb_false_r. destruct (Nat.eqb i (Z.to_nat sym)) eqn:Ei.
        + apply Nat.eqb_eq in Ei. subst i. rewrite Z2Nat.id by lia. rewrite Z.eqb_refl. reflexivity.
        + apply Nat.eqb_neq in Ei. replace (Z.of_nat i =? sym) with false by (symmetry; apply Z.eqb_neq; lia). reflexivity. }
    rewrite Hmk, Z2Nat.id by lia. eexists. split; [reflexivity | exact Hs0].
Qed.

Theorem single_entry_roundtrip sym n : 0 <= sym < 256 -> sym < n ->
  exists bs, emits (write_single_entry_huffman_tree sym) bs tt /\ parses (V.read_prefix_code n) bs (V.Symbol sym).
Proof. intros Hs Hn. exists (se_bits sym). apply single_entry_explicit; assumption. Qed.

(* ------------------------------------------------------------------------------------------------ *)
(** * histograms with at most one used symbol *)
Lemma used_cons x tl : used (x :: tl) = (if 0 <? x then 1 else 0) + used tl.
Proof. unfold used. cbn [filter]. destruct (0 <? x); [rewrite zlen_cons; lia | lia]. Qed.

Lemma used_nonneg l : 0 <= used l.
Proof. unfold used. apply zlen_nonneg. Qed.

Lemma used_zero_nth : forall freqs, used freqs = 0 -> forall i, nth i freqs 0 <= 0.
Proof.
  induction freqs as [|x tl IH]; intros H i; [destruct i; cbn; lia|].
  rewrite used_cons in H. pose proof (used_nonneg tl). destruct (0 <? x) eqn:E; [lia|]. apply Z.ltb_ge in E.
  destruct i; cbn [nth]; [exact E | apply IH; lia].
Qed.

Lemma used_le1_unique : forall freqs, used freqs <= 1 -> forall i j, 0 < nth i freqs 0 -> 0 < nth j freqs 0 -> i = j.
Proof.
  induction freqs as [|x tl IH]; intros H i j Hi Hj; [destruct i; cbn in Hi; lia|].
  rewrite used_cons in H. pose proof (used_nonneg tl). destruct (0 <? x) eqn:E.
  - assert (Hu0 : used tl = 0) by lia. pose proof (used_zero_nth tl Hu0) as Hz.
    destruct i as [|i]; destruct j as [|j]; cbn [nth] in *; try reflexivity.
    + specialize (Hz j). lia.
    + specialize (Hz i). lia.
    + specialize (Hz i). lia.
  - apply Z.ltb_ge in E. destruct i as [|i]; destruct j as [|j]; cbn [nth] in *; try lia.
    f_equal. apply IH; [lia | exact Hi | exact Hj].
Qed.

Lemma position_pos_first : forall freqs, used freqs <= 1 -> forall i a, 0 < nth i freqs 0 ->
  position_pos freqs a = Some (a + Z.of_nat i).
Proof.
  induction freqs as [|x tl IH]; intros H i a Hi; [destruct i; cbn in Hi; lia|].
  cbn [position_pos]. destruct (0 <? x) eqn:E.
  - apply Z.ltb_lt in E. assert (i = 0%nat) by (apply (used_le1_unique (x :: tl) H); [exact Hi | exact E]).
    subst i. f_equal. lia.
  - rewrite used_cons, E in H. apply Z.ltb_ge in E. destruct i as [|i]; cbn [nth] in Hi; [lia|].
    rewrite (IH ltac:(lia) i (a + 1) Hi). f_equal. lia.
Qed.

Lemma used_ge2 freqs i j : i <> j -> 0 < nth i freqs 0 -> 0 < nth j freqs 0 -> 2 <= used freqs.
Proof.
  intros Hij Hi Hj. destruct (Z.le_gt_cases (used freqs) 1) as [H | H]; [|lia].
  exfalso. apply Hij. apply (used_le1_unique freqs H); assumption.
Qed.

Lemma used_pos freqs i : 0 < nth i freqs 0 -> 1 <= used freqs.
Proof.
  intros Hi. pose proof (used_nonneg freqs). destruct (Z.eq_dec (used freqs) 0) as [E | E]; [|lia].
  pose proof (used_zero_nth freqs E i). lia.
Qed.

(* ------------------------------------------------------------------------------------------------ *)
(** * the histogram of code lengths *)
Lemma count_eq_le b l : count_eq b l <= zlen l.
Proof. induction l as [|x tl IH]; cbn [count_eq]; [unfold zlen; cbn; lia|]. rewrite zlen_cons. destruct (x =? b); lia. Qed.

Lemma count_code_lengths_ok : forall lens clf, length clf = 16%nat -> Forall (fun l => 0 <= l <= 15) lens ->
  (forall b, 0 <= nth b clf 0 /\ nth b clf 0 + zlen lens <= u32_max) ->
  exists clf', count_code_lengths lens clf = Ok clf' /\ length clf' = 16%nat /\
    forall b, nth b clf' 0 = nth b clf 0 + count_eq (Z.of_nat b) lens.
Proof.
  induction lens as [|l tl IH]; intros clf Hlen HF Hb; cbn [count_code_lengths count_eq].
  - exists clf. split; [reflexivity|]. split; [exact Hlen|]. intros b. lia.
  - apply Forall_cons_iff in HF. destruct HF as [Hl HF]. rewrite zlen_cons in Hb. pose proof (zlen_nonneg tl) as Hz.
    rewrite (lget_ok clf l 0) by (unfold zlen; lia). cbn [bind].
    destruct (Hb (Z.to_nat l)) as [Hb0 Hb1].
    unfold cadd. replace (u32_max <? nth (Z.to_nat l) clf 0 + 1) with false by (symmetry; apply Z.ltb_ge; lia). cbn [bind].
    rewrite lset_ok by (unfold zlen; lia). cbn [bind].
    destruct (IH (upd clf (Z.to_nat l) (nth (Z.to_nat l) clf 0 + 1))) as [clf' [E [Hl' Hn']]].
    + rewrite upd_length. exact Hlen.
    + exact HF.
    + intros b. destruct (Nat.eq_dec (Z.to_nat l) b) as [<- | Hne].
      * rewrite nth_upd_eq by lia. lia.
      * rewrite nth_upd_neq by exact Hne. specialize (Hb b). lia.
    + exists clf'. split; [exact E|]. split; [exact Hl'|]. intros b. rewrite Hn'.
      destruct (Nat.eq_dec (Z.to_nat l) b) as [<- | Hne].
      * rewrite nth_upd_eq by lia. rewrite Z2Nat.id by lia. rewrite Z.eqb_refl. lia.
      * rewrite nth_upd_neq by exact Hne. replace (l =? Z.of_nat b) with false by (symmetry; apply Z.eqb_neq; lia). lia.
Qed.

Lemma zsum_bound : forall l B, Forall (fun x => x <= B) l -> zsum l <= zlen l * B.
Proof.
  induction l as [|x tl IH]; intros B HF; cbn [zsum]; [unfold zlen; cbn; lia|].
  apply Forall_cons_iff in HF. destruct HF as [Hx HF]. rewrite zlen_cons. specialize (IH B HF). lia.
Qed.

(* ------------------------------------------------------------------------------------------------ *)
(** * the 19 code-length-code lengths *)
Definition cl_val (clf cll : list Z) (single : bool) (i : Z) : Z :=
  if 15 <? i then 0 else if nth (Z.to_nat i) clf 0 =? 0 then 0 else if single then 1 else nth (Z.to_nat i) cll 0.

Lemma write_code_length_lengths_emits clf cll single : length clf = 16%nat -> length cll = 16%nat ->
  Forall (fun x => 0 <= x < 8) cll ->
  forall order, Forall (fun i => 0 <= i) order ->
  emits (write_code_length_lengths order clf cll single) (flat_map (fun i => bits_of 3 (cl_val clf cll single i)) order) tt.
Proof.
  intros Hf Hl Hc. induction order as [|i tl IH]; intros HO; cbn [write_code_length_lengths flat_map].
  - apply emits_ret.
  - apply Forall_cons_iff in HO. destruct HO as [Hi HO].
    apply emits_seq; [|apply IH; exact HO].
    assert (W : forall v, 0 <= v < 8 -> emits (write_bits v 3) (bits_of 3 v) tt).
    { intros v Hv. apply (write_bits_emits_nat v 3); [lia | change (2 ^ Z.of_nat 3) with 8; exact Hv]. }
    unfold cl_val. destruct (15 <? i) eqn:E15; [apply W; lia|]. apply Z.ltb_ge in E15.
    eapply emits_lift_bind; [apply (lget_ok clf i 0); unfold zlen; lia|].
    destruct (nth (Z.to_nat i) clf 0 =? 0); [apply W; lia|].
    destruct single; [apply W; lia|].
    eapply emits_lift_bind; [apply (lget_ok cll i 0); unfold zlen; lia|].
    apply W. rewrite Forall_forall in Hc. apply Hc. apply nth_In. lia.
Qed.

Lemma read_many_parses nb : forall xs, Forall (fun x => 0 <= x < 2 ^ Z.of_nat nb) xs ->
  parses (V.read_many (length xs) nb) (flat_map (bits_of nb) xs) xs.
Proof.
  induction xs as [|x tl IH]; intros HF s rest Hs; cbn [length V.read_many flat_map] in *.
  - exists s. split; [reflexivity | exact Hs].
  - apply Forall_cons_iff in HF. destruct HF as [Hx HF]. rewrite <- app_assoc in Hs.
    pstep (read_bits_parses nb x Hx) Hs. pstep (IH HF) Hs. eexists. split; [reflexivity | exact Hs].
Qed.

(* reading the 19 lengths in kCodeLengthCodeOrder and sorting them back *)
Lemma code_length_order_find (val : Z -> Z) :
  map (fun k => match find (fun kv : Z * Z => fst kv =? k)
                           (combine (firstn 19 V.kCodeLengthCodeOrder) (map val encoder_CODE_LENGTH_ORDER)) with
                | Some kv => snd kv | None => 0 end)
      [0; 1; 2; 3; 4; 5; 6; 7; 8; 9; 10; 11; 12; 13; 14; 15; 16; 17; 18]
  = map val (V.zseq 0 19).
Proof. reflexivity. Qed.

(* ------------------------------------------------------------------------------------------------ *)
(** * the code lengths themselves *)
Lemma write_lengths_emits clc cll : length clc = 16%nat -> length cll = 16%nat ->
  forall lens, Forall (fun l => 0 <= l <= 15 /\ 0 <= nth (Z.to_nat l) cll 0 <= 15
                               /\ 0 <= nth (Z.to_nat l) clc 0 < 2 ^ nth (Z.to_nat l) cll 0) lens ->
  emits (write_lengths lens clc cll)
        (flat_map (fun l => bits_of (Z.to_nat (nth (Z.to_nat l) cll 0)) (nth (Z.to_nat l) clc 0)) lens) tt.
Proof.
  intros Hc Hl. induction lens as [|l tl IH]; intros HF; cbn [write_lengths flat_map].
  - apply emits_ret.
  - apply Forall_cons_iff in HF. destruct HF as [[Hr [Hll Hcc]] HF].
    eapply emits_lift_bind; [apply (lget_ok clc l 0); unfold zlen; lia|].
    eapply emits_lift_bind; [apply (lget_ok cll l 0); unfold zlen; lia|].
    apply emits_seq; [|apply IH; exact HF].
    apply write_bits_emits; [lia | exact Hcc].
Qed.

Lemma read_lengths_parses clcode (tb : Z -> list bool) : forall rest fuel tokens prev acc,
  (length rest <= fuel)%nat -> zlen rest <= tokens ->
  Forall (fun l => 0 <= l < 16 /\ parses (V.read_symbol clcode) (tb l) l) rest ->
  parses (V.read_lengths fuel clcode (zlen rest) tokens prev acc) (flat_map tb rest) (rev acc ++ rest).
Proof.
  induction rest as [|l tl IH]; intros fuel tokens prev acc Hfuel Htok HF s rest' Hs.
  - change (zlen (@nil Z)) with 0. destruct fuel; cbn [V.read_lengths]; change (0 <=? 0) with true; cbn [orb];
      change (Z.to_nat 0) with 0%nat; cbn [repeat]; rewrite rev_append_rev; (exists s; split; [reflexivity | exact Hs]).
  - apply Forall_cons_iff in HF. destruct HF as [[Hl Hp] HF].
    rewrite zlen_cons in *. pose proof (zlen_nonneg tl) as Hz. cbn [length] in Hfuel.
    destruct fuel as [|fuel]; [lia|]. cbn [V.read_lengths].
    replace (zlen tl + 1 <=? 0) with false by (symmetry; apply Z.leb_gt; lia).
    replace (tokens <=? 0) with false by (symmetry; apply Z.leb_gt; lia). cbn [orb].
    cbn [flat_map] in Hs. rewrite <- app_assoc in Hs. pstep Hp Hs.
    replace (l <? 16) with true by (symmetry; apply Z.ltb_lt; lia).
    replace (zlen tl + 1 - 1) with (zlen tl) by lia.
    destruct (IH fuel (tokens - 1) (if l =? 0 then prev else l) (l :: acc) ltac:(lia) ltac:(lia) HF s0 rest' Hs) as [s1 [E1 H1]].
    exists s1. split; [|exact H1]. rewrite E1. cbn [rev]. rewrite <- app_assoc. reflexivity.
Qed.

(* ------------------------------------------------------------------------------------------------ *)
(** * normal form, common part: header, 19 lengths, max_symbol, the lengths, make_code *)
Lemma flat_map_length_le {A B} (f : A -> list B) (k : nat) : forall l, Forall (fun x => (length (f x) <= k)%nat) l ->
  (length (flat_map f l) <= k * length l)%nat.
Proof.
  induction l as [|x tl IH]; intros H; cbn [flat_map length]; [lia|].
  apply Forall_cons_iff in H. destruct H as [Hx H]. rewrite app_length. specialize (IH H). lia.
Qed.

Lemma flat_map_length_eq {A B} (f : A -> list B) (k : nat) : forall l, Forall (fun x => length (f x) = k) l ->
  length (flat_map f l) = (k * length l)%nat.
Proof.
  induction l as [|x tl IH]; intros H; cbn [flat_map length]; [lia|].
  apply Forall_cons_iff in H. destruct H as [Hx H]. rewrite app_length. specialize (IH H). lia.
Qed.

Lemma se_bits_length sym : (length (se_bits sym) <= 11)%nat.
Proof. unfold se_bits. rewrite !app_length, !bits_of_length. destruct (sym <=? 1); lia. Qed.

Lemma normal_form_roundtrip (n : Z) (lens codes clf cll clc : list Z) (single : bool) clcode (tb : Z -> list bool) c :
  (n = 256 \/ n = 280) -> zlen lens = n ->
  length clf = 16%nat -> length cll = 16%nat -> Forall (fun x => 0 <= x < 8) cll ->
  V.make_code (map (cl_val clf cll single) (V.zseq 0 19)) = Some clcode ->
  Forall (fun l => 0 <= l < 16 /\ parses (V.read_symbol clcode) (tb l) l) lens ->
  emits (if single then ret tt else write_lengths lens clc cll) (flat_map tb lens) tt ->
  V.make_code lens = Some c ->
  Forall (fun l => (length (tb l) <= 7)%nat) lens ->
  exists bs,
    emits (mbind (write_bits 0 1) (fun _ => mbind (write_bits (19 - 4) 4) (fun _ =>
           mbind (write_code_length_lengths encoder_CODE_LENGTH_ORDER clf cll single) (fun _ =>
           mbind (if zlen lens =? 256 then mbind (write_bits 1 1) (fun _ => mbind (write_bits 3 3) (fun _ => write_bits 254 8))
                  else if zlen lens =? 280 then write_bits 0 1 else lift (Panic PUnreachable)) (fun _ =>
           mbind (if single then ret tt else write_lengths lens clc cll) (fun _ => ret (lens, codes)))))))
          bs (lens, codes)
    /\ parses (V.read_prefix_code n) bs c /\ zlen bs <= 74 + 7 * n.
Proof.
  intros Hn Hlen Hclf Hcll Hc8 Hmk HF Hwl Hmc Htb.
  set (maxbits := if n =? 256 then bits_of 1 1 ++ bits_of 3 3 ++ bits_of 8 254 else bits_of 1 0).
  set (clbits := flat_map (fun i => bits_of 3 (cl_val clf cll single i)) encoder_CODE_LENGTH_ORDER).
  exists (bits_of 1 0 ++ bits_of 4 15 ++ clbits ++ maxbits ++ flat_map tb lens ++ []).
  split; [|split].
  3:{ unfold zlen in *. rewrite !app_length, !bits_of_length. cbn [length].
      pose proof (flat_map_length_le tb 7 lens Htb) as H1.
      assert (H2 : length clbits = 57%nat).
      { unfold clbits. rewrite (flat_map_length_eq _ 3); [reflexivity|]. apply Forall_forall. intros; apply bits_of_length. }
      assert (H3 : (length maxbits <= 12)%nat).
      { unfold maxbits. destruct (n =? 256); rewrite ?app_length, !bits_of_length; lia. }
      lia. }
  - apply emits_seq; [apply (write_bits_emits_nat 0 1); [lia | change (2 ^ Z.of_nat 1) with 2; lia]|].
    apply emits_seq; [apply (write_bits_emits_nat 15 4); [lia | change (2 ^ Z.of_nat 4) with 16; lia]|].
    apply emits_seq; [apply write_code_length_lengths_emits; try assumption; repeat constructor; lia|].
    apply emits_seq.
    { rewrite Hlen. unfold maxbits. destruct Hn as [-> | ->].
      - change (256 =? 256) with true. cbv iota.
        apply emits_seq; [apply (write_bits_emits_nat 1 1); [lia | change (2 ^ Z.of_nat 1) with 2; lia]|].
        apply emits_seq; [apply (write_bits_emits_nat 3 3); [lia | change (2 ^ Z.of_nat 3) with 8; lia]|].
        apply (write_bits_emits_nat 254 8); [lia | change (2 ^ Z.of_nat 8) with 256; lia].
      - change (280 =? 256) with false. change (280 =? 280) with true. cbv iota.
        apply (write_bits_emits_nat 0 1); [lia | change (2 ^ Z.of_nat 1) with 2; lia]. }
    apply emits_seq; [exact Hwl | apply emits_ret].
  - intros s rest Hs. rewrite app_nil_r in Hs. rewrite <- !app_assoc in Hs. unfold V.read_prefix_code.
    pstep (read_bits_parses 1 0 ltac:(change (2 ^ Z.of_nat 1) with 2; lia)) Hs. cbv beta iota. change (0 =? 1) with false. cbv iota.
    unfold V.read_normal_lengths.
    pstep (read_bits_parses 4 15 ltac:(change (2 ^ Z.of_nat 4) with 16; lia)) Hs. cbv beta iota zeta.
    change (Z.to_nat (4 + 15)) with (length (map (cl_val clf cll single) encoder_CODE_LENGTH_ORDER)).
    unfold clbits in Hs.
    assert (Hcl : forall i, 0 <= cl_val clf cll single i < 8).
    { intros i. unfold cl_val. destruct (15 <? i) eqn:E15; [lia|]. apply Z.ltb_ge in E15.
      destruct (_ =? 0); [lia|]. destruct single; [lia|]. rewrite Forall_forall in Hc8.
      destruct (Z.lt_ge_cases i 0); [replace (Z.to_nat i) with 0%nat by lia|]; apply Hc8; apply nth_In; lia. }
    assert (Hfm : flat_map (fun i => bits_of 3 (cl_val clf cll single i)) encoder_CODE_LENGTH_ORDER
                  = flat_map (bits_of 3) (map (cl_val clf cll single) encoder_CODE_LENGTH_ORDER)).
    { rewrite !flat_map_concat_map, map_map. reflexivity. }
    rewrite Hfm in Hs.
    pstep (read_many_parses 3 (map (cl_val clf cll single) encoder_CODE_LENGTH_ORDER)
             ltac:(apply Forall_forall; intros x Hx; apply in_map_iff in Hx; destruct Hx as [i [<- _]]; change (2 ^ Z.of_nat 3) with 8; apply Hcl)) Hs.
    cbv beta iota.
    change (length (map (cl_val clf cll single) encoder_CODE_LENGTH_ORDER)) with 19%nat.
    rewrite code_length_order_find, Hmk.
    unfold maxbits in Hs. destruct Hn as [-> | ->].
    + change (256 =? 256) with true in Hs. cbv iota in Hs. rewrite <- !app_assoc in Hs.
      pstep (read_bits_parses 1 1 ltac:(change (2 ^ Z.of_nat 1) with 2; lia)) Hs. cbv beta iota. change (1 =? 0) with false. cbv iota.
      pstep (read_bits_parses 3 3 ltac:(change (2 ^ Z.of_nat 3) with 8; lia)) Hs. cbv beta iota.
      change (Z.to_nat (2 + 2 * 3)) with 8%nat.
      pstep (read_bits_parses 8 254 ltac:(change (2 ^ Z.of_nat 8) with 256; lia)) Hs. cbv beta iota.
      change (2 + 254 >? 256) with false. cbv iota. change (2 + 254) with 256.
      rewrite <- Hlen.
      pstep (read_lengths_parses clcode tb lens (Z.to_nat (zlen lens)) (zlen lens) 8 [] ltac:(unfold zlen; lia) ltac:(lia) HF) Hs.
      cbn [rev app]. rewrite Hmc. eexists. split; [reflexivity | exact Hs].
    + change (280 =? 256) with false in Hs. cbv iota in Hs.
      pstep (read_bits_parses 1 0 ltac:(change (2 ^ Z.of_nat 1) with 2; lia)) Hs. cbv beta iota. change (0 =? 0) with true. cbv iota.
      change (280 >? 280) with false. cbv iota.
      rewrite <- Hlen.
      pstep (read_lengths_parses clcode tb lens (Z.to_nat (zlen lens)) (zlen lens) 8 [] ltac:(unfold zlen; lia) ltac:(lia) HF) Hs.
      cbn [rev app]. rewrite Hmc. eexists. split; [reflexivity | exact Hs].
Qed.

(* ------------------------------------------------------------------------------------------------ *)
(** * the code-length code lives in a 19-symbol alphabet: three unused symbols appended *)
Lemma count_eq_zeros3 b l : b <> 0 -> count_eq b (l ++ [0; 0; 0]) = count_eq b l.
Proof.
  intros Hb. rewrite count_eq_app. cbn [count_eq]. replace (0 =? b) with false by (symmetry; apply Z.eqb_neq; lia). lia.
Qed.

Lemma next_code_app_zeros l k : next_code (l ++ [0; 0; 0]) k = next_code l k.
Proof.
  induction k as [|k IH]; cbn [next_code]; [reflexivity|]. rewrite IH. unfold bl_count.
  destruct (Z.of_nat k =? 0) eqn:E; [reflexivity|]. apply Z.eqb_neq in E. rewrite count_eq_zeros3 by exact E. reflexivity.
Qed.

Lemma stream_codes_app_zeros l k : (k < length l)%nat -> 0 < nth k l 0 ->
  nth k (stream_codes (l ++ [0; 0; 0])) 0 = nth k (stream_codes l) 0.
Proof.
  intros Hk Hp.
  rewrite stream_codes_nth by (rewrite ?app_length, ?app_nth1; cbn [length]; try lia; exact Hp).
  rewrite stream_codes_nth by assumption.
  rewrite app_nth1 by exact Hk. rewrite next_code_app_zeros. rewrite firstn_app.
  replace (k - length l)%nat with 0%nat by lia. cbn [firstn]. rewrite app_nil_r. reflexivity.
Qed.

Lemma kraft_app a b L : kraft (a ++ b) L = kraft a L + kraft b L.
Proof. induction a as [|x tl IH]; cbn [app kraft]; [lia | rewrite IH; lia]. Qed.

Lemma flat_map_nil {A B} (l : list A) : flat_map (fun _ : A => @nil B) l = [].
Proof. induction l as [|x tl IH]; cbn [flat_map]; [reflexivity | exact IH]. Qed.

Lemma list16_ext (l : list Z) (f : Z -> Z) : length l = 16%nat ->
  (forall k, (k < 16)%nat -> f (Z.of_nat k) = nth k l 0) -> map f (V.zseq 0 16) = l.
Proof.
  intros Hl Hf.
  do 16 (destruct l as [|? l]; [discriminate|]). destruct l; [|discriminate].
  cbn [V.zseq map Z.add Pos.add Pos.succ].
  pose proof (Hf 0%nat ltac:(lia)) as H0. pose proof (Hf 1%nat ltac:(lia)) as H1. pose proof (Hf 2%nat ltac:(lia)) as H2.
  pose proof (Hf 3%nat ltac:(lia)) as H3. pose proof (Hf 4%nat ltac:(lia)) as H4. pose proof (Hf 5%nat ltac:(lia)) as H5.
  pose proof (Hf 6%nat ltac:(lia)) as H6. pose proof (Hf 7%nat ltac:(lia)) as H7. pose proof (Hf 8%nat ltac:(lia)) as H8.
  pose proof (Hf 9%nat ltac:(lia)) as H9. pose proof (Hf 10%nat ltac:(lia)) as H10. pose proof (Hf 11%nat ltac:(lia)) as H11.
  pose proof (Hf 12%nat ltac:(lia)) as H12. pose proof (Hf 13%nat ltac:(lia)) as H13. pose proof (Hf 14%nat ltac:(lia)) as H14.
  pose proof (Hf 15%nat ltac:(lia)) as H15.
  cbn [nth Z.of_nat Pos.of_succ_nat Pos.succ] in *.
  rewrite H0, H1, H2, H3, H4, H5, H6, H7, H8, H9, H10, H11, H12, H13, H14, H15. reflexivity.
Qed.

(* ------------------------------------------------------------------------------------------------ *)
(** * L3 *)
Theorem write_huffman_tree_roundtrip sorter freqs n :
  sorter_ok sorter -> (n = 256 \/ n = 280) -> zlen freqs = n -> Forall (fun f => 0 <= f) freqs -> zsum freqs < 2 ^ 32 ->
  (exists i, (i < 256)%nat /\ 0 < nth i freqs 0) ->
  exists bs lens codes c,
    emits (write_huffman_tree sorter freqs) bs (lens, codes) /\ parses (V.read_prefix_code n) bs c
    /\ length lens = length freqs /\ length codes = length freqs
    /\ (forall k, (k < length freqs)%nat -> 0 < nth k freqs 0 -> sym_ok c lens codes k)
    /\ zlen bs <= 2100.
Proof.
  intros Hsort Hn Hlen Hnn Hsum [i0 [Hi0 Hp0]].
  assert (Hn0 : 256 <= n) by (destruct Hn; lia).
  destruct (Z.le_gt_cases (used freqs) 1) as [Hu | Hu].
  - (* a single used symbol: simple form *)
    destruct (huffman_few sorter freqs 15 Hu) as [E _].
    pose proof (position_pos_first freqs Hu i0 0 Hp0) as Hpos. rewrite Z.add_0_l in Hpos.
    destruct (single_entry_explicit (Z.of_nat i0) n ltac:(lia) ltac:(lia)) as [Hem Hpa]. set (bs := se_bits (Z.of_nat i0)).
    exists (bs ++ []), (zeros (length freqs)), (zeros (length freqs)), (V.Symbol (Z.of_nat i0)).
    split; [|split; [rewrite app_nil_r; exact Hpa|]].
    + unfold write_huffman_tree. eapply emits_lift_bind; [exact E|]. cbv beta iota. cbn [negb]. rewrite Hpos.
      unfold wrapU. rewrite Z.mod_small by (change (2 ^ 8) with 256; lia).
      apply emits_seq; [exact Hem | apply emits_ret].
    + rewrite zeros_length. split; [reflexivity|]. split; [reflexivity|].
      split; [|unfold zlen, bs; rewrite app_length; cbn [length]; pose proof (se_bits_length (Z.of_nat i0)); lia].
      intros k Hk Hpk. assert (k = i0) by (apply (used_le1_unique freqs Hu); assumption). subst k.
      unfold sym_ok. rewrite nth_zeros. change (2 ^ 0) with 1. split; [lia|]. split; [lia|].
      change (Z.to_nat 0) with 0%nat. cbn [bits_of]. apply read_symbol_leaf.
  - (* at least two used symbols: normal form *)
    destruct (huffman_ok_encoder sorter freqs 15 Hsort Hnn Hsum ltac:(lia) ltac:(left; split; [reflexivity | rewrite Hlen; exact Hn]))
      as [lens [codes [E C]]].
    destruct C as [Hll [Hlc [_ C2]]].
    destruct (C2 ltac:(unfold used_count; unfold used, zlen in Hu; lia)) as [_ [Hused [Hunused [Hk Hcodes]]]].
    assert (HFl : Forall (fun l => 0 <= l <= 15) lens).
    { apply Forall_forall. intros x Hx. destruct (In_nth _ _ 0 Hx) as [i [Hi Ei]]. rewrite Hll in Hi.
      destruct (Z.lt_ge_cases 0 (nth i freqs 0)) as [Hp | Hp]; [specialize (Hused i Hi Hp) | specialize (Hunused i Hi ltac:(lia))]; lia. }
    assert (Hzl : zlen lens = n) by (unfold zlen in *; rewrite Hll; exact Hlen).
    destruct (count_code_lengths_ok lens (zeros 16) (zeros_length 16) HFl) as [clf [Eclf [Hclf Hcnt]]].
    { intros b. rewrite nth_zeros. unfold u32_max. destruct Hn; lia. }
    assert (Hcnt' : forall b, nth b clf 0 = count_eq (Z.of_nat b) lens) by (intros b; rewrite Hcnt, nth_zeros; lia).
    assert (Hclf_nn : Forall (fun f => 0 <= f) clf).
    { apply Forall_forall. intros x Hx. destruct (In_nth _ _ 0 Hx) as [b [_ <-]]. rewrite Hcnt'. apply count_eq_nonneg. }
    assert (Hclf_sum : zsum clf < 2 ^ 32).
    { assert (HB : Forall (fun x => x <= n) clf).
      { apply Forall_forall. intros x Hx. destruct (In_nth _ _ 0 Hx) as [b [_ <-]]. rewrite Hcnt', <- Hzl. apply count_eq_le. }
      pose proof (zsum_bound clf n HB) as H. unfold zlen in H. rewrite Hclf in H. change (2 ^ 32) with 4294967296. destruct Hn; lia. }
    (* every length that occurs is a used symbol of the code-length histogram *)
    assert (Hin_clf : forall l, In l lens -> 0 <= l <= 15 /\ 0 < nth (Z.to_nat l) clf 0).
    { intros l Hl. rewrite Forall_forall in HFl. pose proof (HFl l Hl). split; [lia|].
      rewrite Hcnt', Z2Nat.id by lia. apply count_eq_In. exact Hl. }
    destruct (prefix_code_roundtrip lens HFl Hk) as [c [Hmc Hrt]].
    (* the second code: over the 16 length values, limit 7 *)
    assert (Hcommon : forall cll clc single clcode tb,
      build_huffman_tree sorter clf 7 = Ok (negb single, cll, clc) ->
      length cll = 16%nat -> Forall (fun x => 0 <= x < 8) cll ->
      V.make_code (map (cl_val clf cll single) (V.zseq 0 19)) = Some clcode ->
      Forall (fun l => 0 <= l < 16 /\ parses (V.read_symbol clcode) (tb l) l) lens ->
      emits (if single then ret tt else write_lengths lens clc cll) (flat_map tb lens) tt ->
      Forall (fun l => (length (tb l) <= 7)%nat) lens ->
      exists bs, emits (write_huffman_tree sorter freqs) bs (lens, codes) /\ parses (V.read_prefix_code n) bs c /\ zlen bs <= 2100).
    { intros cll clc single clcode tb E2 Hcl16 Hc8 Hmk HF Hwl Htb.
      destruct (normal_form_roundtrip n lens codes clf cll clc single clcode tb c Hn Hzl Hclf Hcl16 Hc8 Hmk HF Hwl Hmc Htb) as [bs [Hem [Hpa Hbl]]].
      exists bs. split; [|split; [exact Hpa | destruct Hn; lia]].
      unfold write_huffman_tree. eapply emits_lift_bind; [exact E|]. cbv beta iota. cbn [negb].
      eapply emits_lift_bind; [exact Eclf|]. eapply emits_lift_bind; [exact E2|]. cbv beta iota zeta.
      rewrite negb_involutive. exact Hem. }
    assert (Hsym : forall k, (k < length freqs)%nat -> 0 < nth k freqs 0 -> sym_ok c lens codes k).
    { intros k Hkl Hpk. specialize (Hused k Hkl Hpk). unfold sym_ok. split; [lia|].
      rewrite Hcodes. rewrite stream_codes_nth by (rewrite ?Hll; try exact Hkl; lia).
      split; [apply rev_bits_range; lia|].
      rewrite <- stream_codes_nth by (rewrite ?Hll; try exact Hkl; lia).
      apply Hrt; [rewrite Hll; exact Hkl | lia]. }
    destruct (Z.le_gt_cases (used clf) 1) as [Hu2 | Hu2].
    + (* all symbols have the same length b0: the single-code-length shortcut *)
      destruct (huffman_few sorter clf 7 Hu2) as [E2 _]. rewrite Hclf in E2.
      destruct lens as [|b0 ltl] eqn:Elens; [unfold zlen in Hzl; cbn in Hzl; lia|]. rewrite <- Elens in *.
      assert (Hb0in : In b0 lens) by (rewrite Elens; left; reflexivity).
      destruct (Hin_clf b0 Hb0in) as [Hb0r Hb0p].
      assert (Hall : forall l, In l lens -> l = b0).
      { intros l Hl. destruct (Hin_clf l Hl) as [Hlr Hlp].
        pose proof (used_le1_unique clf Hu2 _ _ Hlp Hb0p). lia. }
      assert (Hb01 : 1 <= b0).
      { assert (Hi0l : (i0 < length freqs)%nat) by (unfold zlen in Hlen; lia).
        specialize (Hused i0 Hi0l Hp0). rewrite <- (Hall (nth i0 lens 0)); [lia|]. apply nth_In. rewrite Hll. exact Hi0l. }
      destruct (Hcommon (zeros 16) (zeros 16) true (V.Symbol b0) (fun _ => [])) as [bs [Hem [Hpa Hbl]]].
      * exact E2.
      * apply zeros_length.
      * apply Forall_forall. intros x Hx. destruct (In_nth _ _ 0 Hx) as [b [_ <-]]. rewrite nth_zeros. lia.
      * rewrite <- (Z2Nat.id b0) by lia. apply (make_code_single _ (Z.to_nat b0) 1).
        -- rewrite map_length, zseq_length. lia.
        -- lia.
        -- rewrite map_length, zseq_length. intros i Hi. rewrite nth_map_zseq by exact Hi. unfold cl_val.
           rewrite Nat2Z.id, Hcnt'.
           destruct (Nat.eqb i (Z.to_nat b0)) eqn:Ei.
           ++ apply Nat.eqb_eq in Ei. subst i. rewrite Z2Nat.id by lia.
              replace (15 <? b0) with false by (symmetry; apply Z.ltb_ge; lia).
              rewrite Hcnt', Z2Nat.id in Hb0p by lia.
              replace (count_eq b0 lens =? 0) with false by (symmetry; apply Z.eqb_neq; lia).
              reflexivity.
           ++ apply Nat.eqb_neq in Ei. destruct (15 <? Z.of_nat i); [reflexivity|].
              replace (count_eq (Z.of_nat i) lens =? 0) with true; [reflexivity|]. symmetry. apply Z.eqb_eq.
              pose proof (count_eq_nonneg (Z.of_nat i) lens).
              destruct (Z.eq_dec (count_eq (Z.of_nat i) lens) 0) as [H0 | H0]; [exact H0|].
              exfalso. assert (Hin : In (Z.of_nat i) lens) by (apply count_eq_In; lia). apply Hall in Hin. lia.
      * apply Forall_forall. intros l Hl. rewrite (Hall l Hl). split; [lia | apply read_symbol_leaf].
      * rewrite flat_map_nil. apply emits_ret.
      * apply Forall_forall. intros; cbn [length]; lia.
      * exists bs, lens, codes, c. split; [exact Hem|]. split; [exact Hpa|]. split; [exact Hll|]. split; [exact Hlc|]. split; [exact Hsym | exact Hbl].
    + (* the general case *)
      destruct (huffman_ok_encoder sorter clf 7 Hsort Hclf_nn Hclf_sum ltac:(lia) ltac:(right; split; [reflexivity | unfold zlen; rewrite Hclf; reflexivity]))
        as [cll [clc [E2 C']]].
      destruct C' as [Hcll [Hclc [_ C2']]].
      destruct (C2' ltac:(unfold used_count; unfold used, zlen in Hu2; lia)) as [_ [Hcu [Hcz [Hk7 Hclc_eq]]]].
      rewrite Hclf in Hcll, Hclc, Hcu, Hcz.
      assert (HFc : Forall (fun l => 0 <= l <= 7) cll).
      { apply Forall_forall. intros x Hx. destruct (In_nth _ _ 0 Hx) as [b [Hb Eb]]. rewrite Hcll in Hb.
        destruct (Z.lt_ge_cases 0 (nth b clf 0)) as [Hp | Hp]; [specialize (Hcu b Hb Hp) | specialize (Hcz b Hb ltac:(lia))]; lia. }
      set (cll19 := cll ++ [0; 0; 0]).
      assert (HF19 : Forall (fun l => 0 <= l <= 15) cll19).
      { apply Forall_app. split; [eapply Forall_impl; [|exact HFc]; cbn; intros; lia | repeat constructor; lia]. }
      assert (Hk19 : kraft cll19 15 = 2 ^ 15).
      { unfold cll19. rewrite kraft_app. change 15 with (7 + 8) at 1 2. rewrite (kraft_scale cll 7 8 ltac:(lia) HFc), Hk7.
        cbn [kraft Z.ltb Z.compare]. reflexivity. }
      destruct (prefix_code_roundtrip cll19 HF19 Hk19) as [clcode [Hmk19 Hrt19]].
      assert (Hval : map (cl_val clf cll false) (V.zseq 0 19) = cll19).
      { change (V.zseq 0 19) with (V.zseq 0 16 ++ [16; 17; 18]). rewrite map_app. unfold cll19. f_equal.
        apply list16_ext; [exact Hcll|]. intros k Hk16. unfold cl_val. rewrite Nat2Z.id.
        replace (15 <? Z.of_nat k) with false by (symmetry; apply Z.ltb_ge; lia).
        destruct (nth k clf 0 =? 0) eqn:Ez; [|reflexivity]. apply Z.eqb_eq in Ez. symmetry. apply Hcz; lia. }
      destruct (Hcommon cll clc false clcode (fun l => bits_of (Z.to_nat (nth (Z.to_nat l) cll 0)) (nth (Z.to_nat l) clc 0)))
        as [bs [Hem [Hpa Hbl]]].
      * exact E2.
      * exact Hcll.
      * eapply Forall_impl; [|exact HFc]. cbn. intros; lia.
      * rewrite Hval. exact Hmk19.
      * apply Forall_forall. intros l Hl. destruct (Hin_clf l Hl) as [Hlr Hlp]. split; [lia|].
        specialize (Hcu (Z.to_nat l) ltac:(lia) Hlp).
        pose proof (Hrt19 (Z.to_nat l)) as H. unfold cll19 in H. rewrite app_length in H. cbn [length] in H.
        rewrite app_nth1 in H by lia. rewrite stream_codes_app_zeros in H by lia. rewrite Z2Nat.id in H by lia.
        rewrite Hclc_eq. apply H; lia.
      * apply write_lengths_emits; [exact Hclc | exact Hcll|].
        apply Forall_forall. intros l Hl. destruct (Hin_clf l Hl) as [Hlr Hlp].
        specialize (Hcu (Z.to_nat l) ltac:(lia) Hlp). split; [lia|]. split; [lia|].
        rewrite Hclc_eq. rewrite stream_codes_nth by lia. apply rev_bits_range. lia.
      * apply Forall_forall. intros l Hl. destruct (Hin_clf l Hl) as [Hlr Hlp].
        specialize (Hcu (Z.to_nat l) ltac:(lia) Hlp). rewrite bits_of_length. lia.
      * exists bs, lens, codes, c. split; [exact Hem|]. split; [exact Hpa|]. split; [exact Hll|]. split; [exact Hlc|]. split; [exact Hsym | exact Hbl].
Qed.
