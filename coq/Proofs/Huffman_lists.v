(* Generic facts used by the C14 proofs: the result monad, list update / lookup of the Model, sums over lists. *)
From Coq Require Import ZArith List Bool Lia Arith Permutation.
From WebP Require Import Lib.Res Model.EncoderHeap Model.Encoder.
Import ListNotations.
Open Scope Z_scope.

Lemma bind_ok {A B} (a : A) (f : A -> res B) : bind (Ok a) f = f a.
Proof. reflexivity. Qed.

Lemma bind_ok_inv {A B} (r : res A) (f : A -> res B) (b : B) :
  bind r f = Ok b -> exists a, r = Ok a /\ f a = Ok b.
Proof. destruct r; cbn [bind]; try discriminate. intros H. eexists; split; [reflexivity | exact H]. Qed.

Lemma zlen_nonneg {A} (l : list A) : 0 <= zlen l.
Proof. unfold zlen. lia. Qed.

(* ---- upd ---- *)
Lemma upd_length {A} (l : list A) k v : length (upd l k v) = length l.
Proof. revert k. induction l as [|x tl IH]; intros [|k]; cbn [upd length]; auto. Qed.

Lemma nth_upd_eq {A} (l : list A) k v d : (k < length l)%nat -> nth k (upd l k v) d = v.
Proof. revert k. induction l as [|x tl IH]; intros [|k] H; cbn [upd nth length] in *; try lia; auto. apply IH. lia. Qed.

Lemma nth_upd_neq {A} (l : list A) k j v d : k <> j -> nth j (upd l k v) d = nth j l d.
Proof.
  revert k j. induction l as [|x tl IH]; intros [|k] [|j] H; cbn [upd nth]; try reflexivity; try lia.
  apply IH. lia.
Qed.

Lemma upd_out {A} (l : list A) k v : (length l <= k)%nat -> upd l k v = l.
Proof. revert k. induction l as [|x tl IH]; intros [|k] H; cbn [upd length] in *; try reflexivity; try lia. f_equal. apply IH. lia. Qed.

(* ---- lget / lset ---- *)
Lemma lget_ok {A} (l : list A) i d : 0 <= i < zlen l -> lget l i = Ok (nth (Z.to_nat i) l d).
Proof.
  intros H. unfold lget, zlen in *. destruct (i <? 0) eqn:E; [apply Z.ltb_lt in E; lia|].
  rewrite (nth_error_nth' l d) by lia. reflexivity.
Qed.

Lemma lset_ok {A} (l : list A) i v : 0 <= i < zlen l -> lset l i v = Ok (upd l (Z.to_nat i) v).
Proof.
  intros H. unfold lset. replace ((0 <=? i) && (i <? zlen l)) with true; [reflexivity|].
  symmetry. apply andb_true_iff. rewrite Z.leb_le, Z.ltb_lt. exact H.
Qed.

Lemma zlen_upd {A} (l : list A) k v : zlen (upd l k v) = zlen l.
Proof. unfold zlen. rewrite upd_length. reflexivity. Qed.

Lemma zlen_cons {A} (x : A) l : zlen (x :: l) = zlen l + 1.
Proof. unfold zlen. cbn [length]. lia. Qed.

Lemma zlen_app {A} (a b : list A) : zlen (a ++ b) = zlen a + zlen b.
Proof. unfold zlen. rewrite app_length. lia. Qed.

Lemma zeros_length n : length (zeros n) = n.
Proof. apply repeat_length. Qed.

Lemma nth_zeros n k : nth k (zeros n) 0 = 0.
Proof. unfold zeros. revert k. induction n as [|n IH]; intros [|k]; cbn [repeat nth]; auto. Qed.

(* ---- sums ---- *)
Fixpoint zsum (l : list Z) : Z := match l with [] => 0 | x :: tl => x + zsum tl end.

Lemma zsum_app a b : zsum (a ++ b) = zsum a + zsum b.
Proof. induction a as [|x tl IH]; cbn [zsum app]; lia. Qed.

Lemma zsum_perm a b : Permutation a b -> zsum a = zsum b.
Proof. induction 1; cbn [zsum]; lia. Qed.

Lemma zsum_map_ext {A} (f g : A -> Z) l : (forall x, In x l -> f x = g x) -> zsum (map f l) = zsum (map g l).
Proof.
  induction l as [|x tl IH]; intros H; cbn [map zsum]; [reflexivity|].
  rewrite (H x (or_introl eq_refl)), IH; [reflexivity|]. intros y Hy. apply H. right. exact Hy.
Qed.

Lemma zsum_nonneg l : Forall (fun x => 0 <= x) l -> 0 <= zsum l.
Proof. induction 1; cbn [zsum]; lia. Qed.

Lemma zsum_upd l k v : (k < length l)%nat -> zsum (upd l k v) = zsum l - nth k l 0 + v.
Proof.
  revert k. induction l as [|x tl IH]; intros [|k] H; cbn [upd zsum nth length] in *; try lia.
  rewrite IH by lia. lia.
Qed.

Lemma pow2_pos n : 0 <= n -> 0 < 2 ^ n.
Proof. intros. apply Z.pow_pos_nonneg; lia. Qed.

Lemma pow2_succ n : 0 <= n -> 2 ^ (n + 1) = 2 * 2 ^ n.
Proof. intros. rewrite Z.pow_add_r by lia. lia. Qed.

Lemma NoDup_app_inv {A} (l1 l2 : list A) :
  NoDup (l1 ++ l2) -> NoDup l1 /\ NoDup l2 /\ (forall x, In x l1 -> In x l2 -> False).
Proof.
  induction l1 as [|a tl IH]; cbn [app]; intros H.
  - split; [constructor | split; [exact H | intros x []]].
  - inversion H as [|? ? Hn Hd]; subst. destruct (IH Hd) as [H1 [H2 H3]].
    split; [|split; [exact H2|]].
    + constructor; [|exact H1]. intros Hin. apply Hn. apply in_or_app. left. exact Hin.
    + intros x [-> | Hx] Hx2; [apply Hn; apply in_or_app; right; exact Hx2 | exact (H3 x Hx Hx2)].
Qed.
