(* C13: the YUV->RGB kernels regenerated from vp8.rs equal libwebp's yuv.h conversion for every sample triple, and the
   row functions place them as the property says (first of pair, second of pair, odd tail; alpha untouched). *)
From Coq Require Import ZArith Lia List Bool Arith.
From WebP Require Import Gen.Kernels Lib.ZBits Lib.Res Spec.YUV Model.Yuv.
Import ListNotations.
Open Scope Z_scope.

Ltac Zify.zify_post_hook ::= Z.div_mod_to_equations.

(* ---------------- scalar kernels ---------------- *)
Lemma mulhi_spec v c : 0 <= v <= 255 -> 0 <= c <= 65535 -> mulhi v c = MultHi v c.
Proof.
  intros Hv Hc. unfold mulhi, MultHi, wrapS.
  rewrite Z.shiftr_div_pow2 by lia. change (2 ^ 8) with 256. change (2 ^ (32 - 1)) with 2147483648.
  change (2 ^ 32) with 4294967296.
  assert (0 <= v * c <= 255 * 65535) by nia.
  assert (0 <= v * c / 256 < 2147483648) by lia.
  rewrite Z.mod_small by lia. lia.
Qed.

Lemma mulhi_range v c : 0 <= v <= 255 -> 0 <= c <= 65535 -> 0 <= MultHi v c <= 65279.
Proof.
  intros Hv Hc. unfold MultHi. rewrite Z.shiftr_div_pow2 by lia. change (2 ^ 8) with 256.
  assert (0 <= v * c <= 255 * 65535) by nia. lia.
Qed.

Lemma mask_test v : (Z.land v (Z.lnot YUV_MASK2) =? 0) = (0 <=? v) && (v <? 16384).
Proof.
  change YUV_MASK2 with (Z.ones 14).
  rewrite <- Z.ldiff_land, Z.ldiff_ones_r by lia.
  rewrite Z.shiftl_mul_pow2, Z.shiftr_div_pow2 by lia. change (2 ^ 14) with 16384.
  destruct (Z.eqb_spec (v / 16384 * 16384) 0) as [E | E];
    destruct (Z.leb_spec 0 v); destruct (Z.ltb_spec v 16384); cbn [andb]; try reflexivity; lia.
Qed.

Lemma clip_spec v : clip v = VP8Clip8 v.
Proof.
  unfold clip, VP8Clip8. cbv zeta. rewrite mask_test. change YUV_FIX2 with 6.
  rewrite Z.shiftr_div_pow2 by lia. change (2 ^ 6) with 64.
  destruct (Z.leb_spec 0 v) as [H0 | H0]; destruct (Z.ltb_spec v 16384) as [H1 | H1]; cbn [andb].
  - rewrite wrapU_small by (change (2 ^ 8) with 256; lia). lia.
  - destruct (Z.ltb_spec v 0); [lia|]. rewrite wrapU_small by (change (2 ^ 8) with 256; lia). lia.
  - destruct (Z.ltb_spec v 0); [|lia]. rewrite wrapU_small by (change (2 ^ 8) with 256; lia). lia.
  - lia.
Qed.

Section Triple.
  Variables y y1 u v : Z.
  Hypothesis Hy : byte y. Hypothesis Hy1 : byte y1. Hypothesis Hu : byte u. Hypothesis Hv : byte v.

  Lemma rgb_tail_spec : rgb_tail y u v = rgb y u v.
  Proof.
    unfold byte in *. unfold rgb_tail, rgb, VP8YUVToR, VP8YUVToG, VP8YUVToB. cbv zeta.
    rewrite !mulhi_spec by lia. rewrite !clip_spec. reflexivity.
  Qed.

  Lemma rgb_pair_spec : rgb_pair y y1 u v = rgb y u v ++ rgb y1 u v.
  Proof.
    unfold byte in *. unfold rgb_pair, rgb, VP8YUVToR, VP8YUVToG, VP8YUVToB. cbv zeta.
    rewrite !mulhi_spec by lia. rewrite !clip_spec. reflexivity.
  Qed.

  Lemma rgba_tail_spec : rgba_tail y u v = rgb y u v.
  Proof.
    unfold byte in *. unfold rgba_tail, rgb, VP8YUVToR, VP8YUVToG, VP8YUVToB. cbv zeta.
    rewrite !mulhi_spec by lia. rewrite !clip_spec. reflexivity.
  Qed.

  Lemma rgba_pair_spec b0 b1 b2 b3 b4 b5 b6 b7 :
    rgba_pair y y1 u v b0 b1 b2 b3 b4 b5 b6 b7 = rgb y u v ++ [b3] ++ rgb y1 u v ++ [b7].
  Proof.
    unfold byte in *. unfold rgba_pair, rgb, VP8YUVToR, VP8YUVToG, VP8YUVToB. cbv zeta.
    rewrite !mulhi_spec by lia. rewrite !clip_spec. reflexivity.
  Qed.

  (* checked-build panic freedom of the per-pixel arithmetic *)
  Lemma mulhi_ok_bytes c : 0 <= c <= 65535 -> mulhi_ok y c = true.
  Proof. intros Hc. unfold mulhi_ok. apply inr_true. unfold byte in *. nia. Qed.
End Triple.

Lemma rgb_byte y u v : byte y -> byte u -> byte v -> Forall byte (rgb y u v).
Proof.
  intros Hy Hu Hv. unfold rgb.
  assert (Hc : forall x, byte (VP8Clip8 x)).
  { intros x. unfold VP8Clip8. rewrite mask_test. change YUV_FIX2 with 6. rewrite Z.shiftr_div_pow2 by lia.
    change (2 ^ 6) with 64. unfold byte.
    destruct (Z.leb_spec 0 x); destruct (Z.ltb_spec x 16384); cbn [andb]; try (destruct (Z.ltb_spec x 0)); lia. }
  repeat constructor; apply Hc.
Qed.

(* ---------------- rows ---------------- *)
Lemma flat_map_seq_shift {A} n : forall (f : nat -> list A) k,
  flat_map f (seq k n) = flat_map (fun x => f (x + k)%nat) (seq 0 n).
Proof.
  induction n as [|n IH]; intros f k; [reflexivity|].
  cbn [seq flat_map]. rewrite (IH f (S k)). rewrite (IH (fun x => f (x + k)%nat) 1%nat).
  f_equal. apply flat_map_ext. intros a. f_equal. lia.
Qed.

Lemma div2_add2 x : ((x + 2) / 2 = S (x / 2))%nat.
Proof. replace (x + 2)%nat with (x + 1 * 2)%nat by lia. rewrite Nat.div_add by lia. lia. Qed.

Lemma rgb_row_cons2 y0 y1 ys u us v vs :
  rgb_row (y0 :: y1 :: ys) (u :: us) (v :: vs) = rgb y0 u v ++ rgb y1 u v ++ rgb_row ys us vs.
Proof.
  unfold rgb_row. cbn [length seq flat_map].
  change (0 / 2)%nat with 0%nat. change (1 / 2)%nat with 0%nat. cbn [nthZ nth].
  do 2 f_equal.
  rewrite (flat_map_seq_shift _ _ 2). apply flat_map_ext. intros x.
  rewrite div2_add2. unfold nthZ. replace (x + 2)%nat with (S (S x)) by lia. reflexivity.
Qed.

Lemma rgba_row_cons2 y0 y1 ys u us v vs b0 b1 b2 b3 b4 b5 b6 b7 buf :
  rgba_row (y0 :: y1 :: ys) (u :: us) (v :: vs) (b0 :: b1 :: b2 :: b3 :: b4 :: b5 :: b6 :: b7 :: buf)
  = rgb y0 u v ++ [b3] ++ rgb y1 u v ++ [b7] ++ rgba_row ys us vs buf.
Proof.
  unfold rgba_row. cbn [length seq flat_map].
  change (0 / 2)%nat with 0%nat. change (1 / 2)%nat with 0%nat.
  change (4 * 0 + 3)%nat with 3%nat. change (4 * 1 + 3)%nat with 7%nat. cbn [nthZ nth].
  rewrite <- !app_assoc. do 4 f_equal.
  rewrite (flat_map_seq_shift _ _ 2). apply flat_map_ext. intros x.
  rewrite div2_add2. unfold nthZ. replace (x + 2)%nat with (S (S x)) by lia.
  replace (4 * S (S x) + 3)%nat with (S (S (S (S (S (S (S (S (4 * x + 3))))))))) by lia. reflexivity.
Qed.

(* induction two elements at a time *)
Lemma list_ind2 {A} (P : list A -> Prop) :
  P [] -> (forall a, P [a]) -> (forall a b l, P l -> P (a :: b :: l)) -> forall l, P l.
Proof.
  intros H0 H1 H2. fix IH 1. intros [|a [|b l]]; [exact H0 | apply H1 | apply H2, IH].
Qed.

Lemma fill_rgb_row_spec_lemma : forall ys us vs,
  Forall byte ys -> Forall byte us -> Forall byte vs ->
  ((length ys + 1) / 2 <= length us)%nat -> ((length ys + 1) / 2 <= length vs)%nat ->
  fill_rgb_row ys us vs = rgb_row ys us vs.
Proof.
  intros ys. induction ys as [|y|y0 y1 ys IH] using list_ind2; intros us vs Hys Hus Hvs Hlu Hlv.
  - destruct us, vs; reflexivity.
  - cbn [length] in Hlu, Hlv. change ((1 + 1) / 2)%nat with 1%nat in *.
    destruct us as [|u us]; [cbn [length] in Hlu; lia|]. destruct vs as [|v vs]; [cbn [length] in Hlv; lia|].
    cbn [fill_rgb_row]. inversion Hys; inversion Hus; inversion Hvs; subst.
    rewrite rgb_tail_spec by assumption. unfold rgb_row. cbn [length seq flat_map]. change (0 / 2)%nat with 0%nat.
    cbn [nthZ nth]. rewrite app_nil_r. reflexivity.
  - cbn [length] in Hlu, Hlv.
    replace ((S (S (length ys)) + 1) / 2)%nat with (S ((length ys + 1) / 2)) in Hlu, Hlv
      by (replace (S (S (length ys)) + 1)%nat with ((length ys + 1) + 1 * 2)%nat by lia; rewrite Nat.div_add by lia; lia).
    destruct us as [|u us]; [cbn [length] in Hlu; lia|]. destruct vs as [|v vs]; [cbn [length] in Hlv; lia|].
    cbn [length] in Hlu, Hlv.
    cbn [fill_rgb_row]. inversion Hys as [|? ? Hy0 Hys']; inversion Hys' as [|? ? Hy1 Hys'']; inversion Hus; inversion Hvs; subst.
    rewrite rgb_pair_spec by assumption. rewrite rgb_row_cons2. rewrite <- app_assoc. do 2 f_equal.
    apply IH; try assumption; lia.
Qed.

Lemma fill_rgba_row_spec_lemma : forall ys us vs buf,
  Forall byte ys -> Forall byte us -> Forall byte vs ->
  ((length ys + 1) / 2 <= length us)%nat -> ((length ys + 1) / 2 <= length vs)%nat ->
  length buf = (4 * length ys)%nat ->
  fill_rgba_row ys us vs buf = rgba_row ys us vs buf.
Proof.
  intros ys. induction ys as [|y|y0 y1 ys IH] using list_ind2; intros us vs buf Hys Hus Hvs Hlu Hlv Hlb.
  - destruct buf; [|cbn [length] in Hlb; lia]. destruct us, vs; reflexivity.
  - cbn [length] in Hlu, Hlv, Hlb. change ((1 + 1) / 2)%nat with 1%nat in *.
    destruct us as [|u us]; [cbn [length] in Hlu; lia|]. destruct vs as [|v vs]; [cbn [length] in Hlv; lia|].
    destruct buf as [|b0 [|b1 [|b2 [|b3 [|b4 buf]]]]]; cbn [length] in Hlb; try lia.
    cbn [fill_rgba_row]. inversion Hys; inversion Hus; inversion Hvs; subst.
    rewrite rgba_tail_spec by assumption. unfold rgba_row. cbn [length seq flat_map]. change (0 / 2)%nat with 0%nat.
    change (4 * 0 + 3)%nat with 3%nat. cbn [nthZ nth]. rewrite app_nil_r. reflexivity.
  - cbn [length] in Hlu, Hlv, Hlb.
    replace ((S (S (length ys)) + 1) / 2)%nat with (S ((length ys + 1) / 2)) in Hlu, Hlv
      by (replace (S (S (length ys)) + 1)%nat with ((length ys + 1) + 1 * 2)%nat by lia; rewrite Nat.div_add by lia; lia).
    destruct us as [|u us]; [cbn [length] in Hlu; lia|]. destruct vs as [|v vs]; [cbn [length] in Hlv; lia|].
    cbn [length] in Hlu, Hlv.
    destruct buf as [|b0 [|b1 [|b2 [|b3 [|b4 [|b5 [|b6 [|b7 buf]]]]]]]]; cbn [length] in Hlb; try lia.
    cbn [fill_rgba_row]. inversion Hys as [|? ? Hy0 Hys']; inversion Hys' as [|? ? Hy1 Hys'']; inversion Hus; inversion Hvs; subst.
    rewrite rgba_pair_spec by assumption. rewrite rgba_row_cons2. rewrite <- !app_assoc. do 4 f_equal.
    apply IH; try assumption; lia.
Qed.


(* ---------------- planes ---------------- *)
Lemma nth_firstn_lt {A} (l : list A) n i d : (i < n)%nat -> nth i (firstn n l) d = nth i l d.
Proof.
  revert l i. induction n as [|n IH]; intros l i Hi; [lia|].
  destruct l as [|a l]; [destruct i; reflexivity|]. destruct i as [|i]; [reflexivity|].
  cbn [firstn nth]. apply IH. lia.
Qed.

Lemma half_lt x n : (x < n)%nat -> (x / 2 < (n + 1) / 2)%nat.
Proof.
  intros H. apply Nat.div_lt_upper_bound; [lia|].
  pose proof (Nat.div_mod (n + 1) 2 ltac:(lia)) as E. pose proof (Nat.mod_upper_bound (n + 1) 2 ltac:(lia)). lia.
Qed.

Lemma rgb_row_firstn ys us vs c : ((length ys + 1) / 2 <= c)%nat ->
  rgb_row ys (firstn c us) (firstn c vs) = rgb_row ys us vs.
Proof.
  intros Hc. unfold rgb_row. rewrite !flat_map_concat_map. f_equal. apply map_ext_in. intros x Hx.
  apply in_seq in Hx. unfold nthZ. pose proof (half_lt x (length ys) ltac:(lia)).
  rewrite !nth_firstn_lt by lia. reflexivity.
Qed.

Lemma rgba_row_firstn ys us vs buf c : ((length ys + 1) / 2 <= c)%nat ->
  rgba_row ys (firstn c us) (firstn c vs) buf = rgba_row ys us vs buf.
Proof.
  intros Hc. unfold rgba_row. rewrite !flat_map_concat_map. f_equal. apply map_ext_in. intros x Hx.
  apply in_seq in Hx. unfold nthZ. pose proof (half_lt x (length ys) ltac:(lia)).
  rewrite !nth_firstn_lt by lia. reflexivity.
Qed.

Lemma Forall_firstn {A} (P : A -> Prop) n l : Forall P l -> Forall P (firstn n l).
Proof. revert l. induction n; intros l H; [constructor|]. destruct H; cbn [firstn]; constructor; auto. Qed.
Lemma Forall_skipn {A} (P : A -> Prop) n l : Forall P l -> Forall P (skipn n l).
Proof. revert l. induction n; intros l H; [exact H|]. destruct H; cbn [skipn]; [constructor | auto]. Qed.

Lemma skipn_skipn {A} (x y : nat) (l : list A) : skipn x (skipn y l) = skipn (x + y) l.
Proof.
  revert l. induction y as [|y IH]; intros l; [rewrite Nat.add_0_r; reflexivity|].
  destruct l as [|a l]; [rewrite !skipn_nil; reflexivity|].
  replace (x + S y)%nat with (S (x + y)) by lia. cbn [skipn]. apply IH.
Qed.

Lemma flat_map_ext_in {A B} (f g : A -> list B) l : (forall a, In a l -> f a = g a) -> flat_map f l = flat_map g l.
Proof.
  induction l as [|a l IH]; intros H; [reflexivity|]. cbn [flat_map].
  rewrite (H a (or_introl eq_refl)). f_equal. apply IH. intros b Hb. apply H. right. exact Hb.
Qed.

Lemma flat_map_seq_S {A} (f : nat -> list A) k n :
  flat_map f (seq k (S n)) = flat_map f (seq k n) ++ f (k + n)%nat.
Proof. rewrite seq_S, flat_map_app. cbn [flat_map]. rewrite app_nil_r. reflexivity. Qed.

Section Plane.
  Variables (w h : nat) (yp up vp : list Z).
  Let cw := ((w + 1) / 2)%nat.
  Let ch := ((h + 1) / 2)%nat.
  Hypothesis Hw : (1 <= w)%nat.
  Hypothesis Hyl : length yp = (w * h)%nat.
  Hypothesis Hul : length up = (cw * ch)%nat.
  Hypothesis Hvl : length vp = (cw * ch)%nat.
  Hypothesis Hyb : Forall byte yp. Hypothesis Hub : Forall byte up. Hypothesis Hvb : Forall byte vp.

  Lemma chroma_row_fits r : (r < h)%nat -> (cw * (r / 2) + cw <= cw * ch)%nat.
  Proof. intros Hr. pose proof (half_lt r h Hr). subst ch. nia. Qed.

  Lemma luma_row_fits r : (r < h)%nat -> (r * w + w <= w * h)%nat.
  Proof. intros Hr. nia. Qed.

  Lemma row_len r : (r < h)%nat -> length (row_of w yp r) = w.
  Proof.
    intros Hr. unfold row_of. rewrite firstn_length, skipn_length. pose proof (luma_row_fits r Hr). lia.
  Qed.

  Lemma take_row r : (r < h)%nat -> take_range yp (r * w) w = Some (row_of w yp r).
  Proof.
    intros Hr. unfold take_range. pose proof (luma_row_fits r Hr).
    destruct (Nat.leb_spec (r * w + w) (length yp)); [reflexivity | lia].
  Qed.

  Lemma from_chroma (p : list Z) r : length p = (cw * ch)%nat -> (r < h)%nat ->
    from_index p (cw * (r / 2)) = Some (skipn (cw * (r / 2)) p).
  Proof.
    intros Hp Hr. unfold from_index. pose proof (chroma_row_fits r Hr).
    destruct (Nat.leb_spec (cw * (r / 2)) (length p)); [reflexivity | lia].
  Qed.

  (* one row of the three-channel writer *)
  Lemma rgb_one_row r : (r < h)%nat ->
    fill_rgb_row (row_of w yp r) (skipn (cw * (r / 2)) up) (skipn (cw * (r / 2)) vp)
    = rgb_row (row_of w yp r) (row_of cw up (r / 2)) (row_of cw vp (r / 2)).
  Proof.
    intros Hr. pose proof (row_len r Hr) as Hl. pose proof (chroma_row_fits r Hr) as Hc.
    set (ys := row_of w yp r) in *.
    rewrite fill_rgb_row_spec_lemma.
    - unfold row_of. rewrite (Nat.mul_comm (r / 2) cw). rewrite rgb_row_firstn; [reflexivity|]. rewrite Hl. subst cw. lia.
    - subst ys. unfold row_of. apply Forall_firstn, Forall_skipn, Hyb.
    - apply Forall_skipn, Hub.
    - apply Forall_skipn, Hvb.
    - rewrite Hl, skipn_length, Hul. fold cw. lia.
    - rewrite Hl, skipn_length, Hvl. fold cw. lia.
  Qed.

  Lemma rgba_one_row r row : (r < h)%nat -> length row = (4 * w)%nat ->
    fill_rgba_row (row_of w yp r) (skipn (cw * (r / 2)) up) (skipn (cw * (r / 2)) vp) row
    = rgba_row (row_of w yp r) (row_of cw up (r / 2)) (row_of cw vp (r / 2)) row.
  Proof.
    intros Hr Hrow. pose proof (row_len r Hr) as Hl. pose proof (chroma_row_fits r Hr) as Hc.
    set (ys := row_of w yp r) in *.
    rewrite fill_rgba_row_spec_lemma.
    - unfold row_of. rewrite (Nat.mul_comm (r / 2) cw). rewrite rgba_row_firstn; [reflexivity|]. rewrite Hl. subst cw. lia.
    - subst ys. unfold row_of. apply Forall_firstn, Forall_skipn, Hyb.
    - apply Forall_skipn, Hub.
    - apply Forall_skipn, Hvb.
    - rewrite Hl, skipn_length, Hul. fold cw. lia.
    - rewrite Hl, skipn_length, Hvl. fold cw. lia.
    - rewrite Hl. exact Hrow.
  Qed.

  (* loop invariant of fill_rows for the RGB writer *)
  Lemma fill_rows_rgb rows : forall r buf acc, (r + rows <= h)%nat -> (rows * (w * 3) <= length buf)%nat ->
    fill_rows false w cw yp up vp rows r buf acc =
    Ok (concat (rev acc)
        ++ flat_map (fun k => rgb_row (row_of w yp k) (row_of cw up (k / 2)) (row_of cw vp (k / 2))) (seq r rows)
        ++ skipn (rows * (w * 3)) buf).
  Proof.
    induction rows as [|rows IH]; intros r buf acc Hr Hb.
    - cbn [fill_rows seq flat_map]. reflexivity.
    - cbn [fill_rows]. rewrite take_row by lia. rewrite !from_chroma by (assumption || lia).
      rewrite IH by (try lia; rewrite skipn_length; lia).
      rewrite rgb_one_row by lia. cbn [rev seq flat_map]. rewrite concat_app. cbn [concat]. rewrite app_nil_r.
      rewrite <- !app_assoc. do 3 f_equal. rewrite skipn_skipn. f_equal. f_equal. lia.
  Qed.

  Lemma fill_rows_rgba rows : forall r buf acc, (r + rows <= h)%nat -> (rows * (w * 4) <= length buf)%nat ->
    fill_rows true w cw yp up vp rows r buf acc =
    Ok (concat (rev acc)
        ++ flat_map (fun k => rgba_row (row_of w yp k) (row_of cw up (k / 2)) (row_of cw vp (k / 2))
                                        (row_of (4 * w) buf (k - r))) (seq r rows)
        ++ skipn (rows * (w * 4)) buf).
  Proof.
    induction rows as [|rows IH]; intros r buf acc Hr Hb.
    - cbn [fill_rows seq flat_map]. reflexivity.
    - cbn [fill_rows]. rewrite take_row by lia. rewrite !from_chroma by (assumption || lia).
      rewrite IH by (try lia; rewrite skipn_length; lia).
      rewrite rgba_one_row by (try lia; rewrite firstn_length; lia).
      cbn [rev seq flat_map]. rewrite concat_app. cbn [concat]. rewrite app_nil_r.
      rewrite <- !app_assoc. f_equal. f_equal. f_equal.
      + f_equal. replace (r - r)%nat with 0%nat by lia. unfold row_of. change (0 * (4 * w))%nat with 0%nat. cbn [skipn].
        rewrite (Nat.mul_comm 4 w). reflexivity.
      + f_equal.
        * apply flat_map_ext_in. intros k Hk. apply in_seq in Hk. f_equal.
          unfold row_of. rewrite skipn_skipn. f_equal. f_equal. nia.
        * rewrite skipn_skipn. f_equal. lia.
  Qed.
End Plane.

Lemma fill_rgb_spec_lemma w h yp up vp buf :
  (1 <= w)%nat -> length yp = (w * h)%nat ->
  length up = (((w + 1) / 2) * ((h + 1) / 2))%nat -> length vp = (((w + 1) / 2) * ((h + 1) / 2))%nat ->
  Forall byte yp -> Forall byte up -> Forall byte vp -> length buf = (w * h * 3)%nat ->
  fill_rgb w yp up vp buf = Ok (rgb_plane w h yp up vp).
Proof.
  intros Hw Hy Hu Hv Hyb Hub Hvb Hb. unfold fill_rgb, fill_plane.
  destruct (Nat.eqb_spec w 0) as [E | _]; [lia|].
  replace (length buf / (w * 3))%nat with h by (rewrite Hb; replace (w * h * 3)%nat with (h * (w * 3))%nat by lia; rewrite Nat.div_mul by lia; reflexivity).
  rewrite (fill_rows_rgb w h yp up vp Hw Hy Hu Hv Hyb Hub Hvb h 0 buf []) by lia.
  cbn [rev concat app]. rewrite skipn_all2 by lia. rewrite app_nil_r. reflexivity.
Qed.

Lemma fill_rgba_spec_lemma w h yp up vp buf :
  (1 <= w)%nat -> length yp = (w * h)%nat ->
  length up = (((w + 1) / 2) * ((h + 1) / 2))%nat -> length vp = (((w + 1) / 2) * ((h + 1) / 2))%nat ->
  Forall byte yp -> Forall byte up -> Forall byte vp -> length buf = (w * h * 4)%nat ->
  fill_rgba w yp up vp buf = Ok (rgba_plane w h yp up vp buf).
Proof.
  intros Hw Hy Hu Hv Hyb Hub Hvb Hb. unfold fill_rgba, fill_plane.
  destruct (Nat.eqb_spec w 0) as [E | _]; [lia|].
  replace (length buf / (w * 4))%nat with h by (rewrite Hb; replace (w * h * 4)%nat with (h * (w * 4))%nat by lia; rewrite Nat.div_mul by lia; reflexivity).
  rewrite (fill_rows_rgba w h yp up vp Hw Hy Hu Hv Hyb Hub Hvb h 0 buf []) by lia.
  cbn [rev concat app]. rewrite skipn_all2 by lia. rewrite app_nil_r. unfold rgba_plane.
  apply f_equal. apply flat_map_ext_in. intros k Hk. rewrite Nat.sub_0_r. reflexivity.
Qed.

(* ---------------- checked-build panic freedom of the per-pixel arithmetic (feeds C03) ---------------- *)
Lemma clip_ok_true v : clip_ok v = true.
Proof. reflexivity. Qed.

Ltac yuv_ok_tac :=
  cbv zeta; rewrite ?clip_ok_true;
  repeat match goal with |- context [mulhi_ok ?a ?c] => rewrite (mulhi_ok_bytes a ltac:(assumption) c ltac:(lia)) end;
  rewrite !mulhi_spec by (unfold byte in *; lia);
  repeat match goal with |- context [MultHi ?a ?c] =>
    let H := fresh "Hm" in pose proof (mulhi_range a c ltac:(unfold byte in *; lia) ltac:(lia)) as H;
    let m := fresh "m" in set (m := MultHi a c) in * end;
  repeat (apply andb_true_intro; split); first [reflexivity | apply inr_true; lia | apply Z.leb_le; lia].

Lemma rgb_pair_ok_lemma y0 y1 u v : byte y0 -> byte y1 -> byte u -> byte v -> rgb_pair_ok y0 y1 u v = true.
Proof. intros Hy0 Hy1 Hu Hv. unfold rgb_pair_ok. yuv_ok_tac. Qed.
Lemma rgb_tail_ok_lemma y u v : byte y -> byte u -> byte v -> rgb_tail_ok y u v = true.
Proof. intros Hy Hu Hv. unfold rgb_tail_ok. yuv_ok_tac. Qed.
Lemma rgba_pair_ok_lemma y0 y1 u v b0 b1 b2 b3 b4 b5 b6 b7 : byte y0 -> byte y1 -> byte u -> byte v ->
  rgba_pair_ok y0 y1 u v b0 b1 b2 b3 b4 b5 b6 b7 = true.
Proof. intros Hy0 Hy1 Hu Hv. unfold rgba_pair_ok. yuv_ok_tac. Qed.
Lemma rgba_tail_ok_lemma y u v : byte y -> byte u -> byte v -> rgba_tail_ok y u v = true.
Proof. intros Hy Hu Hv. unfold rgba_tail_ok. yuv_ok_tac. Qed.
