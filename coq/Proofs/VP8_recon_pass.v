(* Proofs/VP8_recon_pass.v -- (iv): the loop-filter pass of decode_frame_ (after all macroblocks, raster order, macroblock
   looked up in self.macroblocks) = Spec.VP8.loop_filter; crop_plane (rows moved to the front in place, truncate) =
   Spec.VP8.crop. *)
From Coq Require Import ZArith NArith List Bool Lia.
From WebP Require Import Lib.Res Lib.ZBits Lib.Arr Gen.Kernels Gen.Tables Spec.VP8Tables Spec.VP8 Model.Vp8Predict Model.Vp8Recon
  Proofs.VP8_predict_base Proofs.VP8_arraykernels
  Proofs.VP8_recon_base Proofs.VP8_recon_plane Proofs.VP8_recon_bytes Proofs.VP8_recon_mb Proofs.VP8_recon_chroma Proofs.VP8_recon_frame
  Proofs.VP8_recon_edge Proofs.VP8_recon_runs Proofs.VP8_recon_stages Proofs.VP8_recon_filter.
From WebP Require Model.Vp8Parse.
Import ListNotations.
Open Scope Z_scope.
Ltac Zify.zify_post_hook ::= Z.div_mod_to_equations.

(* ------------------------------------------------------------------------------------------------------------ *)
(* 1. the filter pass                                                                                           *)
(* ------------------------------------------------------------------------------------------------------------ *)
Definition mb_dflt : Vp8Parse.MacroBlock * list Z := (Vp8Parse.MacroBlock_default, []).

Lemma mb_rel_i4 mb m : mb_rel mb m -> (Vp8Parse.mb_luma_mode mb =? vp8_B_PRED) = m_i4 m.
Proof.
  intros (Hl & _). destruct (m_i4 m).
  - destruct Hl as (E & _). rewrite E. reflexivity.
  - destruct Hl as (Hy & E). rewrite E. apply luma_not_b. exact Hy.
Qed.

Section Pass.
  Variables (h : RHdr) (hs : header) (mbs : list Vp8Parse.MacroBlock).
  Hypothesis Hfr : filt_rel h hs.
  Hypothesis Hval : lf_valid hs.
  Hypothesis Hlev : h_level hs <> 0.
  Let mbw := rh_mbwidth h.
  Let mbh := rh_mbheight h.

  Definition pass_body (my : Z) : Z -> planes3 -> res planes3 :=
    fun mbx b => match nth_error mbs (Z.to_nat (my * rh_mbwidth h + mbx)) with
                 | None => Panic PIndex
                 | Some mb => Vp8Recon.loop_filter h mbx my mb b
                 end.

  Lemma filter_row_refines my : 0 <= my < mbh ->
    forall row ms rs, row_rel row ms rs ->
    forall mx0 pl b,
    0 <= mx0 -> mx0 + Z.of_nat (length row) = mbw ->
    (forall t, (t < length row)%nat -> nth_error mbs (Z.to_nat (my * mbw + (mx0 + Z.of_nat t))) = Some (fst (nth t row mb_dflt))) ->
    frel3 mbw mbh pl b ->
    exists b', for_range (length row) mx0 (pass_body my) b = Ok b' /\ frel3 mbw mbh (filter_row hs pl mx0 my ms rs) b'.
  Proof.
    intros Hmy. induction 1 as [|mb bl m r inp ms rs Hm Hr Hsg Hrow IH]; intros mx0 pl b Hmx0 Hlen Hnth Hrel.
    - exists b. cbn [length for_range filter_row]. split; [reflexivity|exact Hrel].
    - cbn [length] in Hlen. cbn [length for_range filter_row].
      pose proof (Hnth 0%nat ltac:(cbn [length]; lia)) as E0. cbn [nth fst] in E0. replace (mx0 + Z.of_nat 0) with mx0 in E0 by lia.
      unfold pass_body at 1. fold mbw. rewrite E0.
      destruct (loop_filter_mb_refines h hs pl mx0 my mb m r b Hfr Hval Hlev (mb_rel_i4 mb m Hm) Hsg ltac:(fold mbw; lia) Hmy Hrel) as (b1 & E1 & Hrel1).
      rewrite E1. cbn [bind].
      destruct (IH (mx0 + 1) (filter_mb hs pl mx0 my m r) b1 ltac:(lia) ltac:(lia)) as (b' & E' & Hrel'); [|exact Hrel1|].
      + intros t Ht. specialize (Hnth (S t) ltac:(cbn [length]; lia)). cbn [nth] in Hnth.
        replace (mx0 + 1 + Z.of_nat t) with (mx0 + Z.of_nat (S t)) by lia. exact Hnth.
      + exists b'. split; [exact E'|exact Hrel'].
  Qed.

  Lemma filter_rows_refines : forall inp mss rss, frame_rel mbw inp mss rss ->
    forall my0 pl b,
    0 <= my0 -> my0 + Z.of_nat (length mss) = mbh -> 0 < mbw ->
    (forall t, (t < length inp)%nat -> nth_error mbs (Z.to_nat (my0 * mbw + Z.of_nat t)) = Some (fst (nth t inp mb_dflt))) ->
    frel3 mbw mbh pl b ->
    exists b', for_range (length mss) my0 (fun mby b => for_range (Z.to_nat mbw) 0 (pass_body mby) b) b = Ok b' /\
               frel3 mbw mbh (filter_rows hs pl my0 mss rss) b'.
  Proof.
    induction 1 as [|row inp ms rs mss rss Hrow Hlen Hfrm IH]; intros my0 pl b Hmy0 Hcnt Hmbw Hnth Hrel.
    - exists b. cbn [length for_range filter_rows]. split; [reflexivity|exact Hrel].
    - cbn [length] in Hcnt. cbn [length for_range filter_rows].
      replace (Z.to_nat mbw) with (length row) by lia.
      destruct (filter_row_refines my0 ltac:(lia) row ms rs Hrow 0 pl b ltac:(lia) ltac:(lia)) as (b1 & E1 & Hrel1); [|exact Hrel|].
      + intros t Ht. specialize (Hnth t ltac:(rewrite app_length; lia)). rewrite app_nth1 in Hnth by exact Ht.
        replace (my0 * mbw + (0 + Z.of_nat t)) with (my0 * mbw + Z.of_nat t) by lia. exact Hnth.
      + rewrite E1. cbn [bind].
        destruct (IH (my0 + 1) (filter_row hs pl 0 my0 ms rs) b1 ltac:(lia) ltac:(lia) Hmbw) as (b' & E' & Hrel'); [|exact Hrel1|].
        * intros t Ht. specialize (Hnth (length row + t)%nat ltac:(rewrite app_length; lia)).
          rewrite app_nth2 in Hnth by lia. replace (length row + t - length row)%nat with t in Hnth by lia.
          replace ((my0 + 1) * mbw + Z.of_nat t) with (my0 * mbw + Z.of_nat (length row + t)) by nia. exact Hnth.
        * exists b'. split; [|exact Hrel'].
          replace (Z.to_nat mbw) with (length row) in E' by lia. exact E'.
  Qed.
End Pass.

Theorem filter_frame_refines h hs inp mss rss pl b :
  filt_rel h hs -> lf_valid hs -> frame_rel (rh_mbwidth h) inp mss rss ->
  Z.of_nat (length mss) = rh_mbheight h -> 0 < rh_mbwidth h ->
  frel3 (rh_mbwidth h) (rh_mbheight h) pl b ->
  exists b', filter_frame h (map fst inp) b = Ok b' /\
             frel3 (rh_mbwidth h) (rh_mbheight h) (VP8.loop_filter hs mss rss pl) b'.
Proof.
  intros Hfr Hval Hfrm Hlen Hmbw Hrel.
  unfold filter_frame, VP8.loop_filter.
  pose proof Hfr as (_ & Efl & _). rewrite Efl.
  assert (Eft : (filter_type hs =? 0) = (h_level hs =? 0)).
  { unfold filter_type. destruct (h_level hs =? 0); [reflexivity|]. destruct (h_simple hs); reflexivity. }
  rewrite Eft. destruct (Z.eqb_spec (h_level hs) 0) as [E0|E0]; [exists b; split; [reflexivity|exact Hrel]|].
  replace (Z.to_nat (rh_mbheight h)) with (length mss) by lia.
  destruct (filter_rows_refines h hs (map fst inp) Hfr Hval E0 inp mss rss Hfrm 0 pl b ltac:(lia) ltac:(lia) Hmbw) as (b' & E' & Hrel'); [|exact Hrel|].
  - intros t Ht. replace (Z.to_nat (0 * rh_mbwidth h + Z.of_nat t)) with t by lia.
    rewrite nth_error_map. rewrite (nth_error_nth' inp mb_dflt Ht). reflexivity.
  - exists b'. split; [exact E'|exact Hrel'].
Qed.

(* ------------------------------------------------------------------------------------------------------------ *)
(* 2. crop                                                                                                      *)
(* ------------------------------------------------------------------------------------------------------------ *)
(* rows of width w, row by row *)
Definition rows_list (f : Z -> Z -> Z) (w n : nat) : list Z :=
  flat_map (fun y => map (fun x => f (Z.of_nat y) (Z.of_nat x)) (seq 0 w)) (seq 0 n).

Lemma crop_row_spec p y : forall x acc,
  crop_row p y x acc = map (fun k => araw (p_a p) (Z.to_N (y * p_w p + Z.of_nat k))) (seq 0 x) ++ acc.
Proof.
  induction x as [|x IH]; intros acc; [reflexivity|]. cbn [crop_row]. rewrite IH.
  rewrite seq_S, map_app. cbn [map Nat.add]. rewrite <- app_assoc. reflexivity.
Qed.

Lemma crop_rows_spec p w : forall n acc,
  crop_rows p w n acc = rows_list (fun y x => araw (p_a p) (Z.to_N (y * p_w p + x))) w n ++ acc.
Proof.
  induction n as [|n IH]; intros acc; [reflexivity|]. cbn [crop_rows]. rewrite IH, crop_row_spec.
  unfold rows_list. rewrite seq_S, flat_map_app. cbn [flat_map Nat.add]. rewrite app_nil_r, <- app_assoc. reflexivity.
Qed.

Lemma seq_from a : forall len, seq a len = map (fun x => (a + x)%nat) (seq 0 len).
Proof.
  induction len as [|len IH]; [reflexivity|]. rewrite !seq_S, map_app, IH. cbn [map Nat.add]. reflexivity.
Qed.

Lemma map_seq_rows (g : Z -> Z) (w : nat) : forall n,
  map (fun k => g (Z.of_nat k)) (seq 0 (n * w)) = rows_list (fun y x => g (y * Z.of_nat w + x)) w n.
Proof.
  induction n as [|n IH]; [reflexivity|].
  replace (S n * w)%nat with (n * w + w)%nat by lia. rewrite seq_app, map_app, IH.
  unfold rows_list. rewrite seq_S, flat_map_app. cbn [flat_map Nat.add]. rewrite app_nil_r. f_equal.
  rewrite (seq_from (n * w) w). rewrite map_map. apply map_ext. intros x. f_equal. lia.
Qed.

Lemma rows_list_ext (f g : Z -> Z -> Z) (w n : nat) :
  (forall y x, 0 <= y < Z.of_nat n -> 0 <= x < Z.of_nat w -> f y x = g y x) -> rows_list f w n = rows_list g w n.
Proof.
  intros H. unfold rows_list. apply flat_map_ext_in || idtac.
  induction n as [|n IH]; [reflexivity|]. rewrite seq_S, !flat_map_app. cbn [flat_map Nat.add]. rewrite !app_nil_r. f_equal.
  - apply IH. intros y x Hy Hx. apply H; lia.
  - apply map_ext_in. intros x Hx. apply in_seq in Hx. apply H; lia.
Qed.

Lemma firstn_seq_le : forall k n a, (k <= n)%nat -> firstn k (seq a n) = seq a k.
Proof.
  induction k as [|k IH]; intros n a Hk; [reflexivity|]. destruct n as [|n]; [lia|].
  cbn [seq firstn]. f_equal. apply IH. lia.
Qed.

Lemma firstn_to_list a (k : nat) : (k <= N.to_nat (alen a))%nat ->
  firstn k (to_list a) = map (fun j => araw a (Z.to_N (Z.of_nat j))) (seq 0 k).
Proof.
  intros Hk. rewrite to_list_spec, firstn_map, firstn_seq_le by exact Hk.
  apply map_ext. intros j. f_equal. lia.
Qed.

(* the in-place row moves of crop_plane: afterwards the first width * height cells are the cropped rows *)
Lemma crop_moves a stride width height Hh : alenZ a = stride * Hh -> 0 <= width < stride -> 0 <= height <= Hh ->
  exists a', for_range (Z.to_nat (height - 1)) 1 (fun y p =>
               of_option (acopy_within p (Z.to_N (y * stride)) (Z.to_N width) (Z.to_N (y * width))) PSlice) a = Ok a' /\
             alen a' = alen a /\
             forall yy xx, 0 <= yy < height -> 0 <= xx < width ->
               araw a' (Z.to_N (yy * width + xx)) = araw a (Z.to_N (yy * stride + xx)).
Proof.
  intros L Hw Hh'.
  pose (P := fun (y : Z) (a' : arr) =>
    alen a' = alen a /\
    (forall yy xx, 0 <= yy < y -> 0 <= xx < width -> araw a' (Z.to_N (yy * width + xx)) = araw a (Z.to_N (yy * stride + xx))) /\
    (forall k, y * stride <= k -> araw a' (Z.to_N k) = araw a (Z.to_N k))).
  destruct (for_range_inv P (fun y p => of_option (acopy_within p (Z.to_N (y * stride)) (Z.to_N width) (Z.to_N (y * width))) PSlice)
              (Z.to_nat (height - 1)) 1 a) as (a' & E & HP).
  - split; [reflexivity|]. split; [|intros; reflexivity].
    intros yy xx Hyy Hxx. assert (yy = 0) by lia. subst yy. reflexivity.
  - intros y t Hy (Lt & Hdone & Hkeep).
    assert (Hsrc : y * stride + width <= alenZ t).
    { unfold alenZ in *. rewrite Lt, L. assert (y * stride + stride <= Hh * stride) by nia. lia. }
    assert (Hdst : y * width + width <= alenZ t).
    { assert (y * width <= y * stride) by nia. lia. }
    destruct (acopy_within_spec t (y * stride) width (y * width)) as (t' & Et & Lt' & Ht'); try nia.
    rewrite Et. cbn [of_option]. exists t'. split; [reflexivity|]. split; [congruence|]. split.
    + intros yy xx Hyy Hxx. rewrite Ht' by nia.
      destruct (Z.eq_dec yy y) as [->|Hne].
      * rewrite (leb_true (y * width) (y * width + xx)), (ltb_true (y * width + xx) (y * width + width)) by lia. cbn [andb].
        replace (y * stride + (y * width + xx - y * width)) with (y * stride + xx) by lia.
        apply Hkeep. lia.
      * assert (yy * width + width <= y * width) by nia.
        rewrite (ltb_false (yy * width + xx) (y * width)) || rewrite (leb_false (y * width) (yy * width + xx)) by lia. cbn [andb].
        apply Hdone; lia.
    + intros k Hk. assert ((y + 1) * width <= (y + 1) * stride) by nia.
      rewrite Ht' by nia. rewrite (ltb_false k (y * width + width)) by lia. rewrite andb_false_r.
      apply Hkeep. nia.
  - exists a'. split; [exact E|]. destruct HP as (La & Hdone & _). split; [exact La|].
    intros yy xx Hyy Hxx. apply Hdone; lia.
Qed.

Theorem crop_plane_refines a p stride width height Hh :
  aeq a (p_a p) -> p_w p = stride -> alenZ a = stride * Hh -> 0 <= width <= stride -> 0 <= height <= Hh ->
  crop_plane a stride width height = Ok (VP8.crop p width height).
Proof.
  intros (La & Ha) Hp L Hw Hh'.
  assert (Hcells : exists a', (if negb (stride =? width)
                               then for_range (Z.to_nat (height - 1)) 1 (fun y p0 =>
                                      of_option (acopy_within p0 (Z.to_N (y * stride)) (Z.to_N width) (Z.to_N (y * width))) PSlice) a
                               else Ok a) = Ok a' /\ alen a' = alen a /\
                              forall yy xx, 0 <= yy < height -> 0 <= xx < width ->
                                araw a' (Z.to_N (yy * width + xx)) = araw a (Z.to_N (yy * stride + xx))).
  { destruct (Z.eqb_spec stride width) as [Esw|Esw]; cbn [negb].
    - exists a. split; [reflexivity|]. split; [reflexivity|]. intros. rewrite Esw. reflexivity.
    - apply (crop_moves a stride width height Hh L ltac:(lia) Hh'). }
  destruct Hcells as (a' & E & La' & Hc).
  unfold crop_plane. rewrite E. cbn [bind]. f_equal.
  assert (Hfit : (Z.to_nat (width * height) <= N.to_nat (alen a'))%nat).
  { rewrite La'. unfold alenZ in L. assert (width * height <= stride * Hh) by nia. lia. }
  rewrite firstn_to_list by exact Hfit.
  unfold VP8.crop. rewrite crop_rows_spec, app_nil_r.
  replace (Z.to_nat (width * height)) with (Z.to_nat height * Z.to_nat width)%nat by nia.
  rewrite (map_seq_rows (fun k => araw a' (Z.to_N k)) (Z.to_nat width) (Z.to_nat height)).
  apply rows_list_ext. intros y x Hy Hx.
  rewrite Z2Nat.id by lia. rewrite Hc by lia. rewrite Hp. apply Ha.
  unfold alenZ in L. assert (y * stride + stride <= Hh * stride) by nia. lia.
Qed.
