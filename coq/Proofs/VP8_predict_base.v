(* Proofs/VP8_predict_base.v -- flat-buffer lemmas and symbolic-execution tactics for Model/Vp8Predict.v
   (used by VP8_predict_sub.v, VP8_predict_big.v, VP8_predict_border.v, VP8_predict.v). *)
From Coq Require Import ZArith List Bool Lia.
From WebP Require Import Lib.Res Lib.ZBits Gen.Kernels Spec.VP8 Proofs.VP8_kernels Model.Vp8Predict.
Import ListNotations.
Open Scope Z_scope.

Lemma len_nonneg a : 0 <= len a.
Proof. unfold len. lia. Qed.

Lemma length_upd a : forall i v, length (upd a i v) = length a.
Proof. induction a as [|x a IH]; intros [|i] v; cbn [upd length]; auto. Qed.

Lemma len_set a i v : len (set a i v) = len a.
Proof. unfold len, set. rewrite length_upd. reflexivity. Qed.

Lemma nth_upd a : forall i j v, (i < length a)%nat -> nth j (upd a i v) 0 = if Nat.eqb j i then v else nth j a 0.
Proof.
  induction a as [|x a IH]; intros [|i] [|j] v H; cbn [upd nth length Nat.eqb] in *; try lia; auto.
  apply IH. lia.
Qed.

Lemma get_set a i j v : 0 <= i < len a -> 0 <= j -> get (set a i v) j = if j =? i then v else get a j.
Proof.
  unfold get, set, len. intros Hi Hj. rewrite nth_upd by lia.
  destruct (Z.eqb_spec j i) as [->|Hn].
  - rewrite Nat.eqb_refl. reflexivity.
  - destruct (Nat.eqb_spec (Z.to_nat j) (Z.to_nat i)) as [E|E]; [lia|reflexivity].
Qed.

Lemma inb_true a i : 0 <= i < len a -> inb a i = true.
Proof. unfold inb. intros H. apply andb_true_intro. split; [apply Z.leb_le | apply Z.ltb_lt]; lia. Qed.

Lemma rd_ok a i : 0 <= i < len a -> rd a i = Ok (get a i).
Proof. intros H. unfold rd. rewrite inb_true by exact H. reflexivity. Qed.

Lemma wr_ok a i v : 0 <= i < len a -> wr a i v = Ok (set a i v).
Proof. intros H. unfold wr. rewrite inb_true by exact H. reflexivity. Qed.

Lemma usub_ok a b : b <= a -> usub a b = Ok (a - b).
Proof. intros H. unfold usub. destruct (Z.ltb_spec a b); [lia|reflexivity]. Qed.

Lemma list_ext (a b : list Z) : len a = len b -> (forall j, 0 <= j < len a -> get a j = get b j) -> a = b.
Proof.
  unfold len, get. intros Hl H. apply (nth_ext a b 0 0); [lia|].
  intros n Hn. specialize (H (Z.of_nat n)). rewrite Nat2Z.id in H. apply H. lia.
Qed.

(* every cell is a byte (a `[u8]`) *)
Definition bytes (a : list Z) : Prop := forall i, 0 <= i < len a -> byte (get a i).

Lemma ltb_false x y : y <= x -> (x <? y) = false.
Proof. intros. apply Z.ltb_ge. lia. Qed.
Lemma ltb_true x y : x < y -> (x <? y) = true.
Proof. intros. apply Z.ltb_lt. lia. Qed.
Lemma leb_false x y : y < x -> (x <=? y) = false.
Proof. intros. apply Z.leb_gt. lia. Qed.
Lemma leb_true x y : x <= y -> (x <=? y) = true.
Proof. intros. apply Z.leb_le. lia. Qed.
Lemma eqb_false x y : x <> y -> (x =? y) = false.
Proof. intros. apply Z.eqb_neq. lia. Qed.
Lemma eqb_true x y : x = y -> (x =? y) = true.
Proof. intros. apply Z.eqb_eq. lia. Qed.

(* the pure result of copyf *)
Fixpoint fillf (n : nat) (a : list Z) (pos k : Z) (f : Z -> Z) : list Z :=
  match n with
  | O => a
  | S m => fillf m (set a (pos + k) (f k)) pos (k + 1) f
  end.

Lemma len_fillf n : forall a pos k f, len (fillf n a pos k f) = len a.
Proof. induction n as [|n IH]; intros; cbn [fillf]; [reflexivity|]. rewrite IH, len_set. reflexivity. Qed.

Lemma copyf_ok n : forall a pos k f, 0 <= pos + k -> pos + k + Z.of_nat n <= len a -> copyf n a pos k f = Ok (fillf n a pos k f).
Proof.
  induction n as [|n IH]; intros a pos k f H0 H1; cbn [copyf fillf]; [reflexivity|].
  rewrite wr_ok by lia. cbn [bind]. apply IH; rewrite ?len_set; lia.
Qed.

Lemma get_fillf n : forall a pos k f j, 0 <= pos + k -> pos + k + Z.of_nat n <= len a -> 0 <= j ->
  get (fillf n a pos k f) j = if (pos + k <=? j) && (j <? pos + k + Z.of_nat n) then f (j - pos) else get a j.
Proof.
  induction n as [|n IH]; intros a pos k f j H0 H1 Hj; cbn [fillf].
  - destruct (Z.leb_spec (pos + k) j); destruct (Z.ltb_spec j (pos + k + Z.of_nat 0)); cbn [andb]; try reflexivity; lia.
  - rewrite IH by (rewrite ?len_set; lia). rewrite get_set by lia.
    destruct (Z.leb_spec (pos + (k + 1)) j); destruct (Z.ltb_spec j (pos + (k + 1) + Z.of_nat n));
      destruct (Z.leb_spec (pos + k) j); destruct (Z.ltb_spec j (pos + k + Z.of_nat (S n)));
      destruct (Z.eqb_spec j (pos + k)); cbn [andb]; try reflexivity; try lia.
    f_equal. lia.
Qed.

Lemma clamp255_spec v : clamp255 v = clip255 v.
Proof.
  unfold clamp255, clip255, clip. destruct (Z.ltb_spec v 0); destruct (Z.ltb_spec 255 v); lia.
Qed.

Lemma clip255_byte v : byte (clip255 v).
Proof. unfold clip255, clip, byte. destruct (Z.ltb_spec v 0); destruct (Z.ltb_spec 255 v); lia. Qed.

Lemma avg2_gen a b : byte a -> byte b -> Gen.Kernels.avg2 a b = Spec.VP8.avg2 a b.
Proof. intros. apply avg2_spec; assumption. Qed.
Lemma avg3_gen a b c : byte a -> byte b -> byte c -> Gen.Kernels.avg3 a b c = Spec.VP8.avg3 a b c.
Proof. intros. apply avg3_spec; assumption. Qed.

Lemma avg2_byte a b : byte a -> byte b -> byte (Spec.VP8.avg2 a b).
Proof.
  unfold byte, Spec.VP8.avg2. intros. rewrite Z.shiftr_div_pow2 by lia. change (2 ^ 1) with 2.
  split; [apply Z.div_pos; lia | apply Z.lt_succ_r; apply Z.div_lt_upper_bound; lia].
Qed.
Lemma avg3_byte a b c : byte a -> byte b -> byte c -> byte (Spec.VP8.avg3 a b c).
Proof.
  unfold byte, Spec.VP8.avg3. intros. rewrite Z.shiftr_div_pow2 by lia. change (2 ^ 2) with 4.
  split; [apply Z.div_pos; lia | apply Z.lt_succ_r; apply Z.div_lt_upper_bound; lia].
Qed.

Create HintDb lens.
#[global] Hint Rewrite len_set len_fillf : lens.

Ltac lens := autorewrite with lens.
Ltac side := lens; lia.

(* decide the guards of the model, one after the other (side conditions by lia) *)
Ltac guards :=
  repeat first
    [ rewrite usub_ok by side
    | rewrite rd_ok by side
    | rewrite wr_ok by side
    | rewrite copyf_ok by side
    | rewrite ltb_false by side
    | rewrite leb_false by side
    | progress cbn [bind orb negb] ].

(* canonical write of a 4x4 block in raster order *)
Definition put4x4 (a : list Z) (x0 y0 stride : Z) (v : list Z) : list Z :=
  let p := fun r c a => set a ((y0 + r) * stride + x0 + c) (nth (Z.to_nat (4 * r + c)) v 0) in
  p 3 3 (p 3 2 (p 3 1 (p 3 0 (p 2 3 (p 2 2 (p 2 1 (p 2 0 (p 1 3 (p 1 2 (p 1 1 (p 1 0 (p 0 3 (p 0 2 (p 0 1 (p 0 0 a))))))))))))))).

Lemma len_put4x4 a x0 y0 stride v : len (put4x4 a x0 y0 stride v) = len a.
Proof. unfold put4x4. lens. reflexivity. Qed.
#[global] Hint Rewrite len_put4x4 : lens.

Ltac split_at_idx j i := destruct (Z.eq_dec j i) as [->|?].
Ltac split16 j x0 y0 stride :=
  split_at_idx j ((y0 + 0) * stride + x0 + 0); [|
  split_at_idx j ((y0 + 0) * stride + x0 + 1); [|
  split_at_idx j ((y0 + 0) * stride + x0 + 2); [|
  split_at_idx j ((y0 + 0) * stride + x0 + 3); [|
  split_at_idx j ((y0 + 1) * stride + x0 + 0); [|
  split_at_idx j ((y0 + 1) * stride + x0 + 1); [|
  split_at_idx j ((y0 + 1) * stride + x0 + 2); [|
  split_at_idx j ((y0 + 1) * stride + x0 + 3); [|
  split_at_idx j ((y0 + 2) * stride + x0 + 0); [|
  split_at_idx j ((y0 + 2) * stride + x0 + 1); [|
  split_at_idx j ((y0 + 2) * stride + x0 + 2); [|
  split_at_idx j ((y0 + 2) * stride + x0 + 3); [|
  split_at_idx j ((y0 + 3) * stride + x0 + 0); [|
  split_at_idx j ((y0 + 3) * stride + x0 + 1); [|
  split_at_idx j ((y0 + 3) * stride + x0 + 2); [|
  split_at_idx j ((y0 + 3) * stride + x0 + 3)]]]]]]]]]]]]]]].

Ltac decide_eqbs :=
  repeat match goal with
  | |- context [?x =? ?y] =>
      first [ rewrite (Z.eqb_refl x) | rewrite (eqb_false x y) by lia | rewrite (eqb_true x y) by lia ]
  end.

(* get of the canonical block *)
Lemma get_put4x4_in a x0 y0 stride v r c :
  4 <= stride -> 0 <= y0 * stride + x0 -> (y0 + 3) * stride + x0 + 4 <= len a ->
  0 <= r < 4 -> 0 <= c < 4 ->
  get (put4x4 a x0 y0 stride v) ((y0 + r) * stride + x0 + c) = nth (Z.to_nat (4 * r + c)) v 0.
Proof.
  intros Hs H0 H1 Hr Hc. unfold put4x4.
  repeat rewrite get_set by side.
  assert (Er : r = 0 \/ r = 1 \/ r = 2 \/ r = 3) by lia.
  assert (Ec : c = 0 \/ c = 1 \/ c = 2 \/ c = 3) by lia.
  destruct Er as [-> | [-> | [-> | ->]]]; destruct Ec as [-> | [-> | [-> | ->]]]; decide_eqbs; reflexivity.
Qed.

Lemma get_put4x4_out a x0 y0 stride v j :
  4 <= stride -> 0 <= y0 * stride + x0 -> (y0 + 3) * stride + x0 + 4 <= len a -> 0 <= j ->
  (forall r c, 0 <= r < 4 -> 0 <= c < 4 -> j <> (y0 + r) * stride + x0 + c) ->
  get (put4x4 a x0 y0 stride v) j = get a j.
Proof.
  intros Hs H0 H1 Hj Hn. unfold put4x4.
  repeat rewrite get_set by side.
  repeat match goal with
  | |- context [j =? (y0 + ?r) * stride + x0 + ?c] =>
      rewrite (eqb_false j ((y0 + r) * stride + x0 + c)) by (apply Hn; lia)
  end.
  reflexivity.
Qed.

(* ------------------------------------------------------------------------------------------------------------ *)
(* tactics for the 16x16 / 8x8 predictors (concrete workspace geometry)                                         *)
(* ------------------------------------------------------------------------------------------------------------ *)
Ltac decide_cmps :=
  repeat match goal with
  | |- context [?x <=? ?y] => first [ rewrite (leb_true x y) by lia | rewrite (leb_false x y) by lia ]
  | |- context [?x <? ?y] => first [ rewrite (ltb_true x y) by lia | rewrite (ltb_false x y) by lia ]
  end; cbn [andb].

(* symbolic execution; reads of the current state are simplified as soon as they appear *)
Ltac execB :=
  repeat first
    [ rewrite get_fillf by side
    | progress decide_cmps
    | rewrite ltb_false by side
    | rewrite leb_false by side
    | rewrite usub_ok by side
    | rewrite rd_ok by side
    | rewrite wr_ok by side
    | rewrite copyf_ok by side
    | rewrite eqb_false by side
    | progress cbn [bind orb negb rows]
    | progress cbv beta ].

Ltac reads :=
  repeat first [ rewrite get_fillf by side | progress decide_cmps | progress cbv beta ].

Ltac rows17 y :=
  let Ey := fresh "Ey" in
  assert (y = 0 \/ y = 1 \/ y = 2 \/ y = 3 \/ y = 4 \/ y = 5 \/ y = 6 \/ y = 7 \/ y = 8 \/ y = 9 \/ y = 10 \/ y = 11
          \/ y = 12 \/ y = 13 \/ y = 14 \/ y = 15 \/ y = 16) as Ey by lia;
  destruct Ey as [-> | [-> | [-> | [-> | [-> | [-> | [-> | [-> | [-> | [-> | [-> | [-> | [-> | [-> | [-> | [-> | ->]]]]]]]]]]]]]]]].
Ltac rows9 y :=
  let Ey := fresh "Ey" in
  assert (y = 0 \/ y = 1 \/ y = 2 \/ y = 3 \/ y = 4 \/ y = 5 \/ y = 6 \/ y = 7 \/ y = 8) as Ey by lia;
  destruct Ey as [-> | [-> | [-> | [-> | [-> | [-> | [-> | [-> | ->]]]]]]]].

(* closed index arithmetic inside [get a _] is computed *)
Ltac is_pos_num p := lazymatch p with xH => idtac | xO ?q => is_pos_num q | xI ?q => is_pos_num q end.
Ltac is_z_num z := lazymatch z with Z0 => idtac | Zpos ?p => is_pos_num p | Zneg ?p => is_pos_num p end.
Ltac norm_idx :=
  repeat match goal with
  | |- context [get ?a ?i] =>
      lazymatch i with Z0 => fail | Zpos _ => fail | Zneg _ => fail | _ => idtac end;
      let v := eval vm_compute in i in is_z_num v; change (get a i) with (get a v)
  end.

Ltac all_bytes Hb :=
  repeat match goal with
  | |- context [get ?a ?i] =>
      lazymatch goal with H : byte (get a i) |- _ => fail | _ => pose proof (Hb i ltac:(lia)) end
  end.

(* the DC value of Spec.VP8.pred_big as a function of the two edges and of their availability *)
Definition dc_big (top left : list Z) (size sh : Z) (above leftb : bool) : Z :=
  if above && leftb then Z.shiftr (sumZ top + sumZ left + size) (sh + 1)
  else if leftb then Z.shiftr (sumZ left + Z.shiftr size 1) sh
  else if above then Z.shiftr (sumZ top + Z.shiftr size 1) sh
  else 128.

Lemma dc_mod_small s k : 0 <= k -> 0 <= s < 256 * 2 ^ k -> Z.shiftr s k mod 256 = Z.shiftr s k.
Proof.
  intros Hk Hs. rewrite Z.shiftr_div_pow2 by lia. apply Z.mod_small.
  assert (0 < 2 ^ k) by (apply Z.pow_pos_nonneg; lia).
  split; [apply Z.div_pos; lia | apply Z.div_lt_upper_bound; lia].
Qed.
