(* Proofs/VP8_recon_plane.v -- reference planes under Spec.VP8.store4x4 / recon_sub / recon_block; the relation [prel]
   between a decoder plane (flat Lib.Arr array, macroblock-aligned) and a reference plane; the write-back of a
   bordered workspace into a decoder plane. *)
From Coq Require Import ZArith NArith List Bool Lia.
From WebP Require Import Lib.Res Lib.ZBits Lib.Arr Spec.VP8Tables Spec.VP8 Model.Vp8Predict Model.Vp8Recon
  Proofs.VP8_predict_base Proofs.VP8_predict_sub Proofs.VP8_predict_border Proofs.VP8_predict
  Proofs.VP8_arraykernels Proofs.VP8_recon_base.
Import ListNotations.
Open Scope Z_scope.
Ltac Zify.zify_post_hook ::= Z.div_mod_to_equations.

(* ------------------------------------------------------------------------------------------------------------ *)
(* 1. store4x4                                                                                                  *)
(* ------------------------------------------------------------------------------------------------------------ *)
Lemma row_get p x y c0 c1 c2 c3 x' y' : 0 <= x -> x + 4 <= p_w p -> 0 <= y -> x' < p_w p ->
  pget (pset (pset (pset (pset p x y c0) (x + 1) y c1) (x + 1 + 1) y c2) (x + 1 + 1 + 1) y c3) x' y' =
  if y' =? y then
    (if x' =? x + 3 then c3 else if x' =? x + 2 then c2 else if x' =? x + 1 then c1 else if x' =? x then c0 else pget p x' y')
  else pget p x' y'.
Proof.
  intros Hx Hw Hy Hx'.
  replace (x + 1 + 1 + 1) with (x + 3) by lia. replace (x + 1 + 1) with (x + 2) by lia.
  rewrite !pget_pset by (rewrite ?pw_pset; lia).
  destruct (y' =? y); rewrite ?andb_false_r, ?andb_true_r; reflexivity.
Qed.

Lemma row_pw p x y c0 c1 c2 c3 :
  p_w (pset (pset (pset (pset p x y c0) (x + 1) y c1) (x + 1 + 1) y c2) (x + 1 + 1 + 1) y c3) = p_w p.
Proof. reflexivity. Qed.

Lemma store4x4_pw p x y pred res : p_w (store4x4 p x y pred res) = p_w p.
Proof.
  unfold store4x4.
  assert (R : forall n p x y pred res, p_w (fst (fst (store_row p x y pred res n))) = p_w p).
  { induction n as [|n IH]; intros q x0 y0 [|a pr] [|b rs]; cbn [store_row fst]; try reflexivity.
    rewrite IH. reflexivity. }
  assert (RS : forall rows p x y pred res, p_w (store_rows p x y pred res rows) = p_w p).
  { induction rows as [|k IH]; intros q x0 y0 pr rs; cbn [store_rows]; [reflexivity|].
    specialize (R 4%nat q x0 y0 pr rs). destruct (store_row q x0 y0 pr rs 4) as [[q' pr'] rs']. cbn [fst] in R.
    rewrite IH. exact R. }
  apply RS.
Qed.

Lemma store4x4_alen p x y pred res : alen (p_a (store4x4 p x y pred res)) = alen (p_a p).
Proof.
  unfold store4x4.
  assert (R : forall n p x y pred res, alen (p_a (fst (fst (store_row p x y pred res n)))) = alen (p_a p)).
  { induction n as [|n IH]; intros q x0 y0 [|a pr] [|b rs]; cbn [store_row fst]; try reflexivity.
    rewrite IH. reflexivity. }
  assert (RS : forall rows p x y pred res, alen (p_a (store_rows p x y pred res rows)) = alen (p_a p)).
  { induction rows as [|k IH]; intros q x0 y0 pr rs; cbn [store_rows]; [reflexivity|].
    specialize (R 4%nat q x0 y0 pr rs). destruct (store_row q x0 y0 pr rs 4) as [[q' pr'] rs']. cbn [fst] in R.
    rewrite IH. exact R. }
  apply RS.
Qed.

Ltac case4 r :=
  let E := fresh "E" in
  assert (r = 0 \/ r = 1 \/ r = 2 \/ r = 3) as E by lia; destruct E as [-> | [-> | [-> | ->]]].

Ltac decide_eqbs' :=
  repeat match goal with
  | |- context [?x =? ?y] =>
      first [ rewrite (Z.eqb_refl x) | rewrite (eqb_false x y) by lia | rewrite (eqb_true x y) by lia ]
  end.

(* the 16 samples written: clip255 (prediction + residual) *)
Lemma store4x4_in p x y pred res r c : 0 <= x -> x + 4 <= p_w p -> 0 <= y ->
  length pred = 16%nat -> length res = 16%nat -> 0 <= r < 4 -> 0 <= c < 4 ->
  pget (store4x4 p x y pred res) (x + c) (y + r) =
  clip255 (nth (Z.to_nat (4 * r + c)) pred 0 + nth (Z.to_nat (4 * r + c)) res 0).
Proof.
  intros Hx Hw Hy Lp Lr Hr Hc.
  destruct (length16 pred Lp) as (a0 & a1 & a2 & a3 & a4 & a5 & a6 & a7 & a8 & a9 & a10 & a11 & a12 & a13 & a14 & a15 & ->).
  destruct (length16 res Lr) as (r0 & r1 & r2 & r3 & r4 & r5 & r6 & r7 & r8 & r9 & r10 & r11 & r12 & r13 & r14 & r15 & ->).
  cbn [store4x4 store_rows store_row].
  replace (y + 1 + 1 + 1) with (y + 3) by lia. replace (y + 1 + 1) with (y + 2) by lia.
  rewrite !row_get by (rewrite ?row_pw; lia).
  case4 r; decide_eqbs'; case4 c; decide_eqbs'; reflexivity.
Qed.

(* everything else is untouched (also the constants outside the frame) *)
Lemma store4x4_out p x y pred res x' y' : 0 <= x -> x + 4 <= p_w p -> 0 <= y ->
  length pred = 16%nat -> length res = 16%nat -> x' < p_w p ->
  ~ (x <= x' < x + 4 /\ y <= y' < y + 4) ->
  pget (store4x4 p x y pred res) x' y' = pget p x' y'.
Proof.
  intros Hx Hw Hy Lp Lr Hx' Hout.
  destruct (length16 pred Lp) as (a0 & a1 & a2 & a3 & a4 & a5 & a6 & a7 & a8 & a9 & a10 & a11 & a12 & a13 & a14 & a15 & ->).
  destruct (length16 res Lr) as (r0 & r1 & r2 & r3 & r4 & r5 & r6 & r7 & r8 & r9 & r10 & r11 & r12 & r13 & r14 & r15 & ->).
  cbn [store4x4 store_rows store_row].
  replace (y + 1 + 1 + 1) with (y + 3) by lia. replace (y + 1 + 1) with (y + 2) by lia.
  rewrite !row_get by (rewrite ?row_pw; lia).
  destruct (Z.eqb_spec y' (y + 3)); [decide_eqbs'; reflexivity|].
  destruct (Z.eqb_spec y' (y + 2)); [decide_eqbs'; reflexivity|].
  destruct (Z.eqb_spec y' (y + 1)); [decide_eqbs'; reflexivity|].
  destruct (Z.eqb_spec y' y); [decide_eqbs'; reflexivity|]. reflexivity.
Qed.

(* ------------------------------------------------------------------------------------------------------------ *)
(* 2. decoder plane vs reference plane                                                                          *)
(* ------------------------------------------------------------------------------------------------------------ *)
(* the flat array [a] is the w x h plane p *)
Definition prel (p : plane) (a : arr) (w h : Z) : Prop :=
  p_w p = w /\ alenZ a = w * h /\ alen (p_a p) = alen a /\
  forall x y, 0 <= x < w -> 0 <= y < h -> araw a (Z.to_N (y * w + x)) = pget p x y.

(* every sample of the reference plane is a byte *)
Definition pbytes (p : plane) : Prop := forall n : N, byte (araw (p_a p) n).

Lemma pget_byte p x y : pbytes p -> byte (pget p x y).
Proof.
  intros H. unfold pget. destruct (y <? 0); [unfold byte; lia|]. destruct (x <? 0); [unfold byte; lia|]. apply H.
Qed.

Lemma pbytes_pset p x y v : pbytes p -> byte v -> pbytes (pset p x y v).
Proof.
  intros H Hv n. rewrite araw_pset. destruct (Z.to_N (y * p_w p + x) =? n)%N; [exact Hv | apply H].
Qed.

Lemma pbytes_store4x4 p x y pred res : pbytes p -> pbytes (store4x4 p x y pred res).
Proof.
  intros H. unfold store4x4.
  assert (R : forall n p x y pred res, pbytes p -> pbytes (fst (fst (store_row p x y pred res n)))).
  { induction n as [|n IH]; intros q x0 y0 [|a pr] [|b rs] Hq; cbn [store_row fst]; try exact Hq.
    apply IH. apply pbytes_pset; [exact Hq | apply clip255_byte]. }
  assert (RS : forall rows p x y pred res, pbytes p -> pbytes (store_rows p x y pred res rows)).
  { induction rows as [|k IH]; intros q x0 y0 pr rs Hq; cbn [store_rows]; [exact Hq|].
    specialize (R 4%nat q x0 y0 pr rs Hq). destruct (store_row q x0 y0 pr rs 4) as [[q' pr'] rs']. cbn [fst] in R.
    apply IH. exact R. }
  apply RS. exact H.
Qed.

Lemma pbytes_make w h : pbytes (plane_make w h).
Proof. intros n. unfold plane_make. cbn [p_a]. rewrite araw_amake. unfold byte. lia. Qed.

(* flat index <-> coordinates *)
Lemma idx_row_range w X0 Y n x' y' : 0 <= X0 -> 0 <= n -> X0 + n <= w -> 0 <= x' < w ->
  (Y * w + X0 <= y' * w + x' < Y * w + X0 + n) <-> (y' = Y /\ X0 <= x' < X0 + n).
Proof.
  intros HX Hn Hw Hx'. split.
  - intros [H1 H2].
    assert (y' = Y).
    { destruct (Z_lt_le_dec y' Y) as [L|L]; [|destruct (Z_lt_le_dec Y y') as [L'|L']; [|lia]].
      - assert (y' * w + w <= Y * w) by nia. lia.
      - assert (Y * w + w <= y' * w) by nia. lia. }
    subst y'. lia.
  - intros [-> H]. lia.
Qed.

(* ------------------------------------------------------------------------------------------------------------ *)
(* 3. write-back of the size x size block of a bordered workspace (stride s) into a plane of width w            *)
(* ------------------------------------------------------------------------------------------------------------ *)
Lemma write_back_spec (size : nat) (s w h X0 Y0 : Z) (ws : list Z) (a : arr) :
  let n := Z.of_nat size in
  0 <= X0 -> X0 + n <= w -> 0 <= Y0 -> Y0 + n <= h -> alenZ a = w * h ->
  0 < s -> (1 + n) * s <= len ws -> 1 + n <= s ->
  exists a',
    for_range size 0 (fun y b => copy_block_arr b ((Y0 + y) * w + X0) ws ((1 + y) * s + 1) n) a = Ok a' /\
    alen a' = alen a /\
    forall x' y', 0 <= x' < w -> 0 <= y' ->
      araw a' (Z.to_N (y' * w + x')) =
      if (X0 <=? x') && (x' <? X0 + n) && (Y0 <=? y') && (y' <? Y0 + n)
      then get ws ((1 + (y' - Y0)) * s + 1 + (x' - X0)) else araw a (Z.to_N (y' * w + x')).
Proof.
  intros n HX HXw HY HYh Hlen Hs Hws Hns.
  pose (P := fun (j : Z) (b : arr) =>
    alen b = alen a /\
    forall x' y', 0 <= x' < w -> 0 <= y' ->
      araw b (Z.to_N (y' * w + x')) =
      if (X0 <=? x') && (x' <? X0 + n) && (Y0 <=? y') && (y' <? Y0 + j)
      then get ws ((1 + (y' - Y0)) * s + 1 + (x' - X0)) else araw a (Z.to_N (y' * w + x'))).
  destruct (for_range_inv P (fun y b => copy_block_arr b ((Y0 + y) * w + X0) ws ((1 + y) * s + 1) n) size 0 a) as (a' & E & HP).
  - split; [reflexivity|]. intros x' y' Hx' Hy'.
    destruct (Z.leb_spec Y0 y'); destruct (Z.ltb_spec y' (Y0 + 0)); rewrite ?andb_false_r; cbn [andb]; try reflexivity; lia.
  - intros j b Hj [Lb Hb].
    assert (Hrow : 0 <= (Y0 + j) * w + X0 /\ (Y0 + j) * w + X0 + n <= alenZ b).
    { unfold alenZ. rewrite Lb. fold (alenZ a). rewrite Hlen. split; [apply idx_nonneg; lia|].
      assert ((Y0 + j) * w + w <= h * w) by nia. lia. }
    destruct (copy_block_arr_spec b ((Y0 + j) * w + X0) ws ((1 + j) * s + 1) n) as (b' & Eb & Lb' & Hb'); try lia.
    { assert ((1 + j) * s + s <= (1 + n) * s) by nia. lia. }
    exists b'. split; [exact Eb|]. split; [congruence|].
    intros x' y' Hx' Hy'. rewrite Hb'.
    rewrite Z2N.id by (apply idx_nonneg; lia).
    destruct (Z.leb_spec ((Y0 + j) * w + X0) (y' * w + x')) as [H1|H1];
      [destruct (Z.ltb_spec (y' * w + x') ((Y0 + j) * w + X0 + n)) as [H2|H2]|]; cbn [andb].
    + destruct (proj1 (idx_row_range w X0 (Y0 + j) n x' y' HX ltac:(lia) HXw Hx') (conj H1 H2)) as [-> Hxr].
      rewrite (leb_true X0 x'), (ltb_true x' (X0 + n)), (leb_true Y0 (Y0 + j)), (ltb_true (Y0 + j) (Y0 + (j + 1))) by lia.
      cbn [andb]. f_equal. lia.
    + rewrite Hb by lia.
      assert (Hne : ~ (y' = Y0 + j /\ X0 <= x' < X0 + n)).
      { intros Hc. apply (proj2 (idx_row_range w X0 (Y0 + j) n x' y' HX ltac:(lia) HXw Hx')) in Hc. lia. }
      destruct (Z.leb_spec X0 x'); destruct (Z.ltb_spec x' (X0 + n)); destruct (Z.leb_spec Y0 y');
        destruct (Z.ltb_spec y' (Y0 + j)); destruct (Z.ltb_spec y' (Y0 + (j + 1))); cbn [andb]; try reflexivity; lia.
    + rewrite Hb by lia.
      assert (Hne : ~ (y' = Y0 + j /\ X0 <= x' < X0 + n)).
      { intros Hc. apply (proj2 (idx_row_range w X0 (Y0 + j) n x' y' HX ltac:(lia) HXw Hx')) in Hc. lia. }
      destruct (Z.leb_spec X0 x'); destruct (Z.ltb_spec x' (X0 + n)); destruct (Z.leb_spec Y0 y');
        destruct (Z.ltb_spec y' (Y0 + j)); destruct (Z.ltb_spec y' (Y0 + (j + 1))); cbn [andb]; try reflexivity; lia.
  - exists a'. split; [exact E|]. destruct HP as [L H]. split; [exact L|]. exact H.
Qed.
