(* C01, frame level: the Model decoder and the specification decoder evaluated on hand-made VP8L payloads
   (from the specification adequacy evidence: every payload below is decoded by libwebp 1.3.1 to the same pixels as
   Spec.VP8L.decode, or rejected by both).  They show the conclusion of C01T_frame.decode_frame_matches_spec on real
   streams with transform lists, independently of its hypotheses, and that the `stream_in_format` premise is needed. *)
From Coq Require Import ZArith List Bool.
From WebP Require Import Lib.Res Model.Lossless Proofs.C01T_repr Proofs.C01T_frame.
From WebP Require Spec.VP8L.
Import ListNotations.
Open Scope Z_scope.

Definition s_pred_then_index : list Z := [47; 5; 64; 0; 16; 129; 11; 44; 68; 244; 63; 250; 128; 7; 120; 28; 128; 236; 0; 7; 7; 248; 143; 150; 99; 120; 32; 8; 0; 0; 0; 0; 0; 0; 0; 0; 16; 0; 0; 0; 0; 0; 0; 64; 0; 0; 0; 0; 0; 0; 0; 0; 0; 0; 0; 4; 0; 0; 0; 0; 0; 32; 0; 0; 0; 0; 0; 0; 34; 34; 38; 1].
Definition s_index_then_pred : list Z := [47; 5; 64; 0; 16; 31; 240; 0; 143; 3; 144; 29; 224; 224; 0; 255; 209; 114; 28; 184; 192; 66; 68; 255; 35; 60; 16; 4; 0; 0; 0; 0; 0; 0; 0; 0; 8; 0; 0; 0; 0; 0; 0; 32; 0; 0; 0; 0; 0; 0; 0; 0; 0; 0; 0; 2; 0; 0; 0; 0; 0; 16; 0; 0; 0; 0; 0; 0; 17; 17; 147].
Definition s_index_beyond : list Z := [47; 4; 64; 0; 16; 23; 112; 5; 138; 7; 8; 188; 192; 224; 128; 255; 161; 53; 240; 64; 36; 0; 0; 0; 0; 0; 96; 0; 0; 192; 0; 0; 0; 0; 0; 0; 0; 0; 0; 0; 0; 0; 0; 0; 0; 0; 0; 0; 0; 0; 0; 0; 0; 0; 0; 1; 0; 0; 0; 0; 0; 160; 9; 77; 104; 66; 104].
Definition s_green_twice : list Z := [47; 1; 0; 0; 16; 45; 50; 162; 255; 1; 0; 0; 0; 0; 0; 0; 0; 0].
Definition s_modes_14_15 : list Z := [47; 7; 192; 1; 16; 1; 15; 4; 1; 0; 0; 0; 0; 0; 0; 58; 0; 0; 0; 0; 0; 0; 0; 0; 0; 0; 0; 0; 0; 0; 0; 0; 0; 0; 0; 0; 0; 0; 0; 0; 0; 0; 0; 0; 0; 0; 0; 0; 64; 68; 255; 163; 5; 31; 208; 127; 0; 224; 1; 154; 14; 240; 31; 98; 56; 209; 25; 204; 216; 197; 27; 93; 81; 149; 193; 52; 88; 91; 21; 146; 33; 103; 200; 94; 193; 77; 122; 238; 241; 57; 142; 255; 34; 56; 237].
Definition s_modes_5_10_3 : list Z := [47; 7; 192; 1; 16; 1; 15; 4; 1; 0; 0; 0; 0; 0; 10; 33; 0; 0; 0; 0; 0; 0; 0; 0; 0; 0; 0; 0; 0; 0; 0; 0; 0; 0; 0; 0; 0; 0; 0; 0; 0; 0; 0; 0; 0; 0; 0; 0; 64; 68; 255; 195; 6; 31; 208; 127; 0; 224; 1; 154; 14; 240; 31; 98; 56; 209; 25; 204; 216; 197; 27; 93; 81; 149; 193; 52; 88; 91; 21; 146; 33; 103; 200; 94; 193; 77; 122; 238; 241; 57; 142; 255; 34; 56; 237].

(* agreement check: Model result = Ok pixels and specification result = Some (w, h, pixels) *)
Definition agree (data : list Z) (w h : Z) : bool :=
  match decode_frame data [] w h false (repeat 0 (Z.to_nat (4 * w * h))), V.decode_rgba data with
  | Ok px, Some (w', h', px') => (w' =? w) && (h' =? h) && (if list_eq_dec Z.eq_dec px px' then true else false)
  | _, _ => false
  end.

(* predictor, then colour indexing with 4 colours (2 bits per pixel, 6 pixels per row in two bytes) *)
Example frame_predictor_then_indexing : agree s_pred_then_index 6 2 = true.
Proof. vm_compute. reflexivity. Qed.

(* colour indexing first, then a predictor on the packed image *)
Example frame_indexing_then_predictor : agree s_index_then_pred 6 2 = true.
Proof. vm_compute. reflexivity. Qed.

(* colour indexing with an index beyond the table: transparent black *)
Example frame_index_beyond_table : agree s_index_beyond 5 2 = true.
Proof. vm_compute. reflexivity. Qed.

(* the same transform twice: rejected by both *)
Example frame_transform_twice_rejected :
  V.decode s_green_twice = None /\ decode_frame s_green_twice [] 2 1 false (repeat 0 8) = Err ETransformError.
Proof. vm_compute. split; reflexivity. Qed.

(* FINDING (known since the specification adequacy run; outside the 14 modes of the format text): predictor blocks
   with mode 14 or 15.  libwebp and Spec.VP8L predict 0xff000000 (mode = green & 15, modes 14/15 = mode 0); the Rust code
   takes the whole green byte as mode and leaves such blocks untouched.  Both decoders accept the stream, the pixels
   differ: the premise `stream_in_format` of decode_frame_matches_spec cannot be dropped.  (What the Rust code computes
   instead is proved in C01T_predictor.predictor_transform_model / C01T_frame.inverse_transform_m.) *)
Example frame_predictor_mode14_refuted :
  agree s_modes_14_15 8 8 = false /\
  (exists px, decode_frame s_modes_14_15 [] 8 8 false (repeat 0 256) = Ok px) /\ (exists px, V.decode_rgba s_modes_14_15 = Some (8, 8, px)).
Proof. vm_compute. split; [reflexivity|]. split; eexists; reflexivity. Qed.

Example frame_predictor_mode15_refuted : agree s_modes_5_10_3 8 8 = false.
Proof. vm_compute. reflexivity. Qed.
