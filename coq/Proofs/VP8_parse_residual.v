(* VP8 parsing, part 4: read_residual_data = the non-skipped branch of Spec.VP8.parse_residuals (context bookkeeping:
   which contexts each of the 25 / 24 blocks is read with, how the `top` / `left` complexity arrays are updated, the plane
   order, the quantiser pair of each plane), followed by the inverse transforms the crate applies in place. *)
From Coq Require Import ZArith Lia List Bool.
From WebP Require Import Lib.Res Gen.Kernels Gen.Tables Lib.ZBits Lib.Sweep Proofs.C15_num Proofs.C15_ideal Proofs.C15_model
  Proofs.C15_ops Proofs.C15_reqs Proofs.C15_main Spec.RfcBoolDec Spec.BoolDec Spec.VP8Tables Spec.VP8 Model.ArithDec
  Model.Vp8Parse Proofs.VP8_tables Proofs.VP8_arraykernels_aux Proofs.VP8_parse_base Proofs.VP8_parse_coeffs Proofs.VP8_parse_mbheader
  Proofs.VP8_parse_header.
Import ListNotations.
Open Scope Z_scope.

(* ------------------------------------------------------------------------------------------------------------ *)
(* once past the end of file, always past the end of file                                                       *)
(* ------------------------------------------------------------------------------------------------------------ *)
Lemma eof_absorbing_bit d p : is_past_eof d = true -> is_past_eof (snd (cold_pure d p)) = true.
Proof.
  unfold is_past_eof. intros H. apply Z.eqb_eq in H. unfold cold_pure.
  destruct (bit_count (state d) <? 0).
  - destruct (nth_error (chunks d) (Z.to_nat (chunk_index (state d)))) as [c|].
    + destruct (tail_on (pure_load (state d) c) p) as [b s']. cbn [snd set_state final_bytes_remaining]. rewrite H. reflexivity.
    + assert (E : final_bytes_remaining (final_pure d) = FINAL_BYTES_REMAINING_EOF).
      { unfold final_pure. cbv zeta. rewrite H. reflexivity. }
      unfold is_past_eof. rewrite E. rewrite Z.eqb_refl. cbn [snd]. rewrite E. reflexivity.
  - destruct (tail_on (state d) p) as [b s']. cbn [snd set_state final_bytes_remaining]. rewrite H. reflexivity.
Qed.

Lemma eof_absorbing {A} (g : gprog A) : forall d, is_past_eof d = true -> is_past_eof (snd (interpG cold_pure g d)) = true.
Proof.
  induction g as [a | p k IH]; intros d H; cbn [interpG snd]; [exact H|].
  pose proof (eof_absorbing_bit d p H) as H1. destruct (cold_pure d p) as [b d1]. apply IH. exact H1.
Qed.

(* ------------------------------------------------------------------------------------------------------------ *)
(* one block                                                                                                    *)
(* ------------------------------------------------------------------------------------------------------------ *)
Definition G_blk (nodes : list (list (list TreeNode))) (dcq acq first cx : Z) (block : list Z) : gprog (bool * list Z) :=
  G_coeff (Z.to_nat (16 - first)) nodes dcq acq first cx false false block.

(* read_coefficients for every (live or exhausted) decoder *)
Lemma read_coefficients_model (v : Vp8) (probs4 : list (list (list (list Z)))) (p plane cx dcq acq : Z) (d : Dec) (block : list Z) :
  length block = 16%nat -> tables_ok probs4 -> token_nodes_of probs4 = Ok (v_token_probs v) ->
  0 <= plane <= 3 -> 0 <= cx <= 2 -> i16 dcq -> i16 acq ->
  0 <= p -> nth_error (v_partitions v) (Z.to_nat p) = Some d -> wsafe d -> big d ->
  read_coefficients v block p plane cx dcq acq
  = (let '(hb, d1) := interpG cold_pure (G_blk (nth (Z.to_nat plane) (v_token_probs v) []) dcq acq (if plane =? 0 then 1 else 0) cx block) d in
     if is_past_eof d1 then Err EBitStreamError else Ok (fst hb, snd hb, set_partitions v (updZ (v_partitions v) p d1))).
Proof.
  intros Lb [L4 F4] Htp Hplane Hcx Hdc Hac Hp Hd Hw Hbig.
  destruct (map_res_spec _ probs4 (v_token_probs v) Htp) as [LT NT].
  specialize (NT (Z.to_nat plane) [] [] ltac:(lia)).
  set (first := if plane =? 0 then 1 else 0).
  set (probs := nth (Z.to_nat plane) probs4 []) in *. set (nodes := nth (Z.to_nat plane) (v_token_probs v) []) in *.
  assert (Hprobs : plane_ok probs) by (rewrite Forall_forall in F4; apply F4; apply nth_In; lia).
  assert (Hfirst : first = 0 \/ first = 1) by (unfold first; destruct (plane =? 0); lia).
  pose proof (coeff_loop_ok probs nodes Hprobs NT dcq acq Hdc Hac (Z.to_nat (16 - first)) d first cx false false block
                Hw Hbig ltac:(lia) ltac:(lia) Hcx Lb) as EM.
  unfold G_blk. destruct (interpG cold_pure (G_coeff (Z.to_nat (16 - first)) nodes dcq acq first cx false false block) d) as [hbM d1].
  assert (Hpl : 0 <= p < Z.of_nat (length (v_partitions v))).
  { split; [lia|]. assert ((Z.to_nat p < length (v_partitions v))%nat) by (apply nth_error_Some; rewrite Hd; discriminate). lia. }
  unfold read_coefficients.
  assert (Ec : (cx <=? 2) = true) by (apply Z.leb_le; lia). rewrite Ec. cbn [negb].
  fold first. rewrite (idx_ok (v_token_probs v) plane []) by lia. cbn [bind]. fold nodes.
  unfold idx at 1. destruct (Z.ltb_spec p 0); [lia|]. rewrite Hd. cbn [of_option bind].
  rewrite EM. cbn [bind]. rewrite set_idx_ok by exact Hpl. cbn [bind].
  rewrite check_cases. destruct (is_past_eof d1); reflexivity.
Qed.

(* what a block can contain: every coefficient is a magnitude up to 4162 times a quantiser *)
Definition coef_bound (dcq acq : Z) : Z := 4162 * Z.max (Z.abs dcq) (Z.abs acq).

Lemma mag_bound {St} (bit : St -> Z -> bool * St) tok s : 1 <= tok <= 10 -> 1 <= fst (interpG bit (mag_prog tok) s) <= 4162.
Proof.
  intros Ht. unfold mag_prog. destruct (Z.leb_spec tok 4); [cbn [interpG fst]; lia|]. rewrite interpG_bind.
  destruct (cat_facts (tok - 5) ltac:(lia)) as [Hl Hbase].
  assert (Hex : forall l e s', 0 <= e -> (e + 1) * 2 ^ Z.of_nat (length l) <= 32768 ->
            0 <= fst (interpG bit (extra_prog l e) s') /\ fst (interpG bit (extra_prog l e) s') + 1 <= (e + 1) * 2 ^ Z.of_nat (length l)).
  { induction l as [|t tl IHl]; intros e s' He Hb; cbn [extra_prog].
    - cbn [interpG fst length] in *. change (2 ^ Z.of_nat 0) with 1 in *. lia.
    - assert (E2 : 2 ^ Z.of_nat (length (t :: tl)) = 2 * 2 ^ Z.of_nat (length tl)).
      { cbn [length]. rewrite Nat2Z.inj_succ. rewrite Z.pow_succ_r by lia. reflexivity. }
      pose proof (pow2_pos (Z.of_nat (length tl)) ltac:(lia)) as Hpos. rewrite E2 in *.
      destruct (t =? 0); [cbn [interpG fst]; nia|]. cbn [interpG]. destruct (bit s' t) as [b s''].
      assert (Hb2 : 0 <= ArithDec.b2z b <= 1) by (unfold ArithDec.b2z; destruct b; lia).
      destruct (IHl (e + e + ArithDec.b2z b) s'' ltac:(lia) ltac:(nia)) as [L1 L2]. split; [exact L1 | nia]. }
  destruct (Hex (nth (Z.to_nat (tok - 5)) vp8_PROB_DCT_CAT []) 0 s ltac:(lia)) as [L1 L2].
  { rewrite Hl. change (2 ^ Z.of_nat 12) with 4096. lia. }
  rewrite Hl in L2. change (2 ^ Z.of_nat 12) with 4096 in L2.
  destruct (interpG bit (extra_prog (nth (Z.to_nat (tok - 5)) vp8_PROB_DCT_CAT []) 0) s) as [e s']. cbn [interpG fst] in *. lia.
Qed.

Lemma G_coeff_bound {St} (bit : St -> Z -> bool * St) probs nodes dcq acq : plane_ok probs -> plane_nodes probs nodes ->
  forall n i cx skip has block s, i = 16 - Z.of_nat n -> 0 <= i -> 0 <= cx <= 2 -> length block = 16%nat ->
  Forall (within (coef_bound dcq acq)) block ->
  let r := fst (interpG bit (G_coeff n nodes dcq acq i cx skip has block) s) in
  length (snd r) = 16%nat /\ Forall (within (coef_bound dcq acq)) (snd r).
Proof.
  intros Hprobs Hnodes. induction n as [|n IH]; intros i cx skip has block s Ei Hi Hc Hl Hb; cbn [G_coeff]; [cbn [interpG fst snd]; auto|].
  cbv zeta. rewrite interpG_bind, interpG_lift.
  assert (Hi15 : 0 <= i <= 15) by lia. pose proof (bands_range i Hi15) as Hband.
  set (band := nth (Z.to_nat i) vp8_COEFF_BANDS 0) in *.
  destruct (plane_nodes_row probs nodes (Z.to_nat band) (Z.to_nat cx) Hprobs Hnodes ltac:(lia) ltac:(lia)) as (L8 & L3 & En & L11).
  set (tree := nth (Z.to_nat cx) (nth (Z.to_nat band) nodes []) []) in *.
  pose proof (plane_row probs (Z.to_nat band) (Z.to_nat cx) Hprobs ltac:(lia) ltac:(lia)) as Hrow.
  pose proof (token_tree_okb _ Hrow) as Hok.
  pose proof (tree_prog_range vp8_DCT_TOKEN_TREE _ tree 11 Hok En ltac:(lia) token_leaves bit (S (length tree)) (ArithDec.b2z skip) s) as Htok.
  fold (tok_prog tree skip) in Htok.
  destruct (interpP bit (tok_prog tree skip) s) as [tok s1]. cbn [fst] in Htok.
  destruct (Z.eqb_spec tok 11); [cbn [interpG fst snd]; auto|].
  destruct (Z.eqb_spec tok 0); [apply IH; try assumption; lia|].
  rewrite interpG_bind. pose proof (mag_bound bit tok s1 ltac:(lia)) as Hm.
  destruct (interpG bit (mag_prog tok) s1) as [v s2]. cbn [fst] in Hm. cbn [interpG]. destruct (bit s2 128) as [sg s3].
  apply IH; try lia; [apply next_cx_range | rewrite updZ_length; exact Hl |].
  (* the new coefficient *)
  set (zz := nth (Z.to_nat i) vp8_ZIGZAG 0). set (c := (if sg then - v else v) * (if 0 <? zz then acq else dcq)).
  assert (Hcb : within (coef_bound dcq acq) c).
  { unfold within, coef_bound, c. destruct sg; destruct (0 <? zz); nia. }
  clear - Hb Hcb. unfold updZ. revert Hb. generalize (Z.to_nat zz). intros k. revert k.
  induction block as [|x l IHl]; intros k Hb; [constructor|]. destruct k; cbn [upd]; inversion Hb; subst; constructor; auto.
Qed.

(* ------------------------------------------------------------------------------------------------------------ *)
(* the states read_residual_data goes through: partition p, top[mbx].complexity and left.complexity change      *)
(* ------------------------------------------------------------------------------------------------------------ *)
Definition rst (v : Vp8) (p mbx : Z) (t : MacroBlock) (d : Dec) (tc lc : list Z) : Vp8 :=
  set_left (set_top (set_partitions v (updZ (v_partitions v) p d)) (updZ (v_top v) mbx (mb_set_complexity t tc)))
           (mb_set_complexity (v_left v) lc).

Lemma rst_parts v p mbx t d tc lc : v_partitions (rst v p mbx t d tc lc) = updZ (v_partitions v) p d. Proof. destruct v; reflexivity. Qed.
Lemma rst_top v p mbx t d tc lc : v_top (rst v p mbx t d tc lc) = updZ (v_top v) mbx (mb_set_complexity t tc). Proof. destruct v; reflexivity. Qed.
Lemma rst_left v p mbx t d tc lc : v_left (rst v p mbx t d tc lc) = mb_set_complexity (v_left v) lc. Proof. destruct v; reflexivity. Qed.
Lemma rst_tp v p mbx t d tc lc : v_token_probs (rst v p mbx t d tc lc) = v_token_probs v. Proof. destruct v; reflexivity. Qed.
Lemma rst_seg v p mbx t d tc lc : v_segment (rst v p mbx t d tc lc) = v_segment v. Proof. destruct v; reflexivity. Qed.
Lemma rst_twice v p mbx t d tc lc d' tc' lc' :
  rst (rst v p mbx t d tc lc) p mbx (mb_set_complexity t tc) d' tc' lc' = rst v p mbx t d' tc' lc'.
Proof.
  destruct v as [vr vb vw vh vf vse vsum vsg vrd vmd vp vnp vst vtp vpi vpsf vtop vleft].
  cbv [rst set_left set_top set_partitions v_top v_left v_r v_b v_mbwidth v_mbheight v_frame v_segments_enabled v_segments_update_map
       v_segment v_ref_delta v_mode_delta v_partitions v_num_partitions v_segment_tree_nodes v_token_probs v_prob_intra v_prob_skip_false].
  unfold updZ. rewrite !upd_upd. reflexivity.
Qed.
Lemma rst_id v p mbx t d : nth_error (v_partitions v) (Z.to_nat p) = Some d -> nth_error (v_top v) (Z.to_nat mbx) = Some t ->
  rst v p mbx t d (mb_complexity t) (mb_complexity (v_left v)) = v.
Proof.
  intros Ed Et. destruct v as [vr vb vw vh vf vse vsum vsg vrd vmd vp vnp vst vtp vpi vpsf vtop vleft].
  cbv [rst set_left set_top set_partitions v_top v_left v_r v_b v_mbwidth v_mbheight v_frame v_segments_enabled v_segments_update_map
       v_segment v_ref_delta v_mode_delta v_partitions v_num_partitions v_segment_tree_nodes v_token_probs v_prob_intra v_prob_skip_false] in *.
  replace (mb_set_complexity t (mb_complexity t)) with t by (destruct t; reflexivity).
  replace (mb_set_complexity vleft (mb_complexity vleft)) with vleft by (destruct vleft; reflexivity).
  replace (updZ vtop mbx t) with vtop; [replace (updZ vp p d) with vp; [reflexivity|]|].
  - unfold updZ. rewrite <- (upd_nth_id vp (Z.to_nat p) d) at 1. f_equal. apply nth_error_nth. exact Ed.
  - unfold updZ. rewrite <- (upd_nth_id vtop (Z.to_nat mbx) t) at 1. f_equal. apply nth_error_nth. exact Et.
Qed.
Lemma rst_set_parts v p mbx t d tc lc d' :
  set_partitions (rst v p mbx t d tc lc) (updZ (v_partitions (rst v p mbx t d tc lc)) p d') = rst v p mbx t d' tc lc.
Proof.
  destruct v as [vr vb vw vh vf vse vsum vsg vrd vmd vp vnp vst vtp vpi vpsf vtop vleft].
  cbv [rst set_left set_top set_partitions v_top v_left v_r v_b v_mbwidth v_mbheight v_frame v_segments_enabled v_segments_update_map
       v_segment v_ref_delta v_mode_delta v_partitions v_num_partitions v_segment_tree_nodes v_token_probs v_prob_intra v_prob_skip_false].
  unfold updZ. rewrite upd_upd. reflexivity.
Qed.

Lemma rst_set_top_cx v p mbx t d tc lc ti x : 0 <= mbx < Z.of_nat (length (v_top v)) -> 0 <= ti < Z.of_nat (length tc) ->
  set_top_complexity (rst v p mbx t d tc lc) mbx ti x = Ok (rst v p mbx t d (updZ tc ti x) lc).
Proof.
  intros Hm Ht. unfold set_top_complexity. rewrite rst_top.
  rewrite (idx_ok _ mbx MacroBlock_default) by (rewrite updZ_length; lia). cbn [bind].
  assert (En : nth (Z.to_nat mbx) (updZ (v_top v) mbx (mb_set_complexity t tc)) MacroBlock_default = mb_set_complexity t tc)
    by (unfold updZ; apply nth_upd_same; lia).
  rewrite En. cbn [mb_complexity mb_set_complexity].
  rewrite set_idx_ok by lia. cbn [bind]. rewrite set_idx_ok by (rewrite updZ_length; lia). cbn [bind]. f_equal.
  destruct v as [vr vb vw vh vf vse vsum vsg vrd vmd vp vnp vst vtp vpi vpsf vtop vleft].
  cbv [rst set_left set_top set_partitions v_top v_left v_r v_b v_mbwidth v_mbheight v_frame v_segments_enabled v_segments_update_map
       v_segment v_ref_delta v_mode_delta v_partitions v_num_partitions v_segment_tree_nodes v_token_probs v_prob_intra v_prob_skip_false].
  unfold updZ. rewrite upd_upd. reflexivity.
Qed.
Lemma rst_set_left_cx v p mbx t d tc lc li x : 0 <= li < Z.of_nat (length lc) ->
  set_left_complexity (rst v p mbx t d tc lc) li x = Ok (rst v p mbx t d tc (updZ lc li x)).
Proof.
  intros Hl. unfold set_left_complexity. rewrite rst_left. cbn [mb_complexity mb_set_complexity].
  rewrite set_idx_ok by lia. cbn [bind].
  destruct v as [vr vb vw vh vf vse vsum vsg vrd vmd vp vnp vst vtp vpi vpsf vtop vleft]. reflexivity.
Qed.
Lemma rst_top_cx v p mbx t d tc lc ti : 0 <= mbx < Z.of_nat (length (v_top v)) -> 0 <= ti < Z.of_nat (length tc) ->
  top_complexity (rst v p mbx t d tc lc) mbx ti = Ok (nth (Z.to_nat ti) tc 0).
Proof.
  intros Hm Ht. unfold top_complexity. rewrite rst_top.
  rewrite (idx_ok _ mbx MacroBlock_default) by (rewrite updZ_length; lia). cbn [bind].
  assert (En : nth (Z.to_nat mbx) (updZ (v_top v) mbx (mb_set_complexity t tc)) MacroBlock_default = mb_set_complexity t tc)
    by (unfold updZ; apply nth_upd_same; lia).
  rewrite En. cbn [mb_complexity mb_set_complexity]. apply idx_ok. lia.
Qed.
Lemma rst_left_cx v p mbx t d tc lc li : 0 <= li < Z.of_nat (length lc) ->
  left_complexity (rst v p mbx t d tc lc) li = Ok (nth (Z.to_nat li) lc 0).
Proof. intros Hl. unfold left_complexity. rewrite rst_left. cbn [mb_complexity mb_set_complexity]. apply idx_ok. lia. Qed.

Lemma skipn_skipn' {A} (l : list A) : forall a b, skipn a (skipn b l) = skipn (b + a) l.
Proof.
  induction l as [|x l IH]; intros a b; [destruct a; destruct b; reflexivity|].
  destruct b as [|b]; [reflexivity|]. cbn [skipn Nat.add]. apply IH.
Qed.

(* ---- the flat array of 24 blocks ---- *)
Lemma put16_length blocks i b : length b = 16%nat -> 0 <= i -> 16 * i + 16 <= Z.of_nat (length blocks) -> length (put16 blocks i b) = length blocks.
Proof.
  intros Lb Hi Hl. unfold put16. rewrite !app_length, firstn_length, skipn_length. lia.
Qed.
Lemma put16_firstn blocks i b : length b = 16%nat -> 0 <= i -> 16 * i + 16 <= Z.of_nat (length blocks) ->
  firstn (Z.to_nat (16 * (i + 1))) (put16 blocks i b) = firstn (Z.to_nat (16 * i)) blocks ++ b.
Proof.
  intros Lb Hi Hl. unfold put16. rewrite app_assoc.
  rewrite firstn_app. rewrite app_length, firstn_length.
  replace (Nat.min (Z.to_nat (16 * i)) (length blocks)) with (Z.to_nat (16 * i)) by lia.
  replace (Z.to_nat (16 * (i + 1)) - (Z.to_nat (16 * i) + length b))%nat with 0%nat by lia. cbn [firstn]. rewrite app_nil_r.
  apply firstn_all2. rewrite app_length, firstn_length. lia.
Qed.
Lemma put16_skipn blocks i b j : length b = 16%nat -> 0 <= i -> 16 * i + 16 <= Z.of_nat (length blocks) -> i + 1 <= j ->
  skipn (Z.to_nat (16 * j)) (put16 blocks i b) = skipn (Z.to_nat (16 * j)) blocks.
Proof.
  intros Lb Hi Hl Hj. unfold put16. rewrite app_assoc. rewrite skipn_app.
  rewrite (skipn_all2 (firstn _ _ ++ b)) by (rewrite app_length, firstn_length; lia). cbn [app].
  rewrite app_length, firstn_length. rewrite skipn_skipn'. f_equal. lia.
Qed.
Lemma get16_ok blocks i : 0 <= i -> 16 * i + 16 <= Z.of_nat (length blocks) ->
  get16 blocks i = Ok (firstn 16 (skipn (Z.to_nat (16 * i)) blocks)) /\ length (firstn 16 (skipn (Z.to_nat (16 * i)) blocks)) = 16%nat.
Proof.
  intros Hi Hl. unfold get16.
  assert (E : (0 <=? i) && (16 * i + 16 <=? Z.of_nat (length blocks)) = true) by (apply andb_true_iff; split; apply Z.leb_le; lia).
  rewrite E. split; [reflexivity|]. rewrite firstn_length, skipn_length. lia.
Qed.

(* ---- one block, one row, several rows as gprogs ---- *)
Definition blk_flag (hb : bool * list Z) : bool := negb (nth 0 (snd hb) 0 =? 0) || fst hb.
Definition blk_post (hb : bool * list Z) : list Z := if blk_flag hb then app16 idct4x4 [] (snd hb) else snd hb.

Fixpoint G_row (nodes : list (list (list TreeNode))) (dcq acq first : Z) (tops : list Z) (l : Z) (inits : list (list Z))
  : gprog (list (bool * list Z) * list Z * Z) :=
  match tops, inits with
  | t :: tl, b :: btl =>
    gbind (G_blk nodes dcq acq first (t + l) b) (fun hb =>
    gbind (G_row nodes dcq acq first tl (ArithDec.b2z (fst hb)) btl) (fun r =>
    GRet (hb :: fst (fst r), ArithDec.b2z (fst hb) :: snd (fst r), snd r)))
  | _, _ => GRet ([], [], l)
  end.

Definition bounded_blocks (B : Z) (bs : list (list Z)) : Prop := Forall (fun b => length b = 16%nat /\ Forall (within B) b) bs.
Definition cx_ok (l : list Z) : Prop := Forall (fun c => 0 <= c <= 1) l.

Section Rows.
Variable probs : list (list (list Z)).
Variable nodes : list (list (list TreeNode)).
Hypothesis Hprobs : plane_ok probs.
Hypothesis Hnodes : plane_nodes probs nodes.
Variables dcq acq first : Z.
Hypothesis Hfirst : first = 0 \/ first = 1.

Lemma G_blk_probs cx b : 0 <= cx <= 2 -> gprobs_ok (G_blk nodes dcq acq first cx b).
Proof. intros Hc. unfold G_blk. apply (G_coeff_probs probs nodes Hprobs Hnodes); lia. Qed.

Lemma b2z_01 (b : bool) : 0 <= ArithDec.b2z b <= 1.
Proof. destruct b; cbn; lia. Qed.

Lemma G_row_probs tops : forall l inits, cx_ok tops -> 0 <= l <= 1 -> gprobs_ok (G_row nodes dcq acq first tops l inits).
Proof.
  induction tops as [|t tl IH]; intros l inits Ht Hl; [destruct inits; exact I|]. destruct inits as [|b btl]; [exact I|].
  inversion Ht; subst. cbn [G_row]. apply gprobs_bind; [apply G_blk_probs; lia|]. intros hb.
  apply gprobs_bind; [apply IH; [assumption | apply b2z_01] | intros r; exact I].
Qed.

(* results of a row: shapes and bounds, for any reader *)
Lemma G_row_inv {St} (bit : St -> Z -> bool * St) B tops : forall l inits s, cx_ok tops -> 0 <= l <= 1 -> length inits = length tops ->
  coef_bound dcq acq <= B -> bounded_blocks B inits ->
  let r := fst (interpG bit (G_row nodes dcq acq first tops l inits) s) in
  length (fst (fst r)) = length tops /\ length (snd (fst r)) = length tops /\ cx_ok (snd (fst r)) /\ 0 <= snd r <= 1 /\
  bounded_blocks B (map snd (fst (fst r))).
Proof.
  induction tops as [|t tl IH]; intros l inits s Ht Hl Hli HB Hin.
  - destruct inits; [|discriminate]. cbn [G_row interpG fst snd length map]. repeat split; try lia; constructor.
  - destruct inits as [|b btl]; [discriminate|]. inversion Ht; subst. inversion Hin as [|? ? [Lb Fb] Hbtl]; subst.
    cbn [G_row]. cbv zeta. rewrite !interpG_bind.
    assert (Fb' : Forall (within B) b) by exact Fb.
    pose proof (G_coeff_bound bit probs nodes dcq acq Hprobs Hnodes (Z.to_nat (16 - first)) first (t + l) false false b s
                  ltac:(lia) ltac:(lia) ltac:(lia) Lb) as Hbd.
    (* the bound lemma is stated for coef_bound; widen to B *)
    assert (Hbd' : let r := fst (interpG bit (G_blk nodes dcq acq first (t + l) b) s) in length (snd r) = 16%nat /\ Forall (within B) (snd r)).
    { clear Hbd. unfold G_blk.
      assert (Hgen : forall n i cx skip has block s0, i = 16 - Z.of_nat n -> 0 <= i -> 0 <= cx <= 2 -> length block = 16%nat -> Forall (within B) block ->
                length (snd (fst (interpG bit (G_coeff n nodes dcq acq i cx skip has block) s0))) = 16%nat /\
                Forall (within B) (snd (fst (interpG bit (G_coeff n nodes dcq acq i cx skip has block) s0)))).
      { clear - Hprobs Hnodes HB. induction n as [|n IHn]; intros i cx skip has block s0 Ei Hi Hc Hl Hb; cbn [G_coeff]; [cbn [interpG fst snd]; auto|].
        cbv zeta. rewrite interpG_bind, interpG_lift.
        assert (Hi15 : 0 <= i <= 15) by lia. pose proof (bands_range i Hi15) as Hband.
        set (band := nth (Z.to_nat i) vp8_COEFF_BANDS 0) in *.
        destruct (plane_nodes_row probs nodes (Z.to_nat band) (Z.to_nat cx) Hprobs Hnodes ltac:(lia) ltac:(lia)) as (L8 & L3 & En & L11).
        set (tree := nth (Z.to_nat cx) (nth (Z.to_nat band) nodes []) []) in *.
        pose proof (plane_row probs (Z.to_nat band) (Z.to_nat cx) Hprobs ltac:(lia) ltac:(lia)) as Hrow.
        pose proof (token_tree_okb _ Hrow) as Hok.
        pose proof (tree_prog_range vp8_DCT_TOKEN_TREE _ tree 11 Hok En ltac:(lia) token_leaves bit (S (length tree)) (ArithDec.b2z skip) s0) as Htok.
        fold (tok_prog tree skip) in Htok.
        destruct (interpP bit (tok_prog tree skip) s0) as [tok s1]. cbn [fst] in Htok.
        destruct (Z.eqb_spec tok 11); [cbn [interpG fst snd]; auto|].
        destruct (Z.eqb_spec tok 0); [apply IHn; try assumption; lia|].
        rewrite interpG_bind. pose proof (mag_bound bit tok s1 ltac:(lia)) as Hm.
        destruct (interpG bit (mag_prog tok) s1) as [v s2]. cbn [fst] in Hm. cbn [interpG]. destruct (bit s2 128) as [sg s3].
        apply IHn; try lia; [apply next_cx_range | rewrite updZ_length; exact Hl |].
        set (zz := nth (Z.to_nat i) vp8_ZIGZAG 0). set (c := (if sg then - v else v) * (if 0 <? zz then acq else dcq)).
        assert (Hcb : within B c).
        { unfold within, coef_bound, c in *. destruct sg; destruct (0 <? zz); nia. }
        clear - Hb Hcb. unfold updZ. revert Hb. generalize (Z.to_nat zz). intros k. revert k.
        induction block as [|x l IHl]; intros k Hb; [constructor|]. destruct k; cbn [upd]; inversion Hb; subst; constructor; auto. }
      apply Hgen; try lia; assumption. }
    cbv zeta in Hbd'. clear Hbd.
    destruct (interpG bit (G_blk nodes dcq acq first (t + l) b) s) as [hb s1]. cbn [fst] in Hbd'. rewrite !interpG_bind.
    specialize (IH (ArithDec.b2z (fst hb)) btl s1 ltac:(assumption) (b2z_01 _) ltac:(cbn in Hli; lia) HB Hbtl). cbv zeta in IH.
    destruct (interpG bit (G_row nodes dcq acq first tl (ArithDec.b2z (fst hb)) btl) s1) as [r s2]. cbn [interpG fst snd length map] in *.
    destruct IH as (I1 & I2 & I3 & I4 & I5). pose proof (b2z_01 (fst hb)).
    repeat split; try lia; [constructor; [lia | exact I3] | constructor; [exact Hbd' | exact I5]].
Qed.

End Rows.

(* ------------------------------------------------------------------------------------------------------------ *)
(* (M) the Model loops                                                                                          *)
(* ------------------------------------------------------------------------------------------------------------ *)
Lemma idct_block_ok b : length b = 16%nat -> Forall (within dct_bound) b -> idct_block b = Ok (app16 idct4x4 [] b).
Proof.
  intros L F. unfold idct_block. rewrite L. cbn [Z.of_nat Pos.of_succ_nat Pos.succ Z.eqb Pos.eqb negb].
  do 16 (destruct b as [|? b]; [discriminate|]). destruct b; [|discriminate].
  repeat match goal with H : Forall _ (_ :: _) |- _ => inversion H; clear H; subst end.
  cbn [app16]. rewrite idct4x4_ok_true by assumption. reflexivity.
Qed.

Lemma blk_post_length hb : length (snd hb) = 16%nat -> length (blk_post hb) = 16%nat.
Proof.
  intros L. unfold blk_post. destruct (blk_flag hb); [|exact L]. destruct hb as [h bb]. cbn [snd] in *.
  do 16 (destruct bb as [|? bb]; [discriminate|]). destruct bb; [reflexivity | discriminate].
Qed.

Lemma chunk_list_S {A} n size (l : list A) : chunk_list (S n) size l = firstn size l :: chunk_list n size (skipn size l).
Proof. reflexivity. Qed.

(* several rows: contexts above = tops, contexts to the left = lefts, one list of initial blocks per row *)
Fixpoint G_rows (nodes : list (list (list TreeNode))) (dcq acq first : Z) (tops : list Z) (lefts : list Z) (inits : list (list (list Z)))
  : gprog (list (bool * list Z) * list Z * list Z) :=
  match lefts, inits with
  | l :: ltl, bs :: bstl =>
    gbind (G_row nodes dcq acq first tops l bs) (fun r =>
    gbind (G_rows nodes dcq acq first (snd (fst r)) ltl bstl) (fun r2 =>
    GRet (fst (fst r) ++ fst (fst r2), snd (fst r2), snd r :: snd (r2))))
  | _, _ => GRet ([], tops, [])
  end.

Fixpoint row_inits (ny : nat) (size : nat) (l : list Z) : list (list (list Z)) :=
  match ny with O => [] | S m => chunk_list size 16 l :: row_inits m size (skipn (16 * size) l) end.

Section ModelRows.
Variable probs4 : list (list (list (list Z))).
Variable v : Vp8.
Hypothesis Htables : tables_ok probs4.
Hypothesis Htp : token_nodes_of probs4 = Ok (v_token_probs v).
Variables p mbx plane dcq acq B : Z.
Variable t : MacroBlock.
Hypothesis Hplane : 0 <= plane <= 3.
Hypothesis Hdc : i16 dcq.
Hypothesis Hac : i16 acq.
Hypothesis HB : coef_bound dcq acq <= B <= dct_bound.
Hypothesis Hp : 0 <= p < Z.of_nat (length (v_partitions v)).
Hypothesis Hmbx : 0 <= mbx < Z.of_nat (length (v_top v)).
Notation first := (if plane =? 0 then 1 else 0).
Notation nodes := (nth (Z.to_nat plane) (v_token_probs v) []).

Lemma plane_facts : plane_ok (nth (Z.to_nat plane) probs4 []) /\ plane_nodes (nth (Z.to_nat plane) probs4 []) nodes.
Proof.
  destruct Htables as [L4 F4]. destruct (map_res_spec _ probs4 (v_token_probs v) Htp) as [LT NT].
  specialize (NT (Z.to_nat plane) [] [] ltac:(lia)). split; [|exact NT].
  rewrite Forall_forall in F4. apply F4. apply nth_In. lia.
Qed.

Lemma within_widen b : Forall (within B) b -> Forall (within dct_bound) b.
Proof. intros F. eapply Forall_impl; [|exact F]. intros x Hx. unfold within in *. lia. Qed.

Lemma orb_assoc3 a b c : (b || a) || c = a || (b || c).
Proof. destruct a, b, c; reflexivity. Qed.

Lemma residual_row_ok nx : forall (x ibase tbase : nat) d tc lc blocks nz left,
  wsafe d -> big d -> is_past_eof d = false -> (tbase + x + nx <= length tc)%nat -> cx_ok tc -> 0 <= left <= 1 ->
  (16 * (ibase + x + nx) <= length blocks)%nat -> bounded_blocks B (chunk_list nx 16 (skipn (16 * (ibase + x)) blocks)) ->
  residual_row nx (Z.of_nat x) (rst v p mbx t d tc lc) blocks nz left mbx p plane (Z.of_nat ibase) (Z.of_nat tbase) dcq acq
  = (let '(r, d') := interpG cold_pure (G_row nodes dcq acq first (firstn nx (skipn (tbase + x) tc)) left
                                             (chunk_list nx 16 (skipn (16 * (ibase + x)) blocks))) d in
     if is_past_eof d' then Err EBitStreamError else
     Ok (rst v p mbx t d' (firstn (tbase + x) tc ++ snd (fst r) ++ skipn (tbase + x + nx) tc) lc,
         firstn (16 * (ibase + x)) blocks ++ concat (map blk_post (fst (fst r))) ++ skipn (16 * (ibase + x + nx)) blocks,
         nz || existsb blk_flag (fst (fst r)),
         snd r)).
Proof.
  destruct plane_facts as [Hprobs Hnodes].
  induction nx as [|nx IH]; intros x ibase tbase d tc lc blocks nz left Hw Hbig Heof Htc Hcx Hleft Hbl Hbb.
  - cbn [residual_row firstn chunk_list G_row interpG fst snd map concat existsb app]. rewrite !Nat.add_0_r, !firstn_skipn, orb_false_r.
    rewrite Heof. reflexivity.
  - cbn [residual_row]. unfold residual_block.
    set (i := (ibase + x)%nat). set (ti := (tbase + x)%nat).
    replace (Z.of_nat ibase + Z.of_nat x) with (Z.of_nat i) by (unfold i; lia).
    replace (Z.of_nat tbase + Z.of_nat x) with (Z.of_nat ti) by (unfold ti; lia).
    destruct (get16_ok blocks (Z.of_nat i) ltac:(lia) ltac:(unfold i; lia)) as [Eg Lg]. rewrite Eg. cbn [bind].
    replace (Z.to_nat (16 * Z.of_nat i)) with (16 * i)%nat in * by lia.
    rewrite rst_top_cx by (try exact Hmbx; unfold ti; lia). cbn [bind]. rewrite Nat2Z.id.
    set (tcv := nth ti tc 0).
    assert (Htcv : 0 <= tcv <= 1).
    { unfold cx_ok in Hcx. rewrite Forall_forall in Hcx. apply Hcx. apply nth_In. unfold ti. lia. }
    unfold u8_add_c. assert (E8 : (tcv + left <=? 255) = true) by (apply Z.leb_le; lia). rewrite E8. cbn [bind].
    (* the block read *)
    rewrite chunk_list_S in Hbb. pose proof (Forall_inv Hbb) as [Lb0 Fb0]. pose proof (Forall_inv_tail Hbb) as Hbtl.
    assert (Hpd : nth_error (v_partitions (rst v p mbx t d tc lc)) (Z.to_nat p) = Some d).
    { rewrite rst_parts. unfold updZ. apply nth_error_upd_same. lia. }
    rewrite (read_coefficients_model (rst v p mbx t d tc lc) probs4 p plane (tcv + left) dcq acq d _ Lg Htables
               ltac:(rewrite rst_tp; exact Htp) Hplane ltac:(lia) Hdc Hac ltac:(lia) Hpd Hw Hbig).
    rewrite rst_tp.
    rewrite (skipn_nth_cons tc ti 0) by (unfold ti; lia). fold tcv. rewrite firstn_cons. rewrite chunk_list_S. cbn [G_row].
    rewrite !interpG_bind.
    destruct (cold_gprog_facts (G_blk nodes dcq acq first (tcv + left) (firstn 16 (skipn (16 * i) blocks))) d Hw
                (G_blk_probs _ nodes Hprobs Hnodes dcq acq first ltac:(destruct (plane =? 0); lia) (tcv + left) (firstn 16 (skipn (16 * i) blocks)) ltac:(lia))) as [W1 C1].
    pose proof (G_row_inv _ nodes Hprobs Hnodes dcq acq first ltac:(destruct (plane =? 0); lia) cold_pure B [tcv] left
                  [firstn 16 (skipn (16 * i) blocks)] d ltac:(constructor; [lia | constructor]) Hleft eq_refl ltac:(lia)
                  ltac:(constructor; [split; assumption | constructor])) as Inv1.
    cbv zeta in Inv1. cbn [G_row] in Inv1. rewrite !interpG_bind in Inv1.
    destruct (interpG cold_pure (G_blk nodes dcq acq first (tcv + left) (firstn 16 (skipn (16 * i) blocks))) d) as [hb d1].
    rewrite rst_set_parts. cbn [interpG fst snd map] in Inv1, W1, C1. destruct Inv1 as (_ & _ & _ & _ & Hbb1). inversion Hbb1 as [|? ? [Lhb Fhb] _]; subst.
    assert (B1 : big d1) by (apply (big_chunks d); assumption).
    destruct (is_past_eof d1) eqn:Ee1.
    + (* past the end: the Model stops; the run of the rest of the row stays past the end *)
      cbn [bind]. rewrite !interpG_bind.
      pose proof (eof_absorbing (G_row nodes dcq acq first (firstn nx (skipn (S ti) tc)) (ArithDec.b2z (fst hb))
                    (chunk_list nx 16 (skipn 16 (skipn (16 * i) blocks)))) d1 Ee1) as Ea.
      destruct (interpG cold_pure (G_row nodes dcq acq first (firstn nx (skipn (S ti) tc)) (ArithDec.b2z (fst hb))
                  (chunk_list nx 16 (skipn 16 (skipn (16 * i) blocks)))) d1) as [r d2]. cbn [interpG snd] in *. rewrite Ea. reflexivity.
    + cbn [bind fst snd]. rewrite (idx_ok (snd hb) 0 0) by lia. cbn [bind]. change (Z.to_nat 0) with 0%nat.
      fold (blk_flag hb).
      assert (Epost : (if blk_flag hb then bind (idct_block (snd hb)) (fun t0 => Ok (true, t0)) else Ok (nz, snd hb))
                      = Ok (blk_flag hb || nz, blk_post hb)).
      { unfold blk_post. destruct (blk_flag hb); [|reflexivity]. rewrite idct_block_ok by (try assumption; apply within_widen; assumption). reflexivity. }
      rewrite Epost. cbn [bind].
      rewrite rst_set_top_cx by (try exact Hmbx; unfold ti; lia). cbn [bind].
      assert (Lpost : length (blk_post hb) = 16%nat).
      { unfold blk_post. destruct (blk_flag hb); [|exact Lhb]. clear - Lhb. generalize dependent (snd hb). intros bb Lbb.
        do 16 (destruct bb as [|? bb]; [discriminate|]). destruct bb; [reflexivity | discriminate]. }
      (* the rest of the row *)
      replace (Z.of_nat x + 1) with (Z.of_nat (S x)) by lia.
      assert (Hput_len : length (put16 blocks (Z.of_nat i) (blk_post hb)) = length blocks) by (apply put16_length; try assumption; unfold i; lia).
      assert (Hsk : skipn (16 * (ibase + S x)) (put16 blocks (Z.of_nat i) (blk_post hb)) = skipn (16 * (ibase + S x)) blocks).
      { replace (16 * (ibase + S x))%nat with (Z.to_nat (16 * Z.of_nat (i + 1))) by (unfold i; lia).
        apply put16_skipn; try assumption; unfold i; lia. }
      rewrite (IH (S x) ibase tbase d1 (updZ tc (Z.of_nat ti) (ArithDec.b2z (fst hb))) lc (put16 blocks (Z.of_nat i) (blk_post hb))
                  (blk_flag hb || nz) (ArithDec.b2z (fst hb)) W1 B1 Ee1);
        try (rewrite updZ_length; unfold ti in *; lia); try (apply b2z_01); try (rewrite Hput_len; lia).
      * rewrite Hsk. unfold updZ at 1. rewrite Nat2Z.id.
        replace (tbase + S x)%nat with (S ti) by (unfold ti; lia).
        rewrite skipn_upd_above by lia.
        replace (skipn 16 (skipn (16 * i) blocks)) with (skipn (16 * (ibase + S x)) blocks)
          by (rewrite skipn_skipn'; f_equal; unfold i; lia).
        rewrite !interpG_bind.
        destruct (interpG cold_pure (G_row nodes dcq acq first (firstn nx (skipn (S ti) tc)) (ArithDec.b2z (fst hb))
                    (chunk_list nx 16 (skipn (16 * (ibase + S x)) blocks))) d1) as [r d2]. cbn [interpG fst snd map concat existsb].
        destruct (is_past_eof d2); [reflexivity|].
        assert (E1 : firstn (S ti) (upd tc (Z.to_nat (Z.of_nat ti)) (ArithDec.b2z (fst hb))) ++ snd (fst r) ++
                     skipn (S ti + nx) (upd tc (Z.to_nat (Z.of_nat ti)) (ArithDec.b2z (fst hb)))
                     = firstn ti tc ++ (ArithDec.b2z (fst hb) :: snd (fst r)) ++ skipn (ti + S nx) tc).
        { rewrite Nat2Z.id.
          rewrite firstn_upd_S by (unfold ti; lia). rewrite skipn_upd_above by lia.
          rewrite <- app_assoc. cbn [app]. replace (S ti + nx)%nat with (ti + S nx)%nat by lia. reflexivity. }
        assert (E2 : firstn (16 * (ibase + S x)) (put16 blocks (Z.of_nat i) (blk_post hb)) ++ concat (map blk_post (fst (fst r))) ++
                     skipn (16 * (ibase + S x + nx)) (put16 blocks (Z.of_nat i) (blk_post hb))
                     = firstn (16 * i) blocks ++ (blk_post hb ++ concat (map blk_post (fst (fst r)))) ++ skipn (16 * (i + S nx)) blocks).
        { replace (16 * (ibase + S x))%nat with (Z.to_nat (16 * (Z.of_nat i + 1))) by (unfold i; lia).
          rewrite put16_firstn by (try assumption; unfold i; lia).
          replace (Z.to_nat (16 * Z.of_nat i)) with (16 * i)%nat by lia.
          replace (16 * (ibase + S x + nx))%nat with (Z.to_nat (16 * Z.of_nat (i + 1 + nx))) by (unfold i; lia).
          rewrite put16_skipn by (try assumption; unfold i; lia).
          rewrite <- !app_assoc. f_equal. f_equal. f_equal. f_equal. lia. }
        unfold updZ. rewrite E1, E2. rewrite orb_assoc3. reflexivity.
      * (* contexts stay 0/1 *)
        unfold cx_ok, updZ. clear - Hcx. pose proof (b2z_01 (fst hb)) as Hb. revert Hcx. generalize (Z.to_nat (Z.of_nat ti)). intros k. revert k.
        induction tc as [|c l IHl]; intros k Hc; [constructor|]. destruct k; cbn [upd]; inversion Hc; subst; constructor; auto.
      * rewrite Hsk. replace (skipn (16 * (ibase + S x)) blocks) with (skipn 16 (skipn (16 * (ibase + x)) blocks))
          by (rewrite skipn_skipn'; f_equal; lia). exact Hbtl.
Qed.

Lemma firstn_skipn_mid {A} (a m r : list A) n : length a = n -> firstn (length m) (skipn n (a ++ m ++ r)) = m.
Proof.
  intros L. rewrite skipn_app. rewrite skipn_all2 by lia. cbn [app]. rewrite L, Nat.sub_diag. cbn [skipn].
  rewrite firstn_app. rewrite Nat.sub_diag. cbn [firstn]. rewrite app_nil_r. apply firstn_all.
Qed.

Lemma splice_id {A} (l : list A) j size : firstn j l ++ firstn size (skipn j l) ++ skipn (j + size) l = l.
Proof. rewrite <- (skipn_skipn' l size j). rewrite firstn_skipn. apply firstn_skipn. Qed.

Lemma firstn_app_exact {A} (a c r : list A) : firstn (length a + length c) (a ++ c ++ r) = a ++ c.
Proof. rewrite app_assoc. rewrite <- app_length. rewrite firstn_app. rewrite firstn_all, Nat.sub_diag. cbn [firstn]. apply app_nil_r. Qed.
Lemma skipn_app_beyond {A} (a c r : list A) k : (length a + length c <= k)%nat -> skipn k (a ++ c ++ r) = skipn (k - (length a + length c)) r.
Proof. intros H. rewrite app_assoc. rewrite skipn_app. rewrite skipn_all2 by (rewrite app_length; lia). cbn [app]. rewrite app_length. reflexivity. Qed.

Lemma cx_ok_splice a m r : cx_ok a -> cx_ok m -> cx_ok r -> cx_ok (a ++ m ++ r).
Proof. intros. unfold cx_ok in *. rewrite !Forall_app. auto. Qed.
Lemma cx_ok_firstn n l : cx_ok l -> cx_ok (firstn n l).
Proof. unfold cx_ok. revert n. induction l as [|c l IH]; intros n H; [rewrite firstn_nil; constructor|]. destruct n; [constructor|]. inversion H; subst. cbn [firstn]. constructor; auto. Qed.
Lemma cx_ok_skipn n l : cx_ok l -> cx_ok (skipn n l).
Proof. unfold cx_ok. revert n. induction l as [|c l IH]; intros n H; [rewrite skipn_nil; constructor|]. destruct n; [exact H|]. inversion H; subst. cbn [skipn]. auto. Qed.

Lemma residual_rows_ok ny : forall (y size ioff j : nat) d tc lc blocks nz,
  wsafe d -> big d -> is_past_eof d = false -> (j + size <= length tc)%nat -> (y + j + ny <= length lc)%nat -> cx_ok tc -> cx_ok lc ->
  (16 * (ioff + (y + ny) * size) <= length blocks)%nat ->
  Forall (bounded_blocks B) (row_inits ny size (skipn (16 * (ioff + y * size)) blocks)) ->
  residual_rows ny (Z.of_nat y) (Z.of_nat size) (rst v p mbx t d tc lc) blocks nz mbx p plane (Z.of_nat ioff) (Z.of_nat j) dcq acq
  = (let '(r, d') := interpG cold_pure (G_rows nodes dcq acq first (firstn size (skipn j tc)) (firstn ny (skipn (y + j) lc))
                                             (row_inits ny size (skipn (16 * (ioff + y * size)) blocks))) d in
     if is_past_eof d' then Err EBitStreamError else
     Ok (rst v p mbx t d' (firstn j tc ++ snd (fst r) ++ skipn (j + size) tc) (firstn (y + j) lc ++ snd r ++ skipn (y + j + ny) lc),
         firstn (16 * (ioff + y * size)) blocks ++ concat (map blk_post (fst (fst r))) ++ skipn (16 * (ioff + (y + ny) * size)) blocks,
         nz || existsb blk_flag (fst (fst r)))).
Proof.
  destruct plane_facts as [Hprobs Hnodes].
  induction ny as [|ny IH]; intros y size ioff j d tc lc blocks nz Hw Hbig Heof Htc Hlc Hcxt Hcxl Hbl Hbb.
  - cbn [residual_rows firstn row_inits G_rows interpG fst snd map concat existsb app]. rewrite !Nat.add_0_r, orb_false_r. rewrite Heof.
    rewrite !firstn_skipn. rewrite (splice_id tc j size). reflexivity.
  - cbn [residual_rows row_inits G_rows].
    rewrite rst_left_cx by lia. cbn [bind].
    replace (Z.to_nat (Z.of_nat y + Z.of_nat j)) with (y + j)%nat by lia.
    set (left := nth (y + j) lc 0).
    assert (Hleft : 0 <= left <= 1) by (unfold cx_ok in Hcxl; rewrite Forall_forall in Hcxl; apply Hcxl; apply nth_In; lia).
    replace (Z.of_nat ioff + Z.of_nat y * Z.of_nat size) with (Z.of_nat (ioff + y * size)) by lia.
    rewrite Nat2Z.id.
    pose proof (Forall_inv Hbb) as Hb0. pose proof (Forall_inv_tail Hbb) as Hbtl.
    pose proof (residual_row_ok size 0 (ioff + y * size) j d tc lc blocks nz left Hw Hbig Heof ltac:(lia) Hcxt Hleft) as ER.
    rewrite !Nat.add_0_r in ER. specialize (ER ltac:(nia) Hb0). change (Z.of_nat 0) with 0 in ER. rewrite ER. clear ER.
    rewrite (skipn_nth_cons lc (y + j) 0) by lia. fold left. rewrite firstn_cons. cbn [G_rows]. rewrite !interpG_bind.
    pose proof (G_row_inv _ nodes Hprobs Hnodes dcq acq first ltac:(destruct (plane =? 0); lia) cold_pure B (firstn size (skipn j tc)) left
                  (chunk_list size 16 (skipn (16 * (ioff + y * size)) blocks)) d (cx_ok_firstn _ _ (cx_ok_skipn _ _ Hcxt)) Hleft) as Inv.
    assert (Lch : forall n (l : list Z), length (chunk_list n 16 l) = n) by (induction n; intros l0; cbn [chunk_list length]; [reflexivity | rewrite IHn; reflexivity]).
    specialize (Inv ltac:(rewrite Lch, firstn_length, skipn_length; lia) ltac:(lia) Hb0). cbv zeta in Inv.
    destruct (cold_gprog_facts (G_row nodes dcq acq first (firstn size (skipn j tc)) left (chunk_list size 16 (skipn (16 * (ioff + y * size)) blocks))) d Hw
                (G_row_probs _ nodes Hprobs Hnodes dcq acq first ltac:(destruct (plane =? 0); lia) _ _ _ (cx_ok_firstn _ _ (cx_ok_skipn _ _ Hcxt)) Hleft)) as [W1 C1].
    destruct (interpG cold_pure (G_row nodes dcq acq first (firstn size (skipn j tc)) left (chunk_list size 16 (skipn (16 * (ioff + y * size)) blocks))) d) as [r d1].
    cbn [fst snd] in *. destruct Inv as (I1 & I2 & I3 & I4 & I5).
    rewrite firstn_length, skipn_length in I1, I2. replace (Nat.min size (length tc - j)) with size in I1, I2 by lia.
    assert (B1 : big d1) by (apply (big_chunks d); assumption).
    destruct (is_past_eof d1) eqn:Ee1.
    + cbn [bind]. rewrite !interpG_bind.
      pose proof (eof_absorbing (G_rows nodes dcq acq first (snd (fst r)) (firstn ny (skipn (S (y + j)) lc))
                    (row_inits ny size (skipn (16 * size) (skipn (16 * (ioff + y * size)) blocks)))) d1 Ee1) as Ea.
      destruct (interpG cold_pure (G_rows nodes dcq acq first (snd (fst r)) (firstn ny (skipn (S (y + j)) lc))
                  (row_inits ny size (skipn (16 * size) (skipn (16 * (ioff + y * size)) blocks)))) d1) as [r2 d2]. cbn [interpG snd] in *. rewrite Ea. reflexivity.
    + cbn [bind]. rewrite rst_set_left_cx by lia. cbn [bind].
      replace (Z.of_nat y + 1) with (Z.of_nat (S y)) by lia.
      set (tc1 := firstn j tc ++ snd (fst r) ++ skipn (j + size) tc).
      set (lc1 := updZ lc (Z.of_nat y + Z.of_nat j) (snd r)).
      set (blocks1 := firstn (16 * (ioff + y * size)) blocks ++ concat (map blk_post (fst (fst r))) ++ skipn (16 * (ioff + y * size + size)) blocks).
      assert (Lcat : length (concat (map blk_post (fst (fst r)))) = (16 * size)%nat).
      { clear - I1 I5. revert I1 I5. generalize (fst (fst r)). intros l. revert size. induction l as [|hb l IHl]; intros size I1 I5; cbn [length] in I1; subst size; [reflexivity|].
        cbn [map concat]. rewrite app_length. cbn [map] in I5. inversion I5 as [|? ? [Lhb _] I5']; subst. rewrite (IHl (length l) eq_refl I5').
        pose proof (blk_post_length hb Lhb) as Lp. lia. }
      assert (Lb1 : length blocks1 = length blocks).
      { unfold blocks1. rewrite !app_length, firstn_length, skipn_length, Lcat. nia. }
      assert (Ltc1 : length tc1 = length tc) by (unfold tc1; rewrite !app_length, firstn_length, skipn_length; lia).
      assert (Hsk1 : skipn (16 * (ioff + S y * size)) blocks1 = skipn (16 * (ioff + S y * size)) blocks).
      { unfold blocks1. rewrite app_assoc. rewrite skipn_app. rewrite skipn_all2 by (rewrite app_length, firstn_length, Lcat; nia). cbn [app].
        rewrite app_length, firstn_length, Lcat. rewrite skipn_skipn'. f_equal. nia. }
      rewrite (IH (S y) size ioff j d1 tc1 lc1 blocks1 (nz || existsb blk_flag (fst (fst r))) W1 B1 Ee1);
        try (unfold lc1; rewrite updZ_length); try lia; try (rewrite Lb1; nia).
      * rewrite Hsk1. unfold tc1 at 1. rewrite <- I2 at 1. rewrite firstn_skipn_mid by (rewrite firstn_length; lia).
        unfold lc1 at 1. unfold updZ at 1. replace (Z.to_nat (Z.of_nat y + Z.of_nat j)) with (y + j)%nat by lia.
        replace (S y + j)%nat with (S (y + j)) by lia. rewrite skipn_upd_above by lia.
        replace (skipn (16 * size) (skipn (16 * (ioff + y * size)) blocks)) with (skipn (16 * (ioff + S y * size)) blocks)
          by (rewrite skipn_skipn'; f_equal; nia).
        rewrite !interpG_bind.
        destruct (interpG cold_pure (G_rows nodes dcq acq first (snd (fst r)) (firstn ny (skipn (S (y + j)) lc))
                    (row_inits ny size (skipn (16 * (ioff + S y * size)) blocks))) d1) as [r2 d2]. cbn [interpG fst snd].
        destruct (is_past_eof d2); [reflexivity|].
        assert (E1 : firstn j tc1 ++ snd (fst r2) ++ skipn (j + size) tc1 = firstn j tc ++ snd (fst r2) ++ skipn (j + size) tc).
        { unfold tc1. rewrite firstn_app. rewrite firstn_firstn. replace (Nat.min j j) with j by lia.
          rewrite firstn_length. replace (j - Nat.min j (length tc))%nat with 0%nat by lia. cbn [firstn]. rewrite app_nil_r.
          f_equal. f_equal. rewrite app_assoc. rewrite skipn_app. rewrite skipn_all2 by (rewrite app_length, firstn_length; lia). cbn [app].
          rewrite app_length, firstn_length. replace (j + size - (Nat.min j (length tc) + length (snd (fst r))))%nat with 0%nat by lia. reflexivity. }
        assert (E2 : firstn (S (y + j)) lc1 ++ snd r2 ++ skipn (S (y + j) + ny) lc1 = firstn (y + j) lc ++ (snd r :: snd r2) ++ skipn (y + j + S ny) lc).
        { unfold lc1, updZ. replace (Z.to_nat (Z.of_nat y + Z.of_nat j)) with (y + j)%nat by lia.
          rewrite firstn_upd_S by lia. rewrite skipn_upd_above by lia.
          rewrite <- app_assoc. cbn [app]. replace (S (y + j) + ny)%nat with (y + j + S ny)%nat by lia. reflexivity. }
        assert (E3 : firstn (16 * (ioff + S y * size)) blocks1 ++ concat (map blk_post (fst (fst r2))) ++ skipn (16 * (ioff + (S y + ny) * size)) blocks1
                     = firstn (16 * (ioff + y * size)) blocks ++ concat (map blk_post (fst (fst r) ++ fst (fst r2))) ++ skipn (16 * (ioff + (y + S ny) * size)) blocks).
        { rewrite map_app, concat_app. unfold blocks1.
          set (A := firstn (16 * (ioff + y * size)) blocks). set (C := concat (map blk_post (fst (fst r)))).
          set (R := skipn (16 * (ioff + y * size + size)) blocks).
          assert (LA : length A = (16 * (ioff + y * size))%nat) by (unfold A; rewrite firstn_length; nia).
          replace (16 * (ioff + S y * size))%nat with (length A + length C)%nat by (fold C in Lcat; rewrite LA, Lcat; nia).
          rewrite firstn_app_exact. rewrite skipn_app_beyond by (fold C in Lcat; rewrite LA, Lcat; nia).
          unfold R. rewrite skipn_skipn'. fold C in Lcat. rewrite LA, Lcat. rewrite <- !app_assoc. f_equal. f_equal. f_equal. f_equal. nia. }
        rewrite E1, E2, E3. rewrite existsb_app. rewrite orb_assoc. reflexivity.
      * unfold tc1. apply cx_ok_splice; [apply cx_ok_firstn; assumption | exact I3 | apply cx_ok_skipn; assumption].
      * unfold lc1, cx_ok, updZ. clear - Hcxl I4. revert Hcxl. generalize (Z.to_nat (Z.of_nat y + Z.of_nat j)). intros k. revert k.
        induction lc as [|c l IHl]; intros k Hc; [constructor|]. destruct k; cbn [upd]; inversion Hc; subst; constructor; auto.
      * rewrite Hsk1. replace (skipn (16 * (ioff + S y * size)) blocks) with (skipn (16 * size) (skipn (16 * (ioff + y * size)) blocks))
          by (rewrite skipn_skipn'; f_equal; nia). exact Hbtl.
Qed.

End ModelRows.

(* ------------------------------------------------------------------------------------------------------------ *)
(* (S) the Spec loops                                                                                           *)
(* ------------------------------------------------------------------------------------------------------------ *)
Section SpecRows.
Variable probs : list (list (list Z)).
Variable nodes : list (list (list TreeNode)).
Hypothesis Hprobs : plane_ok probs.
Hypothesis Hnodes : plane_nodes probs nodes.
Variables dc ac first : Z.
Hypothesis Hfirst : first = 0 \/ first = 1.

(* one block from a zero block: Spec.get_coeffs = the block gprog *)
Lemma spec_get_coeffs cx s : 0 <= cx <= 2 ->
  let '(coeffs, nz, _, s1) := get_coeffs probs cx dc ac first s in
  let '(hb, s2) := interpG bdbit (G_blk nodes dc ac first cx zero16) s in
  s1 = s2 /\ snd hb = coeffs /\ fst hb = (first <? nz) /\ first <= nz <= 16.
Proof.
  intros Hcx.
  pose proof (spec_loop_prog probs nodes Hprobs Hnodes dc ac (Z.to_nat (16 - first)) 17 first cx false
                (if first =? 1 then [0] else []) true false s ltac:(lia) ltac:(lia) ltac:(lia) Hcx
                ltac:(destruct Hfirst as [-> | ->]; reflexivity)) as ES.
  assert (Eb : blk (if first =? 1 then [0] else []) = zero16) by (destruct Hfirst as [-> | ->]; reflexivity).
  rewrite Eb in ES. unfold get_coeffs, G_blk.
  destruct (get_coeffs_loop 17 probs dc ac first cx false (if first =? 1 then [0] else []) true s) as [[[racc nz] ok] s1].
  fold (blk racc).
  destruct (interpG bdbit (G_coeff (Z.to_nat (16 - first)) nodes dc ac first cx false false zero16) s) as [hb s2].
  destruct ES as (Es & Eblk & Ehas & Hnz). cbn [orb] in Ehas. repeat split; try assumption; lia.
Qed.

(* what relates a Spec block (coefficients, nz) to a block result (has_coefficients, coefficients) *)
Definition blk_rel (hb : bool * list Z) (b : list Z * Z) : Prop :=
  fst b = snd hb /\ fst hb = (first <? snd b) /\ first <= snd b <= 16.

Lemma spec_blocks_row tops : forall l s blocks newtops ok, cx_ok tops -> 0 <= l <= 1 ->
  let '(bl, nt, l', _, s1) := blocks_row probs dc ac first tops l s blocks newtops ok in
  let '(r, s2) := interpG bdbit (G_row nodes dc ac first tops l (repeat zero16 (length tops))) s in
  s1 = s2 /\ nt = rev_append newtops (snd (fst r)) /\ l' = snd r /\
  exists bs, bl = blocks ++ bs /\ Forall2 blk_rel (fst (fst r)) bs.
Proof.
  induction tops as [|t tl IH]; intros l s blocks newtops ok Ht Hl.
  - cbn [blocks_row G_row repeat length interpG fst snd]. repeat split. exists []. split; [rewrite app_nil_r; reflexivity | constructor].
  - inversion Ht as [|? ? Ht0 Htl]; subst. cbn [blocks_row length repeat G_row]. rewrite !interpG_bind.
    pose proof (spec_get_coeffs (t + l) s ltac:(lia)) as EC. rewrite (Z.add_comm l t).
    destruct (get_coeffs probs (t + l) dc ac first s) as [[[b nz] ok1] s1].
    destruct (interpG bdbit (G_blk nodes dc ac first (t + l) zero16) s) as [hb s2]. destruct EC as (Es & Eb & Eh & Hnz). subst s2.
    rewrite !interpG_bind.
    assert (El : Spec.VP8.b2z (first <? nz) = ArithDec.b2z (fst hb)) by (rewrite Eh; reflexivity). rewrite El.
    specialize (IH (ArithDec.b2z (fst hb)) s1 (blocks ++ [(b, nz)]) (ArithDec.b2z (fst hb) :: newtops) (ok && ok1) Htl (b2z_01 _)).
    destruct (blocks_row probs dc ac first tl (ArithDec.b2z (fst hb)) s1 (blocks ++ [(b, nz)]) (ArithDec.b2z (fst hb) :: newtops) (ok && ok1)) as [[[[bl nt] l'] ok'] s3].
    destruct (interpG bdbit (G_row nodes dc ac first tl (ArithDec.b2z (fst hb)) (repeat zero16 (length tl))) s1) as [r s4].
    cbn [interpG fst snd] in *. destruct IH as (E1 & E2 & E3 & bs & E4 & F4).
    split; [exact E1|]. split; [rewrite E2; reflexivity|]. split; [exact E3|].
    exists ((b, nz) :: bs). split; [rewrite E4, <- app_assoc; reflexivity|].
    constructor; [unfold blk_rel; cbn [fst snd]; repeat split; try assumption; try lia; symmetry; assumption | exact F4].
Qed.

Lemma spec_blocks_rows lefts : forall tops s blocks newlefts ok, cx_ok tops -> cx_ok lefts ->
  let '(bl, tops', ls', _, s1) := blocks_rows probs dc ac first tops lefts s blocks newlefts ok in
  let '(r, s2) := interpG bdbit (G_rows nodes dc ac first tops lefts (repeat (repeat zero16 (length tops)) (length lefts))) s in
  s1 = s2 /\ tops' = snd (fst r) /\ ls' = rev_append newlefts (snd r) /\
  exists bs, bl = blocks ++ bs /\ Forall2 blk_rel (fst (fst r)) bs.
Proof.
  induction lefts as [|l ltl IH]; intros tops s blocks newlefts ok Ht Hl.
  - cbn [blocks_rows G_rows repeat length interpG fst snd]. repeat split. exists []. split; [rewrite app_nil_r; reflexivity | constructor].
  - inversion Hl as [|? ? Hl0 Hltl]; subst. cbn [blocks_rows length repeat G_rows]. rewrite !interpG_bind.
    pose proof (spec_blocks_row tops l s blocks [] ok Ht Hl0) as ER.
    pose proof (G_row_inv probs nodes Hprobs Hnodes dc ac first Hfirst bdbit (Z.max (coef_bound dc ac) 0) tops l (repeat zero16 (length tops)) s Ht Hl0
                  ltac:(rewrite repeat_length; reflexivity) ltac:(lia)) as Inv.
    assert (Hz : bounded_blocks (Z.max (coef_bound dc ac) 0) (repeat zero16 (length tops))).
    { unfold bounded_blocks. apply Forall_forall. intros b Hb. apply repeat_spec in Hb. subst b. split; [reflexivity|].
      repeat constructor; unfold within; lia. }
    specialize (Inv Hz). cbv zeta in Inv.
    destruct (blocks_row probs dc ac first tops l s blocks [] ok) as [[[[bl nt] l'] ok1] s1].
    destruct (interpG bdbit (G_row nodes dc ac first tops l (repeat zero16 (length tops))) s) as [r s2].
    cbn [fst snd rev_append] in *. destruct ER as (Es & Ent & El' & bs & Ebl & Fbs). subst s2 nt l'.
    destruct Inv as (I1 & I2 & I3 & I4 & _).
    rewrite !interpG_bind.
    specialize (IH (snd (fst r)) s1 bl (snd r :: newlefts) ok1 I3 Hltl). rewrite I2 in IH.
    destruct (blocks_rows probs dc ac first (snd (fst r)) ltl s1 bl (snd r :: newlefts) ok1) as [[[[bl2 tops2] ls2] ok2] s3].
    destruct (interpG bdbit (G_rows nodes dc ac first (snd (fst r)) ltl (repeat (repeat zero16 (length tops)) (length ltl))) s1) as [r2 s4].
    cbn [interpG fst snd] in *. destruct IH as (E1 & E2 & E3 & bs2 & E4 & F4).
    split; [exact E1|]. split; [exact E2|]. split; [rewrite E3; reflexivity|].
    exists (bs ++ bs2). split; [rewrite E4, Ebl, <- app_assoc; reflexivity | apply Forall2_app; assumption].
Qed.

End SpecRows.

(* ------------------------------------------------------------------------------------------------------------ *)
(* block facts: the Y blocks of a 16x16 macroblock start from the WHT output; an unread block is unchanged       *)
(* ------------------------------------------------------------------------------------------------------------ *)
Lemma zigzag_pos i : 1 <= i <= 15 -> 1 <= nth (Z.to_nat i) vp8_ZIGZAG 0 <= 15.
Proof.
  intros Hi. assert (H : forallb (fun i => (1 <=? nth (Z.to_nat i) vp8_ZIGZAG 0) && (nth (Z.to_nat i) vp8_ZIGZAG 0 <=? 15)) (zrange 15 1) = true)
    by (vm_compute; reflexivity).
  pose proof (forallb_zrange _ _ _ H i ltac:(lia)) as H1. cbv beta in H1. apply andb_true_iff in H1. lia.
Qed.

Lemma G_coeff_dc {St} (bit : St -> Z -> bool * St) nodes dcq acq d n : forall i cx skip has block s,
  i = 16 - Z.of_nat n -> 1 <= i ->
  interpG bit (G_coeff n nodes dcq acq i cx skip has (updZ block 0 d)) s
  = (let '(hb, s') := interpG bit (G_coeff n nodes dcq acq i cx skip has block) s in ((fst hb, updZ (snd hb) 0 d), s')).
Proof.
  induction n as [|n IH]; intros i cx skip has block s Ei Hi; cbn [G_coeff]; [reflexivity|].
  rewrite !interpG_bind. destruct (interpG bit (lift (tok_prog _ skip)) s) as [tok s1].
  destruct (tok =? 11); [reflexivity|]. destruct (tok =? 0); [apply IH; lia|].
  rewrite !interpG_bind. destruct (interpG bit (mag_prog tok) s1) as [v s2]. cbn [interpG]. destruct (bit s2 128) as [sg s3].
  pose proof (zigzag_pos i ltac:(lia)) as Hz.
  replace (updZ (updZ block 0 d) (nth (Z.to_nat i) vp8_ZIGZAG 0) ((if sg then - v else v) * (if 0 <? nth (Z.to_nat i) vp8_ZIGZAG 0 then acq else dcq)))
    with (updZ (updZ block (nth (Z.to_nat i) vp8_ZIGZAG 0) ((if sg then - v else v) * (if 0 <? nth (Z.to_nat i) vp8_ZIGZAG 0 then acq else dcq))) 0 d)
    by (unfold updZ; apply upd_comm; lia).
  apply IH; lia.
Qed.

Lemma G_coeff_has_true {St} (bit : St -> Z -> bool * St) nodes dcq acq n : forall i cx skip block s,
  fst (fst (interpG bit (G_coeff n nodes dcq acq i cx skip true block) s)) = true.
Proof.
  induction n as [|n IH]; intros i cx skip block s; cbn [G_coeff]; [reflexivity|].
  rewrite !interpG_bind. destruct (interpG bit (lift (tok_prog _ skip)) s) as [tok s1].
  destruct (tok =? 11); [reflexivity|]. destruct (tok =? 0); [apply IH|].
  rewrite !interpG_bind. destruct (interpG bit (mag_prog tok) s1) as [v s2]. cbn [interpG]. destruct (bit s2 128) as [sg s3]. apply IH.
Qed.

Lemma G_coeff_unread {St} (bit : St -> Z -> bool * St) nodes dcq acq n i cx skip block s :
  fst (fst (interpG bit (G_coeff n nodes dcq acq i cx skip false block) s)) = false ->
  snd (fst (interpG bit (G_coeff n nodes dcq acq i cx skip false block) s)) = block.
Proof.
  destruct n as [|n]; cbn [G_coeff]; [reflexivity|].
  rewrite !interpG_bind. destruct (interpG bit (lift (tok_prog _ skip)) s) as [tok s1].
  destruct (tok =? 11); [reflexivity|]. destruct (tok =? 0).
  - rewrite G_coeff_has_true. discriminate.
  - rewrite !interpG_bind. destruct (interpG bit (mag_prog tok) s1) as [v s2]. cbn [interpG]. destruct (bit s2 128) as [sg s3].
    rewrite G_coeff_has_true. discriminate.
Qed.

(* in-place transform of a block = the Spec's inverse DCT of the coefficients *)
Lemma app16_idct_spec b : length b = 16%nat -> Forall (within dct_bound) b -> app16 idct4x4 [] b = fst (Spec.VP8.idct b).
Proof.
  intros L F. do 16 (destruct b as [|? b]; [discriminate|]). destruct b; [|discriminate].
  repeat match goal with H : Forall _ (_ :: _) |- _ => inversion H; clear H; subst end.
  cbn [app16]. apply idct4x4_eq; assumption.
Qed.

Lemma idct_zero : fst (Spec.VP8.idct zero16) = zero16.
Proof. reflexivity. Qed.

(* ------------------------------------------------------------------------------------------------------------ *)
(* results of the row loops, for any reader                                                                     *)
(* ------------------------------------------------------------------------------------------------------------ *)
Definition unread_zero (hb : bool * list Z) : Prop := fst hb = false -> snd hb = zero16.

Lemma G_row_unread {St} (bit : St -> Z -> bool * St) nodes dcq acq first tops : forall l s,
  Forall unread_zero (fst (fst (fst (interpG bit (G_row nodes dcq acq first tops l (repeat zero16 (length tops))) s)))).
Proof.
  induction tops as [|t tl IH]; intros l s; cbn [G_row length repeat]; [cbn [interpG fst]; constructor|].
  rewrite !interpG_bind.
  pose proof (G_coeff_unread bit nodes dcq acq (Z.to_nat (16 - first)) first (t + l) false zero16 s) as Hu. fold (G_blk nodes dcq acq first (t + l) zero16) in Hu.
  destruct (interpG bit (G_blk nodes dcq acq first (t + l) zero16) s) as [hb s1]. cbn [fst snd] in Hu. rewrite !interpG_bind.
  specialize (IH (ArithDec.b2z (fst hb)) s1).
  destruct (interpG bit (G_row nodes dcq acq first tl (ArithDec.b2z (fst hb)) (repeat zero16 (length tl))) s1) as [r s2]. cbn [interpG fst snd] in *.
  constructor; [exact Hu | exact IH].
Qed.

Section RowsInv.
Variable probs : list (list (list Z)).
Variable nodes : list (list (list TreeNode)).
Hypothesis Hprobs : plane_ok probs.
Hypothesis Hnodes : plane_nodes probs nodes.
Variables dcq acq first : Z.
Hypothesis Hfirst : first = 0 \/ first = 1.

Lemma zero_blocks_bounded B n : 0 <= B -> bounded_blocks B (repeat zero16 n).
Proof.
  intros HB. unfold bounded_blocks. apply Forall_forall. intros b Hb. apply repeat_spec in Hb. subst b. split; [reflexivity|].
  repeat constructor; unfold within; lia.
Qed.

Lemma G_rows_inv {St} (bit : St -> Z -> bool * St) B lefts : forall tops s, cx_ok tops -> cx_ok lefts -> 0 <= B -> coef_bound dcq acq <= B ->
  let r := fst (interpG bit (G_rows nodes dcq acq first tops lefts (repeat (repeat zero16 (length tops)) (length lefts))) s) in
  length (fst (fst r)) = (length lefts * length tops)%nat /\ length (snd (fst r)) = length tops /\ length (snd r) = length lefts /\
  cx_ok (snd (fst r)) /\ cx_ok (snd r) /\ bounded_blocks B (map snd (fst (fst r))) /\ Forall unread_zero (fst (fst r)).
Proof.
  induction lefts as [|l ltl IH]; intros tops s Ht Hl HB0 HB; cbn [G_rows length repeat].
  - cbn [interpG fst snd length map Nat.mul]. repeat split; try assumption; constructor.
  - inversion Hl as [|? ? Hl0 Hltl]; subst. cbv zeta. rewrite !interpG_bind.
    pose proof (G_row_inv probs nodes Hprobs Hnodes dcq acq first Hfirst bit B tops l (repeat zero16 (length tops)) s Ht Hl0
                  ltac:(rewrite repeat_length; reflexivity) HB (zero_blocks_bounded B _ HB0)) as Inv. cbv zeta in Inv.
    pose proof (G_row_unread bit nodes dcq acq first tops l s) as Hu.
    destruct (interpG bit (G_row nodes dcq acq first tops l (repeat zero16 (length tops))) s) as [r s1]. cbn [fst snd] in *.
    destruct Inv as (I1 & I2 & I3 & I4 & I5). rewrite !interpG_bind.
    specialize (IH (snd (fst r)) s1 I3 Hltl HB0 HB). cbv zeta in IH. rewrite I2 in IH.
    destruct (interpG bit (G_rows nodes dcq acq first (snd (fst r)) ltl (repeat (repeat zero16 (length tops)) (length ltl))) s1) as [r2 s2].
    cbn [interpG fst snd length map] in *. destruct IH as (J1 & J2 & J3 & J4 & J5 & J6 & J7).
    rewrite app_length, map_app. repeat split; try lia; try assumption.
    + constructor; assumption.
    + unfold bounded_blocks in *. apply Forall_app. split; assumption.
    + apply Forall_app. split; assumption.
Qed.

End RowsInv.

(* the programs are legal for every context value (out-of-range contexts select an empty tree) *)
Section ProbsAny.
Variable probs : list (list (list Z)).
Variable nodes : list (list (list TreeNode)).
Hypothesis Hprobs : plane_ok probs.
Hypothesis Hnodes : plane_nodes probs nodes.
Variables dcq acq : Z.

Lemma tok_probs_any i cx skip : 0 <= i <= 15 ->
  probs_ok (tok_prog (nth (Z.to_nat cx) (nth (Z.to_nat (nth (Z.to_nat i) vp8_COEFF_BANDS 0)) nodes []) []) skip).
Proof.
  intros Hi. destruct (Nat.lt_ge_cases (Z.to_nat cx) 3) as [L | G].
  - replace (Z.to_nat cx) with (Z.to_nat (Z.of_nat (Z.to_nat cx))) by lia. apply (tok_probs_ok probs nodes Hprobs Hnodes); lia.
  - pose proof (bands_range i Hi) as Hb.
    destruct (plane_nodes_row probs nodes (Z.to_nat (nth (Z.to_nat i) vp8_COEFF_BANDS 0)) 0 Hprobs Hnodes ltac:(lia) ltac:(lia)) as (_ & L3 & _).
    rewrite (nth_overflow _ [] ) by lia. unfold tok_prog. cbn [tree_prog length]. destruct (Z.to_nat (ArithDec.b2z skip)); exact I.
Qed.

Lemma G_coeff_probs_any n : forall i cx skip has block, i = 16 - Z.of_nat n -> 0 <= i ->
  gprobs_ok (G_coeff n nodes dcq acq i cx skip has block).
Proof.
  induction n as [|n IH]; intros i cx skip has block Ei Hi; cbn [G_coeff]; [exact I|].
  apply gprobs_bind; [apply gprobs_lift; apply tok_probs_any; lia|].
  intros token. destruct (token =? 11); [exact I|]. destruct (token =? 0); [apply IH; lia|].
  apply gprobs_bind; [apply mag_probs_ok|]. intros a. cbn [gprobs_ok]. repeat split; try lia; apply IH; lia.
Qed.

Lemma G_row_probs_any first tops : first = 0 \/ first = 1 -> forall l inits, gprobs_ok (G_row nodes dcq acq first tops l inits).
Proof.
  intros Hf. induction tops as [|t tl IH]; intros l inits; [destruct inits; exact I|]. destruct inits as [|b btl]; [exact I|].
  cbn [G_row]. apply gprobs_bind; [unfold G_blk; apply G_coeff_probs_any; lia|]. intros hb.
  apply gprobs_bind; [apply IH | intros r; exact I].
Qed.

Lemma G_rows_probs_any first lefts : first = 0 \/ first = 1 -> forall tops inits, gprobs_ok (G_rows nodes dcq acq first tops lefts inits).
Proof.
  intros Hf. induction lefts as [|l ltl IH]; intros tops inits; [destruct inits; exact I|]. destruct inits as [|b btl]; [exact I|].
  cbn [G_rows]. apply gprobs_bind; [apply G_row_probs_any; exact Hf|]. intros r.
  apply gprobs_bind; [apply IH | intros r2; exact I].
Qed.
End ProbsAny.

(* ------------------------------------------------------------------------------------------------------------ *)
(* residual_rows (the Y, U and V loops of read_residual_data) = Spec.VP8.blocks_rows                            *)
(* ------------------------------------------------------------------------------------------------------------ *)
(* the crate's in-place flag / transform, on a Spec block (coefficients, nz) *)
Definition spec_flag (first : Z) (b : list Z * Z) : bool := negb (nth 0 (fst b) 0 =? 0) || (first <? snd b).

Theorem residual_rows_refines : forall data, Forall byte data -> C15_model.len data < 2 ^ 63 ->
  forall (probs4 : list (list (list (list Z)))) (v : Vp8) (p mbx plane dcq acq : Z) (t : MacroBlock)
         (y size ioff j ny : nat) (d : Dec) (tc lc blocks : list Z) (nz : bool) (s : bstate),
  tables_ok probs4 -> token_nodes_of probs4 = Ok (v_token_probs v) -> 0 <= plane <= 3 ->
  i16 dcq -> i16 acq -> coef_bound dcq acq <= dct_bound ->
  0 <= p < Z.of_nat (length (v_partitions v)) -> 0 <= mbx < Z.of_nat (length (v_top v)) ->
  (j + size <= length tc)%nat -> (y + j + ny <= length lc)%nat -> cx_ok tc -> cx_ok lc ->
  (16 * (ioff + (y + ny) * size) <= length blocks)%nat ->
  (* the blocks to be read are still zero *)
  row_inits ny size (skipn (16 * (ioff + y * size)) blocks) = repeat (repeat zero16 size) ny ->
  linked data s d ->
  let first := if plane =? 0 then 1 else 0 in
  let '(bl, tops', lefts', _, s') :=
    blocks_rows (nthZ probs4 plane []) dcq acq first (firstn size (skipn j tc)) (firstn ny (skipn (y + j) lc)) s [] [] true in
  (exists d',
     residual_rows ny (Z.of_nat y) (Z.of_nat size) (rst v p mbx t d tc lc) blocks nz mbx p plane (Z.of_nat ioff) (Z.of_nat j) dcq acq
     = Ok (rst v p mbx t d' (firstn j tc ++ tops' ++ skipn (j + size) tc) (firstn (y + j) lc ++ lefts' ++ skipn (y + j + ny) lc),
           firstn (16 * (ioff + y * size)) blocks ++ concat (map (fun b => fst (Spec.VP8.idct (fst b))) bl)
             ++ skipn (16 * (ioff + (y + ny) * size)) blocks,
           nz || existsb (spec_flag first) bl) /\
     linked data s' d')
  \/ (residual_rows ny (Z.of_nat y) (Z.of_nat size) (rst v p mbx t d tc lc) blocks nz mbx p plane (Z.of_nat ioff) (Z.of_nat j) dcq acq
      = Err EBitStreamError /\ over_read data s').
Proof.
  intros data Hbytes Hlen probs4 v p mbx plane dcq acq t y size ioff j ny d tc lc blocks nz s
         Htables Htp Hplane Hdc Hac HB Hp Hmbx Htc Hlc Hcxt Hcxl Hbl Hzero Hlink first.
  destruct (linked_wsafe data Hlen s d Hlink) as [Hw Hbig].
  pose proof (linked_not_eof data s d Hlink) as Heof.
  destruct (plane_facts probs4 v Htables Htp plane Hplane) as [Hprobs Hnodes].
  set (nodes := nth (Z.to_nat plane) (v_token_probs v) []) in *. set (probs := nth (Z.to_nat plane) probs4 []) in *.
  assert (Hfirst : first = 0 \/ first = 1) by (unfold first; destruct (plane =? 0); lia).
  set (tops := firstn size (skipn j tc)). set (lefts := firstn ny (skipn (y + j) lc)).
  assert (Ltops : length tops = size) by (unfold tops; rewrite firstn_length, skipn_length; lia).
  assert (Llefts : length lefts = ny) by (unfold lefts; rewrite firstn_length, skipn_length; lia).
  assert (Hct : cx_ok tops) by (unfold tops; apply cx_ok_firstn, cx_ok_skipn; assumption).
  assert (Hcl : cx_ok lefts) by (unfold lefts; apply cx_ok_firstn, cx_ok_skipn; assumption).
  assert (HB0 : 0 <= coef_bound dcq acq) by (unfold coef_bound; lia).
  (* Model *)
  pose proof (residual_rows_ok probs4 v Htables Htp p mbx plane dcq acq dct_bound t Hplane Hdc Hac ltac:(lia) Hp Hmbx
                ny y size ioff j d tc lc blocks nz Hw Hbig Heof Htc Hlc Hcxt Hcxl Hbl) as EM.
  rewrite Hzero in EM. specialize (EM ltac:(apply Forall_forall; intros b Hb; apply repeat_spec in Hb; subst b; apply zero_blocks_bounded; unfold dct_bound; lia)).
  fold nodes tops lefts first in EM. rewrite EM. clear EM.
  (* Spec *)
  pose proof (spec_blocks_rows probs nodes Hprobs Hnodes dcq acq first Hfirst lefts tops s [] [] true Hct Hcl) as ES.
  unfold nthZ. fold probs. rewrite Ltops, Llefts in ES.
  (* invariants and transfer *)
  pose proof (G_rows_inv probs nodes Hprobs Hnodes dcq acq first Hfirst cold_pure dct_bound lefts tops d Hct Hcl ltac:(unfold dct_bound; lia) HB) as Inv.
  cbv zeta in Inv. rewrite Ltops, Llefts in Inv.
  pose proof (transfer_run data Hbytes Hlen (G_rows nodes dcq acq first tops lefts (repeat (repeat zero16 size) ny)) s d Hlink
                (G_rows_probs_any probs nodes Hprobs Hnodes dcq acq first lefts Hfirst tops _)) as T. cbv zeta in T.
  destruct (blocks_rows probs dcq acq first tops lefts s [] [] true) as [[[[bl tops'] lefts'] okS] s1].
  destruct (interpG bdbit (G_rows nodes dcq acq first tops lefts (repeat (repeat zero16 size) ny)) s) as [rS s2].
  destruct (interpG cold_pure (G_rows nodes dcq acq first tops lefts (repeat (repeat zero16 size) ny)) d) as [rM d'].
  cbn [fst snd rev_append app] in *. destruct ES as (Es & Et & El & bs & Ebl & Frel). subst s2 tops' lefts' bl.
  destruct Inv as (_ & _ & _ & _ & _ & Hbnd & Hunr).
  destruct T as (W1 & C1 & [(Eeof & L1 & Ev) | (Eeof & Ov)]); rewrite Eeof.
  - left. exists d'. split; [|exact L1]. subst rM.
    (* per-block: the in-place transform is the Spec's idct, the flag is the crate's *)
    assert (Hblocks : map blk_post (fst (fst rS)) = map (fun b => fst (Spec.VP8.idct (fst b))) bs /\
                      existsb blk_flag (fst (fst rS)) = existsb (spec_flag first) bs).
    { clear - Frel Hbnd Hunr. revert Hbnd Hunr. induction Frel as [|hb b l1 l2 [E1 [E2 E3]] Fr IH]; intros Hbnd Hunr; [split; reflexivity|].
      cbn [map] in Hbnd. inversion Hbnd as [|? ? [Lhb Fhb] Hbnd']; subst. inversion Hunr as [|? ? Hu Hunr']; subst.
      destruct (IH Hbnd' Hunr') as [IH1 IH2]. cbn [map existsb].
      assert (Ef : blk_flag hb = spec_flag first b) by (unfold blk_flag, spec_flag; rewrite E1, E2; reflexivity).
      split; [|rewrite Ef, IH2; reflexivity]. f_equal; [|exact IH1].
      unfold blk_post. rewrite E1. destruct (blk_flag hb) eqn:Efl.
      - apply app16_idct_spec; assumption.
      - unfold blk_flag in Efl. apply orb_false_iff in Efl. destruct Efl as [_ Eh]. rewrite (Hu Eh). reflexivity. }
    destruct Hblocks as [Hb1 Hb2]. rewrite Hb1, Hb2. reflexivity.
  - right. split; [reflexivity | exact Ov].
Qed.

(* ------------------------------------------------------------------------------------------------------------ *)
(* the crate's "block has something" flag = libwebp's block_nonzero                                             *)
(* ------------------------------------------------------------------------------------------------------------ *)
(* crate: block[0] != 0 || has_coefficients (= first < nz);  libwebp / Spec: nz > 1 || block[0] != 0.  They can only differ
   for first = 0, nz = 1 and a zero first coefficient; with a non-zero DC factor a lone token at position 0 is non-zero. *)
Lemma coeff_tree_no_eob_sweep :
  forallb (fun q => let x := nth q coeff_tree 0 in negb (x =? -11) && ((x <=? 0) || (2 <=? x))) (seq 2 20) = true.
Proof. vm_compute. reflexivity. Qed.

Lemma treed_no_eob P : forall fuel i s, 2 <= i -> fst (BoolDec.treed_read_aux fuel coeff_tree P i s) <> 11.
Proof.
  induction fuel as [|fuel IH]; intros i s Hi; cbn [BoolDec.treed_read_aux]; [cbn; lia|].
  rewrite bd_read_bool_bit. destruct (bdbit s (nth (Z.to_nat (Z.shiftr i 1)) P 0)) as [b s']. cbn [fst snd].
  set (q := Z.to_nat (i + ArithDec.b2z b)).
  assert (Hq : (2 <= q)%nat) by (unfold q, ArithDec.b2z; destruct b; lia).
  destruct (Nat.lt_ge_cases q 22) as [L | G].
  - pose proof coeff_tree_no_eob_sweep as S. rewrite forallb_forall in S. specialize (S q ltac:(apply in_seq; lia)). cbv zeta in S.
    apply andb_true_iff in S. destruct S as [S1 S2]. apply negb_true_iff in S1. apply Z.eqb_neq in S1. apply orb_true_iff in S2.
    destruct (Z.ltb_spec 0 (nth q coeff_tree 0)) as [Pos | Neg].
    + apply IH. destruct S2 as [S2 | S2]; [apply Z.leb_le in S2; lia | apply Z.leb_le in S2; exact S2].
    + cbn [fst]. lia.
  - rewrite (nth_overflow coeff_tree) by (cbn [length coeff_tree]; exact G). cbn [Z.ltb Z.compare fst]. lia.
Qed.

Lemma coeff_tree_leaves11 : forall x, In x coeff_tree -> x <= 0 -> - x <= 11.
Proof. apply in_leaves_le. vm_compute. reflexivity. Qed.

(* invariants of the Spec loop: the accumulator only grows at the front, has one entry per position, nz >= n *)
Lemma get_coeffs_loop_inv fuel : forall bands dc ac n ctx az acc ok s, Z.of_nat (length acc) = n -> 0 <= n <= 16 ->
  let '(acc', nz, _, _) := get_coeffs_loop fuel bands dc ac n ctx az acc ok s in
  (exists ext, acc' = ext ++ acc) /\ n <= nz <= 16 /\ (Z.of_nat (length acc') <= 16) /\
  (az = true -> n < 16 -> (0 < Z.of_nat fuel) -> n + 1 <= nz).
Proof.
  induction fuel as [|fuel IH]; intros bands dc ac n ctx az acc ok s Hl Hn; cbn [get_coeffs_loop].
  - split; [exists []; reflexivity|]. split; [lia|]. split; [lia|]. intros _ _ H. cbn in H. lia.
  - destruct (Z.leb_spec 16 n) as [L16 | G16].
    + split; [exists []; reflexivity|]. split; [lia|]. split; [lia|]. intros _ H. lia.
    + set (p := nthZ (nthZ bands (nthZ kBands n 0) []) ctx []).
      pose proof (treed_leaf coeff_tree p 11 ltac:(lia) coeff_tree_leaves11 (length coeff_tree) (if az then 2 else 0) s) as Hr.
      pose proof (treed_no_eob p (length coeff_tree) 2 s ltac:(lia)) as Hne.
      unfold BoolDec.treed_read.
      destruct (BoolDec.treed_read_aux (length coeff_tree) coeff_tree p (if az then 2 else 0) s) as [tok s1] eqn:Et. cbn [fst] in Hr.
      change DCT_EOB with 11.
      destruct (Z.eqb_spec tok 11) as [E11 | N11].
      * split; [exists []; reflexivity|]. split; [lia|]. split; [lia|]. intros Haz _ _. subst az. rewrite Et in Hne. cbn [fst] in Hne. contradiction.
      * destruct (Z.eqb_spec tok 0) as [E0 | N0].
        -- specialize (IH bands dc ac (n + 1) 0 true (0 :: acc) ok s1 ltac:(cbn [length]; lia) ltac:(lia)).
           destruct (get_coeffs_loop fuel bands dc ac (n + 1) 0 true (0 :: acc) ok s1) as [[[acc' nz] ok'] s2].
           destruct IH as ([ext Eext] & Hnz & Hlen & _). split; [exists (ext ++ [0]); rewrite Eext, <- app_assoc; reflexivity|].
           split; [lia|]. split; [exact Hlen|]. intros _ _ _. lia.
        -- destruct (token_magnitude tok s1) as [v s2]. destruct (BoolDec.read_bool 128 s2) as [sg s3].
           set (c := (if isone sg then - v else v) * (if 0 <? n then ac else dc)).
           specialize (IH bands dc ac (n + 1) (if v =? 1 then 1 else 2) false (c :: acc) (ok && fits16 c) s3 ltac:(cbn [length]; lia) ltac:(lia)).
           destruct (get_coeffs_loop fuel bands dc ac (n + 1) (if v =? 1 then 1 else 2) false (c :: acc) (ok && fits16 c) s3) as [[[acc' nz] ok'] s4].
           destruct IH as ([ext Eext] & Hnz & Hlen & _). split; [exists (ext ++ [c]); rewrite Eext, <- app_assoc; reflexivity|].
           split; [lia|]. split; [exact Hlen|]. intros _ _ _. lia.
Qed.

(* position 0 of the block is the coefficient of scan position 0 *)
Lemma blk_head ext : forall c, Z.of_nat (length (ext ++ [c])) <= 16 -> nth 0 (blk (ext ++ [c])) 0 = c.
Proof.
  induction ext as [|x ext IH]; intros c Hl.
  - cbn [app]. unfold blk. cbn [zlength zlength_aux unzigzag]. destruct (c =? 0) eqn:E; [apply Z.eqb_eq in E; subst; reflexivity|].
    cbn [Z.add Z.sub Z.opp Z.pos_sub]. reflexivity.
  - cbn [app]. rewrite blk_cons by (cbn [app length] in Hl; rewrite app_length in *; cbn [length] in *; lia).
    unfold updZ. rewrite nth_upd_other; [apply IH; cbn [app length] in Hl; lia|].
    rewrite app_length. cbn [length].
    pose proof (zigzag_pos (Z.of_nat (length ext + 1)) ltac:(cbn [app length] in Hl; rewrite app_length in Hl; cbn [length] in Hl; lia)) as Hz.
    rewrite zigzag_normative in Hz. rewrite Nat2Z.id in Hz. lia.
Qed.

Lemma get_coeffs_loop_S fuel bands dc ac n ctx az acc ok s :
  get_coeffs_loop (S fuel) bands dc ac n ctx az acc ok s =
  if 16 <=? n then (acc, 16, ok, s) else
  let p := nthZ (nthZ bands (nthZ kBands n 0) []) ctx [] in
  let '(tok, s1) := BoolDec.treed_read coeff_tree p (if az then 2 else 0) s in
  if tok =? DCT_EOB then (acc, n, ok, s1)
  else if tok =? 0 then get_coeffs_loop fuel bands dc ac (n + 1) 0 true (0 :: acc) ok s1
  else
    let '(v, s2) := token_magnitude tok s1 in
    let '(sg, s3) := BoolDec.read_bool 128 s2 in
    let c := (if isone sg then - v else v) * (if 0 <? n then ac else dc) in
    get_coeffs_loop fuel bands dc ac (n + 1) (if v =? 1 then 1 else 2) false (c :: acc) (ok && fits16 c) s3.
Proof. reflexivity. Qed.

Lemma get_coeffs_single bands cx dc ac s : dc <> 0 ->
  let '(coeffs, nz, _, _) := get_coeffs bands cx dc ac 0 s in nz = 1 -> nth 0 coeffs 0 <> 0.
Proof.
  intros Hdc. unfold get_coeffs. change (0 =? 1) with false. cbv iota.
  rewrite (get_coeffs_loop_S 16). change (16 <=? 0) with false. cbv iota zeta.
  set (p := nthZ (nthZ bands (nthZ kBands 0 0) []) cx []).
  pose proof (treed_leaf coeff_tree p 11 ltac:(lia) coeff_tree_leaves11 (length coeff_tree) 0 s) as Hr.
  unfold BoolDec.treed_read. destruct (BoolDec.treed_read_aux (length coeff_tree) coeff_tree p 0 s) as [tok s1]. cbn [fst] in Hr.
  change DCT_EOB with 11.
  destruct (Z.eqb_spec tok 11) as [E11 | N11]; [intros H; discriminate H|].
  destruct (Z.eqb_spec tok 0) as [E0 | N0].
  - pose proof (get_coeffs_loop_inv 16 bands dc ac (0 + 1) 0 true [0] true s1 eq_refl ltac:(lia)) as Inv.
    destruct (get_coeffs_loop 16 bands dc ac (0 + 1) 0 true [0] true s1) as [[[acc' nz] ok'] s2].
    destruct Inv as (_ & _ & _ & Hz). specialize (Hz eq_refl ltac:(lia) ltac:(lia)). intros H. lia.
  - rewrite token_magnitude_prog by lia. pose proof (mag_bound bdbit tok s1 ltac:(lia)) as Hm.
    destruct (interpG bdbit (mag_prog tok) s1) as [v s2]. cbn [fst] in Hm.
    destruct (BoolDec.read_bool 128 s2) as [sg s3]. change (0 <? 0) with false. cbv iota.
    set (c := (if isone sg then - v else v) * dc).
    assert (Hc : c <> 0) by (unfold c; destruct (isone sg); nia).
    pose proof (get_coeffs_loop_inv 16 bands dc ac (0 + 1) (if v =? 1 then 1 else 2) false [c] (true && fits16 c) s3 eq_refl ltac:(lia)) as Inv.
    destruct (get_coeffs_loop 16 bands dc ac (0 + 1) (if v =? 1 then 1 else 2) false [c] (true && fits16 c) s3) as [[[acc' nz] ok'] s4].
    destruct Inv as ([ext Eext] & _ & Hlen & _). subst acc'. intros _. fold (blk (ext ++ [c])). rewrite blk_head by exact Hlen. exact Hc.
Qed.

Definition flags_agree (first : Z) (b : list Z * Z) : Prop := spec_flag first b = block_nonzero b.

Lemma flags_agree_of first dc bands cx ac s : (first = 1 \/ (first = 0 /\ dc <> 0)) ->
  let '(coeffs, nz, _, _) := get_coeffs bands cx dc ac first s in flags_agree first (coeffs, nz).
Proof.
  intros [-> | [-> Hdc]].
  - destruct (get_coeffs bands cx dc ac 1 s) as [[[coeffs nz] ok] s']. unfold flags_agree, spec_flag, block_nonzero, nthZ. cbn [fst snd]. change (Z.to_nat 0) with 0%nat. apply orb_comm.
  - pose proof (get_coeffs_single bands cx dc ac s Hdc) as H1.
    destruct (get_coeffs bands cx dc ac 0 s) as [[[coeffs nz] ok] s']. unfold flags_agree, spec_flag, block_nonzero, nthZ. cbn [fst snd].
    change (Z.to_nat 0) with 0%nat.
    destruct (Z.eqb_spec (nth 0 coeffs 0) 0) as [E0 | N0]; cbn [negb orb].
    + destruct (Z.ltb_spec 0 nz) as [P | N]; destruct (Z.ltb_spec 1 nz) as [P1 | N1]; try reflexivity; exfalso; try lia;
        apply (H1 ltac:(lia)); exact E0.
    + rewrite orb_true_r. reflexivity.
Qed.

Lemma blocks_row_flags bands dc ac first tops : (first = 1 \/ (first = 0 /\ dc <> 0)) -> forall l s blocks newtops ok,
  Forall (flags_agree first) blocks ->
  let '(bl, _, _, _, _) := blocks_row bands dc ac first tops l s blocks newtops ok in Forall (flags_agree first) bl.
Proof.
  intros Hf. induction tops as [|t tl IH]; intros l s blocks newtops ok Hb; cbn [blocks_row]; [exact Hb|].
  pose proof (flags_agree_of first dc bands (l + t) ac s Hf) as Hg.
  destruct (get_coeffs bands (l + t) dc ac first s) as [[[b nz] ok1] s1].
  apply IH. apply Forall_app. split; [exact Hb | constructor; [exact Hg | constructor]].
Qed.

Lemma blocks_rows_flags bands dc ac first lefts : (first = 1 \/ (first = 0 /\ dc <> 0)) -> forall tops s blocks newlefts ok,
  Forall (flags_agree first) blocks ->
  let '(bl, _, _, _, _) := blocks_rows bands dc ac first tops lefts s blocks newlefts ok in Forall (flags_agree first) bl.
Proof.
  intros Hf. induction lefts as [|l ltl IH]; intros tops s blocks newlefts ok Hb; cbn [blocks_rows]; [exact Hb|].
  pose proof (blocks_row_flags bands dc ac first tops Hf l s blocks [] ok Hb) as Hr.
  destruct (blocks_row bands dc ac first tops l s blocks [] ok) as [[[[bl tops'] l'] ok1] s1]. apply IH. exact Hr.
Qed.

(* so the flag residual_rows_refines computes is libwebp's *)
Theorem residual_flag_is_block_nonzero bands dc ac first tops lefts s : (first = 1 \/ (first = 0 /\ dc <> 0)) ->
  let '(bl, _, _, _, _) := blocks_rows bands dc ac first tops lefts s [] [] true in
  existsb (spec_flag first) bl = existsb block_nonzero bl.
Proof.
  intros Hf. pose proof (blocks_rows_flags bands dc ac first lefts Hf tops s [] [] true ltac:(constructor)) as H.
  destruct (blocks_rows bands dc ac first tops lefts s [] [] true) as [[[[bl tops'] ls] ok] s1].
  induction H as [|b l Hb Hl IH]; [reflexivity|]. cbn [existsb]. rewrite Hb, IH. reflexivity.
Qed.

(* ------------------------------------------------------------------------------------------------------------ *)
(* read_residual_data for a B_PRED macroblock (no Y2 block) = Spec.VP8.parse_residuals                          *)
(* ------------------------------------------------------------------------------------------------------------ *)
Lemma blocks_row_ok_indep bands dc ac first tops : forall l s blocks newtops ok ok',
  (let '(bl, nt, l', _, s1) := blocks_row bands dc ac first tops l s blocks newtops ok in (bl, nt, l', s1))
  = (let '(bl, nt, l', _, s1) := blocks_row bands dc ac first tops l s blocks newtops ok' in (bl, nt, l', s1)).
Proof.
  induction tops as [|t tl IH]; intros l s blocks newtops ok ok'; cbn [blocks_row]; [reflexivity|].
  destruct (get_coeffs bands (l + t) dc ac first s) as [[[b nz] ok1] s1]. apply IH.
Qed.

Lemma blocks_rows_ok_indep bands dc ac first lefts : forall tops s blocks newlefts ok ok',
  (let '(bl, t', l', _, s1) := blocks_rows bands dc ac first tops lefts s blocks newlefts ok in (bl, t', l', s1))
  = (let '(bl, t', l', _, s1) := blocks_rows bands dc ac first tops lefts s blocks newlefts ok' in (bl, t', l', s1)).
Proof.
  induction lefts as [|l ltl IH]; intros tops s blocks newlefts ok ok'; cbn [blocks_rows]; [reflexivity|].
  pose proof (blocks_row_ok_indep bands dc ac first tops l s blocks [] ok ok') as H.
  destruct (blocks_row bands dc ac first tops l s blocks [] ok) as [[[[bl nt] l'] o1] s1].
  destruct (blocks_row bands dc ac first tops l s blocks [] ok') as [[[[bl2 nt2] l2'] o2] s2].
  injection H as -> -> -> ->. apply IH.
Qed.

Lemma idct_length b : length (fst (Spec.VP8.idct b)) = 16%nat.
Proof.
  unfold Spec.VP8.idct. do 16 (destruct b as [|? b]; [reflexivity|]). destruct b; [|reflexivity].
  match goal with |- context [forallb ?f ?l] => destruct (forallb f l) end; reflexivity.
Qed.

Lemma Forall2_len {A B} (R : A -> B -> Prop) l1 l2 : Forall2 R l1 l2 -> length l1 = length l2.
Proof. induction 1; cbn [length]; congruence. Qed.

(* shapes of what blocks_rows returns *)
Lemma blocks_rows_shape probs nodes dc ac first tops lefts s :
  plane_ok probs -> plane_nodes probs nodes -> first = 0 \/ first = 1 -> cx_ok tops -> cx_ok lefts ->
  let '(bl, tops', lefts', _, _) := blocks_rows probs dc ac first tops lefts s [] [] true in
  length bl = (length lefts * length tops)%nat /\ length tops' = length tops /\ length lefts' = length lefts /\ cx_ok tops' /\ cx_ok lefts'.
Proof.
  intros Hprobs Hnodes Hfirst Ht Hl.
  pose proof (spec_blocks_rows probs nodes Hprobs Hnodes dc ac first Hfirst lefts tops s [] [] true Ht Hl) as ES.
  pose proof (G_rows_inv probs nodes Hprobs Hnodes dc ac first Hfirst bdbit (Z.max (coef_bound dc ac) 0) lefts tops s Ht Hl ltac:(lia) ltac:(lia)) as Inv.
  cbv zeta in Inv.
  destruct (blocks_rows probs dc ac first tops lefts s [] [] true) as [[[[bl tops'] lefts'] ok] s1].
  destruct (interpG bdbit (G_rows nodes dc ac first tops lefts (repeat (repeat zero16 (length tops)) (length lefts))) s) as [r s2].
  cbn [fst snd rev_append app] in *. destruct ES as (_ & -> & -> & bs & -> & Frel).
  destruct Inv as (I1 & I2 & I3 & I4 & I5 & _). rewrite <- (Forall2_len _ _ _ Frel). repeat split; assumption.
Qed.

Lemma concat_idct_length (bl : list (list Z * Z)) : length (concat (map (fun b => fst (Spec.VP8.idct (fst b))) bl)) = (16 * length bl)%nat.
Proof. induction bl as [|b bl IH]; [reflexivity|]. cbn [map concat length]. rewrite app_length, idct_length, IH. lia. Qed.

Definition ctx_of (tc : list Z) : nzctx := mkC (firstn 4 (skipn 1 tc)) (firstn 2 (skipn 5 tc)) (firstn 2 (skipn 7 tc)) (nth 0 tc 0).

Lemma blocks_rows_true bands dc ac first tops lefts s ok :
  blocks_rows bands dc ac first tops lefts s [] [] ok
  = (let '(bl, t', l', _, s1) := blocks_rows bands dc ac first tops lefts s [] [] true in
     (bl, t', l', snd (fst (blocks_rows bands dc ac first tops lefts s [] [] ok)), s1)).
Proof.
  pose proof (blocks_rows_ok_indep bands dc ac first lefts tops s [] [] ok true) as H.
  destruct (blocks_rows bands dc ac first tops lefts s [] [] ok) as [[[[bl t'] l'] o] s1].
  destruct (blocks_rows bands dc ac first tops lefts s [] [] true) as [[[[bl2 t2] l2] o2] s2].
  injection H as -> -> -> ->. reflexivity.
Qed.

Lemma nine_split (tc : list Z) (a : Z) (y u w : list Z) : length tc = 9%nat -> length y = 4%nat -> length u = 2%nat -> length w = 2%nat ->
  firstn 7 (firstn 5 (firstn 1 tc ++ y ++ skipn 5 tc) ++ u ++ skipn 7 (firstn 1 tc ++ y ++ skipn 5 tc)) ++ w ++
  skipn 9 (firstn 5 (firstn 1 tc ++ y ++ skipn 5 tc) ++ u ++ skipn 7 (firstn 1 tc ++ y ++ skipn 5 tc))
  = nth 0 tc 0 :: y ++ u ++ w.
Proof.
  intros L Ly Lu Lw. do 9 (destruct tc as [|? tc]; [discriminate|]). destruct tc; [|discriminate].
  do 4 (destruct y as [|? y]; [discriminate|]). destruct y; [|discriminate].
  do 2 (destruct u as [|? u]; [discriminate|]). destruct u; [|discriminate].
  do 2 (destruct w as [|? w]; [discriminate|]). destruct w; [|discriminate]. reflexivity.
Qed.

Lemma nine_ctx_u (tc : list Z) (y : list Z) : length tc = 9%nat -> length y = 4%nat ->
  firstn 2 (skipn 5 (firstn 1 tc ++ y ++ skipn 5 tc)) = firstn 2 (skipn 5 tc).
Proof.
  intros L Ly. do 9 (destruct tc as [|? tc]; [discriminate|]). destruct tc; [|discriminate].
  do 4 (destruct y as [|? y]; [discriminate|]). destruct y; [|discriminate]. reflexivity.
Qed.

Lemma nine_ctx_v (tc : list Z) (y u : list Z) : length tc = 9%nat -> length y = 4%nat -> length u = 2%nat ->
  firstn 2 (skipn 7 (firstn 5 (firstn 1 tc ++ y ++ skipn 5 tc) ++ u ++ skipn 7 (firstn 1 tc ++ y ++ skipn 5 tc))) = firstn 2 (skipn 7 tc).
Proof.
  intros L Ly Lu. do 9 (destruct tc as [|? tc]; [discriminate|]). destruct tc; [|discriminate].
  do 4 (destruct y as [|? y]; [discriminate|]). destruct y; [|discriminate].
  do 2 (destruct u as [|? u]; [discriminate|]). destruct u; [|discriminate]. reflexivity.
Qed.

Ltac kill_spec := repeat match goal with |- context [blocks_rows ?a ?b ?c ?d ?e ?f ?g ?h ?i ?j] => destruct (blocks_rows a b c d e f g h i j) as [[[[? ?] ?] ?] ?] end.

Theorem read_residual_data_bpred_refines : forall data, Forall byte data -> C15_model.len data < 2 ^ 63 ->
  forall (h : header) (m : mbmode) (v : Vp8) (mb t : MacroBlock) (mbx p : Z) (d : Dec) (s : bstate) (seg : Segment),
  mb_luma_mode mb = 4 -> m_i4 m = true -> h_use_skip h && m_skip m = false ->
  tables_ok (h_probas h) -> token_nodes_of (h_probas h) = Ok (v_token_probs v) ->
  0 <= mb_segmentid mb -> nth_error (v_segment v) (Z.to_nat (mb_segmentid mb)) = Some seg ->
  sg_ydc seg = q_y1dc (segment_quant h (m_seg m)) -> sg_yac seg = q_y1ac (segment_quant h (m_seg m)) ->
  sg_uvdc seg = q_uvdc (segment_quant h (m_seg m)) -> sg_uvac seg = q_uvac (segment_quant h (m_seg m)) ->
  i16 (sg_ydc seg) -> i16 (sg_yac seg) -> i16 (sg_uvdc seg) -> i16 (sg_uvac seg) ->
  coef_bound (sg_ydc seg) (sg_yac seg) <= dct_bound -> coef_bound (sg_uvdc seg) (sg_uvac seg) <= dct_bound ->
  sg_ydc seg <> 0 -> sg_uvdc seg <> 0 ->
  0 <= p -> nth_error (v_partitions v) (Z.to_nat p) = Some d -> 0 <= mbx -> nth_error (v_top v) (Z.to_nat mbx) = Some t ->
  length (mb_complexity t) = 9%nat -> length (mb_complexity (v_left v)) = 9%nat -> cx_ok (mb_complexity t) -> cx_ok (mb_complexity (v_left v)) ->
  linked data s d ->
  let '(res, top', left', s') := parse_residuals h m (ctx_of (mb_complexity t)) (ctx_of (mb_complexity (v_left v))) s in
  (exists d', read_residual_data v mb mbx p
     = Ok (concat (map (fun b => fst (Spec.VP8.idct b)) (r_y res ++ r_u res ++ r_v res)), r_nonzero res,
           rst v p mbx t d' (c_dc top' :: c_y top' ++ c_u top' ++ c_v top') (c_dc left' :: c_y left' ++ c_u left' ++ c_v left')) /\
     linked data s' d')
  \/ (read_residual_data v mb mbx p = Err EBitStreamError /\ exists sx, over_read data sx).
Proof.
  intros data Hbytes Hlen h m v mb t mbx p d s seg Hluma Hi4 Hskip Htab Htp Hsid Hseg Ey1 Ey2 Eu1 Eu2 I1 I2 I3 I4 B1 B2 N1 N2
         Hp Hd Hmbx Ht Ltc Llc Ctc Clc Hlink.
  set (tc := mb_complexity t) in *. set (lc := mb_complexity (v_left v)) in *.
  assert (Hpl : 0 <= p < Z.of_nat (length (v_partitions v))) by (pose proof (nth_error_lt_len _ _ _ Hd); lia).
  assert (Hml : 0 <= mbx < Z.of_nat (length (v_top v))) by (pose proof (nth_error_lt_len _ _ _ Ht); lia).
  (* Spec *)
  unfold parse_residuals. rewrite Hskip, Hi4. cbv iota zeta. cbn [c_y c_u c_v c_dc ctx_of].
  rewrite <- Ey1, <- Ey2, <- Eu1, <- Eu2.
  (* Model *)
  unfold read_residual_data. rewrite Hluma. change (4 =? vp8_B_PRED) with true. cbv iota. change (3 =? 1) with false. cbv iota. cbn [bind].
  rewrite (idx_of_nth_error _ _ seg Hsid Hseg). cbn [bind].
  (* stage Y *)
  pose proof (residual_rows_refines data Hbytes Hlen (h_probas h) v p mbx 3 (sg_ydc seg) (sg_yac seg) t 0 4 0 1 4 d tc lc (repeat 0 384) false s
                Htab Htp ltac:(lia) I1 I2 B1 Hpl Hml ltac:(lia) ltac:(lia) Ctc Clc ltac:(cbn; lia) ltac:(vm_compute; reflexivity) Hlink) as SY.
  cbv zeta in SY. unfold tc, lc in SY. rewrite (rst_id v p mbx t d Hd Ht) in SY. fold tc lc in SY.
  change (Z.of_nat 0) with 0 in SY. change (Z.of_nat 4) with 4 in SY. change (Z.of_nat 1) with 1 in SY. change (3 =? 0) with false in SY. cbv iota in SY.
  cbn [Nat.add Nat.mul] in SY.
  destruct (plane_facts (h_probas h) v Htab Htp 3 ltac:(lia)) as [HP3 HN3].
  destruct (plane_facts (h_probas h) v Htab Htp 2 ltac:(lia)) as [HP2 HN2].
  assert (Cty : cx_ok (firstn 4 (skipn 1 tc))) by (apply cx_ok_firstn, cx_ok_skipn; exact Ctc).
  assert (Cly : cx_ok (firstn 4 (skipn 1 lc))) by (apply cx_ok_firstn, cx_ok_skipn; exact Clc).
  pose proof (blocks_rows_shape _ _ (sg_ydc seg) (sg_yac seg) 0 (firstn 4 (skipn 1 tc)) (firstn 4 (skipn 1 lc)) s HP3 HN3 ltac:(lia) Cty Cly) as ShY.
  pose proof (residual_flag_is_block_nonzero (nthZ (h_probas h) 3 []) (sg_ydc seg) (sg_yac seg) 0 (firstn 4 (skipn 1 tc)) (firstn 4 (skipn 1 lc)) s
                ltac:(right; split; [reflexivity | exact N1])) as FY.
  unfold nthZ in *. change (Z.to_nat 3) with 3%nat in *. change (Z.to_nat 2) with 2%nat in *.
  destruct (blocks_rows (nth 3 (h_probas h) []) (sg_ydc seg) (sg_yac seg) 0 (firstn 4 (skipn 1 tc)) (firstn 4 (skipn 1 lc)) s [] [] true)
    as [[[[yb ty] ly] ok1] s0].
  rewrite !firstn_length, !skipn_length, Ltc, Llc in ShY. cbn [Nat.sub Nat.min Nat.mul Nat.add] in ShY. destruct ShY as (LyB & Lty & Lly & Cty' & Cly').
  destruct SY as [[d1 [EY LY]] | [EY OY]]; [|kill_spec; right; rewrite EY; cbn [bind]; split; [reflexivity | exists s0; exact OY]].
  rewrite EY. cbn [bind]. clear EY.
  (* stage U *)
  set (tc1 := firstn 1 tc ++ ty ++ skipn 5 tc) in *. set (lc1 := firstn 1 lc ++ ly ++ skipn 5 lc) in *.
  set (cY := concat (map (fun b0 : list Z * Z => fst (idct (fst b0))) yb)) in *.
  assert (LcY : length cY = 256%nat) by (unfold cY; rewrite concat_idct_length, LyB; reflexivity).
  set (blocksY := firstn 0 (repeat 0 384) ++ cY ++ skipn 256 (repeat 0 384)).
  assert (Ltc1 : length tc1 = 9%nat) by (unfold tc1; rewrite !app_length, firstn_length, skipn_length; lia).
  assert (Llc1 : length lc1 = 9%nat) by (unfold lc1; rewrite !app_length, firstn_length, skipn_length; lia).
  assert (Ctc1 : cx_ok tc1) by (unfold tc1; apply cx_ok_splice; [apply cx_ok_firstn | | apply cx_ok_skipn]; assumption).
  assert (Clc1 : cx_ok lc1) by (unfold lc1; apply cx_ok_splice; [apply cx_ok_firstn | | apply cx_ok_skipn]; assumption).
  assert (EbY : blocksY = cY ++ repeat 0 128) by (unfold blocksY; change (firstn 0 (repeat 0 384)) with (@nil Z); rewrite app_nil_l; f_equal).
  assert (LbY : length blocksY = 384%nat) by (rewrite EbY, app_length, repeat_length, LcY; reflexivity).
  assert (SkY : skipn 256 blocksY = repeat 0 128).
  { rewrite EbY. rewrite <- LcY at 1. rewrite skipn_app, skipn_all, Nat.sub_diag. reflexivity. }
  pose proof (residual_rows_refines data Hbytes Hlen (h_probas h) v p mbx 2 (sg_uvdc seg) (sg_uvac seg) t 0 2 16 5 2 d1 tc1 lc1 blocksY
                (false || existsb (spec_flag 0) yb) s0 Htab Htp ltac:(lia) I3 I4 B2 Hpl Hml ltac:(lia) ltac:(lia) Ctc1 Clc1 ltac:(rewrite LbY; cbn; lia)) as SU.
  cbn [Nat.add Nat.mul] in SU. specialize (SU ltac:(rewrite SkY; vm_compute; reflexivity) LY). cbv zeta in SU.
  change (Z.of_nat 0) with 0 in SU. change (Z.of_nat 2) with 2 in SU. change (Z.of_nat 16) with 16 in SU. change (Z.of_nat 5) with 5 in SU.
  change (2 =? 0) with false in SU. cbv iota in SU. unfold nthZ in SU. change (Z.to_nat 2) with 2%nat in SU.
  unfold tc1 at 1 in SU. unfold lc1 at 1 in SU. rewrite (nine_ctx_u tc ty Ltc Lty), (nine_ctx_u lc ly Llc Lly) in SU.
  assert (Ctu : cx_ok (firstn 2 (skipn 5 tc))) by (apply cx_ok_firstn, cx_ok_skipn; exact Ctc).
  assert (Clu : cx_ok (firstn 2 (skipn 5 lc))) by (apply cx_ok_firstn, cx_ok_skipn; exact Clc).
  pose proof (blocks_rows_shape _ _ (sg_uvdc seg) (sg_uvac seg) 0 (firstn 2 (skipn 5 tc)) (firstn 2 (skipn 5 lc)) s0 HP2 HN2 ltac:(lia) Ctu Clu) as ShU.
  pose proof (residual_flag_is_block_nonzero (nth 2 (h_probas h) []) (sg_uvdc seg) (sg_uvac seg) 0 (firstn 2 (skipn 5 tc)) (firstn 2 (skipn 5 lc)) s0
                ltac:(right; split; [reflexivity | exact N2])) as FU.
  rewrite (blocks_rows_true _ _ _ _ _ _ s0 ok1).
  destruct (blocks_rows (nth 2 (h_probas h) []) (sg_uvdc seg) (sg_uvac seg) 0 (firstn 2 (skipn 5 tc)) (firstn 2 (skipn 5 lc)) s0 [] [] true)
    as [[[[ub tu] lu] ok2t] s1].
  rewrite !firstn_length, !skipn_length, Ltc, Llc in ShU. cbn [Nat.sub Nat.min Nat.mul Nat.add] in ShU. destruct ShU as (LuB & Ltu & Llu & Ctu' & Clu').
  destruct SU as [[d2 [EU LU]] | [EU OU]]; [|kill_spec; right; rewrite EU; cbn [bind]; split; [reflexivity | exists s1; exact OU]].
  rewrite EU. cbn [bind]. clear EU.
  (* stage V *)
  set (tc2 := firstn 5 tc1 ++ tu ++ skipn 7 tc1) in *. set (lc2 := firstn 5 lc1 ++ lu ++ skipn 7 lc1) in *.
  set (cU := concat (map (fun b0 : list Z * Z => fst (idct (fst b0))) ub)) in *.
  assert (LcU : length cU = 64%nat) by (unfold cU; rewrite concat_idct_length, LuB; reflexivity).
  set (blocksU := firstn 256 blocksY ++ cU ++ skipn 320 blocksY) in *.
  assert (Ltc2 : length tc2 = 9%nat) by (unfold tc2; rewrite !app_length, firstn_length, skipn_length; lia).
  assert (Llc2 : length lc2 = 9%nat) by (unfold lc2; rewrite !app_length, firstn_length, skipn_length; lia).
  assert (Ctc2 : cx_ok tc2) by (unfold tc2; apply cx_ok_splice; [apply cx_ok_firstn | | apply cx_ok_skipn]; assumption).
  assert (Clc2 : cx_ok lc2) by (unfold lc2; apply cx_ok_splice; [apply cx_ok_firstn | | apply cx_ok_skipn]; assumption).
  assert (FnY : firstn 256 blocksY = cY).
  { rewrite EbY. rewrite <- LcY. rewrite firstn_app, firstn_all, Nat.sub_diag. change (firstn 0 (repeat 0 128)) with (@nil Z). apply app_nil_r. }
  assert (SkY2 : skipn 320 blocksY = repeat 0 64).
  { replace 320%nat with (256 + 64)%nat by reflexivity. rewrite <- skipn_skipn'. rewrite SkY. reflexivity. }
  assert (LbU : length blocksU = 384%nat) by (unfold blocksU; rewrite FnY, SkY2, !app_length, LcY, LcU, repeat_length; reflexivity).
  assert (SkU : skipn 320 blocksU = repeat 0 64).
  { unfold blocksU. rewrite FnY, SkY2. rewrite app_assoc. replace 320%nat with (length (cY ++ cU)) by (rewrite app_length, LcY, LcU; reflexivity).
    rewrite skipn_app, skipn_all, Nat.sub_diag. reflexivity. }
  pose proof (residual_rows_refines data Hbytes Hlen (h_probas h) v p mbx 2 (sg_uvdc seg) (sg_uvac seg) t 0 2 20 7 2 d2 tc2 lc2 blocksU
                (false || existsb (spec_flag 0) yb || existsb (spec_flag 0) ub) s1 Htab Htp ltac:(lia) I3 I4 B2 Hpl Hml ltac:(lia) ltac:(lia) Ctc2 Clc2
                ltac:(rewrite LbU; cbn; lia)) as SV.
  cbn [Nat.add Nat.mul] in SV. specialize (SV ltac:(rewrite SkU; vm_compute; reflexivity) LU). cbv zeta in SV.
  change (Z.of_nat 0) with 0 in SV. change (Z.of_nat 2) with 2 in SV. change (Z.of_nat 20) with 20 in SV. change (Z.of_nat 7) with 7 in SV.
  change (2 =? 0) with false in SV. cbv iota in SV. unfold nthZ in SV. change (Z.to_nat 2) with 2%nat in SV.
  unfold tc2 at 1 in SV. unfold lc2 at 1 in SV. unfold tc1 at 1 2 in SV. unfold lc1 at 1 2 in SV.
  rewrite (nine_ctx_v tc ty tu Ltc Lty Ltu), (nine_ctx_v lc ly lu Llc Lly Llu) in SV.
  assert (Ctv : cx_ok (firstn 2 (skipn 7 tc))) by (apply cx_ok_firstn, cx_ok_skipn; exact Ctc).
  assert (Clv : cx_ok (firstn 2 (skipn 7 lc))) by (apply cx_ok_firstn, cx_ok_skipn; exact Clc).
  pose proof (blocks_rows_shape _ _ (sg_uvdc seg) (sg_uvac seg) 0 (firstn 2 (skipn 7 tc)) (firstn 2 (skipn 7 lc)) s1 HP2 HN2 ltac:(lia) Ctv Clv) as ShV.
  pose proof (residual_flag_is_block_nonzero (nth 2 (h_probas h) []) (sg_uvdc seg) (sg_uvac seg) 0 (firstn 2 (skipn 7 tc)) (firstn 2 (skipn 7 lc)) s1
                ltac:(right; split; [reflexivity | exact N2])) as FV.
  rewrite (blocks_rows_true _ _ _ _ _ _ s1 _).
  destruct (blocks_rows (nth 2 (h_probas h) []) (sg_uvdc seg) (sg_uvac seg) 0 (firstn 2 (skipn 7 tc)) (firstn 2 (skipn 7 lc)) s1 [] [] true)
    as [[[[vb tv] lv] ok3t] s2].
  rewrite !firstn_length, !skipn_length, Ltc, Llc in ShV. cbn [Nat.sub Nat.min Nat.mul Nat.add] in ShV. destruct ShV as (LvB & Ltv & Llv & Ctv' & Clv').
  destruct SV as [[d3 [EV LV]] | [EV OV]]; [|right; rewrite EV; cbn [bind]; split; [reflexivity | exists s2; exact OV]].
  rewrite EV. cbn [bind]. clear EV.
  left. exists d3. split; [|exact LV]. cbn [r_y r_u r_v r_nonzero c_y c_u c_v c_dc].
  (* contexts *)
  unfold tc2, lc2, tc1, lc1. rewrite (nine_split tc (nth 0 tc 0) ty tu tv Ltc Lty Ltu Ltv), (nine_split lc (nth 0 lc 0) ly lu lv Llc Lly Llu Llv).
  (* blocks *)
  set (cV := concat (map (fun b0 : list Z * Z => fst (idct (fst b0))) vb)).
  assert (LcV : length cV = 64%nat) by (unfold cV; rewrite concat_idct_length, LvB; reflexivity).
  assert (Eblocks : firstn 320 blocksU ++ cV ++ skipn 384 blocksU
                    = concat (map (fun b => fst (idct b)) (map fst yb ++ map fst ub ++ map fst vb))).
  { rewrite !map_app, !concat_app, !map_map. fold cY cU cV.
    rewrite (skipn_all2 blocksU) by (rewrite LbU; lia). rewrite app_nil_r.
    unfold blocksU. rewrite FnY, SkY2. rewrite app_assoc.
    replace 320%nat with (length (cY ++ cU)) by (rewrite app_length, LcY, LcU; reflexivity).
    rewrite firstn_app, firstn_all, Nat.sub_diag. cbn [firstn]. rewrite app_nil_r. rewrite <- app_assoc. reflexivity. }
  rewrite Eblocks. rewrite FY, FU, FV. cbn [orb]. reflexivity.
Qed.

(* ------------------------------------------------------------------------------------------------------------ *)
(* 16x16 macroblocks: the Y blocks start from the DC values of the inverse WHT                                  *)
(* ------------------------------------------------------------------------------------------------------------ *)
Definition dcblk (w : Z) : list Z := updZ zero16 0 w.
Fixpoint with_dcs (hbs : list (bool * list Z)) (ws : list Z) : list (bool * list Z) :=
  match hbs, ws with
  | hb :: tl, w :: wtl => (fst hb, updZ (snd hb) 0 w) :: with_dcs tl wtl
  | _, _ => []
  end.

Lemma G_row_dc {St} (bit : St -> Z -> bool * St) nodes dcq acq tops : forall l ws s, length ws = length tops ->
  interpG bit (G_row nodes dcq acq 1 tops l (map dcblk ws)) s
  = (let '(r, s') := interpG bit (G_row nodes dcq acq 1 tops l (repeat zero16 (length tops))) s in
     ((with_dcs (fst (fst r)) ws, snd (fst r), snd r), s')).
Proof.
  induction tops as [|t tl IH]; intros l ws s Hl; [destruct ws; [reflexivity | discriminate]|].
  destruct ws as [|w wtl]; [discriminate|]. cbn [map length repeat G_row]. rewrite !interpG_bind.
  unfold dcblk at 1. unfold G_blk. rewrite (G_coeff_dc bit nodes dcq acq w (Z.to_nat (16 - 1)) 1 (t + l) false false zero16 s) by lia.
  destruct (interpG bit (G_coeff (Z.to_nat (16 - 1)) nodes dcq acq 1 (t + l) false false zero16) s) as [hb s1]. cbn [fst snd].
  rewrite !interpG_bind. rewrite IH by (cbn in Hl; lia).
  destruct (interpG bit (G_row nodes dcq acq 1 tl (ArithDec.b2z (fst hb)) (repeat zero16 (length tl))) s1) as [r s2]. cbn [interpG fst snd with_dcs]. reflexivity.
Qed.

Lemma with_dcs_app a b wa wb : length wa = length a -> with_dcs (a ++ b) (wa ++ wb) = with_dcs a wa ++ with_dcs b wb.
Proof.
  revert wa. induction a as [|x a IH]; intros wa H; destruct wa as [|w wa]; try discriminate; [reflexivity|].
  cbn [app with_dcs]. f_equal. apply IH. cbn in H. lia.
Qed.

Lemma G_rows_dc {St} (bit : St -> Z -> bool * St) probs nodes dcq acq lefts : plane_ok probs -> plane_nodes probs nodes ->
  forall tops wss s, cx_ok tops -> cx_ok lefts -> length wss = length lefts -> Forall (fun ws => length ws = length tops) wss ->
  interpG bit (G_rows nodes dcq acq 1 tops lefts (map (map dcblk) wss)) s
  = (let '(r, s') := interpG bit (G_rows nodes dcq acq 1 tops lefts (repeat (repeat zero16 (length tops)) (length lefts))) s in
     ((with_dcs (fst (fst r)) (concat wss), snd (fst r), snd r), s')).
Proof.
  intros Hprobs Hnodes. induction lefts as [|l ltl IH]; intros tops wss s Ht Hl Hlw Hf; [destruct wss; [reflexivity | discriminate]|].
  destruct wss as [|ws wss]; [discriminate|]. inversion Hf as [|? ? Lws Hf']; subst. inversion Hl as [|? ? Hl0 Hltl]; subst.
  cbn [map length repeat G_rows concat]. rewrite !interpG_bind. rewrite (G_row_dc bit nodes dcq acq tops l ws s Lws).
  pose proof (G_row_inv probs nodes Hprobs Hnodes dcq acq 1 ltac:(lia) bit (Z.max (coef_bound dcq acq) 0) tops l (repeat zero16 (length tops)) s Ht Hl0
                ltac:(rewrite repeat_length; reflexivity) ltac:(lia) (zero_blocks_bounded (Z.max (coef_bound dcq acq) 0) (length tops) ltac:(lia))) as Inv. cbv zeta in Inv.
  destruct (interpG bit (G_row nodes dcq acq 1 tops l (repeat zero16 (length tops))) s) as [r s1]. cbn [fst snd] in *.
  destruct Inv as (I1 & I2 & I3 & _). rewrite !interpG_bind.
  specialize (IH (snd (fst r)) wss s1 I3 Hltl ltac:(cbn in Hlw; lia)). rewrite I2 in IH. rewrite IH by exact Hf'.
  destruct (interpG bit (G_rows nodes dcq acq 1 (snd (fst r)) ltl (repeat (repeat zero16 (length tops)) (length ltl))) s1) as [r2 s2].
  cbn [interpG fst snd]. rewrite with_dcs_app by lia. reflexivity.
Qed.

(* the inverse WHT: outputs are bounded by twice the inputs *)
Lemma iwht_bound wb b : 0 <= wb -> length b = 16%nat -> Forall (within wb) b -> Forall (within (2 * wb + 1)) (app16 iwht4x4 [] b) /\ length (app16 iwht4x4 [] b) = 16%nat.
Proof.
  intros Hwb L F. do 16 (destruct b as [|? b]; [discriminate|]). destruct b; [|discriminate].
  repeat match goal with H : Forall _ (_ :: _) |- _ => inversion H; clear H; subst end.
  cbn [app16]. rewrite iwht4x4_eq. unfold within in *.
  cbv beta iota zeta delta [Spec.VP8.iwht fst app]. rewrite !shiftr3. split; [|reflexivity].
  repeat constructor; lia.
Qed.

Lemma iwht_block_ok b : length b = 16%nat -> Forall (within wht_bound) b -> iwht_block b = Ok (app16 iwht4x4 [] b).
Proof.
  intros L F. unfold iwht_block. rewrite L. cbn [Z.of_nat Pos.of_succ_nat Pos.succ Z.eqb Pos.eqb negb].
  do 16 (destruct b as [|? b]; [discriminate|]). destruct b; [|discriminate].
  repeat match goal with H : Forall _ (_ :: _) |- _ => inversion H; clear H; subst end.
  cbn [app16]. rewrite iwht4x4_ok_true by assumption. reflexivity.
Qed.

Lemma iwht_spec b : length b = 16%nat -> app16 iwht4x4 [] b = fst (Spec.VP8.iwht b).
Proof. intros L. do 16 (destruct b as [|? b]; [discriminate|]). destruct b; [|discriminate]. cbn [app16]. apply iwht4x4_eq. Qed.

(* for k in 0..16 { blocks[16 * k] = block[k] } on the zero array *)
Lemma scatter_explicit w0 w1 w2 w3 w4 w5 w6 w7 w8 w9 w10 w11 w12 w13 w14 w15 :
  scatter_dc 16 0 (repeat 0 384) [w0; w1; w2; w3; w4; w5; w6; w7; w8; w9; w10; w11; w12; w13; w14; w15]
  = Ok (concat (map dcblk [w0; w1; w2; w3; w4; w5; w6; w7; w8; w9; w10; w11; w12; w13; w14; w15]) ++ repeat 0 128).
Proof. vm_compute. reflexivity. Qed.

Lemma scatter_inits w0 w1 w2 w3 w4 w5 w6 w7 w8 w9 w10 w11 w12 w13 w14 w15 :
  row_inits 4 4 (skipn (16 * (0 + 0 * 4)) (concat (map dcblk [w0; w1; w2; w3; w4; w5; w6; w7; w8; w9; w10; w11; w12; w13; w14; w15]) ++ repeat 0 128))
  = map (map dcblk) [[w0; w1; w2; w3]; [w4; w5; w6; w7]; [w8; w9; w10; w11]; [w12; w13; w14; w15]].
Proof. vm_compute. reflexivity. Qed.

Lemma rst_parts_only v p mbx t d d1 : nth_error (v_partitions v) (Z.to_nat p) = Some d -> nth_error (v_top v) (Z.to_nat mbx) = Some t ->
  set_partitions v (updZ (v_partitions v) p d1) = rst v p mbx t d1 (mb_complexity t) (mb_complexity (v_left v)).
Proof.
  intros Ed Et. destruct v as [vr vb vw vh vf vse vsum vsg vrd vmd vp vnp vst vtp vpi vpsf vtop vleft].
  cbv [rst set_left set_top set_partitions v_top v_left v_r v_b v_mbwidth v_mbheight v_frame v_segments_enabled v_segments_update_map
       v_segment v_ref_delta v_mode_delta v_partitions v_num_partitions v_segment_tree_nodes v_token_probs v_prob_intra v_prob_skip_false] in *.
  replace (mb_set_complexity t (mb_complexity t)) with t by (destruct t; reflexivity).
  replace (mb_set_complexity vleft (mb_complexity vleft)) with vleft by (destruct vleft; reflexivity).
  replace (updZ vtop mbx t) with vtop; [reflexivity|].
  unfold updZ. rewrite <- (upd_nth_id vtop (Z.to_nat mbx) t) at 1. f_equal. apply nth_error_nth. exact Et.
Qed.

(* the Y blocks after the DC values are filled in *)
Lemma set_dcs_rel hbs : forall yb ws B, Forall2 (blk_rel 1) hbs yb -> length ws = length hbs -> Forall unread_zero hbs ->
  bounded_blocks B (map snd hbs) -> Forall (within B) ws -> B <= dct_bound ->
  map blk_post (with_dcs hbs ws) = map (fun b => fst (Spec.VP8.idct b)) (map fst (set_dcs yb ws)) /\
  existsb blk_flag (with_dcs hbs ws) = existsb block_nonzero (set_dcs yb ws).
Proof.
  induction hbs as [|hb hbs IH]; intros yb ws B Frel Lw Hun Hb Hw HB.
  - inversion Frel; subst. destruct ws; [|discriminate]. split; reflexivity.
  - inversion Frel as [|? b ? yb' [E1 [E2 E3]] Fr]; subst. destruct ws as [|w ws]; [discriminate|].
    inversion Hun as [|? ? Hu Hun']; subst. cbn [map] in Hb. inversion Hb as [|? ? [Lhb Fhb] Hb']; subst. inversion Hw as [|? ? Hw0 Hw']; subst.
    destruct (IH yb' ws B Fr ltac:(cbn in Lw; lia) Hun' Hb' Hw' HB) as [IH1 IH2].
    destruct b as [bc nz]. cbn [fst snd] in *. subst bc.
    assert (Ehd : (match snd hb with _ :: r => w :: r | [] => [] end) = updZ (snd hb) 0 w).
    { destruct (snd hb) as [|x r]; [discriminate | reflexivity]. }
    cbn [with_dcs set_dcs map existsb]. rewrite Ehd.
    assert (Hn0 : nth 0 (updZ (snd hb) 0 w) 0 = w) by (unfold updZ; apply nth_upd_same; rewrite Lhb; cbn; lia).
    assert (Ef : blk_flag (fst hb, updZ (snd hb) 0 w) = block_nonzero (updZ (snd hb) 0 w, nz)).
    { unfold blk_flag, block_nonzero, nthZ. cbn [fst snd]. change (Z.to_nat 0) with 0%nat. rewrite Hn0, E2. apply orb_comm. }
    split; [|rewrite Ef, IH2; reflexivity]. f_equal; [|exact IH1].
    unfold blk_post. cbn [fst snd]. destruct (blk_flag (fst hb, updZ (snd hb) 0 w)) eqn:Efl.
    + apply app16_idct_spec; [rewrite updZ_length; exact Lhb|].
      clear - Fhb Hw0 HB. unfold updZ. cbn [upd Z.to_nat]. destruct (snd hb) as [|x r]; [constructor|]. inversion Fhb; subst.
      constructor; [unfold within in *; lia | eapply Forall_impl; [|eassumption]; intros a Ha; unfold within in *; lia].
    + unfold blk_flag in Efl. cbn [fst snd] in Efl. rewrite Hn0 in Efl. apply orb_false_iff in Efl. destruct Efl as [Ew Eh].
      apply negb_false_iff in Ew. apply Z.eqb_eq in Ew. subst w. rewrite (Hu Eh). reflexivity.
Qed.

(* ------------------------------------------------------------------------------------------------------------ *)
(* read_residual_data for a 16x16 macroblock: Y2 block, inverse WHT, DC scatter, then Y (from position 1), U, V   *)
(* ------------------------------------------------------------------------------------------------------------ *)

Definition chunk4 (w : list Z) : list (list Z) := [firstn 4 w; firstn 4 (skipn 4 w); firstn 4 (skipn 8 w); firstn 4 (skipn 12 w)].

Lemma scatter_ok w : length w = 16%nat ->
  scatter_dc 16 0 (repeat 0 384) w = Ok (concat (map dcblk w) ++ repeat 0 128) /\
  row_inits 4 4 (skipn (16 * (0 + 0 * 4)) (concat (map dcblk w) ++ repeat 0 128)) = map (map dcblk) (chunk4 w) /\
  concat (chunk4 w) = w /\ Forall (fun ws => length ws = 4%nat) (chunk4 w).
Proof.
  intros L. do 16 (destruct w as [|? w]; [discriminate|]). destruct w; [|discriminate].
  split; [apply scatter_explicit|]. split; [apply scatter_inits|]. split; [reflexivity|]. repeat constructor.
Qed.

Lemma upd0_skipn (tc : list Z) x k : (1 <= k)%nat -> skipn k (updZ tc 0 x) = skipn k tc.
Proof. intros Hk. destruct k; [lia|]. destruct tc; reflexivity. Qed.

Lemma upd0_head (tc : list Z) x : (1 <= length tc)%nat -> firstn 1 (updZ tc 0 x) = [x] /\ nth 0 (updZ tc 0 x) 0 = x.
Proof. intros H. destruct tc; [cbn in H; lia|]. split; reflexivity. Qed.

Lemma cx_ok_upd0 tc x : cx_ok tc -> 0 <= x <= 1 -> cx_ok (updZ tc 0 x).
Proof. intros H Hx. destruct tc; [exact H|]. inversion H; subst. constructor; assumption. Qed.

Lemma dcblk_bounded B ws : 0 <= B -> Forall (within B) ws -> bounded_blocks B (map dcblk ws).
Proof.
  intros HB F. induction F as [|w ws Hw F IH]; [constructor|]. cbn [map]. constructor; [|exact IH]. split; [reflexivity|].
  unfold dcblk, within in *. cbn. repeat constructor; lia.
Qed.

Lemma Forall_firstn {A} (P : A -> Prop) n l : Forall P l -> Forall P (firstn n l).
Proof. intros F. revert n. induction F; intros [|n]; cbn [firstn]; constructor; auto. Qed.
Lemma Forall_skipn {A} (P : A -> Prop) n l : Forall P l -> Forall P (skipn n l).
Proof. intros F. revert n. induction F; intros [|n]; cbn [skipn]; auto. Qed.

Lemma set_dcs_length bs : forall ws, length (set_dcs bs ws) = length bs.
Proof. induction bs as [|[b nz] bs IH]; intros ws; [reflexivity|]. destruct ws; [reflexivity|]. cbn [set_dcs length]. rewrite IH. reflexivity. Qed.

Lemma concat_idct_length' (bl : list (list Z)) : length (concat (map (fun b => fst (Spec.VP8.idct b)) bl)) = (16 * length bl)%nat.
Proof. induction bl as [|b bl IH]; [reflexivity|]. cbn [map concat length]. rewrite app_length, idct_length, IH. lia. Qed.

Lemma dcblks_length w : length (concat (map dcblk w)) = (16 * length w)%nat.
Proof. induction w as [|x w IH]; [reflexivity|]. cbn [map concat]. rewrite app_length, IH. unfold dcblk. cbn [length updZ upd zero16 Z.to_nat]. lia. Qed.

Theorem read_residual_data_i16_refines : forall data, Forall byte data -> C15_model.len data < 2 ^ 63 ->
  forall (h : header) (m : mbmode) (v : Vp8) (mb t : MacroBlock) (mbx p : Z) (d : Dec) (s : bstate) (seg : Segment),
  (mb_luma_mode mb =? vp8_B_PRED) = false -> m_i4 m = false -> h_use_skip h && m_skip m = false ->
  tables_ok (h_probas h) -> token_nodes_of (h_probas h) = Ok (v_token_probs v) ->
  0 <= mb_segmentid mb -> nth_error (v_segment v) (Z.to_nat (mb_segmentid mb)) = Some seg ->
  sg_ydc seg = q_y1dc (segment_quant h (m_seg m)) -> sg_yac seg = q_y1ac (segment_quant h (m_seg m)) ->
  sg_y2dc seg = q_y2dc (segment_quant h (m_seg m)) -> sg_y2ac seg = q_y2ac (segment_quant h (m_seg m)) ->
  sg_uvdc seg = q_uvdc (segment_quant h (m_seg m)) -> sg_uvac seg = q_uvac (segment_quant h (m_seg m)) ->
  i16 (sg_ydc seg) -> i16 (sg_yac seg) -> i16 (sg_y2dc seg) -> i16 (sg_y2ac seg) -> i16 (sg_uvdc seg) -> i16 (sg_uvac seg) ->
  coef_bound (sg_ydc seg) (sg_yac seg) <= dct_bound -> coef_bound (sg_y2dc seg) (sg_y2ac seg) <= wht_bound ->
  coef_bound (sg_uvdc seg) (sg_uvac seg) <= dct_bound ->
  sg_uvdc seg <> 0 ->
  0 <= p -> nth_error (v_partitions v) (Z.to_nat p) = Some d -> 0 <= mbx -> nth_error (v_top v) (Z.to_nat mbx) = Some t ->
  length (mb_complexity t) = 9%nat -> length (mb_complexity (v_left v)) = 9%nat -> cx_ok (mb_complexity t) -> cx_ok (mb_complexity (v_left v)) ->
  linked data s d ->
  let '(res, top', left', s') := parse_residuals h m (ctx_of (mb_complexity t)) (ctx_of (mb_complexity (v_left v))) s in
  (exists d', read_residual_data v mb mbx p
     = Ok (concat (map (fun b => fst (Spec.VP8.idct b)) (r_y res ++ r_u res ++ r_v res)), r_nonzero res,
           rst v p mbx t d' (c_dc top' :: c_y top' ++ c_u top' ++ c_v top') (c_dc left' :: c_y left' ++ c_u left' ++ c_v left')) /\
     linked data s' d')
  \/ (read_residual_data v mb mbx p = Err EBitStreamError /\ exists sx, over_read data sx).
Proof.
  intros data Hbytes Hlen h m v mb t mbx p d s seg Hluma Hi4 Hskip Htab Htp Hsid Hseg Ey1 Ey2 Ew1 Ew2 Eu1 Eu2 I1 I2 J1 J2 I3 I4 B1 BW B2 N2
         Hp Hd Hmbx Ht Ltc Llc Ctc Clc Hlink.
  set (tc := mb_complexity t) in *. set (lc := mb_complexity (v_left v)) in *.
  assert (Hpl : 0 <= p < Z.of_nat (length (v_partitions v))) by (pose proof (nth_error_lt_len _ _ _ Hd); lia).
  assert (Hml : 0 <= mbx < Z.of_nat (length (v_top v))) by (pose proof (nth_error_lt_len _ _ _ Ht); lia).
  destruct (plane_facts (h_probas h) v Htab Htp 0 ltac:(lia)) as [HP0 HN0].
  destruct (plane_facts (h_probas h) v Htab Htp 1 ltac:(lia)) as [HP1 HN1].
  destruct (plane_facts (h_probas h) v Htab Htp 2 ltac:(lia)) as [HP2 HN2].
  change (Z.to_nat 0) with 0%nat in *. change (Z.to_nat 1) with 1%nat in *. change (Z.to_nat 2) with 2%nat in *.
  assert (Ht0 : 0 <= nth 0 tc 0 <= 1) by (unfold cx_ok in Ctc; rewrite Forall_forall in Ctc; apply Ctc; apply nth_In; lia).
  assert (Hl0 : 0 <= nth 0 lc 0 <= 1) by (unfold cx_ok in Clc; rewrite Forall_forall in Clc; apply Clc; apply nth_In; lia).
  set (cx := nth 0 tc 0 + nth 0 lc 0).
  (* Spec *)
  unfold parse_residuals. rewrite Hskip, Hi4. cbv iota zeta. cbn [c_y c_u c_v c_dc ctx_of].
  rewrite <- Ey1, <- Ey2, <- Ew1, <- Ew2, <- Eu1, <- Eu2. unfold nthZ. change (Z.to_nat 0) with 0%nat. change (Z.to_nat 1) with 1%nat. change (Z.to_nat 2) with 2%nat.
  fold cx.
  (* Model: the Y2 block *)
  unfold read_residual_data. rewrite Hluma. cbv iota. change (1 =? 1) with true. cbv iota.
  unfold top_complexity, left_complexity. rewrite (idx_of_nth_error _ _ t Hmbx Ht). cbn [bind]. fold tc lc.
  rewrite (idx_ok tc 0 0) by lia. rewrite (idx_ok lc 0 0) by lia. change (Z.to_nat 0) with 0%nat. cbn [bind].
  unfold u8_add_c. fold cx. destruct (Z.leb_spec cx 255) as [_|Hbad]; [|unfold cx in Hbad; lia]. cbn [bind].
  rewrite (idx_of_nth_error _ _ seg Hsid Hseg). cbn [bind]. change (repeat 0 16) with zero16.
  destruct (linked_wsafe data Hlen s d Hlink) as [Hw Hbig].
  rewrite (read_coefficients_model v (h_probas h) p 1 cx (sg_y2dc seg) (sg_y2ac seg) d zero16 eq_refl Htab Htp ltac:(lia) ltac:(unfold cx; lia) J1 J2 Hp Hd Hw Hbig).
  change (Z.to_nat 1) with 1%nat. change (1 =? 0) with false. cbv iota.
  pose proof (spec_get_coeffs _ _ HP1 HN1 (sg_y2dc seg) (sg_y2ac seg) 0 ltac:(lia) cx s ltac:(unfold cx; lia)) as EC.
  pose proof (transfer_run data Hbytes Hlen (G_blk (nth 1 (v_token_probs v) []) (sg_y2dc seg) (sg_y2ac seg) 0 cx zero16) s d Hlink
                (G_blk_probs _ _ HP1 HN1 (sg_y2dc seg) (sg_y2ac seg) 0 ltac:(lia) cx zero16 ltac:(unfold cx; lia))) as T. cbv zeta in T.
  assert (Bw : let r := fst (interpG bdbit (G_blk (nth 1 (v_token_probs v) []) (sg_y2dc seg) (sg_y2ac seg) 0 cx zero16) s) in
               length (snd r) = 16%nat /\ Forall (within (coef_bound (sg_y2dc seg) (sg_y2ac seg))) (snd r)).
  { unfold G_blk. change (Z.to_nat (16 - 0)) with 16%nat.
    apply (G_coeff_bound bdbit _ _ (sg_y2dc seg) (sg_y2ac seg) HP1 HN1 16 0 cx false false zero16 s ltac:(lia) ltac:(lia) ltac:(unfold cx; lia) eq_refl).
    repeat constructor; unfold within, coef_bound; lia. }
  cbv zeta in Bw.
  destruct (get_coeffs (nth 1 (h_probas h) []) cx (sg_y2dc seg) (sg_y2ac seg) 0 s) as [[[b nz] okc] s1].
  destruct (interpG bdbit (G_blk (nth 1 (v_token_probs v) []) (sg_y2dc seg) (sg_y2ac seg) 0 cx zero16) s) as [hbS s1'].
  destruct (interpG cold_pure (G_blk (nth 1 (v_token_probs v) []) (sg_y2dc seg) (sg_y2ac seg) 0 cx zero16) d) as [hbM d1].
  cbn [fst snd] in EC, T, Bw. destruct EC as (Es1 & Eb & Eh & Hnz). subst s1' b. destruct Bw as [Lblk Fblk].
  destruct (iwht (snd hbS)) as [w' ok2] eqn:Ew.
  destruct T as (W1 & C1 & [(Eeof & L1 & Ev) | (Eeof & Ov)]); rewrite Eeof;
    [|kill_spec; right; cbn [bind]; split; [reflexivity | exists s1; exact Ov]].
  subst hbM. cbn [bind].
  rewrite (rst_parts_only v p mbx t d d1 Hd Ht). fold tc lc.
  rewrite rst_set_left_cx by lia. cbn [bind]. rewrite rst_set_top_cx by lia. cbn [bind].
  set (x := ArithDec.b2z (fst hbS)). assert (Hx : 0 <= x <= 1) by apply b2z_01.
  assert (Fw : Forall (within wht_bound) (snd hbS)) by (eapply Forall_impl; [|exact Fblk]; intros a Ha; unfold within in *; lia).
  rewrite (iwht_block_ok (snd hbS) Lblk Fw). cbn [bind].
  assert (Ew' : w' = app16 iwht4x4 [] (snd hbS)) by (rewrite (iwht_spec _ Lblk), Ew; reflexivity). subst w'.
  assert (HB0 : 0 <= coef_bound (sg_y2dc seg) (sg_y2ac seg)) by (unfold coef_bound; lia).
  destruct (iwht_bound _ (snd hbS) HB0 Lblk Fblk) as [Fws Lws].
  set (w := app16 iwht4x4 [] (snd hbS)) in *.
  destruct (scatter_ok w Lws) as (Sc1 & Sc2 & Sc3 & Sc4). rewrite Sc1. cbn [bind].
  rewrite rst_seg, (idx_of_nth_error _ _ seg Hsid Hseg). cbn [bind].
  set (tcx := updZ tc 0 x). set (lcx := updZ lc 0 x).
  assert (Ltcx : length tcx = 9%nat) by (unfold tcx; rewrite updZ_length; exact Ltc).
  assert (Llcx : length lcx = 9%nat) by (unfold lcx; rewrite updZ_length; exact Llc).
  assert (Ctcx : cx_ok tcx) by (apply cx_ok_upd0; assumption).
  assert (Clcx : cx_ok lcx) by (apply cx_ok_upd0; assumption).
  set (blocks1 := concat (map dcblk w) ++ repeat 0 128) in *.
  assert (Lb1 : length blocks1 = 384%nat).
  { unfold blocks1. rewrite app_length, repeat_length. clear - Lws. do 16 (destruct w as [|? w]; [discriminate|]). destruct w; [|discriminate]. reflexivity. }
  destruct (linked_wsafe data Hlen s1 d1 L1) as [Hw1 Hbig1].
  assert (Fwd : Forall (within dct_bound) w) by (eapply Forall_impl; [|exact Fws]; intros a Ha; unfold within, wht_bound, dct_bound in *; lia).
  pose proof (residual_rows_ok (h_probas h) v Htab Htp p mbx 0 (sg_ydc seg) (sg_yac seg) dct_bound t ltac:(lia) I1 I2 ltac:(lia) Hpl Hml
                4 0 4 0 1 d1 tcx lcx blocks1 false Hw1 Hbig1 Eeof ltac:(lia) ltac:(lia) Ctcx Clcx ltac:(rewrite Lb1; cbn; lia)) as EM.
  rewrite Sc2 in EM.
  specialize (EM ltac:(unfold chunk4; repeat constructor; apply dcblk_bounded; try (unfold dct_bound; lia); try apply Forall_firstn; try apply Forall_skipn; exact Fwd)).
  change (Z.of_nat 0) with 0 in EM. change (Z.of_nat 4) with 4 in EM. change (Z.of_nat 1) with 1 in EM. change (0 =? 0) with true in EM. cbv iota in EM.
  change (Z.to_nat 0) with 0%nat in EM. cbn [Nat.add Nat.mul] in EM.
  unfold tcx at 2 in EM. unfold lcx at 2 in EM. rewrite !upd0_skipn in EM by lia. 
  rewrite EM. clear EM.
  (* stage Y: transfer, then the Spec's rows with the DC values put in afterwards *)
  set (tops := firstn 4 (skipn 1 tc)) in *. set (lefts := firstn 4 (skipn 1 lc)) in *.
  assert (Ltops : length tops = 4%nat) by (unfold tops; rewrite firstn_length, skipn_length; lia).
  assert (Llefts : length lefts = 4%nat) by (unfold lefts; rewrite firstn_length, skipn_length; lia).
  assert (Cty : cx_ok tops) by (apply cx_ok_firstn, cx_ok_skipn; exact Ctc).
  assert (Cly : cx_ok lefts) by (apply cx_ok_firstn, cx_ok_skipn; exact Clc).
  pose proof (transfer_run data Hbytes Hlen (G_rows (nth 0 (v_token_probs v) []) (sg_ydc seg) (sg_yac seg) 1 tops lefts (map (map dcblk) (chunk4 w))) s1 d1 L1
                (G_rows_probs_any _ _ HP0 HN0 (sg_ydc seg) (sg_yac seg) 1 lefts (or_intror eq_refl) tops _)) as T2. cbv zeta in T2.
  pose proof (G_rows_dc bdbit _ _ (sg_ydc seg) (sg_yac seg) lefts HP0 HN0 tops (chunk4 w) s1 Cty Cly ltac:(rewrite Llefts; reflexivity)
                ltac:(rewrite Ltops; exact Sc4)) as EDC.
  rewrite Sc3 in EDC. rewrite EDC in T2. clear EDC.
  pose proof (spec_blocks_rows _ _ HP0 HN0 (sg_ydc seg) (sg_yac seg) 1 (or_intror eq_refl) lefts tops s1 [] [] true Cty Cly) as ES.
  pose proof (G_rows_inv _ _ HP0 HN0 (sg_ydc seg) (sg_yac seg) 1 (or_intror eq_refl) bdbit dct_bound lefts tops s1 Cty Cly ltac:(unfold dct_bound; lia) B1) as Inv.
  cbv zeta in Inv.
  rewrite (blocks_rows_true _ _ _ _ _ _ s1 (okc && ok2)).
  destruct (blocks_rows (nth 0 (h_probas h) []) (sg_ydc seg) (sg_yac seg) 1 tops lefts s1 [] [] true) as [[[[yb ty] ly] ok1] s2].
  destruct (interpG bdbit (G_rows (nth 0 (v_token_probs v) []) (sg_ydc seg) (sg_yac seg) 1 tops lefts (repeat (repeat zero16 (length tops)) (length lefts))) s1) as [rS s2'].
  destruct (interpG cold_pure (G_rows (nth 0 (v_token_probs v) []) (sg_ydc seg) (sg_yac seg) 1 tops lefts (map (map dcblk) (chunk4 w))) d1) as [rM d2].
  cbn [fst snd rev_append app] in ES, Inv, T2. destruct ES as (Es & Et & El & bs & Ebl & Frel). subst s2' ty ly yb.
  destruct Inv as (LyB & Lty & Lly & Cty' & Cly' & Hbnd & Hunr). rewrite Ltops, Llefts in LyB. rewrite Ltops in Lty. rewrite Llefts in Lly. cbn [Nat.mul Nat.add] in LyB.
  destruct T2 as (W2 & C2 & [(Eeof2 & L2 & Ev2) | (Eeof2 & Ov2)]); rewrite Eeof2;
    [|kill_spec; right; cbn [bind]; split; [reflexivity | exists s2; exact Ov2]].
  subst rM. cbn [fst snd bind].
  destruct (set_dcs_rel (fst (fst rS)) bs w dct_bound Frel ltac:(rewrite LyB; exact Lws) Hunr Hbnd Fwd ltac:(lia)) as [Hb1 Hb2].
  rewrite Hb1, Hb2. clear Hb1 Hb2.
  pose proof (Forall2_len _ _ _ Frel) as Lbs. rewrite LyB in Lbs.
  set (ty := snd (fst rS)) in *. set (ly := snd rS) in *.
  set (ybd := set_dcs bs w) in *.
  assert (Lybd : length ybd = 16%nat) by (unfold ybd; rewrite set_dcs_length; symmetry; exact Lbs).
  (* stage U *)
  set (tc1 := firstn 1 tcx ++ ty ++ skipn 5 tcx) in *. set (lc1 := firstn 1 lcx ++ ly ++ skipn 5 lcx) in *.
  set (cY := concat (map (fun b0 : list Z => fst (idct b0)) (map fst ybd))) in *.
  assert (LcY : length cY = 256%nat) by (unfold cY; rewrite concat_idct_length', map_length, Lybd; reflexivity).
  set (blocksY := firstn 0 blocks1 ++ cY ++ skipn 256 blocks1).
  assert (Sk1 : skipn 256 blocks1 = repeat 0 128).
  { unfold blocks1. replace 256%nat with (length (concat (map dcblk w))) by (rewrite dcblks_length, Lws; reflexivity).
    rewrite skipn_app, skipn_all, Nat.sub_diag. reflexivity. }
  assert (Ltc1 : length tc1 = 9%nat) by (unfold tc1; rewrite !app_length, firstn_length, skipn_length; lia).
  assert (Llc1 : length lc1 = 9%nat) by (unfold lc1; rewrite !app_length, firstn_length, skipn_length; lia).
  assert (Ctc1 : cx_ok tc1) by (unfold tc1; apply cx_ok_splice; [apply cx_ok_firstn | | apply cx_ok_skipn]; assumption).
  assert (Clc1 : cx_ok lc1) by (unfold lc1; apply cx_ok_splice; [apply cx_ok_firstn | | apply cx_ok_skipn]; assumption).
  assert (EbY : blocksY = cY ++ repeat 0 128) by (unfold blocksY; rewrite Sk1; reflexivity).
  assert (LbY : length blocksY = 384%nat) by (rewrite EbY, app_length, repeat_length, LcY; reflexivity).
  assert (SkY : skipn 256 blocksY = repeat 0 128).
  { rewrite EbY. rewrite <- LcY at 1. rewrite skipn_app, skipn_all, Nat.sub_diag. reflexivity. }
  pose proof (residual_rows_refines data Hbytes Hlen (h_probas h) v p mbx 2 (sg_uvdc seg) (sg_uvac seg) t 0 2 16 5 2 d2 tc1 lc1 blocksY
                (false || existsb block_nonzero ybd) s2 Htab Htp ltac:(lia) I3 I4 B2 Hpl Hml ltac:(lia) ltac:(lia) Ctc1 Clc1 ltac:(rewrite LbY; cbn; lia)) as SU.
  cbn [Nat.add Nat.mul] in SU. specialize (SU ltac:(rewrite SkY; vm_compute; reflexivity) L2). cbv zeta in SU.
  change (Z.of_nat 0) with 0 in SU. change (Z.of_nat 2) with 2 in SU. change (Z.of_nat 16) with 16 in SU. change (Z.of_nat 5) with 5 in SU.
  change (2 =? 0) with false in SU. cbv iota in SU. unfold nthZ in SU. change (Z.to_nat 2) with 2%nat in SU.
  unfold tc1 at 1 in SU. unfold lc1 at 1 in SU. rewrite (nine_ctx_u tcx ty Ltcx Lty), (nine_ctx_u lcx ly Llcx Lly) in SU.
  unfold tcx at 1 in SU. unfold lcx at 1 in SU. rewrite !upd0_skipn in SU by lia.
  assert (Ctu : cx_ok (firstn 2 (skipn 5 tc))) by (apply cx_ok_firstn, cx_ok_skipn; exact Ctc).
  assert (Clu : cx_ok (firstn 2 (skipn 5 lc))) by (apply cx_ok_firstn, cx_ok_skipn; exact Clc).
  pose proof (blocks_rows_shape _ _ (sg_uvdc seg) (sg_uvac seg) 0 (firstn 2 (skipn 5 tc)) (firstn 2 (skipn 5 lc)) s2 HP2 HN2 ltac:(lia) Ctu Clu) as ShU.
  pose proof (residual_flag_is_block_nonzero (nth 2 (h_probas h) []) (sg_uvdc seg) (sg_uvac seg) 0 (firstn 2 (skipn 5 tc)) (firstn 2 (skipn 5 lc)) s2
                ltac:(right; split; [reflexivity | exact N2])) as FU.
  rewrite (blocks_rows_true _ _ _ _ _ _ s2 _).
  destruct (blocks_rows (nth 2 (h_probas h) []) (sg_uvdc seg) (sg_uvac seg) 0 (firstn 2 (skipn 5 tc)) (firstn 2 (skipn 5 lc)) s2 [] [] true)
    as [[[[ub tu] lu] ok2t] s3].
  rewrite !firstn_length, !skipn_length, Ltc, Llc in ShU. cbn [Nat.sub Nat.min Nat.mul Nat.add] in ShU. destruct ShU as (LuB & Ltu & Llu & Ctu' & Clu').
  destruct SU as [[d3 [EU LU]] | [EU OU]]; [|kill_spec; right; rewrite EU; cbn [bind]; split; [reflexivity | exists s3; exact OU]].
  rewrite EU. cbn [bind]. clear EU.
  (* stage V *)
  set (tc2 := firstn 5 tc1 ++ tu ++ skipn 7 tc1) in *. set (lc2 := firstn 5 lc1 ++ lu ++ skipn 7 lc1) in *.
  set (cU := concat (map (fun b0 : list Z * Z => fst (idct (fst b0))) ub)) in *.
  assert (LcU : length cU = 64%nat) by (unfold cU; rewrite concat_idct_length, LuB; reflexivity).
  set (blocksU := firstn 256 blocksY ++ cU ++ skipn 320 blocksY) in *.
  assert (Ltc2 : length tc2 = 9%nat) by (unfold tc2; rewrite !app_length, firstn_length, skipn_length; lia).
  assert (Llc2 : length lc2 = 9%nat) by (unfold lc2; rewrite !app_length, firstn_length, skipn_length; lia).
  assert (Ctc2 : cx_ok tc2) by (unfold tc2; apply cx_ok_splice; [apply cx_ok_firstn | | apply cx_ok_skipn]; assumption).
  assert (Clc2 : cx_ok lc2) by (unfold lc2; apply cx_ok_splice; [apply cx_ok_firstn | | apply cx_ok_skipn]; assumption).
  assert (FnY : firstn 256 blocksY = cY).
  { rewrite EbY. rewrite <- LcY. rewrite firstn_app, firstn_all, Nat.sub_diag. change (firstn 0 (repeat 0 128)) with (@nil Z). apply app_nil_r. }
  assert (SkY2 : skipn 320 blocksY = repeat 0 64).
  { replace 320%nat with (256 + 64)%nat by reflexivity. rewrite <- skipn_skipn'. rewrite SkY. reflexivity. }
  assert (LbU : length blocksU = 384%nat) by (unfold blocksU; rewrite FnY, SkY2, !app_length, LcY, LcU, repeat_length; reflexivity).
  assert (SkU : skipn 320 blocksU = repeat 0 64).
  { unfold blocksU. rewrite FnY, SkY2. rewrite app_assoc. replace 320%nat with (length (cY ++ cU)) by (rewrite app_length, LcY, LcU; reflexivity).
    rewrite skipn_app, skipn_all, Nat.sub_diag. reflexivity. }
  pose proof (residual_rows_refines data Hbytes Hlen (h_probas h) v p mbx 2 (sg_uvdc seg) (sg_uvac seg) t 0 2 20 7 2 d3 tc2 lc2 blocksU
                (false || existsb block_nonzero ybd || existsb (spec_flag 0) ub) s3 Htab Htp ltac:(lia) I3 I4 B2 Hpl Hml ltac:(lia) ltac:(lia) Ctc2 Clc2
                ltac:(rewrite LbU; cbn; lia)) as SV.
  cbn [Nat.add Nat.mul] in SV. specialize (SV ltac:(rewrite SkU; vm_compute; reflexivity) LU). cbv zeta in SV.
  change (Z.of_nat 0) with 0 in SV. change (Z.of_nat 2) with 2 in SV. change (Z.of_nat 20) with 20 in SV. change (Z.of_nat 7) with 7 in SV.
  change (2 =? 0) with false in SV. cbv iota in SV. unfold nthZ in SV. change (Z.to_nat 2) with 2%nat in SV.
  unfold tc2 at 1 in SV. unfold lc2 at 1 in SV. unfold tc1 at 1 2 in SV. unfold lc1 at 1 2 in SV.
  rewrite (nine_ctx_v tcx ty tu Ltcx Lty Ltu), (nine_ctx_v lcx ly lu Llcx Lly Llu) in SV.
  unfold tcx at 1 in SV. unfold lcx at 1 in SV. rewrite !upd0_skipn in SV by lia.
  assert (Ctv : cx_ok (firstn 2 (skipn 7 tc))) by (apply cx_ok_firstn, cx_ok_skipn; exact Ctc).
  assert (Clv : cx_ok (firstn 2 (skipn 7 lc))) by (apply cx_ok_firstn, cx_ok_skipn; exact Clc).
  pose proof (blocks_rows_shape _ _ (sg_uvdc seg) (sg_uvac seg) 0 (firstn 2 (skipn 7 tc)) (firstn 2 (skipn 7 lc)) s3 HP2 HN2 ltac:(lia) Ctv Clv) as ShV.
  pose proof (residual_flag_is_block_nonzero (nth 2 (h_probas h) []) (sg_uvdc seg) (sg_uvac seg) 0 (firstn 2 (skipn 7 tc)) (firstn 2 (skipn 7 lc)) s3
                ltac:(right; split; [reflexivity | exact N2])) as FV.
  rewrite (blocks_rows_true _ _ _ _ _ _ s3 _).
  destruct (blocks_rows (nth 2 (h_probas h) []) (sg_uvdc seg) (sg_uvac seg) 0 (firstn 2 (skipn 7 tc)) (firstn 2 (skipn 7 lc)) s3 [] [] true)
    as [[[[vb tv] lv] ok3t] s4].
  rewrite !firstn_length, !skipn_length, Ltc, Llc in ShV. cbn [Nat.sub Nat.min Nat.mul Nat.add] in ShV. destruct ShV as (LvB & Ltv & Llv & Ctv' & Clv').
  destruct SV as [[d4 [EV LV]] | [EV OV]]; [|right; rewrite EV; cbn [bind]; split; [reflexivity | exists s4; exact OV]].
  rewrite EV. cbn [bind]. clear EV.
  left. exists d4. split; [|exact LV]. cbn [r_y r_u r_v r_nonzero c_y c_u c_v c_dc].
  (* contexts *)
  unfold tc2, lc2, tc1, lc1. rewrite (nine_split tcx (nth 0 tcx 0) ty tu tv Ltcx Lty Ltu Ltv), (nine_split lcx (nth 0 lcx 0) ly lu lv Llcx Lly Llu Llv).
  destruct (upd0_head tc x ltac:(lia)) as [_ Ex1]. destruct (upd0_head lc x ltac:(lia)) as [_ Ex2]. fold tcx in Ex1. fold lcx in Ex2. rewrite Ex1, Ex2.
  assert (Exx : x = VP8.b2z (0 <? nz)) by (unfold x; rewrite Eh; reflexivity). rewrite <- Exx.
  (* blocks *)
  set (cV := concat (map (fun b0 : list Z * Z => fst (idct (fst b0))) vb)).
  assert (LcV : length cV = 64%nat) by (unfold cV; rewrite concat_idct_length, LvB; reflexivity).
  assert (Eblocks : firstn 320 blocksU ++ cV ++ skipn 384 blocksU
                    = concat (map (fun b => fst (idct b)) (map fst ybd ++ map fst ub ++ map fst vb))).
  { rewrite !map_app, !concat_app. rewrite (map_map fst _ ub), (map_map fst _ vb). fold cY cU cV.
    rewrite (skipn_all2 blocksU) by (rewrite LbU; lia). rewrite app_nil_r.
    unfold blocksU. rewrite FnY, SkY2. rewrite app_assoc.
    replace 320%nat with (length (cY ++ cU)) by (rewrite app_length, LcY, LcU; reflexivity).
    rewrite firstn_app, firstn_all, Nat.sub_diag. cbn [firstn]. rewrite app_nil_r. rewrite <- app_assoc. reflexivity. }
  rewrite Eblocks. rewrite FU, FV. cbn [orb]. reflexivity.
Qed.
