(* C10, container layer over an abstract reader: facts about the reader primitives of Model.ContainerIO.
   - takez / dropz are firstn / skipn;
   - std's read_exact loop ([read_loop]) without a fault: delivers exactly the next [want] bytes or UnexpectedEof,
     whatever the schedule, making at least one call; with a fault at call k: identical when k is outside the calls
     it makes, [IErr XFault] after exactly k + 1 calls otherwise;
   - every iteration of the loop is one `read` call ([read_exact_unfold]). *)
From Coq Require Import ZArith List Bool Lia.
From WebP Require Import Lib.Res Model.Container Model.ContainerIO.
Import ListNotations.
Open Scope Z_scope.

Module IO := WebP.Model.ContainerIO.
Module MC := WebP.Model.Container.

(* ---------------------------------------------------------------------------------------------- *)
(* takez / dropz                                                                                    *)
(* ---------------------------------------------------------------------------------------------- *)
Lemma takez_firstn n : forall l, takez n l = firstn (Z.to_nat n) l.
Proof.
  intros l. revert n. induction l as [|x t IH]; intros n; cbn [takez].
  - rewrite firstn_nil. reflexivity.
  - destruct (n <=? 0) eqn:E.
    + apply Z.leb_le in E. replace (Z.to_nat n) with O by lia. reflexivity.
    + apply Z.leb_gt in E. replace (Z.to_nat n) with (S (Z.to_nat (n - 1))) by lia. cbn [firstn]. rewrite IH. reflexivity.
Qed.

Lemma dropz_skipn n : forall l, dropz n l = skipn (Z.to_nat n) l.
Proof.
  intros l. revert n. induction l as [|x t IH]; intros n; cbn [dropz].
  - rewrite skipn_nil. reflexivity.
  - destruct (n <=? 0) eqn:E.
    + apply Z.leb_le in E. replace (Z.to_nat n) with O by lia. reflexivity.
    + apply Z.leb_gt in E. replace (Z.to_nat n) with (S (Z.to_nat (n - 1))) by lia. cbn [skipn]. rewrite IH. reflexivity.
Qed.

Lemma len_nonneg {A} (l : list A) : 0 <= MC.len l.
Proof. unfold MC.len. lia. Qed.

Lemma len_takez n l : MC.len (takez n l) = Z.min (Z.max 0 n) (MC.len l).
Proof. rewrite takez_firstn. unfold MC.len. rewrite firstn_length. lia. Qed.

Lemma len_dropz n l : MC.len (dropz n l) = Z.max 0 (MC.len l - Z.max 0 n).
Proof. rewrite dropz_skipn. unfold MC.len. rewrite skipn_length. lia. Qed.

Lemma length_dropz n l : 0 < n -> l <> [] -> (length (dropz n l) < length l)%nat.
Proof. intros Hn Hl. rewrite dropz_skipn, skipn_length. destruct l; [congruence|]. cbn [length]. lia. Qed.

Lemma takez_split a b l : 0 <= a -> 0 <= b -> takez (a + b) l = takez a l ++ takez b (dropz a l).
Proof.
  intros Ha Hb. rewrite !takez_firstn, dropz_skipn. rewrite Z2Nat.inj_add by lia.
  revert l. induction (Z.to_nat a) as [|n IH]; intros l; [reflexivity|].
  destruct l as [|x t]; [rewrite !firstn_nil; reflexivity|]. cbn [Nat.add firstn skipn app]. f_equal. apply IH.
Qed.

Lemma takez_all n l : MC.len l <= n -> takez n l = l.
Proof. intros H. rewrite takez_firstn. apply firstn_all2. unfold MC.len in H. lia. Qed.

Lemma takez_nil_inv n l : 0 < n -> takez n l = [] -> l = [].
Proof. intros Hn H. destruct l as [|x t]; [reflexivity|]. cbn [takez] in H. destruct (n <=? 0) eqn:E; [apply Z.leb_le in E; lia | discriminate]. Qed.

(* ---------------------------------------------------------------------------------------------- *)
(* is_fail                                                                                          *)
(* ---------------------------------------------------------------------------------------------- *)
(* the fault can no longer fire: none is armed, or its index is behind the call counter *)
Definition quiet_at (f : option Z) (c : Z) : Prop := match f with None => True | Some k => k < c end.

Lemma is_fail_quiet f c c' : quiet_at f c -> c <= c' -> is_fail f c' = false.
Proof. destruct f as [k|]; cbn; [|reflexivity]. intros H1 H2. apply Z.eqb_neq. lia. Qed.

Lemma quiet_at_mono f c c' : quiet_at f c -> c <= c' -> quiet_at f c'.
Proof. destruct f; cbn; [lia | trivial]. Qed.

(* ---------------------------------------------------------------------------------------------- *)
(* read_loop                                                                                        *)
(* ---------------------------------------------------------------------------------------------- *)
Lemma rev_tr_rev l : rev_tr l = rev l.
Proof. unfold rev_tr. rewrite rev_append_rev. apply app_nil_r. Qed.

Lemma window_pos sched c : 1 <= window sched c.
Proof. unfold window. lia. Qed.

(* once the fault index is behind the counter the loop is the fault-free loop *)
Lemma read_loop_quiet sched f fk fk' : forall fuel rem want calls racc nread, quiet_at f calls ->
  read_loop fuel sched f fk rem want calls racc nread = read_loop fuel sched None fk' rem want calls racc nread.
Proof.
  induction fuel as [|fuel IH]; intros rem want calls racc nread Hq; cbn [read_loop]; [reflexivity|].
  destruct (want <=? 0); [reflexivity|].
  rewrite (is_fail_quiet f calls calls Hq) by lia. cbn [is_fail].
  destruct (takez (Z.min (window sched calls) want) rem) as [|g gs]; [reflexivity|].
  apply IH. apply (quiet_at_mono f calls); [exact Hq | lia].
Qed.

(* without a fault: the next [want] bytes or UnexpectedEof, for every schedule; at least one call *)
Lemma read_loop_nofault sched fk : forall fuel rem want calls racc nread,
  (length rem < fuel)%nat -> 0 < want ->
  exists c', calls < c' /\
    read_loop fuel sched None fk rem want calls racc nread =
      if want <=? MC.len rem then (IOk (rev racc ++ takez want rem), c', nread + want)
      else (IErr XEof, c', nread + MC.len rem).
Proof.
  induction fuel as [|fuel IH]; intros rem want calls racc nread Hf Hw; [lia|].
  cbn [read_loop]. destruct (want <=? 0) eqn:E0; [apply Z.leb_le in E0; lia|]. cbn [is_fail].
  pose proof (window_pos sched calls) as Hwin.
  set (m := Z.min (window sched calls) want). assert (Hm : 1 <= m <= want) by (subst m; lia).
  destruct (takez m rem) as [|g gs] eqn:Eg.
  - apply takez_nil_inv in Eg; [|lia]. subst rem. exists (calls + 1). split; [lia|].
    change (MC.len (@nil Z)) with 0. destruct (want <=? 0) eqn:E1; [discriminate|]. rewrite Z.add_0_r. reflexivity.
  - rewrite <- Eg.
    assert (Hrem : rem <> []) by (intros ->; cbn in Eg; discriminate).
    assert (Hn : MC.len (takez m rem) = Z.min m (MC.len rem)) by (rewrite len_takez; lia).
    assert (Hn1 : 1 <= MC.len (takez m rem)).
    { rewrite Eg. unfold MC.len. cbn [length]. lia. }
    remember (MC.len (takez m rem)) as n eqn:En. clearbody m.
    destruct (Z.eq_dec (want - n) 0) as [Ez|Ez].
    + (* the buffer is full *)
      exists (calls + 1). split; [lia|].
      destruct fuel as [|fuel']; cbn [read_loop]; (replace (want - n <=? 0) with true by (symmetry; apply Z.leb_le; lia)); rewrite rev_tr_rev.
      * assert (want <= MC.len rem) by lia. replace (want <=? MC.len rem) with true by (symmetry; apply Z.leb_le; lia).
        rewrite rev_append_rev, rev_app_distr, rev_involutive. replace m with want by lia.
        repeat first [reflexivity | lia | f_equal].
      * assert (want <= MC.len rem) by lia. replace (want <=? MC.len rem) with true by (symmetry; apply Z.leb_le; lia).
        rewrite rev_append_rev, rev_app_distr, rev_involutive. replace m with want by lia.
        repeat first [reflexivity | lia | f_equal].
    + assert (Hlt : (length (dropz n rem) < fuel)%nat).
      { pose proof (length_dropz n rem ltac:(lia) Hrem). lia. }
      destruct (IH (dropz n rem) (want - n) (calls + 1) (rev_append (takez m rem) racc) (nread + n) Hlt ltac:(lia))
        as (c' & Hc' & Eq).
      exists c'. split; [lia|]. rewrite Eq. rewrite len_dropz.
      destruct (want <=? MC.len rem) eqn:E2.
      * apply Z.leb_le in E2. assert (Hnm : n = m) by lia. replace (want - n <=? Z.max 0 (MC.len rem - Z.max 0 n)) with true by (symmetry; apply Z.leb_le; lia).
        rewrite rev_append_rev, rev_app_distr, rev_involutive, <- app_assoc.
        replace want with (m + (want - m)) at 3 by lia. rewrite takez_split by lia. rewrite Hnm.
        repeat first [reflexivity | lia | f_equal].
      * apply Z.leb_gt in E2. replace (want - n <=? Z.max 0 (MC.len rem - Z.max 0 n)) with false by (symmetry; apply Z.leb_gt; lia).
        f_equal. lia.
Qed.

(* the outcome of the loop is one of these four *)
Lemma read_loop_results sched f eof : forall fuel rem want calls racc nread,
  match fst (fst (read_loop fuel sched f (fault_err eof) rem want calls racc nread)) with
  | IOk _ | IErr XEof | IErr XFault | IOutOfFuel => True
  | _ => False
  end.
Proof.
  induction fuel as [|fuel IH]; intros; cbn [read_loop]; destruct (want <=? 0); cbn; trivial.
  destruct (is_fail f calls); [destruct eof; cbn; trivial|].
  destruct (takez (Z.min (window sched calls) want) rem); cbn; trivial. apply IH.
Qed.

(* one injected fault at call k, against the fault-free run *)
Lemma read_loop_fault sched k fk : forall fuel rem want calls racc nread,
  let r0 := read_loop fuel sched None fk rem want calls racc nread in
  let r1 := read_loop fuel sched (Some k) fk rem want calls racc nread in
  calls <= snd (fst r0)
  /\ ((k < calls \/ snd (fst r0) <= k) -> r1 = r0)
  /\ (calls <= k < snd (fst r0) -> fst (fst r1) = IErr fk /\ snd (fst r1) = k + 1).
Proof.
  induction fuel as [|fuel IH]; intros rem want calls racc nread; cbn zeta; cbn [read_loop].
  - destruct (want <=? 0); cbn [fst snd]; (split; [lia|]); (split; [reflexivity | lia]).
  - destruct (want <=? 0); [cbn [fst snd]; (split; [lia|]); (split; [reflexivity | lia])|].
    cbn [is_fail].
    destruct (takez (Z.min (window sched calls) want) rem) as [|g gs] eqn:Eg.
    + destruct (k =? calls) eqn:Ek; cbn [fst snd].
      * apply Z.eqb_eq in Ek. split; [lia|]. split; [lia|]. intros _. split; [reflexivity | lia].
      * apply Z.eqb_neq in Ek. split; [lia|]. split; [reflexivity | lia].
    + rewrite <- Eg.
      set (n := MC.len (takez (Z.min (window sched calls) want) rem)).
      specialize (IH (dropz n rem) (want - n) (calls + 1)
                     (rev_append (takez (Z.min (window sched calls) want) rem) racc) (nread + n)).
      cbn zeta in IH. destruct IH as (Hc & Hsame & Hfault).
      destruct (k =? calls) eqn:Ek.
      * apply Z.eqb_eq in Ek. cbn [fst snd]. split; [lia|]. split; [lia|]. intros _. split; [reflexivity | lia].
      * apply Z.eqb_neq in Ek. split; [lia|]. split.
        -- intros H. apply Hsame. lia.
        -- intros H. apply Hfault. lia.
Qed.

(* ---------------------------------------------------------------------------------------------- *)
(* states                                                                                           *)
(* ---------------------------------------------------------------------------------------------- *)
Definition set_fail (s : rstate) (f : option Z) : rstate :=
  {| r_data := r_data s; r_pos := r_pos s; r_calls := r_calls s; r_sched := r_sched s; r_fail_at := f;
     r_fail_eof := r_fail_eof s |}.

Definition quiet (s : rstate) : Prop := quiet_at (r_fail_at s) (r_calls s).

Lemma set_fail_same s : set_fail s (r_fail_at s) = s.
Proof. destruct s; reflexivity. Qed.

Lemma remaining_set_fail s f : remaining (set_fail s f) = remaining s.
Proof. reflexivity. Qed.

(* ---------------------------------------------------------------------------------------------- *)
(* every iteration of read_exact is one `read` call                                                 *)
(* ---------------------------------------------------------------------------------------------- *)
(* read_exact n = one read_call for n bytes; a 0-byte answer is UnexpectedEof; otherwise read_exact of the rest
   (statement about results and the reader state; fuel never runs out, see read_exact_nofault below) *)
Lemma read_loop_fuel_irrelevant sched f fk : forall fuel1 fuel2 rem want calls racc nread,
  (length rem < fuel1)%nat -> (length rem < fuel2)%nat ->
  read_loop fuel1 sched f fk rem want calls racc nread = read_loop fuel2 sched f fk rem want calls racc nread.
Proof.
  induction fuel1 as [|fuel1 IH]; intros fuel2 rem want calls racc nread H1 H2; [lia|].
  destruct fuel2 as [|fuel2]; [lia|]. cbn [read_loop].
  destruct (want <=? 0) eqn:E0; [reflexivity|]. apply Z.leb_gt in E0.
  destruct (is_fail f calls); [reflexivity|].
  pose proof (window_pos sched calls) as Hwin.
  destruct (takez (Z.min (window sched calls) want) rem) as [|g gs] eqn:Eg; [reflexivity|].
  rewrite <- Eg.
  assert (Hrem : rem <> []) by (intros ->; cbn in Eg; discriminate).
  assert (Hn1 : 1 <= MC.len (takez (Z.min (window sched calls) want) rem)).
  { rewrite Eg. unfold MC.len. cbn [length]. lia. }
  pose proof (length_dropz (MC.len (takez (Z.min (window sched calls) want) rem)) rem ltac:(lia) Hrem).
  apply IH; lia.
Qed.

Definition map_ires {A B} (f : A -> B) (r : ires A) : ires B :=
  match r with IOk a => IOk (f a) | IErr e => IErr e | IPanic p => IPanic p | IOutOfFuel => IOutOfFuel end.

Lemma read_loop_acc sched f fk : forall fuel rem want calls racc nread,
  read_loop fuel sched f fk rem want calls racc nread =
    (map_ires (fun l => rev racc ++ l) (fst (fst (read_loop fuel sched f fk rem want calls [] 0))),
     snd (fst (read_loop fuel sched f fk rem want calls [] 0)),
     nread + snd (read_loop fuel sched f fk rem want calls [] 0)).
Proof.
  induction fuel as [|fuel IH]; intros rem want calls racc nread; cbn [read_loop]; rewrite !rev_tr_rev.
  - destruct (want <=? 0); cbn [fst snd map_ires rev app]; rewrite ?app_nil_r, Z.add_0_r; reflexivity.
  - destruct (want <=? 0); [cbn [fst snd map_ires rev app]; rewrite ?app_nil_r, Z.add_0_r; reflexivity|].
    destruct (is_fail f calls); [cbn [fst snd map_ires]; rewrite Z.add_0_r; reflexivity|].
    destruct (takez (Z.min (window sched calls) want) rem) as [|g gs] eqn:Eg; [cbn [fst snd map_ires]; rewrite Z.add_0_r; reflexivity|].
    rewrite <- Eg. set (got := takez (Z.min (window sched calls) want) rem).
    rewrite (IH _ _ _ (rev_append got racc) (nread + MC.len got)).
    rewrite (IH _ _ _ (rev_append got []) (0 + MC.len got)).
    cbn [fst snd].
    destruct (read_loop fuel sched f fk (dropz (MC.len got) rem) (want - MC.len got) (calls + 1) [] 0) as [[r c] nr].
    cbn [fst snd]. f_equal; [f_equal|lia].
    destruct r; cbn [map_ires]; try reflexivity.
    rewrite !rev_append_rev, rev_app_distr, app_nil_r, !rev_involutive, app_assoc. reflexivity.
Qed.

Lemma dropz_add a b l : 0 <= a -> 0 <= b -> dropz (a + b) l = dropz b (dropz a l).
Proof.
  intros Ha Hb. rewrite !dropz_skipn. rewrite Z2Nat.inj_add by lia.
  revert l. induction (Z.to_nat a) as [|n IH]; intros l; [reflexivity|].
  destruct l as [|x t]; [rewrite !skipn_nil; reflexivity|]. cbn [Nat.add skipn]. apply IH.
Qed.

(* read_exact is the loop "one read call; 0 bytes = UnexpectedEof; otherwise go on with the rest of the buffer" *)
Lemma read_exact_unfold n s : 0 < n -> 0 <= r_pos s ->
  read_exact n s =
    match read_call n s with
    | (IOk [], s1) => (IErr XEof, s1)
    | (IOk got, s1) => (map_ires (fun l => got ++ l) (fst (read_exact (n - MC.len got) s1)), snd (read_exact (n - MC.len got) s1))
    | (IErr e, s1) => (IErr e, s1)
    | (IPanic p, s1) => (IPanic p, s1)
    | (IOutOfFuel, s1) => (IOutOfFuel, s1)
    end.
Proof.
  intros Hn Hp. unfold read_exact at 1. unfold read_call. cbn [read_loop].
  replace (n <=? 0) with false by (symmetry; apply Z.leb_gt; lia).
  destruct (is_fail (r_fail_at s) (r_calls s)); [rewrite Z.add_0_r; reflexivity|].
  pose proof (window_pos (r_sched s) (r_calls s)) as Hwin.
  destruct (takez (Z.min (window (r_sched s) (r_calls s)) n) (remaining s)) as [|g gs] eqn:Eg.
  - change (MC.len (@nil Z)) with 0. reflexivity.
  - rewrite <- Eg. set (got := takez (Z.min (window (r_sched s) (r_calls s)) n) (remaining s)) in *.
    assert (Hrem : remaining s <> []) by (intros E; unfold got in Eg; rewrite E in Eg; cbn in Eg; discriminate).
    assert (Hg1 : 1 <= MC.len got) by (rewrite Eg; unfold MC.len; cbn [length]; lia).
    rewrite read_loop_acc. rewrite rev_append_rev, app_nil_r, rev_involutive.
    unfold read_exact.
    set (s1 := set_pos_calls s (r_pos s + MC.len got) (r_calls s + 1)).
    assert (Hr1 : remaining s1 = dropz (MC.len got) (remaining s)).
    { unfold remaining, s1. cbn [set_pos_calls r_pos r_data]. apply dropz_add; lia. }
    rewrite Hr1. cbn [s1 set_pos_calls r_sched r_fail_at r_fail_eof r_calls r_pos r_data].
    pose proof (length_dropz (MC.len got) (remaining s) ltac:(lia) Hrem) as Hlen.
    rewrite (read_loop_fuel_irrelevant _ _ _ (length (remaining s)) (S (length (dropz (MC.len got) (remaining s))))) by lia.
    destruct (read_loop (S (length (dropz (MC.len got) (remaining s)))) (r_sched s) (r_fail_at s) (fault_err (r_fail_eof s))
                (dropz (MC.len got) (remaining s)) (n - MC.len got) (r_calls s + 1) [] 0) as [[r c] nr].
    cbn [fst snd]. rewrite Eg. f_equal. unfold set_pos_calls. cbn [r_data r_pos r_calls r_sched r_fail_at r_fail_eof]. f_equal. lia.
Qed.
