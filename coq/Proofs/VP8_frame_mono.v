(* VP8 frame-level parsing, part 3: every parsing function of Spec.VP8 only moves its reader forward (the shift count never decreases),
   so a reference run that has read beyond its partition at some point has done so at its end (over_read is monotone). *)
From Coq Require Import ZArith Lia List Bool.
From WebP Require Import Lib.Res Lib.ZBits Spec.BoolDec Spec.VP8Tables Spec.VP8 Model.ArithDec Proofs.VP8_parse_base Proofs.VP8_frame_base.
Import ListNotations.
Open Scope Z_scope.

Definition le_st (s s' : bstate) : Prop := shift_count s <= shift_count s'.
Lemma le_st_refl s : le_st s s. Proof. unfold le_st. lia. Qed.
Lemma le_st_trans a b c : le_st a b -> le_st b c -> le_st a c. Proof. unfold le_st. lia. Qed.

Lemma over_read_le data s s' : le_st s s' -> over_read data s -> over_read data s'.
Proof. apply over_read_shift. Qed.

Lemma read_bool_mono p s : le_st s (snd (BoolDec.read_bool p s)).
Proof. rewrite bd_read_bool_bit. cbn [snd]. apply bdbit_mono. Qed.

Lemma treed_read_aux_mono fuel t p : forall i s, le_st s (snd (treed_read_aux fuel t p i s)).
Proof.
  induction fuel as [|f IH]; intros i s; cbn [treed_read_aux]; [apply le_st_refl|].
  pose proof (read_bool_mono (nth (Z.to_nat (Z.shiftr i 1)) p 0) s) as H. destruct (BoolDec.read_bool _ s) as [b s1]. cbn [snd] in H.
  destruct (0 <? nth (Z.to_nat (i + b)) t 0); [eapply le_st_trans; [exact H | apply IH] | exact H].
Qed.
Lemma treed_read_mono t p i s : le_st s (snd (treed_read t p i s)).
Proof. apply treed_read_aux_mono. Qed.

(* ---- modes ---- *)
Lemma read_bmode_row_mono top : forall left s acc, le_st s (snd (read_bmode_row top left s acc)).
Proof.
  induction top as [|t tl IH]; intros left s acc; cbn [read_bmode_row]; [apply le_st_refl|].
  unfold read_bmode. pose proof (treed_read_mono bmode_tree (nthZ (nthZ kBModesProba t []) left []) 0 s) as H.
  destruct (treed_read bmode_tree _ 0 s) as [m s1]. cbn [snd] in H. eapply le_st_trans; [exact H | apply IH].
Qed.
Lemma read_bmode_rows_mono lefts : forall top s modes nl, le_st s (snd (read_bmode_rows top lefts s modes nl)).
Proof.
  induction lefts as [|l tl IH]; intros top s modes nl; cbn [read_bmode_rows]; [apply le_st_refl|].
  pose proof (read_bmode_row_mono top l s []) as H. destruct (read_bmode_row top l s []) as [[row last] s1]. cbn [snd] in H.
  eapply le_st_trans; [exact H | apply IH].
Qed.
Lemma parse_mb_mode_mono h top4 left4 s : le_st s (snd (parse_mb_mode h top4 left4 s)).
Proof.
  unfold parse_mb_mode.
  assert (H1 : le_st s (snd (if h_update_map h then treed_read segment_tree (h_seg_probs h) 0 s else (0, s))))
    by (destruct (h_update_map h); [apply treed_read_mono | apply le_st_refl]).
  destruct (if h_update_map h then _ else _) as [seg s1]. cbn [snd] in H1.
  assert (H2 : le_st s1 (snd (if h_use_skip h then BoolDec.read_bool (h_skip_p h) s1 else (0, s1))))
    by (destruct (h_use_skip h); [apply read_bool_mono | apply le_st_refl]).
  destruct (if h_use_skip h then _ else _) as [skip s2]. cbn [snd] in H2.
  pose proof (treed_read_mono kf_ymode_tree kf_ymode_prob 0 s2) as H3. destruct (treed_read kf_ymode_tree kf_ymode_prob 0 s2) as [ym s3]. cbn [snd] in H3.
  assert (H4 : le_st s3 (snd (if ym =? B_PRED then let '(modes, t, l, s) := read_bmode_rows top4 left4 s3 [] [] in (true, modes, t, l, s)
                               else (false, [], [ym; ym; ym; ym], [ym; ym; ym; ym], s3)))).
  { destruct (ym =? B_PRED); [|apply le_st_refl]. pose proof (read_bmode_rows_mono left4 top4 s3 [] []) as H.
    destruct (read_bmode_rows top4 left4 s3 [] []) as [[[modes t] l] s4]. exact H. }
  destruct (if ym =? B_PRED then _ else _) as [[[[i4 im] t4] l4] s4]. cbn [snd] in H4.
  pose proof (treed_read_mono uv_mode_tree uv_mode_prob 0 s4) as H5. destruct (treed_read uv_mode_tree uv_mode_prob 0 s4) as [uv s5]. cbn [snd] in *.
  unfold le_st in *. lia.
Qed.
Lemma parse_mode_row_mono h n : forall tops left4 s acc nt, le_st s (snd (parse_mode_row h n tops left4 s acc nt)).
Proof.
  induction n as [|n IH]; intros tops left4 s acc nt; cbn [parse_mode_row]; [apply le_st_refl|].
  destruct (split_at 4 tops) as [top4 rest]. pose proof (parse_mb_mode_mono h top4 left4 s) as H.
  destruct (parse_mb_mode h top4 left4 s) as [[[m t'] l'] s1]. cbn [snd] in H. eapply le_st_trans; [exact H | apply IH].
Qed.
Lemma parse_mode_rows_mono h rows : forall tops s acc, le_st s (snd (parse_mode_rows h rows tops s acc)).
Proof.
  induction rows as [|k IH]; intros tops s acc; cbn [parse_mode_rows]; [apply le_st_refl|].
  pose proof (parse_mode_row_mono h (Z.to_nat (mb_w h)) tops [0; 0; 0; 0] s [] []) as H.
  destruct (parse_mode_row h (Z.to_nat (mb_w h)) tops [0; 0; 0; 0] s [] []) as [[row tops'] s1]. cbn [snd] in H.
  eapply le_st_trans; [exact H | apply IH].
Qed.

(* ---- tokens ---- *)
Lemma read_extra_mono probs : forall acc s, le_st s (snd (read_extra probs acc s)).
Proof.
  induction probs as [|p tl IH]; intros acc s; cbn [read_extra]; [apply le_st_refl|].
  pose proof (read_bool_mono p s) as H. destruct (BoolDec.read_bool p s) as [b s1]. cbn [snd] in H. eapply le_st_trans; [exact H | apply IH].
Qed.
Lemma token_magnitude_mono tok s : le_st s (snd (token_magnitude tok s)).
Proof.
  unfold token_magnitude. destruct (tok <=? 4); [apply le_st_refl|].
  pose proof (read_extra_mono (nthZ cat_probs (tok - 5) []) 0 s) as H. destruct (read_extra _ 0 s) as [e s1]. exact H.
Qed.
Lemma get_coeffs_loop_mono fuel bands dc ac : forall n ctx az acc ok s, le_st s (snd (get_coeffs_loop fuel bands dc ac n ctx az acc ok s)).
Proof.
  induction fuel as [|f IH]; intros n ctx az acc ok s; cbn [get_coeffs_loop]; [apply le_st_refl|].
  destruct (16 <=? n); [apply le_st_refl|].
  pose proof (treed_read_mono coeff_tree (nthZ (nthZ bands (nthZ kBands n 0) []) ctx []) (if az then 2 else 0) s) as H.
  destruct (treed_read coeff_tree _ _ s) as [tok s1]. cbn [snd] in H.
  destruct (tok =? DCT_EOB); [exact H|]. destruct (tok =? 0); [eapply le_st_trans; [exact H | apply IH]|].
  pose proof (token_magnitude_mono tok s1) as H2. destruct (token_magnitude tok s1) as [v s2]. cbn [snd] in H2.
  pose proof (read_bool_mono 128 s2) as H3. destruct (BoolDec.read_bool 128 s2) as [sg s3]. cbn [snd] in H3.
  eapply le_st_trans; [|apply IH]. unfold le_st in *. lia.
Qed.
Lemma get_coeffs_mono bands ctx dc ac first s : le_st s (snd (get_coeffs bands ctx dc ac first s)).
Proof.
  unfold get_coeffs. pose proof (get_coeffs_loop_mono 17 bands dc ac first ctx false (if first =? 1 then [0] else []) true s) as H.
  destruct (get_coeffs_loop 17 bands dc ac first ctx false _ true s) as [[[racc nz] ok] s']. exact H.
Qed.
Lemma blocks_row_mono bands dc ac first tops : forall l s blocks nt ok, le_st s (snd (blocks_row bands dc ac first tops l s blocks nt ok)).
Proof.
  induction tops as [|t tl IH]; intros l s blocks nt ok; cbn [blocks_row]; [apply le_st_refl|].
  pose proof (get_coeffs_mono bands (l + t) dc ac first s) as H. destruct (get_coeffs bands (l + t) dc ac first s) as [[[b nz] ok1] s1]. cbn [snd] in H.
  eapply le_st_trans; [exact H | apply IH].
Qed.
Lemma blocks_rows_mono bands dc ac first lefts : forall tops s blocks nl ok, le_st s (snd (blocks_rows bands dc ac first tops lefts s blocks nl ok)).
Proof.
  induction lefts as [|l tl IH]; intros tops s blocks nl ok; cbn [blocks_rows]; [apply le_st_refl|].
  pose proof (blocks_row_mono bands dc ac first tops l s blocks [] ok) as H.
  destruct (blocks_row bands dc ac first tops l s blocks [] ok) as [[[[bl tops'] l'] ok1] s1]. cbn [snd] in H.
  eapply le_st_trans; [exact H | apply IH].
Qed.
Lemma parse_residuals_mono h m top left s : le_st s (snd (parse_residuals h m top left s)).
Proof.
  unfold parse_residuals. destruct (h_use_skip h && m_skip m); [apply le_st_refl|]. cbv zeta.
  assert (H0 : le_st s (snd (if m_i4 m then (None, None, true, s)
     else let '(b, nz, ok1, s1) := get_coeffs (nthZ (h_probas h) 1 []) (c_dc top + c_dc left) (q_y2dc (segment_quant h (m_seg m))) (q_y2ac (segment_quant h (m_seg m))) 0 s in
          let '(w, ok2) := iwht b in (Some w, Some (b2z (0 <? nz)), ok1 && ok2, s1)))).
  { destruct (m_i4 m); [apply le_st_refl|]. pose proof (get_coeffs_mono (nthZ (h_probas h) 1 []) (c_dc top + c_dc left) (q_y2dc (segment_quant h (m_seg m))) (q_y2ac (segment_quant h (m_seg m))) 0 s) as H.
    destruct (get_coeffs _ _ _ _ 0 s) as [[[b nz] ok1] s1]. destruct (iwht b) as [w ok2]. exact H. }
  destruct (if m_i4 m then _ else _) as [[[dcs dc_ctx] ok0] s0]. cbn [snd] in H0.
  match goal with |- context [blocks_rows ?a ?b ?c ?d ?e ?f s0 [] [] ok0] => pose proof (blocks_rows_mono a b c d f e s0 [] [] ok0) as H1; destruct (blocks_rows a b c d e f s0 [] [] ok0) as [[[[yb ty] ly] ok1] s1] end.
  cbn [snd] in H1.
  match goal with |- context [blocks_rows ?a ?b ?c ?d ?e ?f s1 [] [] ok1] => pose proof (blocks_rows_mono a b c d f e s1 [] [] ok1) as H2; destruct (blocks_rows a b c d e f s1 [] [] ok1) as [[[[ub tu] lu] ok2] s2] end.
  cbn [snd] in H2.
  match goal with |- context [blocks_rows ?a ?b ?c ?d ?e ?f s2 [] [] ok2] => pose proof (blocks_rows_mono a b c d f e s2 [] [] ok2) as H3; destruct (blocks_rows a b c d e f s2 [] [] ok2) as [[[[vb tv] lv] ok3] s3] end.
  cbn [snd] in *. unfold le_st in *. lia.
Qed.
Lemma parse_token_row_mono h modes : forall tops left s acc nt, le_st s (snd (parse_token_row h modes tops left s acc nt)).
Proof.
  induction modes as [|m mtl IH]; intros tops left s acc nt; cbn [parse_token_row]; [apply le_st_refl|].
  destruct tops as [|t ttl]; [apply le_st_refl|].
  pose proof (parse_residuals_mono h m t left s) as H. destruct (parse_residuals h m t left s) as [[[r t'] l'] s1]. cbn [snd] in H.
  eapply le_st_trans; [exact H | apply IH].
Qed.
