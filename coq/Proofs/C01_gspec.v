(* C01: the top of the specification (transform headers, image-stream, header, decode) with its two image readers
   -- entropy_coded_image and spatially_coded_image -- as PARAMETERS.  Instantiated with the specification's own
   readers it is the specification (g_*_spec); instantiated with readers that accept less (`sub`) it accepts less
   and returns the same result (g_*_sub).  Used to state the frame theorems against the strict specification
   (a simple prefix code may not name a symbol outside its alphabet), which is what the crate implements. *)
From Coq Require Import ZArith NArith List Bool Lia.
From WebP Require Import Lib.Arr.
From WebP Require Spec.VP8L.
From WebP Require Import Proofs.C04_bits.   (* Module V := Spec.VP8L *)
Import ListNotations.
Open Scope Z_scope.

Notation "'olet' p ':=' e 'in' f" := (match e with Some p => f | None => None end)
  (at level 200, p pattern, e at level 200, f at level 200, right associativity).

Definition image_reader := Z -> Z -> V.stream -> option (arr * V.stream).

Section GSpec.
  Variables (ECI SCI : image_reader).

  Definition g_read_transform (type w h : Z) (s : V.stream) : option (V.transform * Z * V.stream) :=
    match type with
    | 0 | 1 =>
      olet (b, s) := V.read_bits 3 s in
      let size_bits := b + 2 in
      olet (data, s) := ECI (V.DIV_ROUND_UP w (2 ^ size_bits)) (V.DIV_ROUND_UP h (2 ^ size_bits)) s in
      Some (if type =? 0 then V.Predictor w size_bits data else V.ColorTransform w size_bits data, w, s)
    | 2 => Some (V.SubtractGreen, w, s)
    | _ =>
      olet (n, s) := V.read_bits 8 s in
      let color_table_size := n + 1 in
      olet (deltas, s) := ECI color_table_size 1 s in
      let color_table := of_list (V.undo_deltas 0 (V.pixel_list deltas)) in
      Some (V.ColorIndexing w color_table_size color_table, V.DIV_ROUND_UP w (2 ^ V.width_bits_of color_table_size), s)
    end.

  Fixpoint g_read_transforms (n : nat) (seen : list Z) (w h : Z) (s : V.stream) : option (list V.transform * Z * V.stream) :=
    olet (present, s) := V.read_bits 1 s in
    if present =? 0 then Some ([], w, s) else
    match n with
    | O => None
    | S k =>
      olet (type, s) := V.read_bits 2 s in
      if existsb (Z.eqb type) seen then None else
      olet (t, w1, s) := g_read_transform type w h s in
      olet (ts, w2, s) := g_read_transforms k (type :: seen) w1 h s in
      Some (t :: ts, w2, s)
    end.

  Definition g_image_stream (w h : Z) (s : V.stream) : option (list Z) :=
    olet (ts, coded_width, s) := g_read_transforms 4 [] w h s in
    olet (img, _) := SCI coded_width h s in
    let img := fold_left (V.inverse_transform h) (rev ts) img in
    Some (V.pixel_list img).

  Definition g_decode (data : list Z) : option (Z * Z * list Z) :=
    olet (w, h, s) := V.read_header (V.Stream [] data) in
    olet px := g_image_stream w h s in
    Some (w, h, px).

  Definition g_decode_implicit (w h : Z) (data : list Z) : option (list Z) :=
    if (1 <=? w) && (w <=? 16384) && (1 <=? h) && (h <=? 16384) then g_image_stream w h (V.Stream [] data) else None.

  Definition g_decode_rgba (data : list Z) : option (Z * Z * list Z) :=
    olet (w, h, px) := g_decode data in Some (w, h, V.rgba_bytes px).

  Definition g_decode_implicit_rgba (w h : Z) (data : list Z) : option (list Z) :=
    olet px := g_decode_implicit w h data in Some (V.rgba_bytes px).
End GSpec.

(* ------------------------------------------------------------------------------------------------ *)
(** * with the specification's readers: the specification *)
Lemma g_read_transform_spec type w h s :
  g_read_transform V.entropy_coded_image type w h s = V.read_transform type w h s.
Proof. reflexivity. Qed.

Lemma g_read_transforms_spec : forall n seen w h s,
  g_read_transforms V.entropy_coded_image n seen w h s = V.read_transforms n seen w h s.
Proof.
  induction n as [|n IH]; intros seen w h s; cbn [g_read_transforms V.read_transforms]; [reflexivity|].
  destruct (V.read_bits 1 s) as [[p s1]|]; [|reflexivity]. destruct (p =? 0); [reflexivity|].
  destruct (V.read_bits 2 s1) as [[ty s2]|]; [|reflexivity]. destruct (existsb (Z.eqb ty) seen); [reflexivity|].
  rewrite g_read_transform_spec. destruct (V.read_transform ty w h s2) as [[[t w1] s3]|]; [|reflexivity]. rewrite IH. reflexivity.
Qed.

Lemma g_image_stream_spec w h s : g_image_stream V.entropy_coded_image V.spatially_coded_image w h s = V.image_stream w h s.
Proof. unfold g_image_stream, V.image_stream. rewrite g_read_transforms_spec. reflexivity. Qed.

Lemma g_decode_spec data : g_decode V.entropy_coded_image V.spatially_coded_image data = V.decode data.
Proof.
  unfold g_decode, V.decode. destruct (V.read_header (V.Stream [] data)) as [[[w h] s]|]; [|reflexivity].
  rewrite g_image_stream_spec. reflexivity.
Qed.

Lemma g_decode_rgba_spec data : g_decode_rgba V.entropy_coded_image V.spatially_coded_image data = V.decode_rgba data.
Proof. unfold g_decode_rgba, V.decode_rgba. rewrite g_decode_spec. reflexivity. Qed.

Lemma g_decode_implicit_spec w h data :
  g_decode_implicit V.entropy_coded_image V.spatially_coded_image w h data = V.decode_implicit w h data.
Proof. unfold g_decode_implicit, V.decode_implicit. rewrite g_image_stream_spec. reflexivity. Qed.

Lemma g_decode_implicit_rgba_spec w h data :
  g_decode_implicit_rgba V.entropy_coded_image V.spatially_coded_image w h data = V.decode_implicit_rgba w h data.
Proof. unfold g_decode_implicit_rgba, V.decode_implicit_rgba. rewrite g_decode_implicit_spec. reflexivity. Qed.

(* ------------------------------------------------------------------------------------------------ *)
(** * readers that accept less *)
Definition sub (R1 R2 : image_reader) : Prop := forall w h s x, R1 w h s = Some x -> R2 w h s = Some x.

Section Sub.
  Variables (E1 S1 E2 S2 : image_reader).
  Hypothesis HE : sub E1 E2.
  Hypothesis HS : sub S1 S2.

  Lemma g_read_transform_sub type w h s x : g_read_transform E1 type w h s = Some x -> g_read_transform E2 type w h s = Some x.
  Proof.
    assert (Leaf3 : forall K,
      (olet (b, s1) := V.read_bits 3 s in let size_bits := b + 2 in
       olet (data, s2) := E1 (V.DIV_ROUND_UP w (2 ^ size_bits)) (V.DIV_ROUND_UP h (2 ^ size_bits)) s1 in K b data s2) = Some x ->
      (olet (b, s1) := V.read_bits 3 s in let size_bits := b + 2 in
       olet (data, s2) := E2 (V.DIV_ROUND_UP w (2 ^ size_bits)) (V.DIV_ROUND_UP h (2 ^ size_bits)) s1 in K b data s2) = Some x).
    { intros K. destruct (V.read_bits 3 s) as [[b s1]|]; [|discriminate]. cbv zeta.
      destruct (E1 _ _ s1) as [[d s2]|] eqn:E; [|discriminate]. rewrite (HE _ _ _ _ E). auto. }
    assert (Leaf8 : forall K,
      (olet (n, s1) := V.read_bits 8 s in let cts := n + 1 in olet (deltas, s2) := E1 cts 1 s1 in K n deltas s2) = Some x ->
      (olet (n, s1) := V.read_bits 8 s in let cts := n + 1 in olet (deltas, s2) := E2 cts 1 s1 in K n deltas s2) = Some x).
    { intros K. destruct (V.read_bits 8 s) as [[n s1]|]; [|discriminate]. cbv zeta.
      destruct (E1 _ _ s1) as [[d s2]|] eqn:E; [|discriminate]. rewrite (HE _ _ _ _ E). auto. }
    unfold g_read_transform.
    destruct type as [|p|p]; [exact (Leaf3 _) | | exact (Leaf8 _)].
    destruct p as [q|q|]; [exact (Leaf8 _) | | exact (Leaf3 _)].
    destruct q as [r|r|]; [exact (Leaf8 _) | exact (Leaf8 _) | auto].
  Qed.

  Lemma g_read_transforms_sub : forall n seen w h s x,
    g_read_transforms E1 n seen w h s = Some x -> g_read_transforms E2 n seen w h s = Some x.
  Proof.
    induction n as [|n IH]; intros seen w h s x; cbn [g_read_transforms]; [auto|].
    destruct (V.read_bits 1 s) as [[p s1]|]; [|discriminate]. destruct (p =? 0); [auto|].
    destruct (V.read_bits 2 s1) as [[ty s2]|]; [|discriminate]. destruct (existsb (Z.eqb ty) seen); [discriminate|].
    destruct (g_read_transform E1 ty w h s2) as [[[t w1] s3]|] eqn:Et; [|discriminate]. rewrite (g_read_transform_sub _ _ _ _ _ Et).
    destruct (g_read_transforms E1 n (ty :: seen) w1 h s3) as [[[ts w2] s4]|] eqn:Er; [|discriminate]. rewrite (IH _ _ _ _ _ Er). auto.
  Qed.

  Lemma g_image_stream_sub w h s x : g_image_stream E1 S1 w h s = Some x -> g_image_stream E2 S2 w h s = Some x.
  Proof.
    unfold g_image_stream. destruct (g_read_transforms E1 4 [] w h s) as [[[ts cw] s1]|] eqn:Er; [|discriminate].
    rewrite (g_read_transforms_sub _ _ _ _ _ _ Er). destruct (S1 cw h s1) as [[img s2]|] eqn:Es; [|discriminate].
    rewrite (HS _ _ _ _ Es). auto.
  Qed.

  Lemma g_decode_sub data x : g_decode E1 S1 data = Some x -> g_decode E2 S2 data = Some x.
  Proof.
    unfold g_decode. destruct (V.read_header (V.Stream [] data)) as [[[w h] s]|]; [|discriminate].
    destruct (g_image_stream E1 S1 w h s) as [px|] eqn:E; [|discriminate]. rewrite (g_image_stream_sub _ _ _ _ E). auto.
  Qed.

  Lemma g_decode_rgba_sub data x : g_decode_rgba E1 S1 data = Some x -> g_decode_rgba E2 S2 data = Some x.
  Proof.
    unfold g_decode_rgba. destruct (g_decode E1 S1 data) as [[[w h] px]|] eqn:E; [|discriminate]. rewrite (g_decode_sub _ _ E). auto.
  Qed.

  Lemma g_decode_implicit_sub w h data x : g_decode_implicit E1 S1 w h data = Some x -> g_decode_implicit E2 S2 w h data = Some x.
  Proof. unfold g_decode_implicit. destruct (_ && _); [apply g_image_stream_sub | discriminate]. Qed.

  Lemma g_decode_implicit_rgba_sub w h data x :
    g_decode_implicit_rgba E1 S1 w h data = Some x -> g_decode_implicit_rgba E2 S2 w h data = Some x.
  Proof.
    unfold g_decode_implicit_rgba. destruct (g_decode_implicit E1 S1 w h data) as [px|] eqn:E; [|discriminate].
    rewrite (g_decode_implicit_sub _ _ _ _ E). auto.
  Qed.
End Sub.
