(* C03 for the VP8 key-frame decoder, part 4: Vp8Decoder::new + read_frame_header on EVERY byte string: Ok with a state that
   satisfies the loop invariant (VP8_safe_inv.vp8_inv) and whose reconstruction fields are within range (VP8_safe_defs.rhdr_ok),
   or Err (IoError for a short read, Vp8MagicInvalid, ColorSpaceInvalid, BitStreamError, NotEnoughInitData, UnsupportedFeature for
   an inter frame) -- never a panic: init_partitions (every declared size against what is left of the payload), the checked
   quantiser arithmetic, the 1056 token-probability updates, all header literals.  Built on the closed forms of
   VP8_frame_header (mid_model, rfh_tail_model: each stage = one request program on C15's pure reader) and on the value bounds
   that hold for every reader (VP8_frame_hdrthm.G_mid_bound, tail_tables). *)
From Coq Require Import ZArith Lia List Bool.
From WebP Require Import Lib.Res Gen.Kernels Gen.Tables Lib.ZBits Proofs.C15_num Proofs.C15_ideal Proofs.C15_model
  Proofs.C15_ops Proofs.C15_reqs Proofs.C15_main Spec.VP8Tables Model.ArithDec
  Model.Vp8Parse Model.Vp8Recon Proofs.VP8_arraykernels_aux Proofs.VP8_tables Proofs.VP8_quant Proofs.VP8_parse_base Proofs.VP8_parse_coeffs
  Proofs.VP8_parse_mbheader Proofs.VP8_parse_header Proofs.VP8_parse_residual Proofs.VP8_frame_base Proofs.VP8_frame_header
  Proofs.VP8_frame_hdrthm Proofs.VP8_frame_loop Proofs.VP8_frame_main Proofs.VP8_safe_inv Proofs.VP8_safe_defs.
From WebP Require Import Spec.VP8.
Import ListNotations.
Open Scope Z_scope.
Open Scope res_scope.

(* ---- ArithmeticDecoder::init on a buffer prepared as vp8.rs does: a live decoder, whatever the bytes ---- *)
Lemma init_live data : C15_model.len data < 2 ^ 63 ->
  exists d, init (chunks_of data) (Z.of_nat (length data)) = Ok d /\ part_live d.
Proof.
  intros Hlen. destruct (init_ok data Hlen) as [d0 [E0 M0]]. exists d0. split; [exact E0|].
  split; [apply (modinv_wsafe_R data ideal0 d0); [cbn; lia | exact M0]|]. split.
  - destruct (mi_chunks data ideal0 d0 M0) as [Hl _]. unfold big, nchunks. rewrite Hl. unfold C15_model.len in *.
    unfold u64_mod. change (2 ^ 63) with 9223372036854775808 in Hlen.
    assert (Z.of_nat (length data) / 4 <= Z.of_nat (length data)) by (apply Z.div_le_upper_bound; lia). lia.
  - unfold is_past_eof. pose proof (mi_fbr data ideal0 d0 M0) as H. apply Z.eqb_neq. change FINAL_BYTES_REMAINING_EOF with (-14). lia.
Qed.

Lemma read_exact_cases r n : 0 <= n ->
  read_exact r n = Err EIo \/ (n <= Z.of_nat (length r) /\ read_exact r n = Ok (firstn (Z.to_nat n) r, skipn (Z.to_nat n) r)).
Proof.
  intros Hn. unfold read_exact. destruct (Z.leb_spec n (Z.of_nat (length r))); [right; split; [assumption | reflexivity] | left; reflexivity].
Qed.

Lemma le24_range t : Forall byte t -> 0 <= le24 t < 16777216.
Proof.
  intros H. unfold le24. destruct t as [|a [|b [|c [|]]]]; try lia.
  inversion H as [|? ? Ha H1]; subst. inversion H1 as [|? ? Hb H2]; subst. inversion H2 as [|? ? Hc _]; subst. unfold byte in *. lia.
Qed.

(* ---- init_partitions ---- *)
Definition live_upto (parts : list Dec) (n : nat) : Prop := forall j, (j < n)%nat -> exists d, nth_error parts j = Some d /\ part_live d.

Lemma live_upto_upd parts i d : (i < length parts)%nat -> live_upto parts i -> part_live d -> live_upto (upd parts i d) (S i).
Proof.
  intros Hl H Hd j Hj. destruct (Nat.eq_dec j i) as [-> | Ne].
  - exists d. split; [apply nth_error_upd_same; exact Hl | exact Hd].
  - destruct (H j ltac:(lia)) as (dj & E & L). exists dj. split; [rewrite nth_error_upd_other by exact Ne; exact E | exact L].
Qed.

Lemma init_sized_safe k : forall i sizes r parts, Forall byte sizes -> C15_model.len r < 2 ^ 63 -> (i + k <= length parts)%nat ->
  live_upto parts i ->
  (exists e, init_sized_partitions k (Z.of_nat i) sizes r parts = Err e) \/
  exists r' parts', init_sized_partitions k (Z.of_nat i) sizes r parts = Ok (r', parts') /\ length parts' = length parts /\
                    C15_model.len r' < 2 ^ 63 /\ live_upto parts' (i + k).
Proof.
  induction k as [|k IH]; intros i sizes r parts Hs Hr Hl Hlive; cbn [init_sized_partitions].
  - right. exists r, parts. rewrite Nat.add_0_r. repeat split; assumption.
  - pose proof (le24_range (firstn 3 sizes) (Forall_firstn _ _ _ Hs)) as Hsz.
    destruct (read_exact_cases r (le24 (firstn 3 sizes)) ltac:(lia)) as [E | [Hle E]]; rewrite E; cbn [bind]; [left; eexists; reflexivity|].
    set (bytes := firstn (Z.to_nat (le24 (firstn 3 sizes))) r).
    assert (Lb : Z.of_nat (length bytes) = le24 (firstn 3 sizes)) by (unfold bytes; rewrite firstn_length; lia).
    destruct (init_live bytes ltac:(unfold C15_model.len in *; lia)) as (d & Ed & Hd). rewrite Lb in Ed. rewrite Ed. cbn [bind].
    rewrite set_idx_ok by lia. cbn [bind]. unfold updZ. rewrite Nat2Z.id.
    replace (Z.of_nat i + 1) with (Z.of_nat (S i)) by lia.
    destruct (IH (S i) (skipn 3 sizes) (skipn (Z.to_nat (le24 (firstn 3 sizes))) r) (upd parts i d) (Forall_skipn _ _ _ Hs)
                ltac:(unfold C15_model.len in *; rewrite skipn_length; lia) ltac:(rewrite upd_length; lia)
                (live_upto_upd parts i d ltac:(lia) Hlive Hd)) as [(e & E2) | (r' & parts' & E2 & L2 & R2 & V2)];
      rewrite E2; [left; eexists; reflexivity|].
    right. exists r', parts'. split; [reflexivity|]. split; [rewrite L2; apply upd_length|]. split; [exact R2|].
    replace (i + S k)%nat with (S i + k)%nat by lia. exact V2.
Qed.

Lemma init_partitions_safe v n : n = 1 \/ n = 2 \/ n = 4 \/ n = 8 -> length (v_partitions v) = 8%nat ->
  Forall byte (v_r v) -> C15_model.len (v_r v) < 2 ^ 63 ->
  (exists e, init_partitions v n = Err e) \/
  exists parts, init_partitions v n = Ok (set_partitions (set_r v []) parts) /\ length parts = 8%nat /\ live_upto parts (Z.to_nat n).
Proof.
  intros Hn L8 Hb Hlen. unfold init_partitions.
  assert (Hstep : (exists e, (if 1 <? n then let* '(sizes, r1) := read_exact (v_r v) (3 * n - 3) in
                               init_sized_partitions (Z.to_nat (n - 1)) 0 sizes r1 (v_partitions v) else Ok (v_r v, v_partitions v)) = Err e) \/
                  exists r parts, (if 1 <? n then let* '(sizes, r1) := read_exact (v_r v) (3 * n - 3) in
                               init_sized_partitions (Z.to_nat (n - 1)) 0 sizes r1 (v_partitions v) else Ok (v_r v, v_partitions v)) = Ok (r, parts) /\
                     length parts = 8%nat /\ C15_model.len r < 2 ^ 63 /\ live_upto parts (Z.to_nat (n - 1))).
  { destruct (Z.ltb_spec 1 n) as [Hgt | Hle].
    - destruct (read_exact_cases (v_r v) (3 * n - 3) ltac:(lia)) as [E | [Hle E]]; rewrite E; cbn [bind]; [left; eexists; reflexivity|].
      destruct (init_sized_safe (Z.to_nat (n - 1)) 0 (firstn (Z.to_nat (3 * n - 3)) (v_r v)) (skipn (Z.to_nat (3 * n - 3)) (v_r v)) (v_partitions v)
                  (Forall_firstn _ _ _ Hb) ltac:(unfold C15_model.len in *; rewrite skipn_length; lia) ltac:(lia)
                  ltac:(intros j Hj; lia)) as [(e & E2) | (r' & parts' & E2 & L2 & R2 & V2)].
      + left. exists e. exact E2.
      + right. exists r', parts'. split; [exact E2|]. split; [lia|]. split; [exact R2 | exact V2].
    - right. exists (v_r v), (v_partitions v). split; [reflexivity|]. split; [exact L8|]. split; [exact Hlen|].
      intros j Hj. lia. }
  destruct Hstep as [(e & E) | (r & parts & E & Lp & Lr & Hlive)]; rewrite E; cbn [bind]; [left; eexists; reflexivity|].
  destruct (init_live r Lr) as (d & Ed & Hd). rewrite Ed. cbn [bind].
  unfold usize_sub. destruct (Z.leb_spec 1 n); [|lia]. cbn [bind].
  rewrite set_idx_ok by lia. cbn [bind]. right.
  exists (updZ parts (n - 1) d). split; [reflexivity|]. split; [unfold updZ; rewrite upd_length; exact Lp|].
  replace (Z.to_nat n) with (S (Z.to_nat (n - 1))) by lia. unfold updZ. apply live_upto_upd; [lia | exact Hlive | exact Hd].
Qed.

(* ---- the dequantisation factors of every header are small ---- *)
Definition seg_all_ok (s : Segment) : Prop := seg_q_ok s /\ seg_level_ok s /\ lf63 (sg_loopfilter_level s).

Lemma quant_of_ok en q s : quant_ranges q -> seg_all_ok s -> seg_all_ok (quant_of en q s).
Proof.
  intros Hq (_ & Hl & Hf). destruct q as [[[[[yac a] b] c] d] e]. destruct Hq as (R0 & R1 & R2 & R3 & R4 & R5).
  destruct (segment_quantizers_reference yac a b c d e en (sg_delta_values s) (sg_quantizer_level s) R0 R1 R2 R3 R4 R5 Hl) as [E _].
  cbv zeta in E. unfold quant_of. rewrite E. cbn [nth].
  set (q := if en then if sg_delta_values s then sg_quantizer_level s + yac else sg_quantizer_level s else yac) in *.
  pose proof (dc_at (q + a) 127 ltac:(lia)) as H1. pose proof (ac_at q) as H2. pose proof (dc_at (q + b) 127 ltac:(lia)) as H3.
  pose proof (ac_at (q + c)) as H4. pose proof (dc_at (q + d) 117 ltac:(lia)) as H5. pose proof (ac_at (q + e)) as H6.
  set (x4 := nthZ kAcTable (clip 0 127 (q + c)) 0) in *.
  assert (H4' : 8 <= (if x4 * 155 / 100 <? 8 then 8 else x4 * 155 / 100) <= 440).
  { assert (6 <= x4 * 155 / 100 <= 440) by (pose proof (Z.div_mod (x4 * 155) 100 ltac:(lia)); pose proof (Z.mod_pos_bound (x4 * 155) 100 ltac:(lia)); lia).
    destruct (Z.ltb_spec (x4 * 155 / 100) 8); lia. }
  set (y2ac := if x4 * 155 / 100 <? 8 then 8 else x4 * 155 / 100) in *.
  split; [|split; [exact Hl | exact Hf]].
  unfold seg_q_ok, i16, coef_bound, dct_bound, wht_bound.
  cbn [sg_ydc sg_yac sg_y2dc sg_y2ac sg_uvdc sg_uvac]. clearbody y2ac. clear H4 x4 E. repeat split; lia.
Qed.

Lemma quant_upd_ok k : forall i segs en q, quant_ranges q -> Forall seg_all_ok segs -> Forall seg_all_ok (quant_upd k i segs en q).
Proof.
  induction k as [|k IH]; intros i segs en q Hq F; cbn [quant_upd]; [exact F|].
  apply IH; [exact Hq|]. apply Forall_upd; [exact F|]. apply quant_of_ok; [exact Hq|].
  destruct (Nat.lt_ge_cases i (length segs)) as [Hi | Hi].
  - rewrite Forall_forall in F. apply F. apply nth_In. exact Hi.
  - rewrite nth_overflow by lia. split; [exact seg_default_q_ok|]. unfold seg_level_ok, lf63, Segment_default. cbn. lia.
Qed.

Lemma segs_of_ok sg se : match sg with Some r => segu_ok r /\ se = true | None => se = false end -> Forall seg_all_ok (segs_of sg).
Proof.
  intros H.
  assert (D : Forall seg_all_ok (repeat Segment_default 4)).
  { apply Forall_forall. intros x Hx. apply repeat_spec in Hx. subst x.
    split; [exact seg_default_q_ok|]. unfold seg_level_ok, lf63, Segment_default. cbn. lia. }
  destruct sg as [[[um dat] pr]|]; [|exact D]. unfold segs_of. cbn [fst snd].
  destruct dat as [[[mode q] l]|]; [|exact D]. clear D.
  destruct H as [[(Lq & Fq & Ll & Fl) _] _]. cbn [fst snd] in *.
  do 5 (destruct q as [|? q]; try discriminate Lq). do 5 (destruct l as [|? l]; try discriminate Ll).
  inversion Fq as [|? ? Q0 Fq1]; subst. inversion Fq1 as [|? ? Q1 Fq2]; subst. inversion Fq2 as [|? ? Q2 Fq3]; subst. inversion Fq3 as [|? ? Q3 _]; subst.
  inversion Fl as [|? ? R0 Fl1]; subst. inversion Fl1 as [|? ? R1 Fl2]; subst. inversion Fl2 as [|? ? R2 Fl3]; subst. inversion Fl3 as [|? ? R3 _]; subst.
  cbn [segu_segments repeat map zip_with].
  repeat (apply Forall_cons; [split; [exact seg_default_q_ok | unfold seg_level_ok, lf63; cbn; lia]|]). constructor.
Qed.

(* ---- the state Vp8Decoder::new leaves, as far as the header stages read it ---- *)
Definition fresh (v : Vp8) (stn : list TreeNode) (tp : list (list (list (list TreeNode)))) : Prop :=
  v_segment v = repeat Segment_default 4 /\ v_segment_tree_nodes v = stn /\ v_ref_delta v = [0; 0; 0; 0] /\ v_mode_delta v = [0; 0; 0; 0] /\
  length (v_partitions v) = 8%nat /\ v_token_probs v = tp /\ Forall byte (v_r v) /\ C15_model.len (v_r v) < 2 ^ 63.

Definition hdr_post (v : Vp8) : Prop := vp8_inv v /\ rhdr_ok (rhdr_of_vp8 v).

Lemma pow2_lg lg : 0 <= lg < 4 -> 2 ^ lg = 1 \/ 2 ^ lg = 2 \/ 2 ^ lg = 4 \/ 2 ^ lg = 8.
Proof. intros H. assert (lg = 0 \/ lg = 1 \/ lg = 2 \/ lg = 3) as [-> | [-> | [-> | ->]]] by lia; cbn; lia. Qed.

Lemma init_top_ok width : 0 <= width -> Z.of_nat (length (init_top_macroblocks width)) = (width + 15) / 16 /\ Forall top_ok (init_top_macroblocks width).
Proof.
  intros Hw. unfold init_top_macroblocks. rewrite repeat_length.
  assert (0 <= (width + 15) / 16) by (apply Z.div_pos; lia). split; [lia|].
  apply Forall_forall. intros x Hx. apply repeat_spec in Hx. subst x. exact top0_ok.
Qed.

(* key frame: everything after the first partition has been cut out *)
Lemma rfh_key_safe v d stn tp :
  tree_nodes_from vp8_SEGMENT_ID_TREE [255; 255; 255] = Ok stn -> length stn = 3%nat -> token_nodes_of coeffs_proba0 = Ok tp ->
  fresh v stn tp -> wsafe d -> big d ->
  fi_keyframe (v_frame v) = true -> 0 <= fi_width (v_frame v) <= 16383 -> 0 <= fi_height (v_frame v) <= 16383 ->
  v_mbwidth v = (fi_width (v_frame v) + 15) / 16 -> v_mbheight v = (fi_height (v_frame v) + 15) / 16 ->
  v_top v = init_top_macroblocks (fi_width (v_frame v)) -> top_ok (v_left v) ->
  (exists e, rfh_mid v d true (rfh_K true) = Err e) \/ exists v', rfh_mid v d true (rfh_K true) = Ok v' /\ hdr_post v'.
Proof.
  intros Estn Lstn Etp (Fseg & Fstn & Frd & Fmd & Fparts & Ftp & Fbytes & Flen) Hw Hbig Hkey Hwid Hhei Hmw Hmh Htop Hleft.
  rewrite (mid_model v d (rfh_K true) Hw Hbig) by (rewrite ?Fseg, ?Fstn, ?Frd, ?Fmd; try reflexivity; exact Lstn).
  pose proof (G_mid_bound cold_pure d) as BM.
  destruct (run_facts G_mid d Hw Hbig G_mid_probs) as [W1 B1].
  destruct (interpG cold_pure G_mid d) as [oM d1]. cbn [fst snd] in *.
  destruct oM as [[cs pt] [[se sg] [[[[ft fl] sh] lf] lg]]]. cbn [fst snd].
  destruct (negb (cs =? 0)); [left; eexists; reflexivity|].
  destruct (is_past_eof d1); [left; eexists; reflexivity|].
  destruct BM as (Bpt & Bsg & Bfl & Bsh & Blf & Blg). cbn [lg_of2 lg_of3 snd].
  set (vM := mid_state v (cs, pt, (se, sg, (ft, fl, sh, lf, lg))) d1).
  pose proof (mid_state_fields v cs pt se sg ft fl sh lf lg d1) as FM. cbv zeta in FM. fold vM in FM.
  destruct FM as (FMb & FMr & FMframe & FMw & FMh & FMtop & FMleft & FMse & FMum & FMseg & FMstn & FMrd & FMmd & FMnp & FMparts & FMtp & FMpsf & FMpi).
  pose proof (pow2_lg lg Blg) as Hnp.
  unfold rfh_K. match goal with |- context [init_partitions ?x _] => change x with vM end.
  destruct (init_partitions_safe vM (2 ^ lg) Hnp ltac:(rewrite FMparts; exact Fparts) ltac:(rewrite FMr; exact Fbytes) ltac:(rewrite FMr; exact Flen))
    as [(e & E) | (parts & E & Lparts & Hlive)]; rewrite E; cbn [bind]; [left; eexists; reflexivity|]. clear E.
  set (vP := set_partitions (set_r vM []) parts).
  rewrite Fseg in FMseg. fold (segs_of sg) in FMseg.
  destruct (segs_of_facts sg se Bsg) as (Lseg4 & Fseg4 & _).
  pose proof (segs_of_ok sg se Bsg) as Fall.
  assert (HP0 : tables_ok coeffs_proba0) by (rewrite <- coeff_probs_normative; exact (proj1 read_coefficients_instance)).
  assert (EPb : v_b vP = d1) by (change (v_b vP) with (v_b vM); exact FMb).
  assert (EPseg : v_segment vP = segs_of sg) by (change (v_segment vP) with (v_segment vM); exact FMseg).
  assert (EPtp : v_token_probs vP = tp) by (change (v_token_probs vP) with (v_token_probs vM); rewrite FMtp; exact Ftp).
  rewrite (rfh_tail_model vP coeffs_proba0) by (rewrite ?EPb, ?EPseg, ?EPtp; assumption).
  rewrite EPb.
  pose proof (tail_tables d1 coeffs_proba0 tp W1 B1 HP0 Etp) as TT. cbv zeta in TT.
  destruct (run_facts (G_tail coeffs_proba0) d1 W1 B1 (G_tail_probs _)) as [W2 B2].
  destruct (interpG cold_pure (G_tail coeffs_proba0) d1) as [oT d2]. cbn [fst snd] in *.
  destruct (is_past_eof d2); [left; eexists; reflexivity|]. right.
  destruct oT as [[q P1] sp]. cbn [fst snd] in TT. destruct TT as (HP1 & ETP1 & RQ & Bsp).
  eexists. split; [reflexivity|].
  set (vT := tail_state vP (q, P1, sp) d2).
  pose proof (tail_state_fields vP q P1 sp d2) as FT. cbv zeta in FT. fold vT in FT.
  destruct FT as (FTb & FTr & FTframe & FTw & FTh & FTtop & FTleft & FTse & FTum & FTseg & FTstn & FTrd & FTmd & FTnp & FTparts & FTtp & FTpsf & FTpi).
  change (v_frame vP) with (v_frame vM) in FTframe. change (v_mbwidth vP) with (v_mbwidth vM) in FTw. change (v_mbheight vP) with (v_mbheight vM) in FTh.
  change (v_top vP) with (v_top vM) in FTtop. change (v_left vP) with (v_left vM) in FTleft.
  change (v_segments_enabled vP) with (v_segments_enabled vM) in FTse. change (v_segments_update_map vP) with (v_segments_update_map vM) in FTum.
  change (v_segment_tree_nodes vP) with (v_segment_tree_nodes vM) in FTstn. change (v_ref_delta vP) with (v_ref_delta vM) in FTrd.
  change (v_mode_delta vP) with (v_mode_delta vM) in FTmd. change (v_num_partitions vP) with (v_num_partitions vM) in FTnp.
  change (v_partitions vP) with parts in FTparts.
  (* the segments after read_quantization_indices *)
  assert (Esegs : v_segment vT = quant_upd (if se then 4 else 1) 0 (segs_of sg) se q).
  { rewrite FTseg. unfold quant_state. cbn [v_segment set_b set_segment]. change (v_segments_enabled vP) with (v_segments_enabled vM).
    rewrite FMse, EPseg. reflexivity. }
  pose proof (quant_upd_ok (if se then 4 else 1) 0 (segs_of sg) se q RQ Fall) as Fq.
  assert (Lq : length (v_segment vT) = 4%nat) by (rewrite Esegs, quant_upd_length; exact Lseg4).
  rewrite <- Esegs in Fq.
  destruct (init_top_ok (fi_width (v_frame v)) ltac:(lia)) as [Ltop Ftop].
  split.
  - (* the loop invariant *)
    constructor.
    + rewrite FTframe, FMframe. cbn [fi_keyframe fi_set_filter fi_set_pixel_type]. exact Hkey.
    + intros _. unfold seg_nodes_ok. rewrite FTstn, FMstn, Fstn.
      destruct sg as [[[um dat] pr]|]; [|exists [255; 255; 255]; split; [reflexivity|]; split; [repeat constructor; unfold byte; lia | exact Estn]].
      cbn [fst snd segu_nodes]. destruct pr as [p|]; [|exists [255; 255; 255]; split; [reflexivity|]; split; [repeat constructor; unfold byte; lia | exact Estn]].
      destruct Bsg as [[_ (Lp & Fp & _)] _]. cbn [fst snd] in Lp, Fp. exists p. split; [exact Lp|]. split; [exact Fp|]. apply seg_tree_set; assumption.
    + intros p Ep. rewrite FTpsf in Ep. rewrite Ep in Bsp. exact Bsp.
    + rewrite FTb. split; assumption.
    + exists P1. split; [exact HP1|]. rewrite FTtp, EPtp. exact ETP1.
    + split; [exact Lq|]. eapply Forall_impl; [|exact Fq]. intros s Hs. apply Hs.
    + rewrite FTnp, FMnp. rewrite wrapU_small by (change (2 ^ 8) with 256; lia). exact Hnp.
    + intros i Hi. rewrite FTnp, FMnp in Hi. rewrite wrapU_small in Hi by (change (2 ^ 8) with 256; lia).
      rewrite FTparts. apply Hlive. lia.
    + rewrite FTtop, FMtop, FTw, FMw, Htop, Hmw. split; assumption.
    + rewrite FTleft, FMleft. exact Hleft.
  - (* the fields the reconstruction reads *)
    unfold rhdr_ok, rhdr_of_vp8. cbn [rh_width rh_height rh_mbwidth rh_mbheight rh_filter_level rh_sharpness_level rh_segment rh_ref_delta rh_mode_delta].
    rewrite FTframe, FMframe, FTw, FMw, FTh, FMh, FTrd, FMrd, FTmd, FMmd.
    cbn [fi_width fi_height fi_filter_level fi_sharpness_level fi_set_filter fi_set_pixel_type].
    split; [exact Hwid|]. split; [exact Hhei|]. split; [exact Hmw|]. split; [exact Hmh|]. split; [lia|]. split; [lia|].
    split; [exact Lq|]. split; [eapply Forall_impl; [|exact Fq]; intros s Hs; apply Hs|].
    rewrite Frd, Fmd.
    destruct lf as [[[r m]|]|]; cbn [fst snd nth]; try (unfold lf63; lia).
    destruct Blf as (Lr & Lm & Fr & Fm). destruct r as [|r0 r]; [discriminate|]. destruct m as [|m0 m]; [discriminate|].
    apply Forall_inv in Fr. apply Forall_inv in Fm. cbn [nth]. unfold lf63. lia.
Qed.

(* ---- an inter frame: parsed up to read_quantization_indices, then UnsupportedFeature ---- *)
Definition mid2_ok (r : bool * option seguR * mid3R) : Prop :=
  let '(se, sg, (ft, fl, sh, lf, lg)) := r in
  (match sg with Some r => segu_ok r /\ se = true | None => se = false end) /\ 0 <= lg < 4.

Lemma G_mid2_bound {St} (bit : St -> Z -> bool * St) s : mid2_ok (fst (interpG bit G_mid2 s)).
Proof.
  unfold G_mid2, G_mid3, G_mid4. rewrite bind_inv. destruct (interpG bit g_flag s) as [se s3]. cbn [fst snd]. rewrite bind_inv.
  assert (Hsg : match fst (interpG bit (G_sg se) s3) with Some r => segu_ok r /\ se = true | None => se = false end).
  { destruct se; unfold G_sg; [|reflexivity]. rewrite bind_inv. pose proof (G_segu_bound bit s3) as H.
    destruct (interpG bit G_segu s3) as [r s4]. cbn [interpG fst snd] in *. split; [exact H | reflexivity]. }
  destruct (interpG bit (G_sg se) s3) as [sg s4]. cbn [fst snd] in *. rewrite bind_inv. rewrite bind_inv.
  destruct (interpG bit g_flag s4) as [ft s5]. cbn [fst snd]. rewrite bind_inv.
  destruct (interpG bit (g_lit 6) s5) as [fl s6]. cbn [fst snd] in *. rewrite bind_inv.
  destruct (interpG bit (g_lit 3) s6) as [sh s7]. cbn [fst snd] in *.
  rewrite bind_inv. destruct (interpG bit g_flag s7) as [lfe s8]. cbn [fst snd]. rewrite bind_inv.
  destruct (interpG bit (G_lf lfe) s8) as [lf s9]. cbn [fst snd] in *. rewrite bind_inv.
  pose proof (g_lit_bound bit 2 s9 ltac:(lia)) as Hlg. destruct (interpG bit (g_lit 2) s9) as [lg s10]. cbn [fst snd interpG] in *. change (2 ^ 2) with 4 in Hlg.
  unfold mid2_ok. split; assumption.
Qed.

Lemma mid2_state_fields v se sg ft fl sh lf lg d :
  let v' := mid2_state v (se, sg, (ft, fl, sh, lf, lg)) d in
  v_b v' = d /\ v_r v' = v_r v /\ v_partitions v' = v_partitions v /\
  v_segment v' = match sg with Some r => segu_segments (v_segment v) (snd (fst r)) | None => v_segment v end.
Proof. destruct sg as [[[um dat] pr]|]; destruct lf as [[rm|]|]; destruct v; repeat split; reflexivity. Qed.

Lemma rfh_nonkey_safe v d stn tp : length stn = 3%nat -> fresh v stn tp -> wsafe d -> big d ->
  exists e, rfh_mid v d false (rfh_K false) = Err e.
Proof.
  intros Lstn (Fseg & Fstn & Frd & Fmd & Fparts & Ftp & Fbytes & Flen) Hw Hbig.
  unfold rfh_mid. cbn [bind].
  rewrite (mid2_model v d (rfh_K false) Hw Hbig) by (rewrite ?Fseg, ?Fstn, ?Frd, ?Fmd; try reflexivity; exact Lstn).
  pose proof (G_mid2_bound cold_pure d) as BM.
  destruct (run_facts G_mid2 d Hw Hbig G_mid2_probs) as [W1 B1].
  destruct (interpG cold_pure G_mid2 d) as [r d1]. cbn [fst snd] in *.
  destruct r as [[se sg] [[[[ft fl] sh] lf] lg]].
  destruct (is_past_eof d1); [eexists; reflexivity|].
  destruct BM as (Bsg & Blg). cbn [lg_of2 lg_of3 snd].
  set (vM := mid2_state v (se, sg, (ft, fl, sh, lf, lg)) d1).
  pose proof (mid2_state_fields v se sg ft fl sh lf lg d1) as FM. cbv zeta in FM. fold vM in FM. destruct FM as (FMb & FMr & FMparts & FMseg).
  pose proof (pow2_lg lg Blg) as Hnp.
  unfold rfh_K. match goal with |- context [init_partitions ?x _] => change x with vM end.
  destruct (init_partitions_safe vM (2 ^ lg) Hnp ltac:(rewrite FMparts; exact Fparts) ltac:(rewrite FMr; exact Fbytes) ltac:(rewrite FMr; exact Flen))
    as [(e & E) | (parts & E & Lparts & Hlive)]; rewrite E; cbn [bind]; [eexists; reflexivity|]. clear E.
  set (vP := set_partitions (set_r vM []) parts).
  rewrite Fseg in FMseg. fold (segs_of sg) in FMseg.
  destruct (segs_of_facts sg se Bsg) as (Lseg4 & Fseg4 & _).
  assert (EPb : v_b vP = d1) by (change (v_b vP) with (v_b vM); exact FMb).
  assert (EPseg : v_segment vP = segs_of sg) by (change (v_segment vP) with (v_segment vM); exact FMseg).
  unfold rfh_tail. rewrite (quant_model vP) by (rewrite ?EPb, ?EPseg; assumption).
  destruct (interpG cold_pure G_quant (v_b vP)) as [q d2]. destruct (is_past_eof d2); cbn [bind negb]; eexists; reflexivity.
Qed.

(* ---- Vp8Decoder::new + read_frame_header ---- *)
Lemma land14 x : 0 <= Z.land x 16383 <= 16383.
Proof.
  assert (E : Z.land x 16383 = x mod 16384) by (change 16383 with (Z.ones 14); rewrite Z.land_ones by lia; reflexivity).
  rewrite E. pose proof (Z.mod_pos_bound x 16384 ltac:(lia)). lia.
Qed.

Theorem read_frame_header_safe data : Forall byte data -> C15_model.len data < 2 ^ 63 ->
  exists v0, Vp8_new data = Ok v0 /\
  ((exists e, read_frame_header v0 = Err e) \/ exists v, read_frame_header v0 = Ok v /\ hdr_post v).
Proof.
  intros Hbytes Hlen.
  destruct (new_ok data) as [stn [tp (Estn & Etp & Lstn & Estn2 & Enew)]]. eexists. split; [exact Enew|].
  match goal with |- context [read_frame_header ?v] => set (v0 := v) end.
  rewrite rfh_split. change (v_r v0) with data.
  destruct (read_exact_cases data 3 ltac:(lia)) as [E | [L3 E]]; rewrite E; cbn [bind]; [left; eexists; reflexivity|]. clear E.
  change (Z.to_nat 3) with 3%nat.
  set (t := firstn 3 data). set (r1 := skipn 3 data).
  assert (Hb1 : Forall byte r1) by (apply Forall_skipn; exact Hbytes).
  assert (Hl1 : Z.of_nat (length r1) = Z.of_nat (length data) - 3) by (unfold r1; rewrite skipn_length; lia).
  pose proof (le24_range t (Forall_firstn _ _ _ Hbytes)) as Htag. set (tag := le24 t) in *. cbv zeta.
  assert (Hsz : 0 <= Z.shiftr tag 5) by (apply Z.shiftr_nonneg; lia).
  destruct (Z.land tag 1 =? 0) eqn:Ekey.
  - (* key frame *)
    cbn [set_r set_frame v_r]. unfold v0 at 1. cbn [v_r].
    destruct (read_exact_cases r1 3 ltac:(lia)) as [E | [L3b E]]; rewrite E; cbn [bind]; [left; eexists; reflexivity|]. clear E.
    match goal with |- context [if negb ?c then _ else _] => destruct (negb c) end; [left; eexists; reflexivity|].
    change (Z.to_nat 3) with 3%nat.
    set (r2 := skipn 3 r1).
    assert (Hl2 : Z.of_nat (length r2) = Z.of_nat (length r1) - 3) by (unfold r2; rewrite skipn_length; lia).
    destruct (read_exact_cases r2 2 ltac:(lia)) as [E | [L2a E]]; rewrite E; cbn [bind]; [left; eexists; reflexivity|]. clear E.
    change (Z.to_nat 2) with 2%nat.
    set (r3 := skipn 2 r2).
    assert (Hl3 : Z.of_nat (length r3) = Z.of_nat (length r2) - 2) by (unfold r3; rewrite skipn_length; lia).
    destruct (read_exact_cases r3 2 ltac:(lia)) as [E | [L2b E]]; rewrite E; cbn [bind]; [left; eexists; reflexivity|]. clear E.
    change (Z.to_nat 2) with 2%nat.
    set (r4 := skipn 2 r3).
    assert (Hb4 : Forall byte r4) by (unfold r4, r3, r2; do 3 apply Forall_skipn; exact Hb1).
    assert (Hl4 : Z.of_nat (length r4) = Z.of_nat (length r3) - 2) by (unfold r4; rewrite skipn_length; lia).
    cbv zeta.
    match goal with |- context [Z.land ?w 16383] => set (wraw := w) end.
    match goal with |- context [fi_set_size _ _ (Z.land ?h 16383)] => set (hraw := h) end.
    pose proof (land14 wraw) as Hwid. pose proof (land14 hraw) as Hhei.
    set (width := Z.land wraw 16383) in *. set (height := Z.land hraw 16383) in *.
    cbn [set_r set_frame set_top set_left set_mbsize v_r v_frame].
    destruct (read_exact_cases r4 (Z.shiftr tag 5) Hsz) as [E | [Lp E]]; rewrite E; cbn [bind]; [left; eexists; reflexivity|]. clear E.
    set (bytes := firstn (Z.to_nat (Z.shiftr tag 5)) r4). set (r5 := skipn (Z.to_nat (Z.shiftr tag 5)) r4).
    assert (Lb : Z.of_nat (length bytes) = Z.shiftr tag 5) by (unfold bytes; rewrite firstn_length; lia).
    destruct (init_live bytes ltac:(unfold C15_model.len in *; lia)) as (d & Ed & (Hw & Hbig & _)). rewrite Lb in Ed. rewrite Ed. cbn [bind].
    match goal with |- context [rfh_mid ?v d true _] => set (vF := v) end.
    destruct (init_top_ok width ltac:(lia)) as [Ltop Ftop].
    destruct (rfh_key_safe vF d stn tp Estn2 Lstn Etp) as [(e & E) | (v' & E & Hpost)]; try (unfold vF, v0; cbn; reflexivity); try assumption.
    + unfold fresh, vF, v0. cbn. repeat split; try reflexivity.
      * unfold r5. apply Forall_skipn. exact Hb4.
      * unfold C15_model.len in *. unfold r5. rewrite skipn_length. lia.
    + unfold vF, v0. cbn [v_left set_r set_mbsize set_left].
      destruct (init_top_macroblocks width) as [|m tl] eqn:Etop; [exact default_top_ok|]. inversion Ftop; assumption.
    + left. exists e. exact E.
    + right. exists v'. split; [exact E | exact Hpost].
  - (* inter frame *)
    cbn [bind set_r set_frame v_r].
    destruct (read_exact_cases r1 (Z.shiftr tag 5) Hsz) as [E | [Lp E]]; rewrite E; cbn [bind]; [left; eexists; reflexivity|]. clear E.
    set (bytes := firstn (Z.to_nat (Z.shiftr tag 5)) r1). set (r5 := skipn (Z.to_nat (Z.shiftr tag 5)) r1).
    assert (Lb : Z.of_nat (length bytes) = Z.shiftr tag 5) by (unfold bytes; rewrite firstn_length; lia).
    destruct (init_live bytes ltac:(unfold C15_model.len in *; lia)) as (d & Ed & (Hw & Hbig & _)). rewrite Lb in Ed. rewrite Ed. cbn [bind].
    match goal with |- context [rfh_mid ?v d false _] => set (vF := v) end.
    destruct (rfh_nonkey_safe vF d stn tp Lstn) as [e E]; try assumption.
    + unfold fresh, vF, v0. cbn. repeat split; try reflexivity.
      * unfold r5. apply Forall_skipn. exact Hb1.
      * unfold C15_model.len in *. unfold r5. rewrite skipn_length. lia.
    + left. exists e. exact E.
Qed.
