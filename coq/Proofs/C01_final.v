(* C01: the entropy-decoder side of the frame theorems of C01T_frame.v.

   C01T_frame.v proves decode_frame_matches_spec / _rejects / _no_panic for an abstract relation
   `rel : BitReader.t -> V.stream -> Prop` under five premises P1..P5.  With the concrete relation
       rel br s := C01_stream.Rel s br
   this file proves
     P1  rel_init                        (fresh reader over the payload)
     P2  read_bits_refines               (ReadBits, valid)
     P4  read_bits_rejects               (ReadBits, end of data)
     P5  decode_image_stream_rejects     (image rejected by the specification => rejected by the decoder; UNCONDITIONAL)
     P3' decode_image_stream_refines_strict : P3 under the side condition `codes_strict argb xs ys s = true`
   and shows that P3 itself is FALSE (`P3_refuted`): the specification accepts, and the crate rejects, an image whose
   distance code is a simple code naming a symbol >= 40 (libwebp drops the symbol).  `codes_strict` is the decidable
   predicate "no prefix-code description read while parsing this image drops a symbol":
       codes_strict argb xs ys s = true  <->  the strict specification (C01_groups) accepts whenever the specification does.
   `image_refines_general` is the premise in the shape C01T_frame's sections use (match on the specification's result,
   `bad` for the rejecting side), generalised by the side condition: it holds for EVERY stream, so the frame theorems
   about rejection / no panic can be obtained unconditionally from it, and the theorems about valid streams under the
   extra premise that `codes_strict` holds at the image positions of the parse.

   Also: decode_image_stream never panics / never runs out of fuel (C03 for the whole entropy decoder, from the bit
   stream), and its result does not depend on the reader's fill_buf schedule (C10). *)
From Coq Require Import ZArith NArith List Bool Lia.
From WebP Require Import Lib.Res Lib.Arr Lib.ZBits Gen.Tables
  Model.EncoderHeap Proofs.C04_bits Proofs.C04_arr
  Model.LosslessLib Model.BitReader Model.Huffman Model.LosslessTransform Model.Lossless
  Proofs.Lossless_BitReader Proofs.Lossless_HuffmanSafe
  Proofs.C01_stream Proofs.C01_symbols Proofs.C01_codes Proofs.C01_pixlib Proofs.C01_pixels Proofs.C01_groups.
From WebP Require Proofs.C01T_repr Proofs.C01T_frame.
Import ListNotations.
Open Scope Z_scope.

Ltac Zify.zify_post_hook ::= Z.div_mod_to_equations.

Module TR := WebP.Proofs.C01T_repr.
Module TF := WebP.Proofs.C01T_frame.

(* the relation, in the argument order of C01T_frame *)
Definition rel (br : BitReader.t) (s : V.stream) : Prop := Rel s br.

(* ------------------------------------------------------------------------------------------------ *)
(** * P1, P2, P4 *)
Theorem rel_init : forall data sched, Forall byte data -> rel (BitReader.init data sched) (V.Stream [] data).
Proof. intros data sched H. apply Rel_init. exact H. Qed.

Theorem read_bits_refines : forall br s tb n v s', rel br s -> 0 <= n <= 16 -> n <= tb ->
  V.read_bits (Z.to_nat n) s = Some (v, s') -> exists br', BitReader.read_bits br tb n = Ok (v, br') /\ rel br' s'.
Proof.
  intros br s tb n v s' H Hn Htb E. destruct (read_bits_Rel_some s br tb n v s' H ltac:(lia) Htb E) as (br' & E' & H' & _). eauto.
Qed.

Theorem read_bits_rejects : forall br s tb n, rel br s -> 0 <= n <= 16 -> n <= tb ->
  V.read_bits (Z.to_nat n) s = None -> TF.is_err (BitReader.read_bits br tb n).
Proof. intros br s tb n H Hn Htb E. exists EBitStreamError. apply (read_bits_Rel_none s br tb n H ltac:(lia) Htb E). Qed.

(* ------------------------------------------------------------------------------------------------ *)
(** * images: the specification, the strict specification, the side condition *)
Definition spec_image (argb : bool) (xs ys : Z) (s : V.stream) : option (arr * V.stream) :=
  if argb then V.spatially_coded_image xs ys s else V.entropy_coded_image xs ys s.

Definition strict_image (argb : bool) (xs ys : Z) (s : V.stream) : option (arr * V.stream) :=
  if argb then strict_spatially_coded_image xs ys s else strict_entropy_coded_image xs ys s.

(* no simple prefix code read while parsing this image names a symbol outside its alphabet *)
Definition codes_strict (argb : bool) (xs ys : Z) (s : V.stream) : bool :=
  match spec_image argb xs ys s with
  | Some _ => match strict_image argb xs ys s with Some _ => true | None => false end
  | None => true
  end.

Lemma strict_image_sound argb xs ys s x : strict_image argb xs ys s = Some x -> spec_image argb xs ys s = Some x.
Proof. destruct argb; [apply strict_spatial_sound | apply strict_entropy_sound]. Qed.

Lemma codes_strict_spec argb xs ys s x : spec_image argb xs ys s = Some x -> codes_strict argb xs ys s = true ->
  strict_image argb xs ys s = Some x.
Proof.
  unfold codes_strict. intros E. rewrite E. destruct (strict_image argb xs ys s) as [y|] eqn:Es; [|discriminate].
  intros _. rewrite (strict_image_sound _ _ _ _ _ Es) in E. exact E.
Qed.

Lemma spec_none_strict_none argb xs ys s : spec_image argb xs ys s = None -> strict_image argb xs ys s = None.
Proof. intros E. destruct (strict_image argb xs ys s) as [y|] eqn:Es; [|reflexivity]. rewrite (strict_image_sound _ _ _ _ _ Es) in E. discriminate. Qed.

Lemma strict_image_alen argb xs ys s px s' : strict_image argb xs ys s = Some (px, s') -> alen px = Z.to_N (xs * ys).
Proof.
  destruct argb; cbn [strict_image].
  - unfold strict_spatially_coded_image. destruct (V.read_cache_info s) as [[cb s1]|]; [|discriminate].
    destruct (strict_meta_prefix xs ys s1) as [[[m ng] s2]|]; [|discriminate].
    destruct (strict_groups _ _ s2) as [[gs s3]|]; [|discriminate]. intros E. apply decode_pixels_alen in E. exact E.
  - unfold strict_entropy_coded_image. destruct (V.read_cache_info s) as [[cb s1]|]; [|discriminate].
    destruct (strict_group _ s1) as [[g s2]|]; [|discriminate]. intros E. apply decode_pixels_alen in E. exact E.
Qed.

(* the decoder against the strict specification, both image kinds *)
Theorem decode_image_stream_strict argb st r xs ys data :
  Rel st r -> 1 <= xs <= 16384 -> 1 <= ys <= 16384 -> zlen data = 4 * (xs * ys) ->
  match strict_image argb xs ys st with
  | Some (pixels, st') =>
      exists r' data', decode_image_stream STREAM_LEVELS r xs ys argb data = Ok (r', data') /\ Rel st' r' /\
                       zlen data' = 4 * (xs * ys) /\
                       forall i, 0 <= i < xs * ys -> px_at data' i = px_of (V.pix pixels i) /\ pix32 (V.pix pixels i)
  | None => exists e, decode_image_stream STREAM_LEVELS r xs ys argb data = Err e
  end.
Proof.
  intros H Hx Hy Hl. change STREAM_LEVELS with 2%nat. destruct argb; cbn [strict_image].
  - apply (decode_image_stream_spatial 0 st r xs ys data H); lia.
  - apply (decode_image_stream_entropy 1 st r xs ys data H); lia.
Qed.

(* the byte / ARGB correspondence in the vocabulary of C01T_repr *)
Lemma repr_of_px data px n : 0 <= n -> zlen data = 4 * n -> alen px = Z.to_N n ->
  (forall i, 0 <= i < n -> px_at data i = px_of (V.pix px i) /\ pix32 (V.pix px i)) -> TR.repr data px n.
Proof.
  intros Hn Hl Ha Hpx. unfold TR.repr. split; [lia|]. split; [lia|]. split.
  - intros k Hk. destruct (Hpx (k / 4) ltac:(lia)) as [E _]. unfold px_at, px_of in E.
    destruct (chan_byte (V.pix px (k / 4))) as (Ba & Br & Bg & Bb).
    pose proof (f_equal (fun q : px4 => fst (fst (fst q))) E) as E0. pose proof (f_equal (fun q : px4 => snd (fst (fst q))) E) as E1.
    pose proof (f_equal (fun q : px4 => snd (fst q)) E) as E2. pose proof (f_equal (fun q : px4 => snd q) E) as E3.
    cbn [fst snd] in E0, E1, E2, E3.
    assert (Hc : k = 4 * (k / 4) \/ k = 4 * (k / 4) + 1 \/ k = 4 * (k / 4) + 2 \/ k = 4 * (k / 4) + 3) by lia.
    destruct Hc as [Hc | [Hc | [Hc | Hc]]]; rewrite Hc; [rewrite E0 | rewrite E1 | rewrite E2 | rewrite E3]; assumption.
  - intros i Hi. destruct (Hpx i Hi) as [E H32]. unfold px_at, px_of in E. unfold TR.pxl.
    pose proof (f_equal (fun q : px4 => fst (fst (fst q))) E) as E0. pose proof (f_equal (fun q : px4 => snd (fst (fst q))) E) as E1.
    pose proof (f_equal (fun q : px4 => snd (fst q)) E) as E2. pose proof (f_equal (fun q : px4 => snd q) E) as E3.
    cbn [fst snd] in E0, E1, E2, E3. rewrite E0, E1, E2, E3. symmetry. apply argb_chan. exact H32.
Qed.

(* ------------------------------------------------------------------------------------------------ *)
(** * P3 under the side condition, P5, and the general premise *)
Theorem decode_image_stream_refines_strict : forall br s xs ys (argb : bool) data px s',
  rel br s -> 1 <= xs <= 16384 -> 1 <= ys <= 16384 -> zlen data = 4 * (xs * ys) ->
  codes_strict argb xs ys s = true ->
  (if argb then V.spatially_coded_image xs ys s else V.entropy_coded_image xs ys s) = Some (px, s') ->
  exists br' bytes, decode_image_stream STREAM_LEVELS br xs ys argb data = Ok (br', bytes) /\
                    zlen bytes = zlen data /\ TR.repr bytes px (xs * ys) /\ rel br' s'.
Proof.
  intros br s xs ys argb data px s' H Hx Hy Hl Hc E.
  pose proof (codes_strict_spec argb xs ys s (px, s') E Hc) as Es.
  pose proof (decode_image_stream_strict argb s br xs ys data H Hx Hy Hl) as P. rewrite Es in P.
  destruct P as (r' & data' & Em & HR & Hl' & Hpx). exists r', data'. split; [exact Em|]. split; [lia|]. split; [|exact HR].
  apply repr_of_px; [nia | exact Hl' | exact (strict_image_alen _ _ _ _ _ _ Es) | exact Hpx].
Qed.

Theorem decode_image_stream_rejects : forall br s xs ys (argb : bool) data,
  rel br s -> 1 <= xs <= 16384 -> 1 <= ys <= 16384 -> zlen data = 4 * (xs * ys) ->
  (if argb then V.spatially_coded_image xs ys s else V.entropy_coded_image xs ys s) = None ->
  TF.is_err (decode_image_stream STREAM_LEVELS br xs ys argb data).
Proof.
  intros br s xs ys argb data H Hx Hy Hl E.
  pose proof (decode_image_stream_strict argb s br xs ys data H Hx Hy Hl) as P.
  rewrite (spec_none_strict_none argb xs ys s E) in P. exact P.
Qed.

(* a stream the specification accepts but whose description drops a symbol: rejected by the decoder *)
Theorem decode_image_stream_dropped : forall br s xs ys (argb : bool) data,
  rel br s -> 1 <= xs <= 16384 -> 1 <= ys <= 16384 -> zlen data = 4 * (xs * ys) ->
  codes_strict argb xs ys s = false -> TF.is_err (decode_image_stream STREAM_LEVELS br xs ys argb data).
Proof.
  intros br s xs ys argb data H Hx Hy Hl Hc.
  pose proof (decode_image_stream_strict argb s br xs ys data H Hx Hy Hl) as P. unfold codes_strict in Hc.
  destruct (spec_image argb xs ys s); [|discriminate]. destruct (strict_image argb xs ys s); [discriminate|]. exact P.
Qed.

(* the premise of C01T_frame's sections, generalised by the side condition; holds for every stream *)
Theorem image_refines_general (bad : forall A : Type, res A -> Prop) (bad_err : forall A e, bad A (Err e)) :
  forall br s xs ys (argb : bool) data,
  rel br s -> 1 <= xs <= 16384 -> 1 <= ys <= 16384 -> zlen data = 4 * (xs * ys) ->
  match (if argb then V.spatially_coded_image xs ys s else V.entropy_coded_image xs ys s) with
  | Some (px, s') =>
      if codes_strict argb xs ys s
      then exists br' bytes, decode_image_stream STREAM_LEVELS br xs ys argb data = Ok (br', bytes) /\
                             zlen bytes = zlen data /\ TR.repr bytes px (xs * ys) /\ rel br' s'
      else bad _ (decode_image_stream STREAM_LEVELS br xs ys argb data)
  | None => bad _ (decode_image_stream STREAM_LEVELS br xs ys argb data)
  end.
Proof.
  intros br s xs ys argb data H Hx Hy Hl.
  destruct (if argb then V.spatially_coded_image xs ys s else V.entropy_coded_image xs ys s) as [[px s']|] eqn:E.
  - destruct (codes_strict argb xs ys s) eqn:Ec.
    + apply (decode_image_stream_refines_strict br s xs ys argb data px s'); assumption.
    + destruct (decode_image_stream_dropped br s xs ys argb data H Hx Hy Hl Ec) as (e & Ee). rewrite Ee. apply bad_err.
  - destruct (decode_image_stream_rejects br s xs ys argb data H Hx Hy Hl E) as (e & Ee). rewrite Ee. apply bad_err.
Qed.

(* soundness needs no side condition: whatever the decoder accepts is what the specification defines *)
Theorem decode_image_stream_sound : forall br s xs ys (argb : bool) data br' bytes,
  rel br s -> 1 <= xs <= 16384 -> 1 <= ys <= 16384 -> zlen data = 4 * (xs * ys) ->
  decode_image_stream STREAM_LEVELS br xs ys argb data = Ok (br', bytes) ->
  exists px s', (if argb then V.spatially_coded_image xs ys s else V.entropy_coded_image xs ys s) = Some (px, s') /\
                zlen bytes = zlen data /\ TR.repr bytes px (xs * ys) /\ rel br' s'.
Proof.
  intros br s xs ys argb data br' bytes H Hx Hy Hl Em.
  pose proof (decode_image_stream_strict argb s br xs ys data H Hx Hy Hl) as P.
  destruct (strict_image argb xs ys s) as [[px s']|] eqn:Es.
  - destruct P as (r' & data' & Em' & HR & Hl' & Hpx). rewrite Em in Em'. injection Em' as <- <-.
    exists px, s'. split; [apply (strict_image_sound argb xs ys s _ Es)|]. split; [lia|]. split; [|exact HR].
    apply repr_of_px; [nia | exact Hl' | exact (strict_image_alen _ _ _ _ _ _ Es) | exact Hpx].
  - destruct P as (e & Ee). rewrite Em in Ee. discriminate.
Qed.

(* ------------------------------------------------------------------------------------------------ *)
(** * P3 as stated in C01T_frame does not hold: the witness *)
(* A 1x1 image without meta prefix codes: no colour cache (bit 0); green, red, blue, alpha = simple one-symbol codes
   for symbol 0 (bits 1,0,0,0 each); distance code = simple, two symbols, 8-bit first symbol 0, second symbol 200
   (bits 1,1,1, 00000000, 00010011).  The specification (as libwebp) drops symbol 200 and decodes the pixel 0;
   the decoder returns BitStreamError. *)
Definition dropped_stream : list Z := [34; 34; 14; 128; 12].

Theorem P3_refuted :
  (exists px s', V.entropy_coded_image 1 1 (V.Stream [] dropped_stream) = Some (px, s') /\ V.pix px 0 = 0) /\
  codes_strict false 1 1 (V.Stream [] dropped_stream) = false /\
  decode_image_stream STREAM_LEVELS (BitReader.init dropped_stream []) 1 1 false (zmake 4) = Err EBitStreamError.
Proof. vm_compute. split; [eexists _, _; split; reflexivity|]. split; reflexivity. Qed.

(* ------------------------------------------------------------------------------------------------ *)
(** * C03 and C10 for the whole entropy decoder *)
Theorem decode_image_stream_no_panic : forall br s xs ys (argb : bool) data,
  rel br s -> 1 <= xs <= 16384 -> 1 <= ys <= 16384 -> zlen data = 4 * (xs * ys) ->
  match decode_image_stream STREAM_LEVELS br xs ys argb data with Panic _ => False | OutOfFuel => False | _ => True end.
Proof.
  intros br s xs ys argb data H Hx Hy Hl.
  pose proof (decode_image_stream_strict argb s br xs ys data H Hx Hy Hl) as P.
  destruct (strict_image argb xs ys s) as [[px s']|].
  - destruct P as (r' & data' & Em & _). rewrite Em. exact I.
  - destruct P as (e & Ee). rewrite Ee. exact I.
Qed.

(* two readers over the same payload with different fill_buf schedules: same verdict, same bytes *)
Theorem decode_image_stream_schedule_independent : forall d sched1 sched2 xs ys (argb : bool) data,
  Forall byte d -> 1 <= xs <= 16384 -> 1 <= ys <= 16384 -> zlen data = 4 * (xs * ys) ->
  match decode_image_stream STREAM_LEVELS (BitReader.init d sched1) xs ys argb data,
        decode_image_stream STREAM_LEVELS (BitReader.init d sched2) xs ys argb data with
  | Ok (r1, b1), Ok (r2, b2) => zlen b1 = zlen b2 /\ (forall k, 0 <= k < zlen b1 -> az b1 k = az b2 k) /\
                                exists s', Rel s' r1 /\ Rel s' r2
  | Err _, Err _ => True
  | _, _ => False
  end.
Proof.
  intros d sched1 sched2 xs ys argb data Hd Hx Hy Hl.
  pose proof (decode_image_stream_strict argb _ _ xs ys data (Rel_init d sched1 Hd) Hx Hy Hl) as P1.
  pose proof (decode_image_stream_strict argb _ _ xs ys data (Rel_init d sched2 Hd) Hx Hy Hl) as P2.
  destruct (strict_image argb xs ys (V.Stream [] d)) as [[px s']|].
  - destruct P1 as (r1 & b1 & E1 & HR1 & L1 & X1). destruct P2 as (r2 & b2 & E2 & HR2 & L2 & X2). rewrite E1, E2.
    split; [lia|]. split; [|exists s'; auto]. intros k Hk.
    destruct (X1 (k / 4) ltac:(lia)) as [A1 _]. destruct (X2 (k / 4) ltac:(lia)) as [A2 _]. rewrite <- A2 in A1. unfold px_at in A1.
    pose proof (f_equal (fun q : px4 => fst (fst (fst q))) A1) as E0. pose proof (f_equal (fun q : px4 => snd (fst (fst q))) A1) as E1'.
    pose proof (f_equal (fun q : px4 => snd (fst q)) A1) as E2'. pose proof (f_equal (fun q : px4 => snd q) A1) as E3.
    cbn [fst snd] in E0, E1', E2', E3.
    assert (Hc : k = 4 * (k / 4) \/ k = 4 * (k / 4) + 1 \/ k = 4 * (k / 4) + 2 \/ k = 4 * (k / 4) + 3) by lia.
    destruct Hc as [Hc | [Hc | [Hc | Hc]]]; rewrite Hc; assumption.
  - destruct P1 as (e1 & E1). destruct P2 as (e2 & E2). rewrite E1, E2. exact I.
Qed.

(* P1 and P3 of C01T_frame.v cannot both hold, for ANY relation: its frame theorems are vacuous until P3 is weakened *)
Theorem P1_P3_inconsistent (rel0 : BitReader.t -> V.stream -> Prop) :
  (forall data sched, Forall byte data -> rel0 (BitReader.init data sched) (V.Stream [] data)) ->
  (forall br s xs ys (argb : bool) data px s', rel0 br s -> 1 <= xs <= 16384 -> 1 <= ys <= 16384 -> zlen data = 4 * (xs * ys) ->
     (if argb then V.spatially_coded_image xs ys s else V.entropy_coded_image xs ys s) = Some (px, s') ->
     exists br' bytes, decode_image_stream STREAM_LEVELS br xs ys argb data = Ok (br', bytes) /\
                       zlen bytes = zlen data /\ TR.repr bytes px (xs * ys) /\ rel0 br' s') ->
  False.
Proof.
  intros P1 P3. destruct P3_refuted as ((px & s' & E & _) & _ & Em).
  destruct (P3 (BitReader.init dropped_stream []) (V.Stream [] dropped_stream) 1 1 false (zmake 4) px s') as (br' & bytes & E' & _).
  - apply P1. unfold dropped_stream, byte. repeat constructor; lia.
  - lia.
  - lia.
  - reflexivity.
  - exact E.
  - rewrite Em in E'. discriminate.
Qed.
