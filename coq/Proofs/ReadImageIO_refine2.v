(* C10, the glue over the file reader, fault-free refinement, second part (continues Proofs/ReadImageIO_refine.v). *)
From Coq Require Import ZArith List Bool Lia.
From WebP Require Import Lib.Res Model.Container Model.ContainerIO Proofs.ContainerIO_prims Proofs.ContainerIO_laws
  Proofs.ContainerIO_refine.
From WebP Require Model.ArithDec Model.Vp8Parse Model.Vp8Frame Model.Vp8Recon Model.Vp8Decode Model.ReadImage Model.Yuv.
From WebP Require Import Model.ReadImageIO Proofs.ReadImageIO_refine.
Import ListNotations.
Open Scope Z_scope.

Lemma bind_assoc {A B C} (m : M A) (f : A -> M B) (g : B -> M C) s :
  bind (bind m f) g s = bind m (fun a => bind (f a) g) s.
Proof. unfold bind, handle. destruct (m s) as [[a|e|p|] s']; reflexivity. Qed.
Lemma bind_ret {A B} (a : A) (f : A -> M B) s : bind (ret a) f s = f a s.
Proof. reflexivity. Qed.
Lemma bind_fail {A B} e (f : A -> M B) s : bind (@fail A e) f s = (IErr e, s).
Proof. reflexivity. Qed.

Ltac inv_ok H :=
  repeat (match type of H with
   | Res.bind ?X _ = Ok _ => let E := fresh "E" in destruct X as [?| | |] eqn:E; cbn [Res.bind] in H; [|discriminate H ..]
   | match ?p with (_, _) => _ end = Ok _ => destruct p
   end; cbn beta iota zeta in H).

Lemma rlfa_v_r v v' : VP.read_loop_filter_adjustments v = Ok v' -> VP.v_r v' = VP.v_r v.
Proof.
  intros H. unfold VP.read_loop_filter_adjustments in H. inv_ok H. injection H as <-.
  destruct b.
  - inv_ok E0. injection E0 as <- <-. reflexivity.
  - injection E0 as <- <-. reflexivity.
Qed.

Lemma rsu_v_r v v' : VP.read_segment_updates v = Ok v' -> VP.v_r v' = VP.v_r v.
Proof.
  intros H. unfold VP.read_segment_updates in H. inv_ok H. injection H as <-.
  cbn [VP.v_r VP.set_b].
  assert (H1 : VP.v_r v0 = VP.v_r v).
  { destruct b0.
    - inv_ok E1. injection E1 as <- <-. reflexivity.
    - injection E1 as <- <-. reflexivity. }
  rewrite <- H1. destruct (VP.v_segments_update_map v0).
  - inv_ok E2. injection E2 as <- <-. reflexivity.
  - injection E2 as <- <-. reflexivity.
Qed.

Lemma if_frame (f : VP.Vp8 -> res VP.Vp8) (b : bool) v a :
  (forall v v', f v = Ok v' -> VP.v_r v' = VP.v_r v) -> (if b then f v else Ok v) = Ok a -> VP.v_r a = VP.v_r v.
Proof. intros Hf H. destruct b; [apply Hf; exact H | injection H as <-; reflexivity]. Qed.

(* the same step, keeping the equation *)
Ltac lift_step_eq E :=
  rewrite bind_lift;
  match goal with
  | |- RefOK _ (match ?X with _ => _ end) _ =>
      let a := fresh "a" in
      destruct X as [a| | |] eqn:E; cbn [Res.bind];
      [ cbn beta iota zeta | split; [reflexivity | assumption] .. ]
  end.

Ltac lift_step2 :=
  rewrite bind_lift;
  match goal with
  | |- RefOK _ (match ?X with _ => _ end) _ =>
      let a := fresh "a" in
      destruct X as [a| | |]; cbn [Res.bind];
      [ match type of a with (_ * _)%type => destruct a as [? ?] | _ => idtac end; cbn beta iota zeta
      | split; [reflexivity | assumption] .. ]
  end.

Lemma RefOK_bind {A B} d (m : M A) (f : A -> M B) s (p : res A) (g : A -> res B) :
  RefOK d (m s) p -> (forall a s', okstate d s' -> RefOK d (f a s') (g a)) -> RefOK d (bind m f s) (Res.bind p g).
Proof.
  intros [H1 H2] Hf. unfold bind, handle. destruct (m s) as [r s']. cbn [fst snd] in *. subst p.
  destruct r as [a|e|q|]; cbn [erase Res.bind]; [apply Hf; exact H2 | split; [reflexivity | exact H2] ..].
Qed.

Lemma vp8_header_refines d lim v s : okstate d s -> 0 <= lim -> tk lim s = VP.v_r v ->
  RefOK d (vp8_read_frame_header_io lim v s) (VP.read_frame_header v).
Proof.
  intros Hok Hlim Hg. unfold vp8_read_frame_header_io, VP.read_frame_header.
  read_step d. rewrite bind_ghost, Hg0. cbn beta iota zeta.
  destruct (Z.land (VP.le24 l) 1 =? 0) eqn:Ek.
  - rewrite bind_assoc. cbn [VP.v_r VP.set_frame VP.set_r].
    read_step d.
    destruct (negb match l1 with [a; b; c] => (a =? 157) && (b =? 1) && (c =? 42) | _ => false end).
    { rewrite bind_fail. split; [reflexivity | assumption]. }
    rewrite bind_assoc. read_step d. rewrite bind_assoc. read_step d. rewrite bind_assoc, bind_ghost, Hg3. cbn beta iota zeta.
    rewrite bind_ret. cbn beta iota zeta. cbn [VP.v_r VP.set_frame VP.set_r VP.set_mbsize VP.set_left VP.set_top].
    read_step d.
    match goal with Hg : tk ?L ?S = ?g |- RefOK d (bind (ghost ?L) _ ?S) _ => rewrite bind_ghost, Hg; pose proof Hg as HgLast end.
    cbn beta iota zeta.
    lift_step2.
    lift_step_eq Ekf.
    match goal with a : (VP.Vp8 * ArithDec.Dec)%type |- _ => destruct a as [?v ?d] end; cbn beta iota zeta.
    match type of Ekf with _ = Ok (?v0, _) => match type of HgLast with _ = ?g => assert (Hv0 : VP.v_r v0 = g) end end.
    { first [ injection Ekf as <- <-; reflexivity
          | inv_ok Ekf; match type of Ekf with (if ?c then _ else _) = _ => destruct c end;
            [discriminate Ekf | injection Ekf as <- <-; reflexivity] ]. }
    lift_step2; cbn [VP.v_b VP.set_b VP.set_segments_enabled]; lift_step_eq Eseg;
    lift_step2; lift_step2; lift_step2; lift_step2; lift_step_eq Elf; lift_step2; lift_step2.
    match goal with |- RefOK _ (bind (init_partitions_io ?lm ?vv ?nn) _ ?ss) _ =>
    let Hgp := fresh "Hgp" in
    assert (Hgp : tk lm ss = VP.v_r vv);
    [ cbn [VP.v_r VP.set_num_partitions VP.set_b]; rewrite (if_frame _ _ _ _ rlfa_v_r Elf);
      cbn [VP.v_r VP.set_b VP.set_frame]; rewrite (if_frame _ _ _ _ rsu_v_r Eseg);
      cbn [VP.v_r VP.set_b VP.set_frame VP.set_segments_enabled VP.set_r]; rewrite Hv0; exact HgLast
    | apply RefOK_bind;
      [ apply init_partitions_refines; assumption
      | let v1 := fresh "v" in let s5 := fresh "s" in let Hok5 := fresh "Hok" in
        intros v1 s5 Hok5; exact (RefOK_lift d _ s5 Hok5) ] ]
    end.
  - rewrite bind_ret. cbn beta iota zeta. cbn [Res.bind]. cbn [VP.v_r VP.set_frame VP.set_r].
    read_step d.
    match goal with Hg : tk ?L ?S = ?g |- RefOK d (bind (ghost ?L) _ ?S) _ => rewrite bind_ghost, Hg; pose proof Hg as HgLast end.
    cbn beta iota zeta.
    lift_step2.
    rewrite bind_lift. cbn [Res.bind]. cbn beta iota zeta.
    lift_step2; cbn [VP.v_b VP.set_b VP.set_segments_enabled]; lift_step_eq Eseg;
    lift_step2; lift_step2; lift_step2; lift_step2; lift_step_eq Elf; lift_step2; lift_step2.
    match goal with |- RefOK _ (bind (init_partitions_io ?lm ?vv ?nn) _ ?ss) _ =>
    let Hgp := fresh "Hgp" in
    assert (Hgp : tk lm ss = VP.v_r vv);
    [ cbn [VP.v_r VP.set_num_partitions VP.set_b]; rewrite (if_frame _ _ _ _ rlfa_v_r Elf);
      cbn [VP.v_r VP.set_b VP.set_frame]; rewrite (if_frame _ _ _ _ rsu_v_r Eseg);
      cbn [VP.v_r VP.set_b VP.set_frame VP.set_segments_enabled VP.set_r]; exact HgLast
    | apply RefOK_bind;
      [ apply init_partitions_refines; assumption
      | let v1 := fresh "v" in let s5 := fresh "s" in let Hok5 := fresh "Hok" in
        intros v1 s5 Hok5; exact (RefOK_lift d _ s5 Hok5) ] ]
    end.
Qed.

(* ---------------------------------------------------------------------------------------------- *)
(* Vp8Decoder::decode_frame over the Take = Model.Vp8Decode.decode_frame on the bytes the Take delivers *)
(* ---------------------------------------------------------------------------------------------- *)
Lemma res_bind_assoc {A B C} (x : res A) (f : A -> res B) (g : B -> res C) :
  Res.bind (Res.bind x f) g = Res.bind x (fun a => Res.bind (f a) g).
Proof. destruct x; reflexivity. Qed.

Lemma Vp8_new_v_r r v : VP.Vp8_new r = Ok v -> VP.v_r v = r.
Proof. intros H. unfold VP.Vp8_new in H. inv_ok H. injection H as <-. reflexivity. Qed.

Lemma RefOK_bind2 {A B C} d (m : M A) (f : A -> M C) s (p : res A) (g : A -> res B) (k : B -> res C) :
  RefOK d (m s) p -> (forall a s', okstate d s' -> RefOK d (f a s') (Res.bind (g a) k)) ->
  RefOK d (bind m f s) (Res.bind (Res.bind p g) k).
Proof.
  intros H1 H2. replace (Res.bind (Res.bind p g) k) with (Res.bind p (fun a => Res.bind (g a) k)) by (destruct p; reflexivity).
  apply RefOK_bind; assumption.
Qed.

Theorem vp8_decode_frame_io_refines d lim s : okstate d s -> 0 <= lim ->
  RefOK d (vp8_decode_frame_io lim s) (Vp8Decode.decode_frame (tk lim s)).
Proof.
  intros Hok Hlim. unfold vp8_decode_frame_io, Vp8Decode.decode_frame, Vp8Frame.parse_frame.
  rewrite bind_ghost. rewrite bind_lift.
  destruct (VP.Vp8_new (tk lim s)) as [v0|e|p|] eqn:Enew; cbn [Res.bind]; try (split; [reflexivity | assumption]).
  apply RefOK_bind2.
  - apply vp8_header_refines; [assumption | assumption | symmetry; apply Vp8_new_v_r; exact Enew].
  - intros v1 s1 Hok1. exact (RefOK_lift d _ s1 Hok1).
Qed.

(* ---------------------------------------------------------------------------------------------- *)
(* read_image of a lossy still without ALPH chunk = Model.ReadImage.read_image                      *)
(* ---------------------------------------------------------------------------------------------- *)
(* the result of Model.ReadImage.read_image as one value: the final buffer or the failure *)
Definition outcome_res (o : RI.outcome) : res (list Z) :=
  match o with
  | (Ok _, Some b) => Ok b
  | (Ok _, None) => Panic PUnreachable
  | (Err e, _) => Err e
  | (Panic p, _) => Panic p
  | (OutOfFuel, _) => OutOfFuel
  end.

Lemma firstn_min {A} n (l : list A) : firstn n l = firstn (Nat.min n (length l)) l.
Proof.
  destruct (Nat.le_ge_cases n (length l)) as [H|H].
  - rewrite Nat.min_l by exact H. reflexivity.
  - rewrite Nat.min_r by exact H. rewrite !firstn_all2; (reflexivity || lia).
Qed.

Lemma takez_dropz_window d p n : 0 <= p -> 0 <= n -> takez n (dropz p d) = RI.window d p n.
Proof.
  intros Hp Hn. unfold RI.window, Model.Container.slice. rewrite takez_firstn, dropz_skipn.
  match goal with |- context [if ?c then [] else _] => destruct c eqn:E end; unfold Model.Container.len in *.
  - apply Z.leb_le in E. rewrite skipn_all2 by lia. apply firstn_nil.
  - apply Z.leb_gt in E. rewrite (firstn_min (Z.to_nat n)). f_equal. rewrite skipn_length. lia.
Qed.

Theorem read_image_vp8_io_no_fault : forall (dec : decoder) (buf : list Z) (s : rstate),
  okstate (d_data dec) s ->
  (forall range, lookup KVP8 (d_chunks dec) = Some range -> 0 <= fst range <= u64_max) ->
  is_animated dec = false -> lookup KVP8L (d_chunks dec) = None ->
  (has_alpha dec = true -> lookup KALPH (d_chunks dec) = None) ->
  erase (fst (read_image_m dec buf s)) = outcome_res (RI.read_image Vp8Decode.decode_frame dec buf).
Proof.
  intros dec buf s Hok Hst Hna Hnl Hal. unfold read_image_m, RI.read_image.
  destruct (negb match output_buffer_size dec with Some n => len buf =? n | None => false end); [reflexivity|].
  rewrite Hna, Hnl. unfold read_image_vp8_m, RI.read_image_vp8.
  destruct (lookup KVP8 (d_chunks dec)) as [range|] eqn:El; [|reflexivity].
  specialize (Hst range eq_refl).
  unfold range_reader_io, RI.range_reader. rewrite bind_assoc.
  destruct (seek_start_ok (d_data dec) s (fst range) Hst Hok) as [Es Hfr]. rewrite (bind_ok _ _ _ _ _ Es).
  set (s1 := set_pos_calls s (fst range) (r_calls s + 1)).
  assert (Hok1 : okstate (d_data dec) s1) by (apply okstate_step; [assumption | lia | lia]).
  rewrite bind_lift. unfold sub_u64. destruct (fst range <=? snd range) eqn:Ele; cbn [Res.bind RI.bindb]; [|reflexivity].
  apply Z.leb_le in Ele.
  destruct (vp8_decode_frame_io_refines (d_data dec) (snd range - fst range) s1 Hok1 ltac:(lia)) as [Er Hok2].
  assert (Htk : tk (snd range - fst range) s1 = RI.window (d_data dec) (fst range) (snd range - fst range)).
  { unfold tk, remaining, s1. cbn [set_pos_calls r_pos r_data]. destruct Hok as (Hd & _). rewrite Hd.
    apply takez_dropz_window; lia. }
  rewrite Htk in Er. unfold bind at 1, handle at 1.
  destruct (vp8_decode_frame_io (snd range - fst range) s1) as [r s2]. cbn [fst snd] in Er, Hok2.
  destruct (Vp8Decode.decode_frame (RI.window (d_data dec) (fst range) (snd range - fst range))) as [[[[[fw fh] yp] up] vp]|e|p|];
    destruct r as [a|x|q|]; cbn [erase] in Er; try discriminate Er; cbn [RI.bindb fst snd erase outcome_res].
  2:{ injection Er as ->. reflexivity. }
  2:{ injection Er as ->. reflexivity. }
  2:{ reflexivity. }
  injection Er as ->.
  destruct (negb (fw =? d_width dec) || negb (fh =? d_height dec)); [reflexivity|].
  destruct (has_alpha dec) eqn:Ea.
  - rewrite (Hal eq_refl). rewrite bind_lift.
    destruct (Yuv.fill_rgba (Z.to_nat fw) yp up vp buf); reflexivity.
  - unfold lift. cbn [fst]. destruct (Yuv.fill_rgb (Z.to_nat fw) yp up vp buf); reflexivity.
Qed.
