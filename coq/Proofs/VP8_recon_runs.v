(* Proofs/VP8_recon_runs.v -- (iii), edges of one macroblock: the loops of Vp8Decoder::loop_filter over the 16 / 8
   positions of an edge and over the inner edges 4, 8, 12 of a plane = Spec.VP8.edge_loop / inner_edges, for any Model
   edge function that refines its Spec counterpart at every valid position ([edge_refines], VP8_recon_edge.v). *)
From Coq Require Import ZArith NArith List Bool Lia.
From WebP Require Import Lib.Res Lib.ZBits Lib.Arr Gen.Kernels Spec.VP8 Model.Vp8Predict Model.Vp8Recon
  Proofs.VP8_predict_base Proofs.VP8_arraykernels Proofs.VP8_recon_base Proofs.VP8_recon_bytes Proofs.VP8_recon_edge.
Import ListNotations.
Open Scope Z_scope.

Section PlaneRuns.
  Variables (f : arr -> Z -> Z -> res arr) (g : Z -> arr -> Z -> arr).
  Hypothesis Hfg : edge_refines f g.
  Variables (w h : Z).
  Hypothesis Hw : 0 < w.

  Lemma valid8_v a X Y : alenZ a = w * h -> 4 <= X -> X + 3 < w -> 0 <= Y < h -> valid8 a (Y * w + X) 1.
  Proof. intros L H1 H2 H3. unfold valid8. rewrite L. assert (Y * w + w <= h * w) by nia. nia. Qed.
  Lemma valid8_h a X Y : alenZ a = w * h -> 0 <= X < w -> 4 <= Y -> Y + 3 < h -> valid8 a (Y * w + X) w.
  Proof. intros L H1 H2 H3. unfold valid8. rewrite L. assert ((Y + 3) * w + w <= h * w) by nia. nia. Qed.

  (* a vertical edge (samples 1 apart) at column X, rows Y0 .. Y0 + n - 1 *)
  Lemma vrun a b X Y0 n (pt : Z -> Z) :
    aeq a b -> abytes_in a -> alenZ a = w * h -> 4 <= X -> X + 3 < w -> 0 <= Y0 -> Y0 + Z.of_nat n <= h ->
    (forall t, 0 <= t < Z.of_nat n -> pt t = (Y0 + t) * w + X) ->
    exists a', for_range n 0 (fun t a => f a (pt t) 1) a = Ok a' /\
               aeq a' (edge_loop (g 1) b (Y0 * w + X) w n) /\ abytes_in a' /\ alen a' = alen a.
  Proof.
    intros Hab Hby L H1 H2 H3 H4 Hpt.
    destruct (edge_run_refines f g pt (Y0 * w + X) w 1 Hfg n 0 a b) as (a' & E & R & B & La); try assumption.
    - intros t Ht. rewrite Hpt by lia. ring.
    - intros t Ht. replace (Y0 * w + X + t * w) with ((Y0 + t) * w + X) by ring. apply valid8_v; try assumption; lia.
    - exists a'. split; [exact E|]. replace (Y0 * w + X + 0 * w) with (Y0 * w + X) in R by ring. split; [exact R|split; [exact B|exact La]].
  Qed.

  (* a horizontal edge (samples w apart) at row Y, columns X0 .. X0 + n - 1 *)
  Lemma hrun a b Y X0 n (pt : Z -> Z) :
    aeq a b -> abytes_in a -> alenZ a = w * h -> 4 <= Y -> Y + 3 < h -> 0 <= X0 -> X0 + Z.of_nat n <= w ->
    (forall t, 0 <= t < Z.of_nat n -> pt t = Y * w + (X0 + t)) ->
    exists a', for_range n 0 (fun t a => f a (pt t) w) a = Ok a' /\
               aeq a' (edge_loop (g w) b (Y * w + X0) 1 n) /\ abytes_in a' /\ alen a' = alen a.
  Proof.
    intros Hab Hby L H1 H2 H3 H4 Hpt.
    destruct (edge_run_refines f g pt (Y * w + X0) 1 w Hfg n 0 a b) as (a' & E & R & B & La); try assumption.
    - intros t Ht. rewrite Hpt by lia. ring.
    - intros t Ht. replace (Y * w + X0 + t * 1) with (Y * w + (X0 + t)) by ring. apply valid8_h; try assumption; lia.
    - exists a'. split; [exact E|]. replace (Y * w + X0 + 0 * 1) with (Y * w + X0) in R by ring. split; [exact R|split; [exact B|exact La]].
  Qed.

  (* inner vertical edges at columns X0 + x, x = x0, x0 + 4, .. (k of them) *)
  Lemma inner_v_run X0 Y0 n : 0 <= X0 -> 0 <= Y0 -> Y0 + Z.of_nat n <= h ->
    forall k x0 a b,
    aeq a b -> abytes_in a -> alenZ a = w * h -> 4 <= x0 -> X0 + x0 + 4 * (Z.of_nat k - 1) + 3 < w ->
    exists a', for_step k x0 4 (fun x a => for_range n 0 (fun t a => f a ((Y0 + t) * w + (X0 + x)) 1) a) a = Ok a' /\
               aeq a' (inner_edges (g 1) b (Y0 * w + X0 + x0 - 4) 4 w n k) /\ abytes_in a' /\ alen a' = alen a.
  Proof.
    intros HX HY Hn. induction k as [|k IH]; intros x0 a b Hab Hby L Hx0 Hfit.
    - exists a. cbn [for_step inner_edges]. split; [reflexivity|]. split; [exact Hab|]. split; [exact Hby|reflexivity].
    - cbn [for_step inner_edges].
      destruct (vrun a b (X0 + x0) Y0 n (fun t => (Y0 + t) * w + (X0 + x0)) Hab Hby L) as (a1 & E1 & R1 & B1 & L1); try lia.
      rewrite E1. cbn [bind].
      destruct (IH (x0 + 4) a1 (edge_loop (g 1) b (Y0 * w + (X0 + x0)) w n)) as (a' & E' & R' & B' & L'); try assumption; try lia.
      { unfold alenZ in *. rewrite L1. exact L. }
      exists a'. split; [exact E'|]. split; [|split; [exact B'|congruence]].
      replace (Y0 * w + X0 + x0 - 4 + 4) with (Y0 * w + (X0 + x0)) by ring.
      replace (Y0 * w + X0 + (x0 + 4) - 4) with (Y0 * w + (X0 + x0)) in R' by ring. exact R'.
  Qed.

  (* inner horizontal edges at rows Y0 + y, y = y0, y0 + 4, .. *)
  Lemma inner_h_run X0 Y0 n : 0 <= X0 -> 0 <= Y0 -> X0 + Z.of_nat n <= w ->
    forall k y0 a b,
    aeq a b -> abytes_in a -> alenZ a = w * h -> 4 <= y0 -> Y0 + y0 + 4 * (Z.of_nat k - 1) + 3 < h ->
    exists a', for_step k y0 4 (fun y a => for_range n 0 (fun t a => f a ((Y0 + y) * w + (X0 + t)) w) a) a = Ok a' /\
               aeq a' (inner_edges (g w) b ((Y0 + y0 - 4) * w + X0) (4 * w) 1 n k) /\ abytes_in a' /\ alen a' = alen a.
  Proof.
    intros HX HY Hn. induction k as [|k IH]; intros y0 a b Hab Hby L Hy0 Hfit.
    - exists a. cbn [for_step inner_edges]. split; [reflexivity|]. split; [exact Hab|]. split; [exact Hby|reflexivity].
    - cbn [for_step inner_edges].
      destruct (hrun a b (Y0 + y0) X0 n (fun t => (Y0 + y0) * w + (X0 + t)) Hab Hby L) as (a1 & E1 & R1 & B1 & L1); try lia.
      rewrite E1. cbn [bind].
      destruct (IH (y0 + 4) a1 (edge_loop (g w) b ((Y0 + y0) * w + X0) 1 n)) as (a' & E' & R' & B' & L'); try assumption; try lia.
      { unfold alenZ in *. rewrite L1. exact L. }
      exists a'. split; [exact E'|]. split; [|split; [exact B'|congruence]].
      replace ((Y0 + y0 - 4) * w + X0 + 4 * w) with ((Y0 + y0) * w + X0) by ring.
      replace ((Y0 + (y0 + 4) - 4) * w + X0) with ((Y0 + y0) * w + X0) in R' by ring. exact R'.
  Qed.
End PlaneRuns.

(* the two chroma planes filtered position by position = each plane filtered on its own *)
Lemma both_run (F : arr -> Z -> Z -> res arr) (pt : Z -> Z) (stride : Z) : forall n t0 u v u' v',
  for_range n t0 (fun t a => F a (pt t) stride) u = Ok u' ->
  for_range n t0 (fun t a => F a (pt t) stride) v = Ok v' ->
  for_range n t0 (fun t => both F (pt t) stride) (u, v) = Ok (u', v').
Proof.
  induction n as [|n IH]; intros t0 u v u' v' Eu Ev; cbn [for_range] in *.
  - injection Eu as <-. injection Ev as <-. reflexivity.
  - unfold both at 1.
    destruct (F u (pt t0) stride) as [u1| | |]; cbn [bind] in Eu |- *; try discriminate.
    destruct (F v (pt t0) stride) as [v1| | |]; cbn [bind] in Ev |- *; try discriminate.
    apply IH; assumption.
Qed.
