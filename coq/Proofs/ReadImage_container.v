(* Glue of read_image, part 2: what WebPDecoder::new leaves in the decoder record for a well-formed STILL file, as far as
   read_image looks at it: dimensions, alpha flag, not animated, and the chunk table entries of the image data chunks
   ('VP8 ', 'VP8L', 'ALPH') with the bytes found there.  Obtained from the container proofs of property C08
   (Proofs/Container_simple.v, Container_scan.v, Container_extended.v); nothing about the container layer is re-proved. *)
From Coq Require Import ZArith List Bool Lia.
From WebP Require Import Lib.Res Lib.ZBits Spec.Container Proofs.Container_bytes Proofs.Container_simple
  Proofs.Container_scan Proofs.Container_extended.
From WebP Require Model.Container.
Import ListNotations.
Open Scope Z_scope.

Ltac Zify.zify_post_hook ::= Z.div_mod_to_equations.

(* the chunk table maps K to the range of payload [p], which is where the file holds it -- or has no entry for K *)
Definition chunk_is (dec : M.decoder) (K : M.chunk_kind) (o : option (list Z)) : Prop :=
  match o with
  | Some p => exists s, M.lookup K (M.d_chunks dec) = Some (s, s + len p) /\ at_pos (M.d_data dec) s p /\ all_bytes p = true
  | None => M.lookup K (M.d_chunks dec) = None
  end.

(* the image data of a still file, by the container specification: the (first) chunk of each kind *)
Definition image_vp8 (c : container) : option (list Z) :=
  match c with
  | SimpleLossy v _ => Some (vp8_bytes v)
  | SimpleLossless _ _ => None
  | Extended _ cs => option_map chunk_payload (find is_vp8 cs)
  end.
Definition image_vp8l (c : container) : option (list Z) :=
  match c with
  | SimpleLossy _ _ => None
  | SimpleLossless l _ => Some (vp8l_bytes l)
  | Extended _ cs => option_map chunk_payload (find is_vp8l cs)
  end.
Definition image_alph (c : container) : option (list Z) :=
  match c with
  | Extended _ cs => option_map chunk_payload (find is_alph cs)
  | _ => None
  end.

Definition still_view (c : container) (dec : M.decoder) : Prop :=
  M.d_data dec = serialize c /\ M.is_animated dec = false
  /\ M.d_width dec = fst (dims c) /\ M.d_height dec = snd (dims c) /\ M.d_has_alpha dec = alpha c
  /\ chunk_is dec M.KVP8 (image_vp8 c) /\ chunk_is dec M.KVP8L (image_vp8l c) /\ chunk_is dec M.KALPH (image_alph c)
  /\ 1 <= fst (dims c) /\ 1 <= snd (dims c) /\ fst (dims c) * snd (dims c) <= 4294967295.

Lemma kp_alph c : kind_pred M.KALPH c = is_alph c. Proof. destruct c; reflexivity. Qed.

(* ---------------------------------------------------------------------------------------------- *)
(* simple layouts                                                                                   *)
(* ---------------------------------------------------------------------------------------------- *)
Lemma new_simple_lossy_view v trail :
  wf (SimpleLossy v trail) = true ->
  exists dec, M.new (serialize (SimpleLossy v trail)) = Ok dec /\ still_view (SimpleLossy v trail) dec.
Proof.
  intros Hwf. rewrite wf_simple_lossy_eq in Hwf. set (c := SimpleLossy v trail) in *.
  rewrite !andb_true_iff in Hwf. destruct Hwf as (Hfs & Hv & _). apply Z.leb_le in Hfs.
  pose proof (all_bytes_vp8 v Hv) as Hbytes.
  unfold vp8_ok in Hv. split_andb.
  destruct (new_prefix c cc_VP8 (vp8_bytes v) (concat (map unknown_bytes trail)) Hfs eq_refl eq_refl)
    as (R0 & R8 & R12 & Hpl & _ & _ & Hsz).
  set (d := serialize c) in *.
  pose proof Hpl as Hpay.
  unfold vp8_bytes in Hpl.
  pose proof (at_pos_app_l _ _ _ _ Hpl) as Htag.
  apply at_pos_app_r in Hpl. rewrite len_le24 in Hpl.
  pose proof (at_pos_app_l _ _ _ _ Hpl) as Hmagic.
  apply at_pos_app_r in Hpl. change (len [157; 1; 42]) with 3 in Hpl.
  pose proof (at_pos_app_l _ _ _ _ Hpl) as Hw.
  apply at_pos_app_r in Hpl. rewrite len_le16 in Hpl.
  pose proof (at_pos_app_l _ _ _ _ Hpl) as Hh.
  replace (20 + 3 + 3) with 26 in * by lia. replace (26 + 2) with 28 in * by lia.
  exists (M.mk_decoder d (v_width v) (v_height v) M.Lossy 0 true false 0 (M.Times 1) 0
            [(M.KVP8, (20, 20 + len (vp8_bytes v)))]).
  split.
  - unfold M.new. rewrite R0. cbn [bind M.kind_eqb negb]. rewrite R8. cbn [bind M.kind_eqb negb]. rewrite R12.
    change (M.from_fourcc cc_VP8) with M.KVP8. cbn [bind].
    rewrite (read_u24_at d 20 (v_tag v) Htag) by lia. cbn [bind].
    rewrite land_1 by lia. rewrite (even_mod2 (v_tag v)) by assumption. cbn [Z.eqb negb].
    rewrite (read_exact_at d (20 + 3) [157; 1; 42] 3 Hmagic eq_refl). cbn [bind M.bytes_eqb Z.eqb Pos.eqb andb negb].
    replace (20 + 3 + 3) with 26 by lia.
    rewrite (read_u16_at d 26 _ Hw) by lia. cbn [bind]. replace (26 + 2) with 28 by lia.
    rewrite (read_u16_at d 28 _ Hh) by lia. cbn [bind].
    rewrite !land_ones_14 by lia.
    replace ((v_width v + 16384 * v_hscale v) mod 16384) with (v_width v) by lia.
    replace ((v_height v + 16384 * v_vscale v) mod 16384) with (v_height v) by lia.
    destruct (v_width v =? 0) eqn:E1; [apply Z.eqb_eq in E1; lia|].
    destruct (v_height v =? 0) eqn:E2; [apply Z.eqb_eq in E2; lia|]. cbn [orb].
    rewrite add_u64_ok by (unfold M.u64_max; pose proof (len_nonneg (vp8_bytes v)); lia). cbn [bind].
    reflexivity.
  - unfold still_view, M.mk_decoder, M.is_animated, chunk_is.
    cbn [M.d_data M.d_kind M.d_width M.d_height M.d_has_alpha M.d_chunks c dims alpha fst snd image_vp8 image_vp8l image_alph
         M.lookup M.kind_eqb].
    repeat split; try reflexivity; try lia; try nia.
    exists 20. repeat split; [exact Hpay | exact Hbytes].
Qed.

Lemma new_simple_lossless_view l trail :
  wf (SimpleLossless l trail) = true ->
  exists dec, M.new (serialize (SimpleLossless l trail)) = Ok dec /\ still_view (SimpleLossless l trail) dec.
Proof.
  intros Hwf. rewrite wf_simple_lossless_eq in Hwf. set (c := SimpleLossless l trail) in *.
  rewrite !andb_true_iff in Hwf. destruct Hwf as (Hfs & Hl & _). apply Z.leb_le in Hfs.
  pose proof (all_bytes_vp8l l Hl) as Hbytes.
  unfold vp8l_ok in Hl. split_andb.
  destruct (new_prefix c cc_VP8L (vp8l_bytes l) (concat (map unknown_bytes trail)) Hfs eq_refl eq_refl)
    as (R0 & R8 & R12 & Hpl & _ & _ & Hsz).
  set (d := serialize c) in *.
  pose proof Hpl as Hpay.
  unfold vp8l_bytes in Hpl.
  pose proof (at_pos_app_l _ _ _ _ Hpl) as Hsig.
  apply at_pos_app_r in Hpl. change (len [47]) with 1 in Hpl.
  pose proof (at_pos_app_l _ _ _ _ Hpl) as Hhdr.
  pose proof (b2z_range (l_alpha l)) as Ha.
  destruct (vp8l_header_fields (l_w1 l) (l_h1 l) (b2z (l_alpha l))) as (F1 & F2 & F3 & F4); try lia.
  exists (M.mk_decoder d (l_w1 l + 1) (l_h1 l + 1) M.Lossless 0 false (negb (b2z (l_alpha l) =? 0)) 0 (M.Times 1) 0
            [(M.KVP8L, (20, 20 + len (vp8l_bytes l)))]).
  split.
  - unfold M.new. rewrite R0. cbn [bind M.kind_eqb negb]. rewrite R8. cbn [bind M.kind_eqb negb]. rewrite R12.
    change (M.from_fourcc cc_VP8L) with M.KVP8L. cbn [bind].
    rewrite (read_u8_at d 20 47 Hsig). cbn [bind Z.eqb Pos.eqb negb].
    rewrite (read_u32_at d (20 + 1) _ Hhdr) by lia. cbn [bind].
    rewrite F1, F2, F3, F4. cbn [Z.eqb negb].
    rewrite !add_u32_ok by (unfold M.u32_max; lia). cbn [bind].
    rewrite add_u64_ok by (unfold M.u64_max; pose proof (len_nonneg (vp8l_bytes l)); lia). cbn [bind].
    reflexivity.
  - unfold still_view, M.mk_decoder, M.is_animated, chunk_is.
    cbn [M.d_data M.d_kind M.d_width M.d_height M.d_has_alpha M.d_chunks c dims alpha fst snd image_vp8 image_vp8l image_alph
         M.lookup M.kind_eqb].
    repeat split; try reflexivity; try lia; try nia.
    + destruct (l_alpha l); reflexivity.
    + exists 20. repeat split; [exact Hpay | exact Hbytes].
Qed.

(* ---------------------------------------------------------------------------------------------- *)
(* extended still                                                                                   *)
(* ---------------------------------------------------------------------------------------------- *)
Lemma chunk_is_after_scan d dec cs K pred :
  M.d_data dec = d -> M.d_chunks dec = M.s_chunks (scan_spec 30 cs st0) ->
  forallb chunk_ok cs = true -> at_pos d 30 (concat (map chunk_bytes cs)) -> all_bytes d = true ->
  (forall c, kind_pred K c = pred c) ->
  chunk_is dec K (option_map chunk_payload (find pred cs)).
Proof.
  intros Hd Hc Hok Hat Hb Hp. unfold chunk_is. rewrite Hd, Hc, (lookup_after_scan _ _ _ _ st0_empty).
  pose proof (first_range_find K cs 30 d Hok Hat) as H. rewrite <- (find_ext' _ _ cs Hp).
  destruct (first_range K 30 cs) as [[s e]|].
  - destruct H as (c & -> & Hpay & -> & Hs). cbn [option_map]. exists s.
    repeat split; [exact Hpay | exact (all_bytes_at d s _ Hb Hpay)].
  - rewrite H. reflexivity.
Qed.

Lemma new_extended_still_view x cs :
  wf (Extended x cs) = true -> x_anim x = false ->
  exists dec, M.new (serialize (Extended x cs)) = Ok dec /\ still_view (Extended x cs) dec.
Proof.
  intros Hwf Ha. rewrite wf_extended_eq in Hwf. rewrite !andb_true_iff in Hwf.
  destruct Hwf as (Hfs & (((((Hx & Hcs) & Hicc) & Hexif) & Hxmp) & Hwc)).
  apply Z.leb_le in Hfs. apply eqb_prop in Hicc, Hexif, Hxmp.
  destruct (new_extended_prefix x cs Hfs Hx Hcs) as (Hnew & Hat & Hd & Hbytes).
  set (d := serialize (Extended x cs)) in *. set (ST := scan_spec 30 cs st0).
  unfold wf_chunks in Hwc. rewrite Ha in Hwc.
  rewrite andb_true_iff, negb_true_iff in Hwc. destruct Hwc as [Hcount Hanmf].
  pose proof (after_scan_still d x cs Ha Hcs Hat Hicc Hexif Hxmp Hcount Hanmf) as Has. cbv zeta in Has.
  eexists. split; [rewrite Hnew; exact Has|].
  unfold vp8x_ok in Hx. split_andb.
  match goal with H : ((x_w1 x + 1) * (x_h1 x + 1) <=? 4294967295) = true |- _ => apply Z.leb_le in H end.
  unfold still_view, M.mk_decoder, M.is_animated.
  cbn [M.d_data M.d_kind M.d_width M.d_height M.d_has_alpha dims alpha fst snd image_vp8 image_vp8l image_alph info_of M.e_animation].
  split; [reflexivity|]. split; [exact Ha|]. split; [reflexivity|]. split; [reflexivity|]. split; [reflexivity|].
  split; [apply (chunk_is_after_scan d _ cs M.KVP8 is_vp8); try assumption; try reflexivity; apply kp_vp8|].
  split; [apply (chunk_is_after_scan d _ cs M.KVP8L is_vp8l); try assumption; try reflexivity; apply kp_vp8l|].
  split; [apply (chunk_is_after_scan d _ cs M.KALPH is_alph); try assumption; try reflexivity; apply kp_alph|].
  repeat split; lia.
Qed.

(* ---------------------------------------------------------------------------------------------- *)
(* every still layout                                                                               *)
(* ---------------------------------------------------------------------------------------------- *)
Theorem new_still_view c :
  wf c = true -> anim c = false -> exists dec, M.new (serialize c) = Ok dec /\ still_view c dec.
Proof.
  destruct c as [v trail | l trail | x cs]; intros Hwf Ha.
  - apply new_simple_lossy_view. exact Hwf.
  - apply new_simple_lossless_view. exact Hwf.
  - apply new_extended_still_view; [exact Hwf | exact Ha].
Qed.

(* a still file holds exactly one of the two bit-stream kinds *)
Lemma still_one_bitstream c : wf c = true -> anim c = false ->
  (exists p, image_vp8 c = Some p /\ image_vp8l c = None) \/ (exists p, image_vp8l c = Some p /\ image_vp8 c = None).
Proof.
  destruct c as [v trail | l trail | x cs]; intros Hwf Ha; cbn [image_vp8 image_vp8l].
  - left. eauto.
  - right. eauto.
  - rewrite wf_extended_eq in Hwf. rewrite !andb_true_iff in Hwf. destruct Hwf as (_ & (_ & Hwc)).
    cbn [anim] in Ha. unfold wf_chunks in Hwc. rewrite Ha in Hwc. rewrite andb_true_iff in Hwc. destruct Hwc as [Hcount _].
    apply Z.eqb_eq in Hcount.
    pose proof (existsb_count is_vp8 cs) as E1. pose proof (existsb_count is_vp8l cs) as E2.
    rewrite existsb_find in E1, E2. unfold count in *.
    pose proof (len_nonneg (filter is_vp8 cs)). pose proof (len_nonneg (filter is_vp8l cs)).
    destruct (find is_vp8 cs) as [c1|], (find is_vp8l cs) as [c2|]; cbn [option_map];
      symmetry in E1, E2; try apply Z.ltb_lt in E1; try apply Z.ltb_lt in E2; try apply Z.ltb_ge in E1; try apply Z.ltb_ge in E2;
      try lia; [left | right]; eauto.
Qed.
