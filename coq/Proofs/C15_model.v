(* C15, part 3: the Rust decoder's model (Model.ArithDec).
   (a) panic-freedom and a pure description of every bit-level function under a data-independent invariant
       (range in 128..255, bit_count in -8..31): no debug_assert fires, no checked operation overflows;
   (b) the speculative (fast) bit read equals the fallback (cold) one whenever it did not invent a chunk;
   (c) the cold bit read is a window onto the ideal state of C15_ideal, with the exact exhaustion behaviour. *)
From Coq Require Import ZArith Lia List Bool.
From WebP Require Import Lib.Res Gen.Kernels Gen.Tables Lib.ZBits Proofs.C15_num Proofs.C15_ideal Spec.RfcBoolDec Model.ArithDec.
Import ListNotations.
Open Scope Z_scope.

(* ---- machine arithmetic helpers ---- *)
Lemma u32_sub_ok a b : b <= a -> u32_sub a b = Ok (a - b).
Proof. intros H. unfold u32_sub. apply Z.leb_le in H. rewrite H. reflexivity. Qed.
Lemma u32_mul_ok a b : a * b <= u32_max -> u32_mul a b = Ok (a * b).
Proof. intros H. unfold u32_mul. apply Z.leb_le in H. rewrite H. reflexivity. Qed.
Lemma u32_add_ok a b : a + b <= u32_max -> u32_add a b = Ok (a + b).
Proof. intros H. unfold u32_add. apply Z.leb_le in H. rewrite H. reflexivity. Qed.
Lemma i32_add_ok a b : i32_min <= a + b <= i32_max -> i32_add a b = Ok (a + b).
Proof. intros [H1 H2]. unfold i32_add. apply Z.leb_le in H1, H2. rewrite H1, H2. reflexivity. Qed.
Lemma i32_sub_ok a b : i32_min <= a - b <= i32_max -> i32_sub a b = Ok (a - b).
Proof. intros [H1 H2]. unfold i32_sub. apply Z.leb_le in H1, H2. rewrite H1, H2. reflexivity. Qed.
Lemma i8_sub_ok a b : -128 <= a - b <= 127 -> i8_sub a b = Ok (a - b).
Proof. intros [H1 H2]. unfold i8_sub. apply Z.leb_le in H1, H2. rewrite H1, H2. reflexivity. Qed.
Lemma usize_add_ok a b : a + b < u64_mod -> usize_add a b = Ok (a + b).
Proof. intros H. unfold usize_add. apply Z.ltb_lt in H. rewrite H. reflexivity. Qed.
Lemma u64_shl_ok x s : 0 <= s < 64 -> u64_shl x s = Ok ((x * 2 ^ s) mod u64_mod).
Proof. intros [H1 H2]. unfold u64_shl. apply Z.leb_le in H1. apply Z.ltb_lt in H2. rewrite H1, H2. reflexivity. Qed.
Lemma u32_shl_ok x s : 0 <= s < 32 -> u32_shl x s = Ok ((x * 2 ^ s) mod 2 ^ 32).
Proof. intros [H1 H2]. unfold u32_shl. apply Z.leb_le in H1. apply Z.ltb_lt in H2. rewrite H1, H2. reflexivity. Qed.

Lemma log2_byte r : 1 <= r <= 255 -> 0 <= Z.log2 r <= 7.
Proof.
  intros H. split; [apply Z.log2_nonneg|].
  assert (Z.log2 r < 8) by (apply Z.log2_lt_pow2; [lia | change (2 ^ 8) with 256; lia]). lia.
Qed.

Lemma shift_is_norm r : 1 <= r <= 255 -> u32_saturating_sub (u32_leading_zeros r) 24 = norm_shift r.
Proof.
  intros H. pose proof (log2_byte r H). unfold u32_saturating_sub, u32_leading_zeros, norm_shift.
  destruct (Z.leb_spec r 0); lia.
Qed.

(* ---- the bit step after the refill, as a pure function ---- *)
Definition tail_pure (v r bc p : Z) : bool * Z * Z * Z :=
  let split := split_of r p in
  let big := split * 2 ^ bc in
  let b := big <=? v in
  let r1 := if b then r - split else split in
  let v1 := if b then v - big else v in
  let s := norm_shift r1 in
  (b, v1, r1 * 2 ^ s, bc - s).

Lemma tail_common r bc split : 128 <= r <= 255 -> 0 <= bc <= 31 -> 1 <= split <= r - 1 ->
  forall (b : bool) (r1 v1 : Z), r1 = (if b then r - split else split) ->
  (if negb (0 <? r1) then Panic PAssert else
   let shift := u32_saturating_sub (u32_leading_zeros r1) 24 in
   bind (u32_shl r1 shift) (fun range2 => bind (i32_sub bc shift) (fun bit_count2 =>
   if negb (128 <=? range2) then Panic PAssert else Ok (b, v1, range2, bit_count2))))
  = Ok (b, v1, r1 * 2 ^ norm_shift r1, bc - norm_shift r1).
Proof.
  intros Hr Hbc Hs b r1 v1 E.
  assert (Hr1 : 1 <= r1 <= 255) by (subst r1; destruct b; lia).
  destruct (norm_shift_facts r1 Hr1) as (Hn1 & Hn2 & _).
  assert (E0 : (0 <? r1) = true) by (apply Z.ltb_lt; lia). rewrite E0. cbn [negb].
  cbv zeta. rewrite (shift_is_norm r1 Hr1).
  rewrite u32_shl_ok by lia. cbn [bind].
  rewrite i32_sub_ok by (unfold i32_min, i32_max; lia). cbn [bind].
  rewrite Z.mod_small by (change (2 ^ 32) with 4294967296; lia).
  assert (E1 : (128 <=? r1 * 2 ^ norm_shift r1) = true) by (apply Z.leb_le; lia). rewrite E1. reflexivity.
Qed.

Lemma read_bit_tail_ok v r bc p : 128 <= r <= 255 -> 0 <= bc <= 31 -> 0 <= p <= 255 ->
  read_bit_tail v r bc p = Ok (tail_pure v r bc p).
Proof.
  intros Hr Hbc Hp. pose proof (split_of_range r p ltac:(lia) Hp) as Hs.
  unfold read_bit_tail, tail_pure.
  assert (E0 : (0 <=? bc) = true) by (apply Z.leb_le; lia). rewrite E0. cbn [negb].
  rewrite u32_sub_ok by lia. cbn [bind].
  rewrite u32_mul_ok by (unfold u32_max; nia). cbn [bind].
  pose proof Hs as Hs'. unfold split_of in Hs'.
  rewrite u32_add_ok by (unfold u32_max; lia). cbn [bind]. clear Hs'.
  fold (split_of r p). set (split := split_of r p) in *.
  rewrite u64_shl_ok by lia. cbn [bind].
  assert (Hbig : 0 <= split * 2 ^ bc < u64_mod).
  { pose proof (pow2_pos bc ltac:(lia)). pose proof (pow2_le bc 31 ltac:(lia)). change (2 ^ 31) with 2147483648 in *.
    unfold u64_mod. nia. }
  rewrite Z.mod_small by exact Hbig.
  unfold u64_checked_sub.
  destruct (split * 2 ^ bc <=? v) eqn:Eb.
  - rewrite u32_sub_ok by lia. cbn [bind].
    exact (tail_common r bc split Hr Hbc Hs true (r - split) (v - split * 2 ^ bc) eq_refl).
  - cbn [bind].
    exact (tail_common r bc split Hr Hbc Hs false split v eq_refl).
Qed.

Lemma read_flag_tail_ok v r bc : 128 <= r <= 255 -> 0 <= bc <= 31 ->
  read_flag_tail v r bc = Ok (tail_pure v r bc 128).
Proof.
  intros Hr Hbc. pose proof (split_of_range r 128 ltac:(lia) ltac:(lia)) as Hs.
  destruct (split_half r ltac:(lia)) as [Eh1 Eh2].
  unfold read_flag_tail, tail_pure.
  assert (E0 : (0 <=? bc) = true) by (apply Z.leb_le; lia). rewrite E0. cbn [negb]. cbv zeta.
  rewrite u32_sub_ok by lia. cbn [bind]. rewrite Eh1. set (split := split_of r 128) in *.
  rewrite u64_shl_ok by lia. cbn [bind].
  assert (Hbig : 0 <= split * 2 ^ bc < u64_mod).
  { pose proof (pow2_pos bc ltac:(lia)). pose proof (pow2_le bc 31 ltac:(lia)). change (2 ^ 31) with 2147483648 in *.
    unfold u64_mod. nia. }
  rewrite Z.mod_small by exact Hbig.
  unfold u64_checked_sub. rewrite Eh2.
  destruct (split * 2 ^ bc <=? v) eqn:Eb.
  - exact (tail_common r bc split Hr Hbc Hs true (r - split) (v - split * 2 ^ bc) eq_refl).
  - exact (tail_common r bc split Hr Hbc Hs false split v eq_refl).
Qed.

Lemma tail_pure_facts v r bc p : 128 <= r <= 255 -> 0 <= bc <= 31 -> 0 <= p <= 255 ->
  let '(_, _, r', bc') := tail_pure v r bc p in 128 <= r' <= 255 /\ bc - 7 <= bc' <= bc.
Proof.
  intros Hr Hbc Hp. pose proof (split_of_range r p ltac:(lia) Hp) as Hs. unfold tail_pure.
  set (split := split_of r p) in *. set (b := split * 2 ^ bc <=? v).
  set (r1 := if b then r - split else split).
  assert (Hr1 : 1 <= r1 <= 255) by (unfold r1; destruct b; lia).
  destruct (norm_shift_facts r1 Hr1) as (Hn1 & Hn2 & _). lia.
Qed.

(* ---- states ---- *)
Definition safe (s : State) : Prop := 128 <= range s <= 255 /\ -8 <= bit_count s <= 31 /\ 0 <= chunk_index s.

Definition pure_load (s : State) (c : list Z) : State :=
  mkState (chunk_index s + 1) (Z.lor ((value s * 2 ^ 32) mod u64_mod) (be32 c)) (range s) (bit_count s + 32).

Lemma load_chunk_ok s c : chunk_index s + 1 < u64_mod -> -8 <= bit_count s <= 31 -> load_chunk s c = Ok (pure_load s c).
Proof.
  intros Hc Hb. unfold load_chunk, pure_load. rewrite usize_add_ok by lia. cbn [bind].
  rewrite u64_shl_ok by lia. cbn [bind]. rewrite i32_add_ok by (unfold i32_min, i32_max; lia). reflexivity.
Qed.

Definition tail_on (s : State) (p : Z) : bool * State :=
  let '(b, v, r, bc) := tail_pure (value s) (range s) (bit_count s) p in (b, mkState (chunk_index s) v r bc).

Lemma tail_on_facts s p : 128 <= range s <= 255 -> 0 <= bit_count s <= 31 -> 0 <= chunk_index s -> 0 <= p <= 255 ->
  safe (snd (tail_on s p)) /\ chunk_index (snd (tail_on s p)) = chunk_index s.
Proof.
  intros Hr Hb Hc Hp. pose proof (tail_pure_facts (value s) (range s) (bit_count s) p Hr Hb Hp) as H.
  unfold tail_on. destruct (tail_pure (value s) (range s) (bit_count s) p) as [[[b v] r] bc]. cbn [snd].
  unfold safe. cbn [range bit_count chunk_index]. lia.
Qed.

Definition zero_chunk : list Z := [0; 0; 0; 0].
Definition fast_load_pure (ch : list (list Z)) (s : State) : State :=
  if bit_count s <? 0
  then pure_load s (match nth_error ch (Z.to_nat (chunk_index s)) with Some c => c | None => zero_chunk end)
  else s.
Definition fast_pure (ch : list (list Z)) (s : State) (p : Z) : bool * State := tail_on (fast_load_pure ch s) p.

Lemma fast_load_ok ch s : safe s -> chunk_index s + 1 < u64_mod -> fast_load ch s = Ok (fast_load_pure ch s).
Proof.
  intros (Hr & Hb & Hc) Hu. unfold fast_load, fast_load_pure. destruct (bit_count s <? 0); [|reflexivity].
  apply load_chunk_ok; lia.
Qed.

Lemma fast_load_pure_facts ch s : safe s ->
  let s1 := fast_load_pure ch s in
  128 <= range s1 <= 255 /\ 0 <= bit_count s1 <= 31 /\ chunk_index s <= chunk_index s1 <= chunk_index s + 1.
Proof.
  intros (Hr & Hb & Hc). unfold fast_load_pure. destruct (Z.ltb_spec (bit_count s) 0).
  - unfold pure_load. cbn [range bit_count chunk_index]. lia.
  - lia.
Qed.

Lemma fast_read_bit_ok ch s p : safe s -> chunk_index s + 1 < u64_mod -> 0 <= p <= 255 ->
  fast_read_bit ch s p = Ok (fast_pure ch s p).
Proof.
  intros Hs Hu Hp. unfold fast_read_bit, fast_pure, tail_on. rewrite fast_load_ok by assumption. cbn [bind].
  destruct (fast_load_pure_facts ch s Hs) as (Hr & Hb & _).
  rewrite read_bit_tail_ok by assumption. cbn [bind].
  destruct (tail_pure _ _ _ p) as [[[b v] r] bc]. reflexivity.
Qed.

Lemma fast_read_flag_ok ch s : safe s -> chunk_index s + 1 < u64_mod -> fast_read_flag ch s = Ok (fast_pure ch s 128).
Proof.
  intros Hs Hu. unfold fast_read_flag, fast_pure, tail_on. rewrite fast_load_ok by assumption. cbn [bind].
  destruct (fast_load_pure_facts ch s Hs) as (Hr & Hb & _).
  rewrite read_flag_tail_ok by assumption. cbn [bind].
  destruct (tail_pure _ _ _ 128) as [[[b v] r] bc]. reflexivity.
Qed.

Lemma fast_pure_facts ch s p : safe s -> 0 <= p <= 255 ->
  safe (snd (fast_pure ch s p)) /\ chunk_index s <= chunk_index (snd (fast_pure ch s p)) <= chunk_index s + 1.
Proof.
  intros Hs Hp. destruct (fast_load_pure_facts ch s Hs) as (Hr & Hb & Hc).
  destruct Hs as (_ & _ & H0).
  destruct (tail_on_facts (fast_load_pure ch s) p Hr Hb ltac:(lia) Hp) as [H1 H2].
  unfold fast_pure. split; [exact H1 | lia].
Qed.

(* ---- the cold path ---- *)
Definition final_pure (d : Dec) : Dec :=
  let s := state d in
  if 1 <=? final_bytes_remaining d then
    mkDec (chunks d) (mkState (chunk_index s) (Z.lor ((value s * 2 ^ 8) mod u64_mod) (nth 0 (final_bytes d) 0)) (range s) (bit_count s + 8))
          (rotate_left1 (final_bytes d)) (final_bytes_remaining d - 1)
  else if final_bytes_remaining d =? 0 then
    mkDec (chunks d) (mkState (chunk_index s) ((value s * 2 ^ 8) mod u64_mod) (range s) (bit_count s + 8)) (final_bytes d) (final_bytes_remaining d - 1)
  else mkDec (chunks d) s (final_bytes d) FINAL_BYTES_REMAINING_EOF.

Definition fbr_ok (x : Z) : Prop := -1 <= x <= 3 \/ x = FINAL_BYTES_REMAINING_EOF.

Lemma load_from_final_bytes_ok d : length (final_bytes d) = 3%nat -> -8 <= bit_count (state d) <= 31 -> fbr_ok (final_bytes_remaining d) ->
  load_from_final_bytes d = Ok (final_pure d).
Proof.
  intros Hl Hb Hf. unfold load_from_final_bytes, final_pure. cbv zeta.
  assert (HE : FINAL_BYTES_REMAINING_EOF = -14) by reflexivity.
  destruct (Z.leb_spec 1 (final_bytes_remaining d)).
  - rewrite i8_sub_ok by (destruct Hf; lia). cbn [bind].
    destruct (final_bytes d) as [|x tl]; [discriminate|]. cbn [nth_error of_option bind nth].
    rewrite u64_shl_ok by lia. cbn [bind]. rewrite i32_add_ok by (unfold i32_min, i32_max; lia). reflexivity.
  - destruct (Z.eqb_spec (final_bytes_remaining d) 0) as [E | NE]; [|reflexivity].
    rewrite i8_sub_ok by lia. cbn [bind].
    rewrite u64_shl_ok by lia. cbn [bind]. rewrite i32_add_ok by (unfold i32_min, i32_max; lia). reflexivity.
Qed.

Definition cold_pure (d : Dec) (p : Z) : bool * Dec :=
  if bit_count (state d) <? 0 then
    match nth_error (chunks d) (Z.to_nat (chunk_index (state d))) with
    | Some c => let '(b, s') := tail_on (pure_load (state d) c) p in (b, set_state d s')
    | None => let d1 := final_pure d in
              if is_past_eof d1 then (false, d1) else let '(b, s') := tail_on (state d1) p in (b, set_state d1 s')
    end
  else let '(b, s') := tail_on (state d) p in (b, set_state d s').

Definition nchunks (d : Dec) : Z := Z.of_nat (length (chunks d)).

Definition wsafe (d : Dec) : Prop :=
  safe (state d) /\ chunk_index (state d) <= nchunks d /\ nchunks d + 1 < u64_mod /\
  length (final_bytes d) = 3%nat /\ fbr_ok (final_bytes_remaining d).

Lemma tail_step_ok (d1 : Dec) p : 128 <= range (state d1) <= 255 -> 0 <= bit_count (state d1) <= 31 -> 0 <= p <= 255 ->
  bind (read_bit_tail (value (state d1)) (range (state d1)) (bit_count (state d1)) p)
       (fun '(retval, v, r, bc) => Ok (retval, set_state d1 (mkState (chunk_index (state d1)) v r bc)))
  = Ok (let '(b, s') := tail_on (state d1) p in (b, set_state d1 s')).
Proof.
  intros Hr Hb Hp. rewrite read_bit_tail_ok by assumption. cbn [bind]. unfold tail_on.
  destruct (tail_pure _ _ _ p) as [[[b v] r] bc]. reflexivity.
Qed.

Lemma final_pure_facts d : wsafe d ->
  let d1 := final_pure d in
  chunks d1 = chunks d /\ length (final_bytes d1) = 3%nat /\ fbr_ok (final_bytes_remaining d1) /\
  chunk_index (state d1) = chunk_index (state d) /\ range (state d1) = range (state d) /\
  (is_past_eof d1 = false -> bit_count (state d1) = bit_count (state d) + 8) /\
  (is_past_eof d1 = true -> state d1 = state d /\ final_bytes d1 = final_bytes d /\ final_bytes_remaining d < 0).
Proof.
  intros (Hs & Hc & Hn & Hl & Hf). unfold final_pure. cbv zeta.
  assert (HE : FINAL_BYTES_REMAINING_EOF = -14) by reflexivity. unfold fbr_ok in *. unfold is_past_eof.
  destruct (Z.leb_spec 1 (final_bytes_remaining d)).
  - cbn [chunks final_bytes final_bytes_remaining state chunk_index range bit_count].
    assert (Hrl : length (rotate_left1 (final_bytes d)) = 3%nat).
    { destruct (final_bytes d) as [|x [|y [|z [|w tl]]]]; try discriminate. reflexivity. }
    repeat split; try lia; try assumption; intros E; apply Z.eqb_eq in E; destruct Hf; lia.
  - destruct (Z.eqb_spec (final_bytes_remaining d) 0) as [E0 | NE].
    + cbn [chunks final_bytes final_bytes_remaining state chunk_index range bit_count].
      repeat split; try lia; try assumption; intros E; apply Z.eqb_eq in E; lia.
    + cbn [chunks final_bytes final_bytes_remaining state chunk_index range bit_count].
      repeat split; try lia; try assumption; try reflexivity;
        try (intros E; rewrite Z.eqb_refl in E; discriminate); try (destruct Hf; lia).
Qed.

Lemma cold_read_bit_ok d p : wsafe d -> 0 <= p <= 255 -> cold_read_bit d p = Ok (cold_pure d p).
Proof.
  intros Hw Hp. pose proof Hw as (Hs & Hc & Hn & Hl & Hf). destruct Hs as (Hr & Hb & H0).
  unfold cold_read_bit, cold_pure.
  destruct (Z.ltb_spec (bit_count (state d)) 0) as [L | G].
  - destruct (nth_error (chunks d) (Z.to_nat (chunk_index (state d)))) as [c|] eqn:En.
    + rewrite load_chunk_ok by (unfold nchunks in *; lia). cbn [bind].
      apply (tail_step_ok (set_state d (pure_load (state d) c)) p); unfold set_state, pure_load; cbn [state range bit_count]; lia.
    + rewrite load_from_final_bytes_ok by assumption. cbn [bind].
      destruct (final_pure_facts d Hw) as (F1 & F2 & F3 & F4 & F5 & F6 & F7).
      destruct (is_past_eof (final_pure d)) eqn:Ee; cbn [bind]; [reflexivity|].
      specialize (F6 eq_refl). apply (tail_step_ok (final_pure d) p); lia.
  - cbn [bind]. apply (tail_step_ok d p); lia.
Qed.

Lemma set_state_facts d s : chunks (set_state d s) = chunks d /\ state (set_state d s) = s /\
  final_bytes (set_state d s) = final_bytes d /\ final_bytes_remaining (set_state d s) = final_bytes_remaining d.
Proof. unfold set_state. cbn. repeat split. Qed.

Lemma cold_pure_wsafe d p : wsafe d -> 0 <= p <= 255 -> wsafe (snd (cold_pure d p)) /\ chunks (snd (cold_pure d p)) = chunks d.
Proof.
  intros Hw Hp. pose proof Hw as (Hs & Hc & Hn & Hl & Hf). destruct Hs as (Hr & Hb & H0).
  unfold cold_pure.
  destruct (Z.ltb_spec (bit_count (state d)) 0) as [L | G].
  - destruct (nth_error (chunks d) (Z.to_nat (chunk_index (state d)))) as [c|] eqn:En.
    + assert (Hlt : chunk_index (state d) < nchunks d).
      { assert (Hx : (Z.to_nat (chunk_index (state d)) < length (chunks d))%nat) by (apply nth_error_Some; rewrite En; discriminate).
        unfold nchunks. lia. }
      destruct (tail_on_facts (pure_load (state d) c) p) as [T1 T2]; try (unfold pure_load; cbn [range bit_count chunk_index]; lia).
      destruct (tail_on (pure_load (state d) c) p) as [b s']. cbn [snd] in *.
      unfold wsafe, nchunks, set_state. cbn [chunks state final_bytes final_bytes_remaining].
      unfold pure_load in T2. cbn [chunk_index] in T2. unfold nchunks in *. repeat split; try assumption; try lia; apply T1.
    + destruct (final_pure_facts d Hw) as (F1 & F2 & F3 & F4 & F5 & F6 & F7).
      destruct (is_past_eof (final_pure d)) eqn:Ee.
      * cbn [snd]. split; [|exact F1]. destruct (F7 eq_refl) as (G1 & G2 & G3).
        unfold wsafe, nchunks. rewrite F1, G1, F2. unfold nchunks in *. repeat split; try assumption; lia.
      * specialize (F6 eq_refl).
        destruct (tail_on_facts (state (final_pure d)) p) as [T1 T2]; try lia.
        destruct (tail_on (state (final_pure d)) p) as [b s']. cbn [snd] in *.
        unfold wsafe, nchunks, set_state. cbn [chunks state final_bytes final_bytes_remaining]. rewrite F1.
        unfold nchunks in *. repeat split; try assumption; try lia; apply T1.
  - destruct (tail_on_facts (state d) p) as [T1 T2]; try lia.
    destruct (tail_on (state d) p) as [b s']. cbn [snd] in *.
    unfold wsafe, nchunks, set_state. cbn [chunks state final_bytes final_bytes_remaining].
    unfold nchunks in *. repeat split; try assumption; try lia; apply T1.
Qed.

(* ---- (b) fast = cold when no chunk was invented ---- *)
Lemma fast_cold_bit d p : wsafe d -> 0 <= p <= 255 ->
  chunk_index (snd (fast_pure (chunks d) (state d) p)) <= nchunks d ->
  cold_pure d p = (fst (fast_pure (chunks d) (state d) p), set_state d (snd (fast_pure (chunks d) (state d) p))).
Proof.
  intros Hw Hp. pose proof Hw as (Hs & Hc & Hn & Hl & Hf). destruct Hs as (Hr & Hb & H0).
  unfold cold_pure, fast_pure, fast_load_pure.
  destruct (Z.ltb_spec (bit_count (state d)) 0) as [L | G].
  - destruct (nth_error (chunks d) (Z.to_nat (chunk_index (state d)))) as [c|] eqn:En.
    + intros _. destruct (tail_on (pure_load (state d) c) p) as [b s']. reflexivity.
    + intros Hle. exfalso.
      destruct (tail_on_facts (pure_load (state d) zero_chunk) p) as [T1 T2]; try (unfold pure_load; cbn [range bit_count chunk_index]; lia).
      rewrite T2 in Hle. unfold pure_load in Hle. cbn [chunk_index] in Hle.
      apply nth_error_None in En. unfold nchunks in *. lia.
  - intros _. destruct (tail_on (state d) p) as [b s']. reflexivity.
Qed.

(* ---- (c) the cold path is a window onto the ideal state ---- *)
Lemma lor_shift_add v k e : 0 <= k -> 0 <= e < 2 ^ k -> 0 <= v * 2 ^ k < u64_mod -> Z.lor ((v * 2 ^ k) mod u64_mod) e = v * 2 ^ k + e.
Proof.
  intros Hk He Hv. rewrite Z.mod_small by exact Hv. rewrite Z.lor_comm. rewrite lor_low_high by assumption. lia.
Qed.

(* the arithmetic of a refill of k bits (k = 32: a chunk, k = 8: a final byte or the tolerated zero byte) *)
Lemma load_numeric A v bc k N N' v' e : -8 <= bc < 0 -> 8 <= k -> 0 <= v < 2 ^ (8 + bc) -> (N - v) * 2 ^ (- bc) = A ->
  0 <= e < 2 ^ k -> N' = N * 2 ^ k + e -> v' = v * 2 ^ k + e ->
  0 <= v' < 2 ^ (8 + (bc + k)) /\ N' - v' = A * 2 ^ (bc + k).
Proof.
  intros Hbc Hk Hv HA He HN Hv'. subst N' v' A.
  pose proof (pow2_pos k ltac:(lia)). pose proof (pow2_pos (8 + bc) ltac:(lia)).
  replace (8 + (bc + k)) with ((8 + bc) + k) by lia. rewrite (pow2_add (8 + bc) k) by lia.
  assert (Ek : 2 ^ k = 2 ^ (- bc) * 2 ^ (bc + k)) by (rewrite <- pow2_add by lia; f_equal; lia).
  split; [nia|].
  replace (N * 2 ^ k + e - (v * 2 ^ k + e)) with ((N - v) * 2 ^ k) by ring.
  rewrite Ek. ring.
Qed.

Lemma be32_range c0 c1 c2 c3 : byte c0 -> byte c1 -> byte c2 -> byte c3 -> 0 <= be32 [c0; c1; c2; c3] < 2 ^ 32.
Proof. unfold byte, be32. change (2 ^ 32) with 4294967296. lia. Qed.

Section Sim.
Variable data : list Z.
Hypothesis Hbytes : Forall byte data.
Notation pre := (pre data).
Notation numZ := (numZ data).
Notation byte_at := (byte_at data).
Notation ih := (ih data).
Notation ideal_step := (ideal_step data).
Notation ideal_ok := (ideal_ok data).

Definition len : Z := Z.of_nat (length data).

Definition chunks_ok (ch : list (list Z)) : Prop :=
  Z.of_nat (length ch) = len / 4 /\
  forall j, 0 <= j < len / 4 ->
    nth_error ch (Z.to_nat j) = Some [byte_at (4 * j); byte_at (4 * j + 1); byte_at (4 * j + 2); byte_at (4 * j + 3)].

(* bytes loaded into `value` so far *)
Definition loaded (d : Dec) : Z := 4 * chunk_index (state d) + len mod 4 - final_bytes_remaining d.

Record modinv (i : ideal) (d : Dec) : Prop := mkModinv {
  mi_chunks : chunks_ok (chunks d);
  mi_big : len / 4 + 1 < u64_mod;
  mi_ci : 0 <= chunk_index (state d) <= len / 4;
  mi_fbr : -1 <= final_bytes_remaining d <= len mod 4;
  mi_fin : final_bytes_remaining d < len mod 4 -> chunk_index (state d) = len / 4;
  mi_fbl : length (final_bytes d) = 3%nat;
  mi_fb : forall j, 0 <= j < final_bytes_remaining d ->
          nth (Z.to_nat j) (final_bytes d) 0 = byte_at (4 * (len / 4) + (len mod 4 - final_bytes_remaining d) + j);
  mi_bc : bit_count (state d) = 8 * loaded d - 8 - iT i;
  mi_bcr : -8 <= bit_count (state d) <= 31;
  mi_range : range (state d) = iR i;
  mi_val : 0 <= value (state d) < 2 ^ (8 + bit_count (state d));
  mi_pos : 0 <= bit_count (state d) -> numZ (loaded d) - value (state d) = iA i * 2 ^ bit_count (state d);
  mi_neg : bit_count (state d) < 0 -> (numZ (loaded d) - value (state d)) * 2 ^ (- bit_count (state d)) = iA i }.

Lemma modinv_wsafe i d : ideal_ok i -> modinv i d -> wsafe d.
Proof.
  intros (HR & _) M. destruct M. destruct mi_chunks0 as [Hl _].
  pose proof (Z.mod_pos_bound len 4).
  unfold wsafe, safe, nchunks, fbr_ok. rewrite Hl, mi_range0. repeat split; try lia; try assumption.
Qed.

Lemma modinv_wsafe_R i d : 128 <= iR i <= 255 -> modinv i d -> wsafe d.
Proof.
  intros HR M. destruct M. destruct mi_chunks0 as [Hl _].
  pose proof (Z.mod_pos_bound len 4).
  unfold wsafe, safe, nchunks, fbr_ok. rewrite Hl, mi_range0. repeat split; try lia; try assumption.
Qed.

Lemma loaded_bounds i d : modinv i d -> 0 <= loaded d <= len + 1.
Proof. intros M. destruct M. unfold loaded. pose proof (Z.mod_pos_bound len 4). pose proof (Z.div_mod len 4). lia. Qed.

Definition dead (d : Dec) : Prop :=
  wsafe d /\ final_bytes_remaining d = FINAL_BYTES_REMAINING_EOF /\ bit_count (state d) < 0 /\
  nth_error (chunks d) (Z.to_nat (chunk_index (state d))) = None.

Lemma dead_bit d p : dead d -> cold_pure d p = (false, d).
Proof.
  intros (Hw & He & Hb & Hn). unfold cold_pure. apply Z.ltb_lt in Hb. rewrite Hb, Hn.
  assert (E : final_pure d = d).
  { unfold final_pure. cbv zeta. rewrite He. change (1 <=? FINAL_BYTES_REMAINING_EOF) with false.
    change (FINAL_BYTES_REMAINING_EOF =? 0) with false. cbv iota. rewrite <- He. destruct d. reflexivity. }
  rewrite E. unfold is_past_eof. rewrite He. rewrite Z.eqb_refl. reflexivity.
Qed.

Lemma tail_sim i d p : ideal_ok i -> modinv i d -> 0 <= bit_count (state d) -> 0 <= p <= 255 ->
  fst (tail_on (state d) p) = fst (ideal_step i p) /\
  modinv (snd (ideal_step i p)) (set_state d (snd (tail_on (state d) p))).
Proof.
  intros (HR & HT & HA & Hh) M Hbc Hp. pose proof (loaded_bounds i d M) as Hld. destruct M.
  specialize (mi_pos0 Hbc). clear mi_neg0.
  pose proof (split_of_range (iR i) p ltac:(lia) Hp) as Hs.
  unfold tail_on, tail_pure, C15_ideal.ideal_step. rewrite mi_range0.
  set (split := split_of (iR i) p) in *. set (bc := bit_count (state d)) in *. set (ld := loaded d) in *.
  set (v := value (state d)) in *.
  pose proof (pow2_pos bc Hbc) as Hq. set (q := 2 ^ bc) in *.
  assert (Hpre : pre (iT i + 8) = numZ ld / q).
  { rewrite (pre_any data Hbytes (iT i + 8) ld) by lia. unfold q. f_equal. f_equal. lia. }
  destruct (div_mod_split (numZ ld) q Hq) as [t [Ht Et]]. rewrite <- Hpre in Et.
  assert (Ecmp : (split * q <=? v) = (split <=? ih i)).
  { unfold C15_ideal.ih in *. destruct (Z.leb_spec split (pre (iT i + 8) - iA i)); [apply Z.leb_le | apply Z.leb_gt]; nia. }
  rewrite Ecmp. set (b := split <=? ih i).
  cbn [fst snd]. split; [reflexivity|].
  set (A1 := if b then iA i + split else iA i).
  set (R1 := if b then iR i - split else split).
  set (v1 := if b then v - split * q else v).
  assert (HR1 : 1 <= R1 <= 255) by (unfold R1; destruct b; lia).
  assert (Hh1 : 0 <= pre (iT i + 8) - A1 < R1).
  { unfold A1, R1, b. unfold C15_ideal.ih in *. destruct (Z.leb_spec split (pre (iT i + 8) - iA i)); lia. }
  assert (Ev1 : numZ ld - v1 = A1 * q) by (unfold v1, A1; destruct b; lia).
  destruct (norm_shift_facts R1 HR1) as (Hn1 & Hn2 & _).
  set (s := norm_shift R1) in *.
  pose proof (pow2_pos s ltac:(lia)) as Hps. pose proof (pow2_pos (8 - s) ltac:(lia)) as Hp8.
  assert (E256 : 2 ^ (8 - s) * 2 ^ s = 256) by (rewrite <- pow2_add by lia; replace (8 - s + s) with 8 by lia; reflexivity).
  constructor; unfold set_state, loaded; cbn [chunks state final_bytes final_bytes_remaining chunk_index value range bit_count iA iR iT];
    try assumption; try reflexivity;
    change (4 * chunk_index (state d) + len mod 4 - final_bytes_remaining d) with ld.
  - lia.
  - lia.
  - (* value bound *)
    replace (8 + (bc - s)) with ((8 - s) + bc) by lia. rewrite pow2_add by lia. fold q.
    assert (R1 <= 2 ^ (8 - s) - 1) by nia. nia.
  - intros Hge. assert (Eq : q = 2 ^ s * 2 ^ (bc - s)) by (unfold q; rewrite <- pow2_add by lia; f_equal; lia).
    rewrite Ev1, Eq. ring.
  - intros Hlt. rewrite Ev1. replace (- (bc - s)) with (s - bc) by lia.
    assert (Eq : q * 2 ^ (s - bc) = 2 ^ s) by (unfold q; rewrite <- pow2_add by lia; f_equal; lia).
    rewrite <- Z.mul_assoc. rewrite Eq. reflexivity.
Qed.


Lemma needs_of_bc T ld bc : bc = 8 * ld - 8 - T -> -8 <= bc ->
  (bc < 0 -> bytes_for_shift_count T = ld + 1) /\ (0 <= bc -> bytes_for_shift_count T <= ld).
Proof. intros E H. unfold bytes_for_shift_count. split; intros; lia. Qed.

Lemma chunk_sim i d c : ideal_ok i -> modinv i d -> bit_count (state d) < 0 ->
  nth_error (chunks d) (Z.to_nat (chunk_index (state d))) = Some c ->
  modinv i (set_state d (pure_load (state d) c)) /\ bytes_for_shift_count (iT i) <= len + 1.
Proof.
  intros Hi M Hbc Hn. pose proof (mi_chunks i d M) as Hch. destruct M. destruct mi_chunks0 as [Hl Hc].
  assert (Hlt : chunk_index (state d) < len / 4).
  { assert ((Z.to_nat (chunk_index (state d)) < length (chunks d))%nat) by (apply nth_error_Some; rewrite Hn; discriminate). lia. }
  specialize (Hc (chunk_index (state d)) ltac:(lia)). rewrite Hn in Hc. injection Hc as ->.
  pose proof (Z.mod_pos_bound len 4 ltac:(lia)) as Hr0. pose proof (Z.div_mod len 4 ltac:(lia)) as Hdm.
  assert (Hf : final_bytes_remaining d = len mod 4).
  { destruct (Z.lt_ge_cases (final_bytes_remaining d) (len mod 4)) as [Hx | Hx]; [specialize (mi_fin0 Hx); lia | lia]. }
  set (ci := chunk_index (state d)) in *.
  assert (Eld : loaded d = 4 * ci) by (unfold loaded; fold ci; lia).
  specialize (mi_neg0 Hbc). clear mi_pos0. rewrite Eld in *.
  set (e := be32 [byte_at (4 * ci); byte_at (4 * ci + 1); byte_at (4 * ci + 2); byte_at (4 * ci + 3)]).
  assert (He : 0 <= e < 2 ^ 32) by (apply be32_range; apply (byte_at_range data Hbytes)).
  set (bc := bit_count (state d)) in *. set (v := value (state d)) in *.
  assert (Hv64 : 0 <= v * 2 ^ 32 < u64_mod).
  { pose proof (pow2_le (8 + bc) 7 ltac:(lia)). change (2 ^ 7) with 128 in *. change (2 ^ 32) with 4294967296. unfold u64_mod. lia. }
  destruct (load_numeric (iA i) v bc 32 (numZ (4 * ci)) (numZ (4 * ci + 4)) (v * 2 ^ 32 + e) e) as [V1 V2]; try lia; try assumption.
  { rewrite (numZ_add4 data (4 * ci)) by lia. reflexivity. }
  destruct (needs_of_bc (iT i) (4 * ci) bc mi_bc0 ltac:(lia)) as [Nd _]. specialize (Nd Hbc).
  split; [|lia].
  constructor; unfold set_state, pure_load, loaded; cbn [chunks state final_bytes final_bytes_remaining chunk_index value range bit_count];
    fold ci; fold bc; fold v; try assumption; try lia.
  - rewrite lor_shift_add by (try assumption; lia). exact V1.
  - intros _. rewrite lor_shift_add by (try assumption; lia).
    replace (4 * (ci + 1) + len mod 4 - final_bytes_remaining d) with (4 * ci + 4) by lia. exact V2.
Qed.

Lemma final_sim i d : ideal_ok i -> modinv i d -> bit_count (state d) < 0 ->
  nth_error (chunks d) (Z.to_nat (chunk_index (state d))) = None -> 0 <= final_bytes_remaining d ->
  modinv i (final_pure d) /\ is_past_eof (final_pure d) = false /\ 0 <= bit_count (state (final_pure d)) /\
  bytes_for_shift_count (iT i) <= len + 1.
Proof.
  intros Hi M Hbc Hn Hf0. pose proof (mi_chunks i d M) as Hch. destruct M. destruct mi_chunks0 as [Hl Hc].
  pose proof (Z.mod_pos_bound len 4 ltac:(lia)) as Hr0. pose proof (Z.div_mod len 4 ltac:(lia)) as Hdm.
  assert (Hci : chunk_index (state d) = len / 4) by (apply nth_error_None in Hn; lia).
  set (f := final_bytes_remaining d) in *.
  set (ld := 4 * (len / 4) + (len mod 4 - f)).
  assert (Eld : loaded d = ld) by (unfold loaded, ld; fold f; lia).
  specialize (mi_neg0 Hbc). clear mi_pos0. rewrite Eld in *.
  set (bc := bit_count (state d)) in *. set (v := value (state d)) in *.
  assert (Hv64 : 0 <= v * 2 ^ 8 < u64_mod).
  { pose proof (pow2_le (8 + bc) 7 ltac:(lia)). change (2 ^ 7) with 128 in *. change (2 ^ 8) with 256. unfold u64_mod. lia. }
  pose proof (byte_at_range data Hbytes ld) as Hb.
  destruct (load_numeric (iA i) v bc 8 (numZ ld) (numZ (ld + 1)) (v * 2 ^ 8 + byte_at ld) (byte_at ld)) as [V1 V2]; try lia; try assumption.
  { rewrite (numZ_succ data ld) by (unfold ld; lia). reflexivity. }
  destruct (needs_of_bc (iT i) ld bc mi_bc0 ltac:(lia)) as [Nd _]. specialize (Nd Hbc).
  assert (HE : FINAL_BYTES_REMAINING_EOF = -14) by reflexivity.
  unfold final_pure, is_past_eof. cbv zeta. fold f.
  destruct (Z.leb_spec 1 f) as [H1 | H1].
  - (* a real final byte *)
    assert (E0 : nth 0 (final_bytes d) 0 = byte_at ld).
    { pose proof (mi_fb0 0 ltac:(lia)) as E0'. change (Z.to_nat 0) with 0%nat in E0'. rewrite E0'. unfold ld. f_equal. lia. }
    rewrite E0. rewrite lor_shift_add by (try assumption; change (2 ^ 8) with 256; lia).
    cbn [chunks state final_bytes final_bytes_remaining chunk_index value range bit_count].
    split; [|split; [apply Z.eqb_neq; lia | split; [fold bc; lia | unfold ld in Nd; lia]]].
    constructor; unfold loaded; cbn [chunks state final_bytes final_bytes_remaining chunk_index value range bit_count];
      fold bc; try assumption; try lia.
    + destruct (final_bytes d) as [|x [|y [|z [|w tl]]]]; try discriminate. reflexivity.
    + intros j Hj. destruct (final_bytes d) as [|x [|y [|z [|w tl]]]] eqn:Efb; try discriminate.
      assert (Hj' : j = 0 \/ j = 1) by lia.
      destruct Hj' as [-> | ->].
      * change (Z.to_nat 0) with 0%nat. cbn [rotate_left1 app nth].
        pose proof (mi_fb0 1 ltac:(lia)) as E1. change (Z.to_nat 1) with 1%nat in E1. cbn [nth] in E1. rewrite E1. f_equal. lia.
      * change (Z.to_nat 1) with 1%nat. cbn [rotate_left1 app nth].
        pose proof (mi_fb0 2 ltac:(lia)) as E2. change (Z.to_nat 2) with 2%nat in E2. cbn [nth] in E2. rewrite E2. f_equal. lia.
    + intros _. replace (4 * chunk_index (state d) + len mod 4 - (f - 1)) with (ld + 1) by (unfold ld; lia). exact V2.
  - (* the tolerated zero byte *)
    assert (Ef : f = 0) by lia. assert (E : (f =? 0) = true) by (apply Z.eqb_eq; exact Ef). rewrite E.
    assert (Eb : byte_at ld = 0) by (apply byte_at_past; unfold ld, len in *; lia).
    rewrite Eb in V1, V2. rewrite Z.add_0_r in V1, V2.
    rewrite Z.mod_small by exact Hv64.
    cbn [chunks state final_bytes final_bytes_remaining chunk_index value range bit_count].
    split; [|split; [apply Z.eqb_neq; lia | split; [fold bc; lia | unfold ld in Nd; lia]]].
    constructor; unfold loaded; cbn [chunks state final_bytes final_bytes_remaining chunk_index value range bit_count];
      fold bc; try assumption; try lia.
    intros _. replace (4 * chunk_index (state d) + len mod 4 - (f - 1)) with (ld + 1) by (unfold ld; lia). exact V2.
Qed.

Lemma eof_sim i d : ideal_ok i -> modinv i d -> bit_count (state d) < 0 ->
  nth_error (chunks d) (Z.to_nat (chunk_index (state d))) = None -> final_bytes_remaining d < 0 ->
  dead (final_pure d) /\ is_past_eof (final_pure d) = true /\ len + 1 < bytes_for_shift_count (iT i).
Proof.
  intros Hi M Hbc Hn Hf0. pose proof (modinv_wsafe i d Hi M) as Hw. destruct M.
  pose proof (Z.mod_pos_bound len 4 ltac:(lia)) as Hr0. pose proof (Z.div_mod len 4 ltac:(lia)) as Hdm.
  destruct mi_chunks0 as [Hl Hc].
  assert (Hci : chunk_index (state d) = len / 4) by (apply nth_error_None in Hn; lia).
  destruct (needs_of_bc (iT i) (loaded d) (bit_count (state d)) mi_bc0 ltac:(lia)) as [Nd _]. specialize (Nd Hbc).
  unfold final_pure, is_past_eof. cbv zeta.
  assert (E1 : (1 <=? final_bytes_remaining d) = false) by (apply Z.leb_gt; lia).
  assert (E2 : (final_bytes_remaining d =? 0) = false) by (apply Z.eqb_neq; lia).
  rewrite E1, E2. cbn [final_bytes_remaining]. rewrite Z.eqb_refl.
  split; [|split; [reflexivity | unfold loaded in Nd; lia]].
  destruct Hw as (Hs & Hc' & Hn' & Hl' & Hf').
  unfold dead, wsafe, nchunks, fbr_ok. cbn [chunks state final_bytes final_bytes_remaining].
  repeat split; try assumption; try lia; try apply Hs; try (right; reflexivity).
Qed.

(* one request: either it is served exactly as the ideal decoder serves it, or it needs more than len + 1 bytes and the
   decoder enters the exhausted state *)
Lemma sim_bit i d p : ideal_ok i -> modinv i d -> 0 <= p <= 255 ->
  (bytes_for_shift_count (iT i) <= len + 1 /\ fst (cold_pure d p) = fst (ideal_step i p) /\
   modinv (snd (ideal_step i p)) (snd (cold_pure d p)))
  \/ (len + 1 < bytes_for_shift_count (iT i) /\ fst (cold_pure d p) = false /\ dead (snd (cold_pure d p))).
Proof.
  intros Hi M Hp. unfold cold_pure.
  destruct (Z.ltb_spec (bit_count (state d)) 0) as [L | G].
  - destruct (nth_error (chunks d) (Z.to_nat (chunk_index (state d)))) as [c|] eqn:En.
    + destruct (chunk_sim i d c Hi M L En) as [M1 Nd].
      destruct (tail_sim i (set_state d (pure_load (state d) c)) p Hi M1) as [T1 T2]; try assumption.
      { unfold set_state, pure_load. cbn [state bit_count]. pose proof (mi_bcr i d M). lia. }
      left. change (state (set_state d (pure_load (state d) c))) with (pure_load (state d) c) in T1, T2.
      destruct (tail_on (pure_load (state d) c) p) as [b s']. cbn [fst snd] in *.
      split; [exact Nd | split; [exact T1 |]]. exact T2.
    + destruct (Z.lt_ge_cases (final_bytes_remaining d) 0) as [Hneg | Hpos].
      * destruct (eof_sim i d Hi M L En Hneg) as (D1 & D2 & D3). rewrite D2. right. cbn [fst snd]. auto.
      * destruct (final_sim i d Hi M L En Hpos) as (M1 & E1 & B1 & Nd). rewrite E1.
        destruct (tail_sim i (final_pure d) p Hi M1 B1 Hp) as [T1 T2].
        left. destruct (tail_on (state (final_pure d)) p) as [b s']. cbn [fst snd] in *. auto.
  - destruct (tail_sim i d p Hi M G Hp) as [T1 T2].
    left. destruct (needs_of_bc (iT i) (loaded d) (bit_count (state d)) (mi_bc i d M) ltac:(lia)) as [_ Nd].
    pose proof (loaded_bounds i d M).
    destruct (tail_on (state d) p) as [b s']. cbn [fst snd] in *. split; [specialize (Nd G); lia | auto].
Qed.

End Sim.
