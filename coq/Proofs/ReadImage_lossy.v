(* Glue of read_image, part 5 -- LOSSY stills (C05 + C11 buffer clauses).
   read_image_lossy: for every well-formed still file with a 'VP8 ' chunk (simple lossy, or VP8X with or without the alpha
   flag, with or without an ALPH chunk, any chunk order / metadata / unknown chunks), GIVEN that the VP8 frame decoder returns
   planes (w, h, Y, U, V) of the file's dimensions for the 'VP8 ' payload (the C02 link, an explicit hypothesis: [vp8] is the
   parameter of Model.ReadImage), read_image returns Ok and leaves in the caller's buffer, whatever it held before,
     - no alpha flag:            Spec.YUV.rgb_plane of the planes (libwebp's no-fancy BT.601), an ALPH chunk being ignored;
     - alpha flag, no ALPH:      those colours interleaved with alpha 255 (repair F18);
     - alpha flag + ALPH chunk:  those colours interleaved with the container specification's alpha plane
                                 (Spec.Still.alpha_plane: header bits, raw or lossless payload by Spec.VP8L, green channel,
                                 un-filtering with the chunk's filter), under the two C01 format conditions when compressed.
   [lossy_pixels] is that value; Proofs/ReadImage_stillspec.v shows it is what Spec.Still.decode_still computes from the file. *)
From Coq Require Import ZArith List Bool Lia Arith.
From WebP Require Import Lib.Res Lib.ZBits Spec.Container Spec.YUV Model.Yuv Model.Still.
From WebP Require Import Proofs.Container_bytes Proofs.C13_yuv Proofs.ReadImage_base Proofs.ReadImage_container
  Proofs.ReadImage_lossless.
From WebP Require Import Model.ReadImage.
Import ListNotations.
Open Scope Z_scope.

(* what the frame decoder hands over: dimensions of a key frame, planes cropped to the display size, u8 samples *)
Definition planes_ok (w h : Z) (yp up vp : list Z) : Prop :=
  1 <= w <= 16383 /\ 1 <= h <= 16383
  /\ length yp = (Z.to_nat w * Z.to_nat h)%nat
  /\ length up = (((Z.to_nat w + 1) / 2) * ((Z.to_nat h + 1) / 2))%nat
  /\ length vp = (((Z.to_nat w + 1) / 2) * ((Z.to_nat h + 1) / 2))%nat
  /\ Forall byte yp /\ Forall byte up /\ Forall byte vp.

(* the pixels of a lossy still, from the planes of its key frame and its container *)
Definition lossy_pixels (c : container) (w h : Z) (yp up vp : list Z) : option (list Z) :=
  let rgb := rgb_plane (Z.to_nat w) (Z.to_nat h) yp up vp in
  if negb (alpha c) then Some rgb else
  match image_alph c with
  | None => Some (SS.weave rgb (repeat 255 (Z.to_nat (w * h))))
  | Some a => match SS.alpha_plane w h a with Some al => Some (SS.weave rgb al) | None => None end
  end.

(* the C01 format conditions on a compressed ALPH payload, only when the file shows its alpha *)
Definition alph_ok_for (c : container) (w h : Z) : Prop :=
  alpha c = true -> forall a, image_alph c = Some a -> alph_in_format w h a.

Section Lossy.
Variable vp8 : list Z -> res (Z * Z * list Z * list Z * list Z).

Theorem read_image_lossy_view c dec payload w h yp up vp px buf :
  still_view c dec -> image_vp8 c = Some payload -> image_vp8l c = None -> dims c = (w, h) ->
  vp8 payload = Ok (w, h, yp, up, vp) -> planes_ok w h yp up vp ->
  lossy_pixels c w h yp up vp = Some px -> alph_ok_for c w h ->
  len buf = buffer_size c ->
  read_image vp8 dec buf = (Ok tt, Some px).
Proof.
  intros Hv Hp Hnl Hd Hvp8 Hpl Hpx Hfmt Hl. rewrite (read_image_still vp8 c dec buf Hv Hl).
  destruct Hv as (Hdata & Hanim & Hw & Hh & Ha & Hv8 & Hvl & Hal & H1 & H2 & H3).
  rewrite Hnl in Hvl. cbn [chunk_is] in Hvl. rewrite Hvl.
  rewrite Hp in Hv8. destruct Hv8 as (s & Hlk & Hat & Hbytes).
  rewrite Hd in *. cbn [fst snd] in *.
  destruct Hpl as (Rw & Rh & Ly & Lu & Lv & By & Bu & Bv).
  unfold read_image_vp8. rewrite Hlk. rewrite (range_reader_at _ _ _ Hat). cbn [bindb]. rewrite Hvp8. cbn [bindb].
  rewrite Hw, Hh, !Z.eqb_refl. cbn [negb orb]. unfold M.has_alpha. rewrite Ha.
  unfold buffer_size in Hl. rewrite Hd in Hl. cbn [fst snd] in Hl. unfold len in Hl.
  unfold lossy_pixels in Hpx. unfold alph_ok_for in Hfmt.
  assert (Hwn : (1 <= Z.to_nat w)%nat) by lia.
  assert (Hn : Z.to_nat (w * h) = (Z.to_nat w * Z.to_nat h)%nat) by (rewrite Z2Nat.inj_mul by lia; reflexivity).
  destruct (alpha c); cbn [negb] in Hpx.
  - (* four channels *)
    rewrite (fill_rgba_spec_lemma (Z.to_nat w) (Z.to_nat h) yp up vp buf) by (try assumption; lia). cbn [bindb].
    destruct (rgba_plane_weave (Z.to_nat w) yp up vp buf (Z.to_nat h) Ly) as (al0 & -> & L0 & Lr).
    destruct (image_alph c) as [a|] eqn:Ea.
    + destruct Hal as (sa & -> & Hata & Hba). apply all_bytes_Forall in Hba.
      rewrite (range_reader_at _ _ _ Hata). cbn [bindb].
      rewrite !Z.mod_small by lia.
      destruct (SS.alpha_plane w h a) as [al|] eqn:Eal; [|discriminate]. injection Hpx as <-.
      destruct (read_alpha_chunk_spec a w h al Hba ltac:(lia) ltac:(lia) Eal (Hfmt eq_refl a eq_refl)) as (ac & -> & Lac & Uac).
      cbn [bindb]. unfold alpha_loop. rewrite len_M. unfold len. rewrite Lac.
      destruct (w * h <=? Z.of_nat (Z.to_nat (w * h))) eqn:E; [| apply Z.leb_gt in E; lia].
      rewrite <- Lac at 1. rewrite firstn_all.
      rewrite (alpha_over_weave (ac_filter ac) (Z.to_nat w) (ac_data ac) _ al0) by lia.
      cbn [bindb]. rewrite Uac. reflexivity.
    + cbn [chunk_is] in Hal. rewrite Hal. injection Hpx as <-.
      rewrite set_opaque_weave by lia. rewrite L0, Hn. reflexivity.
  - (* three channels; an ALPH chunk, if any, is not looked at *)
    injection Hpx as <-.
    rewrite (fill_rgb_spec_lemma (Z.to_nat w) (Z.to_nat h) yp up vp buf) by (try assumption; lia). reflexivity.
Qed.

(* the hypothesis [dims c = (w, h)] is necessary: a key frame of another size than the container announces is rejected
   (InconsistentImageSizes) before anything is written -- the container specification requires the two to agree *)
Theorem canvas_mismatch_rejected c dec payload w h yp up vp buf :
  still_view c dec -> image_vp8 c = Some payload -> image_vp8l c = None ->
  vp8 payload = Ok (w, h, yp, up, vp) -> dims c <> (w, h) -> len buf = buffer_size c ->
  read_image vp8 dec buf = (Err EInconsistentImageSizes, Some buf).
Proof.
  intros Hv Hp Hnl Hvp8 Hd Hl. rewrite (read_image_still vp8 c dec buf Hv Hl).
  destruct Hv as (Hdata & Hanim & Hw & Hh & Ha & Hv8 & Hvl & Hal & H1 & H2 & H3).
  rewrite Hnl in Hvl. cbn [chunk_is] in Hvl. rewrite Hvl.
  rewrite Hp in Hv8. destruct Hv8 as (s & Hlk & Hat & Hbytes).
  unfold read_image_vp8. rewrite Hlk. rewrite (range_reader_at _ _ _ Hat). cbn [bindb]. rewrite Hvp8. cbn [bindb].
  rewrite Hw, Hh.
  destruct (w =? fst (dims c)) eqn:E1; [|reflexivity]. destruct (h =? snd (dims c)) eqn:E2; [|reflexivity].
  apply Z.eqb_eq in E1, E2. exfalso. apply Hd. destruct (dims c). cbn [fst snd] in *. congruence.
Qed.

(* ... stated on files *)
Theorem read_image_lossy c payload w h yp up vp px :
  wf c = true -> anim c = false -> image_vp8 c = Some payload -> dims c = (w, h) ->
  vp8 payload = Ok (w, h, yp, up, vp) -> planes_ok w h yp up vp ->
  lossy_pixels c w h yp up vp = Some px -> alph_ok_for c w h ->
  exists dec, M.new (serialize c) = Ok dec /\
    (forall buf, len buf = buffer_size c -> read_image vp8 dec buf = (Ok tt, Some px)) /\
    (forall buf, len buf <> buffer_size c -> read_image vp8 dec buf = (Err EImageTooLarge, Some buf)).
Proof.
  intros Hwf Ha Hp Hd Hvp8 Hpl Hpx Hfmt. destruct (new_still_view c Hwf Ha) as (dec & Hnew & Hv).
  assert (Hnl : image_vp8l c = None).
  { destruct (still_one_bitstream c Hwf Ha) as [(p & _ & E) | (p & _ & E)]; [exact E | congruence]. }
  exists dec. split; [exact Hnew|]. split.
  - intros buf Hl. apply (read_image_lossy_view c dec payload w h yp up vp px buf); assumption.
  - intros buf Hl. apply (wrong_length_view vp8 c dec buf Hv Hl).
Qed.
End Lossy.
