(* C10, container layer over an abstract reader: concrete files.
   - the hypotheses of the theorems of ContainerIO_main.v are satisfiable and the call counts are not trivial;
   - the theorems' conclusions re-checked by plain computation on these files (independent of the proofs);
   - [eof_kind_fault_swallowed]: the restriction of the injected failure to kinds other than UnexpectedEof is
     necessary -- with that kind the chunk scan of `new` swallows the failure and reports success with a part of the
     animation (a witness, replayed on the crate by harness c10io, counter eof_kind_faults_swallowed). *)
From Coq Require Import ZArith List Bool.
From WebP Require Import Lib.Res Lib.Sweep Spec.Container Proofs.Container_examples.
From WebP Require Import Model.Container Model.ContainerIO Proofs.ContainerIO_prims Proofs.ContainerIO_refine
  Proofs.ContainerIO_main.
Import ListNotations.
Open Scope Z_scope.

(* a still VP8X file with an ICC profile before and EXIF after the image *)
Definition ex_meta : container :=
  Extended {| x_rsv1 := 0; x_icc := true; x_alpha := false; x_exif := true; x_xmp := false; x_anim := false;
              x_rsv2 := 0; x_rsv3 := 0; x_w1 := 1; x_h1 := 2 |}
    [CICCP [9; 8; 7; 6; 5]; CVP8 ex_vp8; CEXIF [73; 73; 42]].
Definition meta_bytes : list Z := serialize ex_meta.

(* an animation: two frames (lossless; ALPH + VP8 + an unknown sub-chunk) *)
Definition ex_vp8l3 : vp8l_data := {| l_w1 := 3; l_h1 := 4; l_alpha := true; l_rest := [9; 9; 9] |}.
Definition ex_fr1 : WebP.Spec.Container.frame :=
  {| f_x := 1; f_y := 2; f_w1 := 3; f_h1 := 4; f_duration := 100; f_rsv := 0; f_noblend := true; f_dispose := false;
     f_image := FLossless ex_vp8l3; f_unknown := [] |}.
Definition ex_fr2 : WebP.Spec.Container.frame :=
  {| f_x := 0; f_y := 0; f_w1 := 3; f_h1 := 4; f_duration := 40; f_rsv := 0; f_noblend := false; f_dispose := true;
     f_image := FLossy (Some ex_alph) ex_vp8; f_unknown := [ex_unknown] |}.
Definition ex_anim2 : container :=
  Extended {| x_rsv1 := 0; x_icc := false; x_alpha := true; x_exif := false; x_xmp := false; x_anim := true;
              x_rsv2 := 0; x_rsv3 := 0; x_w1 := 19; x_h1 := 29 |}
    [CANIM [1; 2; 3; 4] 0; CANMF ex_fr1; CANMF ex_fr2].
Definition anim_bytes : list Z := serialize ex_anim2.

Example examples_wellformed :
  wf ex_meta = true /\ wf ex_anim2 = true
  /\ all_bytes meta_bytes = true /\ all_bytes anim_bytes = true
  /\ MC.len meta_bytes = 78 /\ MC.len anim_bytes = 154.
Proof. vm_compute. repeat split; reflexivity. Qed.

(* hypotheses of io_refines_pure / io_refines_pure_accessors *)
Example hypotheses_satisfiable :
  all_bytes meta_bytes = true /\ MC.len meta_bytes <= isize_max /\ (exists dec, MC.new meta_bytes = Ok dec)
  /\ all_bytes anim_bytes = true /\ MC.len anim_bytes <= isize_max /\ (exists dec, MC.new anim_bytes = Ok dec).
Proof.
  split; [vm_compute; reflexivity|]. split; [vm_compute; discriminate|]. split; [eexists; vm_compute; reflexivity|].
  split; [vm_compute; reflexivity|]. split; [vm_compute; discriminate|]. eexists; vm_compute; reflexivity.
Qed.

(* the number of I/O calls `new` makes under four schedules: whole, 1 byte, 3 bytes, hashed 1..16 *)
Definition calls_of (x : ires decoder * rstate) : Z := r_calls (snd x).
Example call_counts :
  map (fun sc => calls_of (IO.new (init sc None meta_bytes))) [sched_whole; sched_const 1; sched_const 3; sched_hash 3]
    = [21; 60; 32; 23]
  /\ map (fun sc => calls_of (IO.new (init sc None anim_bytes))) [sched_whole; sched_const 1; sched_const 3; sched_hash 3]
    = [34; 102; 54; 39].
Proof. vm_compute. split; reflexivity. Qed.

(* new + the three getters: results and the call counter after each, whole-file schedule and one byte per call *)
Definition session (x : ires decoder * Z * option (ires (option (list Z)) * Z * ires (option (list Z)) * Z * ires (option (list Z)) * Z)) :=
  let '(r, c, rest) := x in (match r with IOk _ => true | _ => false end, c, rest).
Example session_meta :
  session (cio_eval sched_whole None None meta_bytes)
    = (true, 21, Some (IOk (Some [9; 8; 7; 6; 5]), 23, IOk (Some [73; 73; 42]), 25, IOk None, 25))
  /\ session (cio_eval (sched_const 1) None None meta_bytes)
    = (true, 60, Some (IOk (Some [9; 8; 7; 6; 5]), 66, IOk (Some [73; 73; 42]), 70, IOk None, 70)).
Proof. vm_compute. split; reflexivity. Qed.

(* io_refines_pure, by computation, for several schedules *)
Example refinement_by_computation :
  forallb (fun sc => match erase (fst (IO.new (init sc None anim_bytes))), MC.new anim_bytes with
                     | Ok a, Ok b => (d_num_frames a =? d_num_frames b) && (d_loop_duration a =? 140)
                                     && (length (d_chunks a) =? length (d_chunks b))%nat && (d_next_frame_start a =? 44)
                     | _, _ => false end)
          [sched_whole; sched_const 1; sched_const 2; sched_const 7; sched_hash 0; sched_hash 11; sched_list [3; 1; 4; 1; 5]]
  = true.
Proof. vm_compute. reflexivity. Qed.

(* fault_surfaces, by computation: every one of the 34 / 102 calls of `new` on the animation, under two schedules;
   at and beyond the last call the fault does not fire and the decoder is the fault-free one *)
Definition is_fault {A} (r : ires A) : bool := match r with IErr XFault => true | _ => false end.
Example every_fault_surfaces_whole :
  forallb (fun k => is_fault (fst (IO.new (init sched_whole (Some k) anim_bytes)))
                    && (calls_of (IO.new (init sched_whole (Some k) anim_bytes)) =? k + 1)) (zrange 34 0) = true.
Proof. vm_compute. reflexivity. Qed.
Example every_fault_surfaces_bytewise :
  forallb (fun k => is_fault (fst (IO.new (init (sched_const 1) (Some k) anim_bytes)))
                    && (calls_of (IO.new (init (sched_const 1) (Some k) anim_bytes)) =? k + 1)) (zrange 102 0) = true.
Proof. vm_compute. reflexivity. Qed.
Example late_fault_is_harmless :
  forallb (fun k => match fst (IO.new (init sched_whole (Some k) anim_bytes)) with IOk d => d_num_frames d =? 2 | _ => false end)
          [34; 35; 1000] = true.
Proof. vm_compute. reflexivity. Qed.

(* a transient fault during icc_profile (calls 21, 22 of the session): that getter fails, exif_metadata still works *)
Example fault_in_getter :
  session (cio_eval sched_whole (Some 22) None meta_bytes)
    = (true, 21, Some (IErr XFault, 23, IOk (Some [73; 73; 42]), 25, IOk None, 25)).
Proof. vm_compute. reflexivity. Qed.

(* read_frame's header of the first frame: 11 calls under the whole-file schedule, 33 one byte at a time *)
Example frame_header_example :
  cio_frame_eval sched_whole None anim_bytes
    = (34, Some (IOk {| fh_anmf_size := 32; fh_x := 2; fh_y := 4; fh_width := 4; fh_height := 5; fh_duration := 100;
                        fh_use_alpha_blending := false; fh_dispose := false; fh_chunk := KVP8L; fh_chunk_size := 8;
                        fh_chunk_size_rounded := 8; fh_next_frame_start := 44 |}, 45))
  /\ match snd (cio_frame_eval (sched_const 1) None anim_bytes) with Some (IOk _, c) => c | _ => -1 end = 135
  /\ fst (cio_frame_eval (sched_const 1) None anim_bytes) = 102.
Proof. vm_compute. repeat split; reflexivity. Qed.

(* an unknown chunk ("abcd", 3 bytes + padding) between the two ANMF chunks: read_frame for frame 2 starts at offset
   84, steps over it (one read_chunk_header = 2 read_exact, one seek_relative: 3 more calls under the whole-file
   schedule, 8 + 1 more one byte at a time) and moves next_frame_start to 96.  The call counter at the start of each
   read_frame is an input of frames_loop (50 / 100 and 200 / 400 here). *)
Definition ex_fr2l : WebP.Spec.Container.frame :=
  {| f_x := 0; f_y := 0; f_w1 := 3; f_h1 := 4; f_duration := 40; f_rsv := 0; f_noblend := false; f_dispose := true;
     f_image := FLossless ex_vp8l3; f_unknown := [] |}.
Definition ex_gap : container :=
  Extended {| x_rsv1 := 0; x_icc := false; x_alpha := true; x_exif := false; x_xmp := false; x_anim := true;
              x_rsv2 := 0; x_rsv3 := 0; x_w1 := 19; x_h1 := 29 |}
    [CANIM [1; 2; 3; 4] 0; CANMF ex_fr1; CUnknown ex_unknown; CANMF ex_fr2l].
Definition gap_bytes : list Z := serialize ex_gap.

Definition frames_summary (x : Z * option (list (ires frame_header * Z))) :=
  (fst x, match snd x with
          | Some l => map (fun rc => match fst rc with
                                     | IOk fh => (true, fh_anmf_size fh, fh_next_frame_start fh, fh_duration fh, snd rc)
                                     | _ => (false, 0, 0, 0, snd rc) end) l
          | None => [] end).
Example skipped_chunk_between_frames :
  wf ex_gap = true /\ MC.len gap_bytes = 136
  /\ frames_summary (cio_frames_eval sched_whole None gap_bytes [50; 100])
     = (37, [(true, 32, 44, 100, 61); (true, 32, 96, 40, 114)])            (* 11 calls, then 11 + 3 *)
  /\ frames_summary (cio_frames_eval (sched_const 1) None gap_bytes [200; 400])
     = (111, [(true, 32, 44, 100, 233); (true, 32, 96, 40, 442)]).         (* 33 calls, then 33 + 9 *)
Proof. vm_compute. repeat split; reflexivity. Qed.

(* a fault at each of the 14 calls of the second read_frame (the 3 calls of the skipping loop included) *)
Example every_fault_surfaces_in_skipping_frame :
  forallb (fun k => match cio_frames_eval sched_whole (Some k) gap_bytes [50; 100] with
                    | (37, Some [(IOk _, 61); (IErr XFault, c)]) => c =? k + 1
                    | _ => false end) (zrange 14 100) = true.
Proof. vm_compute. reflexivity. Qed.

(* ---------------------------------------------------------------------------------------------- *)
(* the failure kind matters                                                                         *)
(* ---------------------------------------------------------------------------------------------- *)
(* The statement of fault_surfaces with the injected failure of kind UnexpectedEof instead of Other is FALSE.
   Witness: the two-frame animation, whole-file schedule, failure at call 21 = the read of the second ANMF chunk's
   FourCC inside the chunk scan (call 21 < 34 calls of the fault-free run).  `new` returns Ok -- one frame instead
   of two, duration 100 instead of 140, is_lossy false instead of true.  decoder.rs:
       Err(DecodingError::IoError(e)) if e.kind() == io::ErrorKind::UnexpectedEof => break *)
Theorem eof_kind_fault_swallowed :
  exists (sched : Z -> Z) (d : list Z) (k : Z) (dec0 dec1 : decoder),
    0 <= k < r_calls (snd (IO.new (init sched None d)))
    /\ fst (IO.new (init sched None d)) = IOk dec0
    /\ fst (IO.new (init_kind true sched (Some k) d)) = IOk dec1
    /\ (d_num_frames dec0, d_loop_duration dec0, d_is_lossy dec0) = (2, 140, true)
    /\ (d_num_frames dec1, d_loop_duration dec1, d_is_lossy dec1) = (1, 100, false).
Proof.
  exists sched_whole, anim_bytes, 21.
  eexists. eexists. split; [vm_compute; split; [discriminate | reflexivity]|].
  split; [vm_compute; reflexivity|]. split; [vm_compute; reflexivity|]. split; vm_compute; reflexivity.
Qed.

Corollary fault_surfaces_eof_kind_refuted :
  ~ (forall (sched : Z -> Z) (d : list Z) (k : Z),
       0 <= k < r_calls (snd (IO.new (init sched None d))) ->
       exists e, fst (IO.new (init_kind true sched (Some k) d)) = IErr e).
Proof.
  intros H. destruct eof_kind_fault_swallowed as (sched & d & k & dec0 & dec1 & Hk & _ & E & _).
  destruct (H sched d k Hk) as [e He]. rewrite E in He. discriminate.
Qed.
