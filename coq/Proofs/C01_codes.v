(* C01, layer 2b: reading a prefix-code DESCRIPTION.  Model.Lossless.read_huffman_code (simple form with the F3
   ordering; normal form: code-length code in kCodeLengthCodeOrder, read_huffman_code_lengths with max_symbol, the
   repeat codes 16 / 17 / 18 and the "previous non-zero length" rule; then HuffmanTree::build_implicit) refines the
   specification's read_prefix_code / read_simple_lengths / read_normal_lengths / read_lengths / make_code.

   The specification (following libwebp) silently DROPS a simple-code symbol that is not below the alphabet size
   (possible only for the 40-symbol distance alphabet); the crate rejects such a stream (lossless.rs:375-385).
   `strict_prefix_code` is read_prefix_code with that one extra rejection:
     - strict_prefix_code_sound : strict = Some x -> Spec = Some x;   strict_prefix_code_256 : equal for alphabets >= 256;
     - read_huffman_code_refines : the Model agrees EXACTLY with strict_prefix_code (Some <-> Ok with a table that
       `represents` the code, related streams; None <-> Err; never a panic);
     - simple_dropped_symbol_refuted : a concrete description the Spec accepts and the Model rejects. *)
From Coq Require Import ZArith NArith List Bool Lia.
From WebP Require Import Lib.Res Lib.Arr Lib.ZBits Gen.Tables Spec.PrefixCode
  Model.EncoderHeap Proofs.Huffman_lists Proofs.C04_bits Proofs.C04_prefix Proofs.C04_codedesc
  Model.LosslessLib Model.BitReader Model.Huffman Model.Lossless
  Proofs.Lossless_BitReader Proofs.Lossless_HuffmanSafe Proofs.Lossless_HuffmanRead Proofs.Lossless_HuffmanSimple
  Proofs.Lossless_CopyWithin Proofs.Lossless_SymSchedule Proofs.Lossless_PixelSafe Proofs.C01_stream Proofs.C01_symbols.
Import ListNotations.
Open Scope Z_scope.
Open Scope res_scope.

Ltac Zify.zify_post_hook ::= Z.div_mod_to_equations.

(* option bind for the specification side (Spec.VP8L's own `let*` notation clashes with Lib.Res's) *)
Notation "'olet' p ':=' e 'in' f" := (match e with Some p => f | None => None end)
  (at level 200, p pattern, e at level 200, f at level 200, right associativity).

(* ------------------------------------------------------------------------------------------------ *)
(** * reading fields: nat-indexed form of read_bits_Rel *)
Lemma rbn st r tb (k : nat) : Rel st r -> (k <= 32)%nat -> Z.of_nat k <= tb ->
  match V.read_bits k st with
  | Some (v, st') => exists r', read_bits r tb (Z.of_nat k) = Ok (v, r') /\ Rel st' r' /\ 0 <= v < 2 ^ Z.of_nat k
  | None => read_bits r tb (Z.of_nat k) = Err EBitStreamError
  end.
Proof.
  intros H Hk Htb. pose proof (read_bits_Rel st r tb (Z.of_nat k) H ltac:(lia) Htb) as P. rewrite Nat2Z.id in P. exact P.
Qed.

(* ------------------------------------------------------------------------------------------------ *)
(** * the strict specification *)
Definition read_simple_symbols (s : V.stream) : option (list Z * V.stream) :=
  olet (two, s) := V.read_bits 1 s in
  olet (f8, s) := V.read_bits 1 s in
  olet (s0, s) := V.read_bits (if f8 =? 1 then 8 else 1) s in
  if two =? 1 then olet (s1, s) := V.read_bits 8 s in Some ([s0; s1], s) else Some ([s0], s).

Definition simple_lens (a : Z) (symbols : list Z) : list Z :=
  map (fun i => if existsb (Z.eqb i) symbols then 1 else 0) (V.zseq 0 (Z.to_nat a)).

Lemma read_simple_lengths_eq a s :
  V.read_simple_lengths a s = olet (syms, s') := read_simple_symbols s in Some (simple_lens a syms, s').
Proof.
  unfold V.read_simple_lengths, read_simple_symbols, simple_lens.
  destruct (V.read_bits 1 s) as [[two s1]|]; [|reflexivity].
  destruct (V.read_bits 1 s1) as [[f8 s2]|]; [|reflexivity].
  destruct (V.read_bits (if f8 =? 1 then 8%nat else 1%nat) s2) as [[s0 s3]|]; [|reflexivity].
  destruct (two =? 1); [|reflexivity]. destruct (V.read_bits 8 s3) as [[s1' s4]|]; reflexivity.
Qed.

(* every symbol named by a simple code must be inside the alphabet *)
Definition strict_simple_lengths (a : Z) (s : V.stream) : option (list Z * V.stream) :=
  olet (syms, s') := read_simple_symbols s in
  if forallb (fun x => x <? a) syms then Some (simple_lens a syms, s') else None.

Definition strict_prefix_code (a : Z) (s : V.stream) : option (V.code * V.stream) :=
  olet (simple, s) := V.read_bits 1 s in
  olet (lengths, s) := (if simple =? 1 then strict_simple_lengths a s else V.read_normal_lengths a s) in
  olet c := V.make_code lengths in
  Some (c, s).

Theorem strict_prefix_code_sound a s x : strict_prefix_code a s = Some x -> V.read_prefix_code a s = Some x.
Proof.
  unfold strict_prefix_code, V.read_prefix_code. destruct (V.read_bits 1 s) as [[simple s1]|]; [|discriminate].
  destruct (simple =? 1); [|auto]. rewrite read_simple_lengths_eq. unfold strict_simple_lengths.
  destruct (read_simple_symbols s1) as [[syms s2]|]; [|discriminate]. destruct (forallb _ syms); [auto | discriminate].
Qed.

Lemma read_simple_symbols_bytes s syms s' : read_simple_symbols s = Some (syms, s') -> Forall (fun x => 0 <= x < 256) syms.
Proof.
  unfold read_simple_symbols.
  destruct (V.read_bits 1 s) as [[two s1]|]; [|discriminate].
  destruct (V.read_bits 1 s1) as [[f8 s2]|]; [|discriminate].
  destruct (V.read_bits (if f8 =? 1 then 8%nat else 1%nat) s2) as [[s0 s3]|] eqn:E0; [|discriminate].
  assert (H0 : 0 <= s0 < 256).
  { apply read_bits_inv in E0. destruct E0 as (_ & -> & _).
    pose proof (firstn_val_range (if f8 =? 1 then 8%nat else 1%nat) (sbits s2)) as H. destruct (f8 =? 1); [change (2 ^ Z.of_nat 8) with 256 in H | change (2 ^ Z.of_nat 1) with 2 in H]; lia. }
  destruct (two =? 1).
  - destruct (V.read_bits 8 s3) as [[s1' s4]|] eqn:E1; [|discriminate]. intros H. injection H as <- _.
    apply read_bits_inv in E1. destruct E1 as (_ & -> & _). pose proof (firstn_val_range 8 (sbits s3)) as H. change (2 ^ Z.of_nat 8) with 256 in H.
    repeat constructor; lia.
  - intros H. injection H as <- _. repeat constructor; lia.
Qed.

Theorem strict_prefix_code_256 a s : 256 <= a -> strict_prefix_code a s = V.read_prefix_code a s.
Proof.
  intros Ha. unfold strict_prefix_code, V.read_prefix_code. destruct (V.read_bits 1 s) as [[simple s1]|]; [|reflexivity].
  destruct (simple =? 1); [|reflexivity]. rewrite read_simple_lengths_eq. unfold strict_simple_lengths.
  destruct (read_simple_symbols s1) as [[syms s2]|] eqn:E; [|reflexivity].
  replace (forallb (fun x => x <? a) syms) with true; [reflexivity|]. symmetry. apply forallb_forall. intros x Hx.
  pose proof (proj1 (Forall_forall _ _) (read_simple_symbols_bytes _ _ _ E) x Hx) as H. cbn beta in H. apply Z.ltb_lt. lia.
Qed.

(* ------------------------------------------------------------------------------------------------ *)
(** * the Model's read_huffman_code, split in its two arms *)
Definition m_simple (br : BitReader.t) (alphabet_size : Z) : res (tree * BitReader.t) :=
  let* '(ns, br) := BitReader.read_bits br 8 1 in
  let num_symbols := ns + 1 in
  let* '(is_first_8bits, br) := BitReader.read_bits br 8 1 in
  let* '(zero_symbol, br) := BitReader.read_bits br 16 (1 + 7 * is_first_8bits) in
  if alphabet_size <=? zero_symbol then Err EBitStreamError else
  if num_symbols =? 1 then Ok (build_single_node zero_symbol, br)
  else
    let* '(one_symbol, br) := BitReader.read_bits br 16 8 in
    if alphabet_size <=? one_symbol then Err EBitStreamError else
    Ok (simple_two_symbols zero_symbol one_symbol, br).

Definition m_normal (br : BitReader.t) (alphabet_size : Z) : res (tree * BitReader.t) :=
  let* '(x, br) := BitReader.read_bits br 64 4 in
  let num_code_lengths := 4 + x in
  let* '(cl_cl, br) := read_cl_cl (Z.to_nat num_code_lengths) 0 (repeat 0 (Z.to_nat lossless_CODE_LENGTH_CODES)) br in
  let* '(new_code_lengths, br) := read_huffman_code_lengths br cl_cl alphabet_size in
  let* t := build_implicit new_code_lengths in
  Ok (t, br).

Lemma read_huffman_code_unfold br a :
  read_huffman_code br a = let* '(simple, br) := BitReader.read_bits br 8 1 in if simple =? 1 then m_simple br a else m_normal br a.
Proof. reflexivity. Qed.

(* ------------------------------------------------------------------------------------------------ *)
(** * simple codes *)
Lemma simple_lens_length a syms : length (simple_lens a syms) = Z.to_nat a.
Proof. unfold simple_lens. rewrite map_length. apply zseq_length. Qed.

Lemma simple_lens_nth a syms i : (i < Z.to_nat a)%nat ->
  nth i (simple_lens a syms) 0 = if existsb (Z.eqb (Z.of_nat i)) syms then 1 else 0.
Proof. intros H. unfold simple_lens. apply (nth_map_zseq (fun i => if existsb (Z.eqb i) syms then 1 else 0)). exact H. Qed.

(* one symbol, or the same symbol twice *)
Lemma simple_one a s0 syms : 0 <= s0 < a -> (forall i, existsb (Z.eqb i) syms = (i =? s0)) ->
  V.make_code (simple_lens a syms) = Some (V.Symbol s0).
Proof.
  intros Hs Hex. replace (V.Symbol s0) with (V.Symbol (Z.of_nat (Z.to_nat s0))) by (rewrite Z2Nat.id by lia; reflexivity).
  apply (make_code_single (simple_lens a syms) (Z.to_nat s0) 1); [rewrite simple_lens_length; lia | lia|].
  intros i Hi. rewrite simple_lens_length in Hi. rewrite simple_lens_nth by exact Hi. rewrite Hex.
  destruct (Z.eqb_spec (Z.of_nat i) s0) as [E|E]; destruct (Nat.eqb_spec i (Z.to_nat s0)) as [E'|E']; try reflexivity; lia.
Qed.

Lemma simple_two a s0 s1 c : 0 <= s0 < a -> 0 <= s1 < a -> s0 <> s1 -> a <= 65536 ->
  V.make_code (simple_lens a [s0; s1]) = Some c -> represents (simple_two_symbols s0 s1) c a.
Proof.
  intros H0 H1 Hne Ha Hc. unfold simple_two_symbols. replace (s0 =? s1) with false by (symmetry; apply Z.eqb_neq; exact Hne).
  set (lo := Z.to_nat (Z.min s0 s1)). set (hi := Z.to_nat (Z.max s0 s1)).
  replace (Z.min s0 s1) with (Z.of_nat lo) by (unfold lo; lia). replace (Z.max s0 s1) with (Z.of_nat hi) by (unfold hi; lia).
  replace a with (Z.of_nat (length (simple_lens a [s0; s1]))) at 1 by (rewrite simple_lens_length; lia).
  apply (represents_two (simple_lens a [s0; s1]) lo hi).
  - unfold lo, hi. lia.
  - rewrite simple_lens_length. unfold hi. lia.
  - intros i Hi. rewrite simple_lens_length in Hi. rewrite simple_lens_nth by exact Hi. cbn [existsb]. rewrite orb_false_r.
    unfold lo, hi.
    destruct (Z.eqb_spec (Z.of_nat i) s0); destruct (Z.eqb_spec (Z.of_nat i) s1);
      destruct (Nat.eqb_spec i (Z.to_nat (Z.min s0 s1))); destruct (Nat.eqb_spec i (Z.to_nat (Z.max s0 s1))); cbn [orb]; try reflexivity; lia.
  - rewrite simple_lens_length. lia.
  - exact Hc.
Qed.

Lemma simple_two_some a s0 s1 : 0 <= s0 < a -> 0 <= s1 < a -> s0 <> s1 -> exists c, V.make_code (simple_lens a [s0; s1]) = Some c.
Proof.
  intros H0 H1 Hne.
  apply (two_make_code (simple_lens a [s0; s1]) (Z.to_nat (Z.min s0 s1)) (Z.to_nat (Z.max s0 s1))).
  - lia.
  - rewrite simple_lens_length. lia.
  - intros i Hi. rewrite simple_lens_length in Hi. rewrite simple_lens_nth by exact Hi. cbn [existsb]. rewrite orb_false_r.
    destruct (Z.eqb_spec (Z.of_nat i) s0); destruct (Z.eqb_spec (Z.of_nat i) s1);
      destruct (Nat.eqb_spec i (Z.to_nat (Z.min s0 s1))); destruct (Nat.eqb_spec i (Z.to_nat (Z.max s0 s1))); cbn [orb]; try reflexivity; lia.
Qed.

Theorem simple_refines a st r : Rel st r -> 1 <= a <= 65536 ->
  match strict_simple_lengths a st with
  | Some (lens, st') => exists c t r', V.make_code lens = Some c /\ m_simple r a = Ok (t, r') /\ Rel st' r' /\ represents t c a
  | None => exists e, m_simple r a = Err e
  end.
Proof.
  intros HRel Ha. unfold strict_simple_lengths, read_simple_symbols, m_simple.
  (* number of symbols *)
  pose proof (rbn st r 8 1 HRel ltac:(lia) ltac:(lia)) as P. change (Z.of_nat 1) with 1 in P.
  destruct (V.read_bits 1 st) as [[two st1]|]; [|rewrite P; eexists; reflexivity].
  destruct P as (r1 & E1 & HRel1 & Htwo). rewrite E1. cbn [bind]. clear E1 HRel.
  (* is_first_8bits *)
  pose proof (rbn st1 r1 8 1 HRel1 ltac:(lia) ltac:(lia)) as P. change (Z.of_nat 1) with 1 in P.
  destruct (V.read_bits 1 st1) as [[f8 st2]|]; [|rewrite P; eexists; reflexivity].
  destruct P as (r2 & E2 & HRel2 & Hf8). rewrite E2. cbn [bind]. clear E2 HRel1.
  (* first symbol *)
  assert (P : match V.read_bits (if f8 =? 1 then 8 else 1) st2 with
              | Some (v, st') => exists r', read_bits r2 16 (1 + 7 * f8) = Ok (v, r') /\ Rel st' r' /\ 0 <= v < 256
              | None => read_bits r2 16 (1 + 7 * f8) = Err EBitStreamError end).
  { change (2 ^ 1) with 2 in Hf8. assert (Hc : f8 = 0 \/ f8 = 1) by lia. destruct Hc as [-> | ->]; cbn [Z.eqb Pos.eqb].
    - pose proof (rbn st2 r2 16 1 HRel2 ltac:(lia) ltac:(lia)) as P. change (Z.of_nat 1) with 1 in P. change (1 + 7 * 0) with 1.
      destruct (V.read_bits 1 st2) as [[v st']|]; [|exact P]. destruct P as (r' & E & H & Hv). exists r'. change (2 ^ 1) with 2 in Hv. split; [exact E|]. split; [exact H|]. lia.
    - pose proof (rbn st2 r2 16 8 HRel2 ltac:(lia) ltac:(lia)) as P. change (Z.of_nat 8) with 8 in P. change (1 + 7 * 1) with 8.
      destruct (V.read_bits 8 st2) as [[v st']|]; [|exact P]. destruct P as (r' & E & H & Hv). exists r'. change (2 ^ 8) with 256 in Hv. split; [exact E|]. split; [exact H|]. lia. }
  destruct (V.read_bits (if f8 =? 1 then 8%nat else 1%nat) st2) as [[s0 st3]|]; [|rewrite P; eexists; reflexivity].
  destruct P as (r3 & E3 & HRel3 & Hs0). rewrite E3. cbn [bind]. clear E3 HRel2.
  change (2 ^ 1) with 2 in Htwo. assert (Hc : two = 0 \/ two = 1) by lia. destruct Hc as [-> | ->]; cbn [Z.eqb Pos.eqb Z.add Pos.add].
  - (* one symbol *)
    cbn [forallb]. rewrite andb_true_r. destruct (Z.ltb_spec s0 a) as [Hlt|Hge].
    + replace (a <=? s0) with false by (symmetry; apply Z.leb_gt; lia).
      exists (V.Symbol s0), (build_single_node s0), r3. split; [|split; [reflexivity|split; [exact HRel3|]]].
      * apply simple_one; [lia|]. intros i. cbn [existsb]. apply orb_false_r.
      * apply represents_single. lia.
    + replace (a <=? s0) with true by (symmetry; apply Z.leb_le; lia). eexists; reflexivity.
  - (* two symbols *)
    pose proof (rbn st3 r3 16 8 HRel3 ltac:(lia) ltac:(lia)) as P. change (Z.of_nat 8) with 8 in P.
    destruct (V.read_bits 8 st3) as [[s1 st4]|].
    2:{ destruct (a <=? s0); [eexists; reflexivity|]. rewrite P. eexists; reflexivity. }
    destruct P as (r4 & E4 & HRel4 & Hs1). change (2 ^ 8) with 256 in Hs1. cbn [forallb]. rewrite andb_true_r.
    destruct (Z.ltb_spec s0 a) as [Hlt0|Hge0]; cbn [andb].
    2:{ replace (a <=? s0) with true by (symmetry; apply Z.leb_le; lia). eexists; reflexivity. }
    replace (a <=? s0) with false by (symmetry; apply Z.leb_gt; lia). rewrite E4. cbn [bind].
    destruct (Z.ltb_spec s1 a) as [Hlt1|Hge1].
    2:{ replace (a <=? s1) with true by (symmetry; apply Z.leb_le; lia). eexists; reflexivity. }
    replace (a <=? s1) with false by (symmetry; apply Z.leb_gt; lia).
    destruct (Z.eq_dec s0 s1) as [<-|Hne].
    + exists (V.Symbol s0), (simple_two_symbols s0 s0), r4. split; [|split; [reflexivity|split; [exact HRel4|]]].
      * apply simple_one; [lia|]. intros i. cbn [existsb]. destruct (i =? s0); reflexivity.
      * rewrite simple_two_symbols_equal. apply represents_single. lia.
    + destruct (simple_two_some a s0 s1 ltac:(lia) ltac:(lia) Hne) as (c & Hc).
      exists c, (simple_two_symbols s0 s1), r4. split; [exact Hc|]. split; [reflexivity|]. split; [exact HRel4|].
      apply simple_two; auto; lia.
Qed.

(* ------------------------------------------------------------------------------------------------ *)
(** * lists and arrays *)
Lemma zto_list_aux_spec a : forall n acc,
  zto_list_aux a n (N.of_nat n) acc = map (fun j => araw a (N.of_nat j)) (seq 0 n) ++ acc.
Proof.
  induction n as [|n IH]; intros acc; [reflexivity|]. cbn [zto_list_aux].
  replace (N.pred (N.of_nat (S n))) with (N.of_nat n) by lia. rewrite IH. rewrite seq_S, map_app, <- app_assoc. reflexivity.
Qed.

Lemma zto_list_ext a lens : zlen a = Z.of_nat (length lens) ->
  (forall j, 0 <= j < zlen a -> az a j = nth (Z.to_nat j) lens 0) -> zto_list a = lens.
Proof.
  intros Hlen Hnth. unfold zto_list. rewrite <- (N2Nat.id (alen a)) at 2. rewrite zto_list_aux_spec, app_nil_r.
  unfold zlen in *. apply (nth_ext _ _ 0 0).
  - rewrite map_length, seq_length. lia.
  - intros n Hn. rewrite map_length, seq_length in Hn.
    rewrite (nth_indep _ 0 ((fun j => araw a (N.of_nat j)) 0%nat)) by (rewrite map_length, seq_length; exact Hn).
    rewrite (map_nth (fun j => araw a (N.of_nat j))). rewrite seq_nth by exact Hn. cbn [plus].
    specialize (Hnth (Z.of_nat n) ltac:(lia)). rewrite Nat2Z.id in Hnth. rewrite <- Hnth. unfold az. f_equal. lia.
Qed.

Lemma nth_app_zeros (l : list Z) k j : nth j (l ++ repeat 0 k) 0 = nth j l 0.
Proof.
  destruct (Nat.lt_ge_cases j (length l)) as [H|H].
  - apply app_nth1. exact H.
  - rewrite app_nth2 by exact H. rewrite (nth_overflow l) by exact H.
    destruct (Nat.lt_ge_cases (j - length l) k) as [H2|H2]; [apply nth_repeat | apply nth_overflow; rewrite repeat_length; exact H2].
Qed.

Lemma rev_repeat {A} (x : A) n : rev (repeat x n) = repeat x n.
Proof.
  induction n as [|n IH]; [reflexivity|]. cbn [repeat rev]. rewrite IH. clear IH.
  induction n as [|n IH]; [reflexivity|]. cbn [repeat app]. rewrite IH. reflexivity.
Qed.

Lemma Forall_repeat {A} (P : A -> Prop) x n : P x -> Forall P (repeat x n).
Proof. intros H. induction n; cbn [repeat]; constructor; auto. Qed.

Lemma list_set_Forall (P : Z -> Prop) : forall l i v l', list_set l i v = Some l' -> Forall P l -> P v -> Forall P l'.
Proof.
  induction l as [|x tl IH]; intros i v l' E HF Hv; [destruct i; discriminate|].
  inversion HF as [|? ? Hx Htl]; subst. destruct i as [|i]; cbn [list_set] in E.
  - injection E as <-. constructor; assumption.
  - destruct (list_set tl i v) as [tl'|] eqn:E1; [|discriminate]. injection E as <-. constructor; [assumption|]. eapply IH; eauto.
Qed.

(* ------------------------------------------------------------------------------------------------ *)
(** * the code-length code: 4 + n three-bit lengths in kCodeLengthCodeOrder *)
Definition lset (l : list Z) (i : nat) (v : Z) : list Z := match list_set l i v with Some l' => l' | None => l end.

Fixpoint apply_sets (i : nat) (vals cl : list Z) : list Z :=
  match vals with
  | [] => cl
  | v :: tl => apply_sets (S i) tl (lset cl (Z.to_nat (nth i lossless_CODE_LENGTH_CODE_ORDER 0)) v)
  end.

Lemma order_range i : (i < 19)%nat -> 0 <= nth i lossless_CODE_LENGTH_CODE_ORDER 0 < 19.
Proof. intros Hi. do 19 (destruct i as [|i]; [cbn; lia|]). lia. Qed.

Lemma read_cl_cl_refines : forall n i cl st r, Rel st r -> (i + n <= 19)%nat -> length cl = 19%nat ->
  Forall (fun v => 0 <= v < 8) cl ->
  match V.read_many n 3 st with
  | Some (vals, st') => exists r', read_cl_cl n (Z.of_nat i) cl r = Ok (apply_sets i vals cl, r') /\ Rel st' r' /\
                          length vals = n /\ length (apply_sets i vals cl) = 19%nat /\
                          Forall (fun v => 0 <= v < 8) (apply_sets i vals cl)
  | None => read_cl_cl n (Z.of_nat i) cl r = Err EBitStreamError
  end.
Proof.
  induction n as [|n IH]; intros i cl st r HRel Hin Hlen Hcl; cbn [V.read_many read_cl_cl].
  - exists r. cbn [apply_sets]. auto.
  - pose proof (rbn st r 16 3 HRel ltac:(lia) ltac:(lia)) as P. change (Z.of_nat 3) with 3 in P.
    destruct (V.read_bits 3 st) as [[v st1]|]; [|rewrite P; reflexivity].
    destruct P as (r1 & E1 & HRel1 & Hv). change (2 ^ 3) with 8 in Hv. rewrite E1. cbn [bind].
    rewrite zlist_get_ok by (change (length lossless_CODE_LENGTH_CODE_ORDER) with 19%nat; lia). cbn [bind].
    unfold zn. rewrite Nat2Z.id. pose proof (order_range i ltac:(lia)) as Hpos.
    set (pos := nth i lossless_CODE_LENGTH_CODE_ORDER 0) in *.
    destruct (list_set_ok cl (Z.to_nat pos) v ltac:(lia)) as (cl1 & Es & Hlen1 & _).
    unfold zlist_set. replace (pos <? 0) with false by (symmetry; apply Z.ltb_ge; lia). rewrite Es. cbn [of_option bind].
    assert (Hcl1 : Forall (fun v => 0 <= v < 8) cl1) by (eapply list_set_Forall; eauto).
    specialize (IH (S i) cl1 st1 r1 HRel1 ltac:(lia) ltac:(lia) Hcl1).
    replace (Z.of_nat i + 1) with (Z.of_nat (S i)) by lia.
    destruct (V.read_many n 3 st1) as [[vals st2]|]; [|exact IH].
    destruct IH as (r2 & E2 & HRel2 & Hl2 & Hl3 & HF). exists r2. cbn [apply_sets]. fold pos.
    assert (Hls : lset cl (Z.to_nat pos) v = cl1) by (unfold lset; rewrite Es; reflexivity). rewrite Hls.
    split; [exact E2|]. split; [exact HRel2|]. split; [cbn [length]; lia|]. split; assumption.
Qed.

(* the lengths as the specification arranges them *)
Definition spec_cll (num : nat) (vals : list Z) : list Z :=
  let given := combine (firstn num V.kCodeLengthCodeOrder) vals in
  map (fun k => match find (fun kv => fst kv =? k) given with Some kv => snd kv | None => 0 end)
      [0; 1; 2; 3; 4; 5; 6; 7; 8; 9; 10; 11; 12; 13; 14; 15; 16; 17; 18].

Lemma perm_ok vals : (4 <= length vals <= 19)%nat -> apply_sets 0 vals (repeat 0 19) = spec_cll (length vals) vals.
Proof.
  intros H. do 20 (destruct vals as [|? vals]; [try (cbn [length] in H; lia); try reflexivity|]). cbn [length] in H. lia.
Qed.

(* ------------------------------------------------------------------------------------------------ *)
(** * the code lengths: literal lengths 0..15, repeat codes 16 / 17 / 18, max_symbol *)
Lemma run_set cl symbol n value a : zlen cl = a -> 0 <= symbol -> 0 <= n -> symbol + n <= a ->
  exists cl', for_range 0 n (fun k c => zset c (symbol + k) value) cl = Ok cl' /\ zlen cl' = a /\
    forall j, 0 <= j -> az cl' j = if (symbol <=? j) && (j <? symbol + n) then value else az cl j.
Proof.
  intros Hlen Hs Hn Hsn. unfold for_range.
  destruct (for_loop_inv (fun (i : Z) (c : arr) => zlen c = a /\
              forall j, 0 <= j -> az c j = if (symbol <=? j) && (j <? symbol + i) then value else az cl j)
              (fun k c => zset c (symbol + k) value) 1 (Z.to_nat (n - 0)) 0 cl) as (cl' & E & Hl & Hz).
  - split; [exact Hlen|]. intros j Hj. replace ((symbol <=? j) && (j <? symbol + 0)) with false; [reflexivity|].
    symmetry. apply andb_false_iff. destruct (Z_le_gt_dec symbol j); [right; apply Z.ltb_ge | left; apply Z.leb_gt]; lia.
  - intros k c (m & Hm & Hk) [Hl Hz]. destruct (zset_ok c (symbol + k) value ltac:(lia)) as (c1 & E1 & Hl1 & Hz1).
    exists c1. split; [exact E1|]. split; [lia|]. intros j Hj. rewrite (Hz1 j Hj), (Hz j Hj).
    destruct (Z.eqb_spec j (symbol + k)) as [->|Hne].
    + replace ((symbol <=? symbol + k) && (symbol + k <? symbol + (k + 1))) with true; [reflexivity|].
      symmetry. apply andb_true_iff. split; [apply Z.leb_le | apply Z.ltb_lt]; lia.
    + destruct (symbol <=? j) eqn:E2; cbn [andb]; [|reflexivity].
      destruct (Z.ltb_spec j (symbol + k)); destruct (Z.ltb_spec j (symbol + (k + 1))); try reflexivity; lia.
  - exists cl'. split; [exact E|]. split; [exact Hl|]. intros j Hj. rewrite (Hz j Hj). replace (0 + Z.of_nat (Z.to_nat (n - 0)) * 1) with n by lia. reflexivity.
Qed.

Lemma lengths_loop table clc a : 2 <= a <= 5957 -> represents table clc 19 ->
  forall fuel mfuel todo tokens prev acc st r cl,
    Rel st r -> 0 <= todo <= a -> 0 <= tokens -> 0 <= prev <= 15 -> lens_ok acc ->
    Z.of_nat (length acc) = a - todo -> zlen cl = a ->
    (forall j, 0 <= j < a -> az cl j = nth (Z.to_nat j) (rev acc) 0) ->
    todo <= Z.of_nat fuel -> todo < Z.of_nat mfuel ->
    match V.read_lengths fuel clc todo tokens prev acc st with
    | Some (lens, st') =>
        exists cl' r', code_lengths_loop mfuel table a (a - todo) tokens prev cl r = Ok (cl', r') /\ Rel st' r' /\
          zlen cl' = a /\ (forall j, 0 <= j < a -> az cl' j = nth (Z.to_nat j) lens 0) /\
          length lens = Z.to_nat a /\ lens_ok lens
    | None => exists e, code_lengths_loop mfuel table a (a - todo) tokens prev cl r = Err e
    end.
Proof.
  intros Ha [Tok Treads _ Tlt].
  induction fuel as [|fuel IH]; intros mfuel todo tokens prev acc st r cl HRel Htodo Htok Hprev Hacc Hlacc Hlen Hcl Hfuel Hmfuel;
    (destruct mfuel as [|mfuel]; [lia|]).
  - (* no fuel: nothing is missing *)
    assert (todo = 0) by lia. subst todo. cbn [V.read_lengths Z.leb Z.compare orb code_lengths_loop].
    rewrite Z.sub_0_r. rewrite Z.ltb_irrefl. cbn [negb]. exists cl, r. split; [reflexivity|]. split; [exact HRel|].
    split; [exact Hlen|]. rewrite rev_append_rev. cbn [Z.to_nat repeat]. rewrite app_nil_r.
    split; [exact Hcl|]. split; [rewrite rev_length; lia|]. apply Forall_rev. exact Hacc.
  - cbn [V.read_lengths code_lengths_loop].
    destruct ((todo <=? 0) || (tokens <=? 0)) eqn:Eexit.
    + (* all lengths read, or no token left *)
      assert (Hm : (if negb (a - todo <? a) then Ok (cl, r) else if tokens =? 0 then Ok (cl, r) else
                      Err EBitStreamError : res (arr * BitReader.t)) = Ok (cl, r)).
      { apply orb_true_iff in Eexit. destruct (Z.ltb_spec (a - todo) a); cbn [negb]; [|reflexivity].
        destruct Eexit as [E|E]; apply Z.leb_le in E; [lia|]. replace (tokens =? 0) with true by (symmetry; apply Z.eqb_eq; lia). reflexivity. }
      exists cl, r. split.
      { destruct (negb (a - todo <? a)); [reflexivity|]. destruct (tokens =? 0); [reflexivity | discriminate]. }
      split; [exact HRel|]. split; [exact Hlen|]. rewrite rev_append_rev. split.
      { intros j Hj. rewrite nth_app_zeros. apply Hcl. exact Hj. }
      split; [rewrite app_length, rev_length, repeat_length; lia|].
      apply Forall_app. split; [apply Forall_rev; exact Hacc | apply Forall_repeat; lia].
    + apply orb_false_iff in Eexit. destruct Eexit as [E1 E2]. apply Z.leb_gt in E1. apply Z.leb_gt in E2.
      replace (a - todo <? a) with true by (symmetry; apply Z.ltb_lt; lia). cbn [negb].
      replace (tokens =? 0) with false by (symmetry; apply Z.eqb_neq; lia).
      destruct (fill_Rel st r HRel) as (r1 & F & HRel1 & Hpost). rewrite F. cbn [bind]. clear F.
      assert (Hdisc : disc r1) by (destruct Hpost; [left; lia | right; assumption]).
      pose proof (Treads st r1 HRel1 Hdisc) as P.
      destruct (V.read_symbol clc st) as [[c st1]|]; [|rewrite P; eexists; reflexivity].
      destruct P as (r2 & Er & HRel2 & _). rewrite Er. cbn [bind].
      destruct Tlt as [Tl _]. pose proof (Tl _ _ _ Er) as Hc. clear Er.
      set (symbol := a - todo) in *.
      destruct (c <? 16) eqn:Ec16.
      * (* a literal length *)
        apply Z.ltb_lt in Ec16.
        destruct (zset_ok cl symbol c ltac:(lia)) as (cl1 & Es & Hl1 & Hz1). rewrite Es. cbn [bind].
        specialize (IH mfuel (todo - 1) (tokens - 1) (if c =? 0 then prev else c) (c :: acc) st1 r2 cl1 HRel2).
        replace (a - (todo - 1)) with (symbol + 1) in IH by lia. apply IH; try lia.
        -- destruct (c =? 0); lia.
        -- constructor; [lia | exact Hacc].
        -- cbn [length]. lia.
        -- intros j Hj. rewrite (Hz1 j ltac:(lia)). cbn [rev].
           destruct (Z.eqb_spec j symbol) as [->|Hne].
           ++ rewrite app_nth2 by (rewrite rev_length; lia). rewrite rev_length.
              replace (Z.to_nat symbol - length acc)%nat with 0%nat by lia. reflexivity.
           ++ rewrite (Hcl j Hj). destruct (Z_lt_ge_dec j symbol) as [Hlt|Hge].
              ** rewrite app_nth1 by (rewrite rev_length; lia). reflexivity.
              ** rewrite !nth_overflow; [reflexivity | rewrite app_length, rev_length; cbn [length]; lia | rewrite rev_length; lia].
      * (* a repeat code *)
        apply Z.ltb_ge in Ec16.
        assert (Hrun : forall (k : nat) base value, (k <= 7)%nat -> 3 <= base <= 11 -> 0 <= value <= 15 ->
           match (olet (x, s) := V.read_bits k st1 in
                  if base + x >? todo then None
                  else V.read_lengths fuel clc (todo - (base + x)) (tokens - 1) prev (repeat value (Z.to_nat (base + x)) ++ acc) s) with
           | Some (lens, st') =>
               exists cl' r', (let* '(rb, br) := read_bits r2 16 (Z.of_nat k) in
                               let repeat := rb + base in
                               if (65535 <? repeat) || (65535 <? symbol + repeat) then Panic POverflow else
                               if a <? symbol + repeat then Err EBitStreamError else
                               let* cl0 := for_range 0 repeat (fun k0 c0 => zset c0 (symbol + k0) value) cl in
                               code_lengths_loop mfuel table a (symbol + repeat) (tokens - 1) prev cl0 br) = Ok (cl', r') /\
                 Rel st' r' /\ zlen cl' = a /\ (forall j, 0 <= j < a -> az cl' j = nth (Z.to_nat j) lens 0) /\
                 length lens = Z.to_nat a /\ lens_ok lens
           | None => exists e, (let* '(rb, br) := read_bits r2 16 (Z.of_nat k) in
                               let repeat := rb + base in
                               if (65535 <? repeat) || (65535 <? symbol + repeat) then Panic POverflow else
                               if a <? symbol + repeat then Err EBitStreamError else
                               let* cl0 := for_range 0 repeat (fun k0 c0 => zset c0 (symbol + k0) value) cl in
                               code_lengths_loop mfuel table a (symbol + repeat) (tokens - 1) prev cl0 br) = Err e
           end).
        { intros k base value Hk Hbase Hvalue.
          pose proof (rbn st1 r2 16 k HRel2 ltac:(lia) ltac:(lia)) as P.
          destruct (V.read_bits k st1) as [[x st2]|]; [|rewrite P; eexists; reflexivity].
          destruct P as (r3 & Eb & HRel3 & Hx). rewrite Eb. cbn [bind]. cbv zeta.
          assert (Hx2 : 0 <= x < 128).
          { split; [lia|]. apply Z.lt_le_trans with (2 ^ Z.of_nat k); [lia|]. change 128 with (2 ^ 7). apply Z.pow_le_mono_r; lia. }
          replace ((65535 <? x + base) || (65535 <? symbol + (x + base))) with false
            by (symmetry; apply orb_false_iff; split; apply Z.ltb_ge; lia).
          replace (base + x) with (x + base) by lia.
          destruct (Z.gtb_spec (x + base) todo) as [Hgt|Hle].
          - replace (a <? symbol + (x + base)) with true by (symmetry; apply Z.ltb_lt; lia). eexists; reflexivity.
          - replace (a <? symbol + (x + base)) with false by (symmetry; apply Z.ltb_ge; lia).
            destruct (run_set cl symbol (x + base) value a Hlen ltac:(lia) ltac:(lia) ltac:(lia)) as (cl1 & Es & Hl1 & Hz1).
            rewrite Es. cbn [bind].
            specialize (IH mfuel (todo - (x + base)) (tokens - 1) prev (repeat value (Z.to_nat (x + base)) ++ acc) st2 r3 cl1 HRel3).
            replace (a - (todo - (x + base))) with (symbol + (x + base)) in IH by lia. apply IH; try lia.
            + apply Forall_app. split; [apply Forall_repeat; lia | exact Hacc].
            + rewrite app_length, repeat_length. lia.
            + intros j Hj. rewrite (Hz1 j ltac:(lia)). rewrite rev_app_distr, rev_repeat.
              destruct (Z.leb_spec symbol j) as [Hsj|Hsj]; cbn [andb].
              * rewrite app_nth2 by (rewrite rev_length; lia). rewrite rev_length.
                destruct (Z.ltb_spec j (symbol + (x + base))) as [Hjr|Hjr].
                -- symmetry. rewrite (nth_indep _ 0 value) by (rewrite repeat_length; lia). apply nth_repeat.
                -- rewrite (Hcl j Hj). rewrite !nth_overflow; [reflexivity | rewrite repeat_length; lia | rewrite rev_length; lia].
              * rewrite (Hcl j Hj). rewrite app_nth1 by (rewrite rev_length; lia). reflexivity. }
        assert (Hc3 : c = 16 \/ c = 17 \/ c = 18) by lia.
        destruct Hc3 as [-> | [-> | ->]]; cbn [Z.eqb Pos.eqb Z.sub Z.add Z.opp Z.pos_sub Pos.pred_double bind].
        -- apply (Hrun 2%nat 3 prev); lia.
        -- apply (Hrun 3%nat 3 0); lia.
        -- apply (Hrun 7%nat 11 0); lia.
Qed.

(* ------------------------------------------------------------------------------------------------ *)
(** * the normal form *)
Lemma read_normal_lengths_eq a s :
  V.read_normal_lengths a s =
  olet (n, s) := V.read_bits 4 s in
  olet (vals, s) := V.read_many (Z.to_nat (4 + n)) 3 s in
  olet clc := V.make_code (spec_cll (Z.to_nat (4 + n)) vals) in
  olet (use_max, s) := V.read_bits 1 s in
  olet (max_symbol, s) := (if use_max =? 0 then Some (a, s)
                           else olet (k, s) := V.read_bits 3 s in olet (m, s) := V.read_bits (Z.to_nat (2 + 2 * k)) s in Some (2 + m, s)) in
  if max_symbol >? a then None else V.read_lengths (Z.to_nat a) clc a max_symbol 8 [] s.
Proof. reflexivity. Qed.

Theorem normal_refines a st r : Rel st r -> 2 <= a <= 5957 ->
  match V.read_normal_lengths a st with
  | Some (lens, st') =>
      match V.make_code lens with
      | Some c => exists t r', m_normal r a = Ok (t, r') /\ Rel st' r' /\ represents t c a
      | None => exists e, m_normal r a = Err e
      end
  | None => exists e, m_normal r a = Err e
  end.
Proof.
  intros HRel Ha. rewrite read_normal_lengths_eq. unfold m_normal.
  (* number of code-length code lengths *)
  pose proof (rbn st r 64 4 HRel ltac:(lia) ltac:(lia)) as P. change (Z.of_nat 4) with 4 in P.
  destruct (V.read_bits 4 st) as [[n st1]|]; [|rewrite P; eexists; reflexivity].
  destruct P as (r1 & E1 & HRel1 & Hn). change (2 ^ 4) with 16 in Hn. rewrite E1. cbn [bind]. clear E1 HRel.
  (* the code-length code lengths *)
  change (Z.to_nat lossless_CODE_LENGTH_CODES) with 19%nat.
  pose proof (read_cl_cl_refines (Z.to_nat (4 + n)) 0 (repeat 0 19) st1 r1 HRel1 ltac:(lia) ltac:(reflexivity)
                ltac:(apply Forall_repeat; lia)) as P. change (Z.of_nat 0) with 0 in P.
  destruct (V.read_many (Z.to_nat (4 + n)) 3 st1) as [[vals st2]|]; [|rewrite P; eexists; reflexivity].
  destruct P as (r2 & E2 & HRel2 & Hlv & Hl19 & Hcl8). rewrite E2. cbn [bind]. clear E2 HRel1.
  rewrite perm_ok in * by lia. rewrite Hlv in *.
  set (cll := spec_cll (Z.to_nat (4 + n)) vals) in *.
  assert (Hcll : lens_ok cll) by (eapply Forall_impl; [|exact Hcl8]; cbn; intros; lia).
  unfold read_huffman_code_lengths.
  pose proof (build_make cll Hcll ltac:(lia)) as P.
  destruct (V.make_code cll) as [clc|]; [|rewrite P; eexists; reflexivity].
  destruct P as (table & Eb & Hrep). rewrite Hl19 in Hrep. change (Z.of_nat 19) with 19 in Hrep. rewrite Eb. cbn [bind]. clear Eb.
  (* max_symbol *)
  pose proof (rbn st2 r2 8 1 HRel2 ltac:(lia) ltac:(lia)) as P. change (Z.of_nat 1) with 1 in P.
  destruct (V.read_bits 1 st2) as [[use_max st3]|]; [|rewrite P; eexists; reflexivity].
  destruct P as (r3 & E3 & HRel3 & Hum). change (2 ^ 1) with 2 in Hum. rewrite E3. cbn [bind]. clear E3 HRel2.
  assert (Hmax : match (if use_max =? 0 then Some (a, st3)
                        else olet (k, s) := V.read_bits 3 st3 in olet (m, s) := V.read_bits (Z.to_nat (2 + 2 * k)) s in Some (2 + m, s)) with
                 | Some (ms, st4) =>
                     if ms >? a then exists e,
                        (if use_max =? 1 then
                           let* '(x, br) := read_bits r3 8 3 in
                           let* '(max_minus_two, br) := read_bits br 16 (2 + 2 * x) in
                           let* lim := usub a 2 in
                           if lim <? max_minus_two then Err EBitStreamError else Ok (2 + max_minus_two, br)
                         else Ok (a, r3)) = Err e
                     else exists r4,
                        (if use_max =? 1 then
                           let* '(x, br) := read_bits r3 8 3 in
                           let* '(max_minus_two, br) := read_bits br 16 (2 + 2 * x) in
                           let* lim := usub a 2 in
                           if lim <? max_minus_two then Err EBitStreamError else Ok (2 + max_minus_two, br)
                         else Ok (a, r3)) = Ok (ms, r4) /\ Rel st4 r4 /\ 0 <= ms
                 | None => exists e,
                        (if use_max =? 1 then
                           let* '(x, br) := read_bits r3 8 3 in
                           let* '(max_minus_two, br) := read_bits br 16 (2 + 2 * x) in
                           let* lim := usub a 2 in
                           if lim <? max_minus_two then Err EBitStreamError else Ok (2 + max_minus_two, br)
                         else Ok (a, r3)) = Err e
                 end).
  { assert (Hc : use_max = 0 \/ use_max = 1) by lia. destruct Hc as [-> | ->]; cbn [Z.eqb Pos.eqb].
    - rewrite Z.gtb_ltb, Z.ltb_irrefl. exists r3. split; [reflexivity|]. split; [exact HRel3 | lia].
    - pose proof (rbn st3 r3 8 3 HRel3 ltac:(lia) ltac:(lia)) as P. change (Z.of_nat 3) with 3 in P.
      destruct (V.read_bits 3 st3) as [[k st4]|]; [|rewrite P; eexists; reflexivity].
      destruct P as (r4 & E4 & HRel4 & Hk). change (2 ^ 3) with 8 in Hk. rewrite E4. cbn [bind]. cbv zeta.
      pose proof (rbn st4 r4 16 (Z.to_nat (2 + 2 * k)) HRel4 ltac:(lia) ltac:(lia)) as P. rewrite Z2Nat.id in P by lia.
      destruct (V.read_bits (Z.to_nat (2 + 2 * k)) st4) as [[m st5]|]; [|rewrite P; eexists; reflexivity].
      destruct P as (r5 & E5 & HRel5 & Hm). rewrite E5. cbn [bind].
      unfold usub. replace (a <? 2) with false by (symmetry; apply Z.ltb_ge; lia). cbn [bind].
      destruct (Z.gtb_spec (2 + m) a) as [Hgt|Hle].
      + replace (a - 2 <? m) with true by (symmetry; apply Z.ltb_lt; lia). eexists; reflexivity.
      + replace (a - 2 <? m) with false by (symmetry; apply Z.ltb_ge; lia). exists r5. split; [reflexivity|]. split; [exact HRel5 | lia]. }
  match type of Hmax with match ?X with _ => _ end => destruct X as [[ms st4]|] end.
  2:{ destruct Hmax as (e & E). rewrite E. eexists; reflexivity. }
  destruct (ms >? a) eqn:Egt.
  { destruct Hmax as (e & E). rewrite E. eexists; reflexivity. }
  destruct Hmax as (r4 & E4 & HRel4 & Hms). rewrite E4. cbn [bind]. clear E4.
  (* the lengths *)
  pose proof (lengths_loop table clc a Ha Hrep (Z.to_nat a) (S (Z.to_nat a)) a ms 8 [] st4 r4 (zmake a) HRel4
                ltac:(lia) Hms ltac:(lia) ltac:(constructor) ltac:(cbn [length]; lia) ltac:(apply zmake_len; lia)
                ltac:(intros j Hj; rewrite zmake_az; cbn [rev]; destruct (Z.to_nat j); reflexivity) ltac:(lia) ltac:(lia)) as P.
  replace (a - a) with 0 in P by lia.
  destruct (V.read_lengths (Z.to_nat a) clc a ms 8 [] st4) as [[lens st5]|].
  2:{ destruct P as (e & E). rewrite E. eexists; reflexivity. }
  destruct P as (cl' & r5 & E5 & HRel5 & Hl5 & Hz5 & Hlen5 & Hok5). rewrite E5. cbn [bind].
  rewrite (zto_list_ext cl' lens) by (try lia; intros j Hj; apply Hz5; lia).
  pose proof (build_make lens Hok5 ltac:(lia)) as P.
  destruct (V.make_code lens) as [c|]; [|rewrite P; eexists; reflexivity].
  destruct P as (t & Eb & Hrt). rewrite Eb. cbn [bind]. exists t, r5. split; [reflexivity|]. split; [exact HRel5|].
  rewrite Hlen5, Z2Nat.id in Hrt by lia. exact Hrt.
Qed.

(* ------------------------------------------------------------------------------------------------ *)
(** * read_huffman_code = strict_prefix_code *)
Theorem read_huffman_code_refines a st r : Rel st r -> 2 <= a <= 5957 ->
  match strict_prefix_code a st with
  | Some (c, st') => exists t r', read_huffman_code r a = Ok (t, r') /\ Rel st' r' /\ represents t c a
  | None => exists e, read_huffman_code r a = Err e
  end.
Proof.
  intros HRel Ha. rewrite read_huffman_code_unfold. unfold strict_prefix_code.
  pose proof (rbn st r 8 1 HRel ltac:(lia) ltac:(lia)) as P. change (Z.of_nat 1) with 1 in P.
  destruct (V.read_bits 1 st) as [[simple st1]|]; [|rewrite P; eexists; reflexivity].
  destruct P as (r1 & E1 & HRel1 & Hs). rewrite E1. cbn [bind]. clear E1 HRel.
  destruct (simple =? 1).
  - pose proof (simple_refines a st1 r1 HRel1 ltac:(lia)) as P.
    destruct (strict_simple_lengths a st1) as [[lens st2]|]; [|exact P].
    destruct P as (c & t & r2 & Hc & Em & HRel2 & Hrep). rewrite Hc. exists t, r2. auto.
  - pose proof (normal_refines a st1 r1 HRel1 Ha) as P.
    destruct (V.read_normal_lengths a st1) as [[lens st2]|]; [|exact P].
    destruct (V.make_code lens) as [c|]; exact P.
Qed.

Corollary read_huffman_code_some a st r c st' : Rel st r -> 2 <= a <= 5957 -> strict_prefix_code a st = Some (c, st') ->
  exists t r', read_huffman_code r a = Ok (t, r') /\ Rel st' r' /\ represents t c a.
Proof. intros H Ha E. pose proof (read_huffman_code_refines a st r H Ha) as P. rewrite E in P. exact P. Qed.

Corollary read_huffman_code_none a st r : Rel st r -> 2 <= a <= 5957 -> strict_prefix_code a st = None ->
  exists e, read_huffman_code r a = Err e.
Proof. intros H Ha E. pose proof (read_huffman_code_refines a st r H Ha) as P. rewrite E in P. exact P. Qed.

(* with the specification itself, for the alphabets that cannot name a symbol outside (all but the distance alphabet) *)
Corollary read_huffman_code_refines_256 a st r : Rel st r -> 256 <= a <= 5957 ->
  match V.read_prefix_code a st with
  | Some (c, st') => exists t r', read_huffman_code r a = Ok (t, r') /\ Rel st' r' /\ represents t c a
  | None => exists e, read_huffman_code r a = Err e
  end.
Proof. intros H Ha. rewrite <- strict_prefix_code_256 by lia. apply read_huffman_code_refines; [exact H | lia]. Qed.

(* soundness holds for every alphabet: whatever the decoder accepts is what the specification defines *)
Corollary read_huffman_code_sound a st r t r' : Rel st r -> 2 <= a <= 5957 -> read_huffman_code r a = Ok (t, r') ->
  exists c st', V.read_prefix_code a st = Some (c, st') /\ Rel st' r' /\ represents t c a.
Proof.
  intros H Ha E. pose proof (read_huffman_code_refines a st r H Ha) as P.
  destruct (strict_prefix_code a st) as [[c st']|] eqn:Es.
  - destruct P as (t0 & r0 & E0 & HR & Hrep). rewrite E in E0. injection E0 as <- <-.
    exists c, st'. split; [apply strict_prefix_code_sound; exact Es | auto].
  - destruct P as (e & E0). rewrite E in E0. discriminate.
Qed.

(* ------------------------------------------------------------------------------------------------ *)
(** * the difference between the specification and the crate: a dropped simple-code symbol *)
(* bits: 1 (simple) 1 (two symbols) 1 (8-bit first symbol) 00000000 (symbol 0) 00010100 (symbol 200) : the
   specification (as libwebp) keeps symbol 0 alone -- a zero-bit code; the decoder rejects the description. *)
Theorem simple_dropped_symbol_refuted :
  let d := [7; 64; 6] in
  (exists st', V.read_prefix_code 40 (V.Stream [] d) = Some (V.Symbol 0, st')) /\
  strict_prefix_code 40 (V.Stream [] d) = None /\
  read_huffman_code (BitReader.init d []) 40 = Err EBitStreamError.
Proof. vm_compute. split; [eexists; reflexivity|]. split; reflexivity. Qed.
