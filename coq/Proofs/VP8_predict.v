(* Proofs/VP8_predict.v -- C02, intra prediction: the predictors of src/vp8.rs (as modelled in Model/Vp8Predict.v and
   checked against the Rust functions by the `vp8predict` correspondence) write exactly the values of Spec.VP8.

   Layout of the development
     VP8_predict_base.v    flat buffers, symbolic execution tactics, put4x4
     VP8_predict_sub.v     the ten 4x4 modes = Spec.VP8.pred4 on the 13 neighbours the code reads; add_residue =
                           clip255 (sample + residue); [predict_sub_spec] with the mode renumbering bmode_to_rfc
     VP8_predict_eval.v    running the model on an explicit list of cells
     VP8_predict_big16a/b, VP8_predict_big8.v
                           V / H / TM / DC on the 17x21 luma and 9x9 chroma workspaces: every cell afterwards
     VP8_predict_border.v  [luma_border]; create_border_luma establishes it at every macroblock position
     this file             the chroma border; whole-block prediction = Spec.VP8.pred_big at the frame position
                           (mode renumbering ymode_to_rfc); summary statements and examples.

   What is not here: the loop of predict_4x4 over the 16 sub-blocks and the write-back of the workspace into the
   frame / border arrays (intra_predict_luma / intra_predict_chroma) are covered by the correspondence run and the
   whole-frame comparison of check C02 only, not by a theorem linking them to Spec.VP8.recon_mb. *)
From Coq Require Import ZArith NArith List Bool Lia.
From WebP Require Import Lib.Res Lib.ZBits Lib.Arr Gen.Kernels Gen.Tables Spec.VP8Tables Spec.VP8 Proofs.VP8_kernels
  Model.Vp8Predict Proofs.VP8_predict_base Proofs.VP8_predict_sub Proofs.VP8_predict_big16a Proofs.VP8_predict_big16b
  Proofs.VP8_predict_big8 Proofs.VP8_predict_border.
Import ListNotations.
Open Scope Z_scope.

(* ------------------------------------------------------------------------------------------------------------ *)
(* 1. the chroma border (built inline by intra_predict_chroma from the frame's chroma plane)                    *)
(* ------------------------------------------------------------------------------------------------------------ *)
(* the flat buffer [buf] is the w x h plane p (macroblock-aligned, as the decoder allocates it) *)
Definition plane_holds (p : plane) (buf : list Z) (w h : Z) : Prop :=
  len buf = w * h /\ forall x y, 0 <= x < w -> 0 <= y < h -> get buf (y * w + x) = pget p x y.

Definition chroma_border (p : plane) (mx my : Z) (ws : list Z) : Prop :=
  len ws = 81 /\
  get ws 0 = pget p (8 * mx - 1) (8 * my - 1) /\
  (forall i, 0 <= i < 8 -> get ws (1 + i) = pget p (8 * mx + i) (8 * my - 1)) /\
  (forall j, 0 <= j < 8 -> get ws ((1 + j) * 9) = pget p (8 * mx - 1) (8 * my + j)).

Lemma idx_in_plane w h x y : 0 <= x < w -> 0 <= y < h -> 0 <= y * w + x < w * h.
Proof. intros Hx Hy. nia. Qed.
Lemma idx_in_plane2 w h x1 x2 y : 0 <= x1 + x2 < w -> 0 <= y < h -> 0 <= y * w + x1 + x2 < w * h.
Proof. intros Hx Hy. nia. Qed.

Ltac split8i i :=
  let E := fresh "E" in
  assert (i = 0 \/ i = 1 \/ i = 2 \/ i = 3 \/ i = 4 \/ i = 5 \/ i = 6 \/ i = 7) as E by lia;
  destruct E as [-> | [-> | [-> | [-> | [-> | [-> | [-> | ->]]]]]]].

(* every macroblock position: interior, top row (127), left column (129), top-left corner *)
Theorem create_border_chroma_spec p buf mbw mbh mx my :
  0 <= mx < mbw -> 0 <= my < mbh -> plane_holds p buf (mbw * 8) (mbh * 8) ->
  exists ws, create_border_chroma mx my mbw buf = Ok ws /\ chroma_border p mx my ws.
Proof.
  intros Hmx Hmy (Hlen & Hp).
  unfold create_border_chroma, chroma_stride.
  destruct (Z.eqb_spec my 0) as [Ey|Ey]; destruct (Z.eqb_spec mx 0) as [Ex|Ex].
  all: repeat first
    [ rewrite usub_ok by lia
    | rewrite rd_ok by (rewrite Hlen; first [apply idx_in_plane | apply idx_in_plane2]; lia)
    | rewrite wr_ok by side
    | progress cbn [bind for_] ].
  all: norm_closed.
  all: eexists; (split; [reflexivity|]).
  all: unfold chroma_border; split; [lens; reflexivity|].
  all: split; [|split; intros i Hi; split8i i].
  all: readsL.
  all: try match goal with |- get _ (?a + ?b + ?c) = _ => replace (a + b + c) with (a + (b + c)) by lia end.
  all: first
    [ symmetry; apply pget_above; lia
    | symmetry; apply pget_left; lia
    | rewrite Hp by lia; apply f_equal2; lia ].
Qed.

(* ------------------------------------------------------------------------------------------------------------ *)
(* 2. whole-block prediction = Spec.VP8.pred_big                                                                *)
(* ------------------------------------------------------------------------------------------------------------ *)
(* mode numbers: the crate's LumaMode / ChromaMode (DC 0, V 1, H 2, TM 3 = the bitstream numbering, Gen.Tables)
   against the Spec's (libwebp: DC 0, TM 1, V 2, H 3): Spec.VP8Tables.ymode_to_rfc *)
Lemma ymode_numbers_big :
  [ymode_to_rfc DC_PRED; ymode_to_rfc TM_PRED; ymode_to_rfc V_PRED; ymode_to_rfc H_PRED] =
  [vp8_DC_PRED; vp8_TM_PRED; vp8_V_PRED; vp8_H_PRED].
Proof. reflexivity. Qed.

Lemma dc_flags mx my : 0 <= mx -> 0 <= my ->
  negb (my =? 0) = (0 <? my) /\ negb (mx =? 0) = (0 <? mx).
Proof.
  intros Hx Hy.
  split; [destruct (Z.eqb_spec my 0); destruct (Z.ltb_spec 0 my) | destruct (Z.eqb_spec mx 0); destruct (Z.ltb_spec 0 mx)];
    cbn [negb]; try reflexivity; lia.
Qed.

(* what a whole-block predictor guarantees on a bordered workspace of h x w cells (block = rows 1.., columns 1..size):
   no panic, same length, the block equals the reference prediction function, row 0 and column 0 (the border the
   neighbouring macroblocks provided) are untouched *)
Definition big_ok (run : res (list Z)) (ws : list Z) (h w size : Z) (pf : Z -> Z -> Z) : Prop :=
  exists ws', run = Ok ws' /\ len ws' = h * w /\
    (forall i j, 0 <= i < size -> 0 <= j < size -> get ws' ((1 + j) * w + (1 + i)) = pf i j) /\
    (forall y x, 0 <= y < h -> 0 <= x < w -> y = 0 \/ x = 0 -> get ws' (y * w + x) = get ws (y * w + x)).

Ltac border_untouched Hc :=
  let y := fresh "y" in let x := fresh "x" in let Hy := fresh "Hy" in let Hx := fresh "Hx" in
  intros y x Hy Hx [-> | ->]; rewrite Hc by lia; [reflexivity|];
  rewrite (leb_false 1 0) by lia; rewrite ?andb_false_r; reflexivity.

Section Luma.
  Variables (p : plane) (mbw mx my : Z) (ws : list Z).
  Hypothesis Hmx : 0 <= mx.
  Hypothesis Hmy : 0 <= my.
  Hypothesis Hborder : luma_border p mbw mx my ws.

  Lemma luma_dc : bytes ws ->
    big_ok (predict_dcpred ws 16 21 (negb (my =? 0)) (negb (mx =? 0))) ws 17 21 16 (pred_big p 16 4 mx my DC_PRED).
  Proof.
    intros Hb. destruct Hborder as (Hl & HP & HT & HTR & HR & HL).
    assert (Etop : tabulate (fun i => get ws (1 + i)) 16 = tabulate (fun i => pget p (16 * mx + i) (16 * my - 1)) 16)
      by (apply tabulate_ext; intros i Hi; apply HT; lia).
    assert (Eleft : tabulate (fun j => get ws ((1 + j) * 21)) 16 = tabulate (fun j => pget p (16 * mx - 1) (16 * my + j)) 16)
      by (apply tabulate_ext; intros j Hj; apply HL; lia).
    destruct (predict_dcpred_luma ws (negb (my =? 0)) (negb (mx =? 0)) Hl Hb) as (a' & E & Hl' & Hc).
    exists a'. split; [exact E|]. split; [exact Hl'|]. split.
    - intros i j Hi Hj. rewrite Hc by lia. rewrite !leb_true by lia. cbn [andb].
      rewrite Etop, Eleft. destruct (dc_flags mx my Hmx Hmy) as (-> & ->).
      unfold pred_big, dc_big. change (DC_PRED =? DC_PRED) with true. cbv beta iota zeta.
      change (Z.to_nat 16) with 16%nat.
      destruct (0 <? mx), (0 <? my); cbn [andb]; reflexivity.
    - border_untouched Hc.
  Qed.

  Lemma luma_tm : big_ok (predict_tmpred ws 16 1 1 21) ws 17 21 16 (pred_big p 16 4 mx my TM_PRED).
  Proof.
    destruct Hborder as (Hl & HP & HT & HTR & HR & HL).
    destruct (predict_tmpred_luma ws Hl) as (a' & E & Hl' & Hc).
    exists a'. split; [exact E|]. split; [exact Hl'|]. split.
    - intros i j Hi Hj. rewrite Hc by lia. rewrite !leb_true by lia. cbn [andb].
      unfold pred_big. change (TM_PRED =? DC_PRED) with false. change (TM_PRED =? TM_PRED) with true.
      cbv beta iota zeta.
      rewrite !nthZ_tabulate by (change (Z.of_nat (Z.to_nat 16)) with 16; lia).
      rewrite HT, HL, HP by lia. reflexivity.
    - border_untouched Hc.
  Qed.

  Lemma luma_v : big_ok (predict_vpred ws 16 1 1 21) ws 17 21 16 (pred_big p 16 4 mx my V_PRED).
  Proof.
    destruct Hborder as (Hl & HP & HT & HTR & HR & HL).
    destruct (predict_vpred_luma ws Hl) as (a' & E & Hl' & Hc).
    exists a'. split; [exact E|]. split; [exact Hl'|]. split.
    - intros i j Hi Hj. rewrite Hc by lia. rewrite !leb_true by lia. cbn [andb].
      unfold pred_big. change (V_PRED =? DC_PRED) with false. change (V_PRED =? TM_PRED) with false.
      change (V_PRED =? V_PRED) with true. cbv beta iota zeta.
      rewrite nthZ_tabulate by (change (Z.of_nat (Z.to_nat 16)) with 16; lia).
      rewrite HT by lia. reflexivity.
    - border_untouched Hc.
  Qed.

  Lemma luma_h : big_ok (predict_hpred ws 16 1 1 21) ws 17 21 16 (pred_big p 16 4 mx my H_PRED).
  Proof.
    destruct Hborder as (Hl & HP & HT & HTR & HR & HL).
    destruct (predict_hpred_luma ws Hl) as (a' & E & Hl' & Hc).
    exists a'. split; [exact E|]. split; [exact Hl'|]. split.
    - intros i j Hi Hj. rewrite Hc by lia. rewrite !leb_true by lia. cbn [andb].
      unfold pred_big. change (H_PRED =? DC_PRED) with false. change (H_PRED =? TM_PRED) with false.
      change (H_PRED =? V_PRED) with false. cbv beta iota zeta.
      rewrite nthZ_tabulate by (change (Z.of_nat (Z.to_nat 16)) with 16; lia).
      rewrite HL by lia. reflexivity.
    - border_untouched Hc.
  Qed.

  (* the dispatch of intra_predict_luma: for each of the four whole-block modes m of the Spec (libwebp numbering),
     the mode number the crate uses is ymode_to_rfc m *)
  Theorem luma_predict_big_spec m : 0 <= m <= 3 -> bytes ws ->
    big_ok (predict_big (ymode_to_rfc m) ws 16 21 mx my) ws 17 21 16 (pred_big p 16 4 mx my m).
  Proof.
    intros Hm Hb. assert (E : m = 0 \/ m = 1 \/ m = 2 \/ m = 3) by lia.
    destruct E as [-> | [-> | [-> | ->]]].
    - exact (luma_dc Hb).
    - exact luma_tm.
    - exact luma_v.
    - exact luma_h.
  Qed.

  (* the above-right neighbours E..H of the sub-blocks of the right column (x0 = 13) are, in every row of sub-blocks,
     the four samples Spec.VP8.recon_sub prescribes ([tr]): above-right of the macroblock, or the sample
     (16 mx + 15, 16 my - 1) four times in the last macroblock column *)
  Lemma luma_border_top_right sy i : 0 <= sy < 4 -> 0 <= i < 4 ->
    nbT ws 13 (1 + 4 * sy) 21 (4 + i) =
    if mx =? mbw - 1 then pget p (16 * mx + 15) (16 * my - 1) else pget p (16 * mx + 16 + i) (16 * my - 1).
  Proof.
    intros Hsy Hi. destruct Hborder as (Hl & HP & HT & HTR & HR & HL). unfold nbT.
    assert (E : sy = 0 \/ sy = 1 \/ sy = 2 \/ sy = 3) by lia.
    destruct (HR i Hi) as (R4 & R8 & R12).
    destruct E as [-> | [-> | [-> | ->]]].
    - replace ((1 + 4 * 0 - 1) * 21 + 13 + (4 + i)) with (17 + i) by lia. apply HTR; lia.
    - replace ((1 + 4 * 1 - 1) * 21 + 13 + (4 + i)) with (4 * 21 + 17 + i) by lia. rewrite R4. apply HTR; lia.
    - replace ((1 + 4 * 2 - 1) * 21 + 13 + (4 + i)) with (8 * 21 + 17 + i) by lia. rewrite R8. apply HTR; lia.
    - replace ((1 + 4 * 3 - 1) * 21 + 13 + (4 + i)) with (12 * 21 + 17 + i) by lia. rewrite R12. apply HTR; lia.
  Qed.
End Luma.

Section Chroma.
  Variables (p : plane) (mx my : Z) (ws : list Z).
  Hypothesis Hmx : 0 <= mx.
  Hypothesis Hmy : 0 <= my.
  Hypothesis Hborder : chroma_border p mx my ws.

  Lemma chroma_dc : bytes ws ->
    big_ok (predict_dcpred ws 8 9 (negb (my =? 0)) (negb (mx =? 0))) ws 9 9 8 (pred_big p 8 3 mx my DC_PRED).
  Proof.
    intros Hb. destruct Hborder as (Hl & HP & HT & HL).
    assert (Etop : tabulate (fun i => get ws (1 + i)) 8 = tabulate (fun i => pget p (8 * mx + i) (8 * my - 1)) 8)
      by (apply tabulate_ext; intros i Hi; apply HT; lia).
    assert (Eleft : tabulate (fun j => get ws ((1 + j) * 9)) 8 = tabulate (fun j => pget p (8 * mx - 1) (8 * my + j)) 8)
      by (apply tabulate_ext; intros j Hj; apply HL; lia).
    destruct (predict_dcpred_chroma ws (negb (my =? 0)) (negb (mx =? 0)) Hl Hb) as (a' & E & Hl' & Hc).
    exists a'. split; [exact E|]. split; [exact Hl'|]. split.
    - intros i j Hi Hj. rewrite Hc by lia. rewrite !leb_true by lia. cbn [andb].
      rewrite Etop, Eleft. destruct (dc_flags mx my Hmx Hmy) as (-> & ->).
      unfold pred_big, dc_big. change (DC_PRED =? DC_PRED) with true. cbv beta iota zeta.
      change (Z.to_nat 8) with 8%nat.
      destruct (0 <? mx), (0 <? my); cbn [andb]; reflexivity.
    - border_untouched Hc.
  Qed.

  Lemma chroma_tm : big_ok (predict_tmpred ws 8 1 1 9) ws 9 9 8 (pred_big p 8 3 mx my TM_PRED).
  Proof.
    destruct Hborder as (Hl & HP & HT & HL).
    destruct (predict_tmpred_chroma ws Hl) as (a' & E & Hl' & Hc).
    exists a'. split; [exact E|]. split; [exact Hl'|]. split.
    - intros i j Hi Hj. rewrite Hc by lia. rewrite !leb_true by lia. cbn [andb].
      unfold pred_big. change (TM_PRED =? DC_PRED) with false. change (TM_PRED =? TM_PRED) with true.
      cbv beta iota zeta.
      rewrite !nthZ_tabulate by (change (Z.of_nat (Z.to_nat 8)) with 8; lia).
      rewrite HT, HL, HP by lia. reflexivity.
    - border_untouched Hc.
  Qed.

  Lemma chroma_v : big_ok (predict_vpred ws 8 1 1 9) ws 9 9 8 (pred_big p 8 3 mx my V_PRED).
  Proof.
    destruct Hborder as (Hl & HP & HT & HL).
    destruct (predict_vpred_chroma ws Hl) as (a' & E & Hl' & Hc).
    exists a'. split; [exact E|]. split; [exact Hl'|]. split.
    - intros i j Hi Hj. rewrite Hc by lia. rewrite !leb_true by lia. cbn [andb].
      unfold pred_big. change (V_PRED =? DC_PRED) with false. change (V_PRED =? TM_PRED) with false.
      change (V_PRED =? V_PRED) with true. cbv beta iota zeta.
      rewrite nthZ_tabulate by (change (Z.of_nat (Z.to_nat 8)) with 8; lia).
      rewrite HT by lia. reflexivity.
    - border_untouched Hc.
  Qed.

  Lemma chroma_h : big_ok (predict_hpred ws 8 1 1 9) ws 9 9 8 (pred_big p 8 3 mx my H_PRED).
  Proof.
    destruct Hborder as (Hl & HP & HT & HL).
    destruct (predict_hpred_chroma ws Hl) as (a' & E & Hl' & Hc).
    exists a'. split; [exact E|]. split; [exact Hl'|]. split.
    - intros i j Hi Hj. rewrite Hc by lia. rewrite !leb_true by lia. cbn [andb].
      unfold pred_big. change (H_PRED =? DC_PRED) with false. change (H_PRED =? TM_PRED) with false.
      change (H_PRED =? V_PRED) with false. cbv beta iota zeta.
      rewrite nthZ_tabulate by (change (Z.of_nat (Z.to_nat 8)) with 8; lia).
      rewrite HL by lia. reflexivity.
    - border_untouched Hc.
  Qed.

  Theorem chroma_predict_big_spec m : 0 <= m <= 3 -> bytes ws ->
    big_ok (predict_big (ymode_to_rfc m) ws 8 9 mx my) ws 9 9 8 (pred_big p 8 3 mx my m).
  Proof.
    intros Hm Hb. assert (E : m = 0 \/ m = 1 \/ m = 2 \/ m = 3) by lia.
    destruct E as [-> | [-> | [-> | ->]]].
    - exact (chroma_dc Hb).
    - exact chroma_tm.
    - exact chroma_v.
    - exact chroma_h.
  Qed.
End Chroma.

(* ------------------------------------------------------------------------------------------------------------ *)
(* 3. sub-block prediction + residue = the values Spec.VP8.store4x4 writes                                      *)
(* ------------------------------------------------------------------------------------------------------------ *)
Lemma dc4_byte A B C D I J K L :
  byte A -> byte B -> byte C -> byte D -> byte I -> byte J -> byte K -> byte L ->
  byte (Z.shiftr (A + B + C + D + I + J + K + L + 4) 3).
Proof.
  unfold byte. intros. rewrite Z.shiftr_div_pow2 by lia. change (2 ^ 3) with 8.
  split; [apply Z.div_pos; lia | apply Z.lt_succ_r; apply Z.div_lt_upper_bound; lia].
Qed.

(* the reference 4x4 prediction of bytes is made of bytes *)
Lemma pred4_bytes m X A B C D E F G H I J K L k :
  0 <= m <= 9 ->
  byte X -> byte A -> byte B -> byte C -> byte D -> byte E -> byte F -> byte G -> byte H ->
  byte I -> byte J -> byte K -> byte L -> (k < 16)%nat ->
  byte (nth k (pred4 m X A B C D E F G H I J K L) 0).
Proof.
  intros Hm HX HA HB HC HD HE HF HG HH HI HJ HK HL Hk.
  assert (Em : m = 0 \/ m = 1 \/ m = 2 \/ m = 3 \/ m = 4 \/ m = 5 \/ m = 6 \/ m = 7 \/ m = 8 \/ m = 9) by lia.
  destruct Em as [-> | [-> | [-> | [-> | [-> | [-> | [-> | [-> | [-> | ->]]]]]]]]];
    cbv [pred4 B_DC_PRED B_TM_PRED B_VE_PRED B_HE_PRED B_RD_PRED B_VR_PRED B_LD_PRED B_VL_PRED B_HD_PRED B_HU_PRED
         Z.eqb Pos.eqb];
    do 16 (destruct k as [|k]; [cbn [nth]; first [ apply dc4_byte; assumption | apply clip255_byte
                                                   | apply avg3_byte; assumption | apply avg2_byte; assumption | assumption ] |]);
    lia.
Qed.

Lemma bytes_put4x4 a x0 y0 s v :
  bytes a -> fits4 a x0 y0 s -> (forall k, (k < 16)%nat -> byte (nth k v 0)) -> bytes (put4x4 a x0 y0 s v).
Proof.
  intros Hb Hf Hv i Hi. rewrite len_put4x4 in Hi.
  destruct (fits4_put _ _ _ _ Hf) as (H1 & H2 & H3).
  split16 i x0 y0 s.
  all: try (rewrite get_put4x4_in by lia; apply Hv; lia).
  rewrite get_put4x4_out; try lia; [apply Hb; lia|].
  intros r c Hr Hc.
  assert (Er : r = 0 \/ r = 1 \/ r = 2 \/ r = 3) by lia.
  assert (Ec : c = 0 \/ c = 1 \/ c = 2 \/ c = 3) by lia.
  destruct Er as [-> | [-> | [-> | ->]]]; destruct Ec as [-> | [-> | [-> | ->]]]; assumption.
Qed.

Lemma predict_sub_bytes m a a' x0 y0 s :
  0 <= m <= 9 -> bytes a -> fits4 a x0 y0 s -> predict_sub (bmode_to_rfc m) a x0 y0 s = Ok a' -> bytes a'.
Proof.
  intros Hm Hb Hf E. rewrite predict_sub_spec in E by assumption. injection E as <-.
  destruct Hf as (Hx & Hy & Hs & Hfit). assert (0 <= (y0 - 1) * s) by nia.
  apply bytes_put4x4; [exact Hb | unfold fits4; lia |].
  intros k Hk. unfold pred4_ws. apply pred4_bytes; try assumption; unfold nbX, nbT, nbL; apply Hb; lia.
Qed.

(* Spec.VP8.recon_sub stores clip255 (pred4 .. + residual) (store_row); the code does predict_xx then add_residue *)
Theorem predict_then_residue m a a1 a2 res x0 y0 s r c :
  0 <= m <= 9 -> bytes a -> fits4 a x0 y0 s -> length res = 16%nat -> res_ok res ->
  predict_sub (bmode_to_rfc m) a x0 y0 s = Ok a1 -> add_residue a1 res y0 x0 s = Ok a2 ->
  0 <= r < 4 -> 0 <= c < 4 ->
  get a2 ((y0 + r) * s + x0 + c) =
  clip255 (nth (Z.to_nat (4 * r + c)) (pred4_ws m a x0 y0 s) 0 + nth (Z.to_nat (4 * r + c)) res 0).
Proof.
  intros Hm Hb Hf Hl Hr E1 E2 Hrr Hc.
  assert (Hb1 : bytes a1) by (eapply predict_sub_bytes; eassumption).
  assert (Hf1 : fits4 a1 x0 y0 s).
  { destruct (predict_sub_no_panic m a x0 y0 s Hm Hb Hf) as (a' & E' & L'). rewrite E1 in E'. injection E' as <-.
    unfold fits4 in *. rewrite L'. exact Hf. }
  rewrite (add_residue_block a1 a2 res x0 y0 s r c Hb1 Hf1 Hl Hr E2 Hrr Hc).
  rewrite (predict_sub_block m a a1 x0 y0 s r c Hm Hb Hf E1 Hrr Hc). reflexivity.
Qed.

(* and the second step cannot panic either *)
Corollary predict_then_residue_no_panic m a res x0 y0 s :
  0 <= m <= 9 -> bytes a -> fits4 a x0 y0 s -> length res = 16%nat -> res_ok res ->
  exists a1 a2, predict_sub (bmode_to_rfc m) a x0 y0 s = Ok a1 /\ add_residue a1 res y0 x0 s = Ok a2 /\ len a2 = len a.
Proof.
  intros Hm Hb Hf Hl Hr.
  destruct (predict_sub_no_panic m a x0 y0 s Hm Hb Hf) as (a1 & E1 & L1).
  assert (Hb1 : bytes a1) by (eapply predict_sub_bytes; eassumption).
  assert (Hf1 : fits4 a1 x0 y0 s) by (unfold fits4 in *; rewrite L1; exact Hf).
  exists a1. eexists. split; [exact E1|]. split; [apply add_residue_spec; assumption|].
  rewrite len_put4x4. exact L1.
Qed.

(* ------------------------------------------------------------------------------------------------------------ *)
(* 4. the hypotheses are satisfiable                                                                            *)
(* ------------------------------------------------------------------------------------------------------------ *)
Lemma get_repeat v n i : get (repeat v n) i = v \/ get (repeat v n) i = 0.
Proof.
  unfold get. generalize (Z.to_nat i). induction n as [|n IH]; intros [|k]; cbn [repeat nth]; auto.
Qed.

(* the 16 sub-block positions of the luma workspace and the four 4x4 positions of a chroma workspace *)
Example fits4_all_positions :
  (forall sx sy, 0 <= sx < 4 -> 0 <= sy < 4 -> fits4 (repeat 7 357) (sx * 4 + 1) (sy * 4 + 1) 21) /\
  (forall sx sy, 0 <= sx < 2 -> 0 <= sy < 2 -> fits4 (repeat 7 81) (1 + sx * 4) (1 + sy * 4) 9).
Proof. split; intros; [apply fits4_luma | apply fits4_chroma]; auto. Qed.

(* a corner-free interior macroblock (1, 1) of a frame 3 macroblocks wide whose planes are all 0: the border
   hypotheses hold for the arrays the decoder would carry *)
Lemma pget_make w h x y : 0 <= x -> 0 <= y -> pget (plane_make w h) x y = 0.
Proof.
  intros Hx Hy. unfold pget. rewrite !ltb_false by lia. unfold plane_make, araw, amake. cbn [p_a p_w adata].
  rewrite PM.gempty. reflexivity.
Qed.

Example luma_border_satisfiable :
  exists ws, create_border_luma 1 1 3 (repeat 0 68) (repeat 0 17) = Ok ws /\
             luma_border (plane_make 48 48) 3 1 1 ws.
Proof.
  assert (L68 : len (repeat 0 68) = 68) by reflexivity.
  assert (L17 : len (repeat 0 17) = 17) by reflexivity.
  apply create_border_luma_spec; try lia.
  - intros _. split; [lia|]. split; [|intros _; split; [lia|]].
    + intros i Hi. rewrite pget_make by lia. destruct (get_repeat 0 68 (1 * 16 + i)) as [-> | ->]; reflexivity.
    + intros i Hi. rewrite pget_make by lia. destruct (get_repeat 0 68 (1 * 16 + 16 + i)) as [-> | ->]; reflexivity.
  - intros _. split; [lia|]. split; [|intros _; reflexivity].
    intros j Hj. rewrite pget_make by lia. destruct (get_repeat 0 17 (1 + j)) as [-> | ->]; reflexivity.
Qed.
