(* VP8 frame-level parsing, part 5: the macroblock loop of decode_frame_ (Model.Vp8Frame) = the reference's parse_modes + parse_tokens.
   One macroblock (parse_macroblock_refines: read_macroblock_header, then read_residual_data or the inlined skipped branch), one row
   (parse_mb_row_refines), all rows (parse_mb_rows_refines).  The reference parses ALL modes from the first partition and then the token
   rows from the token partitions, the crate interleaves per macroblock: the two reference functions thread disjoint states (the first
   partition's reader and mode contexts / one token partition's reader and non-zero contexts), so unfolding both in lock step along the
   crate's loop gives the same values.  Loop invariants: the header fields never written (same_hdr / frame_inv), stored sub-block modes
   valid (top_ok), 9-entry 0/1 complexity arrays, every reader linked with its reference state. *)
From Coq Require Import ZArith Lia List Bool.
From WebP Require Import Lib.Res Gen.Kernels Gen.Tables Lib.ZBits Lib.Sweep Proofs.C15_num Proofs.C15_ideal Proofs.C15_model
  Proofs.C15_ops Proofs.C15_reqs Proofs.C15_main Spec.RfcBoolDec Spec.BoolDec Spec.VP8Tables Spec.VP8 Model.ArithDec
  Model.Vp8Parse Model.Vp8Frame Proofs.VP8_tables Proofs.VP8_arraykernels_aux Proofs.VP8_parse_base Proofs.VP8_parse_coeffs Proofs.VP8_parse_mbheader
  Proofs.VP8_parse_header Proofs.VP8_parse_residual Proofs.VP8_frame_base Proofs.VP8_frame_mono Proofs.VP8_frame_header Proofs.VP8_frame_hdrthm
  Proofs.VP8_frame_residual.
Import ListNotations.
Open Scope Z_scope.
Open Scope res_scope.

(* ---------- what the macroblock loop keeps about a stored macroblock (top[x] or left) ---------- *)
Definition top_ok (t : MacroBlock) : Prop :=
  length (mb_bpred t) = 16%nat /\ modes_ok (mb_bpred t) /\ length (mb_complexity t) = 9%nat /\ cx_ok (mb_complexity t).
Definition mtop_of (t : MacroBlock) : list Z := map bmode_of_rfc (skipn 12 (mb_bpred t)).
Definition mleft_of (l : MacroBlock) : list Z := map bmode_of_rfc (firstn 4 (mb_bpred l)).
Definition cxf (t : MacroBlock) : nzctx := ctx_of (mb_complexity t).

(* one macroblock: what decode_frame_ hands on = the reference's modes and residuals *)
Definition mb_rel (m : mbmode) (r : mbres) (rec : MacroBlock * list Z) : Prop :=
  let '(mb, blocks) := rec in
  mb_segmentid mb = m_seg m /\ mb_coeffs_skipped mb = m_skip m /\
  ymode_of_rfc (mb_luma_mode mb) = m_ymode m /\ ymode_of_rfc (mb_chroma_mode mb) = m_uvmode m /\
  m_i4 m = (mb_luma_mode mb =? 4) /\ m_imodes m = (if m_i4 m then map bmode_of_rfc (mb_bpred mb) else []) /\
  mb_non_zero_coeffs mb = r_nonzero r /\
  blocks = concat (map (fun b => fst (Spec.VP8.idct b)) (r_y r ++ r_u r ++ r_v r)).

(* the fields the loop never writes *)
Definition hdr_fields (v : Vp8) :=
  (v_frame v, v_mbwidth v, v_mbheight v, v_segments_enabled v, v_segments_update_map v, v_segment v, v_segment_tree_nodes v,
   v_token_probs v, v_prob_skip_false v, v_num_partitions v, v_ref_delta v, v_mode_delta v, v_prob_intra v, v_r v).
Definition same_hdr (v v' : Vp8) : Prop := hdr_fields v = hdr_fields v'.
Lemma same_hdr_refl v : same_hdr v v. Proof. reflexivity. Qed.
Lemma same_hdr_trans a b c : same_hdr a b -> same_hdr b c -> same_hdr a c. Proof. unfold same_hdr. congruence. Qed.
Lemma same_hdr_st v d tops l : same_hdr v (st v d tops l). Proof. destruct v; reflexivity. Qed.
Lemma same_hdr_rst v p mbx t d tc lc : same_hdr v (rst v p mbx t d tc lc). Proof. destruct v; reflexivity. Qed.
Lemma same_hdr_set_left v l : same_hdr v (set_left v l). Proof. destruct v; reflexivity. Qed.

Definition frame_inv (h : header) (v : Vp8) : Prop :=
  mbh_header_rel h v /\ tables_ok (h_probas h) /\ token_nodes_of (h_probas h) = Ok (v_token_probs v) /\
  length (v_segment v) = 4%nat /\ (forall i, (i < 4)%nat -> segment_rel h i (nth i (v_segment v) Segment_default)) /\
  (h_update_map h = true -> h_use_segment h = true) /\ length (h_seg_probs h) = 3%nat /\ Forall byte (h_seg_probs h).

Lemma frame_inv_same h v v' : same_hdr v v' -> frame_inv h v -> frame_inv h v'.
Proof.
  unfold same_hdr, hdr_fields. intros E. injection E as E1 E2 E3 E4 E5 E6 E7 E8 E9 E10 E11 E12 E13 E14.
  unfold frame_inv, mbh_header_rel. rewrite <- E1, <- E4, <- E5, <- E6, <- E7, <- E8, <- E9. exact id.
Qed.

Lemma frame_inv_of_header h v : header_rel h v -> header_wf h -> frame_inv h v.
Proof.
  intros (Hfr & _ & _ & _ & _ & Hse & Hum & L4 & Hsegs & Hstn & _ & _ & _ & _ & Htok & Hpsf & _ & _)
         (Htab & L3 & Hb3 & Hsk & Himp & _).
  unfold frame_inv, mbh_header_rel. rewrite Hfr, Hse, Hum. cbn [fi_keyframe].
  split; [|split; [exact Htab|]; split; [exact Htok|]; split; [exact L4|]; split; [exact Hsegs|]; split; [exact Himp|]; split; [exact L3 | exact Hb3]].
  split; [reflexivity|]. split.
  { destruct (h_update_map h) eqn:E; [rewrite (Himp eq_refl); reflexivity | destruct (h_use_segment h); reflexivity]. }
  split; [intros _; repeat split; assumption|]. split; assumption.
Qed.

(* ---------- shape of the macroblock header's mode lists, for any bit reader ---------- *)
Lemma zeros_modes_ok n : modes_ok (repeat 0 n).
Proof. unfold modes_ok. apply Forall_forall. intros z Hz. apply repeat_spec in Hz. subst z. unfold mode_ok. lia. Qed.

Lemma G_mbh_shape {St} (bit : St -> Z -> bool * St) segnodes skipp tb lb s :
  length tb = 16%nat -> length lb = 16%nat -> modes_ok tb -> modes_ok lb ->
  let r := fst (interpG bit (G_mbh segnodes skipp tb lb) s) in
  length (snd (fst (fst r))) = 16%nat /\ modes_ok (snd (fst (fst r))) /\ length (snd (fst r)) = 16%nat /\ modes_ok (snd (fst r)).
Proof.
  intros Lt Ll Mt Ml. cbv zeta. unfold G_mbh. rewrite bind_inv.
  generalize (fst (interpG bit (match segnodes with Some nodes => lift (tree0 nodes) | None => GRet 0 end) s)). intros id.
  generalize (snd (interpG bit (match segnodes with Some nodes => lift (tree0 nodes) | None => GRet 0 end) s)). intros s1.
  rewrite bind_inv.
  generalize (fst (interpG bit (match skipp with Some p => GRead p (fun b => GRet b) | None => GRet false end) s1)). intros sk.
  generalize (snd (interpG bit (match skipp with Some p => GRead p (fun b => GRet b) | None => GRet false end) s1)). intros s2.
  rewrite bind_inv.
  destruct ymode_nodes_ok as [yn (Ey & Ly & Oy)]. unfold ynodes. rewrite Ey. unfold KEYFRAME_YMODE_NODES in Ey.
  pose proof (tree_prog_range _ _ yn 4 Oy Ey ltac:(lia) ymode_leaves bit (S (length yn)) 0 s2) as Hluma. fold (tree0 yn) in Hluma.
  rewrite interpG_lift. destruct (interpP bit (tree0 yn) s2) as [luma s3]. cbn [fst snd] in *. rewrite bind_inv.
  assert (Hlm : let lm := fst (interpG bit (if luma =? 4 then gbind (G_brows 4 0 tb lb (repeat 0 16)) (fun r => GRet (snd (fst r), snd r))
                                           else GRet (fill4 4 0 lb (repeat 0 16) (intra_of luma))) s3) in
                length (fst lm) = 16%nat /\ modes_ok (fst lm) /\ length (snd lm) = 16%nat /\ modes_ok (snd lm)).
  { cbv zeta. destruct (Z.eqb_spec luma 4) as [E4 | N4].
    - rewrite bind_inv. pose proof (G_brows_inv bit 4 0 tb lb (repeat 0 16) s3 Mt Ml (zeros_modes_ok 16)) as Inv. cbv zeta in Inv.
      destruct (interpG bit (G_brows 4 0 tb lb (repeat 0 16)) s3) as [r s4]. cbn [interpG fst snd] in *.
      destruct Inv as (L1 & L2 & L3 & M1 & M2 & M3). rewrite repeat_length in L3. repeat split; try assumption; lia.
    - cbn [interpG fst]. destruct (intra_of_ok luma ltac:(lia)) as [_ Hm].
      destruct (fill4_inv 4 0 lb (repeat 0 16) (intra_of luma) Ml (zeros_modes_ok 16) Hm) as (L1 & L2 & M1 & M2).
      rewrite repeat_length in L2. repeat split; try assumption; lia. }
  cbv zeta in Hlm.
  destruct (interpG bit (if luma =? 4 then _ else _) s3) as [lm s4]. cbn [fst snd] in *. rewrite bind_inv.
  destruct (interpG bit (lift (tree0 uvnodes)) s4) as [chroma s5]. cbn [interpG fst snd]. exact Hlm.
Qed.

(* read_macroblock_header returns well-formed mode lists *)
Lemma mbh_shape h v mbx t mb v' : mbh_header_rel h v ->
  0 <= mbx -> nth_error (v_top v) (Z.to_nat mbx) = Some t ->
  length (mb_bpred t) = 16%nat -> length (mb_bpred (v_left v)) = 16%nat -> modes_ok (mb_bpred t) -> modes_ok (mb_bpred (v_left v)) ->
  wsafe (v_b v) -> big (v_b v) ->
  read_macroblock_header v mbx = Ok (mb, v') ->
  length (mb_bpred mb) = 16%nat /\ modes_ok (mb_bpred mb) /\ length (mb_bpred (v_left v')) = 16%nat /\ modes_ok (mb_bpred (v_left v')).
Proof.
  intros (Hkey & Hum & Hsp & Hpsf & Hskp) Hmbx Et Lt Ll Mt Ml Hw Hbig E.
  pose proof (mbh_model_st v (v_b v) (v_top v) (v_left v) mbx t Hkey) as EM. rewrite <- st_eta in EM.
  assert (Hsegok : v_segments_enabled v && v_segments_update_map v = true -> seg_nodes_ok v).
  { intros E1. rewrite <- Hum in E1. destruct (Hsp E1) as (L3 & Hb & En). exists (h_seg_probs h). auto. }
  assert (Hskok : forall p, v_prob_skip_false v = Some p -> 0 <= p <= 255).
  { intros p Ep. rewrite Hpsf in Ep. destruct (h_use_skip h); [injection Ep as <-; exact Hskp | discriminate]. }
  specialize (EM Hsegok Hskok Hmbx Et Lt Ll Mt Ml Hw Hbig). rewrite E in EM.
  pose proof (G_mbh_shape cold_pure (mbh_seg v) (v_prob_skip_false v) (mb_bpred t) (mb_bpred (v_left v)) (v_b v) Lt Ll Mt Ml) as Sh. cbv zeta in Sh.
  destruct (interpG cold_pure (G_mbh (mbh_seg v) (v_prob_skip_false v) (mb_bpred t) (mb_bpred (v_left v))) (v_b v)) as [rr d'].
  destruct rr as [[[[[id skipped] luma] lb'] mbp'] chroma]. cbn [fst snd] in Sh. unfold mbh_result in EM.
  destruct (is_past_eof d'); [discriminate|]. injection EM as -> ->. rewrite st_left. cbn [mb_bpred mb_set_bpred].
  destruct Sh as (A & B & C & D). repeat split; assumption.
Qed.

(* ---------- the skipped-macroblock branch inlined in decode_frame_ ---------- *)
Definition skc (keep : bool) (tc : list Z) : list Z := (if keep then nth 0 tc 0 else 0) :: repeat 0 8.

Lemma skipped_macroblock_ok v mb mbx p t d : 0 <= mbx -> 0 <= p ->
  nth_error (v_partitions v) (Z.to_nat p) = Some d -> nth_error (v_top v) (Z.to_nat mbx) = Some t ->
  length (mb_complexity t) = 9%nat -> length (mb_complexity (v_left v)) = 9%nat ->
  skipped_macroblock v mb mbx
  = Ok (rst v p mbx t d (skc (mb_luma_mode mb =? vp8_B_PRED) (mb_complexity t)) (skc (mb_luma_mode mb =? vp8_B_PRED) (mb_complexity (v_left v)))).
Proof.
  intros Hmbx Hp Ed Et Lt Ll.
  assert (Hml : 0 <= mbx < Z.of_nat (length (v_top v))) by (pose proof (nth_error_lt_len _ _ _ Et); lia).
  rewrite <- (rst_id v p mbx t d Ed Et) at 1.
  destruct (mb_complexity t) as [|t0 [|t1 [|t2 [|t3 [|t4 [|t5 [|t6 [|t7 [|t8 [|]]]]]]]]]] eqn:Etc; try discriminate Lt.
  destruct (mb_complexity (v_left v)) as [|l0 [|l1 [|l2 [|l3 [|l4 [|l5 [|l6 [|l7 [|l8 [|]]]]]]]]]] eqn:Elc; try discriminate Ll.
  unfold skipped_macroblock, skc. cbn [nth].
  destruct (mb_luma_mode mb =? vp8_B_PRED); cbn [negb bind].
  - cbn [clear_complexities].
    repeat (rewrite rst_set_left_cx by (rewrite ?updZ_length; cbn [length]; lia); cbn [bind];
            rewrite rst_set_top_cx by (rewrite ?updZ_length; cbn [length]; lia); cbn [bind]).
    reflexivity.
  - rewrite rst_set_left_cx by (cbn [length]; lia). cbn [bind]. rewrite rst_set_top_cx by (cbn [length]; lia). cbn [bind].
    cbn [clear_complexities].
    repeat (rewrite rst_set_left_cx by (rewrite ?updZ_length; cbn [length]; lia); cbn [bind];
            rewrite rst_set_top_cx by (rewrite ?updZ_length; cbn [length]; lia); cbn [bind]).
    reflexivity.
Qed.

(* ---------- every dequantisation factor a header can give is small and non-zero ---------- *)
Lemma dc_table_in : forall x, In x kDcTable -> 4 <= x <= 157.
Proof.
  assert (H : forallb (fun x => (4 <=? x) && (x <=? 157)) kDcTable = true) by (vm_compute; reflexivity).
  intros x Hx. rewrite forallb_forall in H. specialize (H x Hx). apply andb_true_iff in H. destruct H as [A B]. apply Z.leb_le in A, B. lia.
Qed.
Lemma ac_table_in : forall x, In x kAcTable -> 4 <= x <= 284.
Proof.
  assert (H : forallb (fun x => (4 <=? x) && (x <=? 284)) kAcTable = true) by (vm_compute; reflexivity).
  intros x Hx. rewrite forallb_forall in H. specialize (H x Hx). apply andb_true_iff in H. destruct H as [A B]. apply Z.leb_le in A, B. lia.
Qed.
Lemma clip_range lo hi v : lo <= hi -> lo <= clip lo hi v <= hi.
Proof. intros H. unfold clip. destruct (Z.ltb_spec v lo); [lia|]. destruct (Z.ltb_spec hi v); lia. Qed.
Lemma dc_at q hi : 0 <= hi <= 127 -> 4 <= nthZ kDcTable (clip 0 hi q) 0 <= 157.
Proof. intros H. pose proof (clip_range 0 hi q ltac:(lia)). apply dc_table_in. unfold nthZ. apply nth_In. change (length kDcTable) with 128%nat. lia. Qed.
Lemma ac_at q : 4 <= nthZ kAcTable (clip 0 127 q) 0 <= 284.
Proof. pose proof (clip_range 0 127 q ltac:(lia)). apply ac_table_in. unfold nthZ. apply nth_In. change (length kAcTable) with 128%nat. lia. Qed.

Lemma segment_quant_bounds h seg : let q := segment_quant h seg in
  4 <= q_y1dc q <= 157 /\ 4 <= q_y1ac q <= 284 /\ 8 <= q_y2dc q <= 314 /\ 8 <= q_y2ac q <= 440 /\ 4 <= q_uvdc q <= 157 /\ 4 <= q_uvac q <= 284.
Proof.
  cbv zeta. unfold segment_quant. cbn [q_y1dc q_y1ac q_y2dc q_y2ac q_uvdc q_uvac].
  set (q := if h_use_segment h then _ else _).
  pose proof (dc_at (q + h_dqy1_dc h) 127 ltac:(lia)). pose proof (ac_at q). pose proof (dc_at (q + h_dqy2_dc h) 127 ltac:(lia)).
  pose proof (ac_at (q + h_dqy2_ac h)) as Hy2. pose proof (dc_at (q + h_dquv_dc h) 117 ltac:(lia)). pose proof (ac_at (q + h_dquv_ac h)).
  set (a := nthZ kAcTable (clip 0 127 (q + h_dqy2_ac h)) 0) in *.
  assert (6 <= a * 155 / 100 <= 440) by (pose proof (Z.div_mod (a * 155) 100 ltac:(lia)); pose proof (Z.mod_pos_bound (a * 155) 100 ltac:(lia)); lia).
  destruct (Z.ltb_spec (a * 155 / 100) 8); lia.
Qed.

Lemma coef_bound_small dc ac : Z.abs dc <= 440 -> Z.abs ac <= 440 -> coef_bound dc ac <= wht_bound /\ coef_bound dc ac <= dct_bound.
Proof. intros A B. unfold coef_bound, wht_bound, dct_bound. lia. Qed.

(* ---------- the reference's contexts stay well formed ---------- *)
Definition nz_ok (c : nzctx) : Prop :=
  length (c_y c) = 4%nat /\ length (c_u c) = 2%nat /\ length (c_v c) = 2%nat /\ cx_ok (c_y c) /\ cx_ok (c_u c) /\ cx_ok (c_v c) /\ 0 <= c_dc c <= 1.
Definition ctx_list (c : nzctx) : list Z := c_dc c :: c_y c ++ c_u c ++ c_v c.

Lemma b2z_range b : 0 <= VP8.b2z b <= 1. Proof. destruct b; cbn; lia. Qed.
Lemma cx_ok_rev l : cx_ok l -> cx_ok (rev l). Proof. unfold cx_ok. apply Forall_rev. Qed.
Lemma cx_ok_app a b : cx_ok a -> cx_ok b -> cx_ok (a ++ b). Proof. unfold cx_ok. intros. apply Forall_app. split; assumption. Qed.

Lemma blocks_row_ctx bands dc ac first tops : forall l s blocks nt ok, 0 <= l <= 1 -> cx_ok nt ->
  let r := blocks_row bands dc ac first tops l s blocks nt ok in
  length (snd (fst (fst (fst r)))) = (length nt + length tops)%nat /\ cx_ok (snd (fst (fst (fst r)))) /\ 0 <= snd (fst (fst r)) <= 1.
Proof.
  induction tops as [|t tl IH]; intros l s blocks nt ok Hl Hn; cbn [blocks_row].
  - cbn [fst snd length]. rewrite rev_append_rev, app_nil_r, rev_length. split; [lia|]. split; [apply cx_ok_rev; exact Hn | exact Hl].
  - destruct (get_coeffs bands (l + t) dc ac first s) as [[[b nz] ok1] s1].
    specialize (IH (VP8.b2z (first <? nz)) s1 (blocks ++ [(b, nz)]) (VP8.b2z (first <? nz) :: nt) (ok && ok1) (b2z_range _)
                   ltac:(constructor; [apply b2z_range | exact Hn])).
    cbv zeta in IH. cbn [length] in IH |- *. destruct IH as (A & B & C). split; [lia|]. split; assumption.
Qed.

Lemma blocks_rows_ctx bands dc ac first lefts : forall tops s blocks nl ok, cx_ok tops -> cx_ok lefts -> cx_ok nl ->
  let r := blocks_rows bands dc ac first tops lefts s blocks nl ok in
  length (snd (fst (fst (fst r)))) = length tops /\ cx_ok (snd (fst (fst (fst r)))) /\
  length (snd (fst (fst r))) = (length nl + length lefts)%nat /\ cx_ok (snd (fst (fst r))).
Proof.
  induction lefts as [|l tl IH]; intros tops s blocks nl ok Ht Hl Hn; cbn [blocks_rows].
  - cbn [fst snd length]. rewrite rev_append_rev, app_nil_r, rev_length. repeat split; try assumption; try lia. apply cx_ok_rev; exact Hn.
  - inversion Hl as [|? ? Hl0 Hl1]; subst.
    pose proof (blocks_row_ctx bands dc ac first tops l s blocks [] ok Hl0 ltac:(constructor)) as R. cbv zeta in R.
    destruct (blocks_row bands dc ac first tops l s blocks [] ok) as [[[[bl tops'] l'] ok1] s1]. cbn [fst snd length] in R. destruct R as (A & B & C).
    specialize (IH tops' s1 bl (l' :: nl) ok1 B Hl1 ltac:(constructor; assumption)). cbv zeta in IH. cbn [length] in IH |- *.
    destruct IH as (I1 & I2 & I3 & I4). repeat split; try assumption; lia.
Qed.

Lemma parse_residuals_ctx h m top left s : nz_ok top -> nz_ok left ->
  let r := parse_residuals h m top left s in nz_ok (snd (fst (fst r))) /\ nz_ok (snd (fst r)).
Proof.
  intros (T1 & T2 & T3 & T4 & T5 & T6 & T7) (L1 & L2 & L3 & L4 & L5 & L6 & L7). cbv zeta. unfold parse_residuals.
  destruct (h_use_skip h && m_skip m).
  - cbn [fst snd]. unfold nz_ok. cbn [c_y c_u c_v c_dc length].
    assert (Z4 : cx_ok [0; 0; 0; 0]) by (repeat constructor; lia). assert (Z2 : cx_ok [0; 0]) by (repeat constructor; lia).
    split; (split; [reflexivity|]; split; [reflexivity|]; split; [reflexivity|]; split; [exact Z4|]; split; [exact Z2|]; split; [exact Z2|]); destruct (m_i4 m); lia.
  - cbv zeta.
    set (Y2 := if m_i4 m then _ else _).
    assert (HY2 : match snd (fst (fst Y2)) with Some d => 0 <= d <= 1 | None => True end).
    { unfold Y2. destruct (m_i4 m); [exact I|]. destruct (get_coeffs _ _ _ _ 0 s) as [[[b nz] ok1] s1]. destruct (iwht b) as [w ok2]. cbn [fst snd]. apply b2z_range. }
    destruct Y2 as [[[dcs dc_ctx] ok0] s0]. cbn [fst snd] in HY2.
    match goal with |- context [blocks_rows ?a ?b ?c ?d ?e ?f s0 [] [] ok0] =>
      pose proof (blocks_rows_ctx a b c d f e s0 [] [] ok0 T4 L4 ltac:(constructor)) as RY; destruct (blocks_rows a b c d e f s0 [] [] ok0) as [[[[yb ty] ly] ok1] s1] end.
    match goal with |- context [blocks_rows ?a ?b ?c ?d ?e ?f s1 [] [] ok1] =>
      pose proof (blocks_rows_ctx a b c d f e s1 [] [] ok1 T5 L5 ltac:(constructor)) as RU; destruct (blocks_rows a b c d e f s1 [] [] ok1) as [[[[ub tu] lu] ok2] s2] end.
    match goal with |- context [blocks_rows ?a ?b ?c ?d ?e ?f s2 [] [] ok2] =>
      pose proof (blocks_rows_ctx a b c d f e s2 [] [] ok2 T6 L6 ltac:(constructor)) as RV; destruct (blocks_rows a b c d e f s2 [] [] ok2) as [[[[vb tv] lv] ok3] s3] end.
    cbv zeta in RY, RU, RV. cbn [fst snd length] in *. destruct RY as (Y1 & Y2' & Y3 & Y4). destruct RU as (U1 & U2 & U3 & U4). destruct RV as (V1 & V2 & V3 & V4).
    unfold nz_ok. cbn [c_y c_u c_v c_dc].
    split; (split; [lia|]; split; [lia|]; split; [lia|]; split; [assumption|]; split; [assumption|]; split; [assumption|]); destruct dc_ctx; lia.
Qed.

Lemma ctx_of_nz tc : length tc = 9%nat -> cx_ok tc -> nz_ok (ctx_of tc).
Proof.
  intros L C. do 10 (destruct tc as [|? tc]; try discriminate L). unfold ctx_of, nz_ok. cbn [c_y c_u c_v c_dc firstn skipn nth length].
  unfold cx_ok in *. repeat match goal with H : Forall _ (_ :: _) |- _ => inversion H; clear H; subst end. cbn beta in *.
  repeat split; try reflexivity; try (repeat constructor; cbn beta; lia); lia.
Qed.

Lemma ctx_list_ok c : nz_ok c -> length (ctx_list c) = 9%nat /\ cx_ok (ctx_list c) /\ ctx_of (ctx_list c) = c.
Proof.
  intros (T1 & T2 & T3 & T4 & T5 & T6 & T7). destruct c as [cy cu cv cdc]. cbn [c_y c_u c_v c_dc] in *. unfold ctx_list. cbn [c_y c_u c_v c_dc].
  do 5 (destruct cy as [|? cy]; try discriminate T1). do 3 (destruct cu as [|? cu]; try discriminate T2). do 3 (destruct cv as [|? cv]; try discriminate T3).
  split; [reflexivity|]. split; [|reflexivity]. constructor; [exact T7|]. apply cx_ok_app; [exact T4|]. apply cx_ok_app; assumption.
Qed.

(* ---------- facts about one macroblock of the reference's mode parsing ---------- *)
Lemma segment_tree_leaves : forall x, In x segment_tree -> x <= 0 -> - x <= 3.
Proof. apply in_leaves_le. vm_compute. reflexivity. Qed.

Lemma parse_mb_mode_facts h t4 l4 s : let m := fst (fst (fst (parse_mb_mode h t4 l4 s))) in
  0 <= m_seg m <= 3 /\ (h_update_map h = false -> m_seg m = 0) /\ (h_use_skip h = false -> m_skip m = false).
Proof.
  cbv zeta. unfold parse_mb_mode.
  assert (H1 : let r := (if h_update_map h then treed_read segment_tree (h_seg_probs h) 0 s else (0, s)) in
               0 <= fst r <= 3 /\ (h_update_map h = false -> fst r = 0)).
  { cbv zeta. destruct (h_update_map h); [|cbn [fst]; split; [lia | reflexivity]].
    split; [apply (treed_leaf segment_tree (h_seg_probs h) 3 ltac:(lia) segment_tree_leaves) | discriminate]. }
  cbv zeta in H1. destruct (if h_update_map h then _ else _) as [seg s1]. cbn [fst] in H1.
  assert (H2 : h_use_skip h = false -> isone (fst (if h_use_skip h then BoolDec.read_bool (h_skip_p h) s1 else (0, s1))) = false)
    by (intros ->; reflexivity).
  destruct (if h_use_skip h then _ else _) as [skip s2]. cbn [fst] in H2.
  destruct (treed_read kf_ymode_tree kf_ymode_prob 0 s2) as [ym s3].
  destruct (if ym =? B_PRED then _ else _) as [[[[i4 im] t4'] l4'] s4].
  destruct (treed_read uv_mode_tree uv_mode_prob 0 s4) as [uv s5]. cbn [fst m_seg m_skip].
  destruct H1 as [A B]. repeat split; try assumption; lia.
Qed.

(* ---------- one macroblock of the loop ---------- *)
Lemma zero_blocks_idct : repeat 0 384 = concat (map (fun b => fst (Spec.VP8.idct b)) (r_y mbres0 ++ r_u mbres0 ++ r_v mbres0)).
Proof. vm_compute. reflexivity. Qed.

Lemma top_ok_nz t : top_ok t -> nz_ok (cxf t).
Proof. intros (_ & _ & L & C). apply ctx_of_nz; assumption. Qed.

Section Macroblock.
Variables data0 datap : list Z.
Hypothesis Hb0 : Forall byte data0.
Hypothesis Hl0 : C15_model.len data0 < 2 ^ 63.
Hypothesis Hbp : Forall byte datap.
Hypothesis Hlp : C15_model.len datap < 2 ^ 63.

Theorem parse_macroblock_refines (h : header) (v : Vp8) (mbx p : Z) (t : MacroBlock) (dp : Dec) (s sp : bstate) :
  frame_inv h v -> 0 <= mbx -> nth_error (v_top v) (Z.to_nat mbx) = Some t -> top_ok t -> top_ok (v_left v) ->
  0 <= p -> nth_error (v_partitions v) (Z.to_nat p) = Some dp ->
  linked data0 s (v_b v) -> linked datap sp dp ->
  let '(m, t4', l4', s') := parse_mb_mode h (mtop_of t) (mleft_of (v_left v)) s in
  let '(r, tt', tl', sp') := parse_residuals h m (cxf t) (cxf (v_left v)) sp in
  (exists mb blocks v' t' dp',
     parse_macroblock v mbx p = Ok (mb, blocks, v') /\ mb_rel m r (mb, blocks) /\ same_hdr v v' /\
     linked data0 s' (v_b v') /\ v_partitions v' = updZ (v_partitions v) p dp' /\ linked datap sp' dp' /\
     v_top v' = updZ (v_top v) mbx t' /\ top_ok t' /\ mtop_of t' = t4' /\ cxf t' = tt' /\
     top_ok (v_left v') /\ mleft_of (v_left v') = l4' /\ cxf (v_left v') = tl')
  \/ (parse_macroblock v mbx p = Err EBitStreamError /\ (over_read data0 s' \/ over_read datap sp')).
Proof.
  intros Hinv Hmbx Et (Lbt & Mbt & Lct & Cct) (Lbl & Mbl & Lcl & Ccl) Hp Edp Hlink Hlinkp.
  pose proof Hinv as (Hmbh & Htab & Htok & Lseg & Hsegs & Himp & Lsp & Bsp).
  destruct (linked_wsafe data0 Hl0 _ _ Hlink) as [Hw Hbig].
  pose proof (read_macroblock_header_refines data0 Hb0 Hl0 h v mbx t s Hmbh Hmbx Et Lbt Lbl Mbt Mbl Hlink) as MH. cbv zeta in MH.
  fold (mtop_of t) (mleft_of (v_left v)) in MH.
  pose proof (parse_mb_mode_facts h (mtop_of t) (mleft_of (v_left v)) s) as MF. cbv zeta in MF.
  destruct (parse_mb_mode h (mtop_of t) (mleft_of (v_left v)) s) as [[[m t4'] l4'] s']. cbn [fst] in MF. destruct MF as (Hseg & Hseg0 & Hskip0).
  pose proof (parse_residuals_ctx h m (cxf t) (cxf (v_left v)) sp (ctx_of_nz _ Lct Cct) (ctx_of_nz _ Lcl Ccl)) as PC. cbv zeta in PC.
  pose proof (parse_residuals_mono h m (cxf t) (cxf (v_left v)) sp) as PM.
  destruct MH as [(mb & lb' & d' & EH & L1 & Esid & Eskip & Enz & Ecx & Eym & Euv & Ei4 & Eim & Et4 & El4) | [EH Ov]].
  2:{ destruct (parse_residuals h m (cxf t) (cxf (v_left v)) sp) as [[[r tt'] tl'] sp']. right. unfold parse_macroblock. rewrite EH. split; [reflexivity | left; exact Ov]. }
  destruct (mbh_shape h v mbx t mb _ Hmbh Hmbx Et Lbt Lbl Mbt Mbl Hw Hbig EH) as (Lmb & Mmb & Llb & Mlb).
  rewrite st_left in Llb, Mlb. cbn [mb_bpred mb_set_bpred] in Llb, Mlb.
  set (t1 := mkMB (mb_bpred mb) (mb_complexity t) (mb_luma_mode mb) (mb_chroma_mode mb) (mb_segmentid t) (mb_coeffs_skipped t) (mb_non_zero_coeffs t)) in *.
  set (v1 := st v d' (updZ (v_top v) mbx t1) (mb_set_bpred (v_left v) lb')) in *.
  assert (Hml : (Z.to_nat mbx < length (v_top v))%nat) by (apply nth_error_lt_len with (x := t); exact Et).
  assert (Et1 : nth_error (v_top v1) (Z.to_nat mbx) = Some t1) by (unfold v1; rewrite st_top; unfold updZ; apply nth_error_upd_same; exact Hml).
  assert (Ep1 : nth_error (v_partitions v1) (Z.to_nat p) = Some dp) by (unfold v1; destruct v; exact Edp).
  assert (Sh1 : same_hdr v v1) by apply same_hdr_st.
  assert (Eskp : h_use_skip h && m_skip m = m_skip m) by (destruct (h_use_skip h) eqn:E; [reflexivity | rewrite (Hskip0 eq_refl); reflexivity]).
  unfold parse_macroblock. rewrite EH. cbn [bind].
  assert (Hb4 : (mb_luma_mode mb =? vp8_B_PRED) = m_i4 m) by (rewrite Ei4; reflexivity).
  destruct (mb_coeffs_skipped mb) eqn:Esk; cbn [negb].
  - (* skipped *)
    rewrite (skipped_macroblock_ok v1 mb mbx p t1 dp Hmbx Hp Ep1 Et1) by (unfold v1; rewrite ?st_left; cbn [mb_complexity mb_set_bpred t1]; assumption).
    cbn [bind]. assert (Esk' : h_use_skip h && m_skip m = true) by (rewrite Eskp, <- Eskip; reflexivity).
    unfold parse_residuals in PC, PM |- *. rewrite Esk' in PC, PM |- *. cbn [fst snd] in PC |- *.
    left. eexists mb, (repeat 0 384), _, (mb_set_complexity t1 (skc (mb_luma_mode mb =? vp8_B_PRED) (mb_complexity t1))), dp.
    split; [reflexivity|]. split.
    { unfold mb_rel. repeat split; try assumption; try (rewrite Esk; exact Eskip); exact zero_blocks_idct. }
    split; [eapply same_hdr_trans; [exact Sh1 | apply same_hdr_rst]|].
    split; [destruct v; exact L1|].
    split; [rewrite rst_parts; unfold v1; destruct v; reflexivity|].
    split; [exact Hlinkp|].
    split; [rewrite rst_top; unfold v1; rewrite st_top; unfold updZ; rewrite upd_upd; reflexivity|].
    rewrite rst_left. unfold v1 at 1 2 3. rewrite !st_left. cbn [mb_complexity mb_set_bpred mb_set_complexity mb_bpred t1].
    rewrite Hb4. unfold top_ok, mtop_of, mleft_of, cxf, skc. cbn [mb_bpred mb_complexity mb_set_complexity mb_set_bpred length].
    assert (Z9 : forall x, 0 <= x <= 1 -> cx_ok (x :: repeat 0 8)) by (intros x Hx; constructor; [exact Hx | repeat constructor; lia]).
    assert (Hn0t : 0 <= nth 0 (mb_complexity t) 0 <= 1) by (unfold cx_ok in Cct; rewrite Forall_forall in Cct; apply Cct; apply nth_In; lia).
    assert (Hn0l : 0 <= nth 0 (mb_complexity (v_left v)) 0 <= 1) by (unfold cx_ok in Ccl; rewrite Forall_forall in Ccl; apply Ccl; apply nth_In; lia).
    split; [repeat split; try assumption; apply Z9; destruct (m_i4 m); lia|].
    split; [exact Et4|]. split; [destruct (m_i4 m); reflexivity|].
    split; [repeat split; try assumption; apply Z9; destruct (m_i4 m); lia|].
    split; [exact El4 | destruct (m_i4 m); reflexivity].
  - (* coefficients present *)
    assert (Hnsk : h_use_skip h && m_skip m = false) by (rewrite Eskp, <- Eskip; reflexivity).
    set (i := Z.to_nat (mb_segmentid mb)).
    assert (Hi : (i < 4)%nat) by (unfold i; rewrite Esid; lia).
    assert (Eseg : nth_error (v_segment v1) (Z.to_nat (mb_segmentid mb)) = Some (nth i (v_segment v) Segment_default)).
    { unfold v1. replace (v_segment (st v d' _ _)) with (v_segment v) by (destruct v; reflexivity). apply nth_error_nth'. fold i. lia. }
    set (seg := nth i (v_segment v) Segment_default) in *.
    destruct (Hsegs i Hi) as (_ & _ & _ & Hfac). fold seg in Hfac.
    assert (Hin : (i < (if h_use_segment h then 4 else 1))%nat).
    { destruct (h_update_map h) eqn:Eum; [rewrite (Himp eq_refl); exact Hi | unfold i; rewrite Esid, (Hseg0 eq_refl); destruct (h_use_segment h); cbn; lia]. }
    specialize (Hfac Hin). cbv zeta in Hfac. replace (Z.of_nat i) with (m_seg m) in Hfac by (unfold i; rewrite Esid; lia).
    destruct Hfac as (F1 & F2 & F3 & F4 & F5 & F6).
    pose proof (segment_quant_bounds h (m_seg m)) as SB. cbv zeta in SB. rewrite <- F1, <- F2, <- F3, <- F4, <- F5, <- F6 in SB.
    destruct SB as (S1 & S2 & S3 & S4 & S5 & S6).
    assert (Htok1 : token_nodes_of (h_probas h) = Ok (v_token_probs v1)) by (unfold v1; destruct v; exact Htok).
    assert (Hsid0 : 0 <= mb_segmentid mb) by (rewrite Esid; lia).
    assert (Lc1 : length (mb_complexity t1) = 9%nat) by exact Lct.
    assert (Ll1 : length (mb_complexity (v_left v1)) = 9%nat) by (unfold v1; rewrite st_left; exact Lcl).
    assert (Cc1 : cx_ok (mb_complexity t1)) by exact Cct.
    assert (Cl1 : cx_ok (mb_complexity (v_left v1))) by (unfold v1; rewrite st_left; exact Ccl).
    assert (RD : let '(res, top', left', sp') := parse_residuals h m (ctx_of (mb_complexity t1)) (ctx_of (mb_complexity (v_left v1))) sp in
                 (exists d'', read_residual_data v1 mb mbx p
                    = Ok (concat (map (fun b => fst (Spec.VP8.idct b)) (r_y res ++ r_u res ++ r_v res)), r_nonzero res,
                          rst v1 p mbx t1 d'' (ctx_list top') (ctx_list left')) /\ linked datap sp' d'')
                 \/ (read_residual_data v1 mb mbx p = Err EBitStreamError /\ over_read datap sp')).
    { destruct (m_i4 m) eqn:Em4.
      - apply (read_residual_data_bpred_strong datap Hbp Hlp h m v1 mb t1 mbx p dp sp seg); try assumption;
          try (unfold i16; lia); try (apply coef_bound_small; lia); try lia.
      - apply (read_residual_data_i16_strong datap Hbp Hlp h m v1 mb t1 mbx p dp sp seg); try assumption;
          try (unfold i16; lia); try (apply coef_bound_small; lia); try lia. }
    change (ctx_of (mb_complexity t1)) with (cxf t) in RD. replace (ctx_of (mb_complexity (v_left v1))) with (cxf (v_left v)) in RD by (unfold v1; rewrite st_left; reflexivity).
    destruct (parse_residuals h m (cxf t) (cxf (v_left v)) sp) as [[[r tt'] tl'] sp']. cbn [fst snd] in PC, PM. destruct PC as [PCt PCl].
    destruct RD as [[d'' [ER LR]] | [ER OR]].
    2:{ right. rewrite ER. cbn [bind]. split; [reflexivity | right; exact OR]. }
    rewrite ER. cbn [bind].
    destruct (ctx_list_ok tt' PCt) as (A1 & A2 & A3). destruct (ctx_list_ok tl' PCl) as (B1 & B2 & B3).
    left. eexists (mb_set_non_zero_coeffs mb (r_nonzero r)), _, _, (mb_set_complexity t1 (ctx_list tt')), d''.
    split; [reflexivity|]. split.
    { unfold mb_rel. cbn [mb_set_non_zero_coeffs mb_segmentid mb_coeffs_skipped mb_luma_mode mb_chroma_mode mb_bpred mb_non_zero_coeffs].
      repeat split; try assumption. rewrite Esk. exact Eskip. }
    split; [eapply same_hdr_trans; [exact Sh1 | apply same_hdr_rst]|].
    split; [destruct v; exact L1|].
    split; [rewrite rst_parts; unfold v1; destruct v; reflexivity|].
    split; [exact LR|].
    split; [rewrite rst_top; unfold v1; rewrite st_top; unfold updZ; rewrite upd_upd; reflexivity|].
    rewrite rst_left. unfold v1 at 1 2 3. rewrite !st_left.
    unfold top_ok, mtop_of, mleft_of, cxf. cbn [mb_bpred mb_complexity mb_set_complexity mb_set_bpred t1].
    repeat split; assumption.
Qed.

End Macroblock.

(* ---------- the reference's row functions without accumulators ---------- *)
Lemma parse_mode_row_acc h n : forall tops left s acc nt,
  parse_mode_row h n tops left s acc nt
  = (let '(ms, t', s') := parse_mode_row h n tops left s [] [] in (rev acc ++ ms, rev nt ++ t', s')).
Proof.
  induction n as [|n IH]; intros tops left s acc nt; cbn [parse_mode_row].
  - rewrite !rev_append_rev, !app_nil_r. reflexivity.
  - destruct (split_at 4 tops) as [top4 rest]. destruct (parse_mb_mode h top4 left s) as [[[m t'] l'] s1].
    rewrite (IH rest l' s1 (m :: acc) (rev_append t' nt)). rewrite (IH rest l' s1 [m] (rev_append t' [])).
    destruct (parse_mode_row h n rest l' s1 [] []) as [[ms t2] s2]. cbn [rev app]. rewrite !rev_append_rev, app_nil_r, rev_app_distr, rev_involutive.
    rewrite <- !app_assoc. reflexivity.
Qed.

Lemma parse_mode_row_S h n tops left s :
  parse_mode_row h (S n) tops left s [] []
  = (let '(top4, rest) := split_at 4 tops in
     let '(m, t', l', s1) := parse_mb_mode h top4 left s in
     let '(ms, nt, s') := parse_mode_row h n rest l' s1 [] [] in (m :: ms, t' ++ nt, s')).
Proof.
  cbn [parse_mode_row]. destruct (split_at 4 tops) as [top4 rest]. destruct (parse_mb_mode h top4 left s) as [[[m t'] l'] s1].
  rewrite parse_mode_row_acc. destruct (parse_mode_row h n rest l' s1 [] []) as [[ms t2] s2].
  cbn [rev app]. rewrite rev_append_rev, app_nil_r, rev_involutive. reflexivity.
Qed.

Lemma parse_token_row_acc h modes : forall tops left s acc nt,
  parse_token_row h modes tops left s acc nt
  = (let '(rs, t', s') := parse_token_row h modes tops left s [] [] in (rev acc ++ rs, rev nt ++ t', s')).
Proof.
  induction modes as [|m mtl IH]; intros tops left s acc nt; cbn [parse_token_row].
  - rewrite !rev_append_rev, !app_nil_r. reflexivity.
  - destruct tops as [|t ttl]; [rewrite !rev_append_rev, !app_nil_r; reflexivity|].
    destruct (parse_residuals h m t left s) as [[[r t'] l'] s1].
    rewrite (IH ttl l' s1 (r :: acc) (t' :: nt)). rewrite (IH ttl l' s1 [r] [t']).
    destruct (parse_token_row h mtl ttl l' s1 [] []) as [[rs t2] s2]. cbn [rev app]. rewrite <- !app_assoc. reflexivity.
Qed.

Lemma parse_token_row_cons h m mtl t ttl left s :
  parse_token_row h (m :: mtl) (t :: ttl) left s [] []
  = (let '(r, t', l', s1) := parse_residuals h m t left s in
     let '(rs, nt, s') := parse_token_row h mtl ttl l' s1 [] [] in (r :: rs, t' :: nt, s')).
Proof.
  cbn [parse_token_row]. destruct (parse_residuals h m t left s) as [[[r t'] l'] s1].
  rewrite parse_token_row_acc. destruct (parse_token_row h mtl ttl l' s1 [] []) as [[rs t2] s2]. reflexivity.
Qed.

Lemma parse_mode_rows_acc h rows : forall tops s acc,
  parse_mode_rows h rows tops s acc = (let '(rr, s') := parse_mode_rows h rows tops s [] in (rev acc ++ rr, s')).
Proof.
  induction rows as [|k IH]; intros tops s acc; cbn [parse_mode_rows].
  - rewrite !rev_append_rev, !app_nil_r. reflexivity.
  - destruct (parse_mode_row h (Z.to_nat (mb_w h)) tops [0; 0; 0; 0] s [] []) as [[row tops'] s1].
    rewrite (IH tops' s1 (row :: acc)). rewrite (IH tops' s1 [row]).
    destruct (parse_mode_rows h k tops' s1 []) as [rr s2]. cbn [rev app]. rewrite <- app_assoc. reflexivity.
Qed.

Lemma parse_mode_rows_S h k tops s :
  parse_mode_rows h (S k) tops s []
  = (let '(row, tops', s1) := parse_mode_row h (Z.to_nat (mb_w h)) tops [0; 0; 0; 0] s [] [] in
     let '(rr, s') := parse_mode_rows h k tops' s1 [] in (row :: rr, s')).
Proof.
  cbn [parse_mode_rows]. destruct (parse_mode_row h (Z.to_nat (mb_w h)) tops [0; 0; 0; 0] s [] []) as [[row tops'] s1].
  rewrite parse_mode_rows_acc. destruct (parse_mode_rows h k tops' s1 []) as [rr s2]. reflexivity.
Qed.

Lemma parse_token_rows_acc h rows : forall r tops parts acc,
  parse_token_rows h rows r tops parts acc = (let '(rr, ps) := parse_token_rows h rows r tops parts [] in (rev acc ++ rr, ps)).
Proof.
  induction rows as [|row tl IH]; intros r tops parts acc; cbn [parse_token_rows].
  - rewrite !rev_append_rev, !app_nil_r. reflexivity.
  - destruct (nth_error parts (Z.to_nat (Z.land r (h_num_parts h - 1)))) as [s|]; [|rewrite !rev_append_rev, !app_nil_r; reflexivity].
    destruct (parse_token_row h row tops ctx0 s [] []) as [[res tops'] s'].
    rewrite (IH (r + 1) tops' _ (res :: acc)). rewrite (IH (r + 1) tops' _ [res]).
    destruct (parse_token_rows h tl (r + 1) tops' _ []) as [rr ps]. cbn [rev app]. rewrite <- app_assoc. reflexivity.
Qed.

Lemma parse_token_rows_cons h row tl r tops parts s :
  nth_error parts (Z.to_nat (Z.land r (h_num_parts h - 1))) = Some s ->
  parse_token_rows h (row :: tl) r tops parts []
  = (let '(res, tops', s') := parse_token_row h row tops ctx0 s [] [] in
     let '(rr, ps) := parse_token_rows h tl (r + 1) tops' (upd parts (Z.to_nat (Z.land r (h_num_parts h - 1))) s') [] in (res :: rr, ps)).
Proof.
  intros E. cbn [parse_token_rows]. rewrite E. destruct (parse_token_row h row tops ctx0 s [] []) as [[res tops'] s'].
  rewrite parse_token_rows_acc. destruct (parse_token_rows h tl (r + 1) tops' _ []) as [rr ps]. reflexivity.
Qed.

(* a partition's reference state only moves forward over the remaining rows *)
Lemma parse_token_rows_mono h rows : forall r tops parts acc i,
  le_st (nth i parts (bd_init [])) (nth i (snd (parse_token_rows h rows r tops parts acc)) (bd_init [])).
Proof.
  induction rows as [|row tl IH]; intros r tops parts acc i; cbn [parse_token_rows]; [apply le_st_refl|].
  destruct (nth_error parts (Z.to_nat (Z.land r (h_num_parts h - 1)))) as [s|] eqn:E; [|apply le_st_refl].
  pose proof (parse_token_row_mono h row tops ctx0 s [] []) as M. destruct (parse_token_row h row tops ctx0 s [] []) as [[res tops'] s']. cbn [snd] in M.
  eapply le_st_trans; [|apply IH].
  set (p := Z.to_nat (Z.land r (h_num_parts h - 1))) in *.
  destruct (Nat.eq_dec i p) as [-> | N].
  - rewrite nth_upd_same by (apply nth_error_lt_len with (x := s); exact E). rewrite (nth_error_nth _ _ _ E). exact M.
  - rewrite nth_upd_other by (intro; apply N; congruence). apply le_st_refl.
Qed.

(* ---------- one macroblock row ---------- *)
Inductive recs_rel : list mbmode -> list mbres -> list (MacroBlock * list Z) -> Prop :=
| recs_nil : recs_rel [] [] []
| recs_cons m r rec ms rs recs : mb_rel m r rec -> recs_rel ms rs recs -> recs_rel (m :: ms) (r :: rs) (rec :: recs).

Lemma upd_app_len {A} (pre : list A) x y suf : upd (pre ++ x :: suf) (length pre) y = pre ++ y :: suf.
Proof. induction pre as [|a pre IH]; cbn [app length upd]; [reflexivity | rewrite IH; reflexivity]. Qed.

Lemma mtop_of_length t : length (mb_bpred t) = 16%nat -> length (mtop_of t) = 4%nat.
Proof. intros L. unfold mtop_of. rewrite map_length, skipn_length. lia. Qed.

Lemma split4 (a rest : list Z) : length a = 4%nat -> split_at 4 (a ++ rest) = (a, rest).
Proof.
  intros L. rewrite split_at_spec. change (Z.to_nat 4) with 4%nat. rewrite <- L. rewrite firstn_app, skipn_app, firstn_all, skipn_all, Nat.sub_diag.
  cbn [firstn skipn app]. rewrite app_nil_r. reflexivity.
Qed.

Section Row.
Variables data0 datap : list Z.
Hypothesis Hb0 : Forall byte data0.
Hypothesis Hl0 : C15_model.len data0 < 2 ^ 63.
Hypothesis Hbp : Forall byte datap.
Hypothesis Hlp : C15_model.len datap < 2 ^ 63.
Variable h : header.
Variable p : Z.
Hypothesis Hp : 0 <= p.

Theorem parse_mb_row_refines : forall (suf pre : list MacroBlock) (v : Vp8) (s sp : bstate) (dp : Dec) (acc : list (MacroBlock * list Z)),
  frame_inv h v -> v_top v = pre ++ suf -> Forall top_ok suf -> top_ok (v_left v) ->
  nth_error (v_partitions v) (Z.to_nat p) = Some dp -> linked data0 s (v_b v) -> linked datap sp dp ->
  let '(ms, mt', s') := parse_mode_row h (length suf) (concat (map mtop_of suf)) (mleft_of (v_left v)) s [] [] in
  let '(rs, tt', sp') := parse_token_row h ms (map cxf suf) (cxf (v_left v)) sp [] [] in
  (exists recs v' suf' dp',
     parse_mb_row (length suf) (Z.of_nat (length pre)) v p acc = Ok (rev recs ++ acc, v') /\ recs_rel ms rs recs /\ same_hdr v v' /\
     linked data0 s' (v_b v') /\ v_partitions v' = updZ (v_partitions v) p dp' /\ linked datap sp' dp' /\
     v_top v' = pre ++ suf' /\ Forall top_ok suf' /\ concat (map mtop_of suf') = mt' /\ map cxf suf' = tt' /\ length suf' = length suf)
  \/ (parse_mb_row (length suf) (Z.of_nat (length pre)) v p acc = Err EBitStreamError /\ (over_read data0 s' \/ over_read datap sp')).
Proof.
  induction suf as [|t suf1 IH]; intros pre v s sp dp acc Hinv Etop Hsuf Hleft Edp Hlink Hlinkp.
  - cbn [length map concat parse_mode_row parse_token_row rev_append parse_mb_row].
    left. exists [], v, [], dp. cbn [rev app]. split; [reflexivity|]. split; [constructor|]. split; [apply same_hdr_refl|].
    split; [exact Hlink|]. split; [unfold updZ; rewrite <- (upd_nth_id (v_partitions v) (Z.to_nat p) ArithDec.new) at 1; f_equal; apply nth_error_nth; exact Edp|]. split; [exact Hlinkp|].
    split; [exact Etop|]. repeat split; constructor.
  - inversion Hsuf as [|? ? Ht Hsuf1]; subst. pose proof Ht as (Lbt & _).
    cbn [length map concat]. rewrite parse_mode_row_S. rewrite (split4 _ _ (mtop_of_length t Lbt)).
    assert (Et : nth_error (v_top v) (Z.to_nat (Z.of_nat (length pre))) = Some t).
    { rewrite Nat2Z.id, Etop. rewrite nth_error_app2 by lia. rewrite Nat.sub_diag. reflexivity. }
    pose proof (parse_macroblock_refines data0 datap Hb0 Hl0 Hbp Hlp h v (Z.of_nat (length pre)) p t dp s sp Hinv ltac:(lia) Et Ht Hleft Hp Edp Hlink Hlinkp) as MB.
    destruct (parse_mb_mode h (mtop_of t) (mleft_of (v_left v)) s) as [[[m t4'] l4'] s1].
    pose proof (parse_mode_row_mono h (length suf1) (concat (map mtop_of suf1)) l4' s1 [] []) as MM.
    cbn [parse_mb_row].
    destruct (parse_residuals h m (cxf t) (cxf (v_left v)) sp) as [[[r tt1] tl1] sp1] eqn:EPR.
    destruct MB as [(mb & blocks & v1 & t' & dp1 & EM & Hrel & Sh1 & L1 & Ep1 & Lp1 & Et1 & Hok1 & Em1 & Ec1 & Hl1 & Eml1 & Ecl1) | [EM Ov]].
    + rewrite EM. cbn [bind].
      assert (Etop1 : v_top v1 = (pre ++ [t']) ++ suf1).
      { rewrite Et1, Etop. unfold updZ. rewrite Nat2Z.id. rewrite upd_app_len. rewrite <- app_assoc. reflexivity. }
      assert (Edp1 : nth_error (v_partitions v1) (Z.to_nat p) = Some dp1).
      { rewrite Ep1. unfold updZ. apply nth_error_upd_same. apply nth_error_lt_len with (x := dp). exact Edp. }
      specialize (IH (pre ++ [t']) v1 s1 sp1 dp1 ((mb, blocks) :: acc) (frame_inv_same h v v1 Sh1 Hinv) Etop1 Hsuf1 Hl1 Edp1 L1 Lp1).
      rewrite Eml1, Ecl1 in IH. rewrite app_length in IH. cbn [length] in IH. replace (Z.of_nat (length pre + 1)) with (Z.of_nat (length pre) + 1) in IH by lia.
      destruct (parse_mode_row h (length suf1) (concat (map mtop_of suf1)) l4' s1 [] []) as [[ms1 nt1] s'].
      rewrite parse_token_row_cons. rewrite EPR.
      destruct (parse_token_row h ms1 (map cxf suf1) tl1 sp1 [] []) as [[rs1 nt2] sp'].
      destruct IH as [(recs1 & v' & suf1' & dp' & EM2 & Hrel2 & Sh2 & L2 & Ep2 & Lp2 & Et2 & Hok2 & Em2 & Ec2 & Ln2) | [EM2 Ov2]].
      * left. exists ((mb, blocks) :: recs1), v', (t' :: suf1'), dp'.
        split; [rewrite EM2; cbn [rev]; rewrite <- app_assoc; reflexivity|].
        split; [constructor; assumption|]. split; [eapply same_hdr_trans; eassumption|]. split; [exact L2|].
        split; [rewrite Ep2, Ep1; unfold updZ; rewrite upd_upd; reflexivity|]. split; [exact Lp2|].
        split; [rewrite Et2, <- app_assoc; reflexivity|]. split; [constructor; assumption|].
        split; [cbn [map concat]; rewrite Em1, Em2; reflexivity|]. split; [cbn [map]; rewrite Ec1, Ec2; reflexivity | cbn [length]; lia].
      * right. split; [exact EM2 | exact Ov2].
    + rewrite EM. cbn [bind].
      destruct (parse_mode_row h (length suf1) (concat (map mtop_of suf1)) l4' s1 [] []) as [[ms1 nt1] s']. cbn [snd] in MM.
      rewrite parse_token_row_cons. rewrite EPR.
      pose proof (parse_token_row_mono h ms1 (map cxf suf1) tl1 sp1 [] []) as MT.
      destruct (parse_token_row h ms1 (map cxf suf1) tl1 sp1 [] []) as [[rs1 nt2] sp']. cbn [snd] in MT.
      right. split; [reflexivity|]. destruct Ov as [O | O]; [left; exact (over_read_le _ _ _ MM O) | right; exact (over_read_le _ _ _ MT O)].
Qed.

End Row.

(* ---------- all rows: the first partition and the token partitions are separate streams, so reading them interleaved (crate)
   or one after the other (reference) gives the same values ---------- *)
Inductive rows_rel : list (list mbmode) -> list (list mbres) -> list (MacroBlock * list Z) -> Prop :=
| rows_nil : rows_rel [] [] []
| rows_cons ms rs recs mss rss rest : recs_rel ms rs recs -> rows_rel mss rss rest -> rows_rel (ms :: mss) (rs :: rss) (recs ++ rest).

Lemma land_mod a n : 0 <= a -> n = 1 \/ n = 2 \/ n = 4 \/ n = 8 -> Z.land a (n - 1) = a mod n.
Proof.
  intros Ha [-> | [-> | [-> | ->]]].
  - rewrite Z.land_0_r, Z.mod_1_r. reflexivity.
  - change (2 - 1) with (Z.ones 1). rewrite Z.land_ones by lia. reflexivity.
  - change (4 - 1) with (Z.ones 2). rewrite Z.land_ones by lia. reflexivity.
  - change (8 - 1) with (Z.ones 3). rewrite Z.land_ones by lia. reflexivity.
Qed.

Lemma nth_error_upd_other {A} (l : list A) : forall n m x, n <> m -> nth_error (upd l m x) n = nth_error l n.
Proof.
  induction l as [|a l IH]; intros n m x H; [destruct m; reflexivity|].
  destruct m as [|m]; destruct n as [|n]; cbn [upd nth_error]; try reflexivity; [lia | apply IH; lia].
Qed.

Section Frame.
Variable data0 : list Z.
Variable parts : list (list Z).
Hypothesis Hb0 : Forall byte data0.
Hypothesis Hl0 : C15_model.len data0 < 2 ^ 63.
Hypothesis Hparts : forall q, In q parts -> Forall byte q /\ C15_model.len q < 2 ^ 63.
Variable h : header.
Hypothesis Hnp : h_num_parts h = Z.of_nat (length parts).
Hypothesis Hnp2 : h_num_parts h = 1 \/ h_num_parts h = 2 \/ h_num_parts h = 4 \/ h_num_parts h = 8.

Definition parts_rel (ps : list bstate) (v : Vp8) : Prop :=
  length ps = length parts /\
  forall i, (i < length parts)%nat -> exists d, nth_error (v_partitions v) i = Some d /\ linked (nth i parts []) (nth i ps (bd_init [])) d.

Definition parts_over (ps : list bstate) : Prop := exists i, (i < length parts)%nat /\ over_read (nth i parts []) (nth i ps (bd_init [])).

Theorem parse_mb_rows_refines : forall (n : nat) (mby : Z) (v : Vp8) (s : bstate) (ps : list bstate) (acc : list (MacroBlock * list Z)),
  frame_inv h v -> v_num_partitions v = h_num_parts h -> Z.to_nat (v_mbwidth v) = length (v_top v) -> mb_w h = v_mbwidth v ->
  Forall top_ok (v_top v) -> parts_rel ps v -> linked data0 s (v_b v) -> 0 <= mby ->
  let '(mss, s') := parse_mode_rows h n (concat (map mtop_of (v_top v))) s [] in
  let '(rss, ps') := parse_token_rows h mss mby (map cxf (v_top v)) ps [] in
  (exists recs v', parse_mb_rows n mby v acc = Ok (rev recs ++ acc, v') /\ rows_rel mss rss recs /\ same_hdr v v' /\
                   linked data0 s' (v_b v') /\ parts_rel ps' v')
  \/ (parse_mb_rows n mby v acc = Err EBitStreamError /\ (over_read data0 s' \/ parts_over ps')).
Proof.
  induction n as [|n IH]; intros mby v s ps acc Hinv Env Ew Emw Htops Hpr Hlink Hmby.
  - cbn [parse_mode_rows parse_token_rows rev_append parse_mb_rows]. left. exists [], v. cbn [rev app].
    split; [reflexivity|]. split; [constructor|]. split; [apply same_hdr_refl|]. split; assumption.
  - rewrite parse_mode_rows_S. cbn [parse_mb_rows]. rewrite Env.
    assert (Hnz : h_num_parts h <> 0) by lia.
    unfold usize_rem. destruct (Z.eqb_spec (h_num_parts h) 0) as [|_]; [contradiction|]. cbn [bind].
    set (p := mby mod h_num_parts h).
    assert (Hp : 0 <= p < Z.of_nat (length parts)) by (unfold p; rewrite <- Hnp; apply Z.mod_pos_bound; lia).
    assert (Eland : Z.land mby (h_num_parts h - 1) = p) by (apply land_mod; assumption).
    destruct Hpr as [Lps Hpr]. destruct (Hpr (Z.to_nat p) ltac:(lia)) as [dp [Edp Lkp]].
    set (datap := nth (Z.to_nat p) parts []) in *. set (sp := nth (Z.to_nat p) ps (bd_init [])) in *.
    destruct (Hparts datap ltac:(apply nth_In; lia)) as [Hbp Hlp].
    set (v0 := set_left v MacroBlock_default).
    assert (Sh0 : same_hdr v v0) by apply same_hdr_set_left.
    assert (Hleft0 : top_ok (v_left v0)).
    { replace (v_left v0) with MacroBlock_default by (unfold v0; destruct v; reflexivity). unfold top_ok, MacroBlock_default. cbn [mb_bpred mb_complexity].
      split; [reflexivity|]. split; [apply zeros_modes_ok|]. split; [reflexivity|]. repeat constructor; lia. }
    pose proof (parse_mb_row_refines data0 datap Hb0 Hl0 Hbp Hlp h p ltac:(lia) (v_top v) [] v0 s sp dp acc
                  (frame_inv_same h v v0 Sh0 Hinv) ltac:(unfold v0; destruct v; reflexivity) Htops Hleft0
                  ltac:(unfold v0; destruct v; exact Edp) ltac:(unfold v0; destruct v; exact Hlink) Lkp) as ROW.
    replace (mleft_of (v_left v0)) with [0; 0; 0; 0] in ROW by (unfold v0; destruct v; reflexivity).
    replace (cxf (v_left v0)) with ctx0 in ROW by (unfold v0; destruct v; reflexivity).
    rewrite <- Ew in ROW. rewrite <- Emw in ROW. cbn [length] in ROW. change (Z.of_nat 0) with 0 in ROW.
    change (v_mbwidth v0) with (v_mbwidth v). rewrite <- Emw.
    destruct (parse_mode_row h (Z.to_nat (mb_w h)) (concat (map mtop_of (v_top v))) [0; 0; 0; 0] s [] []) as [[row mt'] s1].
    pose proof (parse_mode_rows_mono h n mt' s1 []) as MM.
    assert (Esp : nth_error ps (Z.to_nat (Z.land mby (h_num_parts h - 1))) = Some sp).
    { rewrite Eland. unfold sp. apply nth_error_nth'. lia. }
    destruct (parse_token_row h row (map cxf (v_top v)) ctx0 sp [] []) as [[res tt'] sp'] eqn:ETR.
    destruct ROW as [(recs1 & v1 & suf' & dp' & EM & Hrel & Sh1 & L1 & Ep1 & Lp1 & Et1 & Hok1 & Em1 & Ec1 & Ln1) | [EM Ov]].
    + rewrite EM. cbn [bind].
      cbn [app] in Et1.
      assert (Shv1 : same_hdr v v1) by exact (same_hdr_trans _ _ _ Sh0 Sh1).
      assert (Hpr1 : parts_rel (upd ps (Z.to_nat p) sp') v1).
      { split; [rewrite upd_length; exact Lps|]. intros i Hi. rewrite Ep1. unfold updZ.
        destruct (Nat.eq_dec i (Z.to_nat p)) as [-> | N].
        - exists dp'. split; [apply nth_error_upd_same; replace (v_partitions v0) with (v_partitions v) by (unfold v0; destruct v; reflexivity); apply nth_error_lt_len with (x := dp); exact Edp|].
          rewrite nth_upd_same by lia. exact Lp1.
        - destruct (Hpr i Hi) as [d [Ed Ld]]. exists d. rewrite nth_error_upd_other by exact N. rewrite nth_upd_other by exact N.
          split; [unfold v0; destruct v; exact Ed | exact Ld]. }
      assert (Env1 : v_num_partitions v1 = h_num_parts h).
      { unfold same_hdr, hdr_fields in Shv1. injection Shv1 as _ _ _ _ _ _ _ _ _ E _ _ _ _. rewrite <- E. exact Env. }
      assert (Ewid1 : v_mbwidth v1 = v_mbwidth v).
      { unfold same_hdr, hdr_fields in Shv1. injection Shv1 as _ E _ _ _ _ _ _ _ _ _ _ _ _. symmetry. exact E. }
      specialize (IH (mby + 1) v1 s1 (upd ps (Z.to_nat p) sp') (rev recs1 ++ acc) (frame_inv_same h v v1 Shv1 Hinv) Env1
                     ltac:(rewrite Ewid1, Et1, Ln1, Emw; reflexivity) ltac:(rewrite Ewid1; exact Emw) ltac:(rewrite Et1; exact Hok1) Hpr1 L1 ltac:(lia)).
      rewrite Et1, Em1, Ec1 in IH.
      destruct (parse_mode_rows h n mt' s1 []) as [mss s'].
      rewrite (parse_token_rows_cons h row mss mby (map cxf (v_top v)) ps sp Esp). rewrite ETR. rewrite Eland.
      destruct (parse_token_rows h mss (mby + 1) tt' (upd ps (Z.to_nat p) sp') []) as [rss ps'].
      destruct IH as [(recs2 & v' & EM2 & Hrel2 & Sh2 & L2 & Hpr2) | [EM2 Ov2]].
      * left. exists (recs1 ++ recs2), v'. split; [rewrite EM2, rev_app_distr, <- app_assoc; reflexivity|].
        split; [constructor; assumption|]. split; [eapply same_hdr_trans; eassumption|]. split; assumption.
      * right. split; [exact EM2 | exact Ov2].
    + rewrite EM. cbn [bind].
      destruct (parse_mode_rows h n mt' s1 []) as [mss s']. cbn [snd] in MM.
      rewrite (parse_token_rows_cons h row mss mby (map cxf (v_top v)) ps sp Esp). rewrite ETR. rewrite Eland.
      pose proof (parse_token_rows_mono h mss (mby + 1) tt' (upd ps (Z.to_nat p) sp') [] (Z.to_nat p)) as MT.
      destruct (parse_token_rows h mss (mby + 1) tt' (upd ps (Z.to_nat p) sp') []) as [rss ps']. cbn [snd] in MT.
      rewrite nth_upd_same in MT by lia.
      right. split; [reflexivity|]. destruct Ov as [O | O]; [left; exact (over_read_le _ _ _ MM O)|].
      right. exists (Z.to_nat p). split; [lia | exact (over_read_le _ _ _ MT O)].
Qed.

End Frame.
