(* C14: the BinaryHeap operations of Model.EncoderHeap never run out of fuel and only rearrange the vector.
   "Rearrange" is stated as multiset equality in the form  forall g, sum (map g h') = sum (map g h)  (meq), which is
   what the tree-building invariant consumes.  Nothing here depends on the ordering of the items: the prefix-code
   property holds whichever elements the heap hands out. *)
From Coq Require Import ZArith List Bool Lia Arith.
From WebP Require Import Lib.Res Model.EncoderHeap Model.Encoder Proofs.Huffman_lists.
Import ListNotations.
Open Scope Z_scope.

Definition meq (h h' : list item) : Prop := forall g : item -> Z, zsum (map g h) = zsum (map g h').

Lemma meq_refl h : meq h h. Proof. intros g. reflexivity. Qed.
Lemma meq_sym h h' : meq h h' -> meq h' h. Proof. intros H g. symmetry. apply H. Qed.
Lemma meq_trans a b c : meq a b -> meq b c -> meq a c. Proof. intros H1 H2 g. rewrite H1. apply H2. Qed.

Lemma meq_length h h' : meq h h' -> length h = length h'.
Proof.
  intros H. specialize (H (fun _ => 1)).
  assert (L : forall l : list item, zsum (map (fun _ => 1) l) = Z.of_nat (length l)).
  { induction l as [|x tl IH]; cbn [map zsum length]; [reflexivity | rewrite IH; lia]. }
  rewrite !L in H. lia.
Qed.

Lemma meq_Forall (p : item -> bool) h h' : meq h h' -> Forall (fun x => p x = true) h -> Forall (fun x => p x = true) h'.
Proof.
  intros H HF.
  assert (Z0 : zsum (map (fun x => if p x then 0 else 1) h) = 0).
  { clear H. induction HF as [|x tl Hx _ IH]; cbn [map zsum]; [reflexivity | rewrite Hx, IH; reflexivity]. }
  specialize (H (fun x => if p x then 0 else 1)).
  rewrite Z0 in H. clear Z0 HF.
  assert (NN : forall l : list item, 0 <= zsum (map (fun x => if p x then 0 else 1) l)).
  { induction l as [|x tl IH]; cbn [map zsum]; [lia | destruct (p x); lia]. }
  induction h' as [|x tl IH]; [constructor|].
  cbn [map zsum] in H. pose proof (NN tl). destruct (p x) eqn:E; [|lia].
  constructor; [exact E | apply IH; lia].
Qed.

Lemma meq_cons x h h' : meq h h' -> meq (x :: h) (x :: h').
Proof. intros H g. cbn [map zsum]. rewrite (H g). reflexivity. Qed.

Lemma map_upd {A B} (f : A -> B) (l : list A) k v : map f (upd l k v) = upd (map f l) k (f v).
Proof. revert k. induction l as [|x tl IH]; intros [|k]; cbn [upd map]; try reflexivity. rewrite IH. reflexivity. Qed.

Lemma hswap_meq h i j : 0 <= i < zlen h -> 0 <= j < zlen h -> meq (hswap h i j) h.
Proof.
  unfold zlen. intros Hi Hj g. unfold hswap, hget. rewrite !map_upd.
  rewrite zsum_upd by (rewrite upd_length, map_length; lia).
  rewrite zsum_upd by (rewrite map_length; lia).
  assert (E : forall k, (k < length h)%nat -> nth k (map g h) 0 = g (nth k h (0, 0))).
  { intros k Hk. rewrite (nth_indep _ 0 (g (0, 0))) by (rewrite map_length; exact Hk). apply map_nth. }
  destruct (Nat.eq_dec (Z.to_nat i) (Z.to_nat j)) as [Eij | Nij].
  - rewrite Eij. rewrite nth_upd_eq by (rewrite map_length; lia). rewrite E by lia. lia.
  - rewrite nth_upd_neq by exact Nij. rewrite !E by lia. lia.
Qed.

Lemma hswap_length h i j : length (hswap h i j) = length h.
Proof. unfold hswap. rewrite !upd_length. reflexivity. Qed.

Lemma zlen_hswap h i j : zlen (hswap h i j) = zlen h.
Proof. unfold zlen. rewrite hswap_length. reflexivity. Qed.

(* sift_down_range *)
Lemma sift_down_range_ok : forall fuel h pos end_,
  0 <= pos -> pos < end_ -> end_ <= zlen h -> end_ - pos <= Z.of_nat fuel ->
  exists h', sift_down_range fuel h pos end_ = Ok h' /\ meq h' h.
Proof.
  induction fuel as [|fuel IH]; intros h pos end_ H0 H1 H2 Hf; [lia|].
  cbn [sift_down_range].
  destruct (2 * pos + 1 <=? Z.max 0 (end_ - 2)) eqn:Ec.
  - apply Z.leb_le in Ec.
    set (child := if item_le (hget h (2 * pos + 1)) (hget h (2 * pos + 1 + 1)) then 2 * pos + 1 + 1 else 2 * pos + 1).
    assert (Hc : pos < child /\ child < end_) by (unfold child; destruct (item_le _ _); lia).
    destruct (item_ge (hget h pos) (hget h child)).
    + exists h. split; [reflexivity | apply meq_refl].
    + destruct (IH (hswap h pos child) child end_) as [h' [E M]]; try lia.
      * rewrite zlen_hswap. lia.
      * exists h'. split; [exact E|]. eapply meq_trans; [exact M|]. apply hswap_meq; lia.
  - apply Z.leb_gt in Ec.
    destruct ((2 * pos + 1 =? end_ - 1) && item_lt (hget h pos) (hget h (2 * pos + 1))) eqn:Eb.
    + apply andb_true_iff in Eb. destruct Eb as [Eb _]. apply Z.eqb_eq in Eb.
      exists (hswap h pos (2 * pos + 1)). split; [reflexivity|]. apply hswap_meq; lia.
    + exists h. split; [reflexivity | apply meq_refl].
Qed.

Lemma sift_down_ok h pos : 0 <= pos < zlen h -> exists h', sift_down h pos = Ok h' /\ meq h' h.
Proof.
  intros H. unfold sift_down. apply sift_down_range_ok; try lia.
  unfold zlen in *. rewrite Nat2Z.inj_succ. lia.
Qed.

Lemma sift_up_ok : forall fuel h start pos,
  0 <= start -> 0 <= pos < zlen h -> pos < Z.of_nat fuel ->
  exists h', sift_up fuel h start pos = Ok h' /\ meq h' h.
Proof.
  induction fuel as [|fuel IH]; intros h start pos Hs Hp Hf; [lia|].
  cbn [sift_up]. destruct (start <? pos) eqn:E.
  - apply Z.ltb_lt in E.
    assert (Hpar : 0 <= (pos - 1) / 2 < pos).
    { split; [apply Z.div_pos; lia | apply Z.div_lt_upper_bound; lia]. }
    destruct (item_le (hget h pos) (hget h ((pos - 1) / 2))).
    + exists h. split; [reflexivity | apply meq_refl].
    + destruct (IH (hswap h pos ((pos - 1) / 2)) start ((pos - 1) / 2)) as [h' [E' M]]; try lia.
      * rewrite zlen_hswap. lia.
      * exists h'. split; [exact E'|]. eapply meq_trans; [exact M|]. apply hswap_meq; lia.
  - exists h. split; [reflexivity | apply meq_refl].
Qed.

Lemma sift_bottom_loop_ok : forall fuel h pos end_,
  0 <= pos -> pos < end_ -> end_ <= zlen h -> end_ - pos <= Z.of_nat fuel ->
  exists h' p, sift_bottom_loop fuel h pos end_ = Ok (h', p) /\ meq h' h /\ pos <= p < end_.
Proof.
  induction fuel as [|fuel IH]; intros h pos end_ H0 H1 H2 Hf; [lia|].
  cbn [sift_bottom_loop].
  destruct (2 * pos + 1 <=? Z.max 0 (end_ - 2)) eqn:Ec.
  - apply Z.leb_le in Ec.
    set (child := if item_le (hget h (2 * pos + 1)) (hget h (2 * pos + 1 + 1)) then 2 * pos + 1 + 1 else 2 * pos + 1).
    assert (Hc : pos < child /\ child < end_) by (unfold child; destruct (item_le _ _); lia).
    destruct (IH (hswap h pos child) child end_) as [h' [p [E [M Hp]]]]; try lia.
    + rewrite zlen_hswap. lia.
    + exists h', p. split; [exact E|]. split; [|lia]. eapply meq_trans; [exact M|]. apply hswap_meq; lia.
  - apply Z.leb_gt in Ec. destruct (2 * pos + 1 =? end_ - 1) eqn:Eb.
    + apply Z.eqb_eq in Eb. exists (hswap h pos (2 * pos + 1)), (2 * pos + 1).
      split; [reflexivity|]. split; [apply hswap_meq; lia | lia].
    + exists h, pos. split; [reflexivity|]. split; [apply meq_refl | lia].
Qed.

Lemma sift_down_to_bottom_ok h : 0 < zlen h -> exists h', sift_down_to_bottom h 0 = Ok h' /\ meq h' h.
Proof.
  intros H. unfold sift_down_to_bottom.
  destruct (sift_bottom_loop_ok (S (length h)) h 0 (zlen h)) as [h1 [p [E [M Hp]]]]; try lia.
  { unfold zlen. rewrite Nat2Z.inj_succ. lia. }
  rewrite E. cbn [bind].
  assert (Hl : zlen h1 = zlen h) by (unfold zlen; rewrite (meq_length _ _ M); reflexivity).
  destruct (sift_up_ok (S (length h)) h1 0 p) as [h2 [E2 M2]]; try lia.
  { unfold zlen in *. rewrite Nat2Z.inj_succ. lia. }
  exists h2. split; [exact E2 | eapply meq_trans; eassumption].
Qed.

(* pop on a non-empty heap *)
Lemma heap_pop_ok h : h <> [] -> exists x h', heap_pop h = Ok (Some (x, h')) /\ meq (x :: h') h.
Proof.
  intros Hne. unfold heap_pop.
  destruct (rev h) as [|last rinit] eqn:Er.
  { apply (f_equal (@rev item)) in Er. rewrite rev_involutive in Er. cbn in Er. contradiction. }
  assert (Eh : h = rev rinit ++ [last]).
  { apply (f_equal (@rev item)) in Er. rewrite rev_involutive in Er. exact Er. }
  destruct (rev rinit) as [|top tl] eqn:Ei.
  - exists last, []. split; [reflexivity|]. rewrite Eh. cbn [app]. apply meq_refl.
  - destruct (sift_down_to_bottom_ok (last :: tl)) as [h' [E M]].
    { rewrite zlen_cons. pose proof (zlen_nonneg tl). lia. }
    rewrite E. cbn [bind]. exists top, h'. split; [reflexivity|].
    intros g. rewrite Eh. cbn [map zsum app]. rewrite (M g). cbn [map zsum]. rewrite map_app, zsum_app. cbn [map zsum]. lia.
Qed.

Lemma rebuild_loop_ok : forall n h, Z.of_nat n <= zlen h -> exists h', rebuild_loop n h = Ok h' /\ meq h' h.
Proof.
  induction n as [|n IH]; intros h Hn; cbn [rebuild_loop].
  - exists h. split; [reflexivity | apply meq_refl].
  - destruct (sift_down_ok h (Z.of_nat n)) as [h1 [E M]]; [lia|].
    rewrite E. cbn [bind].
    destruct (IH h1) as [h2 [E2 M2]].
    { unfold zlen in *. rewrite (meq_length _ _ M). lia. }
    exists h2. split; [exact E2 | eapply meq_trans; eassumption].
Qed.

Lemma heap_from_vec_ok v : exists h, heap_from_vec v = Ok h /\ meq h v.
Proof.
  unfold heap_from_vec. apply rebuild_loop_ok. unfold zlen.
  pose proof (Nat.div2_decr (length v) (length v) (Nat.le_succ_diag_r _)). lia.
Qed.

Lemma heap_replace_top_ok y tl x : exists h', heap_replace_top (y :: tl) x = Ok h' /\ meq h' (x :: tl).
Proof.
  unfold heap_replace_top. destruct (1 <? zlen (x :: tl)).
  - apply sift_down_ok. rewrite zlen_cons. pose proof (zlen_nonneg tl). lia.
  - exists (x :: tl). split; [reflexivity | apply meq_refl].
Qed.
