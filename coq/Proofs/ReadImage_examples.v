(* Glue of read_image, part 10: the hypotheses of the theorems are satisfiable by concrete files (non-vacuity), and the model
   computes on them what the theorems say. *)
From Coq Require Import ZArith List Bool Lia.
From WebP Require Import Lib.Res Lib.ZBits Spec.Container Spec.YUV Model.Still.
From WebP Require Import Proofs.Container_bytes Proofs.ReadImage_base Proofs.ReadImage_container Proofs.ReadImage_lossless
  Proofs.ReadImage_lossy Proofs.ReadImage_wrap Proofs.ReadImage_safe.
From WebP Require Proofs.C01_top Proofs.ReadImage_frame Proofs.ReadImage_anim.
From WebP Require Import Model.ReadImage.
Import ListNotations.
Open Scope Z_scope.

(* ---- a 1 x 1 lossless file (the 8-byte stream of Properties/C01.v K.spec_decodes_a_stream), simple layout, no alpha ---- *)
Definition ex_vp8l : vp8l_data := {| l_w1 := 0; l_h1 := 0; l_alpha := false; l_rest := [0x88; 0x88; 0x08] |}.
Definition ex_ll : container := SimpleLossless ex_vp8l [].
Definition no_vp8 (_ : list Z) : res (Z * Z * list Z * list Z * list Z) := Err EBitStreamError.

Example read_image_lossless_instance :
  exists dec pixels, M.new (serialize ex_ll) = Ok dec /\ V.decode_rgba (vp8l_bytes ex_vp8l) = Some (1, 1, pixels) /\
    forall b0 b1 b2, read_image no_vp8 dec [b0; b1; b2] = (Ok tt, Some (drop_alpha pixels)).
Proof.
  destruct (V.decode_rgba (vp8l_bytes ex_vp8l)) as [[[w h] px]|] eqn:E; [|vm_compute in E; discriminate].
  assert (w = 1 /\ h = 1) as [-> ->] by (vm_compute in E; split; congruence).
  assert (Hwf : wf ex_ll = true) by (vm_compute; reflexivity).
  assert (Han : anim ex_ll = false) by reflexivity.
  assert (Hp : image_vp8l ex_ll = Some (vp8l_bytes ex_vp8l)) by reflexivity.
  assert (Hd : dims ex_ll = (1, 1)) by reflexivity.
  assert (Hc : C01_top.codes_in_format (vp8l_bytes ex_vp8l)) by (unfold C01_top.codes_in_format; rewrite E; vm_compute; discriminate).
  assert (Hf : forall s0, V.read_header (V.Stream [] (vp8l_bytes ex_vp8l)) = Some (1, 1, s0) -> C01_top.in_format 1 1 s0).
  { intros s0 Hs. vm_compute in Hs. injection Hs as <-. unfold C01_top.in_format, C01_top.F.stream_in_format. vm_compute. constructor. }
  destruct (read_image_lossless no_vp8 ex_ll (vp8l_bytes ex_vp8l) 1 1 px Hwf Han Hp Hd E Hc Hf) as (dec & Hnew & Hok & _).
  exists dec, px. split; [exact Hnew|]. split; [reflexivity|]. intros b0 b1 b2. apply (Hok [b0; b1; b2]). reflexivity.
Qed.

(* ---- a 2 x 1 lossy file in the extended layout: alpha flag, raw ALPH chunk with the horizontal filter, 'VP8 ' chunk.
        The frame decoder is a stub returning fixed planes (the theorems are parametric in it). ---- *)
Definition ex_v : vp8_data := {| v_tag := 0; v_width := 2; v_hscale := 0; v_height := 1; v_vscale := 0; v_rest := [1; 2; 3] |}.
Definition ex_a : alph_data := {| a_pre := 0; a_filter := 1; a_comp := 0; a_rest := [10; 5] |}.
Definition ex_x : vp8x :=
  {| x_rsv1 := 0; x_icc := false; x_alpha := true; x_exif := false; x_xmp := false; x_anim := false; x_rsv2 := 0;
     x_rsv3 := 0; x_w1 := 1; x_h1 := 0 |}.
Definition ex_ly : container := Extended ex_x [CALPH ex_a; CUnknown {| u_cc := [90; 90; 90; 90]; u_payload := [7] |}; CVP8 ex_v].
Definition stub_vp8 (_ : list Z) : res (Z * Z * list Z * list Z * list Z) := Ok (2, 1, [100; 200], [90], [160]).

Example read_image_lossy_instance :
  wf ex_ly = true /\ planes_ok 2 1 [100; 200] [90] [160] /\
  lossy_pixels ex_ly 2 1 [100; 200] [90] [160] = Some [149; 87; 21; 10; 255; 203; 138; 15] /\
  exists dec, M.new (serialize ex_ly) = Ok dec /\
    (forall buf, len buf = 8 -> read_image stub_vp8 dec buf = (Ok tt, Some [149; 87; 21; 10; 255; 203; 138; 15])) /\
    (forall buf, len buf <> 8 -> read_image stub_vp8 dec buf = (Err EImageTooLarge, Some buf)).
Proof.
  assert (Hpl : planes_ok 2 1 [100; 200] [90] [160]).
  { unfold planes_ok. repeat split; try lia; try reflexivity; repeat constructor; unfold byte; lia. }
  assert (Hwf : wf ex_ly = true) by (vm_compute; reflexivity).
  split; [exact Hwf|]. split; [exact Hpl|]. split; [vm_compute; reflexivity|].
  apply (read_image_lossy stub_vp8 ex_ly (vp8_bytes ex_v) 2 1 [100; 200] [90] [160]);
    [exact Hwf | reflexivity | reflexivity | reflexivity | reflexivity | exact Hpl | vm_compute; reflexivity |].
  intros _ a Ha. vm_compute in Ha. injection Ha as <-. intros Hc. vm_compute in Hc. discriminate.
Qed.

(* the same computed directly by the model (decoder from `new`, buffer of eight 0x5a bytes) *)
Example read_image_lossy_computed :
  match M.new (serialize ex_ly) with
  | Ok dec => read_image stub_vp8 dec (repeat 90 8) = (Ok tt, Some [149; 87; 21; 10; 255; 203; 138; 15])
              /\ read_image stub_vp8 dec (repeat 90 7) = (Err EImageTooLarge, Some (repeat 90 7))
  | _ => False
  end.
Proof. vm_compute. split; reflexivity. Qed.

(* the stub satisfies the safety link *)
Example stub_vp8_safe : vp8_safe stub_vp8.
Proof.
  intros data. unfold stub_vp8, planes_ok. repeat split; try lia; try reflexivity; repeat constructor; unfold byte; lia.
Qed.

(* ---- the witness of the finding repaired by df17279 (an unknown chunk between two ANMF chunks): with the fix, read_frame steps
        over the chunk -- both frames play, then NoMoreFrames; the same for the file with the unknown chunk at the end ---- *)
Definition ex_frame (dur : Z) : frame :=
  {| f_x := 0; f_y := 0; f_w1 := 1; f_h1 := 0; f_duration := dur; f_rsv := 0; f_noblend := true; f_dispose := false;
     f_image := FLossy None ex_v; f_unknown := [] |}.
Definition ex_xa : vp8x :=
  {| x_rsv1 := 0; x_icc := false; x_alpha := false; x_exif := false; x_xmp := false; x_anim := true; x_rsv2 := 0;
     x_rsv3 := 0; x_w1 := 1; x_h1 := 0 |}.
Definition ex_unknown : chunk := CUnknown {| u_cc := [90; 90; 90; 90]; u_payload := [7; 7] |}.
Definition ex_anim_gap : container := Extended ex_xa [CANIM [1; 2; 3; 4] 0; CANMF (ex_frame 70); ex_unknown; CANMF (ex_frame 80)].
Definition ex_anim_nogap : container := Extended ex_xa [CANIM [1; 2; 3; 4] 0; CANMF (ex_frame 70); CANMF (ex_frame 80); ex_unknown].

Example unknown_chunk_between_frames_plays :
  wf ex_anim_gap = true /\ wf ex_anim_nogap = true /\
  match M.new (serialize ex_anim_gap), M.new (serialize ex_anim_nogap) with
  | Ok dec, Ok dec' =>
      M.num_frames dec = 2 /\ M.num_frames dec' = 2 /\
      map fst (play stub_vp8 dec 3 (repeat 90 6)) = [Ok 70; Ok 80; Err ENoMoreFrames] /\
      play stub_vp8 dec 3 (repeat 90 6) = play stub_vp8 dec' 3 (repeat 90 6)
  | _, _ => False
  end.
Proof. vm_compute. repeat split; reflexivity. Qed.

(* the hypotheses of read_frame_from_file_spec hold for that file (stub frame decoder): every frame decodes per frame_decodes *)
Definition ex_rgb : list Z := rgb_plane 2 1 [100; 200] [90] [160].
Example read_frame_from_file_instance :
  exists dec, M.new (serialize ex_anim_gap) = Ok dec /\
    forall buf, len buf = 6 ->
      nth_error (play stub_vp8 dec 3 buf) 0%nat = Some (Ok 70, ex_rgb) /\
      nth_error (play stub_vp8 dec 3 buf) 1%nat = Some (Ok 80, ex_rgb) /\
      exists b, nth_error (play stub_vp8 dec 3 buf) 2%nat = Some (Err ENoMoreFrames, b).
Proof.
  assert (Hpl : planes_ok 2 1 [100; 200] [90] [160]).
  { unfold planes_ok. repeat split; try lia; try reflexivity; repeat constructor; unfold byte; lia. }
  assert (Hwf : wf ex_anim_gap = true) by (vm_compute; reflexivity).
  assert (Hfd : forall dur, ReadImage_anim.frame_decodes stub_vp8 2 1 (ex_frame dur) (ReadImage_frame.mframe_of (ex_frame dur) false ex_rgb)).
  { intros dur. unfold ReadImage_anim.frame_decodes. cbn [ex_frame f_w1 f_h1 f_x f_y f_image].
    repeat split; try lia; [vm_compute; discriminate|].
    exists [100; 200], [90], [160]. split; [reflexivity|]. split; [exact Hpl | reflexivity]. }
  destruct (ReadImage_anim.read_frame_from_file_spec stub_vp8 ex_anim_gap
              [ReadImage_frame.mframe_of (ex_frame 70) false ex_rgb; ReadImage_frame.mframe_of (ex_frame 80) false ex_rgb] Hwf eq_refl)
    as (dec & Hnew & _ & Hspec).
  - repeat constructor; apply Hfd.
  - vm_compute. reflexivity.
  - exists dec. split; [exact Hnew|]. intros buf Hl. destruct (Hspec buf Hl) as [Hk Hend].
    pose proof (Hk 0%nat ltac:(cbn; lia)) as H0. pose proof (Hk 1%nat ltac:(cbn; lia)) as H1. cbn [length] in H0, H1, Hend.
    split; [rewrite H0; vm_compute; reflexivity|]. split; [rewrite H1; vm_compute; reflexivity|]. exact Hend.
Qed.
