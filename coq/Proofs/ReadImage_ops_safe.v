(* Glue, part 14: no call of any call sequence on the decoder of a well-formed animated file whose frames decode panics, exhausts fuel,
   or fails with anything but NoMoreFrames (Proofs/Anim_history_safe.v carried to the decoder working on the file bytes, with the
   VP8 frame decoder instantiated by its model). *)
From Coq Require Import ZArith List Bool.
From WebP Require Import Lib.Res Spec.Container.
From WebP Require Model.Vp8Decode Model.Anim Proofs.Anim_play Proofs.Anim_history Proofs.Anim_history_safe Proofs.Container_fits.
From WebP Require Import Proofs.Container_bytes Proofs.ReadImage_anim Proofs.ReadImage_ops Proofs.VP8_decode_readimage Proofs.ReadImage_ops_closed.
From WebP Require Import Model.ReadImage Model.ReadImageOps.
Import ListNotations.
Open Scope Z_scope.

Definition ocall_clean (r : ores) : Prop :=
  match r with
  | RoFrame (Ok _) | RoFrame (Err ENoMoreFrames) | RoImage (Ok _) _ | RoReset (Ok _) | RoFill => True
  | _ => False
  end.

Lemma of_mres_clean r : Anim_history_safe.call_clean r -> ocall_clean (of_mres r).
Proof.
  destruct r as [[d|e|p|]|[u|e|p|]| |]; cbn; tauto.
Qed.

Theorem calls_never_fail_from_file_closed c ms :
  wf c = true -> anim c = true -> Forall2 (frame_decodes_spec (fst (dims c)) (snd (dims c))) (frames c) ms ->
  exists dec, M.new (serialize c) = Ok dec /\
    forall ops buf, len buf = buffer_size c ->
      Forall (fun rb => ocall_clean (fst rb)) (run_ops Vp8Decode.decode_frame dec ops (initial_fstate dec) buf).
Proof.
  intros Hwf Ha HF.
  destruct (run_ops_from_file_closed c ms Hwf Ha HF (Container_fits.wf_canvas_fits c Hwf)) as (Hvalid & dec & Hnew & Hrun).
  exists dec. split; [exact Hnew|]. intros ops buf Hl. rewrite (Hrun ops buf Hl).
  pose proof (Anim_history_safe.ops_clean_lemma (anim_file c ms) ops buf Hvalid Hl) as Hc.
  rewrite Forall_forall in Hc. apply Forall_forall. intros rb Hin. apply in_map_iff in Hin.
  destruct Hin as (mb & Heq & Hin). subst rb. unfold conv. cbn [fst]. apply of_mres_clean. exact (Hc mb Hin).
Qed.
