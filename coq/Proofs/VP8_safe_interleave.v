(* C03 for the VP8 key-frame decoder, part 8: the order of parsing and reconstruction is immaterial -- for EVERY payload.
   Model.Vp8Decode.decode_frame composes "all parsing, then all reconstruction"; the Rust text of decode_frame_ interleaves them
   per macroblock (read_macroblock_header, read_residual_data | skipped, intra_predict_luma, intra_predict_chroma, push).  The
   two could differ only if the reconstruction of an earlier macroblock panicked before a later parsing error was reached
   (Model/Vp8Decode.v, header comment).  Here the interleaved loop is written down (decode_frame_il: same functions of
   Model.Vp8Frame / Model.Vp8Recon, Rust order) and shown EQUAL to Vp8Decode.decode_frame on every byte string: reconstruction
   of a macroblock the parser has handed on never fails (recon_mb_safe: from the invariant rs_inv of the reconstruction state
   -- planes, top_border, left_border consistent with some reference planes -- and rec_ok of the record), so a parsing error
   in macroblock k is returned by both, and without one both run the same reconstruction steps. *)
From Coq Require Import ZArith NArith List Bool Lia.
From WebP Require Import Lib.Res Lib.ZBits Lib.Arr Spec.VP8 Model.Vp8Predict Model.Vp8Parse Model.Vp8Frame Model.Vp8Recon Model.Vp8Decode
  Proofs.VP8_predict_base Proofs.VP8_recon_base Proofs.VP8_recon_plane Proofs.VP8_recon_bytes Proofs.VP8_recon_mb Proofs.VP8_recon_frame
  Proofs.VP8_predict_border Proofs.VP8_frame_loop Proofs.VP8_decode_shape
  Proofs.VP8_safe_defs Proofs.VP8_safe_inv Proofs.VP8_safe_loop Proofs.VP8_safe_header Proofs.VP8_safe_recon_rel Proofs.VP8_safe_main.
From WebP Require Proofs.C15_model.
Import ListNotations.
Open Scope Z_scope.
Open Scope res_scope.
Ltac Zify.zify_post_hook ::= Z.div_mod_to_equations.

(* ------------------------------------------------------------------------------------------------------------ *)
(* 1. the reconstruction state between macroblocks                                                              *)
(* ------------------------------------------------------------------------------------------------------------ *)
(* self.left_border = vec![129u8; 1 + 16] *)
Definition reset_left (s : RState) : RState :=
  mkRS (rs_ybuf s) (rs_ubuf s) (rs_vbuf s) (rs_top_border s) (repeat 129 17) (rs_macroblocks s).

Definition rs_inv (h : RHdr) (mx my : Z) (s : RState) : Prop :=
  exists pl, planes_rel (rh_mbwidth h) (rh_mbheight h) pl s /\
             top_inv (pl_y pl) (rh_mbwidth h) mx my (rs_top_border s) /\ left_inv (pl_y pl) mx my (rs_left_border s).

Lemma recon_mb_safe h mx my mb bl s : 0 <= mx < rh_mbwidth h -> 0 <= my < rh_mbheight h -> rs_inv h mx my s -> rec_ok (mb, bl) ->
  exists s', Vp8Recon.recon_mb h mx my mb bl s = Ok s' /\ rs_inv h (mx + 1) my s'.
Proof.
  intros Hmx Hmy (pl & Hpl & Htop & Hleft) Hok. destruct (rec_ok_rels mb bl Hok) as (m & r & Hm & Hr & _).
  destruct (recon_mb_refines h (rh_mbheight h) pl mx my mb m r bl s Hmx Hmy Hpl Htop Hleft Hm Hr) as (s' & E & Hpl' & Ht' & Hl' & _).
  cbv zeta in *. exists s'. split; [exact E|]. eexists. split; [exact Hpl'|]. split; assumption.
Qed.

Lemma rs_inv_row_end h my s : rs_inv h (rh_mbwidth h) my s -> rs_inv h 0 (my + 1) (reset_left s).
Proof.
  intros (pl & Hpl & (L & B & _ & H4) & _). exists pl. split; [exact Hpl|]. split.
  - cbn [reset_left rs_top_border]. split; [exact L|]. split; [exact B|]. split.
    + intros x Hx. rewrite H4 by lia. f_equal. lia.
    + intros x Hx. lia.
  - cbn [reset_left rs_left_border]. split; [reflexivity|]. split; [apply bytes_repeat; unfold byte; lia|]. intros Hc. lia.
Qed.

Lemma rs_inv_init h : rhdr_ok h -> rs_inv h 0 0 (init_state h).
Proof.
  intros (Hw & Hh & Hmw & Hmh & _).
  assert (Hmw0 : 0 <= rh_mbwidth h) by (rewrite Hmw; apply Z.div_pos; lia).
  assert (Hmh0 : 0 <= rh_mbheight h) by (rewrite Hmh; apply Z.div_pos; lia).
  exists (mkPl (plane_make (rh_mbwidth h * 16) (rh_mbheight h * 16)) (plane_make (rh_mbwidth h * 8) (rh_mbheight h * 8))
               (plane_make (rh_mbwidth h * 8) (rh_mbheight h * 8)) true).
  split; [|split].
  - unfold planes_rel, init_state. cbn [pl_y pl_u pl_v rs_ybuf rs_ubuf rs_vbuf].
    split; [|split; [|split; [|split; [|split]]]]; try apply pbytes_make; apply prel_make; try lia; f_equal; ring.
  - unfold init_state. cbn [pl_y rs_top_border].
    assert (L : len (repeat 127 (Z.to_nat (rh_width h + 4 + 16))) = rh_width h + 20) by (unfold len; rewrite repeat_length; lia).
    split; [lia|]. split; [apply bytes_repeat; unfold byte; lia|]. split.
    + intros x Hx. rewrite get_repeat_in by lia. symmetry. apply pget_above. lia.
    + intros x Hx. lia.
  - unfold init_state. cbn [pl_y rs_left_border]. split; [reflexivity|]. split; [apply bytes_repeat; unfold byte; lia|]. intros Hc. lia.
Qed.

(* ------------------------------------------------------------------------------------------------------------ *)
(* 2. decode_frame_ in the order of the Rust text                                                               *)
(* ------------------------------------------------------------------------------------------------------------ *)
(* for mbx in .. { mb = read_macroblock_header; blocks = read_residual_data | skipped; intra_predict_luma; intra_predict_chroma; push } *)
Fixpoint il_row (h : RHdr) (n : nat) (mbx mby : Z) (v : Vp8) (p : Z) (acc : list (MacroBlock * list Z)) (s : RState)
  : res (list (MacroBlock * list Z) * Vp8 * RState) :=
  match n with
  | O => Ok (acc, v, s)
  | S k =>
    let* '(mb, blocks, v1) := parse_macroblock v mbx p in
    let* s1 := Vp8Recon.recon_mb h mbx mby mb blocks s in
    il_row h k (mbx + 1) mby v1 p ((mb, blocks) :: acc) s1
  end.

(* for mby in .. { p = mby % num_partitions; left = default; row; left_border = vec![129; 17] } *)
Fixpoint il_rows (h : RHdr) (n : nat) (mby : Z) (v : Vp8) (acc : list (MacroBlock * list Z)) (s : RState)
  : res (list (MacroBlock * list Z) * Vp8 * RState) :=
  match n with
  | O => Ok (acc, v, s)
  | S k =>
    let* p := usize_rem mby (v_num_partitions v) in
    let v := set_left v MacroBlock_default in
    let* '(acc1, v1, s1) := il_row h (Z.to_nat (v_mbwidth v)) 0 mby v p acc s in
    il_rows h k (mby + 1) v1 acc1 (reset_left s1)
  end.

(* the loop-filter pass and the crop, from the state the macroblock loop leaves (the tail of Vp8Recon.decode_frame_recon) *)
Definition finish (h : RHdr) (s : RState) : res (list Z * list Z * list Z) :=
  let* '(y, u, v) := filter_frame h (rs_macroblocks s) (rs_ybuf s, rs_ubuf s, rs_vbuf s) in
  let* cw := chroma_size (rh_width h) in
  let* ch := chroma_size (rh_height h) in
  let* fy := crop_plane y (rh_mbwidth h * 16) (rh_width h) (rh_height h) in
  let* fu := crop_plane u (rh_mbwidth h * 8) cw ch in
  let* fv := crop_plane v (rh_mbwidth h * 8) cw ch in
  Ok (fy, fu, fv).

Definition decode_frame_il (payload : list Z) : res (Z * Z * list Z * list Z * list Z) :=
  let* v0 := Vp8_new payload in
  let* v := read_frame_header v0 in
  let h := recon_header v in
  let* '(_, _, s) := il_rows h (Z.to_nat (v_mbheight v)) 0 v [] (init_state h) in
  let* '(y, u, vv) := finish h s in
  Ok (rh_width h, rh_height h, y, u, vv).

Lemma planes_finish h inp s : Vp8Recon.reconstruct h inp = Ok s -> decode_frame_planes h inp = finish h s.
Proof.
  intros E. unfold decode_frame_planes, decode_frame_recon, finish. rewrite E. cbn [bind].
  destruct (filter_frame h (rs_macroblocks s) (rs_ybuf s, rs_ubuf s, rs_vbuf s)) as [[[y u] v]| | |]; cbn [bind]; try reflexivity.
  destruct (chroma_size (rh_width h)) as [cw| | |]; cbn [bind]; try reflexivity.
  destruct (chroma_size (rh_height h)) as [ch| | |]; cbn [bind]; try reflexivity.
  destruct (crop_plane y (rh_mbwidth h * 16) (rh_width h) (rh_height h)) as [fy| | |]; cbn [bind]; try reflexivity.
  destruct (crop_plane u (rh_mbwidth h * 8) cw ch) as [fu| | |]; cbn [bind]; try reflexivity.
  destruct (crop_plane v (rh_mbwidth h * 8) cw ch) as [fv| | |]; cbn [bind]; reflexivity.
Qed.

(* ------------------------------------------------------------------------------------------------------------ *)
(* 3. the interleaved loops against "parse the row(s), then reconstruct the row(s)"                             *)
(* ------------------------------------------------------------------------------------------------------------ *)
Lemma il_row_spec h mby n : forall mbx v p acc s,
  vp8_inv v -> v_mbwidth v = rh_mbwidth h -> 0 <= mbx -> mbx + Z.of_nat n = rh_mbwidth h -> 0 <= p < v_num_partitions v ->
  0 <= mby < rh_mbheight h -> rs_inv h mbx mby s ->
  match parse_mb_row n mbx v p acc with
  | Ok (acc', v') =>
    exists new s', acc' = rev new ++ acc /\ Forall mbout_ok new /\ length new = n /\
      il_row h n mbx mby v p acc s = Ok (acc', v', s') /\
      (forall rest, Vp8Recon.recon_row h n mbx mby (new ++ rest) s = Ok (rest, s')) /\
      rs_inv h (rh_mbwidth h) mby s' /\ vp8_inv v' /\ same_hdr v v'
  | Err e => il_row h n mbx mby v p acc s = Err e
  | Panic _ | OutOfFuel => False
  end.
Proof.
  induction n as [|n IH]; intros mbx v p acc s Hinv Hmw Hmbx Hn Hp Hmby Hrs; cbn [parse_mb_row il_row].
  - exists [], s. cbn [rev app length Vp8Recon.recon_row]. split; [reflexivity|]. split; [constructor|]. split; [reflexivity|].
    split; [reflexivity|]. split; [reflexivity|]. split; [replace (rh_mbwidth h) with mbx by lia; exact Hrs|].
    split; [exact Hinv | apply same_hdr_refl].
  - destruct (parse_macroblock_safe v mbx p Hinv ltac:(lia) Hp) as [(e & E) | (mb & blocks & v1 & E & Hinv1 & Hsame & Hout)];
      rewrite E; cbn [bind]; [reflexivity|].
    destruct (same_hdr_fields _ _ Hsame) as (Enp & Emw & _).
    destruct (recon_mb_safe h mbx mby mb blocks s ltac:(lia) Hmby Hrs (mbout_rec_ok _ Hout)) as (s1 & E1 & Hrs1).
    rewrite E1. cbn [bind].
    specialize (IH (mbx + 1) v1 p ((mb, blocks) :: acc) s1 Hinv1 ltac:(lia) ltac:(lia) ltac:(lia) ltac:(lia) Hmby Hrs1).
    destruct (parse_mb_row n (mbx + 1) v1 p ((mb, blocks) :: acc)) as [[acc' v']|e|q|]; try exact IH.
    destruct IH as (new & s' & Eacc & Hnew & Lnew & Eil & Erec & Hrs' & Hinv' & Hsame').
    exists ((mb, blocks) :: new), s'. cbn [rev length].
    split; [rewrite <- app_assoc; exact Eacc|]. split; [constructor; assumption|]. split; [lia|]. split; [exact Eil|].
    split; [|split; [exact Hrs'|split; [exact Hinv' | eapply same_hdr_trans; eassumption]]].
    intros rest. cbn [app Vp8Recon.recon_row]. rewrite E1. cbn [bind]. apply Erec.
Qed.

Lemma il_rows_spec h n : forall mby v acc s,
  vp8_inv v -> v_mbwidth v = rh_mbwidth h -> 0 <= rh_mbwidth h -> 0 <= mby -> mby + Z.of_nat n = rh_mbheight h -> rs_inv h 0 mby s ->
  match parse_mb_rows n mby v acc with
  | Ok (acc', v') =>
    exists new s', acc' = rev new ++ acc /\ Forall mbout_ok new /\
      il_rows h n mby v acc s = Ok (acc', v', s') /\ Vp8Recon.recon_rows h n mby new s = Ok s' /\ same_hdr v v'
  | Err e => il_rows h n mby v acc s = Err e
  | Panic _ | OutOfFuel => False
  end.
Proof.
  induction n as [|n IH]; intros mby v acc s Hinv Hmw Hmw0 Hmby Hn Hrs; cbn [parse_mb_rows il_rows].
  - exists [], s. cbn [rev app Vp8Recon.recon_rows]. split; [reflexivity|]. split; [constructor|]. split; [reflexivity|].
    split; [reflexivity | apply same_hdr_refl].
  - pose proof (inv_np v Hinv) as Hnp.
    unfold usize_rem. destruct (Z.eqb_spec (v_num_partitions v) 0) as [E0 | _]; [lia|]. cbn [bind].
    assert (Hp : 0 <= mby mod v_num_partitions v < v_num_partitions v) by (apply Z.mod_pos_bound; lia).
    set (v0 := set_left v MacroBlock_default).
    assert (Hinv0 : vp8_inv v0) by (apply inv_set_left; [exact Hinv | exact default_top_ok]).
    assert (Hs0 : same_hdr v v0) by apply same_hdr_set_left.
    destruct (same_hdr_fields _ _ Hs0) as (Enp0 & Emw0 & _).
    pose proof (il_row_spec h mby (Z.to_nat (v_mbwidth v0)) 0 v0 (mby mod v_num_partitions v) acc s Hinv0 ltac:(lia) ltac:(lia) ltac:(lia)
                  ltac:(lia) ltac:(lia) Hrs) as R.
    destruct (parse_mb_row (Z.to_nat (v_mbwidth v0)) 0 v0 (mby mod v_num_partitions v) acc) as [[acc1 v1]|e|q|]; cbn [bind];
      [|rewrite R; reflexivity|exact R|exact R].
    destruct R as (new1 & s1 & Eacc1 & Hnew1 & Lnew1 & Eil1 & Erec1 & Hrs1 & Hinv1 & Hsame1).
    rewrite Eil1. cbn [bind].
    destruct (same_hdr_fields _ _ Hsame1) as (Enp1 & Emw1 & _).
    specialize (IH (mby + 1) v1 acc1 (reset_left s1) Hinv1 ltac:(lia) Hmw0 ltac:(lia) ltac:(lia) (rs_inv_row_end h mby s1 Hrs1)).
    destruct (parse_mb_rows n (mby + 1) v1 acc1) as [[acc' v']|e|q|]; try exact IH.
    destruct IH as (new2 & s' & Eacc & Hnew2 & Eil & Erec & Hsame').
    exists (new1 ++ new2), s'.
    split; [rewrite rev_app_distr, <- app_assoc, <- Eacc1; exact Eacc|]. split; [apply Forall_app; split; assumption|]. split; [exact Eil|].
    split; [|eapply same_hdr_trans; [exact Hs0 | eapply same_hdr_trans; eassumption]].
    cbn [Vp8Recon.recon_rows]. replace (Z.to_nat (rh_mbwidth h)) with (Z.to_nat (v_mbwidth v0)) by lia.
    rewrite Erec1. cbn [bind]. exact Erec.
Qed.

(* ------------------------------------------------------------------------------------------------------------ *)
(* 4. the theorem                                                                                               *)
(* ------------------------------------------------------------------------------------------------------------ *)
Theorem decode_interleaved_eq : forall data, Forall byte data -> C15_model.len data < 2 ^ 63 ->
  decode_frame_il data = Vp8Decode.decode_frame data.
Proof.
  intros data Hb Hl. unfold decode_frame_il, Vp8Decode.decode_frame, parse_frame.
  destruct (read_frame_header_safe data Hb Hl) as (v0 & Enew & [(e & E) | (v & E & Hinv & Hhdr)]); rewrite Enew; cbn [bind]; rewrite E; cbn [bind];
    [reflexivity|].
  pose proof Hhdr as (Hw & Hh & Hmw & Hmh & _). unfold rhdr_of_vp8 in Hw, Hh, Hmw, Hmh. cbn [rh_width rh_height rh_mbwidth rh_mbheight] in Hw, Hh, Hmw, Hmh.
  assert (Hmw0 : 0 <= v_mbwidth v) by (rewrite Hmw; apply Z.div_pos; lia).
  assert (Hmh0 : 0 <= v_mbheight v) by (rewrite Hmh; apply Z.div_pos; lia).
  unfold recon_header.
  pose proof (il_rows_spec (rhdr_of_vp8 v) (Z.to_nat (v_mbheight v)) 0 v [] (init_state (rhdr_of_vp8 v)) Hinv eq_refl Hmw0 ltac:(lia)
                ltac:(unfold rhdr_of_vp8; cbn [rh_mbheight]; lia) (rs_inv_init _ Hhdr)) as R.
  unfold parse_frame_loop.
  destruct (parse_mb_rows (Z.to_nat (v_mbheight v)) 0 v []) as [[acc' v']|e|q|]; cbn [bind];
    [|rewrite R; reflexivity|contradiction|contradiction].
  destruct R as (new & s' & Eacc & _ & Eil & Erec & Hsame).
  rewrite Eil. cbn [bind].
  pose proof (same_hdr_recon v v' Hsame) as Ehdr. unfold recon_header in Ehdr. rewrite Ehdr.
  assert (Enew' : rev_append acc' [] = new) by (rewrite rev_append_rev, app_nil_r, Eacc, app_nil_r; apply rev_involutive).
  rewrite Enew'.
  rewrite (planes_finish (rhdr_of_vp8 v) new s') by exact Erec.
  destruct (finish (rhdr_of_vp8 v) s') as [[[y u] vv]| | |]; reflexivity.
Qed.

(* hence the interleaved loop -- the order of the Rust text -- never panics either *)
Corollary decode_interleaved_never_panics : forall data, Forall byte data -> C15_model.len data < 2 ^ 63 ->
  (forall p, decode_frame_il data <> Panic p) /\ decode_frame_il data <> OutOfFuel.
Proof. intros data Hb Hl. rewrite (decode_interleaved_eq data Hb Hl). apply vp8_decode_never_panics; assumption. Qed.
