From Coq Require Import ZArith List Lia Arith.
From WebP Require Import Model.Still.
Import ListNotations.
Open Scope Z_scope.

Lemma list_ind4 {A} (P : list A -> Prop) :
  P [] -> (forall a, P [a]) -> (forall a b, P [a; b]) -> (forall a b c, P [a; b; c]) ->
  (forall a b c d l, P l -> P (a :: b :: c :: d :: l)) -> forall l, P l.
Proof.
  intros H0 H1 H2 H3 H4. fix IH 1. intros [|a [|b [|c [|d l]]]]; [exact H0 | apply H1 | apply H2 | apply H3 | apply H4, IH].
Qed.

(* three-channel output = four-channel output with alpha dropped, whatever the destination held *)
Lemma drop_alpha_into_spec : forall data buf n, length data = (4 * n)%nat -> length buf = (3 * n)%nat ->
  drop_alpha_into data buf = drop_alpha data.
Proof.
  intros data. induction data as [|a|a b|a b c|r g b a data IH] using list_ind4; intros buf n Hd Hb;
    cbn [length] in Hd; try lia.
  - destruct n; [|lia]. destruct buf; [reflexivity | cbn [length] in Hb; lia].
  - destruct n as [|n]; [lia|]. destruct buf as [|x [|y [|z buf]]]; cbn [length] in Hb; try lia.
    cbn [drop_alpha_into drop_alpha]. do 3 f_equal. apply (IH buf n); lia.
Qed.

Lemma drop_alpha_length : forall data n, length data = (4 * n)%nat -> length (drop_alpha data) = (3 * n)%nat.
Proof.
  intros data. induction data as [|a|a b|a b c|r g b a data IH] using list_ind4; intros n Hd; cbn [length] in Hd; try lia.
  - destruct n; [reflexivity | lia].
  - destruct n as [|n]; [lia|]. cbn [drop_alpha length]. rewrite (IH n) by lia. lia.
Qed.
