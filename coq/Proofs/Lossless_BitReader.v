(* The bit reservoir of the VP8L decoder (Model/BitReader.v, DESIGN.md Appendix A2; lemma a. of C01, first theorem of C10).

   The unread part of the input is one integer `s` whose binary expansion, least significant bit first, is the
   bit stream still to be delivered.  `R s r` relates a reader state to it:
     - bits [0, nbits) of `buffer` are the next `nbits` stream bits,
     - every set bit of `buffer` (also above `nbits`) is a set bit of the stream and lies below 64
       ("bits above nbits are zero or look-ahead"),
     - the stream from bit `nbits` on is the little-endian value of the bytes the reader still holds.
   Both refill paths of `fill` preserve `R s` and produce the same `(nbits, remaining bytes)`, which are a
   function of the old `(nbits, remaining bytes)` alone; `consume n` turns `s` into `s / 2^n`; `peek n`
   with `n <= nbits` is `s mod 2^n`.  Hence a script of fill / read_bits / consume / take operations has the same
   observable result as a schedule-free specification machine: results do not depend on the reader's chunking. *)
From Coq Require Import ZArith List Bool Lia.
From WebP Require Import Lib.Res Lib.ZBits Lib.Sweep Model.BitReader.
Import ListNotations.
Open Scope Z_scope.

Ltac Zify.zify_post_hook ::= Z.div_mod_to_equations.

(* little-endian value of a byte list *)
Fixpoint V (l : list Z) : Z := match l with [] => 0 | b :: tl => b + 256 * V tl end.

Lemma V_nonneg l : Forall byte l -> 0 <= V l.
Proof. induction 1 as [|b tl Hb _ IH]; cbn [V]; unfold byte in *; lia. Qed.

(* ---------- bits of b + 256 x ---------- *)
Lemma byte_high_bits b j : byte b -> 8 <= j -> Z.testbit b j = false.
Proof.
  intros Hb Hj. unfold byte in Hb. destruct (Z.eq_dec b 0) as [->|Hne]; [apply Z.bits_0|].
  apply Z.bits_above_log2; [lia|]. apply Z.lt_le_trans with 8; [|lia].
  apply Z.log2_lt_pow2; [lia|]. change (2 ^ 8) with 256. lia.
Qed.

Lemma testbit_cons b x j : byte b -> 0 <= j ->
  Z.testbit (b + 256 * x) j = if j <? 8 then Z.testbit b j else Z.testbit x (j - 8).
Proof.
  intros Hb Hj. replace (b + 256 * x) with (Z.lor b (x * 2 ^ 8)).
  2:{ rewrite lor_low_high; [change (2 ^ 8) with 256; lia | lia | unfold byte in Hb; change (2 ^ 8) with 256; lia]. }
  rewrite Z.lor_spec. rewrite <- Z.shiftl_mul_pow2 by lia. rewrite Z.shiftl_spec by lia.
  destruct (j <? 8) eqn:E.
  - apply Z.ltb_lt in E. rewrite (Z.testbit_neg_r x (j - 8)) by lia. apply orb_false_r.
  - apply Z.ltb_ge in E. rewrite byte_high_bits by (auto; lia). reflexivity.
Qed.

Lemma le_bytes_bits m : forall l j, Forall byte l -> 0 <= j ->
  Z.testbit (le_bytes m l) j = (j <? 8 * Z.of_nat m) && Z.testbit (V l) j.
Proof.
  induction m as [|m IH]; intros l j Hl Hj.
  - cbn [le_bytes]. rewrite Z.bits_0. destruct (j <? 8 * Z.of_nat 0) eqn:E; [apply Z.ltb_lt in E; lia | reflexivity].
  - destruct l as [|b tl].
    + cbn [le_bytes V]. rewrite Z.bits_0. symmetry. apply andb_false_r.
    + cbn [le_bytes V]. inversion Hl as [|? ? Hb Htl]; subst.
      rewrite !testbit_cons by assumption.
      destruct (j <? 8) eqn:E.
      * apply Z.ltb_lt in E. replace (j <? 8 * Z.of_nat (S m)) with true by (symmetry; apply Z.ltb_lt; lia). reflexivity.
      * apply Z.ltb_ge in E. rewrite IH by (auto; lia).
        replace (j - 8 <? 8 * Z.of_nat m) with (j <? 8 * Z.of_nat (S m)); [reflexivity|].
        destruct (j <? 8 * Z.of_nat (S m)) eqn:E1; symmetry; [apply Z.ltb_lt in E1; apply Z.ltb_lt | apply Z.ltb_ge in E1; apply Z.ltb_ge]; lia.
Qed.

Lemma V_skipn k : forall l, Forall byte l -> (k <= length l)%nat -> Z.shiftr (V l) (8 * Z.of_nat k) = V (skipn k l).
Proof.
  induction k as [|k IH]; intros l Hl Hk.
  - cbn [skipn]. change (8 * Z.of_nat 0) with 0. apply Z.shiftr_0_r.
  - destruct l as [|b tl]; [cbn in Hk; lia|]. inversion Hl as [|? ? Hb Htl]; subst.
    cbn [skipn V]. cbn [length] in Hk.
    replace (8 * Z.of_nat (S k)) with (8 + 8 * Z.of_nat k) by lia.
    rewrite <- Z.shiftr_shiftr by lia. rewrite <- IH by (auto; lia). f_equal.
    rewrite Z.shiftr_div_pow2 by lia. change (2 ^ 8) with 256. unfold byte in Hb. lia.
Qed.

Lemma Forall_skipn {A} (P : A -> Prop) k : forall l, Forall P l -> Forall P (skipn k l).
Proof. induction k; intros l H; [exact H|]. destruct l; [constructor|]. inversion H; subst. cbn [skipn]. auto. Qed.

(* ---------- the invariant ---------- *)
Definition R (s : Z) (r : t) : Prop :=
  0 <= nbits r < 64 /\ 0 <= buffer r /\ Forall byte (data r) /\ 0 <= s /\
  Z.shiftr s (nbits r) = V (data r) /\
  (forall i, 0 <= i < nbits r -> Z.testbit (buffer r) i = Z.testbit s i) /\
  (forall i, 0 <= i -> Z.testbit (buffer r) i = true -> Z.testbit s i = true /\ i < 64).

Lemma R_init d sch : Forall byte d -> R (V d) (init d sch).
Proof.
  intros Hd. unfold R, init. cbn [nbits buffer data].
  split; [lia|]. split; [lia|]. split; [assumption|]. split; [apply V_nonneg; assumption|].
  split; [apply Z.shiftr_0_r|]. split.
  - intros i Hi. lia.
  - intros i Hi H0. rewrite Z.bits_0 in H0. discriminate.
Qed.

(* OR-ing into the buffer a word M whose set bits are stream bits in [n, 64) and which covers the stream on
   [n, n'), while the reader advances to the bytes that start at stream bit n' *)
Lemma R_refill s d d' sch sch' B n n' M :
  R s (mk d sch B n) -> n <= n' < 64 -> 0 <= M -> Forall byte d' ->
  Z.shiftr s n' = V d' ->
  (forall i, 0 <= i -> Z.testbit M i = true -> n <= i < 64 /\ Z.testbit s i = true) ->
  (forall i, n <= i < n' -> Z.testbit s i = true -> Z.testbit M i = true) ->
  R s (mk d' sch' (Z.lor B M) n').
Proof.
  intros (Hn & HB & Hd & Hs & Hsh & Hlow & Hsub) Hn' HM Hd' Hsh' HM1 HM2. cbn [nbits buffer data] in *.
  unfold R. cbn [nbits buffer data]. repeat split; try lia; auto.
  - apply Z.lor_nonneg. split; assumption.
  - intros i Hi. rewrite Z.lor_spec.
    destruct (Z.testbit B i) eqn:EB.
    + destruct (Hsub i ltac:(lia) EB) as [Hsi _]. rewrite Hsi. reflexivity.
    + cbn [orb]. destruct (Z.testbit M i) eqn:EM.
      * destruct (HM1 i ltac:(lia) EM) as [_ Hsi]. rewrite Hsi. reflexivity.
      * destruct (Z.testbit s i) eqn:Es; [|reflexivity].
        destruct (Z_lt_ge_dec i n) as [Hlt|Hge].
        -- rewrite <- (Hlow i ltac:(lia)) in Es. congruence.
        -- rewrite (HM2 i ltac:(lia) Es) in EM. discriminate.
  - rewrite Z.lor_spec in H0. apply orb_true_iff in H0. destruct H0 as [H0|H0].
    + apply (Hsub i H H0).
    + apply (HM1 i H H0).
  - rewrite Z.lor_spec in H0. apply orb_true_iff in H0. destruct H0 as [H0|H0].
    + apply (Hsub i H H0).
    + destruct (HM1 i H H0); lia.
Qed.

(* the byte-at-a-time path *)
Lemma fill_slow_R s : forall d sch B n, R s (mk d sch B n) -> R s (fill_slow d sch B n).
Proof.
  induction d as [|b tl IH]; intros sch B n HR; cbn [fill_slow]; [exact HR|].
  destruct (n <? 56) eqn:E; [|exact HR]. apply Z.ltb_lt in E.
  apply IH.
  pose proof HR as (Hn & HB & Hd & Hs & Hsh & Hlow & Hsub). cbn [nbits buffer data] in *.
  inversion Hd as [|? ? Hb Htl]; subst.
  assert (Hbits : forall j, 0 <= j < 8 -> Z.testbit b j = Z.testbit s (j + n)).
  { intros j Hj. rewrite <- Z.shiftr_spec by lia. rewrite Hsh. cbn [V]. rewrite testbit_cons by (auto; lia).
    replace (j <? 8) with true by (symmetry; apply Z.ltb_lt; lia). reflexivity. }
  apply (R_refill s (b :: tl) tl sch (List.tl sch) B n (n + 8) (Z.shiftl b n)); auto; try lia.
  - apply Z.shiftl_nonneg. unfold byte in Hb. lia.
  - rewrite <- Z.shiftr_shiftr by lia. rewrite Hsh. cbn [V].
    rewrite Z.shiftr_div_pow2 by lia. change (2 ^ 8) with 256. unfold byte in Hb. lia.
  - intros i Hi Ht. rewrite Z.shiftl_spec in Ht by lia.
    assert (0 <= i - n) by (destruct (Z_lt_ge_dec (i - n) 0); [rewrite Z.testbit_neg_r in Ht by lia; discriminate | lia]).
    assert (i - n < 8) by (destruct (Z_lt_ge_dec (i - n) 8); [lia | rewrite byte_high_bits in Ht by (auto; lia); discriminate]).
    rewrite Hbits in Ht by lia. replace (i - n + n) with i in Ht by lia. split; [lia | exact Ht].
  - intros i Hi Ht. rewrite Z.shiftl_spec by lia. rewrite Hbits by lia. replace (i - n + n) with i by lia. exact Ht.
Qed.

(* n | 56 = n + 8 * ((63 - n) / 8) for n < 64 *)
Lemma lor56_sweep :
  forallb (fun n => Z.lor n 56 =? n + 8 * ((63 - n) / 8)) (zrange 64 0) = true.
Proof. vm_compute. reflexivity. Qed.
Lemma lor56 n : 0 <= n < 64 -> Z.lor n 56 = n + 8 * ((63 - n) / 8).
Proof. intros H. apply Z.eqb_eq. apply (forallb_zrange _ 64 0 lor56_sweep). cbn. lia. Qed.

Lemma has8_length l : has8 l = true -> (8 <= length l)%nat.
Proof. do 8 (destruct l as [|? l]; [discriminate|]). intros _. cbn [length]. lia. Qed.

(* the 8-byte look-ahead path *)
Lemma fill_fast_R s d sch sch' B n :
  R s (mk d sch B n) -> has8 d = true ->
  R s (mk (skipn (Z.to_nat ((63 - n) / 8)) d) sch'
          (Z.lor B (Z.land (Z.shiftl (le_bytes 8 d) n) (Z.ones 64))) (Z.lor n 56)).
Proof.
  intros HR H8. pose proof HR as (Hn & HB & Hd & Hs & Hsh & Hlow & Hsub). cbn [nbits buffer data] in *.
  apply has8_length in H8. rewrite lor56 by lia.
  set (k := Z.to_nat ((63 - n) / 8)).
  assert (Hk : 8 * ((63 - n) / 8) = 8 * Z.of_nat k) by (unfold k; rewrite Z2Nat.id; lia).
  assert (Hk7 : (k <= 7)%nat) by (unfold k; lia).
  rewrite Hk.
  assert (HL : forall j, 0 <= j -> Z.testbit (le_bytes 8 d) j = (j <? 64) && Z.testbit s (j + n)).
  { intros j Hj. rewrite le_bytes_bits by (auto; lia). change (8 * Z.of_nat 8) with 64.
    rewrite <- Hsh. rewrite Z.shiftr_spec by lia. reflexivity. }
  assert (HMbits : forall i, 0 <= i -> Z.testbit (Z.land (Z.shiftl (le_bytes 8 d) n) (Z.ones 64)) i
                                 = (n <=? i) && (i - n <? 64) && Z.testbit s i && (i <? 64)).
  { intros i Hi. rewrite Z.land_spec, Z.shiftl_spec by lia. rewrite Z.testbit_ones by lia.
    replace (0 <=? i) with true by (symmetry; apply Z.leb_le; lia). cbn [andb].
    destruct (n <=? i) eqn:E.
    - apply Z.leb_le in E. rewrite HL by lia. replace (i - n + n) with i by lia. reflexivity.
    - apply Z.leb_gt in E. rewrite Z.testbit_neg_r by lia. reflexivity. }
  apply (R_refill s d (skipn k d) sch sch' B n (n + 8 * Z.of_nat k)); auto; try lia.
  - apply Z.land_nonneg. right. unfold Z.ones. cbn. lia.
  - apply Forall_skipn. assumption.
  - rewrite <- Z.shiftr_shiftr by lia. rewrite Hsh. apply V_skipn; [assumption | lia].
  - intros i Hi Ht. rewrite HMbits in Ht by lia.
    apply andb_true_iff in Ht. destruct Ht as [Ht H64]. apply andb_true_iff in Ht. destruct Ht as [Ht Hsi].
    apply andb_true_iff in Ht. destruct Ht as [Hni _]. apply Z.leb_le in Hni. apply Z.ltb_lt in H64. auto.
  - intros i Hi Ht. rewrite HMbits by lia. rewrite Ht.
    replace (n <=? i) with true by (symmetry; apply Z.leb_le; lia).
    replace (i - n <? 64) with true by (symmetry; apply Z.ltb_lt; lia).
    replace (i <? 64) with true by (symmetry; apply Z.ltb_lt; lia). reflexivity.
Qed.

(* ---------- what fill does to (nbits, remaining bytes): the same on both paths ---------- *)
Definition need (n : Z) : nat := Z.to_nat ((63 - n) / 8).
Definition fill_nd (n : Z) (d : list Z) : Z * list Z :=
  let k := Nat.min (need n) (length d) in (n + 8 * Z.of_nat k, skipn k d).

Lemma fill_slow_nd : forall d sch B n,
  let r := fill_slow d sch B n in (nbits r, data r) = fill_nd n d.
Proof.
  induction d as [|b tl IH]; intros sch B n; cbn [fill_slow].
  - cbn [nbits data]. unfold fill_nd. cbn [length]. rewrite Nat.min_0_r. cbn [skipn]. f_equal. lia.
  - destruct (n <? 56) eqn:E.
    + apply Z.ltb_lt in E. specialize (IH (List.tl sch) (Z.lor B (Z.shiftl b n)) (n + 8)). cbn zeta in IH. rewrite IH.
      unfold fill_nd. assert (Hneed : need n = S (need (n + 8))) by (unfold need; lia).
      rewrite Hneed. cbn [length]. rewrite <- Nat.succ_min_distr. cbn [skipn]. f_equal. lia.
    + apply Z.ltb_ge in E. cbn [nbits data]. unfold fill_nd.
      assert (Hneed : need n = 0%nat) by (unfold need; lia). rewrite Hneed. cbn [Nat.min skipn]. f_equal. lia.
Qed.

Lemma fill_ok s r : R s r -> exists r', fill r = Ok r' /\ R s r' /\ (nbits r', data r') = fill_nd (nbits r) (data r).
Proof.
  intros HR. pose proof HR as (Hn & HB & Hd & Hs & Hsh & Hlow & Hsub).
  unfold fill. replace (64 <=? nbits r) with false by (symmetry; apply Z.leb_gt; lia).
  destruct r as [d sch B n]. cbn [nbits buffer data BitReader.sched] in *.
  destruct (window_ge8 d sch) eqn:EW.
  - unfold window_ge8 in EW. apply andb_true_iff in EW. destruct EW as [H8 _].
    eexists. split; [reflexivity|]. split.
    + apply (fill_fast_R s d sch (List.tl sch) B n); assumption.
    + cbn [nbits data]. unfold fill_nd. rewrite lor56 by lia.
      pose proof (has8_length _ H8) as Hlen.
      assert (Hmin : Nat.min (need n) (length d) = need n) by (apply Nat.min_l; unfold need; lia).
      rewrite Hmin. unfold need. f_equal. rewrite Z2Nat.id; lia.
  - eexists. split; [reflexivity|]. split.
    + apply fill_slow_R. exact HR.
    + apply fill_slow_nd.
Qed.

(* A2 (iv): after fill at least 56 bits are valid or the reader is exhausted *)
Lemma fill_nd_post n d : 0 <= n < 64 -> 56 <= fst (fill_nd n d) \/ snd (fill_nd n d) = [].
Proof.
  intros Hn. unfold fill_nd. cbn [fst snd].
  destruct (Nat.le_gt_cases (need n) (length d)) as [Hle|Hgt].
  - left. rewrite Nat.min_l by assumption. unfold need. rewrite Z2Nat.id; lia.
  - right. rewrite Nat.min_r by lia. apply skipn_all.
Qed.

Theorem fill_post s r r' : R s r -> fill r = Ok r' -> R s r' /\ (56 <= nbits r' \/ data r' = []).
Proof.
  intros HR Hf. destruct (fill_ok s r HR) as (r'' & Hf' & HR' & Hnd). rewrite Hf in Hf'. injection Hf' as <-.
  split; [assumption|]. pose proof (fill_nd_post (nbits r) (data r)) as H. rewrite <- Hnd in H. cbn [fst snd] in H.
  apply H. destruct HR as (Hn & _). exact Hn.
Qed.

(* both refill paths: two readers that hold the same stream position (same nbits, same remaining bytes, same
   stream) but differ in schedule and in the stale bits above nbits end up, after fill, with the same
   (nbits, position) and the same valid bits *)
Theorem fill_paths_agree s r1 r2 r1' r2' :
  R s r1 -> R s r2 -> nbits r1 = nbits r2 -> data r1 = data r2 -> fill r1 = Ok r1' -> fill r2 = Ok r2' ->
  nbits r1' = nbits r2' /\ data r1' = data r2' /\
  (buffer r1') mod 2 ^ (nbits r1') = (buffer r2') mod 2 ^ (nbits r2') /\ R s r1' /\ R s r2'.
Proof.
  intros H1 H2 Hn Hd F1 F2.
  destruct (fill_ok s r1 H1) as (x1 & E1 & R1 & N1). destruct (fill_ok s r2 H2) as (x2 & E2 & R2 & N2).
  rewrite F1 in E1. rewrite F2 in E2. injection E1 as <-. injection E2 as <-.
  rewrite Hn, Hd in N1. rewrite <- N2 in N1. injection N1 as Hn' Hd'.
  split; [assumption|]. split; [assumption|]. split; [|split; assumption].
  assert (Hlow : forall r, R s r -> (buffer r) mod 2 ^ (nbits r) = s mod 2 ^ (nbits r)).
  { intros r HR. pose proof HR as (Hnr & HB & _ & _ & _ & Hlow & _).
    apply Z.bits_inj'. intros i Hi. destruct (Z_lt_ge_dec i (nbits r)) as [Hlt|Hge].
    - rewrite !Z.mod_pow2_bits_low by lia. apply Hlow. lia.
    - rewrite !Z.mod_pow2_bits_high by lia. reflexivity. }
  rewrite (Hlow r1' R1), (Hlow r2' R2), Hn'. reflexivity.
Qed.

(* at exhaustion the buffer is exactly the rest of the stream: nothing above nbits *)
Theorem exhausted_buffer s r : R s r -> data r = [] -> buffer r = s /\ s < 2 ^ nbits r.
Proof.
  intros (Hn & HB & Hd & Hs & Hsh & Hlow & Hsub) He. rewrite He in Hsh. cbn [V] in Hsh.
  assert (Hhigh : forall i, nbits r <= i -> Z.testbit s i = false).
  { intros i Hi. replace i with (i - nbits r + nbits r) by lia. rewrite <- Z.shiftr_spec by lia. rewrite Hsh. apply Z.bits_0. }
  split.
  - apply Z.bits_inj'. intros i Hi. destruct (Z_lt_ge_dec i (nbits r)) as [Hlt|Hge]; [apply Hlow; lia|].
    rewrite Hhigh by lia. destruct (Z.testbit (buffer r) i) eqn:E; [|reflexivity].
    destruct (Hsub i Hi E) as [Hsi _]. rewrite Hhigh in Hsi by lia. discriminate.
  - rewrite Z.shiftr_div_pow2 in Hsh by lia.
    assert (0 < 2 ^ nbits r) by (apply Z.pow_pos_nonneg; lia).
    apply Z.div_small_iff in Hsh; lia.
Qed.

(* the low k bits of peek_full are true stream bits whenever k <= nbits, or the reader is exhausted *)
Theorem peek_full_low s r k : R s r -> 0 <= k -> (k <= nbits r \/ data r = []) ->
  (peek_full r) mod 2 ^ k = s mod 2 ^ k.
Proof.
  intros HR Hk [Hle|He].
  - destruct HR as (Hn & HB & Hd & Hs & Hsh & Hlow & Hsub). unfold peek_full.
    apply Z.bits_inj'. intros i Hi. destruct (Z_lt_ge_dec i k) as [Hlt|Hge].
    + rewrite !Z.mod_pow2_bits_low by lia. apply Hlow. lia.
    + rewrite !Z.mod_pow2_bits_high by lia. reflexivity.
  - unfold peek_full. destruct (exhausted_buffer s r HR He) as [-> _]. reflexivity.
Qed.

(* ---------- consume / peek ---------- *)
Lemma consume_R s r num : R s r -> 0 <= num <= nbits r ->
  exists r', consume r num = Ok r' /\ R (Z.shiftr s num) r' /\ nbits r' = nbits r - num /\ data r' = data r.
Proof.
  intros (Hn & HB & Hd & Hs & Hsh & Hlow & Hsub) Hnum. unfold consume.
  replace (nbits r <? num) with false by (symmetry; apply Z.ltb_ge; lia).
  replace ((num <? 0) || (64 <=? num)) with false.
  2:{ symmetry. apply orb_false_iff. split; [apply Z.ltb_ge | apply Z.leb_gt]; lia. }
  eexists. split; [reflexivity|]. cbn [nbits data]. split; [|split; reflexivity].
  unfold R. cbn [nbits buffer data]. repeat split; try lia; auto.
  - apply Z.shiftr_nonneg. assumption.
  - apply Z.shiftr_nonneg. assumption.
  - rewrite Z.shiftr_shiftr by lia. replace (num + (nbits r - num)) with (nbits r) by lia. exact Hsh.
  - intros i Hi. rewrite !Z.shiftr_spec by lia. apply Hlow. lia.
  - rewrite Z.shiftr_spec in H0 by lia. rewrite Z.shiftr_spec by lia. apply (Hsub (i + num)); [lia | assumption].
  - rewrite Z.shiftr_spec in H0 by lia. destruct (Hsub (i + num) ltac:(lia) H0). lia.
Qed.

Lemma consume_short r num : nbits r < num -> consume r num = Err EBitStreamError.
Proof. intros H. unfold consume. replace (nbits r <? num) with true by (symmetry; apply Z.ltb_lt; lia). reflexivity. Qed.

Lemma peek_R s r num : R s r -> 0 <= num <= nbits r -> peek r num = Ok (s mod 2 ^ num).
Proof.
  intros HR Hnum. pose proof HR as (Hn & _). unfold peek.
  replace ((num <? 0) || (64 <=? num)) with false.
  2:{ symmetry. apply orb_false_iff. split; [apply Z.ltb_ge | apply Z.leb_gt]; lia. }
  f_equal. rewrite Z.land_ones by lia. apply (peek_full_low s r num HR); lia.
Qed.

(* ---------- the schedule-free specification machine ---------- *)
(* state: valid bit count, bytes still in the reader, the unread stream as an integer *)
Definition astate := (Z * list Z * Z)%type.
Definition abs (s : Z) (r : t) : astate := (nbits r, data r, s).

Definition afill (a : astate) : astate := let '(n, d, s) := a in let '(n', d') := fill_nd n d in (n', d', s).
Definition aconsume (a : astate) (num : Z) : res astate :=
  let '(n, d, s) := a in
  if n <? num then Err EBitStreamError else
  if (num <? 0) || (64 <=? num) then Panic PShift else Ok (n - num, d, Z.shiftr s num).
Definition apeek (a : astate) (num : Z) : res Z :=
  let '(n, d, s) := a in if (num <? 0) || (64 <=? num) then Panic PShift else Ok (s mod 2 ^ num).
Definition aread_bits (a : astate) (tbits num : Z) : res (Z * astate) :=
  if (tbits <? num) || (32 <? num) then Panic PAssert else
  let a1 := if fst (fst a) <? num then afill a else a in
  bind (aconsume a1 num) (fun a2 => Ok ((snd a1) mod 2 ^ num, a2)).

Definition astep (a : astate) (o : brop) : res (list Z * astate) :=
  match o with
  | OFill => Ok ([], afill a)
  | OReadBits tb n => bind (aread_bits a tb n) (fun '(v, a') => Ok ([v], a'))
  | OConsume n => bind (aconsume a n) (fun a' => Ok ([], a'))
  | OTake n => bind (apeek a n) (fun v => bind (aconsume a n) (fun a' => Ok ([v], a')))
  end.

Fixpoint arun_from (a : astate) (ops : list brop) (acc : list Z) : list Z * res astate :=
  match ops with
  | [] => (acc, Ok a)
  | o :: tl => match astep a o with
               | Ok (vs, a') => arun_from a' tl (vs ++ acc)
               | Err e => (acc, Err e)
               | Panic p => (acc, Panic p)
               | OutOfFuel => (acc, OutOfFuel)
               end
  end.

Definition aobserve (a : astate) : Z * list Z * Z := let '(n, d, s) := a in (n, d, s mod 2 ^ n).

(* what a script delivers according to the stream semantics alone; no schedule, no reservoir *)
Definition spec_run (d : list Z) (ops : list brop) : list Z * res (Z * list Z * Z) :=
  let '(vs, a) := arun_from (0, d, V d) ops [] in (rev vs, rmap aobserve a).

(* a concrete step is matched by the abstract one *)
Definition match_res {A B} (P : A -> B -> Prop) (x : res A) (y : res B) : Prop :=
  match x, y with
  | Ok a, Ok b => P a b
  | Err e, Err e' => e = e'
  | Panic p, Panic p' => p = p'
  | OutOfFuel, OutOfFuel => True
  | _, _ => False
  end.

Definition rel_state (r : t) (a : astate) : Prop := exists s, a = abs s r /\ R s r.

Lemma afill_rel r a : rel_state r a -> exists r', fill r = Ok r' /\ rel_state r' (afill a).
Proof.
  intros (s & -> & HR). destruct (fill_ok s r HR) as (r' & Hf & HR' & Hnd).
  exists r'. split; [assumption|]. exists s. split; [|assumption].
  unfold afill, abs. rewrite <- Hnd. reflexivity.
Qed.

Lemma aconsume_rel r a num : rel_state r a -> match_res rel_state (consume r num) (aconsume a num).
Proof.
  intros (s & -> & HR). unfold abs, aconsume.
  destruct (nbits r <? num) eqn:E.
  - apply Z.ltb_lt in E. rewrite consume_short by assumption. reflexivity.
  - apply Z.ltb_ge in E. destruct ((num <? 0) || (64 <=? num)) eqn:E2.
    + unfold consume. replace (nbits r <? num) with false by (symmetry; apply Z.ltb_ge; lia). rewrite E2. reflexivity.
    + apply orb_false_iff in E2. destruct E2 as [E2 E3]. apply Z.ltb_ge in E2.
      destruct (consume_R s r num HR ltac:(lia)) as (r' & Hc & HR' & Hn' & Hd').
      rewrite Hc. cbn [match_res]. exists (Z.shiftr s num). split; [|assumption].
      unfold abs. rewrite Hn', Hd'. reflexivity.
Qed.

Lemma step_rel r a o : rel_state r a ->
  match_res (fun x y => fst x = fst y /\ rel_state (snd x) (snd y)) (step r o) (astep a o).
Proof.
  intros Hrel. destruct o as [|tb n|n|n]; cbn [step astep].
  - destruct (afill_rel r a Hrel) as (r' & Hf & Hrel'). rewrite Hf. cbn [bind match_res fst snd]. auto.
  - unfold read_bits, aread_bits. destruct ((tb <? n) || (32 <? n)) eqn:EA; [reflexivity|].
    apply orb_false_iff in EA. destruct EA as [EA1 EA2]. apply Z.ltb_ge in EA1. apply Z.ltb_ge in EA2.
    assert (Hstep1 : exists r1, (if nbits r <? n then fill r else Ok r) = Ok r1 /\
                                rel_state r1 (if fst (fst a) <? n then afill a else a)).
    { destruct Hrel as (s & -> & HR). unfold abs. cbn [fst].
      destruct (nbits r <? n); [apply afill_rel | exists r; split; [reflexivity|]]; exists s; auto. }
    destruct Hstep1 as (r1 & -> & Hrel1). set (a1 := if fst (fst a) <? n then afill a else a) in *.
    cbn [bind]. destruct Hrel1 as (s1 & Ha1 & HR1). rewrite Ha1. unfold abs. cbn [snd].
    destruct (Z_lt_ge_dec n 0) as [Hneg|Hnn].
    { (* negative count: peek panics on both sides *)
      unfold peek, aconsume. replace ((n <? 0) || (64 <=? n)) with true by (symmetry; apply orb_true_iff; left; apply Z.ltb_lt; lia).
      cbn [bind]. pose proof HR1 as (Hn1 & _). replace (nbits r1 <? n) with false by (symmetry; apply Z.ltb_ge; lia).
      reflexivity. }
    destruct (Z_lt_ge_dec (nbits r1) n) as [Hshort|Hlong].
    + (* not enough bits: peek may deliver anything, consume fails *)
      unfold peek. replace ((n <? 0) || (64 <=? n)) with false.
      2:{ symmetry. apply orb_false_iff. split; [apply Z.ltb_ge | apply Z.leb_gt]; lia. }
      cbn [bind]. rewrite consume_short by assumption. cbn [bind].
      unfold aconsume. replace (nbits r1 <? n) with true by (symmetry; apply Z.ltb_lt; lia). reflexivity.
    + rewrite (peek_R s1 r1 n HR1) by lia. cbn [bind].
      destruct (consume_R s1 r1 n HR1 ltac:(lia)) as (r2 & Hc & HR2 & Hn2 & Hd2). rewrite Hc. cbn [bind].
      unfold aconsume. replace (nbits r1 <? n) with false by (symmetry; apply Z.ltb_ge; lia).
      pose proof HR1 as (Hn1 & _).
      replace ((n <? 0) || (64 <=? n)) with false.
      2:{ symmetry. apply orb_false_iff. split; [apply Z.ltb_ge | apply Z.leb_gt]; lia. }
      cbn [bind].
      assert (Hv : (s1 mod 2 ^ n) mod 2 ^ 32 = s1 mod 2 ^ n).
      { apply Z.mod_small. pose proof (Z.mod_pos_bound s1 (2 ^ n) ltac:(apply Z.pow_pos_nonneg; lia)).
        assert (2 ^ n <= 2 ^ 32) by (apply Z.pow_le_mono_r; lia). lia. }
      rewrite Hv.
      assert (Hlt : s1 mod 2 ^ n <? 2 ^ tb = true).
      { apply Z.ltb_lt. pose proof (Z.mod_pos_bound s1 (2 ^ n) ltac:(apply Z.pow_pos_nonneg; lia)).
        assert (2 ^ n <= 2 ^ tb) by (apply Z.pow_le_mono_r; lia). lia. }
      rewrite Hlt. cbn [match_res fst snd]. split; [reflexivity|]. cbn [fst snd].
      exists (Z.shiftr s1 n). split; [|assumption]. unfold abs. rewrite Hn2, Hd2. reflexivity.
  - pose proof (aconsume_rel r a n Hrel) as H. destruct (consume r n), (aconsume a n); cbn [match_res bind] in *; auto; contradiction.
  - destruct Hrel as (s & -> & HR). unfold abs, apeek. unfold peek at 1.
    destruct ((n <? 0) || (64 <=? n)) eqn:E; [reflexivity|]. cbn [bind].
    apply orb_false_iff in E. destruct E as [E1 E2]. apply Z.ltb_ge in E1. apply Z.leb_gt in E2.
    destruct (Z_lt_ge_dec (nbits r) n) as [Hshort|Hlong].
    + rewrite consume_short by assumption. unfold aconsume.
      replace (nbits r <? n) with true by (symmetry; apply Z.ltb_lt; lia). reflexivity.
    + pose proof (peek_R s r n HR ltac:(lia)) as Hp. unfold peek in Hp.
      replace ((n <? 0) || (64 <=? n)) with false in Hp.
      2:{ symmetry. apply orb_false_iff. split; [apply Z.ltb_ge | apply Z.leb_gt]; lia. }
      injection Hp as Hp. rewrite Hp.
      destruct (consume_R s r n HR ltac:(lia)) as (r2 & Hc & HR2 & Hn2 & Hd2). rewrite Hc.
      unfold aconsume. replace (nbits r <? n) with false by (symmetry; apply Z.ltb_ge; lia).
      replace ((n <? 0) || (64 <=? n)) with false.
      2:{ symmetry. apply orb_false_iff. split; [apply Z.ltb_ge | apply Z.leb_gt]; lia. }
      cbn [bind match_res fst snd]. split; [reflexivity|]. cbn [fst snd].
      exists (Z.shiftr s n). split; [|assumption]. unfold abs. rewrite Hn2, Hd2. reflexivity.
Qed.

Lemma run_from_rel : forall ops r a acc, rel_state r a ->
  fst (run_from r ops acc) = fst (arun_from a ops acc) /\
  match_res rel_state (snd (run_from r ops acc)) (snd (arun_from a ops acc)).
Proof.
  induction ops as [|o tl IH]; intros r a acc Hrel; cbn [run_from arun_from].
  - cbn [fst snd match_res]. auto.
  - pose proof (step_rel r a o Hrel) as H.
    destruct (step r o) as [[vs r']| | |], (astep a o) as [[vs' a']| | |]; cbn [match_res fst snd] in H; try contradiction.
    + destruct H as [-> H]. apply IH. assumption.
    + subst. cbn [fst snd match_res]. auto.
    + subst. cbn [fst snd match_res]. auto.
    + cbn [fst snd match_res]. auto.
Qed.

Lemma observe_rel r a : rel_state r a -> observe r = aobserve a.
Proof.
  intros (s & -> & HR). unfold observe, aobserve, abs. f_equal.
  pose proof HR as (Hn & _). apply (peek_full_low s r (nbits r) HR); lia.
Qed.

(* ---------- results ---------- *)
(* Every script behaves as the stream semantics says, whatever the reader's chunking. *)
Theorem run_spec : forall d sch ops, Forall byte d -> run d sch ops = spec_run d ops.
Proof.
  intros d sch ops Hd. unfold run, spec_run.
  assert (Hrel : rel_state (init d sch) (0, d, V d)).
  { exists (V d). split; [reflexivity | apply R_init; assumption]. }
  pose proof (run_from_rel ops (init d sch) (0, d, V d) [] Hrel) as [H1 H2].
  destruct (run_from (init d sch) ops []) as [vs r]. destruct (arun_from (0, d, V d) ops []) as [vs' a].
  cbn [fst snd] in *. subst vs'. f_equal.
  destruct r, a; cbn [match_res] in H2; try contradiction; cbn [rmap bind]; try congruence.
  f_equal. apply observe_rel. assumption.
Qed.

(* C10, first theorem: the delivered values, the outcome, and the visible part of the final state of a
   fill / read_bits / consume / take script do not depend on how the reader chunks its bytes. *)
Theorem fill_schedule_independent : forall d s1 s2 ops, Forall byte d -> run d s1 ops = run d s2 ops.
Proof. intros d s1 s2 ops Hd. rewrite (run_spec d s1 ops Hd), (run_spec d s2 ops Hd). reflexivity. Qed.

(* C03 for the bit reader: on the states a decoder can reach (R), fill never fails, and read_bits with the
   type-correct counts used by the decoder (num <= tbits, num <= 32) never panics. *)
Theorem fill_no_panic s r : R s r -> exists r', fill r = Ok r'.
Proof. intros HR. destruct (fill_ok s r HR) as (r' & H & _). eauto. Qed.

Theorem read_bits_no_panic s r tb num : R s r -> 0 <= num <= 32 -> num <= tb ->
  (exists v r', read_bits r tb num = Ok (v, r') /\ v = s mod 2 ^ num /\ R (Z.shiftr s num) r') \/
  read_bits r tb num = Err EBitStreamError.
Proof.
  intros HR Hnum Htb.
  assert (Hrel : rel_state r (abs s r)) by (exists s; auto).
  pose proof (step_rel r (abs s r) (OReadBits tb num) Hrel) as H. cbn [step astep] in H.
  unfold aread_bits in H.
  replace ((tb <? num) || (32 <? num)) with false in H.
  2:{ symmetry. apply orb_false_iff. split; apply Z.ltb_ge; lia. }
  set (a1 := if fst (fst (abs s r)) <? num then afill (abs s r) else abs s r) in *.
  assert (Ha1 : exists n1 d1, a1 = (n1, d1, s)).
  { unfold a1, abs, afill. cbn [fst]. destruct (nbits r <? num); [destruct (fill_nd (nbits r) (data r))|]; eauto. }
  destruct Ha1 as (n1 & d1 & Ha1). rewrite Ha1 in H. unfold aconsume in H. cbn [snd] in H.
  destruct (n1 <? num) eqn:E.
  - right. cbn [bind] in H. destruct (read_bits r tb num) as [[v r']| | |]; cbn [bind match_res] in H; try contradiction. congruence.
  - replace ((num <? 0) || (64 <=? num)) with false in H.
    2:{ symmetry. apply orb_false_iff. split; [apply Z.ltb_ge | apply Z.leb_gt]; lia. }
    cbn [bind] in H. left.
    destruct (read_bits r tb num) as [[v r']| | |]; cbn [bind match_res fst snd] in H; try contradiction.
    destruct H as [Hv (s' & Hs' & HR')]. injection Hv as ->. exists (s mod 2 ^ num), r'. split; [reflexivity|]. split; [reflexivity|].
    unfold abs in Hs'. injection Hs' as _ _ <-. exact HR'.
Qed.

(* the hypotheses are satisfiable: the unit test of lossless.rs, read through three different readers *)
Example run_example :
  run [156; 65; 225] [] [OReadBits 8 3; OReadBits 8 2; OReadBits 8 6; OReadBits 16 10; OReadBits 8 3]
  = ([4; 3; 12; 40; 7], Ok (0, [], 0)) /\
  run [156; 65; 225] [1; 1; 1; 1; 1; 1; 1; 1] [OReadBits 8 3; OReadBits 8 2; OReadBits 8 6; OReadBits 16 10; OReadBits 8 3]
  = ([4; 3; 12; 40; 7], Ok (0, [], 0)) /\
  fst (run [1; 2; 3; 4; 5; 6; 7; 8; 9; 10; 11; 12] [] [OFill; OTake 20; OFill; OReadBits 32 30])
  = fst (run [1; 2; 3; 4; 5; 6; 7; 8; 9; 10; 11; 12] [3; 1; 2; 1; 1; 9; 1; 1] [OFill; OTake 20; OFill; OReadBits 32 30]).
Proof. vm_compute. repeat split. Qed.
