(* Glue of read_image / read_frame, part 8 (C03): no byte string makes the modelled glue panic.
   For EVERY file (any bytes) that WebPDecoder::new accepts, every buffer and -- for the frame payloads -- every offset, provided
   the VP8 frame decoder itself never panics and hands over planes of the size it announces ([vp8_safe], the C02/C03 link):
     read_image_no_panic            read_image on a file that is not animated: Ok or Err, never Panic / OutOfFuel;
     decode_frame_payload_no_panic  the loop locating the next ANMF chunk (never out of fuel), the ANMF parsing and the three
                                    payload branches of read_frame: Ok or Err.
   The lossless decoder is covered by RS.frame_safe / RS.frame_implicit_safe (Properties/C03.v), the container layer by
   Proofs/Container_safety.v, the plane writers by C13, the alpha loop by Proofs/Alpha_unfilter.v.  (The back half of read_frame
   -- canvas and compositing -- is Model.Anim's, see Proofs/Anim_*.v.) *)
From Coq Require Import ZArith List Bool Lia Arith.
From WebP Require Import Lib.Res Lib.ZBits Spec.Container Spec.YUV Spec.Alpha Model.Alpha Model.Yuv Model.Still.
From WebP Require Import Proofs.Container_bytes Proofs.Container_safety Proofs.C13_yuv Proofs.Alpha_unfilter
  Proofs.ReadImage_base Proofs.ReadImage_lossy.
From WebP Require Proofs.ReadImage_vp8l Model.Lossless Model.Anim.
From WebP Require Import Model.ReadImage.
Import ListNotations.
Open Scope Z_scope.

Ltac Zify.zify_post_hook ::= Z.div_mod_to_equations.

(* the link to the VP8 frame decoder: it never panics, and what it returns is a frame *)
Definition vp8_safe (vp8 : list Z -> res (Z * Z * list Z * list Z * list Z)) : Prop :=
  forall data, match vp8 data with
               | Ok (w, h, yp, up, vp) => planes_ok w h yp up vp
               | Err _ => True
               | Panic _ | OutOfFuel => False
               end.

(* ---------------------------------------------------------------------------------------------- *)
(* what `new` guarantees about the dimensions                                                       *)
(* ---------------------------------------------------------------------------------------------- *)
Lemma add_u32_inv a b c : M.add_u32 a b = Ok c -> c = a + b /\ a + b <= 4294967295.
Proof. unfold M.add_u32, M.u32_max. destruct (a + b <=? 4294967295) eqn:E; intros H; inversion H. apply Z.leb_le in E. auto. Qed.

Lemma land14_range x : 0 <= Z.land x 16383 <= 16383.
Proof.
  assert (E : Z.land x 16383 = x mod 16384) by (change 16383 with (Z.ones 14); rewrite Z.land_ones by lia; reflexivity).
  rewrite E. lia.
Qed.

Ltac inv_step H :=
  match type of H with
  | bind ?r _ = Ok _ => let E := fresh "E" in destruct r eqn:E; cbn [bind] in H; [| discriminate H ..]
  | (if ?b then _ else _) = Ok _ => let E := fresh "B" in destruct b eqn:E; [discriminate H|]
  end;
  repeat match goal with x : (_ * _)%type |- _ => destruct x end; cbv beta iota zeta in H.

Lemma read_extended_header_dims d p info p' :
  M.read_extended_header d p = Ok (info, p') -> M.e_canvas_width info * M.e_canvas_height info <= 4294967295.
Proof.
  intros H. unfold M.read_extended_header in H.
  do 6 inv_step H.
  match type of H with (if M.u32_max <? ?a * ?b then _ else _) = _ =>
    destruct (M.u32_max <? a * b) eqn:Echk; [discriminate H|] end.
  apply Z.ltb_ge in Echk. unfold M.u32_max in Echk.
  apply Ok_inj in H. inversion H. subst info. cbn [M.e_canvas_width M.e_canvas_height]. exact Echk.
Qed.

Lemma new_dims_bound d dec : M.new d = Ok dec -> M.d_width dec * M.d_height dec <= 4294967295.
Proof.
  intros H. unfold M.new in H.
  inv_step H. inv_step H. inv_step H. inv_step H. inv_step H.
  match type of H with match ?c with M.KRIFF => _ | _ => _ end = _ => destruct c; try discriminate H end.
  - (* VP8 *)
    repeat inv_step H. apply Ok_inj in H. subst dec. unfold M.mk_decoder. cbn [M.d_width M.d_height].
    match goal with |- Z.land ?a 16383 * Z.land ?b 16383 <= _ => pose proof (land14_range a); pose proof (land14_range b) end. nia.
  - (* VP8L *)
    repeat inv_step H. apply Ok_inj in H. subst dec. unfold M.mk_decoder. cbn [M.d_width M.d_height].
    repeat match goal with E : M.add_u32 (Z.land ?a 16383) 1 = Ok _ |- _ => apply add_u32_inv in E; pose proof (land14_range a) end.
    nia.
  - (* VP8X *)
    inv_step H.
    match goal with E : M.read_extended_header _ _ = Ok _ |- _ => pose proof (read_extended_header_dims _ _ _ _ E) as Hd end.
    do 3 inv_step H.
    match type of H with (if ?b then _ else _) = _ => destruct b; [discriminate H|] end.
    repeat inv_step H. apply Ok_inj in H. subst dec. unfold M.mk_decoder. cbn [M.d_width M.d_height]. exact Hd.
Qed.

(* ---------------------------------------------------------------------------------------------- *)
(* pieces                                                                                           *)
(* ---------------------------------------------------------------------------------------------- *)
Lemma window_bytes d p n : all_bytes d = true -> Forall byte (window d p n).
Proof.
  intros Hb. unfold window. destruct (M.len d <=? p); [constructor|]. apply all_bytes_Forall. apply all_bytes_slice. exact Hb.
Qed.

Lemma range_reader_safe d m k r : all_bytes d = true -> map_ok big m -> M.lookup k m = Some r ->
  exists rd, range_reader d r = Ok rd /\ Forall byte rd.
Proof.
  intros Hb Hm E. destruct (map_ok_lookup _ _ _ _ Hm E) as [[_ Hse] _].
  unfold range_reader. rewrite sub_u64_ok by lia. cbn [bind]. eexists. split; [reflexivity | apply window_bytes; exact Hb].
Qed.

Lemma extract_green_length : forall data g, length (extract_green data g) = length g.
Proof.
  intros data. induction data as [|a|a b|a b c|r gg b a data IH] using Still_glue.list_ind4; intros g; try (destruct g; reflexivity).
  destruct g as [|x g]; [reflexivity|]. cbn [extract_green length]. rewrite IH. reflexivity.
Qed.

Lemma pre_cases z :
  (exists b, match z with 0 => Ok false | 1 => Ok true | _ => Err EInvalidAlphaPreprocessing end = Ok b)
  \/ match z with 0 => Ok false | 1 => Ok true | _ => @Err bool EInvalidAlphaPreprocessing end = Err EInvalidAlphaPreprocessing.
Proof. destruct z as [|[q|q|]|q]; eauto. Qed.

Lemma comp_cases z :
  (exists b, match z with 0 => Ok false | 1 => Ok true | _ => Err EInvalidCompressionMethod end = Ok b)
  \/ match z with 0 => Ok false | 1 => Ok true | _ => @Err bool EInvalidCompressionMethod end = Err EInvalidCompressionMethod.
Proof. destruct z as [|[q|q|]|q]; eauto. Qed.

Lemma filter_cases z : 0 <= z <= 3 ->
  exists f, match z with 0 => Ok FNone | 1 => Ok FHorizontal | 2 => Ok FVertical | 3 => Ok FGradient | _ => Panic PUnreachable end = Ok f.
Proof. intros H. assert (C : z = 0 \/ z = 1 \/ z = 2 \/ z = 3) by lia. destruct C as [-> | [-> | [-> | ->]]]; eauto. Qed.

(* read_alpha_chunk on any bytes: an alpha plane of the announced size, or an error *)
Lemma read_alpha_chunk_safe rd w h : Forall byte rd -> 1 <= w <= 16384 -> 1 <= h <= 16384 ->
  (exists ac, read_alpha_chunk rd w h = Ok ac /\ length (ac_data ac) = Z.to_nat (w * h)) \/ (exists e, read_alpha_chunk rd w h = Err e).
Proof.
  intros Hb Hw Hh. destruct rd as [|hb data]; [right; eexists; reflexivity|].
  inversion Hb as [|? ? Hhb Hdata]; subst. unfold byte in Hhb.
  destruct (alpha_header_bits hb Hhb) as (B1 & B2 & B3).
  assert (Hn : 0 <= w * h <= 268435456) by nia.
  unfold read_alpha_chunk. rewrite B1, B2, B3.
  destruct (pre_cases ((hb / 16) mod 4)) as [(pb & ->) | ->]; cbn [bind]; [| right; eexists; reflexivity].
  destruct (filter_cases ((hb / 4) mod 4) ltac:(lia)) as (fm & ->). cbn [bind].
  destruct (comp_cases (hb mod 4)) as [(cb & ->) | ->]; cbn [bind]; [| right; eexists; reflexivity].
  rewrite usz_ok by (unfold M.usize_max, M.u64_max; lia). cbn [bind].
  destruct cb.
  - rewrite usz_ok by (unfold M.usize_max, M.u64_max; lia). cbn [bind].
    assert (Hz : Z.of_nat (length (zeros (w * h * 4))) = 4 * (w * h)) by (rewrite zeros_length by lia; lia).
    destruct (ReadImage_vp8l.decode_frame_implicit_safe data [] w h (zeros (w * h * 4)) Hdata Hz Hw Hh) as [(px & ->) | (e & ->)];
      cbn [bind]; [left | right; eexists; reflexivity].
    eexists. split; [reflexivity|]. cbn [ac_data]. rewrite extract_green_length. unfold zeros. apply repeat_length.
  - destruct (w * h <=? M.len data) eqn:E; cbn [bind]; [left | right; eexists; reflexivity].
    eexists. split; [reflexivity|]. cbn [ac_data]. apply Z.leb_le in E. unfold M.len in E. rewrite firstn_length. lia.
Qed.

Lemma alpha_loop_ok ac fw fh rgb al0 :
  1 <= fw -> 1 <= fh -> length (ac_data ac) = Z.to_nat (fw * fh) ->
  length rgb = (3 * Z.to_nat (fw * fh))%nat -> length al0 = Z.to_nat (fw * fh) ->
  exists out, alpha_loop ac fw fh (SS.weave rgb al0) = Ok out.
Proof.
  intros Hw Hh Ld Lr La. unfold alpha_loop. cbv zeta. rewrite len_M. unfold len. rewrite Ld.
  destruct (fw * fh <=? Z.of_nat (Z.to_nat (fw * fh))) eqn:E; [| apply Z.leb_gt in E; lia].
  replace (firstn (Z.to_nat (fw * fh)) (ac_data ac)) with (ac_data ac) by (rewrite <- Ld; symmetry; apply firstn_all).
  rewrite (alpha_over_weave (ac_filter ac) (Z.to_nat fw) (ac_data ac) rgb al0) by lia. eexists. reflexivity.
Qed.

Section Safe.
Variable vp8 : list Z -> res (Z * Z * list Z * list Z * list Z).
Hypothesis Hvp8 : vp8_safe vp8.

Lemma vp8_cases rd :
  (exists w h yp up vp, vp8 rd = Ok (w, h, yp, up, vp) /\ planes_ok w h yp up vp) \/ (exists e, vp8 rd = Err e).
Proof.
  pose proof (Hvp8 rd) as H. destruct (vp8 rd) as [[[[[w h] yp] up] vp]|e|p|]; try contradiction.
  - left. exists w, h, yp, up, vp. auto.
  - right. eauto.
Qed.

(* ---------------------------------------------------------------------------------------------- *)
(* read_image, still files                                                                          *)
(* ---------------------------------------------------------------------------------------------- *)
Theorem read_image_no_panic file dec buf :
  all_bytes file = true -> len file <= 9223372036854775807 -> M.new file = Ok dec -> M.is_animated dec = false ->
  safe (fst (read_image vp8 dec buf)).
Proof.
  intros Hb Hlen Hnew Hanim.
  destruct (new_safe_ok file Hb Hlen) as [_ Hok]. destruct (Hok dec Hnew) as [Hd Hm].
  pose proof (new_dims_bound file dec Hnew) as Hdim.
  unfold read_image.
  destruct (M.output_buffer_size dec) as [n|] eqn:Eo; [|exact I].
  destruct (M.len buf =? n) eqn:El; cbn [negb]; [|exact I]. apply Z.eqb_eq in El.
  rewrite Hanim.
  assert (Hn : n = M.d_width dec * M.d_height dec * (if M.has_alpha dec then 4 else 3)).
  { unfold M.output_buffer_size in Eo.
    destruct (M.usize_max <? M.d_width dec * M.d_height dec); [discriminate|].
    destruct (M.usize_max <? M.d_width dec * M.d_height dec * (if M.has_alpha dec then 4 else 3)); [discriminate|].
    injection Eo as <-. reflexivity. }
  unfold M.len in El. unfold M.has_alpha in Hn.
  destruct (M.lookup M.KVP8L (M.d_chunks dec)) as [range|] eqn:ELL.
  - (* lossless *)
    unfold read_image_vp8l. rewrite Hd.
    destruct (range_reader_safe file _ _ _ Hb Hm ELL) as (rd & -> & Hrd). cbn [bindb].
    destruct (M.d_has_alpha dec) eqn:Ea.
    + destruct (ReadImage_vp8l.decode_frame_safe rd [] (M.d_width dec) (M.d_height dec) buf Hrd ltac:(lia)) as [(p & ->) | (e & ->)];
        exact I.
    + rewrite usz_ok by (unfold M.usize_max, M.u64_max; lia). cbn [bindb].
      destruct (ReadImage_vp8l.decode_frame_safe rd [] (M.d_width dec) (M.d_height dec) (zeros (M.d_width dec * M.d_height dec * 4)) Hrd
                  ltac:(rewrite zeros_length by lia; lia)) as [(p & ->) | (e & ->)]; exact I.
  - (* lossy *)
    unfold read_image_vp8. rewrite Hd.
    destruct (M.lookup M.KVP8 (M.d_chunks dec)) as [range|] eqn:EL8; [|exact I].
    destruct (range_reader_safe file _ _ _ Hb Hm EL8) as (rd & -> & Hrd). cbn [bindb].
    destruct (vp8_cases rd) as [(w & h & yp & up & vp & -> & Hpl) | (e & ->)]; [|exact I]. cbn [bindb].
    destruct (w =? M.d_width dec) eqn:Ew; [|exact I]. destruct (h =? M.d_height dec) eqn:Eh; [|exact I].
    apply Z.eqb_eq in Ew, Eh. cbn [negb orb].
    destruct Hpl as (Rw & Rh & Ly & Lu & Lv & By & Bu & Bv).
    assert (Hnn : Z.to_nat (w * h) = (Z.to_nat w * Z.to_nat h)%nat) by (rewrite Z2Nat.inj_mul by lia; reflexivity).
    unfold M.has_alpha. rewrite <- Ew, <- Eh in Hn.
    destruct (M.d_has_alpha dec).
    + rewrite (fill_rgba_spec_lemma (Z.to_nat w) (Z.to_nat h) yp up vp buf) by (try assumption; lia). cbn [bindb].
      destruct (rgba_plane_weave (Z.to_nat w) yp up vp buf (Z.to_nat h) Ly) as (al0 & -> & L0 & Lr).
      destruct (M.lookup M.KALPH (M.d_chunks dec)) as [arange|] eqn:ELA; [|exact I].
      destruct (range_reader_safe file _ _ _ Hb Hm ELA) as (ard & -> & Hard). cbn [bindb].
      rewrite <- Ew, <- Eh. rewrite !Z.mod_small by lia.
      destruct (read_alpha_chunk_safe ard w h Hard ltac:(lia) ltac:(lia)) as [(ac & -> & Lac) | (e & ->)]; [|exact I]. cbn [bindb].
      destruct (alpha_loop_ok ac w h (rgb_plane (Z.to_nat w) (Z.to_nat h) yp up vp) al0) as (out & ->); try lia. exact I.
    + rewrite (fill_rgb_spec_lemma (Z.to_nat w) (Z.to_nat h) yp up vp buf) by (try assumption; lia). exact I.
Qed.

(* ---------------------------------------------------------------------------------------------- *)
(* the payload branches of read_frame                                                               *)
(* ---------------------------------------------------------------------------------------------- *)
Lemma zeros_len n : 0 <= n -> length (zeros n) = Z.to_nat n.
Proof. intros _. unfold zeros. apply repeat_length. Qed.

Lemma payload_vp8_safe rd fw fh : 1 <= fw <= 16384 -> 1 <= fh <= 16384 -> safe (payload_vp8 vp8 rd fw fh).
Proof.
  intros Hw Hh. unfold payload_vp8.
  destruct (vp8_cases rd) as [(w & h & yp & up & vp & -> & Hpl) | (e & ->)]; [|exact I]. cbn [bind].
  destruct (w =? fw) eqn:Ew; [|exact I]. destruct (h =? fh) eqn:Eh; [|exact I].
  apply Z.eqb_eq in Ew, Eh. subst fw fh. cbn [negb orb].
  destruct Hpl as (Rw & Rh & Ly & Lu & Lv & By & Bu & Bv).
  rewrite usz_ok by (unfold M.usize_max, M.u64_max; nia). cbn [bind].
  rewrite (fill_rgb_spec_lemma (Z.to_nat w) (Z.to_nat h) yp up vp (zeros (w * h * 3)))
    by (try assumption; try lia; rewrite zeros_len by nia; rewrite !Z2Nat.inj_mul by lia; reflexivity).
  exact I.
Qed.

Lemma payload_vp8l_safe rd fw fh : Forall byte rd -> 1 <= fw <= 16384 -> 1 <= fh <= 16384 -> safe (payload_vp8l rd fw fh).
Proof.
  intros Hrd Hw Hh. unfold payload_vp8l.
  rewrite usz_ok by (unfold M.usize_max, M.u64_max; nia). cbn [bind].
  destruct (ReadImage_vp8l.decode_frame_safe rd [] fw fh (zeros (fw * fh * 4)) Hrd ltac:(rewrite zeros_length by nia; lia))
    as [(p & ->) | (e & ->)]; exact I.
Qed.

Lemma payload_alph_vp8_safe ac rd fw fh : 1 <= fw <= 16384 -> 1 <= fh <= 16384 -> length (ac_data ac) = Z.to_nat (fw * fh) ->
  safe (payload_alph_vp8 vp8 ac rd fw fh).
Proof.
  intros Hw Hh Lac. unfold payload_alph_vp8.
  destruct (vp8_cases rd) as [(w & h & yp & up & vp & -> & Hpl) | (e & ->)]; [|exact I]. cbn [bind].
  destruct (w =? fw) eqn:Ew; [|exact I]. destruct (h =? fh) eqn:Eh; [|exact I].
  apply Z.eqb_eq in Ew, Eh. subst fw fh. cbn [negb orb].
  destruct Hpl as (Rw & Rh & Ly & Lu & Lv & By & Bu & Bv).
  rewrite usz_ok by (unfold M.usize_max, M.u64_max; nia). cbn [bind].
  assert (Hnn : Z.to_nat (w * h) = (Z.to_nat w * Z.to_nat h)%nat) by (rewrite Z2Nat.inj_mul by lia; reflexivity).
  rewrite (fill_rgba_spec_lemma (Z.to_nat w) (Z.to_nat h) yp up vp (zeros (w * h * 4)))
    by (try assumption; try lia; rewrite zeros_len by nia; rewrite !Z2Nat.inj_mul by lia; reflexivity).
  cbn [bind].
  destruct (rgba_plane_weave (Z.to_nat w) yp up vp (zeros (w * h * 4)) (Z.to_nat h) Ly) as (al0 & -> & L0 & Lr).
  destruct (alpha_loop_ok ac w h (rgb_plane (Z.to_nat w) (Z.to_nat h) yp up vp) al0) as (out & ->); try lia. exact I.
Qed.

(* the loop that locates the next ANMF chunk: with the fuel the model gives it, it ends by an ANMF header or by an error *)
Lemma find_anmf_safe d : all_bytes d = true -> len d <= 9223372036854775807 ->
  forall fuel rp nfs, (0 < fuel)%nat -> 0 <= rp -> nfs <= rp -> len d < rp + 8 * Z.of_nat fuel ->
  safe (fst (find_anmf fuel d rp nfs)).
Proof.
  intros Hb Hlen. induction fuel as [|fuel IH]; intros rp nfs Hf Hrp Hn Hm; [lia|].
  cbn [find_anmf].
  destruct (read_chunk_header_cases d rp Hb) as [(k & sz & rsz & -> & Hsz & Hrsz & Hp0) | ->]; [|exact I].
  cbn [with_nfs].
  assert (Hskip : safe (fst (with_nfs (M.seek_relative (rp + 8) rsz) nfs (fun rp' =>
                         with_nfs (bind (M.add_u64 rsz 8) (fun t => M.add_u64 nfs t)) nfs (fun nfs' => find_anmf fuel d rp' nfs'))))).
  { rewrite seek_relative_ok by (unfold M.u64_max; lia). cbn [with_nfs].
    rewrite add_u64_ok by (unfold M.u64_max; lia). cbn [bind]. rewrite add_u64_ok by (unfold M.u64_max; lia). cbn [with_nfs].
    apply IH; lia. }
  destruct k; try exact Hskip.
  destruct (32 <=? sz); exact I.
Qed.

Lemma frame_body_safe file dec anmf_size p :
  all_bytes file = true -> len file <= 9223372036854775807 -> M.d_data dec = file -> safe (frame_body vp8 dec anmf_size p).
Proof.
  intros Hb Hlen Hd. unfold frame_body. rewrite Hd.
  destruct (read_3_bytes_cases file p Hb) as [(fx & -> & Hfx & _) | ->]; [|exact I]. cbn [bind].
  rewrite add_u32_ok by (unfold M.u32_max; lia). cbn [bind].
  destruct (read_3_bytes_cases file (p + 3) Hb) as [(fy & -> & Hfy & _) | ->]; [|exact I]. cbn [bind].
  rewrite add_u32_ok by (unfold M.u32_max; lia). cbn [bind].
  destruct (read_3_bytes_cases file (p + 3 + 3) Hb) as [(fw1 & -> & Hfw & _) | ->]; [|exact I]. cbn [bind].
  rewrite add_u32_ok by (unfold M.u32_max; lia). cbn [bind].
  destruct (read_3_bytes_cases file (p + 3 + 3 + 3) Hb) as [(fh1 & -> & Hfh & _) | ->]; [|exact I]. cbn [bind].
  rewrite add_u32_ok by (unfold M.u32_max; lia). cbn [bind].
  destruct (16384 <? fw1 + 1) eqn:E1; [exact I|]. destruct (16384 <? fh1 + 1) eqn:E2; [exact I|]. cbn [orb].
  apply Z.ltb_ge in E1, E2.
  rewrite add_u32_ok by (unfold M.u32_max; lia). cbn [bind].
  apply safe_bind.
  { destruct (M.d_width dec <? fx + fx + (fw1 + 1)); [exact I|]. rewrite add_u32_ok by (unfold M.u32_max; lia). exact I. }
  intros outside _. destruct outside; [exact I|].
  destruct (read_3_bytes_cases file (p + 3 + 3 + 3 + 3) Hb) as [(dur & -> & _ & _) | ->]; [|exact I]. cbn [bind].
  destruct (read_u8_cases file (p + 3 + 3 + 3 + 3 + 3) Hb) as [(fl & -> & _ & _) | ->]; [|exact I]. cbn [bind].
  set (q := p + 3 + 3 + 3 + 3 + 3 + 1).
  destruct (read_chunk_header_cases file q Hb) as [(ck & csz & crsz & -> & Hcsz & Hcrsz & Hq) | ->]; [|exact I]. cbn [bind].
  destruct (anmf_size <? crsz + 24); [exact I|].
  apply safe_bind; [|intros [fr ha] _; exact I].
  assert (Hwin : forall p n, Forall byte (window file p n)) by (intros; apply window_bytes; exact Hb).
  destruct ck; try exact I.
  - apply payload_vp8_safe; lia.
  - apply payload_vp8l_safe; [apply Hwin | lia | lia].
  - destruct (anmf_size <? crsz + 32); [exact I|].
    rewrite add_u64_ok by (unfold M.u64_max; lia). cbn [bind].
    rewrite !Z.mod_small by lia.
    destruct (read_alpha_chunk_safe (window file (q + 8) csz) (fw1 + 1) (fh1 + 1) (Hwin _ _) ltac:(lia) ltac:(lia))
      as [(ac & -> & Lac) | (e & ->)]; [|exact I]. cbn [bind].
    destruct (read_chunk_header_cases file (q + 8 + crsz) Hb) as [(nk & nsz & nrsz & -> & _ & _ & _) | ->]; [|exact I]. cbn [bind].
    destruct (anmf_size <? csz + nsz + 32); [exact I|].
    apply payload_alph_vp8_safe; [lia | lia | exact Lac].
Qed.

Theorem decode_frame_payload_no_panic file dec pos :
  all_bytes file = true -> len file <= 9223372036854775807 -> M.new file = Ok dec -> 0 <= pos ->
  safe (fst (decode_frame_payload vp8 dec pos)).
Proof.
  intros Hb Hlen Hnew Hpos.
  destruct (new_safe_ok file Hb Hlen) as [_ Hok]. destruct (Hok dec Hnew) as [Hd _].
  unfold decode_frame_payload. rewrite Hd.
  pose proof (find_anmf_safe file Hb Hlen (S (length file)) pos pos ltac:(lia) Hpos ltac:(lia)
                ltac:(unfold len; lia)) as Hs.
  destruct (find_anmf (S (length file)) file pos pos) as [r nfs]. cbn [fst] in *.
  destruct r as [[sz p]|e|q|]; cbn [bind]; try exact Hs; try exact I.
  apply (frame_body_safe file dec sz p Hb Hlen Hd).
Qed.
End Safe.
