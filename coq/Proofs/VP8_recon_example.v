(* Proofs/VP8_recon_example.v -- the hypotheses of VP8_recon_main.decode_frame_recon_is_spec are satisfiable for every
   well-formed reference parse: the decoder-side inputs (RHdr, MacroBlock + residual list per macroblock) are computed
   from the reference's header / modes / residuals ([hdr_of_spec], [frame_of_spec]); the relations hold whenever a
   boolean well-formedness check passes ([wf_frame_b], [lf_valid_b]).  Closed corollary [recon_of_spec_parse], and a
   concrete key frame (7x27, two macroblocks: TM and B_PRED with non-zero residuals, normal filter level 27,
   sharpness 1, loop-filter deltas present) on which everything is checked by computation. *)
From Coq Require Import ZArith NArith List Bool Lia.
From WebP Require Import Lib.Res Lib.ZBits Lib.Arr Gen.Kernels Gen.Tables Spec.VP8Tables Spec.BoolDec Spec.VP8 Model.Vp8Predict Model.Vp8Recon
  Proofs.VP8_predict_base Proofs.VP8_predict_sub Proofs.VP8_arraykernels
  Proofs.VP8_recon_base Proofs.VP8_recon_plane Proofs.VP8_recon_bytes Proofs.VP8_recon_mb Proofs.VP8_recon_chroma Proofs.VP8_recon_frame
  Proofs.VP8_recon_edge Proofs.VP8_recon_runs Proofs.VP8_recon_stages Proofs.VP8_recon_filter Proofs.VP8_recon_pass Proofs.VP8_recon_main.
From WebP Require Model.Vp8Parse.
Import ListNotations.
Open Scope Z_scope.

(* ------------------------------------------------------------------------------------------------------------ *)
(* 1. decoder-side inputs computed from the reference parse                                                     *)
(* ------------------------------------------------------------------------------------------------------------ *)
Definition hdr_of_spec (hs : header) : RHdr :=
  let seg := fun i => Vp8Parse.mkSeg 0 0 0 0 0 0 (negb (h_absolute hs)) 0 (nthZ (h_seg_filter hs) i 0) in
  mkRHdr (mb_w hs) (mb_h hs) (h_width hs) (h_height hs) (h_simple hs) (h_level hs) (h_sharpness hs) (h_use_segment hs)
         [seg 0; seg 1; seg 2; seg 3]
         [if h_use_lf_delta hs then nthZ (h_ref_lf_delta hs) 0 0 else 0; 0; 0; 0]
         [if h_use_lf_delta hs then nthZ (h_mode_lf_delta hs) 0 0 else 0; 0; 0; 0].

Definition mb_of_spec (m : mbmode) (r : mbres) : Vp8Parse.MacroBlock * list Z :=
  (Vp8Parse.mkMB (if m_i4 m then map bmode_to_rfc (m_imodes m) else repeat 0 16) (repeat 0 9)
                 (if m_i4 m then vp8_B_PRED else ymode_to_rfc (m_ymode m)) (ymode_to_rfc (m_uvmode m))
                 (m_seg m) (m_skip m) (r_nonzero r),
   concat (map (fun b => fst (idct b)) (r_y r ++ r_u r ++ r_v r))).

Fixpoint row_of_spec (ms : list mbmode) (rs : list mbres) : list (Vp8Parse.MacroBlock * list Z) :=
  match ms, rs with
  | m :: mtl, r :: rtl => mb_of_spec m r :: row_of_spec mtl rtl
  | _, _ => []
  end.
Fixpoint frame_of_spec (mss : list (list mbmode)) (rss : list (list mbres)) : list (Vp8Parse.MacroBlock * list Z) :=
  match mss, rss with
  | ms :: mtl, rs :: rtl => row_of_spec ms rs ++ frame_of_spec mtl rtl
  | _, _ => []
  end.

(* well-formedness of the reference parse, as a computable check *)
Definition wf_mb_b (m : mbmode) (r : mbres) : bool :=
  (if m_i4 m then Nat.eqb (length (m_imodes m)) 16 && forallb (fun x => (0 <=? x) && (x <=? 9)) (m_imodes m)
   else (0 <=? m_ymode m) && (m_ymode m <=? 3)) &&
  ((0 <=? m_uvmode m) && (m_uvmode m <=? 3)) && ((0 <=? m_seg m) && (m_seg m <? 4)) &&
  (Nat.eqb (length (r_y r)) 16 && Nat.eqb (length (r_u r)) 4 && Nat.eqb (length (r_v r)) 4) &&
  forallb (fun b => forallb (fun x => x <=? i32_max - 255) (fst (idct b))) (r_y r ++ r_u r ++ r_v r).
Fixpoint wf_row_b (ms : list mbmode) (rs : list mbres) : bool :=
  match ms, rs with
  | m :: mtl, r :: rtl => wf_mb_b m r && wf_row_b mtl rtl
  | [], [] => true
  | _, _ => false
  end.
Fixpoint wf_frame_b (mbw : Z) (mss : list (list mbmode)) (rss : list (list mbres)) : bool :=
  match mss, rss with
  | ms :: mtl, rs :: rtl => (Z.of_nat (length ms) =? mbw) && wf_row_b ms rs && wf_frame_b mbw mtl rtl
  | [], [] => true
  | _, _ => false
  end.
Definition lf_valid_b (hs : header) : bool :=
  ((0 <=? h_level hs) && (h_level hs <=? 63)) && ((0 <=? h_sharpness hs) && (h_sharpness hs <=? 7)) &&
  ((-63 <=? nthZ (h_ref_lf_delta hs) 0 0) && (nthZ (h_ref_lf_delta hs) 0 0 <=? 63)) &&
  ((-63 <=? nthZ (h_mode_lf_delta hs) 0 0) && (nthZ (h_mode_lf_delta hs) 0 0 <=? 63)) &&
  forallb (fun seg =>
    ((-63 <=? nthZ (h_seg_filter hs) seg 0) && (nthZ (h_seg_filter hs) seg 0 <=? 63)) &&
    (let base := if h_use_segment hs then nthZ (h_seg_filter hs) seg 0 + (if h_absolute hs then 0 else h_level hs) else h_level hs in
     (0 <=? base) && (base <=? 63))) [0; 1; 2; 3].

(* ------------------------------------------------------------------------------------------------------------ *)
(* 2. the check implies the relations                                                                           *)
(* ------------------------------------------------------------------------------------------------------------ *)
Ltac andb_split H :=
  repeat match type of H with (_ && _) = true => let H1 := fresh H in apply andb_true_iff in H; destruct H as [H H1] end.

Lemma mb_of_spec_rel m r : wf_mb_b m r = true ->
  mb_rel (fst (mb_of_spec m r)) m /\ res_rel (snd (mb_of_spec m r)) r /\ seg_rel (fst (mb_of_spec m r)) m r.
Proof.
  intros H. unfold wf_mb_b in H.
  apply andb_true_iff in H. destruct H as [H Hres]. apply andb_true_iff in H. destruct H as [H Hlen].
  apply andb_true_iff in H. destruct H as [H Hseg]. apply andb_true_iff in H. destruct H as [Hlum Huv].
  apply andb_true_iff in Huv. destruct Huv as [Hu1 Hu2]. apply Z.leb_le in Hu1. apply Z.leb_le in Hu2.
  apply andb_true_iff in Hseg. destruct Hseg as [Hs1 Hs2]. apply Z.leb_le in Hs1. apply Z.ltb_lt in Hs2.
  apply andb_true_iff in Hlen. destruct Hlen as [Hlen Lv]. apply andb_true_iff in Hlen. destruct Hlen as [Ly Lu].
  apply Nat.eqb_eq in Ly. apply Nat.eqb_eq in Lu. apply Nat.eqb_eq in Lv.
  unfold mb_of_spec. cbn [fst snd]. split; [|split].
  - unfold mb_rel. cbn [Vp8Parse.mb_luma_mode Vp8Parse.mb_bpred Vp8Parse.mb_chroma_mode].
    split; [|split; [lia|reflexivity]].
    destruct (m_i4 m).
    + apply andb_true_iff in Hlum. destruct Hlum as [Li Hi]. apply Nat.eqb_eq in Li.
      split; [reflexivity|]. split; [exact Li|]. split; [|reflexivity].
      apply Forall_forall. intros x Hx. rewrite forallb_forall in Hi. specialize (Hi x Hx).
      apply andb_true_iff in Hi. destruct Hi as [A B]. apply Z.leb_le in A. apply Z.leb_le in B. lia.
    + apply andb_true_iff in Hlum. destruct Hlum as [A B]. apply Z.leb_le in A. apply Z.leb_le in B. split; [lia|reflexivity].
  - unfold res_rel. split; [exact Ly|]. split; [exact Lu|]. split; [exact Lv|]. split; [reflexivity|].
    apply Forall_forall. intros b Hb. rewrite forallb_forall in Hres. specialize (Hres b Hb).
    unfold res_ok. apply Forall_forall. intros x Hx. rewrite forallb_forall in Hres. specialize (Hres x Hx). apply Z.leb_le in Hres. exact Hres.
  - unfold seg_rel. cbn [Vp8Parse.mb_non_zero_coeffs Vp8Parse.mb_segmentid]. split; [reflexivity|]. split; [reflexivity|lia].
Qed.

(* a skipped macroblock: decode_frame_ passes [0i32; 384], the reference has mbres0 *)
Lemma res_rel_skipped : res_rel (repeat 0 384) mbres0.
Proof.
  unfold res_rel. split; [reflexivity|]. split; [reflexivity|]. split; [reflexivity|]. split; [reflexivity|].
  assert (Hall : r_y mbres0 ++ r_u mbres0 ++ r_v mbres0 = repeat zero16 24) by reflexivity.
  rewrite Hall. apply Forall_forall. intros b Hb. apply repeat_spec in Hb. subst b.
  assert (E : fst (idct zero16) = zero16) by (vm_compute; reflexivity). rewrite E.
  unfold res_ok, zero16. repeat constructor; vm_compute; discriminate.
Qed.

Lemma row_of_spec_rel : forall ms rs, wf_row_b ms rs = true -> row_rel (row_of_spec ms rs) ms rs /\ length (row_of_spec ms rs) = length ms.
Proof.
  induction ms as [|m ms IH]; intros [|r rs] H; cbn [wf_row_b] in H; try discriminate.
  - split; [constructor|reflexivity].
  - apply andb_true_iff in H. destruct H as [Hm Hr]. destruct (IH rs Hr) as [R L].
    destruct (mb_of_spec_rel m r Hm) as (A & B & C).
    cbn [row_of_spec length]. split; [|lia].
    destruct (mb_of_spec m r) as [mb bl] eqn:E. cbn [fst snd] in A, B, C. constructor; assumption.
Qed.

Lemma frame_of_spec_rel mbw : forall mss rss, wf_frame_b mbw mss rss = true -> frame_rel mbw (frame_of_spec mss rss) mss rss.
Proof.
  induction mss as [|ms mss IH]; intros [|rs rss] H; cbn [wf_frame_b] in H; try discriminate.
  - constructor.
  - apply andb_true_iff in H. destruct H as [H Hf]. apply andb_true_iff in H. destruct H as [Hl Hr].
    apply Z.eqb_eq in Hl. destruct (row_of_spec_rel ms rs Hr) as [R L].
    cbn [frame_of_spec]. constructor; [exact R|lia|apply IH; exact Hf].
Qed.

Lemma hdr_of_spec_rel hs : 0 < h_width hs -> 0 < h_height hs -> dims_rel (hdr_of_spec hs) hs /\ filt_rel (hdr_of_spec hs) hs.
Proof.
  intros Hw Hh. split.
  - unfold dims_rel, hdr_of_spec. cbn [rh_width rh_height rh_mbwidth rh_mbheight]. repeat split; assumption.
  - unfold filt_rel, hdr_of_spec. cbn [rh_filter_type rh_filter_level rh_sharpness_level rh_segments_enabled rh_segment rh_ref_delta rh_mode_delta].
    repeat (split; [reflexivity|]). split; [|split; reflexivity].
    intros seg Hseg. assert (E : seg = 0 \/ seg = 1 \/ seg = 2 \/ seg = 3) by lia.
    destruct E as [-> | [-> | [-> | ->]]]; eexists; (split; [reflexivity|]); split; reflexivity.
Qed.

Lemma lf_valid_of_b hs : lf_valid_b hs = true -> lf_valid hs.
Proof.
  intros H. unfold lf_valid_b in H.
  apply andb_true_iff in H. destruct H as [H Hseg]. apply andb_true_iff in H. destruct H as [H Hm].
  apply andb_true_iff in H. destruct H as [H Hr]. apply andb_true_iff in H. destruct H as [Hl Hs].
  apply andb_true_iff in Hl. destruct Hl as [L1 L2]. apply andb_true_iff in Hs. destruct Hs as [S1 S2].
  apply andb_true_iff in Hr. destruct Hr as [R1 R2]. apply andb_true_iff in Hm. destruct Hm as [M1 M2].
  apply Z.leb_le in L1, L2, S1, S2, R1, R2, M1, M2.
  unfold lf_valid. repeat (split; [lia|]).
  intros seg Hsg. rewrite forallb_forall in Hseg.
  assert (Hin : In seg [0; 1; 2; 3]) by (cbn [In]; lia).
  specialize (Hseg seg Hin). cbv zeta in Hseg.
  apply andb_true_iff in Hseg. destruct Hseg as [A B].
  apply andb_true_iff in A. destruct A as [A1 A2]. apply andb_true_iff in B. destruct B as [B1 B2].
  apply Z.leb_le in A1, A2, B1, B2. split; lia.
Qed.

(* ------------------------------------------------------------------------------------------------------------ *)
(* 3. closed corollary: no hypothesis about decoder-side data is left                                           *)
(* ------------------------------------------------------------------------------------------------------------ *)
Lemma land14 a : Z.land a 16383 <> 0 -> 0 < Z.land a 16383 <= 16383.
Proof.
  change 16383 with (Z.ones 14). rewrite Z.land_ones by lia. intros H.
  pose proof (Z.mod_pos_bound a (2 ^ 14) ltac:(lia)) as Hb. change (2 ^ 14) with 16384 in *. change (Z.ones 14) with 16383. lia.
Qed.

(* what the reference header parser guarantees about the dimensions (14-bit fields, zero rejected) *)
Lemma parse_header_dims data hs s parts : parse_header data = Some (hs, s, parts) ->
  0 < h_width hs <= 16383 /\ 0 < h_height hs <= 16383.
Proof.
  unfold parse_header. intros H.
  do 10 (destruct data as [|? data]; [discriminate H|]).
  repeat match type of H with
  | (if ?c then None else _) = Some _ => destruct c eqn:?; [discriminate H|]
  end.
  repeat match type of H with
  | (let '(_, _) := ?e in _) = Some _ => destruct e eqn:?
  | match ?e with Some _ => _ | None => None end = Some _ => destruct e eqn:?; [|discriminate H]
  end.
  injection H as <- _ _. cbn [h_width h_height].
  match goal with Hz : (_ =? 0) || (_ =? 0) = false |- _ => apply orb_false_iff in Hz; destruct Hz as [Z1 Z2] end.
  apply Z.eqb_neq in Z1. apply Z.eqb_neq in Z2.
  split; apply land14; assumption.
Qed.

(* one row of modes per macroblock row *)
Lemma parse_mode_rows_length hs : forall rows tops s acc,
  length (fst (parse_mode_rows hs rows tops s acc)) = (rows + length acc)%nat.
Proof.
  induction rows as [|k IH]; intros tops s acc; cbn [parse_mode_rows].
  - cbn [fst]. rewrite rev_append_rev, app_nil_r, rev_length. reflexivity.
  - destruct (parse_mode_row hs (Z.to_nat (mb_w hs)) tops [0; 0; 0; 0] s [] []) as [[row tops'] s'].
    rewrite IH. cbn [length]. lia.
Qed.

Lemma parse_modes_length hs s mss s' : 0 < h_height hs -> parse_modes hs s = (mss, s') -> Z.of_nat (length mss) = mb_h hs.
Proof.
  intros Hh E. unfold parse_modes in E.
  pose proof (parse_mode_rows_length hs (Z.to_nat (mb_h hs)) (tabulate (fun _ => 0) (Z.to_nat (4 * mb_w hs))) s []) as L.
  rewrite E in L. cbn [fst length] in L. destruct (mb_h_bounds hs Hh). lia.
Qed.

Theorem recon_of_spec_parse data hs s parts mss s' rss parts' f :
  parse_header data = Some (hs, s, parts) ->
  parse_modes hs s = (mss, s') ->
  parse_tokens hs mss (map bd_init parts) = (rss, parts') ->
  VP8.decode_frame data = Some f ->
  wf_frame_b (mb_w hs) mss rss = true -> lf_valid_b hs = true ->
  Vp8Recon.decode_frame_planes (hdr_of_spec hs) (frame_of_spec mss rss) = Ok (fr_y f, fr_u f, fr_v f).
Proof.
  intros Eh Em Et Ed Hwf Hlf.
  destruct (parse_header_dims data hs s parts Eh) as [Hw Hh].
  pose proof (parse_modes_length hs s mss s' ltac:(lia) Em) as Hlen.
  destruct (hdr_of_spec_rel hs ltac:(lia) ltac:(lia)) as [Hd Hf].
  apply (decode_frame_recon_is_spec data hs s parts mss s' rss parts' f (hdr_of_spec hs) (frame_of_spec mss rss) Eh Em Et Ed Hd
           ltac:(lia) ltac:(lia) Hf (lf_valid_of_b hs Hlf) (frame_of_spec_rel (mb_w hs) mss rss Hwf) Hlen).
Qed.

(* ------------------------------------------------------------------------------------------------------------ *)
(* 4. a concrete key frame                                                                                      *)
(* ------------------------------------------------------------------------------------------------------------ *)
Definition ex_frame : list Z :=
  [208; 2; 0; 157; 1; 42; 7; 0; 27; 0; 70; 206; 149; 129; 152; 4; 245; 231; 18; 192; 0; 188; 119; 50; 223; 104; 116; 73; 98; 49; 0; 0;
   20; 0; 0; 195; 83; 27; 126; 10; 240; 98; 63; 172; 254; 36; 0; 143; 248; 148; 95; 254; 23; 128; 0; 97; 171; 60; 121; 198; 243; 43;
   100; 28; 223; 112; 115; 2; 247; 245; 40; 255; 228; 246; 0; 0].

(* the reference parse of the example: 7 x 27, one column of two macroblocks (TM, then B_PRED), both with residuals,
   normal filter, level 27, sharpness 1, loop-filter deltas in use *)
Definition ex_parse :=
  match parse_header ex_frame with
  | Some (hs, s, parts) =>
      let '(mss, s') := parse_modes hs s in
      let '(rss, parts') := parse_tokens hs mss (map bd_init parts) in
      Some (hs, mss, rss)
  | None => None
  end.

Example ex_frame_features :
  match ex_parse with
  | Some (hs, mss, rss) =>
      (h_width hs, h_height hs, h_simple hs, h_level hs, h_sharpness hs, h_use_lf_delta hs, nthZ (h_ref_lf_delta hs) 1 0) = (7, 27, false, 27, 1, true, -10) /\
      map (map (fun m => (m_i4 m, m_ymode m))) mss = [[(false, TM_PRED)]; [(true, B_PRED)]] /\
      map (map r_nonzero) rss = [[true]; [true]] /\
      wf_frame_b (mb_w hs) mss rss = true /\ lf_valid_b hs = true
  | None => False
  end.
Proof. vm_compute. repeat split. Qed.

(* the Model, run on the inputs computed from the reference parse, returns the reference's planes: obtained from the
   theorem (not by running the Model) *)
Example ex_frame_recon :
  match ex_parse, VP8.decode_frame ex_frame with
  | Some (hs, mss, rss), Some f =>
      Vp8Recon.decode_frame_planes (hdr_of_spec hs) (frame_of_spec mss rss) = Ok (fr_y f, fr_u f, fr_v f) /\
      length (fr_y f) = 189%nat /\ length (fr_u f) = 56%nat
  | _, _ => False
  end.
Proof.
  unfold ex_parse.
  destruct (parse_header ex_frame) as [[[hs s] parts]|] eqn:Eh; [|vm_compute in Eh; discriminate Eh].
  destruct (parse_modes hs s) as [mss s'] eqn:Em.
  destruct (parse_tokens hs mss (map bd_init parts)) as [rss parts'] eqn:Et.
  destruct (VP8.decode_frame ex_frame) as [f|] eqn:Ed; [|vm_compute in Ed; discriminate Ed].
  pose proof ex_frame_features as Hfeat. unfold ex_parse in Hfeat. rewrite Eh, Em, Et in Hfeat.
  destruct Hfeat as (Efe & Emodes & _ & Hwf & Hlf).
  injection Efe as Ew Ehh _ _ _ _ _.
  split.
  - apply (recon_of_spec_parse ex_frame hs s parts mss s' rss parts' f Eh Em Et Ed); assumption.
  - unfold VP8.decode_frame in Ed. rewrite Eh, Em in Ed. destruct (starved s'); [discriminate|]. rewrite Et in Ed.
    destruct (existsb starved _); [discriminate|]. injection Ed as <-. cbn [fr_y fr_u].
    assert (Hc : forall p w hh, length (VP8.crop p w hh) = (Z.to_nat hh * Z.to_nat w)%nat).
    { intros p w hh. unfold VP8.crop. rewrite crop_rows_spec, app_nil_r. unfold rows_list.
      induction (Z.to_nat hh) as [|n IH]; [reflexivity|]. rewrite seq_S, flat_map_app, app_length, IH. cbn [flat_map length Nat.add].
      rewrite app_nil_r, map_length, seq_length. lia. }
    rewrite !Hc, Ew, Ehh. split; reflexivity.
Qed.

(* ------------------------------------------------------------------------------------------------------------ *)
(* 5. where the crate and libwebp differ: the segment level is clamped before the deltas are added               *)
(* ------------------------------------------------------------------------------------------------------------ *)
(* frame level 60, segment 0 adds 10 (delta mode), ref_lf_delta[0] = -10: the crate (and the RFC 6386 reference decoder)
   clamp 70 to 63 first and filter at level 53, libwebp (Spec.VP8.filter_strength) at level 60.  [lf_valid] excludes
   such headers; this is the class "lf_ambiguous" of DESIGN.md section 0.2, stated here on the Model. *)
Definition amb_hdr : header :=
  mkH 16 16 0 0 0 0 0 true false false [0; 0; 0; 0] [10; 0; 0; 0] [255; 255; 255] false 60 0 true [-10; 0; 0; 0] [0; 0; 0; 0]
      1 0 0 0 0 0 0 [] false 0.

Theorem filter_level_clamp_refuted :
  lf_valid_b amb_hdr = false /\
  filter_parameters (hdr_of_spec amb_hdr) (Vp8Parse.mkMB (repeat 0 16) (repeat 0 9) 0 0 0 false false) = Ok (53, 53, 2) /\
  filter_strength amb_hdr 0 false = mkF (2 * 60 + 60) 60 2.
Proof. vm_compute. repeat split. Qed.
