(* C08 for the two simple layouts (RIFF + 'VP8 ' / RIFF + 'VP8L'), and the statement shared by all layouts. *)
From Coq Require Import ZArith List Bool Lia.
From WebP Require Import Lib.Res Lib.ZBits Spec.Container Proofs.Container_bytes.
From WebP Require Model.Container.
Import ListNotations.
Open Scope Z_scope.

Ltac Zify.zify_post_hook ::= Z.div_mod_to_equations.

(* what a metadata getter must return under a memory limit *)
Definition expect_meta (o : option (list Z)) (limit : Z) : res (option (list Z)) :=
  match o with
  | None => Ok None
  | Some p => if limit <? len p then Err EMemoryLimitExceeded else Ok (Some p)
  end.

Definition expect_loops (n : Z) : M.LoopCount := if n =? 0 then M.Forever else M.Times n.

(* every accessor of decoder [d] returns what container [c] defines *)
Definition accessors_ok (c : container) (d : M.decoder) : Prop :=
  M.dimensions d = dims c
  /\ M.has_alpha d = alpha c
  /\ M.is_animated d = anim c
  /\ M.is_lossy d = lossy c
  /\ M.num_frames d = nframes c
  /\ M.loop_count d = expect_loops (loops c)
  /\ M.loop_duration d = total_duration c
  /\ M.icc_profile d = Ok (icc c) /\ M.exif_metadata d = Ok (exif c) /\ M.xmp_metadata d = Ok (xmp c)
  /\ (forall limit, 0 <= limit ->
        M.icc_profile (M.set_memory_limit d limit) = expect_meta (icc c) limit
        /\ M.exif_metadata (M.set_memory_limit d limit) = expect_meta (exif c) limit
        /\ M.xmp_metadata (M.set_memory_limit d limit) = expect_meta (xmp c) limit)
  /\ M.output_buffer_size d = Some (buffer_size c).

(* unfolding equations ([rewrite] with these instead of [unfold wf in H]: the kernel's conversion of
   [wf (C ...) = true] against an unfolded conjunction is pathologically slow) *)
Lemma wf_simple_lossy_eq v trail :
  wf (SimpleLossy v trail)
  = (file_size (SimpleLossy v trail) <=? 4294967286) && (vp8_ok v && forallb unknown_ok trail).
Proof. reflexivity. Qed.
Lemma wf_simple_lossless_eq l trail :
  wf (SimpleLossless l trail)
  = (file_size (SimpleLossless l trail) <=? 4294967286) && (vp8l_ok l && forallb unknown_ok trail).
Proof. reflexivity. Qed.

(* ---------------------------------------------------------------------------------------------- *)
(* layout of a serialised file                                                                      *)
(* ---------------------------------------------------------------------------------------------- *)
Lemma serialize_layout c :
  at_pos (serialize c) 0 (cc_RIFF ++ le32 (file_size c)) /\ at_pos (serialize c) 8 cc_WEBP
  /\ at_pos (serialize c) 12 (body c ++ []) /\ len (serialize c) = 12 + len (body c).
Proof.
  pose proof (at_pos_whole (serialize c)) as H. unfold serialize in *.
  replace (cc_RIFF ++ le32 (file_size c) ++ cc_WEBP ++ body c)
    with ((cc_RIFF ++ le32 (file_size c)) ++ cc_WEBP ++ body c ++ []) in * by (rewrite app_nil_r, <- !app_assoc; reflexivity).
  split; [exact (at_pos_app_l _ _ _ _ H)|].
  apply at_pos_app_r in H. change (0 + len (cc_RIFF ++ le32 (file_size c))) with 8 in H.
  split; [exact (at_pos_app_l _ _ _ _ H)|].
  apply at_pos_app_r in H. change (8 + len cc_WEBP) with 12 in H.
  split; [exact H|].
  rewrite !len_app, len_nil. change (len cc_RIFF) with 4. change (len cc_WEBP) with 4. rewrite len_le32. lia.
Qed.

Lemma file_size_pos c : 4 <= file_size c.
Proof. unfold file_size. pose proof (len_nonneg (body c)). lia. Qed.

(* the first twelve bytes and the header of the first chunk, common to all layouts *)
Lemma new_prefix c cc pl rest :
  file_size c <= 4294967286 -> body c = ser_chunk cc pl ++ rest -> len cc = 4 ->
  let d := serialize c in
  M.read_chunk_header d 0 = Ok ((M.KRIFF, file_size c, rounded (file_size c)), 8)
  /\ M.read_fourcc d 8 = Ok (M.KWEBP, 12)
  /\ M.read_chunk_header d 12 = Ok ((M.from_fourcc cc, len pl, rounded (len pl)), 20)
  /\ at_pos d 20 pl /\ at_pos d (20 + rounded (len pl)) rest
  /\ len d = 20 + rounded (len pl) + len rest
  /\ len pl <= 4294967274.
Proof.
  intros Hfs Hb Hcc d. destruct (serialize_layout c) as (H0 & H8 & H12 & Hl). fold d in H0, H8, H12, Hl.
  pose proof (file_size_pos c) as Hp.
  assert (Hlen : len (body c) = 8 + rounded (len pl) + len rest).
  { rewrite Hb, len_app, len_ser_chunk4 by exact Hcc. reflexivity. }
  assert (Hpl : len pl <= 4294967274).
  { unfold file_size in Hfs. pose proof (len_nonneg rest). pose proof (len_nonneg pl). unfold rounded in Hlen. lia. }
  split.
  { rewrite (read_chunk_header_at d 0 cc_RIFF (file_size c)) by (try exact H0; try reflexivity; lia). reflexivity. }
  split.
  { rewrite (read_fourcc_at d 8 cc_WEBP) by (try exact H8; reflexivity). reflexivity. }
  rewrite Hb in H12. rewrite <- app_assoc in H12.
  destruct (ser_chunk_header d 12 cc pl (rest ++ []) H12 Hcc) as (Hh & Hpay & Hrest).
  rewrite app_nil_r in Hrest.
  split.
  { rewrite (read_chunk_header_at d 12 cc (len pl)) by (try exact Hh; try exact Hcc; pose proof (len_nonneg pl); lia). reflexivity. }
  split; [exact Hpay|]. split; [exact Hrest|]. split; [lia | exact Hpl].
Qed.

(* ---------------------------------------------------------------------------------------------- *)
(* bit fields                                                                                       *)
(* ---------------------------------------------------------------------------------------------- *)
Lemma land_ones_14 x : 0 <= x -> Z.land x 16383 = x mod 16384.
Proof. intros _. change 16383 with (Z.ones 14). rewrite Z.land_ones by lia. reflexivity. Qed.
Lemma land_1 x : 0 <= x -> Z.land x 1 = x mod 2.
Proof. intros _. change 1 with (Z.ones 1) at 1. rewrite Z.land_ones by lia. reflexivity. Qed.

Lemma even_mod2 x : Z.even x = true -> x mod 2 = 0.
Proof. intros H. apply Z.even_spec in H. destruct H as [k ->]. lia. Qed.

Lemma b2z_range b : 0 <= b2z b <= 1.
Proof. destruct b; cbn; lia. Qed.

Lemma expect_meta_none limit : expect_meta None limit = Ok None.
Proof. reflexivity. Qed.

(* a decoder whose chunk map holds no metadata chunk *)
Lemma no_metadata d :
  M.lookup M.KICCP (M.d_chunks d) = None -> M.lookup M.KEXIF (M.d_chunks d) = None ->
  M.lookup M.KXMP (M.d_chunks d) = None ->
  M.icc_profile d = Ok None /\ M.exif_metadata d = Ok None /\ M.xmp_metadata d = Ok None
  /\ forall limit, M.icc_profile (M.set_memory_limit d limit) = Ok None
                   /\ M.exif_metadata (M.set_memory_limit d limit) = Ok None
                   /\ M.xmp_metadata (M.set_memory_limit d limit) = Ok None.
Proof.
  intros H1 H2 H3.
  unfold M.icc_profile, M.exif_metadata, M.xmp_metadata, M.read_chunk, M.read_chunk_in, M.set_memory_limit.
  cbn [M.d_chunks M.d_data M.d_memory_limit]. rewrite H1, H2, H3. repeat split.
Qed.

Lemma output_buffer_size_ok d :
  0 <= M.d_width d <= 16777216 -> 0 <= M.d_height d <= 16777216 ->
  M.output_buffer_size d = Some (M.d_width d * M.d_height d * (if M.d_has_alpha d then 4 else 3)).
Proof.
  intros Hw Hh. unfold M.output_buffer_size, M.has_alpha.
  assert (0 <= M.d_width d * M.d_height d <= 16777216 * 16777216).
  { split; [apply Z.mul_nonneg_nonneg; lia | apply Z.mul_le_mono_nonneg; lia]. }
  unfold M.usize_max, M.u64_max.
  destruct (_ <? M.d_width d * M.d_height d) eqn:E1; [apply Z.ltb_lt in E1; lia|].
  destruct (M.d_has_alpha d).
  - destruct (_ <? M.d_width d * M.d_height d * 4) eqn:E2; [apply Z.ltb_lt in E2; lia | reflexivity].
  - destruct (_ <? M.d_width d * M.d_height d * 3) eqn:E2; [apply Z.ltb_lt in E2; lia | reflexivity].
Qed.

(* ---------------------------------------------------------------------------------------------- *)
(* simple lossy                                                                                     *)
(* ---------------------------------------------------------------------------------------------- *)
Theorem accessors_spec_simple_lossy v trail :
  wf (SimpleLossy v trail) = true ->
  exists d, M.new (serialize (SimpleLossy v trail)) = Ok d /\ accessors_ok (SimpleLossy v trail) d.
Proof.
  intros Hwf. rewrite wf_simple_lossy_eq in Hwf. set (c := SimpleLossy v trail) in *.
  rewrite !andb_true_iff in Hwf. destruct Hwf as (Hfs & Hv & _). apply Z.leb_le in Hfs.
  unfold vp8_ok in Hv. split_andb.
  destruct (new_prefix c cc_VP8 (vp8_bytes v) (concat (map unknown_bytes trail)) Hfs eq_refl eq_refl)
    as (R0 & R8 & R12 & Hpl & _ & _ & Hsz).
  set (d := serialize c) in *.
  (* the ten header bytes of the key frame *)
  unfold vp8_bytes in Hpl.
  pose proof (at_pos_app_l _ _ _ _ Hpl) as Htag.
  apply at_pos_app_r in Hpl. rewrite len_le24 in Hpl.
  pose proof (at_pos_app_l _ _ _ _ Hpl) as Hmagic.
  apply at_pos_app_r in Hpl. change (len [157; 1; 42]) with 3 in Hpl.
  pose proof (at_pos_app_l _ _ _ _ Hpl) as Hw.
  apply at_pos_app_r in Hpl. rewrite len_le16 in Hpl.
  pose proof (at_pos_app_l _ _ _ _ Hpl) as Hh.
  replace (20 + 3 + 3) with 26 in * by lia. replace (26 + 2) with 28 in * by lia.
  exists (M.mk_decoder d (v_width v) (v_height v) M.Lossy 0 true false 0 (M.Times 1) 0
            [(M.KVP8, (20, 20 + len (vp8_bytes v)))]).
  split.
  - unfold M.new. rewrite R0. cbn [bind M.kind_eqb negb]. rewrite R8. cbn [bind M.kind_eqb negb]. rewrite R12.
    change (M.from_fourcc cc_VP8) with M.KVP8. cbn [bind].
    rewrite (read_u24_at d 20 (v_tag v) Htag) by lia. cbn [bind].
    rewrite land_1 by lia. rewrite (even_mod2 (v_tag v)) by assumption. cbn [Z.eqb negb].
    rewrite (read_exact_at d (20 + 3) [157; 1; 42] 3 Hmagic eq_refl). cbn [bind M.bytes_eqb Z.eqb Pos.eqb andb negb].
    replace (20 + 3 + 3) with 26 by lia.
    rewrite (read_u16_at d 26 _ Hw) by lia. cbn [bind]. replace (26 + 2) with 28 by lia.
    rewrite (read_u16_at d 28 _ Hh) by lia. cbn [bind].
    rewrite !land_ones_14 by lia.
    replace ((v_width v + 16384 * v_hscale v) mod 16384) with (v_width v) by lia.
    replace ((v_height v + 16384 * v_vscale v) mod 16384) with (v_height v) by lia.
    destruct (v_width v =? 0) eqn:E1; [apply Z.eqb_eq in E1; lia|].
    destruct (v_height v =? 0) eqn:E2; [apply Z.eqb_eq in E2; lia|]. cbn [orb].
    rewrite add_u64_ok by (unfold M.u64_max; pose proof (len_nonneg (vp8_bytes v)); lia). cbn [bind].
    reflexivity.
  - unfold accessors_ok, M.mk_decoder.
    match goal with |- context [M.dimensions ?dd] => destruct (no_metadata dd) as (A1 & A2 & A3 & A4); [reflexivity .. |] end.
    split; [reflexivity|]. split; [reflexivity|]. split; [reflexivity|]. split; [reflexivity|].
    split; [reflexivity|]. split; [reflexivity|]. split; [reflexivity|].
    split; [exact A1|]. split; [exact A2|]. split; [exact A3|].
    split; [intros limit _; apply A4|].
    rewrite output_buffer_size_ok by (cbn [M.d_width M.d_height]; lia). reflexivity.
Qed.

(* ---------------------------------------------------------------------------------------------- *)
(* simple lossless                                                                                  *)
(* ---------------------------------------------------------------------------------------------- *)
Lemma vp8l_header_fields w1 h1 a :
  0 <= w1 <= 16383 -> 0 <= h1 <= 16383 -> 0 <= a <= 1 ->
  let header := w1 + 16384 * h1 + 268435456 * a in
  Z.shiftr header 29 = 0 /\ Z.land header 16383 = w1 /\ Z.land (Z.shiftr header 14) 16383 = h1
  /\ Z.land (Z.shiftr header 28) 1 = a.
Proof.
  intros Hw Hh Ha header. subst header.
  rewrite !Z.shiftr_div_pow2 by lia. change (2 ^ 29) with 536870912. change (2 ^ 14) with 16384. change (2 ^ 28) with 268435456.
  rewrite !land_ones_14 by lia. rewrite land_1 by lia. repeat split; lia.
Qed.

Theorem accessors_spec_simple_lossless l trail :
  wf (SimpleLossless l trail) = true ->
  exists d, M.new (serialize (SimpleLossless l trail)) = Ok d /\ accessors_ok (SimpleLossless l trail) d.
Proof.
  intros Hwf. rewrite wf_simple_lossless_eq in Hwf. set (c := SimpleLossless l trail) in *.
  rewrite !andb_true_iff in Hwf. destruct Hwf as (Hfs & Hl & _). apply Z.leb_le in Hfs.
  unfold vp8l_ok in Hl. split_andb.
  destruct (new_prefix c cc_VP8L (vp8l_bytes l) (concat (map unknown_bytes trail)) Hfs eq_refl eq_refl)
    as (R0 & R8 & R12 & Hpl & _ & _ & Hsz).
  set (d := serialize c) in *.
  unfold vp8l_bytes in Hpl.
  pose proof (at_pos_app_l _ _ _ _ Hpl) as Hsig.
  apply at_pos_app_r in Hpl. change (len [47]) with 1 in Hpl.
  pose proof (at_pos_app_l _ _ _ _ Hpl) as Hhdr.
  pose proof (b2z_range (l_alpha l)) as Ha.
  destruct (vp8l_header_fields (l_w1 l) (l_h1 l) (b2z (l_alpha l))) as (F1 & F2 & F3 & F4); try lia.
  exists (M.mk_decoder d (l_w1 l + 1) (l_h1 l + 1) M.Lossless 0 false (negb (b2z (l_alpha l) =? 0)) 0 (M.Times 1) 0
            [(M.KVP8L, (20, 20 + len (vp8l_bytes l)))]).
  split.
  - unfold M.new. rewrite R0. cbn [bind M.kind_eqb negb]. rewrite R8. cbn [bind M.kind_eqb negb]. rewrite R12.
    change (M.from_fourcc cc_VP8L) with M.KVP8L. cbn [bind].
    rewrite (read_u8_at d 20 47 Hsig). cbn [bind Z.eqb Pos.eqb negb].
    rewrite (read_u32_at d (20 + 1) _ Hhdr) by lia. cbn [bind].
    rewrite F1, F2, F3, F4. cbn [Z.eqb negb].
    rewrite !add_u32_ok by (unfold M.u32_max; lia). cbn [bind].
    rewrite add_u64_ok by (unfold M.u64_max; pose proof (len_nonneg (vp8l_bytes l)); lia). cbn [bind].
    reflexivity.
  - unfold accessors_ok, M.mk_decoder.
    match goal with |- context [M.dimensions ?dd] => destruct (no_metadata dd) as (A1 & A2 & A3 & A4); [reflexivity .. |] end.
    split; [reflexivity|].
    split; [unfold M.has_alpha; cbn [M.d_has_alpha alpha c]; destruct (l_alpha l); reflexivity|].
    split; [reflexivity|]. split; [reflexivity|].
    split; [reflexivity|]. split; [reflexivity|]. split; [reflexivity|].
    split; [exact A1|]. split; [exact A2|]. split; [exact A3|].
    split; [intros limit _; apply A4|].
    rewrite output_buffer_size_ok by (cbn [M.d_width M.d_height]; lia).
    cbn [M.d_width M.d_height M.d_has_alpha]. unfold buffer_size. cbn [dims c alpha fst snd].
    destruct (l_alpha l); reflexivity.
Qed.
